(* CoreInvWait.v -- the poll phase of iv_main (iv_fd_poll_and_run): flushing the
   epoll change list, entering the wait, the virtual kernel's answer, activation
   of the reported descriptors, the timer descriptor, the dispatch loop. *)
From Coq Require Import List ZArith Bool Lia.
From Ivv Require Import Core.Kernel Core.CoreTypes Core.CoreFd Core.CoreModel Core.CoreSpec
  Core.CoreInvBase Core.CoreInvDefs Core.CoreInvFd Core.CoreInvPoll Core.CoreInvReg Core.CoreInvObj
  Core.CoreInvTm Core.CoreInvLoop.
From Ivv Require Timer.HeapModel Timer.HeapSpec.
Import ListNotations.
Local Open Scope Z_scope.

(* the timer descriptor exists only under the epoll-timerfd method *)
Definition TfdM (s : core) : Prop := tfd s <> -1 -> method s = M_ET.
Lemma TfdM_tm : forall s s', TfdM s -> tm s s' -> TfdM s'.
Proof. unfold TfdM, tm. intros s s' H (A&B&_). rewrite A, B. exact H. Qed.

(* ---------- a step of the descriptor layer on any key that keeps the registration ---------- *)
Lemma InvW_fdstep_gen : forall k s s', InvW s -> FdStep k s s' -> 0 <= k <= 32 ->
  registered (fdt s' k) = registered (fdt s k) -> FdInv (-1) s' -> sync_at s' k ->
  numfds s' = numfds s -> numobjs s' = numobjs s -> InvW s'.
Proof.
  intros k s s' [A B C D E F G H] S K RG I' SY NF NO. pose proof (fs_rest _ _ _ S) as RS. constructor.
  - assumption.
  - eapply sync_step; eassumption.
  - eapply DynInv_step; try eassumption. intros j J.
    destruct (Z.eq_dec (16 + j) k) as [<-|N]; [assumption|apply (fs_reg _ _ _ S); assumption].
  - rewrite (rs_heap _ _ RS). assumption.
  - eapply TaskInv_same; [apply (rs_tasks _ _ RS)|apply (rs_cur _ _ RS)|assumption].
  - eapply EvInv_same; eassumption.
  - apply (Acct_fd k s s' 0); try assumption; try lia. left. split; [reflexivity|assumption].
  - eapply Misc_step; eassumption.
Qed.

(* what the wait prefix keeps *)
Record KO (s s' : core) : Prop := {
  ko_fdt : fdt s' = fdt s; ko_active : active s' = active s; ko_notify : notify s' = notify s;
  ko_pfds : pfds s' = pfds s; ko_pkeys : pkeys s' = pkeys s; ko_heap : heap s' = heap s;
  ko_cur : cur s' = cur s; ko_evb : ev_batch s' = ev_batch s; ko_tfd : tfd s' = tfd s;
  ko_method : method s' = method s; ko_epfd : epfd s' = epfd s; ko_ep : ep (kern s') = ep (kern s);
  ko_numfds : numfds s' = numfds s; ko_pw : pwait2 s' = pwait2 s;
}.
Lemma KO_refl : forall s, KO s s. Proof. intros; constructor; reflexivity. Qed.
Lemma KO_trans : forall a b c, KO a b -> KO b c -> KO a c.
Proof. intros a b c [] []. constructor; congruence. Qed.
Lemma KO_tm : forall s s', KO s s' -> tm s s'.
Proof. intros s s' []. repeat split; assumption. Qed.
Lemma KO_Q3 : forall s s', KO s s' -> Q3 s -> Q3 s'.
Proof. intros s s' [] (A&B&C). unfold Q3. rewrite ko_heap0, ko_cur0, ko_evb0. tauto. Qed.

(* ---------- iv_fd_epoll_flush_pending ---------- *)
Definition FlPost (s s' : core) : Prop :=
  InvW s' /\ notify s' = [] /\ nwait (kern s') = nwait (kern s) /\ restsame s s' /\ active s' = active s /\
  numfds s' = numfds s /\ kctl (kern s) (kern s') /\
  (forall k, registered (fdt s' k) = true -> regb (fdt s' k) = wanted (fdt s' k)).

Lemma flush_pending_ok : forall fuel s, InvW s -> is_epoll s = true -> (length (notify s) < fuel)%nat ->
  exists s', epoll_flush_pending fuel s = R s' /\ FlPost s s'.
Proof.
  induction fuel as [|f IH]; intros s I E L; [lia|].
  cbn [epoll_flush_pending]. destruct (notify s) as [|k rest] eqn:N.
  - exists s. split; [reflexivity|]. split; [assumption|]. split; [assumption|]. split; [reflexivity|].
    split; [apply restsame_refl|]. split; [reflexivity|]. split; [reflexivity|]. split; [apply kctl_refl|].
    intros k R. destruct (iw_sync _ I k R) as (_ & S & _). specialize (S E). rewrite N in S.
    destruct (Z.eq_dec (regb (fdt s k)) (wanted (fdt s k))); [assumption|]. exfalso. apply (proj2 S). assumption.
  - pose proof (iw_fd _ I) as FI.
    assert (LK : live s (-1) k) by (apply (fv_notify _ _ FI); rewrite N; left; reflexivity).
    destruct (epoll_flush_one_ok (-1) s k FI E LK) as (s1 & F1 & I1 & S1 & K1 & RB & WT & RG & NT).
    rewrite F1. cbn [bind].
    pose proof LK as LK'. apply live_none in LK'. destruct LK' as [KR KG].
    assert (IW1 : InvW s1).
    { apply (InvW_fdstep_gen k s s1); try assumption.
      - intros _. split; [|split].
        + rewrite WT. destruct (iw_sync _ I k KG) as (W & _). rewrite W.
          destruct (fs_hsame _ _ _ S1 k) as (_&A&B&C&_). unfold bands_of. rewrite A, B, C. reflexivity.
        + intros _. rewrite NT, RB, WT. split; [intros Q; apply In_remz in Q; tauto|congruence].
        + intros Q. rewrite (restsame_epoll _ _ (fs_rest _ _ _ S1)) in Q. congruence.
      - apply (ke_numfds _ _ K1).
      - apply (ke_numobjs _ _ K1). }
    assert (E1 : is_epoll s1 = true) by (rewrite (restsame_epoll _ _ (fs_rest _ _ _ S1)); assumption).
    destruct (IH s1 IW1 E1) as (s2 & F2 & I2 & N2 & W2 & R2 & A2 & NF2 & KC2 & RB2).
    { rewrite NT, N. cbn [remove_z]. rewrite Z.eqb_refl. pose proof (remz_length k rest). cbn [length] in L. lia. }
    exists s2. split; [assumption|]. split; [assumption|]. split; [assumption|].
    pose proof (fs_kctl _ _ _ S1) as KC1.
    split; [rewrite W2; destruct KC1 as (_&_&_&Q&_); exact Q|].
    split; [eapply restsame_trans; [apply (fs_rest _ _ _ S1)|exact R2]|].
    split; [rewrite A2; apply (ke_active _ _ K1)|]. split; [rewrite NF2; apply (ke_numfds _ _ K1)|].
    split; [eapply kctl_trans; eassumption|assumption].
Qed.

(* ---------- the external actions at a wait ---------- *)
Lemma InvW_nwait : forall s n, InvW s -> InvW (set_kern s (k_set_nwait (kern s) n)).
Proof.
  intros s n [A B C D E F G H]. constructor.
  - apply FdInv_kern; [assumption|reflexivity| |].
    + intros k L. apply (fv_open _ _ A). assumption.
    + intros fd Q. exact Q.
  - intros k. apply sync_at_same with (s := s); try reflexivity. apply B.
  - destruct C. constructor; assumption.
  - exact D.
  - apply (TaskInv_same s); [reflexivity..|exact E].
  - apply (EvInv_same s); [constructor; reflexivity|exact F].
  - destruct G. constructor; assumption.
  - destruct H as [H1 H2 H3 [K1 K2]]. constructor; try assumption. constructor; assumption.
Qed.

Lemma KO_kern_emit : forall s e k', ep k' = ep (kern s) -> KO s (set_kern (emit s e) k').
Proof. intros. constructor; try reflexivity. exact H. Qed.

Definition WaitStep (s s' : core) : Prop := InvW s' /\ KO s s' /\ nwait (kern s') = nwait (kern s).

Lemma wait_kern_step : forall s a k', InvW s -> kstable (kern s) k' -> WaitStep s (set_kern (emit s (TAct a)) k').
Proof.
  intros s a k' I KS.
  assert (I1 : InvW (emit s (TAct a))) by (apply InvW_emit; [assumption|discriminate..]).
  split; [apply (InvW_kstable _ k' I1); exact KS|]. split; [apply KO_kern_emit; apply (kt_ep _ _ KS)|apply (kt_nwait _ _ KS)].
Qed.

Lemma wait_action_ok : forall s a, InvW s -> wf_wait_action a -> exists s', do_action s a = R s' /\ WaitStep s s'.
Proof.
  intros s a I W. assert (SAME : WaitStep s s) by (split; [assumption|split; [apply KO_refl|reflexivity]]).
  destruct a; cbn [wf_wait_action] in W; try contradiction; cbn [do_action]; cbv zeta.
  - eexists. split; [reflexivity|]. apply wait_kern_step; [assumption|apply kstable_set_cond].
  - eexists. split; [reflexivity|]. apply wait_kern_step; [assumption|]. apply kstable_user_fd. unfold ok_idx in W. lia.
  - destruct (rw_reg s j); [|exists s; split; [reflexivity|assumption]].
    eexists. split; [reflexivity|]. unfold raw_post. sp.
    destruct (efd_raw s =? 0).
    + pose proof (kstable_write (kern s) (rw_wfd s j) 1 0) as KS.
      destruct (k_write (kern s) (rw_wfd s j) 1 0) as [k1 r]. apply wait_kern_step; assumption.
    + pose proof (kstable_write (kern s) (rw_wfd s j) 8 1) as KS.
      destruct (k_write (kern s) (rw_wfd s j) 8 1) as [k1 r]. apply wait_kern_step; assumption.
  - eexists. split; [reflexivity|]. apply wait_kern_step; [assumption|apply kstable_clock].
Qed.

Lemma WaitStep_trans : forall a b c, WaitStep a b -> WaitStep b c -> WaitStep a c.
Proof. intros a b c (A1&A2&A3) (B1&B2&B3). split; [assumption|]. split; [eapply KO_trans; eassumption|congruence]. Qed.

Lemma wait_acts_ok : forall l s, InvW s -> Forall wf_wait_action l -> exists s', run_acts s l = R s' /\ WaitStep s s'.
Proof.
  induction l as [|a l IH]; intros s I W; cbn [run_acts].
  - exists s. split; [reflexivity|]. split; [assumption|split; [apply KO_refl|reflexivity]].
  - inversion W as [|? ? Wa Wl]; subst. destruct (wait_action_ok s a I Wa) as (s1 & E1 & S1). rewrite E1. cbn [bind].
    destruct (IH s1 (proj1 S1) Wl) as (s2 & E2 & S2). exists s2. split; [assumption|eapply WaitStep_trans; eassumption].
Qed.

(* ---------- iv_fd_make_ready / activation of reported descriptors ---------- *)
Lemma upd_ready_fields : forall s k r k0,
  let g := upd (fdt s) k (fd_with_ready (fdt s k) r) in
  fdnum (g k0) = fdnum (fdt s k0) /\ regb (g k0) = regb (fdt s k0) /\ pidx (g k0) = pidx (fdt s k0) /\
  registered (g k0) = registered (fdt s k0) /\ wanted (g k0) = wanted (fdt s k0) /\
  h_in (g k0) = h_in (fdt s k0) /\ h_out (g k0) = h_out (fdt s k0) /\ h_err (g k0) = h_err (fdt s k0).
Proof.
  intros s k r k0 g. subst g. unfold upd. destruct (Z.eqb_spec k0 k) as [->|N]; repeat split.
Qed.

Lemma InvW_putfd_ready : forall s k r, InvW s -> InvW (putfd s k (fd_with_ready (fdt s k) r)).
Proof.
  intros s k r [A B C D E F G H].
  assert (U : forall k0, _) by (intros k0; exact (upd_ready_fields s k r k0)). cbv zeta in U.
  constructor.
  - apply FdInv_putfd_soft; [assumption|reflexivity..].
  - intros k0. specialize (B k0). destruct (U k0) as (U1&U2&U3&U4&U5&U6&U7&U8).
    unfold sync_at, bands_of in *. sp. rewrite U2, U3, U4, U5, U6, U7, U8. exact B.
  - destruct C. constructor; sp; try assumption.
    + intros j J. destruct (U (16 + j)) as (_&_&_&U4&_). rewrite U4. auto.
    + intros j J. destruct (U (16 + j)) as (U1&_&_&_&_&U6&U7&U8). rewrite U1, U6, U7, U8. auto.
    + intros k0 K0. destruct (U k0) as (_&_&_&_&_&U6&U7&U8). unfold hids_ok. rewrite U6, U7, U8. apply dy_userh. assumption.
  - exact D.
  - apply (TaskInv_same s); [reflexivity..|exact E].
  - apply (EvInv_same s); [constructor; reflexivity|exact F].
  - destruct G as [G1 G2]. constructor; sp; [|exact G2]. rewrite G1. apply cntf_ext. intros x _.
    destruct (U x) as (_&_&_&U4&_). symmetry. exact U4.
  - apply (Misc_same s); [reflexivity..|exact H].
Qed.

Lemma InvW_set_active : forall s l, InvW s -> (forall k, In k l -> live s (-1) k) -> InvW (set_active s l).
Proof.
  intros s l [A B C D E F G H] L1. constructor.
  - apply FdInv_set_active; assumption.
  - intros k. apply sync_at_same with (s := s); try reflexivity. apply B.
  - destruct C. constructor; assumption.
  - exact D.
  - apply (TaskInv_same s); [reflexivity..|exact E].
  - apply (EvInv_same s); [constructor; reflexivity|exact F].
  - destruct G. constructor; assumption.
  - apply (Misc_same s); [reflexivity..|exact H].
Qed.

(* what activation keeps *)
Record AFr (s s' : core) : Prop := {
  af_kern : kern s' = kern s; af_heap : heap s' = heap s; af_cur : cur s' = cur s; af_evb : ev_batch s' = ev_batch s;
  af_tfd : tfd s' = tfd s; af_method : method s' = method s; af_epfd : epfd s' = epfd s;
  af_reg : forall k, registered (fdt s' k) = registered (fdt s k);
  af_evp : ev_pending s' = ev_pending s; af_trace : trace s' = trace s;
}.
Lemma AFr_refl : forall s, AFr s s. Proof. intros; constructor; reflexivity. Qed.
Lemma AFr_trans : forall a b c, AFr a b -> AFr b c -> AFr a c.
Proof. intros a b c [] []. constructor; try congruence. intros k. rewrite af_reg1. apply af_reg0. Qed.
Lemma AFr_live : forall s s' k, AFr s s' -> live s (-1) k -> live s' (-1) k.
Proof. intros s s' k A L. apply live_none. apply live_none in L. rewrite (af_reg _ _ A). exact L. Qed.
Lemma AFr_tm : forall s s', AFr s s' -> tm s s'.
Proof. intros s s' []. repeat split; assumption. Qed.
Lemma AFr_Q3 : forall s s', AFr s s' -> Q3 s -> Q3 s'.
Proof. intros s s' [] (A&B&C). unfold Q3. rewrite af_heap0, af_cur0, af_evb0. tauto. Qed.

Lemma AFr_putfd_ready : forall s k r, AFr s (putfd s k (fd_with_ready (fdt s k) r)).
Proof.
  intros. constructor; try reflexivity. intros k0. destruct (upd_ready_fields s k r k0) as (_&_&_&U4&_). exact U4.
Qed.

Lemma make_ready_ok : forall s k bands, InvW s -> live s (-1) k ->
  InvW (make_ready s k bands) /\ AFr s (make_ready s k bands).
Proof.
  intros s k bands I L. unfold make_ready. cbv zeta.
  assert (S1 : let s1 := if mem_z k (active s) then s
                         else set_active (putfd s k (fd_with_ready (getfd s k) 0)) (active s ++ [k]) in
               InvW s1 /\ AFr s s1).
  { cbv zeta. destruct (mem_z k (active s)); [split; [assumption|apply AFr_refl]|].
    pose proof (InvW_putfd_ready s k 0 I) as I1. pose proof (AFr_putfd_ready s k 0) as A1.
    split.
    - apply InvW_set_active; [exact I1|]. intros k0 H. apply (AFr_live _ _ _ A1). apply in_app_or in H.
      destruct H as [H|[<-|[]]]; [apply (fv_active _ _ (iw_fd _ I)); assumption|assumption].
    - eapply AFr_trans; [exact A1|]. constructor; reflexivity. }
  cbv zeta in S1. destruct S1 as [I1 A1].
  set (s1 := if mem_z k (active s) then s else _) in *.
  split; [apply InvW_putfd_ready; assumption|]. eapply AFr_trans; [exact A1|apply AFr_putfd_ready].
Qed.

Lemma activate_ok : forall s k bits, InvW s -> live s (-1) k -> InvW (activate s k bits) /\ AFr s (activate s k bits).
Proof.
  intros s k bits I L. unfold activate. cbv zeta.
  set (he := has bits B_HUP || has bits B_ERR).
  assert (S1 : let s1 := if has bits B_IN || he then make_ready s k M_IN else s in InvW s1 /\ AFr s s1).
  { cbv zeta. destruct (has bits B_IN || he); [apply make_ready_ok; assumption|split; [assumption|apply AFr_refl]]. }
  cbv zeta in S1. destruct S1 as [I1 A1]. set (s1 := if has bits B_IN || he then _ else _) in *.
  assert (S2 : let s2 := if has bits B_OUT || he then make_ready s1 k M_OUT else s1 in InvW s2 /\ AFr s s2).
  { cbv zeta. destruct (has bits B_OUT || he); [|split; assumption].
    destruct (make_ready_ok s1 k M_OUT I1 (AFr_live _ _ _ A1 L)) as [X Y]. split; [assumption|eapply AFr_trans; eassumption]. }
  cbv zeta in S2. destruct S2 as [I2 A2]. set (s2 := if has bits B_OUT || he then _ else _) in *.
  destruct he; [|split; assumption].
  destruct (make_ready_ok s2 k M_ERR I2 (AFr_live _ _ _ A2 L)) as [X Y]. split; [assumption|eapply AFr_trans; eassumption].
Qed.

(* the reported batch of the epoll back ends *)
Definition ev_ok (s : core) (x : Z * Z * Z) : Prop :=
  snd x = -1 \/ (snd x = -2 /\ method s = M_ET) \/ live s (-1) (snd x).

Lemma epoll_process_ok : forall evs s re tmr, InvW s -> (forall x, In x evs -> ev_ok s x) ->
  InvW (fst (fst (epoll_process s evs re tmr))) /\ AFr s (fst (fst (epoll_process s evs re tmr))) /\
  (snd (epoll_process s evs re tmr) = true -> tmr = true \/ exists x, In x evs /\ snd x = -2).
Proof.
  induction evs as [|[[fd bits] data] evs IH]; intros s re tmr I OK; cbn [epoll_process].
  - cbn [fst snd]. split; [assumption|]. split; [apply AFr_refl|]. tauto.
  - assert (OK' : forall s', AFr s s' -> forall x, In x evs -> ev_ok s' x).
    { intros s' A x X. destruct (OK x (or_intror X)) as [Q|[(Q1&Q2)|Q]]; [left; assumption|right; left|right; right].
      - split; [assumption|]. rewrite (af_method _ _ A). assumption.
      - eapply AFr_live; eassumption. }
    destruct (Z.eqb_spec data (-1)) as [D1|N1].
    + destruct (IH s true tmr I (OK' s (AFr_refl s))) as (A & B & C). split; [assumption|]. split; [assumption|].
      intros Q. destruct (C Q) as [T|(x & X1 & X2)]; [left; assumption|right; exists x; split; [right; assumption|assumption]].
    + destruct ((data =? -2) && (method s =? M_ET)) eqn:D2.
      * destruct (IH s re true I (OK' s (AFr_refl s))) as (A & B & C). split; [assumption|]. split; [assumption|].
        intros Q. right. exists (fd, bits, data). split; [left; reflexivity|]. cbn [snd].
        apply andb_true_iff in D2. destruct D2 as [D2 _]. apply Z.eqb_eq in D2. exact D2.
      * assert (L : live s (-1) data).
        { destruct (OK (fd, bits, data) (or_introl eq_refl)) as [Q|[(Q1&Q2)|Q]]; cbn [snd] in *; [contradiction| |assumption].
          subst data. rewrite Q2 in D2. discriminate. }
        destruct (activate_ok s data bits I L) as [I1 A1].
        destruct (IH (activate s data bits) re tmr I1 (OK' _ A1)) as (A & B & C).
        split; [assumption|]. split; [eapply AFr_trans; eassumption|].
        intros Q. destruct (C Q) as [T|(x & X1 & X2)]; [left; assumption|right; exists x; split; [right; assumption|assumption]].
Qed.

Lemma poll_activate_ok : forall keys revs s, InvW s -> (forall k, In k keys -> live s (-1) k) ->
  InvW (poll_activate s keys revs) /\ AFr s (poll_activate s keys revs).
Proof.
  induction keys as [|k keys IH]; intros revs s I L; cbn [poll_activate]; [split; [assumption|apply AFr_refl]|].
  destruct revs as [|r revs]; [split; [assumption|apply AFr_refl]|].
  destruct (activate_ok s k r I (L k (or_introl eq_refl))) as [I1 A1].
  destruct (IH revs (activate s k r) I1) as [I2 A2].
  - intros k0 H. eapply AFr_live; [exact A1|]. apply L. right. assumption.
  - split; [assumption|eapply AFr_trans; eassumption].
Qed.

(* ---------- the virtual kernel's epoll_wait ---------- *)
Lemma In_ins_ent : forall e x l, In e (ins_ent x l) <-> e = x \/ In e l.
Proof.
  intros e x l. induction l as [|y l IH]; cbn [ins_ent].
  - cbn. intuition congruence.
  - destruct (en_fd x <? en_fd y); cbn [In]; [intuition congruence|]. rewrite IH. intuition congruence.
Qed.
Lemma In_sort_ents : forall e l, In e (sort_ents l) <-> In e l.
Proof.
  intros e l. unfold sort_ents. induction l as [|y l IH]; cbn [fold_right]; [tauto|].
  rewrite In_ins_ent, IH. cbn [In]. intuition congruence.
Qed.
Lemma In_rotate : forall A n (l : list A) e, In e (rotate n l) -> In e l.
Proof.
  intros A n l e H. unfold rotate in H. rewrite <- (firstn_skipn n l). apply in_app_or in H. apply in_or_app. tauto.
Qed.

Lemma In_ep_scan : forall k l m x, In x (ep_scan k l m) ->
  exists e, In e l /\ x = (en_fd e, ep_ready_bits k e, en_data e) /\ ep_ready_bits k e <> 0.
Proof.
  intros k l. induction l as [|e l IH]; intros m x H; [destruct m; contradiction|].
  destruct m as [|m]; [contradiction|]. cbn [ep_scan] in H. cbv zeta in H.
  destruct (Z.eqb_spec (ep_ready_bits k e) 0) as [Z0|NZ].
  - destruct (IH _ _ H) as (e0 & A & B). exists e0. split; [right; assumption|assumption].
  - destruct H as [<-|H]; [exists e; split; [left; reflexivity|split; [reflexivity|assumption]]|].
    destruct (IH _ _ H) as (e0 & A & B). exists e0. split; [right; assumption|assumption].
Qed.

Lemma disable_id : forall l evs, (forall e, In e l -> has (en_events e) E_ONESHOT = false) -> disable_oneshot l evs = l.
Proof.
  intros l evs H. unfold disable_oneshot. rewrite <- (map_id l) at 2. apply map_ext_in.
  intros e He. rewrite (H e He), andb_false_r. reflexivity.
Qed.

Definition scan_of (k kX : kernel) (evs : list (Z * Z * Z)) : Prop :=
  forall x, In x evs -> exists e, In e (ep k) /\ x = (en_fd e, ep_ready_bits kX e, en_data e) /\ ep_ready_bits kX e <> 0.

Lemma sleep_spec : forall k maxev timeout rot,
  (forall e, In e (ep k) -> has (en_events e) E_ONESHOT = false) ->
  match k_epoll_sleep k maxev timeout rot with
  | WReady k' evs => exists kX, (kX = k \/ exists w, kX = k_set_clock k w) /\ k' = k_set_ep kX (ep k) /\ scan_of k kX evs
  | WHang => True
  | _ => False
  end.
Proof.
  intros k maxev timeout rot NO. unfold k_epoll_sleep. cbv zeta.
  set (order := rotate _ (sort_ents (ep k))).
  assert (ORD : forall e, In e order -> In e (ep k)).
  { intros e H. subst order. apply In_rotate in H. apply In_sort_ents in H. exact H. }
  assert (SC : forall kX m, scan_of k kX (ep_scan kX order m)).
  { intros kX m x X. destruct (In_ep_scan _ _ _ _ X) as (e & A & B). exists e. split; [apply ORD; assumption|assumption]. }
  destruct (ep_scan k order (Z.to_nat maxev)) as [|x0 evs0] eqn:SCAN.
  - destruct (timeout =? 0).
    + exists k. split; [left; reflexivity|]. split; [destruct k; reflexivity|]. intros x [].
    + match goal with |- context [if ?c then WHang else _] => destruct c end; [exact I|].
      match goal with |- context [ep_scan ?kk order _] => set (k1 := kk) end.
      exists k1. split; [subst k1; match goal with |- context [if ?c then _ else _] => destruct c end; [right; eexists; reflexivity|left; reflexivity]|].
      assert (EP1 : ep k1 = ep k) by (subst k1; match goal with |- context [if ?c then _ else _] => destruct c end; reflexivity).
      split; [|apply SC]. rewrite EP1. rewrite disable_id by assumption. reflexivity.
  - exists k. split; [left; reflexivity|]. rewrite disable_id by assumption. split; [reflexivity|].
    rewrite <- SCAN. apply SC.
Qed.

(* entries of the interest list never carry EPOLLONESHOT *)
Lemma mask_no_oneshot : forall b, has (epoll_mask b) E_ONESHOT = false.
Proof. intros b. unfold epoll_mask. destruct (has b M_IN), (has b M_OUT); reflexivity. Qed.

Lemma no_oneshot : forall s e, FdInv (-1) s -> In e (ep (kern s)) -> has (en_events e) E_ONESHOT = false.
Proof.
  intros s e I H. destruct (fv_ent _ _ I e H) as [(_&_&_&A)|[(_&_&_&A&_)|(_&_&A&_)]]; rewrite A; [apply mask_no_oneshot|reflexivity..].
Qed.

(* the timer descriptor was reported: it is readable *)
Lemma cond_set_ep : forall k l fd, k_cond (k_set_ep k l) fd = k_cond k fd.
Proof. reflexivity. Qed.

Lemma tfd_ready : forall k e v, k_get k (en_fd e) = Some v -> vkind v = K_TIMERFD -> ep_ready_bits k e <> 0 ->
  has (k_cond k (en_fd e)) B_IN = true.
Proof.
  intros k e v G V R. unfold ep_ready_bits in R. destruct (negb (en_enabled e)); [contradiction|]. cbv zeta in R.
  unfold k_cond in *. rewrite G in *. rewrite V in *.
  change (K_TIMERFD =? K_SCRIPTED) with false in *. change (K_TIMERFD =? K_EVENTFD) with false in *.
  change (K_TIMERFD =? K_PIPE_R) with false in *. change (K_TIMERFD =? K_PIPE_W) with false in *.
  change (K_TIMERFD =? K_TIMERFD) with true in *. cbv iota in *.
  destruct (vfired v || (negb (vdeadline v =? 0) && (vdeadline v <=? clock k))); [reflexivity|].
  exfalso. apply R. reflexivity.
Qed.

Lemma tfd_read : forall k fd v, k_open k fd = Some v -> vkind v = K_TIMERFD -> has (k_cond k fd) B_IN = true ->
  exists k1 n, k_read k fd 8 = (k1, inl n).
Proof.
  intros k fd v O V C. unfold k_read. rewrite O, V.
  change (K_TIMERFD =? K_EVENTFD) with false. change (K_TIMERFD =? K_PIPE_R) with false.
  change (K_TIMERFD =? K_TIMERFD) with true. cbv iota. rewrite C. eexists _, _. reflexivity.
Qed.

Section Wait.
Variable sc : scenario.
Hypothesis WF : wf_scenario sc.
Hypothesis do_action_ok : forall s a, InvW s -> wf_action a -> okr (StepW s) (do_action s a).

Definition EnterPost (s s' : core) : Prop :=
  InvW s' /\ KO s s' /\ nwait (kern s') = nwait (kern s) + 1 /\ nwait (kern s') <= sc_limit sc.

Lemma wait_enter_ok : forall s, InvW s -> okr (EnterPost s) (wait_enter sc s).
Proof.
  intros s I. unfold wait_enter. cbv zeta. destruct (Z.ltb_spec (sc_limit sc) (nwait (kern s) + 1)) as [LT|GE].
  - apply okr_halt; [apply (ms_nobad _ (iw_misc _ I))|discriminate..].
  - set (s1 := set_kern s (k_set_nwait (kern s) (nwait (kern s) + 1))).
    assert (I1 : InvW s1) by (apply InvW_nwait; assumption).
    destruct (wait_acts_ok (sc_wait sc (nwait (kern s) + 1)) s1 I1 (wf_waits sc WF _)) as (s2 & E2 & I2 & K2 & N2).
    rewrite E2. cbn [okr]. split; [assumption|]. split; [|split].
    + eapply KO_trans; [|exact K2]. constructor; reflexivity.
    + rewrite N2. reflexivity.
    + rewrite N2. exact GE.
Qed.

End Wait.
