(* CoreInvWait.v -- the poll phase of iv_main (iv_fd_poll_and_run): flushing the
   epoll change list, entering the wait, the virtual kernel's answer, activation
   of the reported descriptors, the timer descriptor, the dispatch loop. *)
From Coq Require Import List ZArith Bool Lia.
From Ivv Require Import Core.Kernel Core.CoreTypes Core.CoreFd Core.CoreModel Core.CoreSpec
  Core.CoreInvBase Core.CoreInvDefs Core.CoreInvFd Core.CoreInvPoll Core.CoreInvReg Core.CoreInvObj
  Core.CoreInvTm Core.CoreInvLoop.
From Ivv Require Timer.HeapModel Timer.HeapSpec.
Import ListNotations.
Local Open Scope Z_scope.

(* the timer descriptor exists only under the epoll-timerfd method *)
Definition TfdM (s : core) : Prop := tfd s <> -1 -> method s = M_ET.
Lemma TfdM_tm : forall s s', TfdM s -> tm s s' -> TfdM s'.
Proof. unfold TfdM, tm. intros s s' H (A&B&_). rewrite A, B. exact H. Qed.

(* ---------- a step of the descriptor layer on any key that keeps the registration ---------- *)
Lemma InvW_fdstep_gen : forall k s s', InvW s -> FdStep k s s' -> 0 <= k <= 32 ->
  registered (fdt s' k) = registered (fdt s k) -> FdInv (-1) s' -> sync_at s' k ->
  numfds s' = numfds s -> numobjs s' = numobjs s -> InvW s'.
Proof.
  intros k s s' [A B C D E F G H] S K RG I' SY NF NO. pose proof (fs_rest _ _ _ S) as RS. constructor.
  - assumption.
  - eapply sync_step; eassumption.
  - eapply DynInv_step; try eassumption. intros j J.
    destruct (Z.eq_dec (16 + j) k) as [<-|N]; [assumption|apply (fs_reg _ _ _ S); assumption].
  - rewrite (rs_heap _ _ RS). assumption.
  - eapply TaskInv_same; [apply (rs_tasks _ _ RS)|apply (rs_cur _ _ RS)|assumption].
  - eapply EvInv_same; eassumption.
  - apply (Acct_fd k s s' 0); try assumption; try lia. left. split; [reflexivity|assumption].
  - eapply Misc_step; eassumption.
Qed.

(* what the wait prefix keeps *)
Record KO (s s' : core) : Prop := {
  ko_fdt : fdt s' = fdt s; ko_active : active s' = active s; ko_notify : notify s' = notify s;
  ko_pfds : pfds s' = pfds s; ko_pkeys : pkeys s' = pkeys s; ko_heap : heap s' = heap s;
  ko_cur : cur s' = cur s; ko_evb : ev_batch s' = ev_batch s; ko_tfd : tfd s' = tfd s;
  ko_method : method s' = method s; ko_epfd : epfd s' = epfd s; ko_ep : ep (kern s') = ep (kern s);
  ko_numfds : numfds s' = numfds s;
}.
Lemma KO_refl : forall s, KO s s. Proof. intros; constructor; reflexivity. Qed.
Lemma KO_trans : forall a b c, KO a b -> KO b c -> KO a c.
Proof. intros a b c [] []. constructor; congruence. Qed.
Lemma KO_tm : forall s s', KO s s' -> tm s s'.
Proof. intros s s' []. repeat split; assumption. Qed.
Lemma KO_Q3 : forall s s', KO s s' -> Q3 s -> Q3 s'.
Proof. intros s s' [] (A&B&C). unfold Q3. rewrite ko_heap0, ko_cur0, ko_evb0. tauto. Qed.

(* ---------- iv_fd_epoll_flush_pending ---------- *)
Definition FlPost (s s' : core) : Prop :=
  InvW s' /\ notify s' = [] /\ nwait (kern s') = nwait (kern s) /\ restsame s s' /\ active s' = active s /\
  numfds s' = numfds s /\ kctl (kern s) (kern s') /\
  (forall k, registered (fdt s' k) = true -> regb (fdt s' k) = wanted (fdt s' k)).

Lemma flush_pending_ok : forall fuel s, InvW s -> is_epoll s = true -> (length (notify s) < fuel)%nat ->
  exists s', epoll_flush_pending fuel s = R s' /\ FlPost s s'.
Proof.
  induction fuel as [|f IH]; intros s I E L; [lia|].
  cbn [epoll_flush_pending]. destruct (notify s) as [|k rest] eqn:N.
  - exists s. split; [reflexivity|]. split; [assumption|]. split; [assumption|]. split; [reflexivity|].
    split; [apply restsame_refl|]. split; [reflexivity|]. split; [reflexivity|]. split; [apply kctl_refl|].
    intros k R. destruct (iw_sync _ I k R) as (_ & S & _). specialize (S E). rewrite N in S.
    destruct (Z.eq_dec (regb (fdt s k)) (wanted (fdt s k))); [assumption|]. exfalso. apply (proj2 S). assumption.
  - pose proof (iw_fd _ I) as FI.
    assert (LK : live s (-1) k) by (apply (fv_notify _ _ FI); rewrite N; left; reflexivity).
    destruct (epoll_flush_one_ok (-1) s k FI E LK) as (s1 & F1 & I1 & S1 & K1 & RB & WT & RG & NT).
    rewrite F1. cbn [bind].
    pose proof LK as LK'. apply live_none in LK'. destruct LK' as [KR KG].
    assert (IW1 : InvW s1).
    { apply (InvW_fdstep_gen k s s1); try assumption.
      - intros _. split; [|split].
        + rewrite WT. destruct (iw_sync _ I k KG) as (W & _). rewrite W.
          destruct (fs_hsame _ _ _ S1 k) as (_&A&B&C&_). unfold bands_of. rewrite A, B, C. reflexivity.
        + intros _. rewrite NT, RB, WT. split; [intros Q; apply In_remz in Q; tauto|congruence].
        + intros Q. rewrite (restsame_epoll _ _ (fs_rest _ _ _ S1)) in Q. congruence.
      - apply (ke_numfds _ _ K1).
      - apply (ke_numobjs _ _ K1). }
    assert (E1 : is_epoll s1 = true) by (rewrite (restsame_epoll _ _ (fs_rest _ _ _ S1)); assumption).
    destruct (IH s1 IW1 E1) as (s2 & F2 & I2 & N2 & W2 & R2 & A2 & NF2 & KC2 & RB2).
    { rewrite NT, N. cbn [remove_z]. rewrite Z.eqb_refl. pose proof (remz_length k rest). cbn [length] in L. lia. }
    exists s2. split; [assumption|]. split; [assumption|]. split; [assumption|].
    pose proof (fs_kctl _ _ _ S1) as KC1.
    split; [rewrite W2; destruct KC1 as (_&_&_&Q&_); exact Q|].
    split; [eapply restsame_trans; [apply (fs_rest _ _ _ S1)|exact R2]|].
    split; [rewrite A2; apply (ke_active _ _ K1)|]. split; [rewrite NF2; apply (ke_numfds _ _ K1)|].
    split; [eapply kctl_trans; eassumption|assumption].
Qed.

(* ---------- the external actions at a wait ---------- *)
Lemma InvW_nwait : forall s n, InvW s -> InvW (set_kern s (k_set_nwait (kern s) n)).
Proof.
  intros s n [A B C D E F G H]. constructor.
  - apply FdInv_kern; [assumption|reflexivity| |].
    + intros k L. apply (fv_open _ _ A). assumption.
    + intros fd Q. exact Q.
  - intros k. apply sync_at_same with (s := s); try reflexivity. apply B.
  - destruct C. constructor; assumption.
  - exact D.
  - apply (TaskInv_same s); [reflexivity..|exact E].
  - apply (EvInv_same s); [constructor; reflexivity|exact F].
  - destruct G. constructor; assumption.
  - destruct H as [H1 H2 H3 [K1 K2]]. constructor; try assumption. constructor; assumption.
Qed.

Lemma KO_kern_emit : forall s e k', ep k' = ep (kern s) -> KO s (set_kern (emit s e) k').
Proof. intros. constructor; try reflexivity. exact H. Qed.

Definition WaitStep (s s' : core) : Prop := InvW s' /\ KO s s' /\ nwait (kern s') = nwait (kern s).

Lemma wait_kern_step : forall s a k', InvW s -> kstable (kern s) k' -> WaitStep s (set_kern (emit s (TAct a)) k').
Proof.
  intros s a k' I KS.
  assert (I1 : InvW (emit s (TAct a))) by (apply InvW_emit; [assumption|discriminate..]).
  split; [apply (InvW_kstable _ k' I1); exact KS|]. split; [apply KO_kern_emit; apply (kt_ep _ _ KS)|apply (kt_nwait _ _ KS)].
Qed.

Lemma wait_action_ok : forall s a, InvW s -> wf_wait_action a -> exists s', do_action s a = R s' /\ WaitStep s s'.
Proof.
  intros s a I W. assert (SAME : WaitStep s s) by (split; [assumption|split; [apply KO_refl|reflexivity]]).
  destruct a; cbn [wf_wait_action] in W; try contradiction; cbn [do_action]; cbv zeta.
  - eexists. split; [reflexivity|]. apply wait_kern_step; [assumption|apply kstable_set_cond].
  - eexists. split; [reflexivity|]. apply wait_kern_step; [assumption|]. apply kstable_user_fd. unfold ok_idx in W. lia.
  - destruct (rw_reg s j); [|exists s; split; [reflexivity|assumption]].
    eexists. split; [reflexivity|]. unfold raw_post. sp.
    destruct (raw_is_pipe _ j).
    + pose proof (kstable_write (kern s) (rw_wfd s j) 1 0) as KS.
      destruct (k_write (kern s) (rw_wfd s j) 1 0) as [k1 r]. apply wait_kern_step; assumption.
    + pose proof (kstable_write (kern s) (rw_wfd s j) 8 1) as KS.
      destruct (k_write (kern s) (rw_wfd s j) 8 1) as [k1 r]. apply wait_kern_step; assumption.
  - eexists. split; [reflexivity|]. apply wait_kern_step; [assumption|apply kstable_clock].
Qed.

Lemma WaitStep_trans : forall a b c, WaitStep a b -> WaitStep b c -> WaitStep a c.
Proof. intros a b c (A1&A2&A3) (B1&B2&B3). split; [assumption|]. split; [eapply KO_trans; eassumption|congruence]. Qed.

Lemma wait_acts_ok : forall l s, InvW s -> Forall wf_wait_action l -> exists s', run_acts s l = R s' /\ WaitStep s s'.
Proof.
  induction l as [|a l IH]; intros s I W; cbn [run_acts].
  - exists s. split; [reflexivity|]. split; [assumption|split; [apply KO_refl|reflexivity]].
  - inversion W as [|? ? Wa Wl]; subst. destruct (wait_action_ok s a I Wa) as (s1 & E1 & S1). rewrite E1. cbn [bind].
    destruct (IH s1 (proj1 S1) Wl) as (s2 & E2 & S2). exists s2. split; [assumption|eapply WaitStep_trans; eassumption].
Qed.

(* ---------- the poll method changes within its family ---------- *)
Lemma InvW_set_method : forall s m, InvW s -> is_epoll (set_method s m) = is_epoll s -> 0 <= m <= 3 ->
  InvW (set_method s m).
Proof.
  intros s m [A B C D E F G H] EQ M. constructor.
  - destruct A. constructor; rewrite ?EQ; assumption.
  - intros k. specialize (B k). unfold sync_at in *. rewrite EQ. exact B.
  - destruct C. constructor; assumption.
  - exact D.
  - apply (TaskInv_same s); [reflexivity..|exact E].
  - destruct F. constructor; rewrite ?EQ; assumption.
  - destruct G. constructor; assumption.
  - destruct H. constructor; rewrite ?EQ; assumption.
Qed.

(* ---------- iv_fd_make_ready / activation of reported descriptors ---------- *)
Lemma upd_ready_fields : forall s k r k0,
  let g := upd (fdt s) k (fd_with_ready (fdt s k) r) in
  fdnum (g k0) = fdnum (fdt s k0) /\ regb (g k0) = regb (fdt s k0) /\ pidx (g k0) = pidx (fdt s k0) /\
  registered (g k0) = registered (fdt s k0) /\ wanted (g k0) = wanted (fdt s k0) /\
  h_in (g k0) = h_in (fdt s k0) /\ h_out (g k0) = h_out (fdt s k0) /\ h_err (g k0) = h_err (fdt s k0).
Proof.
  intros s k r k0 g. subst g. unfold upd. destruct (Z.eqb_spec k0 k) as [->|N]; repeat split.
Qed.

Lemma InvW_putfd_ready : forall s k r, InvW s -> InvW (putfd s k (fd_with_ready (fdt s k) r)).
Proof.
  intros s k r [A B C D E F G H].
  assert (U : forall k0, _) by (intros k0; exact (upd_ready_fields s k r k0)). cbv zeta in U.
  constructor.
  - apply FdInv_putfd_soft; [assumption|reflexivity..].
  - intros k0. specialize (B k0). destruct (U k0) as (U1&U2&U3&U4&U5&U6&U7&U8).
    unfold sync_at, bands_of in *. sp. rewrite U2, U3, U4, U5, U6, U7, U8. exact B.
  - destruct C. constructor; sp; try assumption.
    + intros j J. destruct (U (16 + j)) as (_&_&_&U4&_). rewrite U4. auto.
    + intros j J. destruct (U (16 + j)) as (U1&_&_&_&_&U6&U7&U8). rewrite U1, U6, U7, U8. auto.
    + intros k0 K0. destruct (U k0) as (_&_&_&_&_&U6&U7&U8). unfold hids_ok. rewrite U6, U7, U8. apply dy_userh. assumption.
  - exact D.
  - apply (TaskInv_same s); [reflexivity..|exact E].
  - apply (EvInv_same s); [constructor; reflexivity|exact F].
  - destruct G as [G1 G2]. constructor; sp; [|exact G2]. rewrite G1. apply cntf_ext. intros x _.
    destruct (U x) as (_&_&_&U4&_). symmetry. exact U4.
  - apply (Misc_same s); [reflexivity..|exact H].
Qed.

Lemma InvW_set_active : forall s l, InvW s -> (forall k, In k l -> live s (-1) k) -> InvW (set_active s l).
Proof.
  intros s l [A B C D E F G H] L1. constructor.
  - apply FdInv_set_active; assumption.
  - intros k. apply sync_at_same with (s := s); try reflexivity. apply B.
  - destruct C. constructor; assumption.
  - exact D.
  - apply (TaskInv_same s); [reflexivity..|exact E].
  - apply (EvInv_same s); [constructor; reflexivity|exact F].
  - destruct G. constructor; assumption.
  - apply (Misc_same s); [reflexivity..|exact H].
Qed.

(* what activation keeps *)
Record AFr (s s' : core) : Prop := {
  af_kern : kern s' = kern s; af_heap : heap s' = heap s; af_cur : cur s' = cur s; af_evb : ev_batch s' = ev_batch s;
  af_tfd : tfd s' = tfd s; af_method : method s' = method s; af_epfd : epfd s' = epfd s;
  af_reg : forall k, registered (fdt s' k) = registered (fdt s k);
  af_evp : ev_pending s' = ev_pending s; af_trace : trace s' = trace s;
}.
Lemma AFr_refl : forall s, AFr s s. Proof. intros; constructor; reflexivity. Qed.
Lemma AFr_trans : forall a b c, AFr a b -> AFr b c -> AFr a c.
Proof. intros a b c [] []. constructor; first [congruence | intros k; rewrite af_reg1; apply af_reg0]. Qed.
Lemma AFr_live : forall s s' k, AFr s s' -> live s (-1) k -> live s' (-1) k.
Proof. intros s s' k A L. apply live_none. apply live_none in L. rewrite (af_reg _ _ A). exact L. Qed.
Lemma AFr_tm : forall s s', AFr s s' -> tm s s'.
Proof. intros s s' []. repeat split; assumption. Qed.
Lemma AFr_Q3 : forall s s', AFr s s' -> Q3 s -> Q3 s'.
Proof. intros s s' [] (A&B&C). unfold Q3. rewrite af_heap0, af_cur0, af_evb0. tauto. Qed.

Lemma AFr_putfd_ready : forall s k r, AFr s (putfd s k (fd_with_ready (fdt s k) r)).
Proof.
  intros. constructor; try reflexivity. intros k0. destruct (upd_ready_fields s k r k0) as (_&_&_&U4&_). exact U4.
Qed.

Lemma make_ready_ok : forall s k bands, InvW s -> live s (-1) k ->
  InvW (make_ready s k bands) /\ AFr s (make_ready s k bands).
Proof.
  intros s k bands I L. unfold make_ready. cbv zeta.
  assert (S1 : let s1 := if mem_z k (active s) then s
                         else set_active (putfd s k (fd_with_ready (getfd s k) 0)) (active s ++ [k]) in
               InvW s1 /\ AFr s s1).
  { cbv zeta. destruct (mem_z k (active s)); [split; [assumption|apply AFr_refl]|].
    pose proof (InvW_putfd_ready s k 0 I) as I1. pose proof (AFr_putfd_ready s k 0) as A1.
    split.
    - apply InvW_set_active; [exact I1|]. intros k0 H. apply (AFr_live _ _ _ A1). apply in_app_or in H.
      destruct H as [H|[<-|[]]]; [apply (fv_active _ _ (iw_fd _ I)); assumption|assumption].
    - eapply AFr_trans; [exact A1|]. constructor; reflexivity. }
  cbv zeta in S1. destruct S1 as [I1 A1].
  set (s1 := if mem_z k (active s) then s else _) in *.
  split; [apply InvW_putfd_ready; assumption|]. eapply AFr_trans; [exact A1|apply AFr_putfd_ready].
Qed.

Lemma activate_ok : forall s k bits, InvW s -> live s (-1) k -> InvW (activate s k bits) /\ AFr s (activate s k bits).
Proof.
  intros s k bits I L. unfold activate. cbv zeta.
  set (he := has bits B_HUP || has bits B_ERR).
  assert (S1 : let s1 := if has bits B_IN || he then make_ready s k M_IN else s in InvW s1 /\ AFr s s1).
  { cbv zeta. destruct (has bits B_IN || he); [apply make_ready_ok; assumption|split; [assumption|apply AFr_refl]]. }
  cbv zeta in S1. destruct S1 as [I1 A1]. set (s1 := if has bits B_IN || he then _ else _) in *.
  assert (S2 : let s2 := if has bits B_OUT || he then make_ready s1 k M_OUT else s1 in InvW s2 /\ AFr s s2).
  { cbv zeta. destruct (has bits B_OUT || he); [|split; assumption].
    destruct (make_ready_ok s1 k M_OUT I1 (AFr_live _ _ _ A1 L)) as [X Y]. split; [assumption|eapply AFr_trans; eassumption]. }
  cbv zeta in S2. destruct S2 as [I2 A2]. set (s2 := if has bits B_OUT || he then _ else _) in *.
  destruct he; [|split; assumption].
  destruct (make_ready_ok s2 k M_ERR I2 (AFr_live _ _ _ A2 L)) as [X Y]. split; [assumption|eapply AFr_trans; eassumption].
Qed.

(* the reported batch of the epoll back ends *)
Definition ev_ok (s : core) (x : Z * Z * Z) : Prop :=
  snd x = -1 \/ (snd x = -2 /\ method s = M_ET) \/ live s (-1) (snd x).

Lemma epoll_process_ok : forall evs s re tmr, InvW s -> (forall x, In x evs -> ev_ok s x) ->
  InvW (fst (fst (epoll_process s evs re tmr))) /\ AFr s (fst (fst (epoll_process s evs re tmr))) /\
  (snd (epoll_process s evs re tmr) = true -> tmr = true \/ exists x, In x evs /\ snd x = -2).
Proof.
  induction evs as [|[[fd bits] data] evs IH]; intros s re tmr I OK; cbn [epoll_process].
  - cbn [fst snd]. split; [assumption|]. split; [apply AFr_refl|]. tauto.
  - assert (OK' : forall s', AFr s s' -> forall x, In x evs -> ev_ok s' x).
    { intros s' A x X. destruct (OK x (or_intror X)) as [Q|[(Q1&Q2)|Q]]; [left; assumption|right; left|right; right].
      - split; [assumption|]. rewrite (af_method _ _ A). assumption.
      - eapply AFr_live; eassumption. }
    destruct (Z.eqb_spec data (-1)) as [D1|N1].
    + destruct (IH s true tmr I (OK' s (AFr_refl s))) as (A & B & C). split; [assumption|]. split; [assumption|].
      intros Q. destruct (C Q) as [T|(x & X1 & X2)]; [left; assumption|right; exists x; split; [right; assumption|assumption]].
    + destruct ((data =? -2) && (method s =? M_ET)) eqn:D2.
      * destruct (IH s re true I (OK' s (AFr_refl s))) as (A & B & C). split; [assumption|]. split; [assumption|].
        intros Q. right. exists (fd, bits, data). split; [left; reflexivity|]. cbn [snd].
        apply andb_true_iff in D2. destruct D2 as [D2 _]. apply Z.eqb_eq in D2. exact D2.
      * assert (L : live s (-1) data).
        { destruct (OK (fd, bits, data) (or_introl eq_refl)) as [Q|[(Q1&Q2)|Q]]; cbn [snd] in *; [contradiction| |assumption].
          subst data. rewrite Q2 in D2. discriminate. }
        destruct (activate_ok s data bits I L) as [I1 A1].
        destruct (IH (activate s data bits) re tmr I1 (OK' _ A1)) as (A & B & C).
        split; [assumption|]. split; [eapply AFr_trans; eassumption|].
        intros Q. destruct (C Q) as [T|(x & X1 & X2)]; [left; assumption|right; exists x; split; [right; assumption|assumption]].
Qed.

Lemma poll_activate_ok : forall keys revs s, InvW s -> (forall k, In k keys -> live s (-1) k) ->
  InvW (poll_activate s keys revs) /\ AFr s (poll_activate s keys revs).
Proof.
  induction keys as [|k keys IH]; intros revs s I L; cbn [poll_activate]; [split; [assumption|apply AFr_refl]|].
  destruct revs as [|r revs]; [split; [assumption|apply AFr_refl]|].
  destruct (activate_ok s k r I (L k (or_introl eq_refl))) as [I1 A1].
  destruct (IH revs (activate s k r) I1) as [I2 A2].
  - intros k0 H. eapply AFr_live; [exact A1|]. apply L. right. assumption.
  - split; [assumption|eapply AFr_trans; eassumption].
Qed.

(* ---------- the virtual kernel's epoll_wait ---------- *)
Lemma In_ins_ent : forall e x l, In e (ins_ent x l) <-> e = x \/ In e l.
Proof.
  intros e x l. induction l as [|y l IH]; cbn [ins_ent].
  - cbn. intuition congruence.
  - destruct (en_fd x <? en_fd y); cbn [In]; [intuition congruence|]. rewrite IH. intuition congruence.
Qed.
Lemma In_sort_ents : forall e l, In e (sort_ents l) <-> In e l.
Proof.
  intros e l. unfold sort_ents. induction l as [|y l IH]; cbn [fold_right]; [tauto|].
  rewrite In_ins_ent, IH. cbn [In]. intuition congruence.
Qed.
Lemma In_rotate : forall A n (l : list A) e, In e (rotate n l) -> In e l.
Proof.
  intros A n l e H. unfold rotate in H. rewrite <- (firstn_skipn n l). apply in_app_or in H. apply in_or_app. tauto.
Qed.

Lemma In_ep_scan : forall k l m x, In x (ep_scan k l m) ->
  exists e, In e l /\ x = (en_fd e, ep_ready_bits k e, en_data e) /\ ep_ready_bits k e <> 0.
Proof.
  intros k l. induction l as [|e l IH]; intros m x H; [destruct m; contradiction|].
  destruct m as [|m]; [contradiction|]. cbn [ep_scan] in H. cbv zeta in H.
  destruct (Z.eqb_spec (ep_ready_bits k e) 0) as [Z0|NZ].
  - destruct (IH _ _ H) as (e0 & A & B). exists e0. split; [right; assumption|assumption].
  - destruct H as [<-|H]; [exists e; split; [left; reflexivity|split; [reflexivity|assumption]]|].
    destruct (IH _ _ H) as (e0 & A & B). exists e0. split; [right; assumption|assumption].
Qed.

Lemma disable_id : forall l evs, (forall e, In e l -> has (en_events e) E_ONESHOT = false) -> disable_oneshot l evs = l.
Proof.
  intros l evs H. unfold disable_oneshot. rewrite <- (map_id l) at 2. apply map_ext_in.
  intros e He. rewrite (H e He), andb_false_r. reflexivity.
Qed.

Definition scan_of (k kX : kernel) (evs : list (Z * Z * Z)) : Prop :=
  forall x, In x evs -> exists e, In e (ep k) /\ x = (en_fd e, ep_ready_bits kX e, en_data e) /\ ep_ready_bits kX e <> 0.

Lemma sleep_spec : forall k maxev timeout rot,
  (forall e, In e (ep k) -> has (en_events e) E_ONESHOT = false) ->
  match k_epoll_sleep k maxev timeout rot with
  | WReady k' evs => exists kX, (kX = k \/ exists w, kX = k_set_clock k w) /\ k' = k_set_ep kX (ep k) /\ scan_of k kX evs
  | WHang => True
  | _ => False
  end.
Proof.
  intros k maxev timeout rot NO. unfold k_epoll_sleep. cbv zeta.
  set (order := rotate _ (sort_ents (ep k))).
  assert (ORD : forall e, In e order -> In e (ep k)).
  { intros e H. subst order. apply In_rotate in H. apply (proj1 (In_sort_ents _ _)) in H. exact H. }
  assert (SC : forall kX m, scan_of k kX (ep_scan kX order m)).
  { intros kX m x X. destruct (In_ep_scan _ _ _ _ X) as (e & A & B). exists e. split; [apply ORD; assumption|assumption]. }
  destruct (ep_scan k order (Z.to_nat maxev)) as [|x0 evs0] eqn:SCAN.
  - destruct (timeout =? 0).
    + exists k. split; [left; reflexivity|]. split; [destruct k; reflexivity|]. intros x [].
    + match goal with |- context [if ?c then WHang else _] => destruct c end; [exact I|].
      match goal with |- context [ep_scan ?kk order _] => set (k1 := kk) end.
      exists k1. split; [subst k1; match goal with |- context [if ?c then _ else _] => destruct c end; [right; eexists; reflexivity|left; reflexivity]|].
      assert (EP1 : ep k1 = ep k) by (subst k1; match goal with |- context [if ?c then _ else _] => destruct c end; reflexivity).
      split; [|apply SC]. rewrite EP1. rewrite disable_id by assumption. reflexivity.
  - exists k. split; [left; reflexivity|]. rewrite disable_id by assumption. split; [reflexivity|].
    rewrite <- SCAN. apply SC.
Qed.

(* entries of the interest list never carry EPOLLONESHOT *)
Lemma mask_no_oneshot : forall b, has (epoll_mask b) E_ONESHOT = false.
Proof. intros b. unfold epoll_mask. destruct (has b M_IN), (has b M_OUT); reflexivity. Qed.

Lemma no_oneshot : forall s e, FdInv (-1) s -> In e (ep (kern s)) -> has (en_events e) E_ONESHOT = false.
Proof.
  intros s e I H. destruct (fv_ent _ _ I e H) as [(_&_&_&A)|[(_&_&_&A&_)|(_&_&A&_)]]; rewrite A; [apply mask_no_oneshot|reflexivity..].
Qed.

(* the timer descriptor was reported: it is readable *)
Lemma cond_set_ep : forall k l fd, k_cond (k_set_ep k l) fd = k_cond k fd.
Proof. reflexivity. Qed.

Lemma tfd_ready : forall k e v, k_get k (en_fd e) = Some v -> vkind v = K_TIMERFD -> ep_ready_bits k e <> 0 ->
  has (k_cond k (en_fd e)) B_IN = true.
Proof.
  intros k e v G V R. unfold ep_ready_bits in R. destruct (negb (en_enabled e)); [contradiction|]. cbv zeta in R.
  unfold k_cond in *. rewrite G in *. rewrite V in *.
  change (K_TIMERFD =? K_SCRIPTED) with false in *. change (K_TIMERFD =? K_EVENTFD) with false in *.
  change (K_TIMERFD =? K_PIPE_R) with false in *. change (K_TIMERFD =? K_PIPE_W) with false in *.
  change (K_TIMERFD =? K_TIMERFD) with true in *. cbv iota in *.
  destruct (vfired v || (negb (vdeadline v =? 0) && (vdeadline v <=? clock k))); [reflexivity|].
  exfalso. apply R. reflexivity.
Qed.

Lemma tfd_read : forall k fd v, k_open k fd = Some v -> vkind v = K_TIMERFD -> has (k_cond k fd) B_IN = true ->
  exists k1 n, k_read k fd 8 = (k1, inl n).
Proof.
  intros k fd v O V C. unfold k_read. rewrite O, V.
  change (K_TIMERFD =? K_EVENTFD) with false. change (K_TIMERFD =? K_PIPE_R) with false.
  change (K_TIMERFD =? K_TIMERFD) with true. cbv iota. rewrite C. eexists _, _. reflexivity.
Qed.

(* ---------- creation of the timer descriptor (iv_fd_epoll_timerfd_set_poll_timeout) ---------- *)
Lemma no_tfd_entry : forall s e, FdInv (-1) s -> tfd s = -1 -> In e (ep (kern s)) -> en_data e <> -2.
Proof.
  intros s e I T H Q. destruct (fv_ent _ _ I e H) as [((A&_)&_)|[(A&_)|(_&B&_&D)]]; lia.
Qed.

(* stage B: the field st->u.epoll.timer_fd is set to a fresh timerfd *)
Lemma InvW_tfd_set : forall s fd, InvW s -> tfd s = -1 -> 1000 <= fd ->
  (exists v, k_get (kern s) fd = Some v /\ vkind v = K_TIMERFD) ->
  InvW (set_epoll s (epfd s) fd (pwait2 s)).
Proof.
  intros s fd [A B C D E F G H] T FD V. constructor.
  - pose proof A as A'. destruct A. constructor; try assumption.
    intros e He. destruct (fv_ent e He) as [X|[X|(X&Y&_&Z)]]; [left; exact X|right; left; exact X|lia].
  - intros k. exact (B k).
  - destruct C. constructor; try assumption.
    + right. split; [assumption|exact V].
    + intros e He Q. exfalso. eapply no_tfd_entry; eassumption.
  - exact D.
  - apply (TaskInv_same s); [reflexivity..|exact E].
  - destruct F. constructor; assumption.
  - destruct G. constructor; assumption.
  - destruct H. constructor; assumption.
Qed.

(* stage C: its entry is added to the interest list *)
Lemma InvW_tfd_ctl : forall s k', InvW s -> is_epoll s = true -> 1000 <= tfd s ->
  kctl (kern s) k' -> ep k' = ep (kern s) ++ [ctl_ent (tfd s) B_IN (-2)] ->
  (exists v, k_open (kern s) (tfd s) = Some v /\ vkind v = K_TIMERFD) ->
  ep_find (ep (kern s)) (tfd s) = false ->
  (forall k, live s (-1) k -> fdnum (fdt s k) <> tfd s) ->
  InvW (set_kern s k').
Proof.
  intros s k' [A B C D E F G H] EP T KC EK (v & V1 & V2) NF NL.
  assert (INE : forall e, In e (ep k') <-> In e (ep (kern s)) \/ e = ctl_ent (tfd s) B_IN (-2)).
  { intros e. rewrite EK, in_app_iff. cbn [In]. intuition congruence. }
  constructor.
  - apply (FdInv_rebuild_ep (-1) s); try reflexivity; try assumption.
    + intros k. repeat split.
    + intros fd. apply kctl_open. assumption.
    + intros e He. apply INE in He. destruct He as [He| ->]; [exact (fv_ent _ _ A e He)|].
      right; right. cbn [ctl_ent en_data en_fd en_events]. repeat split; assumption.
    + intros k L R. destruct (fv_has _ _ A EP k L R) as (e & X & Y). exists e. split; [apply INE; left; assumption|exact Y].
    + intros k L R. change (kern (set_kern s k')) with k'. rewrite EK, ep_find_app.
      change (fdt (set_kern s k')) with (fdt s). rewrite (fv_none _ _ A EP k L R). cbn [ep_find ctl_ent en_fd orb].
      rewrite orb_false_r. apply Z.eqb_neq. intros Q. apply (NL k L). symmetry. exact Q.
    + change (kern (set_kern s k')) with k'. rewrite EK. apply NoDup_fd_app; [apply (fv_nodup _ _ A)|exact NF].
    + intros e He. change (kern (set_kern s k')) with k' in *. rewrite (kctl_get _ _ _ KC). apply INE in He.
      destruct He as [He| ->]; [apply (fv_ealloc _ _ A); assumption|].
      cbn [ctl_ent en_fd]. apply k_open_some_get. congruence.
    + apply (fv_ref _ _ A).
    + intros Q. destruct (fv_kick _ _ A Q) as (e & X & Y). exists e. split; [apply INE; left; assumption|exact Y].
  - intros k. apply sync_at_same with (s := s); try reflexivity. apply B.
  - assert (FL : flt k' = flt (kern s)) by (destruct KC as (_&_&_&_&Q); exact Q).
    destruct C. constructor; sp; try assumption.
    + intros j J. specialize (dy_kern j J). dyk; [eapply pipe_ok_kctl|eapply evfd_ok_kctl]; eassumption.
    + intros J. destruct (dy_act J) as (X & (v0 & Y1 & Y2) & W). split; [assumption|]. split.
      * exists v0. rewrite (kctl_open _ _ _ KC). tauto.
      * destruct W as [W|W]; [left; assumption|right; eapply pipe_ok_kctl; eassumption].
    + destruct dy_tfd as [X|(X & v0 & Y1 & Y2)]; [left; assumption|right]. split; [assumption|]. exists v0.
      rewrite (kctl_get _ _ _ KC). tauto.
    + intros e He Q. exists v. rewrite (kctl_open _ _ _ KC). tauto.
  - exact D.
  - apply (TaskInv_same s); [reflexivity..|exact E].
  - apply (EvInv_same s); [constructor; reflexivity|exact F].
  - destruct G. constructor; assumption.
  - destruct H as [H1 H2 H3 H4]. constructor; sp; try assumption.
    + destruct KC as (_&_&_&_&Q). rewrite Q. assumption.
    + eapply kctl_KInv; eassumption.
Qed.

Record TcFr (s s' : core) : Prop := {
  tc_heap : heap s' = heap s; tc_cur : cur s' = cur s; tc_evb : ev_batch s' = ev_batch s;
  tc_active : active s' = active s; tc_nwait : nwait (kern s') = nwait (kern s); tc_epfd : epfd s' = epfd s;
}.
Lemma TcFr_refl : forall s, TcFr s s. Proof. intros; constructor; reflexivity. Qed.
Lemma TcFr_trans : forall a b c, TcFr a b -> TcFr b c -> TcFr a c.
Proof. intros a b c [] []. constructor; congruence. Qed.
Lemma TcFr_Q3 : forall s s', TcFr s s' -> Q3 s -> Q3 s'.
Proof. intros s s' [] (A&B&C). unfold Q3. rewrite tc_heap0, tc_cur0, tc_evb0. tauto. Qed.

Lemma tfd_create_ok : forall s, InvW s -> method s = M_ET -> tfd s = -1 ->
  let fd := next_fd (kern s) in
  let k1 := snd (k_alloc (kern s) K_TIMERFD) in
  let s1 := set_epoll (set_kern s k1) (epfd s) fd (pwait2 s) in
  exists s2, ctl_retry s1 CTL_ADD fd B_IN (-2) = (s2, None) /\ InvW s2 /\ TcFr s s2 /\ tfd s2 = fd /\
             method s2 = M_ET /\ 1000 <= fd.
Proof.
  intros s I M T fd k1 s1.
  pose proof (ms_kinv _ (iw_misc _ I)) as KI. pose proof (iw_fd _ I) as FI.
  destruct (alloc_spec (kern s) K_TIMERFD (ki_alloc _ KI)) as (A1 & A2 & A3 & A4 & A5 & A6). fold k1 in A2, A3, A4, A5. fold fd in A4, A6.
  assert (FD : 1000 <= fd) by (apply (ki_next _ KI)).
  assert (LT : forall x, k_get (kern s) x <> None -> x <> fd).
  { intros x G. apply (ki_alloc _ KI) in G. subst fd. lia. }
  assert (IA : InvW (set_kern s k1)) by (apply InvW_kstable; assumption).
  assert (I1 : InvW s1).
  { subst s1. apply (InvW_tfd_set (set_kern s k1) fd IA T FD). exists (vfd0 K_TIMERFD). split; [exact A4|reflexivity]. }
  assert (O1 : k_open (kern s1) fd = Some (vfd0 K_TIMERFD)) by (apply k_get_open; [exact A4|reflexivity]).
  assert (NF : ep_find (ep (kern s1)) fd = false).
  { change (kern s1) with k1. rewrite (kt_ep _ _ A2). apply ep_find_false. intros e He.
    apply LT. apply (fv_ealloc _ _ FI). assumption. }
  destruct (ctl_retry_spec s1 CTL_ADD fd B_IN (-2)) as (k' & CR & KC & EK).
  rewrite (ctl_pure_add (kern s1) fd B_IN (-2)) in CR, EK by (assumption || congruence). cbn [fst snd] in CR, EK.
  exists (set_kern s1 k'). split; [exact CR|]. split.
  - apply (InvW_tfd_ctl s1 k' I1); try assumption.
    + unfold is_epoll. change (method s1) with (method s). rewrite M. reflexivity.
    + exists (vfd0 K_TIMERFD). split; [exact O1|reflexivity].
    + intros k L. change (fdt s1 k) with (fdt s k). change (tfd s1) with fd. apply LT.
      apply k_open_some_get. apply (fv_open _ _ FI). exact L.
  - split; [|split; [reflexivity|split; [exact M|exact FD]]].
    constructor; try reflexivity. change (nwait (kern (set_kern s1 k'))) with (nwait k').
    destruct KC as (_&_&_&Q&_). rewrite Q. change (nwait (kern s1)) with (nwait k1). apply (kt_nwait _ _ A2).
Qed.

Lemma tfd_create_ok' : forall s fd k1, InvW s -> method s = M_ET -> tfd s = -1 ->
  k_alloc (kern s) K_TIMERFD = (fd, k1) ->
  exists s2, ctl_retry (set_epoll (set_kern s k1) (epfd s) fd (pwait2 s)) CTL_ADD fd B_IN (-2) = (s2, None) /\
             InvW s2 /\ TcFr s s2 /\ tfd s2 = fd /\ method s2 = M_ET /\ 1000 <= fd.
Proof.
  intros s fd k1 I M T KA. pose proof (tfd_create_ok s I M T) as H. cbv zeta in H. rewrite KA in H. cbn [snd] in H.
  assert (fd = next_fd (kern s)) by (unfold k_alloc in KA; congruence). subst fd. exact H.
Qed.

(* small steps of iv_fd_timeout_check *)
Definition Sm (s s' : core) : Prop := InvW s' /\ TcFr s s' /\ tm s s'.
Lemma Sm_refl : forall s, InvW s -> Sm s s.
Proof. intros. split; [assumption|split; [apply TcFr_refl|apply tm_refl]]. Qed.
Lemma Sm_trans : forall a b c, Sm a b -> Sm b c -> Sm a c.
Proof. intros a b c (A1&A2&A3) (B1&B2&B3). split; [assumption|split; [eapply TcFr_trans|eapply tm_trans]; eassumption]. Qed.

Lemma Sm_settime : forall s d, InvW s -> Sm s (tfd_settime s d).
Proof.
  intros s d I. unfold tfd_settime. pose proof (kstable_settime (kern s) (tfd s) d) as KS.
  split; [apply InvW_emit; [apply InvW_kstable; assumption|discriminate..]|].
  split; [constructor; try reflexivity; apply (kt_nwait _ _ KS)|repeat split].
Qed.
Lemma Sm_last_abs : forall s a c, InvW s -> Sm s (set_last_abs s a c).
Proof.
  intros s a c I. split; [apply (InvW_coresame s); [cs_refl|apply (ms_nobad _ (iw_misc _ I))|assumption]|].
  split; [constructor; reflexivity|repeat split].
Qed.

Section Wait.
Variable sc : scenario.
Hypothesis WF : wf_scenario sc.
Hypothesis do_action_ok : forall s a, InvW s -> wf_action a -> okr (StepW s) (do_action s a).

Definition EnterPost (s s' : core) : Prop :=
  InvW s' /\ KO s s' /\ nwait (kern s') = nwait (kern s) + 1 /\ nwait (kern s') <= sc_limit sc.

Lemma wait_enter_ok : forall s, InvW s -> okr (EnterPost s) (wait_enter sc s).
Proof.
  intros s I. unfold wait_enter. cbv zeta. destruct (Z.ltb_spec (sc_limit sc) (nwait (kern s) + 1)) as [LT|GE].
  - apply okr_halt; [apply (ms_nobad _ (iw_misc _ I))|discriminate..].
  - set (s1 := set_kern s (k_set_nwait (kern s) (nwait (kern s) + 1))).
    assert (I1 : InvW s1) by (apply InvW_nwait; assumption).
    destruct (wait_acts_ok (sc_wait sc (nwait (kern s) + 1)) s1 I1 (wf_waits sc WF _)) as (s2 & E2 & I2 & K2 & N2).
    rewrite E2. cbn [okr]. split; [assumption|]. split; [|split].
    + eapply KO_trans; [|exact K2]. constructor; reflexivity.
    + rewrite N2. reflexivity.
    + rewrite N2. exact GE.
Qed.

(* ---------- the epoll waits ---------- *)
Definition halts (r : res) : Prop := match r with Halt s => nobad (trace s) | R _ => False end.
Lemma halts_okr : forall P r, halts r -> okr P r.
Proof. intros P [s|s] H; [contradiction|exact H]. Qed.
Lemma halts_halt : forall s e, nobad (trace s) -> e <> TCrash -> e <> TFatal -> halts (halt s e).
Proof. intros. unfold halt. cbn [halts]. sp. apply nobad_cons; assumption. Qed.

Definition tfd_readable (s : core) : Prop :=
  exists v, k_open (kern s) (tfd s) = Some v /\ vkind v = K_TIMERFD /\ has (k_cond (kern s) (tfd s)) B_IN = true.

Definition WPost (s : core) (w : wres) : Prop :=
  match w with
  | WR s' evs => InvW s' /\ KO s s' /\ nwait (kern s') = nwait (kern s) + 1 /\ nwait (kern s') <= sc_limit sc /\
                 (forall x, In x evs -> ev_ok s' x) /\ ((exists x, In x evs /\ snd x = -2) -> tfd_readable s')
  | WE s' => InvW s' /\ KO s s' /\ nwait (kern s') = nwait (kern s) + 1 /\ nwait (kern s') <= sc_limit sc
  | WH r => halts r
  end.

Lemma do_epoll_wait_ok : forall s call maxev timeout, InvW s -> TfdM s -> WPost s (do_epoll_wait sc s call maxev timeout).
Proof.
  intros s call maxev timeout I TM. unfold do_epoll_wait.
  pose proof (wait_enter_ok s I) as WE. destruct (wait_enter sc s) as [s1|s1]; cbn [okr] in WE; [|exact WE].
  destruct WE as (I1 & K1 & N1 & L1). cbv zeta.
  set (s2 := emit s1 (TWait _ _ _ _ _ _)).
  assert (I2 : InvW s2) by (apply InvW_emit; [assumption|discriminate..]).
  assert (K2 : KO s s2) by (eapply KO_trans; [exact K1|]; constructor; reflexivity).
  destruct (mem_z _ _).
  - (* EINTR *)
    set (s3 := if 0 <? timeout then set_kern s2 (k_set_clock (kern s2) (clock (kern s2) + timeout / 2)) else s2).
    assert (S3 : InvW s3 /\ KO s2 s3 /\ nwait (kern s3) = nwait (kern s2)).
    { subst s3. destruct (0 <? timeout); [|split; [assumption|split; [apply KO_refl|reflexivity]]].
      split; [apply InvW_kstable; [assumption|apply kstable_clock]|]. split; [constructor; reflexivity|reflexivity]. }
    destruct S3 as (I3 & K3 & N3). cbn [WPost].
    split; [apply InvW_emit; [assumption|discriminate..]|].
    split; [eapply KO_trans; [exact K2|]; eapply KO_trans; [exact K3|]; constructor; reflexivity|].
    change (nwait (kern (emit s3 (TRet None [] (clock (kern s3)))))) with (nwait (kern s3)).
    rewrite N3. change (nwait (kern s2)) with (nwait (kern s1)). tauto.
  - pose proof (sleep_spec (kern s2) maxev timeout (sc_rot sc (nwait (kern s1)))
                 (fun e H => no_oneshot s2 e (iw_fd _ I2) H)) as SP.
    change (kern s2) with (kern s1) in *.
    destruct (k_epoll_sleep (kern s1) maxev timeout (sc_rot sc (nwait (kern s1)))) as [k' evs|k'| |]; try contradiction.
    + destruct SP as (kX & KX & -> & SC).
      assert (GX : forall fd, k_get kX fd = k_get (kern s1) fd) by (destruct KX as [->|(w & ->)]; reflexivity).
      assert (EX : ep kX = ep (kern s1)) by (destruct KX as [->|(w & ->)]; reflexivity).
      assert (NX : nwait kX = nwait (kern s1)) by (destruct KX as [->|(w & ->)]; reflexivity).
      assert (KS : kstable (kern s2) (k_set_ep kX (ep (kern s1)))).
      { eapply kstable_trans; [|apply kstable_setep_same; symmetry; exact EX].
        destruct KX as [->|(w & ->)]; [apply kstable_refl|apply kstable_clock]. }
      cbn [WPost]. set (s3 := emit (set_kern s2 (k_set_ep kX (ep (kern s1)))) _).
      assert (I3 : InvW s3) by (apply InvW_emit; [apply InvW_kstable; assumption|discriminate..]).
      split; [assumption|]. split; [eapply KO_trans; [exact K2|]; constructor; reflexivity|].
      split; [change (nwait (kern s3)) with (nwait kX); rewrite NX; exact N1|].
      split; [change (nwait (kern s3)) with (nwait kX); rewrite NX; exact L1|].
      pose proof (iw_fd _ I1) as FI1.
      split.
      * intros x X. destruct (SC x X) as (e & E1 & -> & _). unfold ev_ok. cbn [snd].
        destruct (fv_ent _ _ FI1 e E1) as [(A&_)|[(A&_)|(A&B&_&D)]]; [right; right; exact A|left; exact A|right; left].
        split; [assumption|]. change (method s3) with (method s1). rewrite (ko_method _ _ K1). apply TM.
        rewrite <- (ko_tfd _ _ K1). lia.
      * intros (x & X & X2). destruct (SC x X) as (e & E1 & -> & RB). cbn [snd] in X2.
        assert (TF : en_fd e = tfd s1).
        { destruct (fv_ent _ _ FI1 e E1) as [((A&_)&_)|[(A&_)|(_&B&_)]]; [lia|lia|assumption]. }
        destruct (dy_tfdent _ (iw_dyn _ I1) e E1 X2) as (v & V1 & V2).
        unfold tfd_readable. change (tfd s3) with (tfd s1). change (kern s3) with (k_set_ep kX (ep (kern s1))).
        exists v. split; [|split; [assumption|]].
        -- unfold k_open in *. change (k_get (k_set_ep kX (ep (kern s1))) (tfd s1)) with (k_get kX (tfd s1)). rewrite GX. exact V1.
        -- rewrite cond_set_ep, <- TF. apply (tfd_ready kX e v); [|assumption|assumption].
           rewrite GX, TF. apply k_open_get in V1. apply V1.
    + cbn [WPost]. apply halts_halt; [apply (ms_nobad _ (iw_misc _ I2))|discriminate..].
Qed.

Lemma WaitStep_validate : forall s, InvW s -> WaitStep s (validate_now s).
Proof.
  intros s I. split; [apply InvW_validate; assumption|]. unfold validate_now. destruct (time_valid s).
  - split; [apply KO_refl|reflexivity].
  - split; [constructor; reflexivity|reflexivity].
Qed.

Lemma WPost_pre : forall s s0 w, WaitStep s s0 -> WPost s0 w -> WPost s w.
Proof.
  intros s s0 w (I0 & K0 & N0) W. destruct w as [s' evs|s'|r]; cbn [WPost] in *; [| |exact W].
  - destruct W as (A & B & C & D & E). split; [assumption|]. split; [eapply KO_trans; eassumption|]. rewrite <- N0. tauto.
  - destruct W as (A & B & C & D). split; [assumption|]. split; [eapply KO_trans; eassumption|]. rewrite <- N0. tauto.
Qed.

Lemma TfdM_KO : forall s s', TfdM s -> KO s s' -> TfdM s'.
Proof. intros s s' T K. eapply TfdM_tm; [exact T|apply KO_tm; exact K]. Qed.

Lemma to_relative_step : forall s abs, InvW s -> WaitStep s (fst (to_relative s abs)).
Proof.
  intros s abs I. unfold to_relative. destruct abs; cbn [fst]; [apply WaitStep_validate; assumption|].
  split; [assumption|split; [apply KO_refl|reflexivity]].
Qed.
Lemma to_msec_step : forall s abs, InvW s -> WaitStep s (fst (to_msec s abs)).
Proof.
  intros s abs I. unfold to_msec. pose proof (to_relative_step s abs I) as H.
  destruct (to_relative s abs) as [s1 [r|]]; exact H.
Qed.

Lemma epoll_wait_m_ok : forall s abs maxev, InvW s -> TfdM s -> WPost s (epoll_wait_m sc s abs maxev).
Proof.
  intros s abs maxev I TM. unfold epoll_wait_m.
  assert (VIA : forall s0, InvW s0 -> TfdM s0 ->
            WPost s0 (let '(s1, ms) := to_msec s0 abs in do_epoll_wait sc s1 0 maxev (if ms <? 0 then -1 else ms * 1000000))).
  { intros s0 I0 T0. pose proof (to_msec_step s0 abs I0) as H. destruct (to_msec s0 abs) as [s1 ms]. cbn [fst] in H.
    eapply WPost_pre; [exact H|]. apply do_epoll_wait_ok; [apply H|eapply TfdM_KO; [exact T0|apply H]]. }
  destruct (pwait2 s); [|apply VIA; assumption].
  pose proof (to_relative_step s abs I) as H. destruct (to_relative s abs) as [s1 rel]. cbn [fst] in H.
  eapply WPost_pre; [exact H|]. destruct H as (I1 & K1 & N1). pose proof (TfdM_KO _ _ TM K1) as T1.
  destruct (no_pwait2 (flt (kern s1)) || perm_pwait2 (flt (kern s1))).
  - set (s2 := set_epoll s1 (epfd s1) (tfd s1) false).
    assert (W2 : WaitStep s1 s2).
    { split; [apply (InvW_coresame s1); [cs_refl|apply (ms_nobad _ (iw_misc _ I1))|assumption]|].
      split; [constructor; reflexivity|reflexivity]. }
    eapply WPost_pre; [exact W2|]. apply VIA; [apply W2|eapply TfdM_KO; [exact T1|apply W2]].
  - apply do_epoll_wait_ok; assumption.
Qed.

(* ---------- chaining frames through the poll phase ---------- *)
Definition Ch (s s' : core) : Prop := (Q3 s -> Q3 s') /\ tm s s' /\ nwait (kern s') = nwait (kern s).
Lemma Ch_refl : forall s, Ch s s. Proof. intros. split; [tauto|split; [apply tm_refl|reflexivity]]. Qed.
Lemma Ch_trans : forall a b c, Ch a b -> Ch b c -> Ch a c.
Proof. intros a b c (A1&A2&A3) (B1&B2&B3). split; [tauto|split; [eapply tm_trans; eassumption|congruence]]. Qed.
Lemma Ch_KO : forall s s', KO s s' -> nwait (kern s') = nwait (kern s) -> Ch s s'.
Proof. intros s s' K N. split; [apply KO_Q3; assumption|split; [apply KO_tm; assumption|assumption]]. Qed.
Lemma Ch_AFr : forall s s', AFr s s' -> Ch s s'.
Proof. intros s s' A. split; [apply AFr_Q3; assumption|split; [apply AFr_tm; assumption|rewrite (af_kern _ _ A); reflexivity]]. Qed.
Lemma Ch_StepT : forall s s', StepT s s' -> Ch s s'.
Proof. intros s s' (I & F & T). split; [intros Q; eapply Q3_Fr; eassumption|split; [assumption|apply (fr_nwait _ _ F)]]. Qed.
Lemma Ch_kern : forall s k', nwait k' = nwait (kern s) -> Ch s (set_kern s k').
Proof. intros s k' N. split; [tauto|split; [repeat split|exact N]]. Qed.
Lemma Ch_restsame : forall s s', restsame s s' -> nwait (kern s') = nwait (kern s) -> epfd s' = epfd s -> Ch s s'.
Proof.
  intros s s' R N E. split; [|split; [|assumption]].
  - intros (A&B&C). unfold Q3. rewrite (rs_heap _ _ R), (rs_cur _ _ R), (rs_evb _ _ R). tauto.
  - repeat split; [apply (rs_tfd _ _ R)|apply (rs_method _ _ R)|assumption].
Qed.

Definition PollPost (s s' : core) : Prop :=
  InvW s' /\ Q3 s' /\ TfdM s' /\ nwait (kern s') = nwait (kern s) + 1 /\ nwait (kern s') <= sc_limit sc.

Let Hh := wf_handlers sc WF.

Lemma epoll_poll_ok : forall s abs, InvW s -> Q3 s -> TfdM s -> is_epoll s = true ->
  okr (PollPost s) (fst (epoll_poll sc s abs)).
Proof.
  intros s abs I Q TM E. unfold epoll_poll. cbv zeta.
  destruct (flush_pending_ok (S (length (notify s))) s I E ltac:(lia)) as (s1 & F1 & I1 & N1 & W1 & R1 & A1 & NF1 & KC1 & RB1).
  rewrite F1.
  assert (C1 : Ch s s1) by (apply Ch_restsame; [assumption|assumption|apply (rs_epfd _ _ R1)]).
  pose proof (TfdM_tm _ _ TM (proj1 (proj2 C1))) as T1.
  match goal with |- context [epoll_wait_m sc s1 abs ?m] => pose proof (epoll_wait_m_ok s1 abs m I1 T1) as WP;
    destruct (epoll_wait_m sc s1 abs m) as [s2 evs|s2|r] end; cbn [WPost] in WP.
  - destruct WP as (I2 & K2 & N2 & L2 & EV & RD). cbv zeta.
    assert (C2 : Q3 s2 /\ tm s s2).
    { split; [apply (KO_Q3 _ _ K2); apply C1; assumption|eapply tm_trans; [apply C1|apply KO_tm; assumption]]. }
    pose proof (StepT_invalidate s2 I2) as S3. set (s3 := invalidate_now s2) in *.
    pose proof (epoll_process_ok evs s3 false false (proj1 S3) EV) as (I4 & A4 & TMR).
    destruct (epoll_process s3 evs false false) as [[s4 re] tmr]. cbn [fst snd] in *.
    assert (C4 : Ch s2 s4) by (eapply Ch_trans; [apply Ch_StepT; exact S3|apply Ch_AFr; exact A4]).
    eapply okr_bind with (P := fun s5 => InvW s5 /\ Ch s4 s5).
    { destruct tmr; [|cbn [okr]; split; [assumption|apply Ch_refl]].
      destruct (TMR eq_refl) as [X|X]; [discriminate|]. destruct (RD X) as (v & V1 & V2 & V3).
      assert (KE : kern s4 = kern s2) by (rewrite (af_kern _ _ A4); reflexivity).
      assert (TE : tfd s4 = tfd s2) by (rewrite (af_tfd _ _ A4); reflexivity).
      rewrite KE, TE. destruct (tfd_read _ _ _ V1 V2 V3) as (k1 & n & RDK).
      pose proof (kstable_read (kern s2) (tfd s2) 8) as KS. rewrite RDK in *. cbn [fst] in KS. rewrite <- KE in KS.
      cbn [okr]. split; [apply InvW_kstable; assumption|apply Ch_kern; apply (kt_nwait _ _ KS)]. }
    intros s5 (I5 & C5).
    assert (FIN : forall s6, InvW s6 -> Ch s5 s6 -> PollPost s s6).
    { intros s6 I6 C6. pose proof (Ch_trans _ _ _ C4 (Ch_trans _ _ _ C5 C6)) as (X1 & X2 & X3).
      split; [assumption|]. split; [apply X1; apply C2|]. split; [eapply TfdM_tm; [exact TM|eapply tm_trans; [apply C2|exact X2]]|].
      rewrite X3. lia. }
    destruct re.
    + eapply okr_weaken; [apply (run_pending_events_ok sc Hh do_action_ok s5 I5)|].
      intros s6 S6. apply FIN; [apply S6|apply Ch_StepT; assumption].
    + cbn [okr]. apply FIN; [assumption|apply Ch_refl].
  - destruct WP as (I2 & K2 & N2 & L2). cbn [fst okr].
    pose proof (StepT_invalidate s2 I2) as S3.
    split; [apply S3|]. split; [eapply Q3_Fr; [|apply S3]; apply (KO_Q3 _ _ K2); apply C1; assumption|].
    split; [eapply TfdM_tm; [|apply S3]; eapply TfdM_KO; eassumption|].
    change (nwait (kern (invalidate_now s2))) with (nwait (kern s2)). lia.
  - cbn [fst]. apply halts_okr. exact WP.
Qed.

(* ---------- the poll back ends ---------- *)
Definition Ch1 (s s' : core) : Prop :=
  (Q3 s -> Q3 s') /\ tm s s' /\ nwait (kern s') = nwait (kern s) + 1 /\ nwait (kern s') <= sc_limit sc.

Lemma do_poll_wait_ok : forall s call timeout, InvW s ->
  okr (fun s' => InvW s' /\ Ch1 s s') (fst (do_poll_wait sc s call timeout)).
Proof.
  intros s call timeout I. unfold do_poll_wait.
  pose proof (wait_enter_ok s I) as WE. destruct (wait_enter sc s) as [s1|s1]; cbn [okr] in WE; [|exact WE].
  destruct WE as (I1 & K1 & N1 & L1). cbv zeta.
  set (s2 := emit s1 (TWait _ _ _ _ _ _)).
  assert (I2 : InvW s2) by (apply InvW_emit; [assumption|discriminate..]).
  assert (FIN : forall s3, InvW s3 -> Ch s2 s3 -> InvW s3 /\ Ch1 s s3).
  { intros s3 I3 (X1 & X2 & X3). split; [assumption|]. split; [|split].
    - intros Q. apply X1. apply (KO_Q3 _ _ K1) in Q. exact Q.
    - eapply tm_trans; [apply (KO_tm _ _ K1)|]. eapply tm_trans; [|exact X2]. repeat split.
    - rewrite X3. change (nwait (kern s2)) with (nwait (kern s1)). tauto. }
  destruct (mem_z _ _).
  - set (s3 := if 0 <? timeout then set_kern s2 (k_set_clock (kern s2) (clock (kern s2) + timeout / 2)) else s2).
    assert (S3 : InvW s3 /\ Ch s2 s3).
    { subst s3. destruct (0 <? timeout); [|split; [assumption|apply Ch_refl]].
      split; [apply InvW_kstable; [assumption|apply kstable_clock]|apply Ch_kern; reflexivity]. }
    destruct S3 as (I3 & C3). cbn [fst okr].
    pose proof (StepT_emit s3 (TRet None [] (clock (kern s3))) I3 ltac:(discriminate) ltac:(discriminate)) as S4.
    pose proof (StepT_invalidate _ (proj1 S4)) as S5.
    apply FIN; [apply S5|]. eapply Ch_trans; [exact C3|]. eapply Ch_trans; apply Ch_StepT; eassumption.
  - unfold k_poll_sleep. cbv zeta. change (pfds s2) with (pfds s1). change (kern s2) with (kern s1).
    assert (RDY : forall k1 revs, kstable (kern s2) k1 ->
       okr (fun s' => InvW s' /\ Ch1 s s')
           (R (poll_activate (invalidate_now (emit (set_kern s2 k1) (TRet (Some (count_nonzero revs)) (reported_pfds (pfds s1) revs) (clock k1)))) (pkeys s2) revs))).
    { intros k1 revs KS. cbn [okr].
      assert (I3 : InvW (set_kern s2 k1)) by (apply InvW_kstable; assumption).
      pose proof (StepT_emit _ (TRet (Some (count_nonzero revs)) (reported_pfds (pfds s1) revs) (clock k1)) I3 ltac:(discriminate) ltac:(discriminate)) as S4.
      pose proof (StepT_invalidate _ (proj1 S4)) as S5.
      match goal with |- context [poll_activate ?a ?b ?c] => destruct (poll_activate_ok b c a (proj1 S5)) as [I6 A6] end.
      { intros k Hk. apply In_nth_error in Hk. destruct Hk as (n & Hn).
        destruct (fv_pkey _ _ (iw_fd _ I2) n k Hn) as (L & _). exact L. }
      apply FIN; [assumption|]. eapply Ch_trans; [apply Ch_kern; apply (kt_nwait _ _ KS)|].
      eapply Ch_trans; [apply Ch_StepT; exact S4|]. eapply Ch_trans; [apply Ch_StepT; exact S5|apply Ch_AFr; exact A6]. }
    destruct ((0 <? count_nonzero (poll_eval (kern s1) (pfds s1))) || (timeout =? 0)); cbn [fst].
    + apply RDY. apply kstable_refl.
    + destruct (timeout <? 0); cbn [fst].
      * apply okr_halt; [apply (ms_nobad _ (iw_misc _ I2))|discriminate..].
      * apply RDY. apply kstable_clock.
Qed.

Lemma poll_poll_ok : forall s abs, InvW s -> Q3 s -> TfdM s -> is_epoll s = false ->
  okr (PollPost s) (fst (poll_poll sc s abs)).
Proof.
  intros s abs I Q TM E. unfold poll_poll.
  assert (FIN : forall s0 r, InvW s0 -> Q3 s0 -> TfdM s0 -> nwait (kern s0) = nwait (kern s) ->
            okr (fun s' => InvW s' /\ Ch1 s0 s') r -> okr (PollPost s) r).
  { intros s0 r I0 Q0 T0 N0 H. eapply okr_weaken; [exact H|]. intros s' (I' & X1 & X2 & X3 & X4).
    split; [assumption|]. split; [auto|]. split; [eapply TfdM_tm; eassumption|]. rewrite <- N0. tauto. }
  assert (VIA : forall s0, InvW s0 -> Q3 s0 -> TfdM s0 -> nwait (kern s0) = nwait (kern s) ->
            okr (PollPost s) (fst (let '(s1, ms) := to_msec s0 abs in do_poll_wait sc s1 2 (if ms <? 0 then -1 else ms * 1000000)))).
  { intros s0 I0 Q0 T0 N0. pose proof (to_msec_step s0 abs I0) as (I1 & K1 & N1). destruct (to_msec s0 abs) as [s1 ms]. cbn [fst] in *.
    apply (FIN s1); [assumption|apply (KO_Q3 _ _ K1); assumption|eapply TfdM_KO; eassumption|congruence|].
    apply do_poll_wait_ok. assumption. }
  destruct (Z.eqb_spec (method s) M_PP) as [MP|NP]; [|apply VIA; try assumption; reflexivity].
  pose proof (to_relative_step s abs I) as (I1 & K1 & N1). destruct (to_relative s abs) as [s1 rel]. cbn [fst] in *.
  pose proof (KO_Q3 _ _ K1 Q) as Q1. pose proof (TfdM_KO _ _ TM K1) as T1.
  destruct (no_ppoll (flt (kern s1))).
  - pose proof (StepT_invalidate s1 I1) as S2. set (s2 := invalidate_now s1) in *.
    assert (M2 : method s2 = M_PP) by (change (method s2) with (method s1); rewrite (ko_method _ _ K1); assumption).
    apply VIA.
    + apply InvW_set_method; [apply S2| |unfold M_PO; lia]. unfold is_epoll. sp. rewrite M2. reflexivity.
    + destruct (Q3_Fr _ _ Q1 (proj1 (proj2 S2))) as (A&B&C). repeat split; assumption.
    + intros X. change (tfd (set_method s2 M_PO)) with (tfd s1) in X. apply T1 in X.
      change (method s2) with (method s1) in M2. rewrite M2 in X. discriminate.
    + change (nwait (kern (set_method s2 M_PO))) with (nwait (kern s1)). assumption.
  - apply (FIN s1); try assumption. apply do_poll_wait_ok. assumption.
Qed.

Lemma m_poll_ok : forall s abs, InvW s -> Q3 s -> TfdM s -> okr (PollPost s) (fst (m_poll sc s abs)).
Proof.
  intros s abs I Q T. unfold m_poll. destruct (is_epoll s) eqn:E; [apply epoll_poll_ok|apply poll_poll_ok]; assumption.
Qed.

(* ---------- iv_fd_timeout_check ---------- *)
Definition TCPost (s s' : core) : Prop := InvW s' /\ TcFr s s' /\ TfdM s' /\ is_epoll s' = true.

Lemma TCPost_Sm : forall s s', Sm s s' -> method s = M_ET -> TCPost s s'.
Proof.
  intros s s' (I & F & (T1 & T2 & T3)) M. split; [assumption|]. split; [assumption|].
  split; [intros _; congruence|unfold is_epoll; rewrite T2, M; reflexivity].
Qed.

Lemma set_poll_timeout_ok : forall s a, InvW s -> method s = M_ET -> okr (TCPost s) (fst (set_poll_timeout s a)).
Proof.
  intros s a I M. unfold set_poll_timeout.
  destruct (Z.eqb_spec (tfd s) (-1)) as [T|NT].
  - unfold k_timerfd_create. destruct (no_timerfd (flt (kern s))).
    + cbn [fst okr]. split; [|split; [constructor; reflexivity|split; [intros X; contradiction|reflexivity]]].
      apply InvW_set_method; [apply InvW_kstable; [assumption|apply kstable_refl]| |unfold M_EP; lia].
      unfold is_epoll. sp. rewrite M. reflexivity.
    + destruct (k_alloc (kern s) K_TIMERFD) as [fd k1] eqn:KA.
      destruct (tfd_create_ok' s fd k1 I M T KA) as (s2 & CR & I2 & F2 & T2 & M2 & FD).
      sp. rewrite CR. cbn [fst okr].
      pose proof (Sm_settime s2 (if a =? 0 then 1 else a) I2) as (I3 & F3 & T3).
      split; [assumption|]. split; [eapply TcFr_trans; eassumption|].
      destruct T3 as (X1 & X2 & X3). split; [intros _; congruence|unfold is_epoll; rewrite X2, M2; reflexivity].
  - cbn [fst okr]. apply TCPost_Sm; [apply Sm_settime; assumption|assumption].
Qed.

Lemma timeout_check_ok : forall s abs, InvW s -> method s = M_ET -> okr (TCPost s) (fst (timeout_check s abs)).
Proof.
  intros s abs I M. unfold timeout_check. cbv zeta.
  destruct ((last_abs_count s =? 5) && (0 <=? abs_cmp abs (last_abs s))).
  { cbn [fst okr]. apply TCPost_Sm; [apply Sm_refl; assumption|assumption]. }
  set (s1 := if last_abs_count s =? 5 then tfd_settime s 0 else s).
  assert (S1 : Sm s s1) by (subst s1; destruct (last_abs_count s =? 5); [apply Sm_settime|apply Sm_refl]; assumption).
  destruct (abs_cmp abs (last_abs s) =? 0).
  - set (s2 := if last_abs_count s1 <? 5 then set_last_abs s1 (last_abs s1) (last_abs_count s1 + 1) else s1).
    assert (S2 : Sm s s2).
    { eapply Sm_trans; [exact S1|]. subst s2. destruct (last_abs_count s1 <? 5); [apply Sm_last_abs|apply Sm_refl]; apply S1. }
    assert (DONE : okr (TCPost s) (R s2)) by (cbn [okr]; apply TCPost_Sm; assumption).
    destruct (last_abs_count s2 =? 5); [|cbn [fst]; exact DONE].
    destruct abs as [a|]; [|cbn [fst]; exact DONE].
    assert (M2 : method s2 = M_ET) by (destruct S2 as (_ & _ & (_ & X & _)); congruence).
    eapply okr_weaken; [apply (set_poll_timeout_ok s2 a (proj1 S2) M2)|].
    intros s3 (I3 & F3 & T3 & E3). split; [assumption|]. split; [eapply TcFr_trans; [apply S2|exact F3]|]. tauto.
  - destruct abs as [a|]; cbn [fst okr]; (apply TCPost_Sm; [|assumption]); (eapply Sm_trans; [exact S1|]);
      apply Sm_last_abs; apply S1.
Qed.

(* ---------- iv_fd_poll_and_run ---------- *)
Definition LoopInv (s : core) : Prop := InvW s /\ Q3 s /\ TfdM s /\ active s = [].

Definition PRPost (s s' : core) : Prop :=
  LoopInv s' /\ nwait (kern s') = nwait (kern s) + 1 /\ nwait (kern s') <= sc_limit sc.

Lemma PollPost_pre : forall s s0 r, nwait (kern s0) = nwait (kern s) -> okr (PollPost s0) r -> okr (PollPost s) r.
Proof.
  intros s s0 r N H. eapply okr_weaken; [exact H|]. intros s' (A & B & C & D & E). unfold PollPost. rewrite <- N. tauto.
Qed.

Lemma poll_and_run_ok : forall s abs, LoopInv s -> okr (PRPost s) (fst (poll_and_run sc s abs)).
Proof.
  intros s abs (I & Q & TM & AC). unfold poll_and_run.
  match goal with |- context [let '(r, rt) := ?X in (bind r _, rt)] =>
    assert (MP : okr (PollPost s) (fst X)); [|destruct X as [r rt]] end.
  { destruct (Z.eqb_spec (method s) M_ET) as [M|NM]; [|apply m_poll_ok; assumption].
    pose proof (timeout_check_ok s abs I M) as TC.
    destruct (timeout_check s abs) as [[s1|s1] b]; cbn [fst okr] in TC; [|cbn [fst okr]; exact TC].
    destruct TC as (I1 & F1 & T1 & E1). pose proof (TcFr_Q3 _ _ F1 Q) as Q1.
    destruct b.
    - pose proof (m_poll_ok s1 None I1 Q1 T1) as MP. destruct (m_poll sc s1 None) as [r rt]. cbn [fst] in *.
      apply (PollPost_pre s s1); [apply (tc_nwait _ _ F1)|].
      eapply okr_bind; [exact MP|]. intros s2 (I2 & Q2 & T2 & N2 & L2). cbn [okr].
      destruct rt; [|split; [assumption|split; [assumption|split; [assumption|split; assumption]]]].
      destruct (Sm_last_abs s2 (last_abs s2) 0 I2) as (I3 & F3 & T3).
      split; [assumption|]. split; [apply (TcFr_Q3 _ _ F3); assumption|]. split; [eapply TfdM_tm; eassumption|].
      rewrite (tc_nwait _ _ F3). tauto.
    - apply (PollPost_pre s s1); [apply (tc_nwait _ _ F1)|]. apply m_poll_ok; assumption. }
  cbn [fst] in *. eapply okr_bind; [exact MP|].
  intros s1 (I1 & Q1 & T1 & N1 & L1).
  eapply okr_weaken; [apply (dispatch_active_ok sc Hh do_action_ok (S (length (active s1))) s1 I1); lia|].
  intros s2 (I2 & Q2 & T2 & A2). split; [|rewrite (fq_nwait _ _ Q2); tauto].
  split; [assumption|]. split; [eapply Q3_Fq; eassumption|]. split; [eapply TfdM_tm; eassumption|assumption].
Qed.

(* ---------- iv_main ---------- *)
Lemma LoopInv_Ph : forall s s', LoopInv s -> PhPost s s' -> LoopInv s' /\ nwait (kern s') = nwait (kern s).
Proof.
  intros s s' (I & Q & T & A) (I' & Q' & T' & N' & A'). split; [|assumption].
  split; [assumption|]. split; [assumption|]. split; [eapply TfdM_tm; eassumption|].
  rewrite A in A'. destruct (active s'); [reflexivity|cbn in A'; lia].
Qed.

Lemma main_loop_ok : forall fuel s rt, LoopInv s -> nwait (kern s) <= sc_limit sc ->
  (Z.to_nat (sc_limit sc - nwait (kern s)) < fuel)%nat -> okr LoopInv (main_loop sc fuel s rt).
Proof.
  induction fuel as [|f IH]; intros s rt L NL FU; [lia|].
  cbn [main_loop].
  eapply okr_bind with (P := fun s1 => LoopInv s1 /\ nwait (kern s1) = nwait (kern s)).
  { destruct rt; [|cbn [okr]; split; [assumption|reflexivity]].
    eapply okr_weaken; [apply (run_timers_ok sc Hh do_action_ok s); apply L|]. intros s1 P. apply LoopInv_Ph; assumption. }
  intros s1 (L1 & N1).
  eapply okr_bind with (P := fun s2 => LoopInv s2 /\ nwait (kern s2) = nwait (kern s)).
  { eapply okr_weaken; [apply (run_tasks_ok sc Hh do_action_ok s1); apply L1|]. intros s2 P.
    destruct (LoopInv_Ph _ _ L1 P). split; [assumption|congruence]. }
  intros s2 (L2 & N2).
  destruct (quit s2 || (numobjs s2 =? 0)); [cbn [okr]; assumption|]. cbv zeta.
  match goal with |- context [poll_and_run sc s2 ?a] => pose proof (poll_and_run_ok s2 a L2) as PR;
    destruct (poll_and_run sc s2 a) as [r rt'] end. cbn [fst] in PR.
  eapply okr_bind; [exact PR|]. intros s3 (L3 & N3 & M3). apply IH; [assumption|assumption|lia].
Qed.

End Wait.
