(* CoreRelWait.v -- the invariant J through the poll back ends (waits, activation
   of reported descriptors), the kernel-timer optimisation and iv_fd_poll_and_run. *)
From Coq Require Import List ZArith Bool Lia.
From Ivv Require Import Core.Kernel Core.CoreTypes Core.CoreFd Core.CoreModel Core.Monitors Core.CoreSpec
  Core.CoreRelBase Core.CoreRelMon Core.CoreRelDefs Core.CoreRelFd Core.CoreRelTm Core.CoreRelAct Core.CoreRelLoop.
From Ivv Require Timer.HeapModel Timer.HeapFacts.
Import ListNotations.
Local Open Scope Z_scope.

Ltac Zify.zify_post_hook ::= Z.div_mod_to_equations.

(* a silent step that keeps every descriptor object's visible part *)
Lemma J_same_fk : forall b s s', J b s -> Same s s' -> (forall i, fkeep (fdt s' i) (fdt s i)) ->
  FdI s' (-1) -> J b s'.
Proof.
  intros b s s' Jh S F FI.
  destruct S as [B1 B2 B3 B4 B5 B6 B7 B8 B9 B10 B11 B12 B13 B14 B15 B16].
  apply (J_upd b s s' Jh); rewrite ?B16; try reflexivity; try (apply (j_good _ _ Jh)); try assumption.
  - left. split; [intros i _; apply F|repeat split; reflexivity].
  - left. auto.
  - left. auto.
  - left. auto.
  - left. auto.
  - left. auto.
  - left. auto.
  - left. assumption.
  - left. auto.
  - left. auto.
  - left. auto.
  - apply (FdX_keep s s' (j_fx _ _ Jh)); try assumption.
    + intros i. apply hsame_hnd. apply (F i).
    + intros i _. apply (F i).
Qed.

(* the external actions at a wait do not touch the quit flag *)
Lemma wait_action_quit : forall s a s', wf_wait_action a -> do_action s a = R s' -> quit s' = quit s.
Proof.
  intros s a s' W. destruct a; cbn [wf_wait_action] in W; try contradiction; unfold do_action; cbv zeta.
  - intros E. inversion E. reflexivity.
  - intros E. inversion E. reflexivity.
  - destruct (rw_reg s j); intros E; inversion E; [|reflexivity]. unfold raw_post.
    destruct (raw_is_pipe _ _); destruct (k_write _ _ _ _); reflexivity.
  - intros E. inversion E. reflexivity.
Qed.

Lemma wait_acts_post : forall b l s, J b s -> Forall wf_wait_action l ->
  match run_acts s l with
  | R s' => J b s' /\ Fr s s' /\ quit s' = quit s
  | Halt s' => Goodm (mst s')
  end.
Proof.
  intros b l. induction l as [|a l IH]; intros s Jh W; cbn [run_acts].
  - split; [assumption|split; [apply Fr_refl|reflexivity]].
  - inversion W as [|? ? W1 W2]; subst.
    pose proof (do_action_post b s a Jh (wait_action_wf a W1)) as P.
    pose proof (wait_action_quit s a) as Q.
    destruct (do_action s a) as [s1|s1]; cbn [bind Post] in *; [|exact P].
    destruct P as [J1 F1]. specialize (IH s1 J1 W2). specialize (Q s1 W1 eq_refl).
    destruct (run_acts s1 l) as [s2|s2]; [|exact IH].
    destruct IH as (J2 & F2 & Q2). split; [assumption|split; [eapply Fr_trans; eassumption|congruence]].
Qed.

Section Wait.
Variable sc : scenario.
Hypothesis WF : wf_scenario sc.

Lemma wait_enter_post : forall b s, J b s ->
  match wait_enter sc s with
  | R s' => J b s' /\ Fr s s' /\ quit s' = quit s
  | Halt s' => Goodm (mst s')
  end.
Proof.
  intros b s Jh. unfold wait_enter.
  destruct (sc_limit sc <? nwait (kern s) + 1).
  - cbn [halt]. rewrite mst_emit. apply good_quiet; [right; right; left; reflexivity|apply (j_good _ _ Jh)].
  - set (s1 := set_kern s _).
    assert (J1 : J b s1) by (apply J_set_kern_plain; [assumption|apply ksame_set_nwait]).
    pose proof (wait_acts_post b (sc_wait sc (nwait (kern s) + 1)) s1 J1 (wf_waits sc WF _)) as P.
    destruct (run_acts s1 (sc_wait sc (nwait (kern s) + 1))) as [s2|s2]; [|exact P].
    destruct P as (J2 & F2 & Q2). split; [assumption|split; [|exact Q2]].
    eapply Fr_trans; [apply (Fr_plain s s1); reflexivity|exact F2].
Qed.

(* the return of a wait: the kernel has possibly advanced its clock and disabled one-shot entries *)
Lemma J_ret : forall b s k1 n fds, J b s -> flt k1 = flt (kern s) -> clock (kern s) <= clock k1 ->
  (forall e', In e' (ep k1) -> exists e, In e (ep (kern s)) /\ en_fd e' = en_fd e /\ en_data e' = en_data e) ->
  J b (emit (set_kern s k1) (TRet n fds (clock k1))).
Proof.
  intros b s k1 n fds Jh F C E.
  set (s1 := set_kern s k1).
  apply J_emit_step. change (mst s1) with (mst s).
  set (m' := mon_step (mst s) (TRet n fds (clock k1))).
  assert (V : mview m' = mview (m_loop (mst s) (a_main (mst s)) (a_quit (mst s)) (clock k1) false)).
  { unfold m'. destruct n; [apply mview_TRet_some|apply mview_TRet_none]. }
  destruct (mview_fields m' _ V) as (Q1 & Q2 & Q3 & Q4 & Q5 & Q6 & Q7 & Q8 & Q9 & Q10 & Q11 & Q12).
  cbn [a_fd a_fh a_ck a_tm a_exp a_tk a_ev a_evp a_rw a_main a_quit a_clk m_loop] in *.
  pose proof (ag_clk _ _ (j_ag _ _ Jh)) as AC.
  apply (JM_upd b s s1 m' Jh); try assumption.
  - unfold m'. destruct n; [apply good_TRet_some|apply good_TRet_none]; try (apply (j_good _ _ Jh)); rewrite AC; exact C.
  - left. split; [intros; apply fkeep_refl|auto].
  - left. auto.
  - left. auto.
  - left. auto.
  - left. auto.
  - left. auto.
  - right. exact Q12.
  - left. reflexivity.
  - right. intros V0. pose proof (si_time _ (j_si _ _ Jh) V0). change (time s <= clock k1). lia.
  - left. auto.
  - left. auto.
  - apply (FdI_ext s s1 (-1) (j_fd _ _ Jh)); try reflexivity; auto.
    intros i. apply gsame_refl.
  - apply (FdX_keep s s1 (j_fx _ _ Jh)); try reflexivity; intros; repeat split.
Qed.

Definition EvOk (s : core) (ev : Z * Z * Z) : Prop :=
  snd ev = -1 \/ (snd ev = -2 /\ method s = M_ET) \/ okk s (-1) (snd ev).

Lemma J_wait_event : forall s n call mx t i g, J true s -> quit s = false ->
  J true (emit s (TWait n call mx t i g)).
Proof.
  intros s n call mx t i g Jh Q.
  apply J_event_same; [assumption|apply mview_TWait|].
  apply good_TWait; [apply (j_good _ _ Jh)|]. rewrite (ag_quit _ _ (j_ag _ _ Jh)). exact Q.
Qed.

Lemma do_epoll_wait_post : forall s call maxev timeout, J true s -> quit s = false ->
  match do_epoll_wait sc s call maxev timeout with
  | WR s' evs => J true s' /\ Fr s s' /\ (forall ev, In ev evs -> EvOk s' ev)
  | WE s' => J true s' /\ Fr s s'
  | WH r => match r with Halt s' => Goodm (mst s') | R _ => False end
  end.
Proof.
  intros s call maxev timeout Jh Q. unfold do_epoll_wait.
  pose proof (wait_enter_post true s Jh) as P.
  destruct (wait_enter sc s) as [s1|s1]; [|exact P].
  destruct P as (J1 & F1 & Q1).
  set (n := nwait (kern s1)).
  set (s2 := emit s1 (TWait n call maxev timeout (interest_of (kern s1)) (ground (kern s1)))).
  assert (J2 : J true s2) by (apply J_wait_event; [assumption|congruence]).
  assert (F2 : Fr s s2) by (eapply Fr_trans; [exact F1|apply Fr_plain; reflexivity]).
  change (kern s2) with (kern s1).
  destruct (mem_z n (eintr_waits (flt (kern s1)))).
  - (* EINTR *)
    destruct (Z.ltb_spec 0 timeout).
    + set (k1 := k_set_clock (kern s2) (clock (kern s2) + timeout / 2)).
      split; [|eapply Fr_trans; [exact F2|apply Fr_plain; reflexivity]].
      apply (J_ret true s2 k1 None [] J2); [reflexivity|cbn [k1 clock k_set_clock]; lia|].
      intros e' He'. exists e'. auto.
    + split; [|eapply Fr_trans; [exact F2|apply Fr_plain; reflexivity]].
      apply (J_irr true (emit (set_kern s2 (kern s2)) (TRet None [] (clock (kern s2))))); try reflexivity.
      apply (J_ret true s2 (kern s2) None [] J2); [reflexivity|lia|].
      intros e' He'. exists e'. auto.
  - pose proof (epoll_sleep_spec (kern s1) maxev timeout (sc_rot sc n)) as KS.
    destruct (k_epoll_sleep (kern s1) maxev timeout (sc_rot sc n)) as [k1 evs|k1| |].
    + destruct KS as (K1 & K2 & K3 & K4).
      set (s3 := emit (set_kern s2 k1) _).
      assert (J3 : J true s3) by (apply (J_ret true s2 k1 _ _ J2); assumption).
      split; [exact J3|]. split; [eapply Fr_trans; [exact F2|apply Fr_plain; reflexivity]|].
      intros ev Hev. destruct (K4 ev Hev) as (e & He & ED).
      destruct (fi_ep s2 (-1) (j_fd _ _ J2) e He) as [D|[(D & D1 & _)|(D & _)]]; unfold EvOk; rewrite ED.
      * left. exact D.
      * right; left. split; [exact D|exact D1].
      * right; right. exact D.
    + destruct KS.
    + cbn [halt]. rewrite mst_emit. apply good_quiet; [right; right; right; reflexivity|apply (j_good _ _ J2)].
    + destruct KS.
Qed.


Definition WPost (s : core) (w : wres) : Prop :=
  match w with
  | WR s' evs => J true s' /\ Fr s s' /\ (forall ev, In ev evs -> EvOk s' ev)
  | WE s' => J true s' /\ Fr s s'
  | WH r => match r with Halt s' => Goodm (mst s') | R _ => False end
  end.

Lemma WPost_fr : forall s0 s w, Fr s0 s -> WPost s w -> WPost s0 w.
Proof.
  intros s0 s w F P. destruct w as [s' evs|s'|r]; cbn [WPost] in *.
  - destruct P as (A & B & C). split; [assumption|split; [eapply Fr_trans; eassumption|assumption]].
  - destruct P as (A & B). split; [assumption|eapply Fr_trans; eassumption].
  - exact P.
Qed.

Lemma to_relative_post : forall b s abs, J b s ->
  J b (fst (to_relative s abs)) /\ Fr s (fst (to_relative s abs)) /\ quit (fst (to_relative s abs)) = quit s.
Proof.
  intros b s abs Jh. unfold to_relative. destruct abs as [a|]; cbn [fst].
  - destruct (J_validate b s Jh) as (A & B & _ & _ & C). auto.
  - split; [assumption|split; [apply Fr_refl|reflexivity]].
Qed.

Lemma to_msec_post : forall b s abs, J b s ->
  J b (fst (to_msec s abs)) /\ Fr s (fst (to_msec s abs)) /\ quit (fst (to_msec s abs)) = quit s.
Proof.
  intros b s abs Jh. unfold to_msec. pose proof (to_relative_post b s abs Jh) as P.
  destruct (to_relative s abs) as [s1 [r|]]; exact P.
Qed.

Lemma epoll_wait_m_post : forall s abs maxev, J true s -> quit s = false ->
  WPost s (epoll_wait_m sc s abs maxev).
Proof.
  intros s abs maxev Jh Q. unfold epoll_wait_m.
  assert (VIA : forall s0, J true s0 -> quit s0 = false ->
     WPost s0 (let '(s1, ms) := to_msec s0 abs in do_epoll_wait sc s1 0 maxev (if ms <? 0 then -1 else ms * 1000000))).
  { intros s0 J0 Q0. pose proof (to_msec_post true s0 abs J0) as P.
    destruct (to_msec s0 abs) as [s1 ms]. cbn [fst] in P. destruct P as (J1 & F1 & Q1).
    apply (WPost_fr s0 s1); [exact F1|]. apply do_epoll_wait_post; [assumption|congruence]. }
  destruct (pwait2 s); [|apply VIA; assumption].
  pose proof (to_relative_post true s abs Jh) as P.
  destruct (to_relative s abs) as [s1 rel]. cbn [fst] in P. destruct P as (J1 & F1 & Q1).
  apply (WPost_fr s s1); [exact F1|].
  destruct (no_pwait2 (flt (kern s1)) || perm_pwait2 (flt (kern s1))).
  - set (s2 := set_epoll s1 (epfd s1) (tfd s1) false).
    apply (WPost_fr s1 s2); [apply Fr_plain; reflexivity|].
    apply VIA; [apply (J_irr true s1 s2 J1); reflexivity|]. change (quit s1 = false). congruence.
  - apply do_epoll_wait_post; [assumption|congruence].
Qed.

Lemma J_activate : forall b s k bits, J b s -> okk s (-1) k ->
  J b (activate s k bits) /\ Fr s (activate s k bits) /\ method (activate s k bits) = method s /\
  (forall i, registered (fdt (activate s k bits) i) = registered (fdt s i)).
Proof.
  intros b s k bits Jh OK.
  destruct (activate_spec s (-1) k bits (j_fd _ _ Jh) OK) as (S & F & H & FI).
  split; [apply (J_same_fk b s _ Jh S F FI)|].
  split; [apply Fr_plain; [assumption|apply (sm_cur _ _ S)]|].
  split; [apply (sm_method _ _ S)|]. intros i. apply (F i).
Qed.

Lemma epoll_process_post : forall evs s re tm, J true s -> (forall ev, In ev evs -> EvOk s ev) ->
  J true (fst (fst (epoll_process s evs re tm))) /\ Fr s (fst (fst (epoll_process s evs re tm))).
Proof.
  induction evs as [|[[fd bits] data] evs IH]; intros s re tm Jh OK; cbn [epoll_process].
  - cbn [fst]. split; [assumption|apply Fr_refl].
  - assert (OKT : forall ev, In ev evs -> EvOk s ev) by (intros ev H; apply OK; right; exact H).
    destruct (Z.eqb_spec data (-1)) as [D1|D1]; [apply IH; assumption|].
    destruct ((data =? -2) && (method s =? M_ET)) eqn:D2; [apply IH; assumption|].
    assert (OKD : okk s (-1) data).
    { destruct (OK (fd, bits, data) (or_introl eq_refl)) as [E|[[E1 E2]|E]]; cbn [snd] in *.
      - contradiction.
      - rewrite E1, E2 in D2. cbn in D2. discriminate.
      - exact E. }
    destruct (J_activate true s data bits Jh OKD) as (J1 & F1 & M1 & R1).
    destruct (IH (activate s data bits) re tm J1) as [J2 F2].
    { intros ev H. destruct (OKT ev H) as [E|[[E1 E2]|[E1 E2]]]; [left; exact E|right; left; rewrite M1; auto|].
      right; right. split; [exact E1|]. intros N. rewrite R1. apply E2. exact N. }
    split; [exact J2|eapply Fr_trans; eassumption].
Qed.

Lemma J_inner_res : forall s r (P : core -> Prop), J true s -> FdRes s r P ->
  (forall s1, P s1 -> InnerW s s1 /\ FdI s1 (-1)) ->
  match r with R s1 => J true s1 /\ Fr s s1 /\ P s1 | Halt s1 => Goodm (mst s1) end.
Proof.
  intros s r P Jh Q K. destruct r as [s1|s1]; cbn [FdRes] in Q.
  - destruct (K s1 Q) as [W FI]. destruct (J_innerw true s s1 Jh W FI) as [J1 F1]. auto.
  - eapply HaltOf_good; [exact Q|apply (j_good _ _ Jh)].
Qed.

Lemma epoll_poll_post : forall s abs, J true s -> quit s = false -> is_epoll s = true ->
  Post0 true s (fst (epoll_poll sc s abs)).
Proof.
  intros s abs Jh Q IE. unfold epoll_poll.
  pose proof (J_inner_res s _ _ Jh (flush_pending_res (S (length (notify s))) s (j_fd _ _ Jh) IE)) as P.
  destruct (epoll_flush_pending (S (length (notify s))) s) as [s1|s1]; [|cbn [fst Post0]; apply P; intros s1' (A & B & _); split; [apply Inner_W; exact A|exact B]].
  destruct P as (J1 & F1 & E1); [intros s1' (A & B & _); split; [apply Inner_W; exact A|exact B]|].
  assert (Q1 : quit s1 = false).
  { destruct E1 as (A & _). rewrite (sm_quit _ _ (in_same _ _ A)). exact Q. }
  set (maxev := if method s =? M_ET then numfds s + 1 else if numfds s =? 0 then 1 else numfds s).
  pose proof (epoll_wait_m_post s1 abs maxev J1 Q1) as W.
  destruct (epoll_wait_m sc s1 abs maxev) as [s2 evs|s2|r]; cbn [WPost] in W.
  - destruct W as (J2 & F2 & OK2).
    destruct (J_invalidate true s2 J2) as (J3 & F3 & _).
    set (s3 := invalidate_now s2) in *.
    assert (OK3 : forall ev, In ev evs -> EvOk s3 ev) by (intros ev H; exact (OK2 ev H)).
    destruct (epoll_process_post evs s3 false false J3 OK3) as [J4 F4].
    destruct (epoll_process s3 evs false false) as [[s4 run_events] tmr]. cbn [fst] in J4, F4. cbn [fst].
    assert (F04 : Fr s s4) by exact (Fr_trans _ _ _ F1 (Fr_trans _ _ _ F2 (Fr_trans _ _ _ F3 F4))).
    apply (Post0_cur true s s4); [apply (proj2 F04)|].
    assert (PR : Post true s4 (if tmr then match k_read (kern s4) (tfd s4) 8 with
                                           | (k1, inl _) => R (set_kern s4 k1)
                                           | (k1, inr _) => halt (set_kern s4 k1) TFatal
                                           end else R s4)).
    { destruct tmr; [|apply Post_same; assumption].
      pose proof (ksame_read (kern s4) (tfd s4) 8) as KS.
      destruct (k_read (kern s4) (tfd s4) 8) as [k1 [x|e]]; cbn [fst] in KS.
      - cbn [Post]. split; [apply J_set_kern_plain; assumption|apply Fr_plain; reflexivity].
      - cbn [Post halt]. rewrite mst_emit. apply good_quiet; [left; reflexivity|apply (j_good _ _ J4)]. }
    apply Post_Post0. eapply Post_bind; [exact PR|].
    intros s5 J5 _. destruct run_events; [apply run_pending_events_post; assumption|apply Post_same; assumption].
  - destruct W as (J2 & F2). cbn [fst Post0].
    destruct (J_invalidate true s2 J2) as (J3 & F3 & _).
    split; [exact J3|]. intros C. apply (proj2 F3). apply (proj2 F2). apply (proj2 F1). exact C.
  - cbn [fst]. destruct r; [contradiction|exact W].
Qed.

(* ---------- poll / ppoll ---------- *)
Lemma poll_activate_post : forall keys revs s, J true s -> (forall k, In k keys -> okk s (-1) k) ->
  J true (poll_activate s keys revs) /\ Fr s (poll_activate s keys revs).
Proof.
  induction keys as [|k keys IH]; intros revs s Jh OK; cbn [poll_activate].
  - split; [assumption|apply Fr_refl].
  - destruct revs as [|r revs]; [split; [assumption|apply Fr_refl]|].
    destruct (J_activate true s k r Jh (OK k (or_introl eq_refl))) as (J1 & F1 & M1 & R1).
    destruct (IH revs (activate s k r) J1) as [J2 F2].
    { intros y H. destruct (OK y (or_intror H)) as [E1 E2]. split; [exact E1|]. intros N. rewrite R1. apply E2. exact N. }
    split; [exact J2|exact (Fr_trans _ _ _ F1 F2)].
Qed.

Lemma do_poll_wait_post : forall s call timeout, J true s -> quit s = false ->
  Post0 true s (fst (do_poll_wait sc s call timeout)).
Proof.
  intros s call timeout Jh Q. unfold do_poll_wait.
  pose proof (wait_enter_post true s Jh) as P.
  destruct (wait_enter sc s) as [s1|s1]; [|exact P].
  destruct P as (J1 & F1 & Q1).
  set (n := nwait (kern s1)).
  set (s2 := emit s1 (TWait n call (Z.of_nat (length (pfds s1))) timeout (interest_of_pfds (pfds s1)) (ground (kern s1)))).
  assert (J2 : J true s2) by (apply J_wait_event; [assumption|congruence]).
  assert (F2 : Fr s s2) by (eapply Fr_trans; [exact F1|apply Fr_plain; reflexivity]).
  change (kern s2) with (kern s1). change (pfds s2) with (pfds s1).
  destruct (mem_z n (eintr_waits (flt (kern s1)))).
  - cbn [fst Post0].
    assert (G : forall s3, J true s3 -> Fr s2 s3 -> J true (invalidate_now s3) /\ (cur s = None -> cur (invalidate_now s3) = None)).
    { intros s3 J3 F3. destruct (J_invalidate true s3 J3) as (J4 & F4 & _). split; [exact J4|].
      intros C. apply (proj2 F4). apply (proj2 F3). apply (proj2 F2). exact C. }
    destruct (Z.ltb_spec 0 timeout).
    + set (k1 := k_set_clock (kern s2) (clock (kern s2) + timeout / 2)).
      apply G; [|apply Fr_plain; reflexivity].
      apply (J_ret true s2 k1 None [] J2); [reflexivity|cbn [k1 clock k_set_clock]; lia|].
      intros e' He'. exists e'. auto.
    + apply G; [|apply Fr_plain; reflexivity].
      apply (J_irr true (emit (set_kern s2 (kern s2)) (TRet None [] (clock (kern s2))))); try reflexivity.
      apply (J_ret true s2 (kern s2) None [] J2); [reflexivity|lia|].
      intros e' He'. exists e'. auto.
  - pose proof (poll_sleep_spec (kern s1) (pfds s1) timeout) as KS.
    destruct (k_poll_sleep (kern s1) (pfds s1) timeout) as [k1 revs|]; cbn [fst Post0].
    + destruct KS as (K1 & K2 & K3).
      set (s3 := emit (set_kern s2 k1) _).
      assert (J3 : J true s3).
      { apply (J_ret true s2 k1 _ _ J2); try assumption. change (kern s2) with (kern s1). rewrite K3.
        intros e' He'. exists e'. auto. }
      destruct (J_invalidate true s3 J3) as (J4 & F4 & _).
      destruct (poll_activate_post (pkeys s3) revs (invalidate_now s3) J4) as [J5 F5].
      { intros k H. apply In_nth_error in H. destruct H as [p H].
        apply (fi_pkeys _ (-1) (j_fd _ _ J4) p k). exact H. }
      split; [exact J5|]. intros C. apply (proj2 F5). apply (proj2 F4). change (cur s2 = None). apply (proj2 F2). exact C.
    + unfold halt. cbn [Post0]. rewrite mst_emit. apply good_quiet; [right; right; right; reflexivity|apply (j_good _ _ J2)].
Qed.

Lemma J_set_method_poll : forall b s m', J b s -> is_epoll s = false -> (m' =? M_ET) || (m' =? M_EP) = false ->
  J b (set_method s m').
Proof.
  intros b s m' Jh IE M.
  destruct (fi_nopoll s (-1) (j_fd _ _ Jh) IE) as [N0 E0].
  apply (J_upd b s _ Jh); try reflexivity; try (apply (j_good _ _ Jh));
    try (solve [left; repeat split; first [reflexivity | intros; apply fkeep_refl]]).
  - pose proof (j_fd _ _ Jh) as FI. destruct FI as [F1 F2 F3 F4 F5 F6 F7 F8].
    constructor; try assumption.
    + intros _. auto.
    + unfold is_epoll. cbn [method set_method]. rewrite M. discriminate.
    + cbn [kern set_method]. rewrite E0. intros e [].
  - apply (FdX_keep s _ (j_fx _ _ Jh)); try reflexivity; intros; repeat split.
Qed.

Lemma method_validate : forall s, method (validate_now s) = method s.
Proof. intros s. unfold validate_now. destruct (time_valid s); reflexivity. Qed.

Lemma method_to_relative : forall s abs, method (fst (to_relative s abs)) = method s.
Proof. intros s abs. unfold to_relative. destruct abs; cbn [fst]; [apply method_validate|reflexivity]. Qed.

Lemma poll_poll_post : forall s abs, J true s -> quit s = false -> is_epoll s = false ->
  Post0 true s (fst (poll_poll sc s abs)).
Proof.
  intros s abs Jh Q IE. unfold poll_poll.
  assert (VIA : forall s0, J true s0 -> quit s0 = false ->
     Post0 true s0 (fst (let '(s1, ms) := to_msec s0 abs in do_poll_wait sc s1 2 (if ms <? 0 then -1 else ms * 1000000)))).
  { intros s0 J0 Q0. pose proof (to_msec_post true s0 abs J0) as P.
    destruct (to_msec s0 abs) as [s1 ms]. cbn [fst] in P. destruct P as (J1 & F1 & Q1).
    apply (Post0_cur true s0 s1); [apply (proj2 F1)|]. apply do_poll_wait_post; [assumption|congruence]. }
  destruct (method s =? M_PP); [|apply VIA; assumption].
  pose proof (to_relative_post true s abs Jh) as P. pose proof (method_to_relative s abs) as MR.
  destruct (to_relative s abs) as [s1 rel]. cbn [fst] in P, MR. destruct P as (J1 & F1 & Q1).
  apply (Post0_cur true s s1); [apply (proj2 F1)|].
  destruct (no_ppoll (flt (kern s1))).
  - destruct (J_invalidate true s1 J1) as (J2 & F2 & _ & Q2).
    assert (IE2 : is_epoll (invalidate_now s1) = false).
    { unfold is_epoll in *. change (method (invalidate_now s1)) with (method s1). rewrite MR. exact IE. }
    pose proof (J_set_method_poll true (invalidate_now s1) M_PO J2 IE2 eq_refl) as J3.
    set (s3 := set_method (invalidate_now s1) M_PO) in *.
    apply (Post0_cur true s1 s3); [intros C; apply (proj2 F2); exact C|].
    apply VIA; [exact J3|]. change (quit (invalidate_now s1) = false). congruence.
  - apply do_poll_wait_post; [assumption|congruence].
Qed.

Lemma m_poll_post : forall s abs, J true s -> quit s = false -> Post0 true s (fst (m_poll sc s abs)).
Proof.
  intros s abs Jh Q. unfold m_poll. destruct (is_epoll s) eqn:IE; [apply epoll_poll_post|apply poll_poll_post]; assumption.
Qed.

(* ---------- the kernel-timer optimisation ---------- *)
Definition PostQ (s : core) (r : res) : Prop :=
  match r with R s' => J true s' /\ Fr s s' /\ quit s' = quit s | Halt s' => Goodm (mst s') end.

Lemma PostQ_fr : forall s0 s r, Fr s0 s -> quit s = quit s0 -> PostQ s r -> PostQ s0 r.
Proof.
  intros s0 s r F Q P. destruct r; cbn [PostQ] in *; [|exact P]. destruct P as (A & B & C).
  split; [exact A|split; [exact (Fr_trans _ _ _ F B)|congruence]].
Qed.

Lemma J_tfd_settime : forall s d, J true s -> J true (tfd_settime s d) /\ Fr s (tfd_settime s d) /\
  quit (tfd_settime s d) = quit s /\ method (tfd_settime s d) = method s.
Proof.
  intros s d Jh. unfold tfd_settime.
  set (s1 := set_kern s _).
  assert (J1 : J true s1) by (apply J_set_kern_plain; [assumption|apply ksame_settime]).
  split; [|split; [apply Fr_plain; reflexivity|split; reflexivity]].
  apply J_event_same; [exact J1|reflexivity|]. rewrite mon_step_TKTfd. apply (j_good _ _ J1).
Qed.

Lemma timerfd_create_err : forall k k1 e, k_timerfd_create k = (k1, inr e) -> no_timerfd (flt k) = true.
Proof.
  intros k k1 e. unfold k_timerfd_create. destruct (no_timerfd (flt k)); [reflexivity|].
  destruct (k_alloc k K_TIMERFD). discriminate.
Qed.

Lemma set_poll_timeout_post : forall s a, J true s -> method s = M_ET ->
  PostQ s (fst (set_poll_timeout s a)).
Proof.
  intros s a Jh ME. unfold set_poll_timeout.
  assert (IE : is_epoll s = true) by (unfold is_epoll; rewrite ME; reflexivity).
  assert (FIN : forall s1, J true s1 -> Fr s s1 -> quit s1 = quit s ->
            PostQ s (R (tfd_settime s1 (if a =? 0 then 1 else a)))).
  { intros s1 J1 F1 Q1. destruct (J_tfd_settime s1 (if a =? 0 then 1 else a) J1) as (A & B & C & _).
    cbn [PostQ]. split; [exact A|split; [exact (Fr_trans _ _ _ F1 B)|congruence]]. }
  destruct (tfd s =? -1); [|cbn [fst]; apply FIN; [assumption|apply Fr_refl|reflexivity]].
  pose proof (ksame_timerfd_create (kern s)) as KS.
  destruct (k_timerfd_create (kern s)) as [k1 [fd|e]] eqn:TC; cbn [fst] in KS.
  - pose proof (timerfd_create_ok _ _ _ TC) as NT.
    set (s1 := set_epoll (set_kern s k1) (epfd s) fd (pwait2 s)).
    assert (J1 : J true s1).
    { apply (J_irr true (set_kern s k1)); try reflexivity. apply J_set_kern_plain; assumption. }
    destruct (ctl_retry s1 CTL_ADD fd B_IN (-2)) as [s2 r] eqn:CT.
    apply ctl_retry_spec in CT. destruct CT as (k' & -> & CK & FL & EP).
    destruct r as [err|]; cbn [fst].
    + unfold halt. cbn [fst PostQ]. rewrite mst_emit. apply good_quiet; [left; reflexivity|].
      change (Goodm (mst s1)). apply (j_good _ _ J1).
    + unfold CTL_ADD in EP. cbn [Z.eqb Pos.eqb] in EP.
      set (s2 := set_kern s1 k').
      assert (J2 : J true s2).
      { apply (J_upd true s1 s2 J1); try reflexivity; try (apply (j_good _ _ J1));
          try (solve [left; repeat split; first [reflexivity | assumption | intros; apply fkeep_refl]]).
        - apply (FdI_ext_ep s1 s2 (-1) (j_fd _ _ J1)); try reflexivity; auto.
          + cbn [s2 kern set_kern]. rewrite EP. intros e0 H. apply in_app_or in H. destruct H as [H|[H|[]]].
            * apply (ent_ok_ext s1 s2 (-1) e0 (fi_ep s1 (-1) (j_fd _ _ J1) e0 H)); try reflexivity; try assumption.
              intros i. apply gsame_refl.
            * subst e0. right; left. cbn [en_data]. split; [reflexivity|]. split; [exact ME|].
              cbn [s2 kern set_kern]. rewrite FL. cbn [s1 kern set_epoll set_kern]. destruct KS as (_ & KF & _). rewrite KF. exact NT.
          + change (is_epoll s1) with (is_epoll s). rewrite IE. discriminate.
        - apply (FdX_keep s1 s2 (j_fx _ _ J1)); try reflexivity; intros; repeat split. }
      apply FIN; [exact J2|apply Fr_plain; reflexivity|reflexivity].
  - cbn [fst PostQ].
    pose proof (timerfd_create_err _ _ _ TC) as NT.
    set (s1 := set_method (set_kern s k1) M_EP).
    split; [|split; [apply Fr_plain; reflexivity|reflexivity]].
    assert (J0 : J true (set_kern s k1)) by (apply J_set_kern_plain; assumption).
    apply (J_upd true _ s1 J0); try reflexivity; try (apply (j_good _ _ J0));
      try (solve [left; repeat split; first [reflexivity | intros; apply fkeep_refl]]).
    + pose proof (j_fd _ _ J0) as FI0. destruct FI0 as [F1 F2 F3 F4 F5 F6 F7 F8].
      constructor; try assumption.
      * intros H. unfold is_epoll in H. cbn [s1 method set_method] in H. discriminate H.
      * intros _. apply F5. exact IE.
      * intros e0 H. destruct (F6 e0 H) as [D|[(D & D1 & D2)|D]].
        -- left. exact D.
        -- exfalso. cbn [kern set_kern] in D2. destruct KS as (_ & KF & _). rewrite KF in D2. congruence.
        -- right; right. exact D.
    + apply (FdX_keep _ s1 (j_fx _ _ J0)); try reflexivity; intros; repeat split.
Qed.

Lemma J_set_last_abs : forall s v c, J true s -> J true (set_last_abs s v c).
Proof. intros s v c Jh. apply (J_irr true s _ Jh); reflexivity. Qed.

Lemma timeout_check_post : forall s abs, J true s -> method s = M_ET ->
  PostQ s (fst (timeout_check s abs)).
Proof.
  intros s abs Jh ME. unfold timeout_check.
  destruct ((last_abs_count s =? 5) && (0 <=? abs_cmp abs (last_abs s))).
  { cbn [fst PostQ]. split; [assumption|split; [apply Fr_refl|reflexivity]]. }
  assert (A : exists s1, (if last_abs_count s =? 5 then tfd_settime s 0 else s) = s1 /\
              J true s1 /\ Fr s s1 /\ quit s1 = quit s /\ method s1 = M_ET).
  { destruct (last_abs_count s =? 5).
    - destruct (J_tfd_settime s 0 Jh) as (A1 & A2 & A3 & A4). eexists. split; [reflexivity|].
      split; [exact A1|split; [exact A2|split; [exact A3|rewrite A4; exact ME]]].
    - exists s. split; [reflexivity|]. split; [assumption|split; [apply Fr_refl|auto]]. }
  destruct A as (s1 & -> & J1 & F1 & Q1 & M1).
  apply (PostQ_fr s s1); [exact F1|exact Q1|].
  assert (RS : forall s2, J true s2 -> Fr s1 s2 -> quit s2 = quit s1 -> PostQ s1 (R s2)).
  { intros s2 J2 F2 Q2. cbn [PostQ]. auto. }
  destruct (abs_cmp abs (last_abs s) =? 0).
  - set (s2 := if last_abs_count s1 <? 5 then set_last_abs s1 (last_abs s1) (last_abs_count s1 + 1) else s1).
    assert (B : J true s2 /\ Fr s1 s2 /\ quit s2 = quit s1 /\ method s2 = M_ET).
    { unfold s2. destruct (last_abs_count s1 <? 5).
      - split; [apply J_set_last_abs; assumption|split; [apply Fr_plain; reflexivity|split; [reflexivity|exact M1]]].
      - split; [assumption|split; [apply Fr_refl|auto]]. }
    clearbody s2. destruct B as (J2 & F2 & Q2 & M2).
    destruct (last_abs_count s2 =? 5); [|cbn [fst]; apply RS; assumption].
    destruct abs as [a|]; [|cbn [fst]; apply RS; assumption].
    apply (PostQ_fr s1 s2); [exact F2|exact Q2|]. apply set_poll_timeout_post; assumption.
  - destruct abs as [a|]; cbn [fst]; apply RS; try (apply J_set_last_abs; assumption); try (apply Fr_plain; reflexivity); reflexivity.
Qed.

Lemma poll_and_run_post : forall s abs, J true s -> quit s = false ->
  Post0 true s (fst (poll_and_run sc s abs)).
Proof.
  intros s abs Jh Q. unfold poll_and_run.
  assert (DISP : forall r, Post0 true s r ->
            Post0 true s (bind r (fun s0 => dispatch_active sc (S (length (active s0))) s0))).
  { intros r P. eapply Post0_bind; [exact P|]. intros s1 J1 _. apply dispatch_active_post; assumption. }
  assert (G : Post0 true s (fst (if method s =? M_ET
      then match timeout_check s abs with
           | (Halt s0, _) => (Halt s0, true)
           | (R s0, true) => let '(r, rt) := m_poll sc s0 None in
                             (bind r (fun s1 => R (if rt then set_last_abs s1 (last_abs s1) 0 else s1)), rt)
           | (R s0, false) => m_poll sc s0 abs
           end
      else m_poll sc s abs))).
  { destruct (Z.eqb_spec (method s) M_ET) as [ME|NE]; [|apply m_poll_post; assumption].
    pose proof (timeout_check_post s abs Jh ME) as P.
    destruct (timeout_check s abs) as [[s0|s0] fl]; cbn [fst PostQ] in P; [|cbn [fst Post0]; exact P].
    destruct P as (J0 & F0 & Q0).
    apply (Post0_cur true s s0); [apply (proj2 F0)|].
    destruct fl; [|apply m_poll_post; [assumption|congruence]].
    pose proof (m_poll_post s0 None J0 ltac:(congruence)) as P.
    destruct (m_poll sc s0 None) as [r rt]. cbn [fst] in *.
    eapply Post0_bind; [exact P|]. intros s1 J1 _. cbn [Post0].
    split; [|intros C; destruct rt; exact C].
    destruct rt; [apply J_set_last_abs; assumption|assumption]. }
  destruct (if method s =? M_ET
      then match timeout_check s abs with
           | (Halt s0, _) => (Halt s0, true)
           | (R s0, true) => let '(r, rt) := m_poll sc s0 None in
                             (bind r (fun s1 => R (if rt then set_last_abs s1 (last_abs s1) 0 else s1)), rt)
           | (R s0, false) => m_poll sc s0 abs
           end
      else m_poll sc s abs) as [r rt]. cbn [fst] in *. apply DISP. exact G.
Qed.
End Wait.
