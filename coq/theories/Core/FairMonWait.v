(* FairMonWait.v -- the fairness monitor across the kernel waits: no debt is open when a wait is entered, the debts
   created by a normal return are bounded by the return clock, and on the epoll-timerfd back end a return that does
   not ask for the timers (timer descriptor not reported) creates no debt at all. *)
From Coq Require Import List ZArith Bool Lia.
From Ivv Require Import Core.Kernel Core.CoreTypes Core.CoreFd Core.CoreModel Core.Monitors Core.FairMon Core.CoreSpec
  Core.CoreRel Core.CoreInvWait Core.CoreInvLoop Core.CoreInvObj Core.CoreInv Core.CorePhase2K1 Core.CorePhase2AcctTr Core.CorePhase2AcctTr2 Core.CorePhase2TimeMon Core.CorePhase2TimeFr
  Core.CorePhase2TimeT1 Core.CorePhase2TimeT1L Core.CorePhase2TimeReq Core.CorePhase2TimeT1W
  Core.FairMonBase Core.FairMonAct Core.FairMonLoop Core.FairMonKern.
From Ivv Require Timer.HeapModel.
Import ListNotations.
Local Open Scope Z_scope.

Definition FairI (rt : bool) (s : core) : Prop :=
  f_fail (fst s) = false /\
  (f_due (fst s) = [] \/ (rt = true /\ exists clk, PendT clk s /\ due_ok clk (fst s))).

Definition MPF (rt : bool) (r : res) : Prop :=
  match r with R s' => FairI rt s' | Halt s' => f_fail (fst s') = false end.

Definition WFairP (s : core) (mx : Z) (w : wres) : Prop :=
  match w with
  | WR s' evs => f_fail (fst s') = false /\ due_ok (clock (kern s')) (fst s') /\ heap s' = heap s /\ 1 <= clock (kern s') /\
        (mx = numfds s + 1 -> forall D, ArmedT s D -> D <= clock (kern s') -> exists fd bits, In (fd, bits, -2) evs)
  | WE s' => f_fail (fst s') = false /\ f_due (fst s') = []
  | WH r => f_fail (fst (res_state r)) = false
  end.

Definition wsame (s s0 : core) : Prop :=
  heap s0 = heap s /\ numfds s0 = numfds s /\ kern s0 = kern s /\ tfd s0 = tfd s /\ trace s0 = trace s.

Lemma WFairP_pre : forall s s0 mx w, wsame s s0 -> WFairP s0 mx w -> WFairP s mx w.
Proof.
  intros s s0 mx w (E1 & E2 & E3 & E4 & E5) H. destruct w as [s' evs|s'|r]; cbn [WFairP] in *; try exact H.
  destruct H as (A & B & C & D & T). split; [exact A|]. split; [exact B|]. split; [congruence|]. split; [exact D|].
  intros MX D0 AR DC. assert (MX0 : mx = numfds s0 + 1) by congruence. apply (T MX0 D0); [|exact DC]. unfold ArmedT in *. rewrite E3, E4. exact AR.
Qed.

Lemma wsame_validate : forall s, wsame s (validate_now s).
Proof. intros s. unfold wsame, validate_now. destruct (time_valid s); repeat split; reflexivity. Qed.

Lemma wsame_trans : forall a b c, wsame a b -> wsame b c -> wsame a c.
Proof. intros a b c (A1 & A2 & A3 & A4 & A5) (B1 & B2 & B3 & B4 & B5). repeat split; congruence. Qed.

Section Wait.
Variable sc : scenario.
Hypothesis WF : wf_scenario sc.

Lemma wait_enter_qf : forall s, RExt qf s (wait_enter sc s).
Proof.
  intros s. unfold wait_enter. destruct (_ <? _); [apply RExt_halt; exact I|].
  eapply RExt_l; [|apply (RExt_weaken ca qf); [exact ca_qf|apply run_acts_ext]]. reflexivity.
Qed.

Lemma do_epoll_wait_fair : forall s call maxev timeout, InvW s -> 1 <= clock (kern s) ->
  f_fail (fst s) = false -> f_due (fst s) = [] -> WFairP s maxev (do_epoll_wait sc s call maxev timeout).
Proof.
  intros s call maxev timeout IW CK FF0 FD. unfold do_epoll_wait.
  pose proof (wait_enter_qf s) as X. pose proof (CoreInv.wait_enter_ok' sc WF s IW) as OK.
  pose proof (wait_enter_K sc WF CoreInv.do_action_ok s IW) as PKE.
  pose proof (wait_enter_WFr sc s) as WE.
  destruct (wait_enter sc s) as [s1|s1]; cbn [WFairP res_state]; unfold RExt in X; cbn [res_state] in X.
  2:{ destruct (TrExt_qf _ _ X) as [A _]. congruence. }
  cbn [okr] in OK. destruct OK as (IW1 & KO1 & _). unfold PK in PKE; cbn [ARes] in PKE. destruct PKE as [_ TF1].
  specialize (WE s1 WF eq_refl).
  destruct (TrExt_qf _ _ X) as [A _].
  assert (FD1 : f_due (fst s1) = []) by (apply (TrExt_qf_nil s s1 X FD)).
  cbv zeta. set (s2 := emit s1 (TWait _ _ _ _ _ _)).
  assert (F2 : f_fail (fst s2) = false /\ f_due (fst s2) = []).
  { unfold s2. rewrite fst_emit. cbn [f_step f_fail f_due]. rewrite FD1, A, FF0. split; reflexivity. }
  destruct F2 as [FF2 FD2]. change (kern s2) with (kern s1).
  destruct (mem_z _ _).
  - cbn [WFairP]. rewrite fst_emit. cbn [f_step f_fail f_due].
    destruct (0 <? timeout); [change (fst (set_kern s2 (k_set_clock (kern s1) (clock (kern s1) + timeout / 2)))) with (fst s2)|];
      split; [exact FF2|reflexivity|exact FF2|reflexivity].
  - destruct (k_epoll_sleep (kern s1) maxev timeout (sc_rot sc (nwait (kern s1)))) as [k1 evs|k1| |] eqn:SL; cbn [WFairP res_state halt].
    + rewrite fst_emit. change (fst (set_kern s2 k1)) with (fst s2). cbn [kern emit set_trace set_kern].
      split; [cbn [f_step f_fail]; exact FF2|]. split; [apply due_ok_ret|]. split; [apply (ko_heap _ _ KO1)|].
      pose proof (sleep_clock _ _ _ _ _ _ SL) as SC. pose proof (wf_clock _ _ WE) as WC. split; [lia|].
      intros MX D AR DC. pose proof (ArmedT_TFs s s1 D AR TF1) as (v & e & G & K & DL & NZ & I0 & EF & EV & EN).
      apply (tfd_reported s1 maxev timeout (sc_rot sc (nwait (kern s1))) k1 evs D v e IW1); try assumption.
      rewrite (ko_numfds _ _ KO1). exact MX.
    + change (fst (set_kern s2 k1)) with (fst s2). split; assumption.
    + rewrite fst_emit. cbn [f_step]. exact FF2.
    + rewrite fst_emit. cbn [f_step]. exact FF2.
Qed.

Lemma epoll_wait_m_fair : forall s abs maxev, InvW s -> 1 <= clock (kern s) ->
  f_fail (fst s) = false -> f_due (fst s) = [] -> WFairP s maxev (epoll_wait_m sc s abs maxev).
Proof.
  intros s abs maxev IW CK FF0 FD. unfold epoll_wait_m.
  assert (V : forall s0, InvW s0 -> wsame s s0 ->
    WFairP s maxev (let '(s1, ms) := to_msec s0 abs in do_epoll_wait sc s1 0 maxev (if ms <? 0 then -1 else ms * 1000000))).
  { intros s0 I0 W0. unfold to_msec. destruct abs as [a|]; cbn [to_relative].
    - apply (WFairP_pre s (validate_now s0)); [eapply wsame_trans; [exact W0|apply wsame_validate]|].
      destruct (wsame_trans _ _ _ W0 (wsame_validate s0)) as (_ & _ & E3 & _ & E5).
      apply do_epoll_wait_fair; [apply InvW_validate; exact I0|rewrite E3; exact CK|rewrite (fst_same _ _ E5); exact FF0|rewrite (fst_same _ _ E5); exact FD].
    - apply (WFairP_pre s s0 _ _ W0). destruct W0 as (_ & _ & E3 & _ & E5).
      apply do_epoll_wait_fair; [exact I0|rewrite E3; exact CK|rewrite (fst_same _ _ E5); exact FF0|rewrite (fst_same _ _ E5); exact FD]. }
  assert (W0 : wsame s s) by (repeat split; reflexivity).
  destruct (pwait2 s); [|apply V; assumption].
  destruct abs as [a|]; cbn [to_relative].
  - set (s1 := validate_now s).
    assert (I1 : InvW s1) by (apply InvW_validate; exact IW).
    assert (W1 : wsame s s1) by apply wsame_validate.
    destruct (_ || _).
    + apply V; [apply (InvW_coresame s1); [constructor; reflexivity|apply (ms_nobad _ (iw_misc _ I1))|exact I1]|].
      eapply wsame_trans; [exact W1|repeat split; reflexivity].
    + apply (WFairP_pre s s1 _ _ W1). destruct W1 as (_ & _ & E3 & _ & E5).
      apply do_epoll_wait_fair; [exact I1|rewrite E3; exact CK|rewrite (fst_same _ _ E5); exact FF0|rewrite (fst_same _ _ E5); exact FD].
  - destruct (_ || _).
    + apply V; [apply (InvW_coresame s); [constructor; reflexivity|apply (ms_nobad _ (iw_misc _ IW))|exact IW]|repeat split; reflexivity].
    + apply do_epoll_wait_fair; assumption.
Qed.

End Wait.
