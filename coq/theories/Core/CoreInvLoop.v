(* CoreInvLoop.v -- the loop phases of iv_main preserve the invariant: handler
   scripts, the event runner, raw events, the dispatch loop, timers, tasks.
   Parametrised (Section) by the preservation lemma for single actions, which
   CoreInvAct.v proves; instantiated in CoreInv.v. *)
From Coq Require Import List ZArith Bool Lia.
From Ivv Require Import Core.Kernel Core.CoreTypes Core.CoreFd Core.CoreModel Core.CoreSpec
  Core.CoreInvBase Core.CoreInvDefs Core.CoreInvFd Core.CoreInvPoll Core.CoreInvReg Core.CoreInvObj
  Core.CoreInvTm.
From Ivv Require Timer.HeapModel Timer.HeapSpec Timer.HeapProofs Timer.HeapBase Timer.HeapFacts Timer.HeapUnreg.
Import ListNotations.
Local Open Scope Z_scope.

Lemma Fr_gen : forall s s', nwait (kern s') = nwait (kern s) ->
  (length (HeapModel.batch (heap s')) <= length (HeapModel.batch (heap s)))%nat ->
  (length (ev_batch s') <= length (ev_batch s))%nat -> (length (active s') <= length (active s))%nat ->
  epoch s' = epoch s -> tepoch s' = tepoch s -> cur s' = cur s ->
  (handled s' = handled s \/ handled s' = None) -> Fr s s'.
Proof.
  intros s s' A B C D E F G H. constructor; try assumption.
  - rewrite (tmeasure_same s s' G F E). lia.
  - congruence.
Qed.
Lemma Fr_evl : forall s p b s', Fr (set_evlists s p b) s' -> ev_batch s' = [] -> Fr s s'.
Proof.
  intros s p b s' [A B C D E F G H] Z. constructor.
  - exact A.
  - exact B.
  - rewrite Z. cbn [length]. lia.
  - exact D.
  - exact E.
  - pose proof (tmeasure_same s (set_evlists s p b) eq_refl eq_refl eq_refl) as T. rewrite T in F. exact F.
  - exact G.
  - exact H.
Qed.
Ltac fr_triv := apply Fr_gen; first [reflexivity | left; reflexivity | idtac].

(* ---------- the quiet clauses ---------- *)
Definition Q3 (s : core) : Prop := HeapModel.batch (heap s) = [] /\ cur s = None /\ ev_batch s = [].

Lemma len0 : forall A (l l' : list A), (length l' <= length l)%nat -> l = [] -> l' = [].
Proof. intros A l l' H ->. destruct l'; [reflexivity|cbn in H; lia]. Qed.

Lemma Q3_Fr : forall s s', Q3 s -> Fr s s' -> Q3 s'.
Proof.
  intros s s' (A & B & C) F. split; [eapply len0; [apply (fr_batch _ _ F)|assumption]|].
  split; [apply (fr_cur _ _ F); assumption|eapply len0; [apply (fr_evb _ _ F)|assumption]].
Qed.

Lemma Quiet_Fr : forall s s', Quiet s -> Fr s s' -> Quiet s'.
Proof.
  intros s s' [A B C D] F. constructor.
  - eapply len0; [apply (fr_batch _ _ F)|assumption].
  - apply (fr_cur _ _ F); assumption.
  - eapply len0; [apply (fr_evb _ _ F)|assumption].
  - eapply len0; [apply (fr_act _ _ F)|assumption].
Qed.

Lemma Quiet_Q3 : forall s, Quiet s <-> Q3 s /\ active s = [].
Proof. intros s. split; [intros []; repeat split; assumption|intros ((A&B&C)&D); constructor; assumption]. Qed.

(* the frame of a whole phase: what the next phases rely on *)
Record Fq (s s' : core) : Prop := {
  fq_nwait : nwait (kern s') = nwait (kern s);
  fq_batch : (length (HeapModel.batch (heap s')) <= length (HeapModel.batch (heap s)))%nat;
  fq_evb : (length (ev_batch s') <= length (ev_batch s))%nat;
  fq_cur : cur s = None -> cur s' = None;
}.
Lemma Fq_refl : forall s, Fq s s. Proof. intros; constructor; auto. Qed.
Lemma Fq_trans : forall a b c, Fq a b -> Fq b c -> Fq a c.
Proof. intros a b c [] []. constructor; try lia; try congruence; auto. Qed.
Lemma Fq_Fr : forall s s', Fr s s' -> Fq s s'.
Proof. intros s s' []. constructor; assumption. Qed.
Lemma Q3_Fq : forall s s', Q3 s -> Fq s s' -> Q3 s'.
Proof.
  intros s s' (A & B & C) F. split; [eapply len0; [apply (fq_batch _ _ F)|assumption]|].
  split; [apply (fq_cur _ _ F); assumption|eapply len0; [apply (fq_evb _ _ F)|assumption]].
Qed.

(* a step of a handler: invariant, frame, method / timer descriptor unchanged *)
Definition StepT (s s' : core) : Prop := InvW s' /\ Fr s s' /\ tm s s'.

Lemma StepT_refl : forall s, InvW s -> StepT s s.
Proof. intros. split; [assumption|]. split; [apply Fr_refl|apply tm_refl]. Qed.
Lemma StepT_trans : forall a b c, StepT a b -> StepT b c -> StepT a c.
Proof.
  intros a b c (A1&A2&A3) (B1&B2&B3). split; [assumption|]. split; [eapply Fr_trans|eapply tm_trans]; eassumption.
Qed.

Lemma okr_tm : forall P s r, okr P r -> tmr s r -> okr (fun s' => P s' /\ tm s s') r.
Proof. intros P s [s1|s1] A B; cbn [okr] in *; [split; assumption|assumption]. Qed.

Lemma okr_StepT_bind : forall s r f (Q : core -> Prop),
  okr (StepT s) r -> (forall s1, StepT s s1 -> okr Q (f s1)) -> okr Q (bind r f).
Proof. intros. eapply okr_bind; eassumption. Qed.

Lemma NoDup_app_l : forall A (a b : list A), NoDup (a ++ b) -> NoDup a.
Proof.
  induction a as [|x a IH]; intros b H; [constructor|]. cbn in H. inversion H as [|? ? N D]; subst.
  constructor; [intro Q; apply N; apply in_or_app; left; assumption|eapply IH; eassumption].
Qed.

Lemma Forall_nth_d : forall A (P : A -> Prop) l n d, Forall P l -> P d -> P (nth n l d).
Proof.
  intros A P l. induction l as [|a l IH]; intros [|n] d F D; cbn [nth]; try assumption.
  - inversion F; assumption.
  - apply IH; [inversion F; assumption|assumption].
Qed.

(* InvW when only the dispatch list and the current descriptor change *)
Lemma InvW_act_handled : forall s l h, InvW s -> (forall k, In k l -> live s (-1) k) ->
  (forall k, h = Some k -> live s (-1) k) -> InvW (set_handled (set_active s l) h).
Proof.
  intros s l h [A B C D E F G H] L1 L2. constructor.
  - apply FdInv_set_handled; [apply FdInv_set_active; assumption|]. exact L2.
  - intros k. apply sync_at_same with (s := s); try reflexivity. apply B.
  - destruct C. constructor; assumption.
  - exact D.
  - apply (TaskInv_same s); [reflexivity..|exact E].
  - apply (EvInv_same s); [constructor; reflexivity|exact F].
  - destruct G. constructor; assumption.
  - apply (Misc_same s); [reflexivity..|exact H].
Qed.

(* ---------- reads of raw-event descriptors ---------- *)
Lemma read_pipe : forall k r w, pipe_ok k r w ->
  match k_read k r 1024 with
  | (_, inl n) => n <> 0
  | (_, inr e) => e = EAGAIN
  end.
Proof.
  intros k r w (X & Y & v & vw & A & B & C & D & _). unfold k_read. rewrite A, B.
  change (K_PIPE_R =? K_EVENTFD) with false. change (K_PIPE_R =? K_PIPE_R) with true. cbv iota.
  destruct (Z.eqb_spec (vcnt v) 0) as [Z0|NZ]; [rewrite D; reflexivity|]. lia.
Qed.

Lemma read_evfd : forall k r w, evfd_ok k r w ->
  match k_read k r 8 with
  | (_, inl n) => n <> 0
  | (_, inr e) => e = EAGAIN
  end.
Proof.
  intros k r w (X & Y & v & A & B). unfold k_read. rewrite A, B.
  change (K_EVENTFD =? K_EVENTFD) with true. change (8 <? 8) with false. cbv iota.
  destruct (vcnt v =? 0); [reflexivity|lia].
Qed.

Section Loop.
Variable sc : scenario.
Hypothesis Hh : forall k, Forall (Forall wf_action) (sc_handlers sc k).
Hypothesis do_action_ok : forall s a, InvW s -> wf_action a -> okr (StepW s) (do_action s a).

Lemma do_action_okT : forall s a, InvW s -> wf_action a -> okr (StepT s) (do_action s a).
Proof.
  intros s a I W. eapply okr_weaken; [apply okr_tm; [apply (do_action_ok s a I W)|apply do_action_tm]|].
  intros s' ((A&B)&C). split; [assumption|split; assumption].
Qed.

Lemma run_acts_ok : forall l s, InvW s -> Forall wf_action l -> okr (StepT s) (run_acts s l).
Proof.
  induction l as [|a l IH]; intros s I W; cbn [run_acts].
  - cbn [okr]. apply StepT_refl; assumption.
  - inversion W as [|? ? Wa Wl]; subst. eapply okr_bind; [apply (do_action_okT s a I Wa)|].
    intros s1 S1. eapply okr_weaken; [apply IH; [apply S1|assumption]|].
    intros s2 S2. eapply StepT_trans; eassumption.
Qed.

Lemma run_script_ok : forall s key, InvW s -> okr (StepT s) (run_script sc s key).
Proof.
  intros s key I. unfold run_script. pose proof (Hh key) as F.
  destruct (sc_handlers sc key) as [|l0 ls] eqn:E; [cbn [okr]; apply StepT_refl; assumption|].
  cbv zeta. set (s1 := set_invoc s _).
  assert (I1 : InvW s1) by (apply (InvW_coresame s s1); [cs_refl|apply (ms_nobad _ (iw_misc _ I))|exact I]).
  assert (S1 : StepT s s1) by (split; [assumption|]; split; [fr_triv|repeat split]).
  eapply okr_weaken; [apply (run_acts_ok _ s1 I1)|intros s2 S2; eapply StepT_trans; eassumption].
  apply Forall_nth_d; [assumption|constructor].
Qed.

(* ---------- __iv_event_run_pending_events ---------- *)
Lemma InvW_evlists : forall s p b, InvW s -> (forall j, In j (p ++ b) -> In j (ev_pending s ++ ev_batch s)) ->
  NoDup (p ++ b) -> InvW (set_evlists s p b).
Proof.
  intros s p b I L ND. apply (InvW_fdcs s); try assumption; [fc_refl|apply (ms_nobad _ (iw_misc _ I))|apply (iw_heap _ I)| | |].
  - apply (TaskInv_same s); [reflexivity..|apply (iw_task _ I)].
  - pose proof (iw_ev _ I) as []. constructor; sp; try assumption. intros j J. apply ev_lists. apply L. assumption.
  - pose proof (iw_acct _ I) as []. constructor; assumption.
Qed.

Lemma events_loop_ok : forall fuel s, InvW s -> (length (ev_batch s) <= fuel)%nat ->
  okr (fun s' => StepT s s' /\ ev_batch s' = []) (events_loop sc fuel s).
Proof.
  induction fuel as [|f IH]; intros s I L.
  - destruct (ev_batch s) eqn:E; [|cbn in L; lia]. cbn [events_loop]. rewrite E. cbn [okr].
    split; [apply StepT_refl; assumption|assumption].
  - cbn [events_loop]. destruct (ev_batch s) as [|ie rest] eqn:E.
    + cbn [okr]. split; [apply StepT_refl; assumption|assumption].
    + cbv zeta. set (s1 := set_evlists s (ev_pending s) rest).
      assert (I1 : InvW s1).
      { apply InvW_evlists; [assumption| |].
        - intros j J. rewrite E. apply in_app_or in J. apply in_or_app. destruct J; [left; assumption|right; right; assumption].
        - pose proof (ev_nodup _ (iw_ev _ I)) as ND. rewrite E in ND. apply NoDup_remove_1 in ND. assumption. }
      assert (S1 : StepT s (emit s1 (TCallEvent ie))).
      { split; [apply InvW_emit; [assumption|discriminate..]|]. split; [|repeat split].
        fr_triv. change (ev_batch (emit s1 (TCallEvent ie))) with rest. rewrite E. cbn [length]. lia. }
      eapply okr_bind; [apply (run_script_ok _ (HK_E + ie) (proj1 S1))|].
      intros s2 S2. pose proof (StepT_trans _ _ _ S1 S2) as S02.
      assert (L2 : (length (ev_batch s2) <= length rest)%nat) by (apply (fr_evb _ _ (proj1 (proj2 S2)))).
      destruct rest as [|r0 rest'].
      * cbn [okr]. split; [assumption|]. destruct (ev_batch s2); [reflexivity|cbn in L2; lia].
      * eapply okr_weaken; [apply (IH s2 (proj1 S2))|].
        -- cbn [length] in *. lia.
        -- intros s3 (S3 & B3). split; [eapply StepT_trans; eassumption|assumption].
Qed.

Lemma run_pending_events_ok : forall s, InvW s -> okr (StepT s) (run_pending_events sc s).
Proof.
  intros s I. unfold run_pending_events. destruct (ev_pending s) as [|p0 p] eqn:E.
  - cbn [okr]. apply StepT_refl; assumption.
  - set (s1 := set_evlists s [] (p0 :: p)).
    assert (I1 : InvW s1).
    { apply InvW_evlists; [assumption| |].
      - intros j J. rewrite E. apply in_or_app. left. exact J.
      - pose proof (ev_nodup _ (iw_ev _ I)) as ND. rewrite E in ND. apply NoDup_app_l in ND. exact ND. }
    eapply okr_weaken; [apply (events_loop_ok (S (length (p0 :: p))) s1 I1); subst s1; sp; lia|].
    intros s2 ((I2 & F2 & T2) & B2). split; [assumption|]. split; [|exact T2].
    eapply Fr_evl; eassumption.
Qed.

(* ---------- iv_event_raw_got_event ---------- *)
Lemma raw_got_event_ok : forall s j, InvW s -> rw_reg s j = true -> okr (StepT s) (raw_got_event sc s j).
Proof.
  intros s j I R. unfold raw_got_event. cbv zeta.
  pose proof (dy_kern _ (iw_dyn _ I) j R) as DK.
  set (toread := if raw_is_pipe s j then 1024 else 8).
  assert (RD : match k_read (kern s) (rw_rfd s j) toread with
               | (_, inl n) => n <> 0
               | (_, inr e) => e = EAGAIN
               end).
  { subst toread. destruct (raw_is_pipe s j); [eapply read_pipe|eapply read_evfd]; eassumption. }
  pose proof (kstable_read (kern s) (rw_rfd s j) toread) as KS.
  destruct (k_read (kern s) (rw_rfd s j) toread) as [k1 [n|e]]; cbn [fst] in KS.
  - destruct (Z.eqb_spec n 0) as [Z0|NZ]; [contradiction|].
    set (s1 := set_kern s k1).
    assert (S1 : StepT s s1).
    { split; [apply InvW_kstable; assumption|]. split; [apply Fr_set_kern; apply (kt_nwait _ _ KS)|repeat split]. }
    destruct (j =? KICK_RAW).
    + eapply okr_weaken; [apply (run_pending_events_ok s1 (proj1 S1))|]. intros s2 S2. eapply StepT_trans; eassumption.
    + assert (S1' : StepT s (emit s1 (TCallRaw j))).
      { eapply StepT_trans; [exact S1|]. split; [apply InvW_emit; [apply S1|discriminate..]|]. split; [fr_triv|repeat split]. }
      eapply okr_weaken; [apply (run_script_ok _ (HK_R + j) (proj1 S1'))|]. intros s2 S2. eapply StepT_trans; eassumption.
  - subst e. cbn [okr]. split; [apply InvW_kstable; assumption|].
    split; [apply Fr_set_kern; apply (kt_nwait _ _ KS)|repeat split].
Qed.

(* ---------- a descriptor handler ---------- *)
Definition hsel (f : fdo) (h : option Z) : Prop := h = h_in f \/ h = h_out f \/ h = h_err f.

Lemma call_fd_ok : forall s k band h, InvW s -> registered (fdt s k) = true -> hsel (fdt s k) h ->
  okr (StepT s) (call_fd sc s k band h).
Proof.
  intros s k band h I R HS. unfold call_fd. destruct h as [hid|]; [|cbn [okr]; apply StepT_refl; assumption].
  pose proof (fv_range _ _ (iw_fd _ I) k R) as RG.
  assert (RUN : okr (StepT s) (run_script sc (emit s (TCallFd k band hid (cookie (getfd s k)))) hid)).
  { assert (S1 : StepT s (emit s (TCallFd k band hid (cookie (getfd s k))))).
    { split; [apply InvW_emit; [assumption|discriminate..]|]. split; [fr_triv|repeat split]. }
    eapply okr_weaken; [apply (run_script_ok _ hid (proj1 S1))|]. intros s2 S2. eapply StepT_trans; eassumption. }
  destruct (Z_lt_ge_dec k 16) as [U|D].
  - destruct (dy_userh _ (iw_dyn _ I) k ltac:(lia)) as (A & B & C).
    assert (0 <= hid < 16) by (destruct HS as [Q|[Q|Q]]; symmetry in Q; [apply A|apply B|apply C]; assumption).
    destruct (Z.leb_spec 1000 hid); [lia|]. exact RUN.
  - set (j := k - 16). assert (J : 0 <= j <= 16) by (subst j; lia).
    assert (KJ : k = 16 + j) by (subst j; lia).
    pose proof (dy_reg _ (iw_dyn _ I) j J) as RR. rewrite <- KJ, R in RR. symmetry in RR.
    destruct (dy_obj _ (iw_dyn _ I) j RR) as (_ & A & B & C). rewrite <- KJ in A, B, C.
    assert (hid = 1000 + j).
    { destruct HS as [Q|[Q|Q]]; rewrite ?A, ?B, ?C in Q; try discriminate. unfold H_RAW in Q. congruence. }
    subst hid. destruct (Z.leb_spec 1000 (1000 + j)); [|lia].
    replace (1000 + j - 1000) with j by lia. apply raw_got_event_ok; assumption.
Qed.

(* ---------- the dispatch loop of iv_fd_poll_and_run ---------- *)
Lemma handled_reg : forall s k, InvW s -> handled s = Some k -> registered (fdt s k) = true.
Proof. intros s k I H. apply (fv_handled _ _ (iw_fd _ I)) in H. apply live_none in H. tauto. Qed.

Lemma guarded_call : forall s k (b : bool) band (sel : fdo -> option Z), InvW s ->
  (handled s = Some k \/ handled s = None) -> (forall f, hsel f (sel f)) ->
  okr (fun s' => StepT s s' /\ (handled s' = Some k \/ handled s' = None))
      (match handled s with
       | Some _ => if b then call_fd sc s k band (sel (getfd s k)) else R s
       | None => R s
       end).
Proof.
  intros s k b band sel I H SEL.
  destruct (handled s) as [k'|] eqn:E.
  - destruct H as [H|H]; [|discriminate]. injection H as ->. destruct b.
    + eapply okr_weaken; [apply (call_fd_ok s k band _ I (handled_reg _ _ I E) (SEL _))|].
      intros s' S. split; [assumption|]. destruct (fr_handled _ _ (proj1 (proj2 S))) as [Q|Q]; [left; congruence|right; assumption].
    + cbn [okr]. split; [apply StepT_refl; assumption|left; assumption].
  - cbn [okr]. split; [apply StepT_refl; assumption|right; assumption].
Qed.

Definition DispPost (s s' : core) : Prop := InvW s' /\ Fq s s' /\ tm s s' /\ active s' = [].

Lemma dispatch_active_ok : forall fuel s, InvW s -> (length (active s) < fuel)%nat ->
  okr (DispPost s) (dispatch_active sc fuel s).
Proof.
  induction fuel as [|f IH]; intros s I L; [lia|].
  cbn [dispatch_active]. destruct (active s) as [|k rest] eqn:E.
  - cbn [okr]. split; [assumption|]. split; [apply Fq_refl|]. split; [apply tm_refl|assumption].
  - cbv zeta. set (s1 := set_handled (set_active s rest) (Some k)).
    pose proof (iw_fd _ I) as FI.
    assert (LK : live s (-1) k) by (apply (fv_active _ _ FI); rewrite E; left; reflexivity).
    assert (I1 : InvW s1).
    { apply InvW_act_handled; [assumption| |].
      - intros k0 H. apply (fv_active _ _ FI). rewrite E. right. assumption.
      - intros k0 H. injection H as <-. assumption. }
    assert (Q1 : Fq s s1) by (constructor; sp; auto).
    assert (H1 : handled s1 = Some k) by reflexivity.
    assert (R1 : registered (fdt s1 k) = true) by (apply live_none in LK; apply LK).
    eapply okr_bind with (P := fun s' => StepT s1 s' /\ (handled s' = Some k \/ handled s' = None)).
    { destruct (has (ready (getfd s1 k)) M_ERR).
      - eapply okr_weaken; [apply (call_fd_ok s1 k 2 _ I1 R1); right; right; reflexivity|].
        intros s' S. split; [assumption|]. destruct (fr_handled _ _ (proj1 (proj2 S))) as [Q|Q]; [left; congruence|right; assumption].
      - cbn [okr]. split; [apply StepT_refl; assumption|left; assumption]. }
    intros s2 (S2 & H2).
    eapply okr_bind; [apply (guarded_call s2 k (has (ready (getfd s2 k)) M_IN) 0 h_in (proj1 S2) H2); intros; left; reflexivity|].
    intros s3 (S3 & H3).
    eapply okr_bind; [apply (guarded_call s3 k (has (ready (getfd s3 k)) M_OUT) 1 h_out (proj1 S3) H3); intros; right; left; reflexivity|].
    intros s4 (S4 & H4).
    pose proof (StepT_trans _ _ _ S2 (StepT_trans _ _ _ S3 S4)) as S14.
    eapply okr_weaken; [apply (IH s4 (proj1 S4))|].
    + pose proof (fr_act _ _ (proj1 (proj2 S14))) as LA. change (active s1) with rest in LA.
      cbn [length] in L. lia.
    + intros s5 (I5 & Q5 & T5 & A5). split; [assumption|].
      split; [eapply Fq_trans; [exact Q1|]; eapply Fq_trans; [apply Fq_Fr; apply S14|exact Q5]|].
      split; [|assumption]. eapply tm_trans; [|exact T5]. eapply tm_trans; [|apply S14]. repeat split.
Qed.

(* ---------- small state changes ---------- *)
Lemma heap_validate : forall s, heap (validate_now s) = heap s.
Proof. intros. unfold validate_now. destruct (time_valid s); reflexivity. Qed.

Lemma InvW_validate : forall s, InvW s -> InvW (validate_now s).
Proof.
  intros s I. unfold validate_now. destruct (time_valid s); [assumption|].
  apply (InvW_coresame s); [cs_refl|apply (ms_nobad _ (iw_misc _ I))|assumption].
Qed.
Lemma StepT_validate : forall s, InvW s -> StepT s (validate_now s).
Proof.
  intros s I. split; [apply InvW_validate; assumption|]. split; [|apply validate_tm].
  unfold validate_now. destruct (time_valid s); [apply Fr_refl|fr_triv].
Qed.
Lemma InvW_invalidate : forall s, InvW s -> InvW (invalidate_now s).
Proof.
  intros s I. apply (InvW_coresame s); [cs_refl|apply (ms_nobad _ (iw_misc _ I))|assumption].
Qed.
Lemma StepT_invalidate : forall s, InvW s -> StepT s (invalidate_now s).
Proof.
  intros s I. split; [apply InvW_invalidate; assumption|]. split; [fr_triv|apply invalidate_tm].
Qed.
Lemma StepT_emit : forall s e, InvW s -> e <> TCrash -> e <> TFatal -> StepT s (emit s e).
Proof. intros s e I A B. split; [apply InvW_emit; assumption|]. split; [fr_triv|repeat split]. Qed.

(* ---------- iv_run_timers ---------- *)
Lemma InvW_set_heap : forall s h, InvW s -> HeapSpec.HeapInv h -> HeapModel.num h = HeapModel.num (heap s) ->
  InvW (set_heap s h).
Proof.
  intros s h I HI N. apply (InvW_fdcs s); try assumption; [fc_refl|apply (ms_nobad _ (iw_misc _ I))| | |].
  - apply (TaskInv_same s); [reflexivity..|apply (iw_task _ I)].
  - pose proof (iw_ev _ I) as []. constructor; assumption.
  - pose proof (iw_acct _ I) as [A B]. constructor; [exact A|]. sp. rewrite N. exact B.
Qed.

Lemma timers_dispatch_ok : forall fuel s, InvW s -> (length (HeapModel.batch (heap s)) < fuel)%nat ->
  okr (fun s' => StepT s s' /\ HeapModel.batch (heap s') = []) (timers_dispatch sc fuel s).
Proof.
  induction fuel as [|f IH]; intros s I L; [lia|].
  cbn [timers_dispatch]. destruct (HeapModel.batch (heap s)) as [|t rest] eqn:E.
  - cbn [okr]. split; [apply StepT_refl; assumption|assumption].
  - cbv zeta.
    pose proof (HeapFacts.HeapInv_Inv _ (iw_heap _ I)) as HI.
    assert (T0 : HeapModel.tidx (heap s) t = 0).
    { apply (proj1 (HeapFacts.i_batch _ HI)). rewrite E. left. reflexivity. }
    destruct (HeapUnreg.pop_inv (heap s) t HI T0) as (HI1 & _ & _ & _ & B1 & N1 & _).
    rewrite E in HI1, B1, N1. cbn [HeapModel.remove_first] in HI1, B1, N1. rewrite Pos.eqb_refl in HI1, B1, N1.
    set (h1 := HeapModel.set_idx (HeapModel.set_batch (heap s) rest) t (-1)) in *.
    set (s1 := set_heap s h1).
    assert (S1 : StepT s s1).
    { split; [apply InvW_set_heap; [assumption|apply HeapFacts.Inv_HeapInv; assumption|assumption]|].
      split; [|repeat split]. fr_triv. change (heap s1) with h1. rewrite B1, E. cbn [length]. lia. }
    pose proof (StepT_validate s1 (proj1 S1)) as S2. set (s2 := validate_now s1) in *.
    pose proof (StepT_emit s2 (TCallTimer (Z.pos t - 1) (time s2)) (proj1 S2) ltac:(discriminate) ltac:(discriminate)) as S3.
    eapply okr_bind; [apply (run_script_ok _ (HK_T + (Z.pos t - 1)) (proj1 S3))|].
    intros s4 S4. pose proof (StepT_trans _ _ _ S1 (StepT_trans _ _ _ S2 (StepT_trans _ _ _ S3 S4))) as S04.
    eapply okr_weaken; [apply (IH s4 (proj1 S4))|].
    + pose proof (fr_batch _ _ (proj1 (proj2 S4))) as LB.
      assert (Q : heap (emit s2 (TCallTimer (Z.pos t - 1) (time s2))) = h1) by (subst s2; change (heap (validate_now s1) = h1); rewrite heap_validate; reflexivity).
      rewrite Q, B1 in LB. cbn [length] in L. lia.
    + intros s5 (S5 & B5). split; [eapply StepT_trans; eassumption|assumption].
Qed.

Definition PhPost (s s' : core) : Prop :=
  InvW s' /\ Q3 s' /\ tm s s' /\ nwait (kern s') = nwait (kern s) /\ (length (active s') <= length (active s))%nat.

Lemma PhPost_of_StepT : forall s s', Q3 s -> StepT s s' -> PhPost s s'.
Proof.
  intros s s' Q (I & F & T). split; [assumption|]. split; [eapply Q3_Fr; eassumption|]. split; [assumption|].
  split; [apply (fr_nwait _ _ F)|apply (fr_act _ _ F)].
Qed.

Lemma run_timers_ok : forall s, InvW s -> Q3 s -> okr (PhPost s) (run_timers sc s).
Proof.
  intros s I Q. unfold run_timers. destruct (HeapModel.num (heap s) =? 0).
  - cbn [okr]. apply PhPost_of_StepT; [assumption|apply StepT_refl; assumption].
  - cbv zeta. pose proof (StepT_validate s I) as S1. set (s1 := validate_now s) in *.
    assert (H1 : heap s1 = heap s) by apply heap_validate.
    destruct (HeapProofs.heap_collect_ok (heap s1) (time s1)) as (h' & C & HI' & _).
    { rewrite H1. apply (iw_heap _ I). }
    { rewrite H1. apply Q. }
    rewrite C. unfold lift_heap. cbn [bind].
    destruct (heap_step s1 h' (proj1 S1) HI') as (I2 & N2). cbv zeta in I2, N2.
    set (s2 := set_numobjs (set_heap s1 h') _) in *.
    eapply okr_weaken; [apply (timers_dispatch_ok _ s2 I2); lia|].
    intros s3 ((I3 & F3 & T3) & B3).
    split; [assumption|]. split; [|split; [|split]].
    + split; [assumption|]. destruct Q as (_ & Q2 & Q3'). split.
      * apply (fr_cur _ _ F3). change (cur s2) with (cur s1). apply (fr_cur _ _ (proj1 (proj2 S1))). assumption.
      * eapply len0; [apply (fr_evb _ _ F3)|]. change (ev_batch s2) with (ev_batch s1).
        eapply len0; [apply (fr_evb _ _ (proj1 (proj2 S1)))|assumption].
    + eapply tm_trans; [apply S1|]. eapply tm_trans; [|exact T3]. repeat split.
    + rewrite (fr_nwait _ _ F3). change (kern s2) with (kern s1). apply (fr_nwait _ _ (proj1 (proj2 S1))).
    + pose proof (fr_act _ _ F3) as A3. change (active s2) with (active s1) in A3.
      pose proof (fr_act _ _ (proj1 (proj2 S1))). lia.
Qed.

(* ---------- iv_run_tasks ---------- *)
Definition tfl (s : core) (k : Z) : bool := negb (mem_z k (curl s)) && negb (tepoch s k =? epoch s).
Lemma tcount_cnt : forall s, Z.of_nat (tcount s) = cntf (tfl s) (zseq 0 17).
Proof. intros. unfold tcount, cntf, tfl. reflexivity. Qed.

Lemma InvW_tasks_set : forall s s', InvW s -> fdcs s s' -> trace s' = trace s -> heap s' = heap s ->
  ev_pending s' = ev_pending s -> ev_batch s' = ev_batch s -> ev_count s' = ev_count s -> ev_reg s' = ev_reg s ->
  use_raw s' = use_raw s ->
  (forall k, In k (tasks s' ++ curl s') -> In k (tasks s ++ curl s)) -> NoDup (tasks s' ++ curl s') ->
  numobjs s' - Z.of_nat (length (tasks s' ++ curl s')) = numobjs s - Z.of_nat (length (tasks s ++ curl s)) ->
  InvW s'.
Proof.
  intros s s' I FC T H E1 E2 E3 E4 E5 SUB ND NO.
  apply (InvW_fdcs s s' FC I).
  - rewrite T. apply (ms_nobad _ (iw_misc _ I)).
  - rewrite H. apply (iw_heap _ I).
  - constructor; [|assumption]. intros k K. apply (tk_range _ (iw_task _ I)). apply SUB. assumption.
  - pose proof (iw_ev _ I) as []. constructor; unfold is_epoll; rewrite ?E1, ?E2, ?E3, ?E4, ?E5; fc_rw FC; assumption.
  - pose proof (iw_acct _ I) as [A B]. constructor; fc_rw FC; [exact A|]. rewrite H, E3. lia.
Qed.

Definition TkPost (s s' : core) : Prop :=
  InvW s' /\ Fq s s' /\ tm s s' /\ cur s' = None /\ (length (active s') <= length (active s))%nat.

Lemma tasks_loop_ok : forall fuel s, InvW s -> (tmeasure s < fuel)%nat -> okr (TkPost s) (tasks_loop sc fuel s).
Proof.
  induction fuel as [|f IH]; intros s I L; [lia|].
  cbn [tasks_loop]. destruct (cur s) as [[|k rest]|] eqn:E.
  - (* the list is exhausted *)
    cbn [okr]. split; [|split; [constructor; sp; auto; congruence|split; [repeat split|split; [reflexivity|sp; lia]]]].
    apply (InvW_tasks_set s); try reflexivity; try assumption; try fc_refl.
    + unfold curl. sp. rewrite E. tauto.
    + pose proof (tk_nodup _ (iw_task _ I)) as ND. unfold curl in *. sp. rewrite E in ND. exact ND.
    + unfold curl. sp. rewrite E. reflexivity.
  - cbv zeta.
    set (s1 := set_epoch (set_numobjs (set_tasks s (tasks s) (Some rest)) (numobjs s - 1)) (epoch s) (upd (tepoch s) k (epoch s))).
    assert (C0 : curl s = k :: rest) by (unfold curl; rewrite E; reflexivity).
    assert (C1 : curl s1 = rest) by reflexivity.
    pose proof (tk_nodup _ (iw_task _ I)) as ND. rewrite C0 in ND.
    assert (I1 : InvW s1).
    { apply (InvW_tasks_set s); try reflexivity; [assumption|fc_refl| | |].
      - rewrite C0, C1. change (tasks s1) with (tasks s). intros x X. apply in_app_or in X. apply in_or_app.
        destruct X; [left; assumption|right; right; assumption].
      - rewrite C1. change (tasks s1) with (tasks s). apply NoDup_remove_1 in ND. exact ND.
      - rewrite C0, C1. change (tasks s1) with (tasks s). change (numobjs s1) with (numobjs s - 1).
        rewrite !app_length. cbn [length]. lia. }
    assert (M1 : (tmeasure s1 < tmeasure s)%nat).
    { unfold tmeasure. rewrite C0, C1. cbn [length].
      assert (Q : cntf (tfl s1) (zseq 0 17) <= cntf (tfl s) (zseq 0 17)).
      { apply cntf_le. intros x _. unfold tfl. rewrite C0, C1. change (epoch s1) with (epoch s).
        change (tepoch s1 x) with (upd (tepoch s) k (epoch s) x). unfold upd.
        destruct (Z.eqb_spec x k) as [->|N].
        - rewrite Z.eqb_refl, andb_false_r. discriminate.
        - cbn [mem_z existsb]. destruct (Z.eqb_spec x k); [contradiction|]. cbn [orb]. tauto. }
      rewrite <- !tcount_cnt in Q. lia. }
    assert (Q1 : Fq s s1) by (constructor; try reflexivity; congruence).
    eapply okr_bind with (P := StepT s1).
    { destruct (k =? LOCAL_TASK); [apply run_pending_events_ok; assumption|].
      pose proof (StepT_emit s1 (TCallTask k) I1 ltac:(discriminate) ltac:(discriminate)) as S2.
      eapply okr_weaken; [apply (run_script_ok _ (HK_K + k) (proj1 S2))|]. intros s3 S3. eapply StepT_trans; eassumption. }
    intros s2 (I2 & F2 & T2).
    eapply okr_weaken; [apply (IH s2 I2)|].
    + pose proof (fr_tm _ _ F2). lia.
    + intros s3 (I3 & Q3' & T3 & C3 & A3). split; [assumption|].
      split; [eapply Fq_trans; [exact Q1|]; eapply Fq_trans; [apply Fq_Fr; exact F2|exact Q3']|].
      split; [eapply tm_trans; [|exact T3]; eapply tm_trans; [|exact T2]; repeat split|].
      split; [assumption|]. pose proof (fr_act _ _ F2) as A2. change (active s1) with (active s) in A2. lia.
  - cbn [okr]. split; [assumption|]. split; [apply Fq_refl|]. split; [apply tm_refl|]. split; [assumption|lia].
Qed.

Lemma tmeasure_bound : forall s, InvW s -> (tmeasure s <= 34)%nat.
Proof.
  intros s I. unfold tmeasure.
  assert (A : (length (curl s) <= 17)%nat).
  { apply NoDup_range_length.
    - pose proof (tk_nodup _ (iw_task _ I)) as ND. clear -ND. induction (tasks s); [exact ND|inversion ND; auto].
    - intros x X. pose proof (tk_range _ (iw_task _ I) x) as R. cbn. assert (0 <= x <= 16) by (apply R; apply in_or_app; right; assumption). lia. }
  assert (B : (tcount s <= 17)%nat).
  { pose proof (cntf_bound (tfl s) (zseq 0 17)) as Q. rewrite <- tcount_cnt, zseq_length in Q. lia. }
  lia.
Qed.

Lemma run_tasks_ok : forall s, InvW s -> Q3 s -> okr (PhPost s) (run_tasks sc s).
Proof.
  intros s I Q. unfold run_tasks. cbv zeta.
  set (s1 := set_epoch (set_tasks s [] (Some (tasks s))) ((epoch s + 1) mod 4294967296) (tepoch s)).
  destruct Q as (Qb & Qc & Qe).
  assert (C0 : curl s = []) by (unfold curl; rewrite Qc; reflexivity).
  assert (C1 : curl s1 = tasks s) by reflexivity.
  assert (I1 : InvW s1).
  { apply (InvW_tasks_set s); try reflexivity; [assumption|fc_refl| | |].
    - rewrite C0, C1, app_nil_r. intros k K. exact K.
    - rewrite C1. pose proof (tk_nodup _ (iw_task _ I)) as ND. rewrite C0, app_nil_r in ND. exact ND.
    - rewrite C0, C1, app_nil_r. reflexivity. }
  eapply okr_weaken; [apply (tasks_loop_ok 64 s1 I1); pose proof (tmeasure_bound s1 I1); lia|].
  intros s2 (I2 & Q2 & T2 & C2 & A2). split; [assumption|]. split; [|split; [|split]].
  - split; [|split; [assumption|]].
    + eapply len0; [apply (fq_batch _ _ Q2)|exact Qb].
    + eapply len0; [apply (fq_evb _ _ Q2)|exact Qe].
  - eapply tm_trans; [|exact T2]. repeat split.
  - apply (fq_nwait _ _ Q2).
  - exact A2.
Qed.

End Loop.
