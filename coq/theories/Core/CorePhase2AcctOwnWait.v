(* CorePhase2AcctOwnWait.v -- code 1802, part 4: the kernel waits and iv_fd_poll_and_run keep
   "every open library-created descriptor has an owner" (same structure as CorePhase2K1Wait.v). *)
From Coq Require Import List ZArith Bool Lia.
From Ivv Require Import Core.Kernel Core.CoreTypes Core.CoreFd Core.CoreModel Core.CoreSpec
  Core.CoreInvBase Core.CoreInvDefs Core.CoreInvFd Core.CoreInvPoll Core.CoreInvReg Core.CoreInvObj
  Core.CoreInvTm Core.CoreInvLoop Core.CoreInvWait
  Core.CorePhase2K1Base Core.CorePhase2AcctOwn Core.CorePhase2AcctOwnAct Core.CorePhase2AcctOwnLoop.
Import ListNotations.
Local Open Scope Z_scope.

Section Wait.
Variable sc : scenario.
Hypothesis WF : wf_scenario sc.
Hypothesis do_action_ok : forall s a, InvW s -> wf_action a -> okr (StepW s) (do_action s a).
Let Hh := wf_handlers sc WF.

Lemma wait_wf : forall a, wf_wait_action a -> wf_action a.
Proof. intros a. destruct a; cbn; tauto. Qed.

Lemma wait_enter_O : forall s, InvW s -> PO s (wait_enter sc s).
Proof.
  intros s I. unfold wait_enter. cbv zeta. destruct (_ <? _); [exact Logic.I|].
  set (s1 := set_kern s _).
  apply (PO_pre s s1); [apply ODI_kern; apply KO_fields; reflexivity|].
  apply (run_acts_O do_action_ok); [apply InvW_nwait; exact I|].
  eapply Forall_impl; [exact wait_wf|apply (wf_waits sc WF)].
Qed.

Definition POw (s : core) (w : wres) : Prop :=
  match w with WR s' _ => InvW s' /\ ODI s s' | WE s' => InvW s' /\ ODI s s' | WH _ => True end.

Lemma POw_pre : forall s s0 w, ODI s s0 -> POw s0 w -> POw s w.
Proof. intros s s0 w T P. destruct w; cbn [POw] in *; try exact Logic.I; destruct P as [A B]; (split; [exact A|eapply ODI_trans; eassumption]). Qed.

Lemma do_epoll_wait_O : forall s call maxev timeout, InvW s -> TfdM s -> POw s (do_epoll_wait sc s call maxev timeout).
Proof.
  intros s call maxev timeout I TM.
  pose proof (do_epoll_wait_ok sc WF do_action_ok s call maxev timeout I TM) as P.
  unfold do_epoll_wait in *.
  pose proof (wait_enter_O s I) as Q.
  destruct (wait_enter sc s) as [s1|s1]; [|exact Logic.I]. unfold PO in Q. cbn [ARes] in Q. destruct Q as [I1 T1]. cbv zeta in *.
  set (s2 := emit s1 (TWait _ _ _ _ _ _)) in *.
  assert (T2 : ODI s s2) by (eapply ODI_trans; [exact T1|apply ODI_plain; reflexivity]).
  destruct (mem_z _ _); cbn [POw WPost] in *.
  - split; [apply P|]. eapply ODI_trans; [exact T2|].
    destruct (0 <? timeout); [|apply ODI_plain; reflexivity].
    apply (ODI_trans _ (set_kern s2 (k_set_clock (kern s2) (clock (kern s2) + timeout / 2)))); [apply ODI_kern; apply KO_fields; reflexivity|apply ODI_plain; reflexivity].
  - pose proof (sleep_spec (kern s2) maxev timeout (sc_rot sc (nwait (kern s2)))) as SP.
    change (kern s2) with (kern s1) in *.
    specialize (SP (fun e H => no_oneshot s1 e (iw_fd _ I1) H)).
    destruct (k_epoll_sleep (kern s1) maxev timeout _) as [k1 evs|k1| |]; cbn [POw WPost] in *; try exact Logic.I.
    + split; [apply P|]. destruct SP as (kX & KX & -> & _).
      eapply ODI_trans; [exact T2|].
      apply (ODI_trans _ (set_kern s2 (k_set_ep kX (ep (kern s1))))); [|apply ODI_plain; reflexivity].
      apply ODI_kern. change (kern s2) with (kern s1). apply KO_fields; cbn [vfds k_set_ep].
      destruct KX as [->|(w & ->)]; reflexivity.
    + destruct SP.
Qed.

Lemma epoll_wait_m_O : forall s abs maxev, InvW s -> TfdM s -> POw s (epoll_wait_m sc s abs maxev).
Proof.
  intros s abs maxev I TM. unfold epoll_wait_m.
  assert (V : forall s0, InvW s0 -> TfdM s0 -> ODI s s0 ->
    POw s (let '(s1, ms) := to_msec s0 abs in do_epoll_wait sc s1 0 maxev (if ms <? 0 then -1 else ms * 1000000))).
  { intros s0 I0 TM0 T0. unfold to_msec. destruct abs as [a|]; cbn [to_relative].
    - apply (POw_pre s (validate_now s0)).
      + eapply ODI_trans; [exact T0|]. unfold validate_now. destruct (time_valid s0); apply ODI_plain; reflexivity.
      + apply do_epoll_wait_O; [apply InvW_validate; exact I0|].
        unfold TfdM, validate_now in *. destruct (time_valid s0); exact TM0.
    - apply (POw_pre s s0 _ T0). apply do_epoll_wait_O; assumption. }
  destruct (pwait2 s); [|apply V; [exact I|exact TM|apply ODI_refl]].
  destruct abs as [a|]; cbn [to_relative].
  - set (s1 := validate_now s).
    assert (I1 : InvW s1) by (apply InvW_validate; exact I).
    assert (TM1 : TfdM s1) by (unfold TfdM, s1, validate_now in *; destruct (time_valid s); exact TM).
    assert (T1 : ODI s s1) by (unfold s1, validate_now; destruct (time_valid s); apply ODI_plain; reflexivity).
    destruct (_ || _).
    + apply V; [|exact TM1|eapply ODI_trans; [exact T1|apply ODI_plain; reflexivity]].
      apply (InvW_coresame s1); [constructor; reflexivity|apply (ms_nobad _ (iw_misc _ I1))|exact I1].
    + apply (POw_pre s s1 _ T1). apply do_epoll_wait_O; assumption.
  - destruct (_ || _).
    + apply V; [|exact TM|apply ODI_plain; reflexivity].
      apply (InvW_coresame s); [constructor; reflexivity|apply (ms_nobad _ (iw_misc _ I))|exact I].
    + apply do_epoll_wait_O; assumption.
Qed.


