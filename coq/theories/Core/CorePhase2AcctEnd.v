(* CorePhase2AcctEnd.v -- accounting / termination clauses of the core-loop monitor:
   codes 701 702 (iv_main returns only when quit or nothing is registered) and 706
   (after tear-down the object count is 0, or 1 for the internal task of a self-post). *)
From Coq Require Import List ZArith Bool Lia.
From Ivv Require Import Core.Kernel Core.CoreTypes Core.CoreFd Core.CoreModel Core.Monitors Core.GuardMon Core.CoreSpec
  Core.CoreRel Core.CorePhase2AcctTr Core.CorePhase2AcctMon Core.CorePhase2AcctFd Core.CorePhase2AcctAct
  Core.CorePhase2AcctLoop Core.CorePhase2AcctTear.
From Ivv Require Timer.HeapModel Timer.HeapBase Timer.HeapFacts Timer.HeapProofs Timer.HeapSift.
Import ListNotations.
Local Open Scope Z_scope.

(* ---------- nothing registered ---------- *)
Lemma any_obj_false : forall f, (forall i, inr16 i -> f i = false) -> any_obj f = false.
Proof.
  intros f H. unfold any_obj, objs. destruct (existsb f (zseq 0 16)) eqn:E; [|reflexivity].
  apply existsb_exists in E. destruct E as (x & I & F). apply In_zseq in I. rewrite H in F; [discriminate|unfold inr16; lia].
Qed.

Lemma cnt_zero : forall f i, cnt f = 0 -> inr16 i -> f i = false.
Proof. intros f i Z I. destruct (f i) eqn:E; [|reflexivity]. pose proof (cnt_pos f i I E). lia. Qed.

Lemma filter_none : forall (f : Z -> bool) l, (forall x, In x l -> f x = false) -> filter f l = [].
Proof.
  intros f l. induction l as [|a l IH]; intros H; [reflexivity|]. cbn [filter].
  rewrite (H a (or_introl eq_refl)). apply IH. intros x I. apply H. right. exact I.
Qed.

Lemma cnt33_all_false : forall f, (forall k, 0 <= k <= 32 -> f k = false) -> cnt33 f = 0.
Proof.
  intros f H. unfold cnt33. rewrite filter_none; [reflexivity|].
  intros x I. apply In_zseq in I. apply H. lia.
Qed.

(* all timers are unregistered: the heap is empty *)
Lemma hnum_zero : forall s, SI s -> (forall j, inr16 j -> timer_registered s j = false) -> hnum s = 0.
Proof.
  intros s [HI HR _ _ _ _ _] H. unfold hnum.
  pose proof (HeapFacts.i_num _ HI) as N.
  destruct (Z.eq_dec (HeapModel.num (heap s)) 0) as [E|NE]; [exact E|].
  destruct (HeapFacts.i_filled _ HI 1 ltac:(lia)) as (t & _ & TI).
  assert (TR : Zpos t <= 16) by (apply HR; lia).
  specialize (H (Zpos t - 1) ltac:(unfold inr16; lia)). unfold timer_registered in H.
  replace (tmid (Zpos t - 1)) with t in H by (unfold tmid; replace (Zpos t - 1 + 1) with (Zpos t) by lia; reflexivity).
  rewrite TI in H. discriminate H.
Qed.

(* the heap is empty and no batch is being dispatched: no timer is registered *)
Lemma no_timer : forall s j, SI s -> hnum s = 0 -> HeapModel.batch (heap s) = [] -> timer_registered s j = false.
Proof.
  intros s j [HI _ _ _ _ _ _] Z B. unfold timer_registered, hnum in *.
  destruct (HeapFacts.i_batch _ HI) as (B1 & _ & B3).
  specialize (B1 (tmid j)). specialize (B3 (tmid j)). rewrite B in B1.
  destruct (Z.eq_dec (HeapModel.tidx (heap s) (tmid j)) (-1)) as [E|NE]; [rewrite E; reflexivity|].
  destruct (Z.eq_dec (HeapModel.tidx (heap s) (tmid j)) 0) as [E0|NE0]; [apply B1 in E0; destruct E0|].
  destruct (HeapFacts.i_back _ HI (tmid j) ltac:(lia)) as [R _]. lia.
Qed.

Lemma ntask_nonneg : forall s, 0 <= ntask s. Proof. intros. unfold ntask. lia. Qed.

Lemma acc_zero : forall b s, J b s -> Acc s -> numobjs s = 0 ->
  numfds s = 0 /\ hnum s = 0 /\ ntask s = 0 /\ ev_count s = 0.
Proof.
  intros b s Jh A Z. pose proof (ac_no _ A) as N. pose proof (ac_nf _ A) as F.
  pose proof (cnt33_nonneg (regf s)). pose proof (ntask_nonneg s). pose proof (kick_range s).
  pose proof (cnt_nonneg' s (j_fx _ _ Jh)). pose proof (HeapFacts.i_num _ (si_heap _ (j_si _ _ Jh))).
  unfold hnum in *. lia.
Qed.

Lemma nothing_registered : forall b s, J b s -> Acc s -> numobjs s = 0 -> HeapModel.batch (heap s) = [] ->
  something_registered (mst s) = false.
Proof.
  intros b s Jh A Z B. destruct (acc_zero b s Jh A Z) as (Z1 & Z2 & Z3 & Z4).
  pose proof (j_ag _ _ Jh) as AG. pose proof (j_fx _ _ Jh) as X.
  assert (RF : forall k, 0 <= k <= 32 -> registered (fdt s k) = false).
  { intros k K. apply (cnt33_zero (regf s)); [rewrite <- (ac_nf _ A); exact Z1|exact K]. }
  unfold something_registered.
  rewrite (any_obj_false (a_fd (mst s))), (any_obj_false (a_tm (mst s))), (any_obj_false (a_tk (mst s))),
          (any_obj_false (a_ev (mst s))), (any_obj_false (a_rw (mst s))); [reflexivity| | | | |].
  - intros i I. rewrite (ag_rw _ _ AG i I). destruct (rw_reg s i) eqn:E; [|reflexivity].
    pose proof (ac_raw _ A i ltac:(unfold inr16 in I; lia) E) as H. rewrite RF in H; [discriminate H|unfold inr16 in I; lia].
  - intros i I. rewrite (ag_ev _ _ AG i I). apply cnt_zero; [rewrite <- (fx_cnt _ X); exact Z4|exact I].
  - intros i I. rewrite (ag_tk _ _ AG i I). destruct (task_registered s i) eqn:E; [|reflexivity].
    apply task_registered_In in E. unfold ntask in Z3. destruct (tasks s ++ curl s); [destruct E|cbn [length] in Z3; lia].
  - intros i I. rewrite (ag_tm _ _ AG i I). apply no_timer; [apply (j_si _ _ Jh)|exact Z2|exact B].
  - intros i I. rewrite (ag_fd _ _ AG i I). apply RF. unfold inr16 in I. lia.
Qed.

(* ---------- after tear-down ---------- *)
Lemma cnt_all_false : forall f, (forall i, inr16 i -> f i = false) -> cnt f = 0.
Proof.
  intros f H. unfold cnt. rewrite filter_none; [reflexivity|].
  intros x I. apply In_zseq in I. apply H. unfold inr16. lia.
Qed.

Lemma torn_down : forall b s, J b s -> Acc s -> (forall i, inr16 i -> Off s i) ->
  numobjs s = 0 \/ (numobjs s = 1 /\ posted_ever (mst s) = true).
Proof.
  intros b s Jh A O. pose proof (j_fx _ _ Jh) as X. pose proof (j_si _ _ Jh) as SIh.
  assert (EC : ev_count s = 0).
  { rewrite (fx_cnt _ X). apply cnt_all_false. intros i I. apply (O i I). }
  assert (NF : numfds s = 0).
  { rewrite (ac_nf _ A). apply cnt33_all_false. intros k K. unfold regf.
    destruct (registered (fdt s k)) eqn:E; [|reflexivity]. exfalso.
    destruct (Z_lt_le_dec k 16) as [L|G].
    - destruct (O k ltac:(unfold inr16; lia)) as (O1 & _). congruence.
    - pose proof (fx_raw _ X (k - 16) ltac:(lia)) as H. replace (16 + (k - 16)) with k in H by lia. specialize (H E).
      destruct (Z.eq_dec k 32) as [->|N].
      + destruct (fx_kick _ X H) as [_ H2]. contradiction.
      + destruct (O (k - 16) ltac:(unfold inr16; lia)) as (_ & _ & _ & _ & O5). congruence. }
  assert (HN : hnum s = 0) by (apply hnum_zero; [exact SIh|intros j I; apply (O j I)]).
  assert (KK : kick s = 0) by (unfold kick; rewrite EC; reflexivity).
  pose proof (ac_no _ A) as N. rewrite NF, HN, EC, KK in N.
  assert (TL : forall k, In k (tasks s ++ curl s) -> k = 16).
  { intros k H. pose proof (si_tk _ SIh k H) as R.
    destruct (Z.eq_dec k 16) as [E|NE]; [exact E|exfalso].
    destruct (O k ltac:(unfold inr16; lia)) as (_ & _ & O3 & _).
    apply task_registered_In in H. congruence. }
  pose proof (si_tknd _ SIh) as ND. unfold ntask in N.
  destruct (tasks s ++ curl s) as [|a [|a' l]] eqn:E.
  - left. cbn [length] in N. lia.
  - right. cbn [length] in N. split; [lia|]. apply (ac_pe _ A). apply task_registered_In. rewrite E.
    left. apply TL. left. reflexivity.
  - exfalso. pose proof (TL a (or_introl eq_refl)). pose proof (TL a' (or_intror (or_introl eq_refl))). subst.
    inversion ND as [|? ? NI _]. apply NI. left. reflexivity.
Qed.

(* ---------- the events that decide the three codes ---------- *)
Definition S3 : list Z := [701; 702; 706].

Lemma lp_quiet : forall e, lp e -> quiet_for S3 e.
Proof.
  intros e L c Hc Hs. destruct e; cbn [lp] in L; try contradiction; try destruct n;
    cbn [ev_codes In S3] in *; intuition (subst; discriminate).
Qed.

Lemma ca_quiet : forall e, ca e -> quiet_for S3 e.
Proof. intros e C. apply lp_quiet. apply ca_lp. exact C. Qed.

Lemma chk_true : forall m b c, b = true -> chk m b c = m.
Proof. intros m b c ->. reflexivity. Qed.

Lemma something_close : forall m, something_registered (close_iteration m) = something_registered m.
Proof.
  intros m. destruct (mview_fields _ _ (mview_close m)) as (Q1 & _ & _ & Q4 & _ & Q6 & Q7 & _ & Q9 & _).
  unfold something_registered. rewrite Q1, Q4, Q6, Q7, Q9. reflexivity.
Qed.

Lemma clean_TEnd : forall m q n, Clean S3 m ->
  (q =? 1) || negb (something_registered m) = true -> (q =? 1) || (n =? 0) = true ->
  Clean S3 (mon_step m (TEnd q n)).
Proof.
  intros m q n C H1 H2. unfold mon_step. cbv zeta.
  rewrite (chk_true (close_iteration m) _ 701) by (rewrite something_close; exact H1).
  rewrite (chk_true (close_iteration m) _ 702) by exact H2.
  intros c Hc. cbn [fails m_loop] in Hc.
  assert (SB : Sub (chk (close_iteration m) (eqb (q =? 1) (a_quit (close_iteration m))) 703) m [204; 707; 711; 703]).
  { apply Sub_chk_t; [cbn; tauto|]. apply Sub_close; cbn; tauto. }
  destruct (SB c Hc) as [H|H]; [apply C; exact H|].
  intros Hs. cbn [In S3] in *. intuition (subst; discriminate).
Qed.

Lemma clean_TTear : forall m n, Clean S3 m -> (n =? 0) || ((n =? 1) && posted_ever m) = true ->
  Clean S3 (mon_step m (TTear n)).
Proof. intros m n C H. unfold mon_step. rewrite chk_true by exact H. exact C. Qed.

(* ---------- whole runs ---------- *)
Section Main.
Variable sc : scenario.
Hypothesis WF : wf_scenario sc.

Lemma core0_Acc : Acc (core0 sc) /\ HeapModel.batch (heap (core0 sc)) = [] /\ Clean S3 (mst (core0 sc)).
Proof.
  unfold core0.
  destruct (if (sc_backend sc =? M_ET) || (sc_backend sc =? M_EP) then _ else _) as [efd k].
  split; [|split; [reflexivity|intros c []]].
  constructor; cbn [numfds numobjs fdt heap ev_count use_raw rw_reg].
  - symmetry. apply cnt33_all_false. intros i _. reflexivity.
  - reflexivity.
  - intros j _ H. discriminate H.
  - intros H. discriminate H.
  - intros H. discriminate H.
Qed.

Theorem core_clean_acct : Clean S3 (mon_run (run_scenario sc)).
Proof.
  unfold run_scenario.
  match goal with |- Clean S3 (mon_run (rev (trace (res_state ?r)))) => change (Clean S3 (mst (res_state r))) end.
  destruct core0_Acc as (A0 & B0 & C0).
  pose proof (run_acts_PJA false (sc_setup sc) (core0 sc) (core0_J sc) A0 (wf_setup sc WF)) as P0.
  pose proof (run_acts_ext (sc_setup sc) (core0 sc)) as T0.
  destruct (run_acts (core0 sc) (sc_setup sc)) as [s1|s1]; cbn [bind PJA res_state] in *;
    [|apply (Clean_ext S3 ca _ _ ca_quiet T0 C0)].
  destruct P0 as (J1 & A1 & F1 & B1).
  pose proof (Clean_ext S3 ca _ _ ca_quiet T0 C0) as C1.
  (* iv_main is entered *)
  set (s2 := set_quit (emit s1 TMain) false).
  pose proof (J_main_enter s1 J1) as J2. fold s2 in J2.
  assert (M2 : mst s2 = mon_step (mst s1) TMain) by (change (mst s2) with (mst (emit s1 TMain)); apply mst_emit).
  assert (C2 : Clean S3 (mst s2)).
  { rewrite M2. apply Clean_step; [|exact C1]. intros c []. }
  assert (A2 : Acc s2).
  { apply (Acc_plain (fun _ => True) s1 s2 A1); try reflexivity.
    exists [TMain]. split; [reflexivity|constructor; [exact Logic.I|constructor]]. }
  assert (ML2 : ML s2).
  { constructor; [exact J2|exact A2| |].
    - change (cur s1 = None). apply (proj2 F1). apply core0_cur.
    - change (HeapModel.batch (heap s1) = []). apply B1. exact B0. }
  pose proof (main_loop_ML sc WF (Z.to_nat (sc_limit sc) + 2) s2 true ML2) as P3.
  pose proof (main_loop_ext sc (Z.to_nat (sc_limit sc) + 2) s2 true) as T3.
  destruct (main_loop sc (Z.to_nat (sc_limit sc) + 2) s2 true) as [s3|s3]; cbn [bind res_state] in *;
    [|apply (Clean_ext S3 lp _ _ lp_quiet T3 C2)].
  destruct P3 as [[J3 A3 CU3 B3] EX3].
  pose proof (Clean_ext S3 lp _ _ lp_quiet T3 C2) as C3.
  (* iv_main returns *)
  set (s4 := emit s3 (TEnd (if quit s3 then 1 else 0) (numobjs s3))).
  pose proof (J_main_leave s3 J3) as J4. fold s4 in J4.
  assert (C4 : Clean S3 (mst s4)).
  { unfold s4. rewrite mst_emit. apply clean_TEnd; [exact C3| |].
    - destruct (quit s3) eqn:Q; [reflexivity|]. cbn [orb] in EX3. apply Z.eqb_eq in EX3.
      rewrite (nothing_registered true s3 J3 A3 EX3 B3). reflexivity.
    - destruct (quit s3); [reflexivity|]. cbn [orb] in EX3. cbn. exact EX3. }
  assert (A4 : Acc s4).
  { apply (Acc_plain (fun _ => True) s3 s4 A3); try reflexivity. apply TrExt_emit. exact Logic.I. }
  (* tear-down *)
  pose proof (teardown_all_off false s4 J4 A4) as P5.
  pose proof (teardown_ext (zseq 0 16) s4) as T5.
  destruct (teardown s4 (zseq 0 16)) as [s5|s5]; cbn [bind res_state] in *;
    [|apply (Clean_ext S3 ca _ _ ca_quiet T5 C4)].
  destruct P5 as (J5 & A5 & _ & O5).
  pose proof (Clean_ext S3 ca _ _ ca_quiet T5 C4) as C5.
  rewrite mst_emit. apply Clean_step; [intros c Hc Hs; cbn [ev_codes In S3] in *; intuition (subst; discriminate)|].
  apply (Clean_ext S3 ca (emit s5 (TTear (numobjs s5)))); [exact ca_quiet|apply deinit_ext|].
  rewrite mst_emit. apply clean_TTear; [exact C5|].
  destruct (torn_down false s5 J5 A5 O5) as [Z|[Z PE]]; rewrite Z; [reflexivity|]. rewrite PE. reflexivity.
Qed.

End Main.

(* ---------- exported statements ---------- *)
Theorem core_code_701 : forall sc, wf_scenario sc -> ~ In 701 (mon_fails (run_scenario sc)).
Proof. intros sc WF H. apply (core_clean_acct sc WF 701 H). cbn. tauto. Qed.

Theorem core_code_702 : forall sc, wf_scenario sc -> ~ In 702 (mon_fails (run_scenario sc)).
Proof. intros sc WF H. apply (core_clean_acct sc WF 702 H). cbn. tauto. Qed.

Theorem core_code_706 : forall sc, wf_scenario sc -> ~ In 706 (mon_fails (run_scenario sc)).
Proof. intros sc WF H. apply (core_clean_acct sc WF 706 H). cbn. tauto. Qed.

Print Assumptions core_code_701.
Print Assumptions core_code_702.
Print Assumptions core_code_706.
