(* CorePhase2FdLoop.v -- second pass over the loop skeleton of the model (handler
   scripts, events, timers, tasks, the dispatch loop) carrying Y (Rel + kernel
   facts + absence of the codes so far) and the dispatch invariant M. *)
From Coq Require Import List ZArith Bool Lia.
From Ivv Require Import Core.Kernel Core.CoreTypes Core.CoreFd Core.CoreModel Core.Monitors Core.GuardMon Core.CoreSpec
  Core.CoreInvBase Core.CorePhase2FdBase Core.CorePhase2FdMon Core.CorePhase2FdStep.
From Ivv Require Import Core.CoreRel Core.CorePhase2FdInv.
From Ivv Require Timer.HeapModel Timer.HeapBase Timer.HeapFacts.
Import ListNotations.
Local Open Scope Z_scope.

Section Loop2.
Variable sc : scenario.
Hypothesis WF : wf_scenario sc.

Notation Y := (Y sc).
Notation PostY := (PostY sc).
Notation G2 := (G2 sc).

Lemma Y_step : forall b s s', Y b s -> J b s' -> kern s' = kern s -> fdt s' = fdt s -> trace s' = trace s -> Y b s'.
Proof.
  intros b s s' [_ K U G] Jh EK EF ET. constructor; [exact Jh|rewrite EK; exact K| |exact (G2_trace sc s s' ET G)].
  intros i R. rewrite EF. apply U. exact R.
Qed.

Lemma Y_emit_sil : forall b s e, Y b s -> J b (emit s e) -> sil e -> Y b (emit s e).
Proof.
  intros b s e [_ K U G] Jh S. constructor; [exact Jh|exact K|exact U|apply G2_sil; assumption].
Qed.

Lemma G2_halt : forall s e, G2 s -> sil e -> G2 (emit s e).
Proof. intros. apply G2_sil; assumption. Qed.

(* ---------- handler scripts ---------- *)
Lemma run_script_Y : forall b s key, Y b s -> PostY b s (run_script sc s key).
Proof.
  intros b s key H. unfold run_script.
  pose proof (wf_handlers sc WF key) as WH.
  destruct (sc_handlers sc key) as [|l0 ls] eqn:EH; [apply PostY_same; assumption|].
  set (lists := l0 :: ls) in *.
  set (k := if invoc s key <? Z.of_nat (length lists) then invoc s key else Z.of_nat (length lists) - 1).
  set (s1 := set_invoc s _).
  assert (J1 : J b s1) by (apply (J_irr b s s1 (y_j _ _ _ H)); reflexivity).
  assert (Y1 : Y b s1) by (apply (Y_step b s s1 H J1); reflexivity).
  eapply PostY_base; [apply (MF_same s s1); reflexivity|apply (Fr_plain s s1); reflexivity|].
  apply run_acts_Y; [assumption|].
  destruct (nth_in_or_default (Z.to_nat k) lists []) as [HI|HI].
  - rewrite Forall_forall in WH. apply WH. assumption.
  - rewrite HI. constructor.
Qed.

(* ---------- events ---------- *)
Lemma events_loop_Y : forall fuel s, Y true s -> PostY true s (events_loop sc fuel s).
Proof.
  induction fuel as [|fuel IH]; intros s H; cbn [events_loop].
  - destruct (ev_batch s) as [|ie rest]; [apply PostY_same; assumption|].
    cbn [PostY halt]. apply G2_halt; [apply H|exact I].
  - destruct (ev_batch s) as [|ie rest] eqn:B; [apply PostY_same; assumption|].
    pose proof (J_call_event s ie rest (y_j _ _ _ H) B) as J1.
    set (s0 := set_evlists s (ev_pending s) rest) in *.
    assert (Y0 : Y true (emit s0 (TCallEvent ie))).
    { destruct H as [_ K U G]. constructor; [exact J1|exact K|exact U|].
      apply G2_sil; [exact I|]. apply (G2_trace sc s s0); [reflexivity|exact G]. }
    eapply PostY_base; [eapply MF_trans; [apply (MF_same s s0); reflexivity|apply (MF_emit_sil s0 (TCallEvent ie)); exact I]
                       |apply (Fr_plain s (emit s0 (TCallEvent ie))); reflexivity|].
    eapply PostY_bind; [apply run_script_Y; exact Y0|].
    intros s2 Y2 _ _. destruct rest; [apply PostY_same; assumption|apply IH; assumption].
Qed.

Lemma run_pending_events_Y : forall s, Y true s -> PostY true s (run_pending_events sc s).
Proof.
  intros s H. pose proof (y_j _ _ _ H) as Jh. unfold run_pending_events.
  destruct (ev_pending s) as [|p0 pl] eqn:P; [apply PostY_same; assumption|].
  set (p := p0 :: pl) in *. set (s1 := set_evlists s [] p).
  destruct (J_SiEv _ _ Jh) as [S1 S2]. pose proof (J_AgEv _ _ Jh) as GE.
  assert (SUB : forall y, In y ([] ++ p) -> In y (ev_pending s ++ ev_batch s)).
  { intros y HI. cbn [app] in HI. rewrite P. apply in_or_app. left. exact HI. }
  assert (J1 : J true s1).
  { apply (J_upd true s s1 Jh); try reflexivity; try (apply (j_good _ _ Jh));
      try (solve [left; repeat split; first [reflexivity | intros; apply fkeep_refl]]).
    - right. intros y Yy. destruct (GE y Yy) as [G1 G2']. split; [exact G1|].
      intros HI. apply G2'. apply ev_on_list_In. apply SUB. apply ev_on_list_In in HI. exact HI.
    - right. split; cbn [s1 ev_pending ev_batch set_evlists ev_reg].
      + intros y HI. apply S1. apply SUB. exact HI.
      + cbn [app]. rewrite P in S2. apply NoDup_app_iff in S2. apply S2.
    - apply (FdI_keep s s1 (-1) (j_fd _ _ Jh)); reflexivity.
    - apply (FdX_keep s s1 (j_fx _ _ Jh)); try reflexivity; intros; repeat split. }
  assert (Y1 : Y true s1) by (apply (Y_step true s s1 H J1); reflexivity).
  eapply PostY_base; [apply (MF_same s s1); reflexivity|apply (Fr_plain s s1); reflexivity|].
  apply events_loop_Y. exact Y1.
Qed.

(* ---------- raw events ---------- *)
Lemma raw_got_event_Y : forall s j, Y true s -> (j = KICK_RAW \/ (inr16 j /\ rw_reg s j = true)) ->
  PostY true s (raw_got_event sc s j).
Proof.
  intros s j H JR. pose proof (y_j _ _ _ H) as Jh. unfold raw_got_event.
  pose proof (ksame_read (kern s) (rw_rfd s j) (if raw_is_pipe s j then 1024 else 8)) as KS.
  pose proof (KX_read (kern s) (rw_rfd s j) (if raw_is_pipe s j then 1024 else 8) (y_kx _ _ _ H)) as KR.
  destruct (k_read (kern s) (rw_rfd s j) (if raw_is_pipe s j then 1024 else 8)) as [k1 [n|e]]; cbn [fst] in KS, KR.
  - destruct (n =? 0).
    + cbn [PostY halt]. apply G2_halt; [|exact I]. apply (G2_trace sc s); [reflexivity|apply H].
    + pose proof (J_set_kern_plain true s k1 Jh KS) as J1.
      set (s1 := set_kern s k1) in *.
      assert (Y1 : Y true s1).
      { destruct H as [_ K U G]. constructor; [exact J1|exact KR|exact U|apply (G2_trace sc s); [reflexivity|exact G]]. }
      eapply PostY_base; [apply (MF_same s s1); reflexivity|apply (Fr_plain s s1); reflexivity|].
      destruct (Z.eqb_spec j KICK_RAW) as [EK|NK]; [apply run_pending_events_Y; exact Y1|].
      destruct JR as [JR|[JR1 JR2]]; [contradiction|].
      assert (J2 : J true (emit s1 (TCallRaw j))).
      { apply J_event_same; [exact J1|apply mview_TCallRaw|].
        apply good_TCallRaw; [apply (j_good _ _ J1)|apply (j_main _ _ J1)|].
        rewrite (J_AgRw _ _ J1 j JR1). exact JR2. }
      eapply PostY_base; [apply (MF_emit_sil s1 (TCallRaw j)); exact I|apply (Fr_plain s1 (emit s1 (TCallRaw j))); reflexivity|].
      apply run_script_Y. apply Y_emit_sil; [exact Y1|exact J2|exact I].
  - assert (GH : forall ev, sil ev -> G2 (emit (set_kern s k1) ev)).
    { intros ev S. apply G2_halt; [|exact S]. apply (G2_trace sc s); [reflexivity|apply H]. }
    destruct e; try (cbn [PostY halt]; apply GH; exact I).
    cbn [PostY]. split; [|split; [apply MF_same; reflexivity|apply Fr_plain; reflexivity]].
    destruct H as [_ K U G]. constructor; [apply J_set_kern_plain; assumption|exact KR|exact U|].
    apply (G2_trace sc s); [reflexivity|exact G].
Qed.

(* ---------- the dispatch invariant around a descriptor callback ---------- *)
Lemma mem_pair_false : forall p l, ~ In p l -> mem_pair p l = false.
Proof.
  intros p l N. unfold mem_pair. destruct (existsb (pair_eqb p) l) eqn:E; [|reflexivity].
  exfalso. apply N. apply existsb_exists in E. destruct E as (q & I0 & Q).
  unfold pair_eqb in Q. apply andb_true_iff in Q. destruct Q as [Q1 Q2]. apply Z.eqb_eq in Q1, Q2.
  destruct p, q. cbn [fst snd] in *. subst. exact I0.
Qed.

Lemma In_remove_pair : forall p q l, In q (remove_pair p l) <-> In q l /\ q <> p.
Proof.
  intros p q l. unfold remove_pair. rewrite filter_In. split; intros [A B]; (split; [exact A|]).
  - intros ->. unfold pair_eqb in B. rewrite !Z.eqb_refl in B. cbn in B. discriminate B.
  - destruct (pair_eqb p q) eqn:E; [|reflexivity]. exfalso. apply B.
    unfold pair_eqb in E. apply andb_true_iff in E. destruct E as [E1 E2]. apply Z.eqb_eq in E1, E2.
    destruct p, q. cbn [fst snd] in *. subst. reflexivity.
Qed.

Lemma M_shrink : forall k band todo s, M (k, band :: todo) s ->
  (In (k, band) (expect (mst s)) -> In k (active s) \/ In band todo) -> M (k, todo) s.
Proof.
  intros k band todo s [M1 M2 M3 M4] H.
  assert (SL : forall i b, slot (k, todo) s i b -> slot (k, band :: todo) s i b).
  { intros i b [A|(A & B & C)]; [left; exact A|right; cbn [fst snd] in *; split; [exact A|split; [exact B|right; exact C]]]. }
  constructor; auto.
  - intros i b HI S. exact (M3 i b HI (SL i b S)).
  - intros i b HI. destruct (M4 i b HI) as (R & BB & G & HN & RD & S). splits; try assumption; try lia.
    destruct S as [S|(S1 & S2 & S3)]; [left; exact S|]. cbn [fst snd] in *. subst i.
    destruct S3 as [<-|S3]; [|right; auto]. destruct (H HI) as [Q|Q]; [left; exact Q|right; auto].
Qed.

Lemma M_nil : forall k k' s, M (k, []) s -> M (k', []) s.
Proof.
  intros k k' s [M1 M2 M3 M4].
  assert (SL : forall x i b, slot (x, []) s i b <-> In i (active s)).
  { intros x i b. unfold slot. cbn [fst snd In]. tauto. }
  constructor; auto.
  - intros i b S. apply M2. apply SL. apply SL in S. exact S.
  - intros i b HI S. apply (M3 i b HI). apply SL. apply SL in S. exact S.
  - intros i b HI. destruct (M4 i b HI) as (R & BB & G & HN & RD & S). splits; try assumption; try lia.
    apply SL. apply SL in S. exact S.
Qed.

Lemma M_pop : forall k0 s k rest, M (k0, []) s -> active s = k :: rest ->
  M (k, [2; 0; 1]) (set_handled (set_active s rest) (Some k)).
Proof.
  intros k0 s k rest [M1 M2 M3 M4] A. set (s1 := set_handled _ _).
  assert (E : mst s1 = mst s) by reflexivity.
  rewrite A in M1. inversion M1 as [|? ? NI ND]; subst.
  assert (SL : forall i b, slot (k, [2; 0; 1]) s1 i b -> slot (k0, []) s i b).
  { intros i b [S|(S1 & _)]; left; rewrite A; [right; exact S|left; cbn [fst] in S1; auto]. }
  constructor; rewrite ?E.
  - exact ND.
  - intros i b S. apply M2. apply SL. exact S.
  - intros i b HI S. exact (M3 i b HI (SL i b S)).
  - intros i b HI. destruct (M4 i b HI) as (R & BB & G & HN & RD & S). splits; try assumption; try lia.
    destruct S as [S|(_ & _ & [])]. rewrite A in S. destruct S as [<-|S]; [|left; exact S].
    right. cbn [fst snd]. split; [reflexivity|]. split; [reflexivity|]. cbn [In]. lia.
Qed.

Lemma M_call : forall k band todo s hid ck, M (k, band :: todo) s -> handled s = Some k ->
  ~ In k (active s) -> ~ In band todo -> 0 <= k < 16 -> has (ready (fdt s k)) (bbit band) = true -> G2 s ->
  G2 (emit s (TCallFd k band hid ck)) /\ M (k, todo) (emit s (TCallFd k band hid ck)).
Proof.
  intros k band todo s hid ck [M1 M2 M3 M4] HD NA NB K RD G.
  assert (SK : slot (k, band :: todo) s k band) by (right; cbn [fst snd]; split; [reflexivity|split; [exact HD|left; reflexivity]]).
  assert (TV : tv (mst (emit s (TCallFd k band hid ck))) =
               (w_gnd (mst s), (k, band) :: called (mst s), remove_pair (k, band) (expect (mst s))))
    by (rewrite mst_emit; apply tv_TCallFd).
  unfold tv in TV. injection TV as T1 T2 T3.
  split.
  - apply G2_emit; [exact G| |intros; discriminate].
    apply good2_TCallFd; [apply G|apply (M2 k band SK K RD)|].
    apply mem_pair_false. intros HI. exact (M3 k band HI SK).
  - assert (SL : forall i b, slot (k, todo) (emit s (TCallFd k band hid ck)) i b -> slot (k, band :: todo) s i b).
    { intros i b [A|(A & B & C)]; [left; exact A|right; cbn [fst snd] in *; split; [exact A|split; [exact B|right; exact C]]]. }
    constructor; rewrite ?T1, ?T2, ?T3.
    + exact M1.
    + intros i b S. apply M2. apply SL. exact S.
    + intros i b [HI|HI] S.
      * inversion HI; subst i b. destruct S as [S|(_ & _ & S)]; [exact (NA S)|exact (NB S)].
      * exact (M3 i b HI (SL i b S)).
    + intros i b HI. apply In_remove_pair in HI. destruct HI as [HI NE].
      destruct (M4 i b HI) as (R & BB & G0 & HN & RD0 & S). splits; try assumption; try lia.
      destruct S as [S|(S1 & S2 & S3)]; [left; exact S|]. cbn [fst snd] in *. subst i.
      destruct S3 as [<-|S3]; [exfalso; apply NE; reflexivity|right; auto].
Qed.

(* one band of the descriptor being dispatched *)
Definition StageOk (s : core) (k : Z) (todo : list Z) (r : res) : Prop :=
  match r with
  | R s' => Y true s' /\ M (k, todo) s' /\ (forall i, In i (active s') -> In i (active s)) /\ Fr s s'
  | Halt s' => G2 s'
  end.

Lemma call_fd_M : forall s k band todo, Y true s -> M (k, band :: todo) s -> handled s = Some k ->
  ~ In k (active s) -> ~ In band todo -> 0 <= k <= 32 -> (band = 0 \/ band = 1 \/ band = 2) ->
  has (ready (fdt s k)) (bbit band) = true ->
  StageOk s k todo (call_fd sc s k band (hnd (fdt s k) band)).
Proof.
  intros s k band todo H MM HD NA NB K B RD. pose proof (y_j _ _ _ H) as Jh.
  destruct (fi_handled s (-1) (j_fd _ _ Jh) k HD) as [_ RG]. specialize (RG ltac:(lia)).
  assert (HB : (band = 0 /\ hnd (fdt s k) band = h_in (fdt s k)) \/ (band = 1 /\ hnd (fdt s k) band = h_out (fdt s k)) \/
               (band = 2 /\ hnd (fdt s k) band = h_err (fdt s k))).
  { destruct B as [->|[->| ->]]; [left|right; left|right; right]; split; reflexivity. }
  pose proof (call_fd_post sc WF s k band (hnd (fdt s k) band) Jh K RG HB) as P.
  unfold call_fd in *. destruct (hnd (fdt s k) band) as [hid|] eqn:HH.
  - pose proof (j_fx _ _ Jh) as FX.
    destruct (Z_lt_le_dec k 16) as [KU|KR].
    + (* a user descriptor *)
      assert (I0 : inr16 k) by (unfold inr16; lia).
      destruct (fx_userh _ FX k I0) as (U1 & U2 & U3).
      assert (HR : 0 <= hid < 16).
      { destruct HB as [[_ E]|[[_ E]|[_ E]]]; symmetry in E; [apply U1|apply U2|apply U3]; exact E. }
      destruct (Z.leb_spec 1000 hid) as [L|L]; [lia|].
      set (e := TCallFd k band hid (cookie (getfd s k))) in *.
      destruct (M_call k band todo s hid (cookie (getfd s k)) MM HD NA NB ltac:(lia) RD (y_g _ _ _ H)) as [G1 M1].
      fold e in G1, M1.
      destruct (J_AgFd _ _ Jh k I0) as (A1 & A2 & A3 & A4 & A5).
      assert (J2 : J true (emit s e)).
      { apply J_event_same; [exact Jh|apply mview_TCallFd|].
        apply good_TCallFd; [apply (j_good _ _ Jh)|apply (j_main _ _ Jh)|congruence| |exact A5].
        destruct HB as [[-> E]|[[-> E]|[-> E]]]; congruence. }
      assert (Y2 : Y true (emit s e)) by (destruct H as [_ KX0 U G]; constructor; assumption).
      pose proof (run_script_Y true (emit s e) hid Y2) as Q.
      destruct (run_script sc (emit s e) hid) as [s'|s']; cbn [StageOk PostY Post] in *; [|exact Q].
      destruct Q as (Y' & MF' & F'). split; [exact Y'|]. split; [eapply M_MF; eassumption|].
      split; [intros i HI; apply (mf_act _ _ MF' i HI)|]. apply P.
    + (* the descriptor inside a raw event *)
      destruct (fx_rawh _ FX k ltac:(lia)) as (U1 & U2 & U3).
      assert (HR : hid = 1000 + (k - 16)).
      { destruct HB as [[_ E]|[[_ E]|[_ E]]]; symmetry in E; [apply U1|apply U2|apply U3]; exact E. }
      destruct (Z.leb_spec 1000 hid) as [L|L]; [|lia].
      assert (JR : hid - 1000 = KICK_RAW \/ inr16 (hid - 1000) /\ rw_reg s (hid - 1000) = true).
      { replace (hid - 1000) with (k - 16) by lia.
        destruct (Z.eq_dec (k - 16) KICK_RAW) as [E|N]; [left; exact E|right].
        unfold KICK_RAW in N. split; [unfold inr16; lia|].
        apply (fx_raw _ FX (k - 16)); [lia|]. replace (16 + (k - 16)) with k by lia. exact RG. }
      pose proof (raw_got_event_Y s (hid - 1000) H JR) as Q.
      destruct (raw_got_event sc s (hid - 1000)) as [s'|s']; cbn [StageOk PostY Post] in *; [|exact Q].
      destruct Q as (Y' & MF' & F'). split; [exact Y'|]. split.
      * apply (M_shrink k band todo); [eapply M_MF; eassumption|].
        intros HI. destruct (m_e _ _ (M_MF _ _ _ MM MF') k band HI) as (R0 & _). lia.
      * split; [intros i HI; apply (mf_act _ _ MF' i HI)|exact F'].
  - cbn [StageOk]. split; [exact H|]. split; [|split; [auto|apply Fr_refl]].
    apply (M_shrink k band todo); [exact MM|]. intros HI.
    destruct (m_e _ _ MM k band HI) as (_ & _ & _ & HN & _). congruence.
Qed.

Lemma stage_Y : forall s k band todo, Y true s -> M (k, band :: todo) s ->
  (handled s = Some k \/ handled s = None) -> ~ In k (active s) -> ~ In band todo -> 0 <= k <= 32 ->
  (band = 0 \/ band = 1 \/ band = 2) ->
  StageOk s k todo (match handled s with
                    | Some _ => if has (ready (fdt s k)) (bbit band) then call_fd sc s k band (hnd (fdt s k) band) else R s
                    | None => R s
                    end).
Proof.
  intros s k band todo H MM HD NA NB K B.
  assert (SKIP : (In (k, band) (expect (mst s)) -> False) -> StageOk s k todo (R s)).
  { intros NE. cbn [StageOk]. split; [exact H|]. split; [|split; [auto|apply Fr_refl]].
    apply (M_shrink k band todo); [exact MM|]. intros HI. destruct (NE HI). }
  destruct (handled s) as [k'|] eqn:HS.
  - destruct HD as [HD|HD]; [|discriminate]. inversion HD; subst k'.
    destruct (has (ready (fdt s k)) (bbit band)) eqn:RD.
    + apply call_fd_M; assumption.
    + apply SKIP. intros HI. destruct (m_e _ _ MM k band HI) as (_ & _ & _ & _ & RD' & _). congruence.
  - apply SKIP. intros HI. destruct (m_e _ _ MM k band HI) as (_ & _ & _ & _ & _ & [S|(_ & S & _)]); [exact (NA S)|congruence].
Qed.

Lemma dispatch_active_Y : forall fuel s, Y true s -> M (0, []) s ->
  match dispatch_active sc fuel s with
  | R s' => Y true s' /\ M (0, []) s' /\ active s' = []
  | Halt s' => G2 s'
  end.
Proof.
  induction fuel as [|fuel IH]; intros s H MM; cbn [dispatch_active].
  - destruct (active s) as [|k rest] eqn:A; [auto|]. cbn [halt]. apply G2_halt; [apply H|exact I].
  - destruct (active s) as [|k rest] eqn:A; [auto|].
    destruct (J_pop_active s k rest (y_j _ _ _ H) A) as [J1 K].
    pose proof (M_pop 0 s k rest MM A) as M1.
    set (s1 := set_handled (set_active s rest) (Some k)) in *.
    assert (Y1 : Y true s1) by (apply (Y_step true s s1 H J1); reflexivity).
    assert (NA1 : ~ In k (active s1)).
    { cbn [s1 active set_handled set_active]. pose proof (m_nd _ _ MM) as ND. rewrite A in ND. inversion ND; assumption. }
    (* error band *)
    assert (PA : StageOk s1 k [0; 1] (if has (ready (getfd s1 k)) M_ERR then call_fd sc s1 k 2 (h_err (getfd s1 k)) else R s1)).
    { exact (stage_Y s1 k 2 [0; 1] Y1 M1 (or_introl eq_refl) NA1 ltac:(cbn; lia) K ltac:(auto)). }
    destruct (if has (ready (getfd s1 k)) M_ERR then call_fd sc s1 k 2 (h_err (getfd s1 k)) else R s1) as [s2|s2];
      cbn [bind StageOk] in *; [|exact PA].
    destruct PA as (Y2 & M2 & A2 & F2).
    assert (NA2 : ~ In k (active s2)) by (intro Q; apply NA1; apply A2; exact Q).
    (* input band *)
    assert (PB : StageOk s2 k [1] (match handled s2 with
       | Some _ => if has (ready (getfd s2 k)) M_IN then call_fd sc s2 k 0 (h_in (getfd s2 k)) else R s2
       | None => R s2 end)).
    { exact (stage_Y s2 k 0 [1] Y2 M2 (proj1 F2) NA2 ltac:(cbn; lia) K ltac:(auto)). }
    destruct (match handled s2 with
       | Some _ => if has (ready (getfd s2 k)) M_IN then call_fd sc s2 k 0 (h_in (getfd s2 k)) else R s2
       | None => R s2 end) as [s3|s3]; cbn [bind StageOk] in *; [|exact PB].
    destruct PB as (Y3 & M3 & A3 & F3).
    assert (NA3 : ~ In k (active s3)) by (intro Q; apply NA2; apply A3; exact Q).
    pose proof (Fr_trans _ _ _ F2 F3) as F13.
    (* output band *)
    assert (PC : StageOk s3 k [] (match handled s3 with
       | Some _ => if has (ready (getfd s3 k)) M_OUT then call_fd sc s3 k 1 (h_out (getfd s3 k)) else R s3
       | None => R s3 end)).
    { exact (stage_Y s3 k 1 [] Y3 M3 (proj1 F13) NA3 ltac:(cbn; tauto) K ltac:(auto)). }
    destruct (match handled s3 with
       | Some _ => if has (ready (getfd s3 k)) M_OUT then call_fd sc s3 k 1 (h_out (getfd s3 k)) else R s3
       | None => R s3 end) as [s4|s4]; cbn [bind StageOk] in *; [|exact PC].
    destruct PC as (Y4 & M4 & A4 & F4).
    apply IH; [exact Y4|]. apply (M_nil k 0). exact M4.
Qed.

(* ---------- iv_run_timers ---------- *)
Lemma validate_fields : forall s, fdt (validate_now s) = fdt s /\ active (validate_now s) = active s /\
  handled (validate_now s) = handled s /\ kern (validate_now s) = kern s /\ trace (validate_now s) = trace s.
Proof. intros s. unfold validate_now. destruct (time_valid s); repeat split; reflexivity. Qed.

Lemma timers_dispatch_Y : forall fuel s, Y true s -> PostY true s (timers_dispatch sc fuel s).
Proof.
  induction fuel as [|fuel IH]; intros s H; cbn [timers_dispatch].
  - destruct (HeapModel.batch (heap s)) as [|t rest]; [apply PostY_same; assumption|].
    cbn [PostY halt]. apply G2_halt; [apply H|exact I].
  - destruct (HeapModel.batch (heap s)) as [|t rest] eqn:B; [apply PostY_same; assumption|].
    pose proof (J_call_timer s t rest (y_j _ _ _ H) B) as J1. cbv zeta in J1.
    set (s0 := set_heap s (HeapModel.set_idx (HeapModel.set_batch (heap s) rest) t (-1))) in *.
    set (s1 := validate_now s0) in *.
    destruct (validate_fields s0) as (V1 & V2 & V3 & V4 & V5). fold s1 in V1, V2, V3, V4, V5.
    set (e := TCallTimer (Z.pos t - 1) (time s1)) in *.
    assert (Y1 : Y true (emit s1 e)).
    { destruct H as [_ K U G]. constructor; [exact J1|cbn [kern emit set_trace]; rewrite V4; exact K| |].
      - intros i R. cbn [fdt emit set_trace]. rewrite V1. apply U. exact R.
      - apply G2_sil; [exact I|]. apply (G2_trace sc s); [rewrite V5; reflexivity|exact G]. }
    assert (F1 : Fr s (emit s1 e)).
    { unfold s1, validate_now. cbn [time_valid set_heap s0]. destruct (time_valid s); apply Fr_plain; reflexivity. }
    eapply PostY_base; [eapply MF_trans; [apply (MF_same s s1); [rewrite V5|rewrite V1|rewrite V2|rewrite V3]; reflexivity
                                         |apply (MF_emit_sil s1 e); exact I]|exact F1|].
    eapply PostY_bind; [apply run_script_Y; exact Y1|].
    intros s2 Y2 _ _. apply IH. exact Y2.
Qed.

Lemma run_timers_Y : forall s, Y true s -> PostY true s (run_timers sc s).
Proof.
  intros s H. pose proof (y_j _ _ _ H) as Jh. unfold run_timers.
  destruct (HeapModel.num (heap s) =? 0); [apply PostY_same; assumption|].
  destruct (J_validate true s Jh) as (J1 & F1 & M1 & _).
  destruct (validate_fields s) as (V1 & V2 & V3 & V4 & V5).
  set (s1 := validate_now s) in *.
  assert (Y1 : Y true s1) by (apply (Y_step true s s1 H J1); assumption).
  eapply PostY_base; [apply (MF_same s s1); assumption|exact F1|].
  destruct (J_SiTm _ _ J1) as [HI HR]. pose proof (J_AgTm _ _ J1) as GT.
  destruct (heap_collect_spec (heap s1) (time s1) HI) as (h' & C & I' & T).
  rewrite C. unfold lift_heap. cbn [bind].
  set (s2 := set_numobjs (set_heap s1 h') _).
  assert (J2 : J true s2).
  { apply (J_upd true s1 s2 J1); try reflexivity; try (apply (j_good _ _ J1));
      try (solve [left; repeat split; first [reflexivity | intros; apply fkeep_refl]]).
    - right. intros y Yy. destruct (GT y Yy) as [G1 G2']. unfold timer_registered in *.
      cbn [s2 heap set_numobjs set_heap]. destruct (T (tmid y)) as [T1 T2].
      rewrite (treg_iff _ _ _ _ T1), T2. split; assumption.
    - right. split; cbn [s2 heap set_numobjs set_heap]; [exact I'|].
      intros t HT. apply HR. intros E. apply HT. apply (proj1 (T t)). exact E.
    - apply (FdI_keep s1 s2 (-1) (j_fd _ _ J1)); reflexivity.
    - apply (FdX_keep s1 s2 (j_fx _ _ J1)); try reflexivity; intros; repeat split. }
  assert (Y2 : Y true s2) by (apply (Y_step true s1 s2 Y1 J2); reflexivity).
  eapply PostY_base; [apply (MF_same s1 s2); reflexivity|apply (Fr_plain s1 s2); reflexivity|].
  apply timers_dispatch_Y. exact Y2.
Qed.

(* ---------- iv_run_tasks ---------- *)
Definition PostTY (s : core) (r : res) : Prop :=
  match r with R s' => Y true s' /\ MF s s' /\ cur s' = None | Halt s' => G2 s' end.

Lemma J_tasks_done : forall s, J true s -> cur s = Some [] -> J true (set_tasks s (tasks s) None).
Proof.
  intros s Jh C.
  apply (J_upd true s _ Jh); try reflexivity; try (apply (j_good _ _ Jh));
    try (solve [left; repeat split; first [reflexivity | intros; apply fkeep_refl]]).
  - right. intros y Yy. change (a_tk (mst s) y = task_registered (set_tasks s (tasks s) None) y).
    rewrite (J_AgTk _ _ Jh y Yy). unfold task_registered. cbn [tasks cur set_tasks]. rewrite C. reflexivity.
  - right. destruct (J_SiTk _ _ Jh) as [S1 S2]. unfold SiTk, curl in *. cbn [tasks cur set_tasks]. rewrite C in S1, S2. split; assumption.
  - apply (FdI_keep s _ (-1) (j_fd _ _ Jh)); reflexivity.
  - apply (FdX_keep s _ (j_fx _ _ Jh)); try reflexivity; intros; repeat split.
Qed.

Lemma tasks_loop_Y : forall fuel s, Y true s -> PostTY s (tasks_loop sc fuel s).
Proof.
  induction fuel as [|fuel IH]; intros s H; cbn [tasks_loop].
  - destruct (cur s) as [[|k rest]|] eqn:C.
    + cbn [PostTY]. split; [|split; [apply MF_same; reflexivity|reflexivity]].
      apply (Y_step true s _ H (J_tasks_done s (y_j _ _ _ H) C)); reflexivity.
    + cbn [PostTY halt]. apply G2_halt; [apply H|exact I].
    + cbn [PostTY]. split; [exact H|]. split; [apply MF_refl|exact C].
  - destruct (cur s) as [[|k rest]|] eqn:C.
    + cbn [PostTY]. split; [|split; [apply MF_same; reflexivity|reflexivity]].
      apply (Y_step true s _ H (J_tasks_done s (y_j _ _ _ H) C)); reflexivity.
    + destruct (J_pop_task s k rest (y_j _ _ _ H) C) as [JL JN]. cbv zeta in JL, JN.
      set (s3 := set_epoch _ _ _) in *.
      assert (M3 : MF s s3) by (apply MF_same; reflexivity).
      assert (K : forall s4 r, MF s s4 -> PostY true s4 r -> PostTY s (bind r (tasks_loop sc fuel))).
      { intros s4 r M4 P. destruct r as [s5|s5]; cbn [bind PostY] in *; [|exact P].
        destruct P as (Y5 & M5 & _). pose proof (IH s5 Y5) as Q.
        destruct (tasks_loop sc fuel s5) as [s6|s6]; cbn [PostTY] in *; [|exact Q].
        destruct Q as (Y6 & M6 & C6). split; [exact Y6|]. split; [|exact C6].
        eapply MF_trans; [exact M4|]. eapply MF_trans; eassumption. }
      destruct (Z.eqb_spec k LOCAL_TASK) as [EK|NK].
      * apply (K s3); [exact M3|]. apply run_pending_events_Y.
        apply (Y_step true s s3 H (JL EK)); reflexivity.
      * apply (K (emit s3 (TCallTask k))); [eapply MF_trans; [exact M3|apply MF_emit_sil; exact I]|].
        apply run_script_Y. destruct H as [_ KX0 U G]. constructor; [apply JN; exact NK|exact KX0|exact U|].
        apply G2_sil; [exact I|]. apply (G2_trace sc s); [reflexivity|exact G].
    + cbn [PostTY]. split; [exact H|]. split; [apply MF_refl|exact C].
Qed.

Lemma run_tasks_Y : forall s, Y true s -> cur s = None -> PostTY s (run_tasks sc s).
Proof.
  intros s H C. pose proof (y_j _ _ _ H) as Jh. unfold run_tasks.
  set (s1 := set_epoch (set_tasks s [] (Some (tasks s))) _ _).
  assert (J1 : J true s1).
  { apply (J_upd true s s1 Jh); try reflexivity; try (apply (j_good _ _ Jh));
      try (solve [left; repeat split; first [reflexivity | intros; apply fkeep_refl]]).
    - right. intros y Yy. change (a_tk (mst s) y = task_registered s1 y).
      rewrite (J_AgTk _ _ Jh y Yy). unfold task_registered. cbn [s1 tasks cur set_tasks set_epoch].
      rewrite C. cbn [mem_z existsb orb]. rewrite orb_false_r. reflexivity.
    - right. destruct (J_SiTk _ _ Jh) as [S1 S2]. unfold SiTk, curl in *. cbn [s1 tasks cur set_tasks set_epoch].
      rewrite C in S1, S2. rewrite app_nil_r in S1, S2. split; assumption.
    - apply (FdI_keep s s1 (-1) (j_fd _ _ Jh)); reflexivity.
    - apply (FdX_keep s s1 (j_fx _ _ Jh)); try reflexivity; intros; repeat split. }
  assert (Y1 : Y true s1) by (apply (Y_step true s s1 H J1); reflexivity).
  pose proof (tasks_loop_Y 64 s1 Y1) as P.
  destruct (tasks_loop sc 64 s1) as [s2|s2]; cbn [PostTY] in *; [|exact P].
  destruct P as (Y2 & M2 & C2). split; [exact Y2|]. split; [|exact C2].
  eapply MF_trans; [apply (MF_same s s1); reflexivity|exact M2].
Qed.

End Loop2.
