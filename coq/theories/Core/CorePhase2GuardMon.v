(* CorePhase2GuardMon.v -- the guard monitor (GuardMon.v) seen through interface lemmas:
   its state along a model trace, the effect of each event on the script bookkeeping
   (g_todo, g_inv, g_nwait, g_wloaded, g_closed) and on the codes 1101 / 1102. *)
From Coq Require Import List ZArith Bool Lia.
From Ivv Require Import Core.Kernel Core.CoreTypes Core.CoreFd Core.CoreModel Core.Monitors Core.GuardMon
  Core.CoreRelBase Core.CoreRelMon Core.CorePhase2FdBase Core.CorePhase2FdMon.
Import ListNotations.
Local Open Scope Z_scope.

Section G.
Variable sc : scenario.

Lemma gst_trace : forall s s', trace s' = trace s -> gst sc s' = gst sc s.
Proof. intros s s' H. unfold gst. rewrite H. reflexivity. Qed.

Definition GOK (g : gmon) : Prop := ~ In 1101 (g_fails g) /\ ~ In 1102 (g_fails g).

Lemma In_g_fail : forall g c x, In x (g_fails (g_fail g c)) -> In x (g_fails g) \/ x = c.
Proof.
  intros g c x H. unfold g_fail in H. cbn [g_fails] in H. destruct (mem_z c (g_fails g)); [left; exact H|].
  apply in_app_or in H. destruct H as [H|[H|[]]]; auto.
Qed.

Lemma GOK_fail : forall g c, GOK g -> c <> 1101 -> c <> 1102 -> GOK (g_fail g c).
Proof. intros g c [A B] N1 N2. split; intros H; apply In_g_fail in H; destruct H as [H|H]; auto. Qed.

Lemma GOK_eq : forall g g', g_fails g' = g_fails g -> GOK g -> GOK g'.
Proof. intros g g' E H. unfold GOK. rewrite E. exact H. Qed.

(* ---------- what the abstract state allows ---------- *)
Definition na (g : gmon) (a : action) : Prop := allowed g a = false.
Definition aeq (g g' : gmon) : Prop := forall a, allowed g' a = allowed g a.

Lemma allowed_ext : forall g g', a_fd (g_m g') = a_fd (g_m g) -> a_tm (g_m g') = a_tm (g_m g) -> a_tk (g_m g') = a_tk (g_m g) ->
  a_ev (g_m g') = a_ev (g_m g) -> a_rw (g_m g') = a_rw (g_m g) -> g_closed g' = g_closed g -> aeq g g'.
Proof. intros g g' A B C D E F a. destruct a; cbn [allowed]; rewrite ?A, ?B, ?C, ?D, ?E, ?F; reflexivity. Qed.

Lemma aeq_mview : forall g g', mview (g_m g') = mview (g_m g) -> g_closed g' = g_closed g -> aeq g g'.
Proof.
  intros g g' V C. destruct (mview_fields _ _ V) as (Q1 & _ & _ & Q4 & _ & Q6 & Q7 & _ & Q9 & _).
  apply allowed_ext; assumption.
Qed.

Lemma Forall_na_aeq : forall g g' l, aeq g g' -> Forall (na g) l -> Forall (na g') l.
Proof. intros g g' l A F. eapply Forall_impl; [|exact F]. intros a H. unfold na in *. rewrite A. exact H. Qed.

Lemma consume_ext : forall g g' l a, aeq g g' -> consume g' l a = consume g l a.
Proof. intros g g' l a A. induction l as [|x l IH]; cbn [consume]; [reflexivity|]. rewrite A, IH. reflexivity. Qed.

Lemma leftovers_na : forall g, Forall (na g) (g_todo g) -> leftovers g = false.
Proof.
  intros g F. unfold leftovers. destruct (existsb (allowed g) (g_todo g)) eqn:E; [|reflexivity].
  apply existsb_exists in E. destruct E as (a & I & A). rewrite Forall_forall in F. rewrite (F a I) in A. discriminate A.
Qed.

Lemma consume_none : forall g l a, Forall (na g) l -> consume g l a = None.
Proof.
  intros g l a F. induction F as [|x l H F IH]; cbn [consume]; [reflexivity|]. unfold na in H. rewrite H. exact IH.
Qed.

Lemma consume_hit : forall g p a l a', Forall (na g) p -> allowed g a = true -> same_action a a' = true ->
  consume g (p ++ a :: l) a' = Some l.
Proof.
  intros g p a l a' F A S. induction F as [|x p H F IH]; cbn [app consume].
  - rewrite A, S. reflexivity.
  - unfold na in H. rewrite H. exact IH.
Qed.

Lemma same_action_refl : forall a, (forall j d, a <> ATmRegRel j d) -> same_action a a = true.
Proof.
  intros a N. destruct a; cbn [same_action]; rewrite ?Z.eqb_refl; try reflexivity.
  - destruct h; cbn [opt_eqb andb]; rewrite ?Z.eqb_refl; reflexivity.
  - exfalso. eapply N. reflexivity.
Qed.

Lemma same_action_rel : forall j d e, same_action (ATmRegRel j d) (ATmRegAbs j e) = true.
Proof. intros. cbn [same_action]. apply Z.eqb_refl. Qed.

(* ---------- fields other than the tracker ---------- *)
Record GS (g g' : gmon) : Prop := {
  gs_todo : g_todo g' = g_todo g; gs_closed : g_closed g' = g_closed g; gs_inv : g_inv g' = g_inv g;
  gs_nwait : g_nwait g' = g_nwait g; gs_wl : g_wloaded g' = g_wloaded g; gs_fails : g_fails g' = g_fails g;
  gs_done : g_done g' = g_done g }.

Lemma GS_refl : forall g, GS g g. Proof. intros; constructor; reflexivity. Qed.
Lemma GS_trans : forall a b c, GS a b -> GS b c -> GS a c.
Proof. intros a b c [] []. constructor; congruence. Qed.

(* events that are only tracked *)
Definition plain_ev (e : tev) : Prop :=
  match e with TInit _ | TRet _ _ _ | TKTfd _ | TKClose _ | TRes _ _ _ | TDone _ => True | _ => False end.

Lemma gstep_plain : forall g e, g_done g = false -> plain_ev e -> GS g (gstep sc g e).
Proof.
  intros g e D P. unfold gstep. rewrite D. destruct e; try contradiction; try (constructor; reflexivity).
  destruct n; constructor; reflexivity.
Qed.

Definition halt_ev (e : tev) : Prop := match e with TLimit | THang | TFatal | TCrash => True | _ => False end.

Lemma gstep_halt : forall g e, halt_ev e -> g_fails (gstep sc g e) = g_fails g.
Proof. intros g e H. unfold gstep. destruct (g_done g); [reflexivity|]. destruct e; try contradiction; reflexivity. Qed.

Lemma gstep_halt_done : forall g e, halt_ev e -> g_done (gstep sc g e) = true.
Proof. intros g e H. unfold gstep. destruct (g_done g) eqn:D; [exact D|]. destruct e; try contradiction; reflexivity. Qed.

Lemma gstep_done_id : forall g e, g_done g = true -> gstep sc g e = g.
Proof. intros g e D. unfold gstep. rewrite D. reflexivity. Qed.

(* plain events other than TRes leave the abstract state alone *)
Lemma gstep_plain_aeq : forall g e, g_done g = false -> plain_ev e -> (forall k i c, e <> TRes k i c) -> aeq g (gstep sc g e).
Proof.
  intros g e D P NR.
  assert (F : a_fd (mon_step (g_m g) e) = a_fd (g_m g) /\ a_tm (mon_step (g_m g) e) = a_tm (g_m g) /\
              a_tk (mon_step (g_m g) e) = a_tk (g_m g) /\ a_ev (mon_step (g_m g) e) = a_ev (g_m g) /\
              a_rw (mon_step (g_m g) e) = a_rw (g_m g)).
  { destruct e; try contradiction; try (repeat split; reflexivity).
    - destruct n as [n|].
      + destruct (mview_fields _ _ (mview_TRet_some (g_m g) n fds clk)) as (Q1 & _ & _ & Q4 & _ & Q6 & Q7 & _ & Q9 & _).
        repeat split; assumption.
      + destruct (mview_fields _ _ (mview_TRet_none (g_m g) fds clk)) as (Q1 & _ & _ & Q4 & _ & Q6 & Q7 & _ & Q9 & _).
        repeat split; assumption.
    - exfalso. eapply NR. reflexivity.
    - destruct (mview_fields _ _ (mview_TDone (g_m g) openfds)) as (Q1 & _ & _ & Q4 & _ & Q6 & Q7 & _ & Q9 & _).
      repeat split; assumption. }
  destruct F as (F1 & F2 & F3 & F4 & F5).
  apply allowed_ext; rewrite ?(gstep_m sc g e D); try assumption. apply (gs_closed _ _ (gstep_plain g e D P)).
Qed.

(* ---------- a logged action ---------- *)
Definition closed_after (f : Z -> bool) (a : action) : Z -> bool :=
  match a with AKClose i => upd f i true | AKOpen i => upd f i false | _ => f end.

Lemma gstep_act_hit : forall g a rest, g_done g = false -> consume g (g_todo g) a = Some rest ->
  let g' := gstep sc g (TAct a) in
  g_todo g' = rest /\ g_closed g' = closed_after (g_closed g) a /\ g_inv g' = g_inv g /\ g_nwait g' = g_nwait g /\
  g_wloaded g' = g_wloaded g /\ g_fails g' = g_fails g /\ g_done g' = false.
Proof.
  intros g a rest D C. unfold gstep. rewrite D, C. cbv zeta. rewrite C.
  destruct a; cbn; repeat split; try reflexivity; exact D.
Qed.

Lemma gstep_act_load : forall g a rest, g_done g = false -> consume g (g_todo g) a = None ->
  a_main (g_m g) = true -> g_wloaded g = false -> leftovers g = false ->
  consume g (sc_wait sc (g_nwait g + 1)) a = Some rest ->
  let g' := gstep sc g (TAct a) in
  g_todo g' = rest /\ g_closed g' = closed_after (g_closed g) a /\ g_inv g' = g_inv g /\ g_nwait g' = g_nwait g /\
  g_wloaded g' = true /\ g_fails g' = g_fails g /\ g_done g' = false.
Proof.
  intros g a rest D C M W L CW. unfold gstep. rewrite D, C, M, W. cbn [andb negb]. cbv zeta.
  unfold boundary. rewrite L.
  set (g1 := g_set_wait (g_with g (g_m g) (sc_wait sc (g_nwait g + 1))) (g_nwait g) true).
  assert (A1 : aeq g g1) by (apply allowed_ext; reflexivity).
  assert (C1 : consume g1 (g_todo g1) a = Some rest) by (rewrite (consume_ext g g1 _ _ A1); exact CW).
  rewrite C1. destruct a; cbn; repeat split; try reflexivity; exact D.
Qed.

(* ---------- a callback starts ---------- *)
Definition script_at (inv : Z -> Z) (key : Z) : (Z -> Z) * list action :=
  match sc_handlers sc key with
  | [] => (inv, [])
  | lists =>
      let n := inv key in
      let len := Z.of_nat (length lists) in
      let k := if n <? len then n else len - 1 in
      (upd inv key (n + 1), nth (Z.to_nat k) lists [])
  end.

Definition call_key (e : tev) : option Z :=
  match e with
  | TCallFd _ _ hid _ => Some hid
  | TCallTimer j _ => Some (HK_T + j)
  | TCallTask j => Some (HK_K + j)
  | TCallEvent j => Some (HK_E + j)
  | TCallRaw j => Some (HK_R + j)
  | _ => None
  end.

Lemma gstep_call : forall g e key, g_done g = false -> call_key e = Some key -> leftovers g = false ->
  let g' := gstep sc g e in
  g_todo g' = snd (script_at (g_inv g) key) /\ g_inv g' = fst (script_at (g_inv g) key) /\
  g_closed g' = g_closed g /\ g_nwait g' = g_nwait g /\ g_wloaded g' = g_wloaded g /\ g_fails g' = g_fails g /\
  g_done g' = false.
Proof.
  intros g e key D K L. unfold gstep. rewrite D. unfold boundary. rewrite L.
  destruct e; try discriminate K; cbn [call_key] in K; inversion K; subst key;
    unfold script_of, script_at; cbn [g_inv g_set_idle track g_with];
    destruct (sc_handlers sc _); cbn; repeat split; try reflexivity; exact D.
Qed.

(* ---------- phase boundaries ---------- *)
Lemma gstep_main : forall g, g_done g = false -> leftovers g = false ->
  let g' := gstep sc g TMain in
  g_todo g' = [] /\ g_inv g' = g_inv g /\ g_closed g' = g_closed g /\ g_nwait g' = g_nwait g /\
  g_wloaded g' = g_wloaded g /\ g_fails g' = g_fails g /\ g_done g' = false.
Proof. intros g D L. unfold gstep. rewrite D. unfold boundary. rewrite L. cbn. repeat split; try reflexivity; exact D. Qed.

Lemma gstep_tear : forall g n, g_done g = false -> leftovers g = false ->
  let g' := gstep sc g (TTear n) in
  g_todo g' = [] /\ g_inv g' = g_inv g /\ g_closed g' = g_closed g /\ g_nwait g' = g_nwait g /\
  g_wloaded g' = g_wloaded g /\ g_fails g' = g_fails g /\ g_done g' = false.
Proof. intros g n D L. unfold gstep. rewrite D. unfold boundary. rewrite L. cbn. repeat split; try reflexivity; exact D. Qed.

Lemma idle_boundary_fields : forall g, let g' := idle_boundary g in
  g_todo g' = g_todo g /\ g_inv g' = g_inv g /\ g_closed g' = g_closed g /\ g_nwait g' = g_nwait g /\
  g_wloaded g' = g_wloaded g /\ g_done g' = g_done g /\ (GOK g -> GOK g') /\ g_m g' = g_m g.
Proof.
  intros g. unfold idle_boundary. cbv zeta.
  destruct (2 <=? (if g_idle_now g then g_idle g + 1 else 0)); cbn [g_todo g_inv g_closed g_nwait g_wloaded g_done g_m g_set_idle g_fail].
  - do 6 (split; [reflexivity|]). split; [|reflexivity]. intros OK. apply (GOK_eq (g_fail g 1103)); [reflexivity|].
    apply GOK_fail; [exact OK|discriminate|discriminate].
  - do 6 (split; [reflexivity|]). split; [|reflexivity]. intros OK. exact OK.
Qed.

Lemma gstep_end : forall g q n, g_done g = false -> leftovers g = false -> GOK g ->
  let g' := gstep sc g (TEnd q n) in
  g_todo g' = teardown_script /\ g_inv g' = g_inv g /\ g_closed g' = g_closed g /\ g_nwait g' = g_nwait g /\
  g_wloaded g' = g_wloaded g /\ GOK g' /\ g_done g' = false.
Proof.
  intros g q n D L OK. unfold gstep. rewrite D. unfold boundary. rewrite L. cbv beta iota zeta.
  match goal with |- context [idle_boundary ?X] => destruct (idle_boundary_fields X) as (A1 & A2 & A3 & A4 & A5 & A6 & A7 & _) end.
  cbv zeta in A1, A2, A3, A4, A5, A6, A7. rewrite A1, A2, A3, A4, A5, A6.
  cbn [g_todo g_inv g_closed g_nwait g_wloaded g_done g_with track].
  do 5 (split; [reflexivity|]). split; [apply A7; apply (GOK_eq g); [reflexivity|exact OK]|exact D].
Qed.

Lemma gstep_wait : forall g n call mx t i gnd, g_done g = false -> GOK g ->
  Forall (na g) (g_todo g) -> (g_wloaded g = false -> Forall (na g) (sc_wait sc (g_nwait g + 1))) ->
  let g' := gstep sc g (TWait n call mx t i gnd) in
  g_todo g' = [] /\ g_inv g' = g_inv g /\ g_closed g' = g_closed g /\ g_nwait g' = n /\
  g_wloaded g' = false /\ GOK g' /\ g_done g' = false.
Proof.
  intros g n call mx t i gnd D OK F FW. unfold gstep. rewrite D. cbv beta iota zeta.
  set (g0 := if existsb _ i then g_fail g 1104 else g).
  assert (P0 : g_todo g0 = g_todo g /\ g_inv g0 = g_inv g /\ g_closed g0 = g_closed g /\ g_nwait g0 = g_nwait g /\
               g_wloaded g0 = g_wloaded g /\ g_done g0 = false /\ GOK g0 /\ g_m g0 = g_m g).
  { unfold g0. destruct (existsb _ i).
    - do 5 (split; [reflexivity|]). split; [exact D|]. split; [apply GOK_fail; [exact OK|discriminate|discriminate]|reflexivity].
    - do 5 (split; [reflexivity|]). split; [exact D|]. split; [exact OK|reflexivity]. }
  destruct P0 as (B1 & B2 & B3 & B4 & B5 & B6 & B7 & B8). clearbody g0.
  assert (A0 : aeq g g0) by (apply allowed_ext; rewrite ?B8; try reflexivity; exact B3).
  assert (L0 : leftovers g0 = false) by (apply leftovers_na; rewrite B1; eapply Forall_na_aeq; eassumption).
  set (g1 := if g_wloaded g0 then boundary g0 else boundary (g_with (boundary g0) (g_m g0) (sc_wait sc (g_nwait g0 + 1)))).
  assert (P1 : g_inv g1 = g_inv g /\ g_closed g1 = g_closed g /\ g_done g1 = false /\ GOK g1).
  { assert (BD : boundary g0 = g0) by (unfold boundary; rewrite L0; reflexivity).
    unfold g1. rewrite !BD. destruct (g_wloaded g0) eqn:W.
    - split; [exact B2|split; [exact B3|split; [exact B6|exact B7]]].
    - set (gw := g_with g0 (g_m g0) (sc_wait sc (g_nwait g0 + 1))).
      assert (LW : leftovers gw = false).
      { apply leftovers_na. cbn [gw g_todo g_with]. specialize (FW (eq_sym B5)). rewrite B4.
        apply (Forall_na_aeq g); [|exact FW]. intros a. transitivity (allowed g0 a); [destruct a; reflexivity|apply A0]. }
      unfold boundary. rewrite LW. cbn [gw g_inv g_closed g_done g_fails g_with].
      split; [exact B2|split; [exact B3|split; [exact B6|apply (GOK_eq g0); [reflexivity|exact B7]]]]. }
  destruct P1 as (C2 & C3 & C6 & C7). clearbody g1.
  match goal with |- context [idle_boundary ?X] => destruct (idle_boundary_fields X) as (A1 & A2 & A3 & A4 & A5 & A6 & A7 & _) end.
  cbv zeta in A1, A2, A3, A4, A5, A6, A7. rewrite A1, A2, A3, A4, A5, A6.
  cbn [g_todo g_inv g_closed g_nwait g_wloaded g_done g_with g_set_wait track].
  split; [reflexivity|]. split; [exact C2|]. split; [exact C3|]. split; [reflexivity|]. split; [reflexivity|].
  split; [apply A7; apply (GOK_eq g1); [reflexivity|exact C7]|exact C6].
Qed.
(* ---------- a run of events that are only tracked (or cut the trace) ---------- *)
Definition qs (e : tev) : Prop := plain_ev e \/ halt_ev e.

Lemma gstep_qs_fails : forall g e, qs e -> g_fails (gstep sc g e) = g_fails g.
Proof.
  intros g e [P|H]; [|apply gstep_halt; exact H].
  destruct (g_done g) eqn:D; [rewrite gstep_done_id by exact D; reflexivity|apply (gs_fails _ _ (gstep_plain g e D P))].
Qed.

Lemma gstep_qs_GS : forall g e, qs e -> g_done (gstep sc g e) = false -> GS g (gstep sc g e) /\ plain_ev e.
Proof.
  intros g e Q D. pose proof (gstep_done sc g e D) as D0. destruct Q as [P|H].
  - split; [apply gstep_plain; assumption|exact P].
  - rewrite (gstep_halt_done g e H) in D. discriminate D.
Qed.

Lemma ext_gst : forall l s s', trace s' = l ++ trace s -> gst sc s' = fold_left (gstep sc) (rev l) (gst sc s).
Proof. intros l s s' E. unfold gst, gmon_run. rewrite E, rev_app_distr, fold_left_app. reflexivity. Qed.

Lemma fold_qs : forall l g, Forall qs l -> g_fails (fold_left (gstep sc) l g) = g_fails g /\
  (g_done (fold_left (gstep sc) l g) = false -> GS g (fold_left (gstep sc) l g) /\ g_done g = false /\
     ((forall e, In e l -> forall k i c, e <> TRes k i c) -> aeq g (fold_left (gstep sc) l g))).
Proof.
  induction l as [|e l IH]; intros g F; cbn [fold_left].
  - split; [reflexivity|]. intros D. split; [apply GS_refl|]. split; [exact D|]. intros _ a. reflexivity.
  - inversion F as [|? ? Q F']; subst. destruct (IH (gstep sc g e) F') as [A B]. split; [rewrite A; apply gstep_qs_fails; exact Q|].
    intros D. destruct (B D) as (G1 & D1 & E1). destruct (gstep_qs_GS g e Q D1) as [G0 P]. pose proof (gstep_done sc g e D1) as D0.
    split; [eapply GS_trans; eassumption|]. split; [exact D0|]. intros NR a.
    rewrite E1 by (intros x X; apply NR; right; exact X).
    apply (gstep_plain_aeq g e D0 P). apply NR. left. reflexivity.
Qed.

Lemma ext_qs : forall l s s', trace s' = l ++ trace s -> Forall qs l ->
  g_fails (gst sc s') = g_fails (gst sc s) /\
  (g_done (gst sc s') = false -> GS (gst sc s) (gst sc s') /\ g_done (gst sc s) = false /\
     ((forall e, In e l -> forall k i c, e <> TRes k i c) -> aeq (gst sc s) (gst sc s'))).
Proof.
  intros l s s' E F. rewrite (ext_gst l s s' E).
  assert (F' : Forall qs (rev l)) by (apply Forall_rev; exact F).
  destruct (fold_qs (rev l) (gst sc s) F') as [A B]. split; [exact A|]. intros D. destruct (B D) as (G1 & D1 & E1).
  split; [exact G1|]. split; [exact D1|]. intros NR. apply E1. intros e X. apply NR. apply in_rev. exact X.
Qed.
End G.
