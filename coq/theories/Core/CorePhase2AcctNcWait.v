(* CorePhase2AcctNcWait.v -- code 707: a kernel wait that reports a user descriptor leaves a
   callback owed for it (`expect` is not empty), for the epoll and the poll back ends; the
   tracker invariant H7 through iv_fd_poll_and_run.  Uses the descriptor facts of CorePhase2Fd*. *)
From Coq Require Import List ZArith Bool Lia.
From Ivv Require Import Core.Kernel Core.CoreTypes Core.CoreFd Core.CoreModel Core.CoreSpec Core.Monitors.
From Ivv Require Import Core.CoreInvBase Core.CoreInvDefs Core.CoreInvFd Core.CoreInvPoll Core.CoreInvReg Core.CoreInvObj Core.CoreInvLoop Core.CoreInvWait.
From Ivv Require Import Core.CoreRel Core.CorePhase2FdBase Core.CorePhase2FdMon Core.CorePhase2FdStep Core.CorePhase2FdInv
  Core.CorePhase2FdLoop Core.CorePhase2FdWait.
From Ivv Require Import Core.CorePhase2AcctTr Core.CorePhase2AcctTr2 Core.CorePhase2AcctMon Core.CorePhase2AcctNc
  Core.CorePhase2AcctNcLoop.
Import ListNotations.
Local Open Scope Z_scope.

Lemma In_ep_scan_nz : forall k l n ev, In ev (ep_scan k l n) ->
  exists e, In e l /\ ev = (en_fd e, ep_ready_bits k e, en_data e) /\ ep_ready_bits k e <> 0.
Proof.
  intros k. induction l as [|e l IH]; intros n ev H; [destruct n; destruct H|].
  destruct n as [|n]; [destruct H|]. cbn [ep_scan] in H.
  destruct (Z.eqb_spec (ep_ready_bits k e) 0) as [Z0|NZ].
  - destruct (IH _ _ H) as (e' & I0 & Q). exists e'. split; [right; exact I0|exact Q].
  - destruct H as [<-|H].
    + exists e. split; [left; reflexivity|]. split; [reflexivity|exact NZ].
    + destruct (IH _ _ H) as (e' & I0 & Q). exists e'. split; [right; exact I0|exact Q].
Qed.

Lemma band_holds_he : forall b c, has c B_HUP || has c B_ERR = true -> band_holds b c = true.
Proof.
  intros b c H. unfold band_holds. cbv zeta. rewrite H. rewrite !orb_true_r. destruct (b =? 0); [reflexivity|destruct (b =? 1); reflexivity].
Qed.

(* a registered user descriptor whose interest entry is ready has a ready wanted band *)
Lemma ready_band : forall f c ev, bands_of f <> 0 ->
  has ev B_IN = has (bands_of f) M_IN -> has ev B_OUT = has (bands_of f) M_OUT -> rbits c ev <> 0 ->
  exists b, 0 <= b <= 2 /\ hnd f b <> None /\ band_holds b c = true.
Proof.
  intros f c ev NZ EI EO R. destruct (bands_of_has f) as (A1 & A2 & A3).
  unfold rbits in R.
  destruct (bits4_has (has c B_IN && has ev B_IN) (has c B_OUT && has ev B_OUT) (has c B_HUP) (has c B_ERR)) as (_ & _ & _ & _ & Z0).
  apply Z.eqb_neq in R. rewrite R in Z0. symmetry in Z0. apply negb_false_iff in Z0.
  destruct (has c B_HUP || has c B_ERR) eqn:HE.
  - (* every band holds; some handler exists *)
    assert (EX : exists b, 0 <= b <= 2 /\ hnd f b <> None).
    { destruct (h_in f) eqn:HI; [exists 0; split; [lia|unfold hnd; cbn; rewrite HI; discriminate]|].
      destruct (h_out f) eqn:HO; [exists 1; split; [lia|unfold hnd; cbn; rewrite HO; discriminate]|].
      destruct (h_err f) eqn:HR; [exists 2; split; [lia|unfold hnd; cbn; rewrite HR; discriminate]|].
      exfalso. apply NZ. unfold bands_of. rewrite HI, HO, HR. reflexivity. }
    destruct EX as (b & B & H). exists b. split; [exact B|]. split; [exact H|apply band_holds_he; exact HE].
  - apply orb_false_iff in HE. destruct HE as [H1 H2]. rewrite H1, H2, !orb_false_r in Z0.
    apply orb_true_iff in Z0. destruct Z0 as [Z1|Z1]; apply andb_true_iff in Z1; destruct Z1 as [C E].
    + exists 0. split; [lia|]. rewrite EI, A1 in E. split; [unfold hnd; cbn; destruct (h_in f); [discriminate|discriminate E]|].
      unfold band_holds. cbn. rewrite C. reflexivity.
    + exists 1. split; [lia|]. rewrite EO, A2 in E. split; [unfold hnd; cbn; destruct (h_out f); [discriminate|discriminate E]|].
      unfold band_holds. cbn. rewrite C. reflexivity.
Qed.

Lemma rep_expect_epoll : forall s kx e, J true s -> UEnt s -> UOpen s -> vfds kx = vfds (kern s) ->
  In e (ep (kern s)) -> 100 <= en_fd e < 116 -> ep_ready_bits kx e <> 0 ->
  exists b, In (en_fd e - 100, b) (ready_wanted (mst s) (ground (kern s))).
Proof.
  intros s kx e Jh (ND & A & B) UO VX I0 R NZ.
  destruct (A e I0 R) as (D & RG & BN & EV & EN). set (i := en_fd e - 100) in *.
  assert (RI : 0 <= i < 16) by (unfold i; lia).
  rewrite ready_bits_eq, EN in NZ. cbn [negb] in NZ. replace (en_fd e) with (100 + i) in NZ by (unfold i; lia).
  destruct (user_cond s kx i UO VX RI RG) as [C _]. rewrite C, EV in NZ.
  destruct (epoll_mask_has (bands_of (fdt s i))) as (M1 & M2 & _).
  destruct (ready_band (fdt s i) _ _ BN M1 M2 NZ) as (b & BB & H & BH).
  exists b. apply rw_in. split; [exact RI|]. split; [rewrite (ag_fd _ _ (j_ag _ _ Jh) i RI); exact RG|].
  split; [exact BB|]. split; [rewrite (afh_hnd true s i b Jh RI BB); exact H|exact BH].
Qed.

Section Wait7.
Variable sc : scenario.
Hypothesis WF : wf_scenario sc.

Lemma wait_enter_nr : forall s, RExt nr s (wait_enter sc s).
Proof.
  intros s. unfold wait_enter. cbv zeta. dm; [apply RExt_halt; exact I|].
  eapply RExt_l; [|apply (RExt_weaken ca nr); [exact ca_nr|apply run_acts_ext]]. reflexivity.
Qed.

(* the state in which TWait has just been logged: H7 with need_call clear *)
Lemma HNs_wait : forall s n call mx t i g, HNs s -> expect (mst s) = [] -> HNs (emit s (TWait n call mx t i g)).
Proof.
  intros s n call mx t i g [H _] E. unfold HNs. rewrite mst_emit. split; [apply H7_step; [exact H|exact E]|apply nc_wait].
Qed.

Lemma do_epoll_wait_H : forall s call maxev timeout, WP sc s -> HNs s -> is_epoll s = true -> notify s = [] ->
  H7s (wres_state (do_epoll_wait sc s call maxev timeout)).
Proof.
  intros s call maxev timeout W HN0 IE NT. unfold do_epoll_wait.
  pose proof (wait_enter_W sc WF s W) as P. pose proof (wait_enter_nr s) as T1. unfold RExt in T1.
  pose proof (HNs_ext nr s _ (fun e H => H) T1 HN0) as HN1.
  destruct (wait_enter sc s) as [s1|s1]; cbn [wres_state res_state] in *; [|apply HNs_H7s; exact HN1].
  destruct P as ([I1 Y1 A1 E1 Q1] & K1).
  assert (IE1 : is_epoll s1 = true) by (unfold is_epoll in *; rewrite (ko_method _ _ K1); exact IE).
  assert (NT1 : notify s1 = []) by (rewrite (ko_notify _ _ K1); exact NT).
  pose proof (UEnt_of_Inv s1 I1 (y_kx _ _ _ Y1) IE1 NT1) as UE.
  pose proof (UOpen_of_Inv s1 I1 (y_kx _ _ _ Y1)) as UO.
  cbv zeta.
  set (n := nwait (kern s1)).
  set (e2 := TWait n call maxev timeout (interest_of (kern s1)) (ground (kern s1))).
  set (s2 := emit s1 e2).
  assert (J2 : J true s2) by (apply J_wait_event; [apply Y1|exact Q1]).
  assert (HN2 : HNs s2) by (apply HNs_wait; assumption).
  assert (TV2 : tv (mst s2) = (ground (kern s1), [], [])) by (unfold s2; rewrite mst_emit; apply tv_TWait).
  unfold tv in TV2. injection TV2 as G1 G2 G3.
  change (kern s2) with (kern s1).
  destruct (mem_z n (eintr_waits (flt (kern s1)))); cbn [wres_state].
  - apply H7s_emit; [|exact I]. destruct (0 <? timeout); [apply (H7s_trace s2); [reflexivity|]|]; apply HNs_H7s; exact HN2.
  - destruct (k_epoll_sleep (kern s1) maxev timeout (sc_rot sc n)) as [k1 evs|k1| |] eqn:SL; cbn [wres_state res_state halt].
    + apply H7s_emit; [apply (H7s_trace s2); [reflexivity|apply HNs_H7s; exact HN2]|].
      change (mst (set_kern s2 k1)) with (mst s2). cbn [okev]. intros UR.
      apply existsb_exists in UR. destruct UR as (fd & IF & UF). apply in_map_iff in IF. destruct IF as (ev & FE & IEV).
      destruct (sleep_scan _ _ _ _ _ _ (y_kx _ _ _ Y1) SL) as (order & ORD & _ & _ & _ & SC).
      assert (SRC : exists kx, vfds kx = vfds (kern s1) /\ In ev (ep_scan kx order (Z.to_nat maxev))).
      { destruct SC as [[EQ _]|[_ (kx & V & EQ)]]; [exists (kern s1)|exists kx]; (split; [try reflexivity; try exact V|rewrite <- EQ; exact IEV]). }
      destruct SRC as (kx & VX & IS). destruct (In_ep_scan_nz _ _ _ _ IS) as (e & IO & EQ & NZ).
      apply ORD in IO. subst ev. cbn [fst] in FE. subst fd.
      unfold userfd in UF. apply andb_true_iff in UF. destruct UF as [U1 U2]. apply Z.leb_le in U1. apply Z.ltb_lt in U2.
      assert (UE2 : UEnt s2) by exact UE. assert (UO2 : UOpen s2) by exact UO.
      destruct (rep_expect_epoll s2 kx e J2 UE2 UO2 VX IO ltac:(lia) NZ) as (b & RW).
      rewrite G1. intros EQ0.
      assert (IN : In (en_fd e - 100, b) (filter (fun p => mem_z (100 + fst p) (map (fun e0 => fst (fst e0)) evs))
                                              (ready_wanted (mst s2) (ground (kern s1))))).
      { apply filter_In. split; [exact RW|]. cbn [fst]. apply mem_z_In. apply in_map_iff.
        exists (en_fd e, ep_ready_bits kx e, en_data e). split; [cbn [fst]; lia|exact IEV]. }
      rewrite EQ0 in IN. destruct IN.
    + apply (H7s_trace s2); [reflexivity|apply HNs_H7s; exact HN2].
    + apply H7s_emit; [apply HNs_H7s; exact HN2|exact I].
    + apply H7s_emit; [apply HNs_H7s; exact HN2|exact I].
Qed.

Lemma HNs_to_msec : forall s abs, HNs s -> HNs (fst (to_msec s abs)).
Proof. intros s abs H. apply (HNs_trace s); [apply to_msec_trace|exact H]. Qed.
Lemma HNs_to_relative : forall s abs, HNs s -> HNs (fst (to_relative s abs)).
Proof. intros s abs H. apply (HNs_trace s); [|exact H]. unfold to_relative. destruct abs; cbn [fst]; [apply validate_trace|reflexivity]. Qed.

Lemma epoll_wait_m_H : forall s abs maxev, WP sc s -> HNs s -> is_epoll s = true -> notify s = [] ->
  H7s (wres_state (epoll_wait_m sc s abs maxev)).
Proof.
  intros s abs maxev W HN0 IE NT. unfold epoll_wait_m.
  assert (VIA : forall s0, WP sc s0 -> HNs s0 -> is_epoll s0 = true -> notify s0 = [] ->
     H7s (wres_state (let '(s1, ms) := to_msec s0 abs in do_epoll_wait sc s1 0 maxev (if ms <? 0 then -1 else ms * 1000000)))).
  { intros s0 W0 H0 IE0 NT0. destruct (WP_to_msec sc s0 abs W0) as [W1 K1]. pose proof (HNs_to_msec s0 abs H0) as H1.
    destruct (to_msec s0 abs) as [s1 ms]. cbn [fst] in W1, K1, H1.
    apply do_epoll_wait_H; [exact W1|exact H1| |].
    - unfold is_epoll in *. rewrite (ko_method _ _ K1). exact IE0.
    - rewrite (ko_notify _ _ K1). exact NT0. }
  destruct (pwait2 s); [|apply VIA; assumption].
  destruct (WP_to_relative sc s abs W) as [W1 K1]. pose proof (HNs_to_relative s abs HN0) as H1.
  destruct (to_relative s abs) as [s1 rel]. cbn [fst] in W1, K1, H1.
  assert (IE1 : is_epoll s1 = true) by (unfold is_epoll in *; rewrite (ko_method _ _ K1); exact IE).
  assert (NT1 : notify s1 = []) by (rewrite (ko_notify _ _ K1); exact NT).
  destruct (no_pwait2 (flt (kern s1)) || perm_pwait2 (flt (kern s1))).
  - apply VIA; [apply WP_set_epoll; exact W1|apply (HNs_trace s1); [reflexivity|exact H1]|exact IE1|exact NT1].
  - apply do_epoll_wait_H; [exact W1|exact H1|exact IE1|exact NT1].
Qed.

Lemma epoll_process_trace7 : forall evs s re tm, trace (fst (fst (epoll_process s evs re tm))) = trace s.
Proof. intros. apply epoll_process_trace. Qed.

(* iv_fd_epoll_poll *)
Lemma epoll_poll_H : forall s abs, WP sc s -> HNs s -> is_epoll s = true -> Hr (fst (epoll_poll sc s abs)).
Proof.
  intros s abs W HN0 IE. pose proof W as [I0 H A E Q]. pose proof (y_j _ _ _ H) as Jh. unfold epoll_poll.
  destruct (flush_pending_ok (S (length (notify s))) s I0 IE ltac:(lia)) as (s1 & F1 & I1 & N1 & _ & RS1 & _).
  pose proof (J_inner_res s _ _ Jh (flush_pending_res (S (length (notify s))) s (j_fd _ _ Jh) IE)) as P.
  pose proof (flush_pending_st0 (S (length (notify s))) s) as S1.
  pose proof (flush_pending_ext (S (length (notify s))) s) as T1. unfold RExt in T1.
  rewrite F1 in *. cbn [res_state] in S1, T1.
  destruct P as (J1 & _ & E1); [intros s1' (A0 & B0 & _); split; [apply Inner_W; exact A0|exact B0]|].
  assert (Q1 : quit s1 = quit s) by (destruct E1 as (A0 & _); apply (sm_quit _ _ (in_same _ _ A0))).
  assert (W1 : WP sc s1) by (apply (WP_st0 sc s s1 W S1 J1 I1 Q1)).
  assert (IE1 : is_epoll s1 = true) by (rewrite (restsame_epoll _ _ RS1); exact IE).
  pose proof (HNs_ext ca s s1 ca_nr T1 HN0) as HN1.
  set (maxev := if method s =? M_ET then numfds s + 1 else if numfds s =? 0 then 1 else numfds s).
  pose proof (epoll_wait_m_H s1 abs maxev W1 HN1 IE1 N1) as WO.
  destruct (epoll_wait_m sc s1 abs maxev) as [s2 evs|s2|r]; cbn [wres_state fst] in *.
  - pose proof (epoll_process_trace evs (invalidate_now s2) false false) as T4.
    destruct (epoll_process (invalidate_now s2) evs false false) as [[s4 run_events] tmr]. cbn [fst] in *.
    assert (H4 : H7s s4) by (apply (H7s_trace s2); [exact T4|exact WO]).
    apply Hr_bind.
    + destruct tmr; [|exact H4]. destruct (k_read (kern s4) (tfd s4) 8) as [k1 [x|e]].
      * apply (H7s_trace s4); [reflexivity|exact H4].
      * apply Hr_halt; [apply (H7s_trace s4); [reflexivity|exact H4]|exact I].
    + intros s5 H5. destruct run_events; [apply run_pending_events_H; exact H5|exact H5].
  - apply (H7s_trace s2); [reflexivity|exact WO].
  - exact WO.
Qed.

(* ---------- poll / ppoll ---------- *)
Lemma reported_src : forall p revs fd, In fd (reported_pfds p revs) ->
  exists n x r, nth_error p n = Some x /\ fst x = fd /\ nth_error revs n = Some r /\ r <> 0.
Proof.
  induction p as [|y p IH]; intros revs fd H; [destruct revs; destruct H|].
  destruct revs as [|r0 revs]; [destruct H|]. cbn [reported_pfds] in H.
  destruct (Z.eqb_spec r0 0) as [Z0|NZ].
  - destruct (IH _ _ H) as (n & x & r & A & B & C & D). exists (S n), x, r. auto.
  - destruct H as [<-|H].
    + exists O, y, r0. cbn. auto.
    + destruct (IH _ _ H) as (n & x & r & A & B & C & D). exists (S n), x, r. auto.
Qed.

Lemma rep_expect_poll : forall s kx p, J true s -> UPoll s -> UOpen s -> vfds kx = vfds (kern s) ->
  In p (pfds s) -> 100 <= fst p < 116 -> poll_revents kx (fst p) (snd p) <> 0 ->
  exists b, In (fst p - 100, b) (ready_wanted (mst s) (ground (kern s))).
Proof.
  intros s kx p Jh (ND & A & _) UO VX I0 R NZ.
  destruct (A p I0 R) as (RG & BN & EV). set (i := fst p - 100) in *.
  assert (RI : 0 <= i < 16) by (unfold i; lia).
  replace (fst p) with (100 + i) in NZ by (unfold i; lia).
  destruct (user_cond s kx i UO VX RI RG) as [C O]. rewrite (poll_revents_eq _ _ _ O), C, EV in NZ.
  destruct (poll_mask_has (bands_of (fdt s i))) as (M1 & M2).
  destruct (ready_band (fdt s i) _ _ BN M1 M2 NZ) as (b & BB & H & BH).
  exists b. apply rw_in. split; [exact RI|]. split; [rewrite (ag_fd _ _ (j_ag _ _ Jh) i RI); exact RG|].
  split; [exact BB|]. split; [rewrite (afh_hnd true s i b Jh RI BB); exact H|exact BH].
Qed.

Lemma poll_activate_trace7 : forall keys revs s, trace (poll_activate s keys revs) = trace s.
Proof.
  induction keys as [|k keys IH]; intros revs s; cbn [poll_activate]; [reflexivity|].
  destruct revs as [|r revs]; [reflexivity|]. rewrite IH. apply activate_trace.
Qed.

Lemma do_poll_wait_H : forall s call timeout, WP sc s -> HNs s -> is_epoll s = false ->
  Hr (fst (do_poll_wait sc s call timeout)).
Proof.
  intros s call timeout W HN0 IE. unfold do_poll_wait.
  pose proof (wait_enter_W sc WF s W) as P. pose proof (wait_enter_nr s) as T1. unfold RExt in T1.
  pose proof (HNs_ext nr s _ (fun e H => H) T1 HN0) as HN1.
  destruct (wait_enter sc s) as [s1|s1]; cbn [fst res_state] in *; [|apply HNs_H7s; exact HN1].
  destruct P as ([I1 Y1 A1 E1 Q1] & K1).
  assert (IE1 : is_epoll s1 = false) by (unfold is_epoll in *; rewrite (ko_method _ _ K1); exact IE).
  pose proof (UPoll_of_Inv s1 I1 IE1) as UP.
  pose proof (UOpen_of_Inv s1 I1 (y_kx _ _ _ Y1)) as UO.
  cbv zeta. set (n := nwait (kern s1)).
  set (e2 := TWait n call (Z.of_nat (length (pfds s1))) timeout (interest_of_pfds (pfds s1)) (ground (kern s1))).
  set (s2 := emit s1 e2).
  assert (J2 : J true s2) by (apply J_wait_event; [apply Y1|exact Q1]).
  assert (HN2 : HNs s2) by (apply HNs_wait; assumption).
  assert (TV2 : tv (mst s2) = (ground (kern s1), [], [])) by (unfold s2; rewrite mst_emit; apply tv_TWait).
  unfold tv in TV2. injection TV2 as G1 G2 G3.
  change (kern s2) with (kern s1). change (pfds s2) with (pfds s1).
  destruct (mem_z n (eintr_waits (flt (kern s1)))); cbn [fst].
  - unfold Hr. cbn [res_state]. apply (H7s_trace (emit (if 0 <? timeout then set_kern s2 (k_set_clock (kern s1) (clock (kern s1) + timeout / 2)) else s2)
                                                       (TRet None [] (clock (kern (if 0 <? timeout then set_kern s2 (k_set_clock (kern s1) (clock (kern s1) + timeout / 2)) else s2))))));
      [reflexivity|].
    apply H7s_emit; [|exact I]. destruct (0 <? timeout); [apply (H7s_trace s2); [reflexivity|]|]; apply HNs_H7s; exact HN2.
  - destruct (k_poll_sleep (kern s1) (pfds s1) timeout) as [k1 revs|] eqn:SL; cbn [fst].
    + unfold Hr. cbn [res_state].
      set (s3 := emit (set_kern s2 k1) (TRet (Some (count_nonzero revs)) (reported_pfds (pfds s1) revs) (clock k1))).
      apply (H7s_trace s3); [rewrite poll_activate_trace7; reflexivity|].
      apply H7s_emit; [apply (H7s_trace s2); [reflexivity|apply HNs_H7s; exact HN2]|].
      change (mst (set_kern s2 k1)) with (mst s2). cbn [okev]. intros UR.
      apply existsb_exists in UR. destruct UR as (fd & IF & UF).
      destruct (reported_src _ _ _ IF) as (m & x & r & PN & FX & RN & NZ).
      destruct (poll_sleep_scan _ _ _ _ _ SL) as (kx & VX & RV & _).
      rewrite RV, (nth_poll_eval kx (pfds s1) m x PN) in RN. inversion RN; subst r. clear RN.
      unfold userfd in UF. apply andb_true_iff in UF. destruct UF as [U1 U2]. apply Z.leb_le in U1. apply Z.ltb_lt in U2.
      assert (UP2 : UPoll s2) by exact UP. assert (UO2 : UOpen s2) by exact UO.
      destruct (rep_expect_poll s2 kx x J2 UP2 UO2 VX (nth_error_In _ _ PN) ltac:(lia) NZ) as (b & RW).
      rewrite G1. intros EQ0.
      assert (IN : In (fst x - 100, b) (filter (fun p => mem_z (100 + fst p) (reported_pfds (pfds s1) revs))
                                              (ready_wanted (mst s2) (ground (kern s1))))).
      { apply filter_In. split; [exact RW|]. cbn [fst]. apply mem_z_In. replace (100 + (fst x - 100)) with fd by lia. exact IF. }
      rewrite EQ0 in IN. destruct IN.
    + apply Hr_halt; [apply HNs_H7s; exact HN2|exact I].
Qed.

Lemma poll_poll_H : forall s abs, WP sc s -> HNs s -> is_epoll s = false -> Hr (fst (poll_poll sc s abs)).
Proof.
  intros s abs W HN0 IE. unfold poll_poll.
  assert (VIA : forall s0, WP sc s0 -> HNs s0 -> is_epoll s0 = false ->
     Hr (fst (let '(s1, ms) := to_msec s0 abs in do_poll_wait sc s1 2 (if ms <? 0 then -1 else ms * 1000000)))).
  { intros s0 W0 H0 IE0. destruct (WP_to_msec sc s0 abs W0) as [W1 K1]. pose proof (HNs_to_msec s0 abs H0) as H1.
    destruct (to_msec s0 abs) as [s1 ms]. cbn [fst] in W1, K1, H1.
    apply do_poll_wait_H; [exact W1|exact H1|].
    unfold is_epoll in *. rewrite (ko_method _ _ K1). exact IE0. }
  destruct (Z.eqb_spec (method s) M_PP) as [MP|NMP]; [|apply VIA; assumption].
  destruct (WP_to_relative sc s abs W) as [W1 K1]. pose proof (HNs_to_relative s abs HN0) as H1.
  destruct (to_relative s abs) as [s1 rel]. cbn [fst] in W1, K1, H1.
  assert (IE1 : is_epoll s1 = false) by (unfold is_epoll in *; rewrite (ko_method _ _ K1); exact IE).
  destruct (no_ppoll (flt (kern s1))).
  - apply VIA; [| |reflexivity].
    + pose proof W1 as [I1 Hy1 A1 E1 Q1].
      destruct (J_invalidate true s1 (y_j _ _ _ Hy1)) as (J2 & _ & _ & Q2).
      assert (IE2 : is_epoll (invalidate_now s1) = false) by exact IE1.
      apply (WP_st0 sc s1 _ W1).
      * eapply ST0_trans; [apply invalidate_st0|apply ST0_set_method].
      * apply J_set_method_poll; [exact J2|exact IE2|reflexivity].
      * apply InvW_set_method; [apply InvW_invalidate; exact I1| |unfold M_PO; lia].
        change (is_epoll (invalidate_now s1)) with (is_epoll s1). rewrite IE1. reflexivity.
      * exact Q2.
    + apply (HNs_trace s1); [reflexivity|exact H1].
  - apply do_poll_wait_H; [exact W1|exact H1|exact IE1].
Qed.

Lemma m_poll_H : forall s abs, WP sc s -> HNs s -> Hr (fst (m_poll sc s abs)).
Proof.
  intros s abs W H. unfold m_poll. destruct (is_epoll s) eqn:IE; [apply epoll_poll_H|apply poll_poll_H]; assumption.
Qed.

(* ---------- iv_fd_poll_and_run: need_call is clear again afterwards ---------- *)
Lemma tfd_settime_nr : forall s d, TrExt nr s (tfd_settime s d).
Proof. intros. unfold tfd_settime. eapply TrExt_l; [|apply TrExt_emit; exact I]. reflexivity. Qed.

Lemma set_poll_timeout_nr : forall s a, RExt nr s (fst (set_poll_timeout s a)).
Proof.
  intros s a. unfold set_poll_timeout.
  destruct (tfd s =? -1).
  - destruct (k_timerfd_create (kern s)) as [k1 [fd|e]].
    + cbv zeta. destruct (ctl_retry _ _ _ _ _) as [s1 e] eqn:C. apply ctl_retry_trace in C.
      destruct e; cbn [fst].
      * eapply RExt_l with (s := s1); [exact C|]. apply RExt_halt. exact I.
      * eapply TrExt_l with (s := s1); [exact C|]. apply tfd_settime_nr.
    + cbn [fst]. apply TrExt_same. reflexivity.
  - cbn [fst]. apply tfd_settime_nr.
Qed.

Lemma timeout_check_nr : forall s abs, RExt nr s (fst (timeout_check s abs)).
Proof.
  intros s abs. unfold timeout_check. cbv zeta.
  destruct (_ && _); [apply TrExt_refl|].
  set (s1 := if last_abs_count s =? 5 then tfd_settime s 0 else s).
  assert (Q1 : TrExt nr s s1) by (unfold s1; destruct (last_abs_count s =? 5); [apply tfd_settime_nr|apply TrExt_refl]).
  destruct (abs_cmp abs (last_abs s) =? 0).
  - set (s2 := if last_abs_count s1 <? 5 then _ else s1).
    assert (T2 : trace s2 = trace s1) by (unfold s2; destruct (last_abs_count s1 <? 5); reflexivity).
    destruct (last_abs_count s2 =? 5); [|cbn [fst]; eapply TrExt_trans; [exact Q1|apply TrExt_same; exact T2]].
    destruct abs as [a|]; [|cbn [fst]; eapply TrExt_trans; [exact Q1|apply TrExt_same; exact T2]].
    eapply RExt_tr; [exact Q1|]. eapply RExt_l with (s := s2); [exact T2|]. apply set_poll_timeout_nr.
  - destruct abs as [a|]; cbn [fst]; (eapply TrExt_trans; [exact Q1|apply TrExt_same; reflexivity]).
Qed.

Hypothesis DA : forall s a, InvW s -> wf_action a -> okr (StepW s) (do_action s a).

Lemma poll_and_run_H : forall s abs, WP sc s -> HNs s ->
  match fst (poll_and_run sc s abs) with R s' => HNs s' | Halt s' => H7s s' end.
Proof.
  intros s abs W HN0.
  pose proof (poll_and_run_W sc WF DA s abs W) as IO.
  assert (G : Hr (fst (poll_and_run sc s abs))).
  { unfold poll_and_run.
    assert (FIN : forall r, Hr r -> Hr (bind r (fun s0 => dispatch_active sc (S (length (active s0))) s0))).
    { intros r P. apply Hr_bind; [exact P|]. intros s1 H1. apply dispatch_active_H. exact H1. }
    match goal with |- Hr (fst (let '(r, rt) := ?X in (bind r _, rt))) =>
      assert (PX : Hr (fst X)); [|destruct X as [r rt]; cbn [fst] in *; apply FIN; exact PX] end.
    destruct (Z.eqb_spec (method s) M_ET) as [ME|NME]; [|apply m_poll_H; assumption].
    pose proof W as [I0 Hy A E Q].
    pose proof (timeout_check_ok sc WF DA s abs I0 ME) as T1.
    pose proof (timeout_check_post s abs (y_j _ _ _ Hy) ME) as T2.
    pose proof (timeout_check_st0 s abs) as T3.
    pose proof (timeout_check_nr s abs) as T4. unfold RExt in T4.
    pose proof (HNs_ext nr s _ (fun e H => H) T4 HN0) as HN1.
    destruct (timeout_check s abs) as [[s1|s1] b]; cbn [fst okr PostQ res_state] in *.
    - destruct T1 as (I1 & _). destruct T2 as (J1 & _ & Q1).
      assert (W1 : WP sc s1) by (apply (WP_st0 sc s s1 W T3 J1 I1 Q1)).
      destruct b; [|apply m_poll_H; assumption].
      pose proof (m_poll_H s1 None W1 HN1) as P. destruct (m_poll sc s1 None) as [r rt]. cbn [fst] in *.
      destruct r as [s2|s2]; cbn [bind] in *; [|exact P].
      destruct rt; [|exact P]. apply (H7s_trace s2); [reflexivity|exact P].
    - apply HNs_H7s. exact HN1. }
  destruct (fst (poll_and_run sc s abs)) as [s'|s']; cbn [IdleOut Hr res_state] in *; [|exact G].
  destruct IO as (_ & _ & E'). split; [exact G|].
  destruct G as [_ N]. destruct (need_call (mst s')) eqn:X; [|reflexivity]. exfalso. apply (N X). exact E'.
Qed.

End Wait7.
