(* CorePhase2K1Fd.v -- the descriptor layer leaves a descriptor t alone as long as the
   descriptor object it works on has another number (state-level frame KF). *)
From Coq Require Import List ZArith Bool Lia.
From Ivv Require Import Core.Kernel Core.CoreTypes Core.CoreFd Core.CoreModel Core.CoreRelBase
  Core.CorePhase2K1Base.
Import ListNotations.
Local Open Scope Z_scope.

Record KF (t : Z) (s s' : core) : Prop := {
  kf_k : KT t (kern s) (kern s');
  kf_tfd : tfd s' = tfd s;
  kf_method : method s' = method s;
  kf_la : last_abs s' = last_abs s;
  kf_lac : last_abs_count s' = last_abs_count s;
  kf_fdnum : forall i, fdnum (fdt s' i) = fdnum (fdt s i);
  kf_rf : rw_rfd s' = rw_rfd s;
  kf_wf : rw_wfd s' = rw_wfd s;
  kf_af : active_fd s' = active_fd s;
  kf_aw : active_wr s' = active_wr s;
  kf_ar : active_ref s' = active_ref s;
  kf_er : efd_raw s' = efd_raw s;
  kf_notify : forall y, In y (notify s') -> In y (notify s) \/ True }.

Lemma KF_refl : forall t s, KF t s s.
Proof. intros. constructor; try reflexivity; auto. apply KT_refl. Qed.

Lemma KF_trans : forall t a b c, KF t a b -> KF t b c -> KF t a c.
Proof.
  intros t a b c [] []. constructor; try congruence; auto.
  all: try (eapply KT_trans; eassumption).
  all: try (intros i; rewrite kf_fdnum1; apply kf_fdnum0).
Qed.

(* kernel untouched *)
Lemma KF_plain : forall t s s', kern s' = kern s -> tfd s' = tfd s -> method s' = method s -> last_abs s' = last_abs s ->
  last_abs_count s' = last_abs_count s -> (forall i, fdnum (fdt s' i) = fdnum (fdt s i)) ->
  rw_rfd s' = rw_rfd s -> rw_wfd s' = rw_wfd s -> active_fd s' = active_fd s -> active_wr s' = active_wr s ->
  active_ref s' = active_ref s -> efd_raw s' = efd_raw s -> KF t s s'.
Proof. intros t s s' K. intros. constructor; try assumption; auto. rewrite K. apply KT_refl. Qed.

Lemma KF_putfd : forall t s k f, fdnum f = fdnum (fdt s k) -> KF t s (putfd s k f).
Proof.
  intros t s k f E. apply KF_plain; try reflexivity. intros i. unfold putfd, upd. cbn [fdt set_fdt].
  destruct (Z.eqb_spec i k) as [->|N]; [exact E|reflexivity].
Qed.

Lemma KF_kern : forall t s k', KT t (kern s) k' -> KF t s (set_kern s k').
Proof. intros t s k' K. constructor; try reflexivity; auto. Qed.

Ltac kf_plain := apply KF_plain; reflexivity.

(* ---------- epoll back end ---------- *)
Lemma ctl_retry_KF : forall t s op fd ev d s1 r, fd <> t -> ctl_retry s op fd ev d = (s1, r) -> KF t s s1.
Proof.
  intros t s op fd ev d s1 r N. unfold ctl_retry.
  pose proof (KT_ctl t (kern s) op fd ev d N) as K1.
  destruct (k_epoll_ctl (kern s) op fd ev d) as [k1 r1]. cbn [fst] in K1.
  assert (D : forall k', KT t (kern s) k' -> (set_kern s k', r1) = (s1, r) -> KF t s s1).
  { intros k' K E. inversion E; subst. apply KF_kern. exact K. }
  destruct r1 as [e|]; [destruct e|]; try (apply D; exact K1).
  pose proof (KT_ctl t k1 op fd ev d N) as K2.
  destruct (k_epoll_ctl k1 op fd ev d) as [k2 r2]. cbn [fst] in K2.
  intros E. inversion E; subst. apply KF_kern. eapply KT_trans; eassumption.
Qed.

Lemma flush_one__KF : forall t s k s1 b, fdnum (fdt s k) <> t -> epoll_flush_one_ s k = (s1, b) -> KF t s s1.
Proof.
  intros t s k s1 b N. unfold epoll_flush_one_.
  set (s0 := set_notify s _). set (f := getfd s0 k).
  assert (A0 : KF t s s0) by kf_plain.
  destruct (regb f =? wanted f); [intros E; inversion E; subst; exact A0|].
  destruct (ctl_retry s0 _ _ _ k) as [s2 r] eqn:C. apply (ctl_retry_KF t) in C; [|exact N].
  destruct r; intros E; inversion E; subst.
  - eapply KF_trans; eassumption.
  - eapply KF_trans; [exact A0|]. eapply KF_trans; [exact C|]. apply KF_putfd. reflexivity.
Qed.

Lemma flush_one_KF : forall t s k, fdnum (fdt s k) <> t -> ARes (KF t s) (epoll_flush_one s k).
Proof.
  intros t s k N. unfold epoll_flush_one. destruct (epoll_flush_one_ s k) as [s1 b] eqn:E.
  apply (flush_one__KF t) in E; [|exact N]. destruct b; cbn [ARes halt]; [exact I|exact E].
Qed.

Lemma flush_one__notify : forall s k s1 b y, epoll_flush_one_ s k = (s1, b) -> In y (notify s1) -> In y (notify s).
Proof.
  intros s k s1 b y. unfold epoll_flush_one_.
  set (s0 := set_notify s _). set (f := getfd s0 k).
  assert (N0 : In y (notify s0) -> In y (notify s)) by (intros H; apply In_remove_z in H; apply H).
  destruct (regb f =? wanted f); [intros E; inversion E; subst; exact N0|].
  destruct (ctl_retry s0 _ _ _ k) as [s2 r] eqn:C.
  assert (N2 : notify s2 = notify s0).
  { revert C. unfold ctl_retry. destruct (k_epoll_ctl _ _ _ _ _) as [k1 r1]. destruct r1 as [e|]; [destruct e|];
      try (intros E; inversion E; reflexivity). destruct (k_epoll_ctl k1 _ _ _ _) as [k2 r2]. intros E; inversion E; reflexivity. }
  destruct r; intros E; inversion E; subst; cbn [notify putfd set_fdt]; rewrite N2; exact N0.
Qed.

Lemma flush_pending_KF : forall t fuel s, (forall k, In k (notify s) -> fdnum (fdt s k) <> t) ->
  ARes (KF t s) (epoll_flush_pending fuel s).
Proof.
  intros t. induction fuel as [|f IH]; intros s H; cbn [epoll_flush_pending]; destruct (notify s) as [|k l] eqn:NS;
    cbn [ARes halt]; try apply KF_refl; try exact I.
  assert (NK : fdnum (fdt s k) <> t) by (apply H; left; reflexivity).
  unfold epoll_flush_one. destruct (epoll_flush_one_ s k) as [s1 b] eqn:E.
  pose proof (flush_one__KF t s k s1 b NK E) as K1.
  destruct b; cbn [bind ARes halt]; [exact I|].
  eapply ARes_imp; [apply IH|cbn beta; intros s2 K2; eapply KF_trans; eassumption].
  intros y Y. rewrite (kf_fdnum _ _ _ K1). apply H. rewrite <- NS. eapply flush_one__notify; eassumption.
Qed.

Lemma epoll_notify_KF : forall t s k, KF t s (epoll_notify_fd s k).
Proof. intros t s k. unfold epoll_notify_fd. dm; kf_plain. Qed.

Lemma epoll_unregister_KF : forall t s k, fdnum (fdt s k) <> t -> ARes (KF t s) (epoll_unregister_fd s k).
Proof. intros t s k N. unfold epoll_unregister_fd. dm; [apply flush_one_KF; exact N|apply KF_refl]. Qed.

(* ---------- poll back end: the kernel is not involved ---------- *)
Lemma poll_notify_KF : forall t s k, ARes (KF t s) (poll_notify_fd s k).
Proof.
  intros t s k. unfold poll_notify_fd. cbv zeta.
  destruct ((pidx (getfd s k) =? -1) && negb (wanted (getfd s k) =? 0)).
  { dm; cbn [ARes halt]; [exact I|].
    apply (KF_trans t _ (putfd s k (fd_with_pidx (getfd s k) (Z.of_nat (length (pfds s)))))); [apply KF_putfd; reflexivity|kf_plain]. }
  destruct (negb (pidx (getfd s k) =? -1) && (wanted (getfd s k) =? 0)).
  { dm; cbn [ARes halt]; [exact I|].
    match goal with |- KF t s (putfd ?S2 k ?F) => set (s2 := S2) end.
    assert (A2 : KF t s s2).
    { unfold s2. match goal with |- KF t s (set_poll ?S1 _ _) => set (s1 := S1) end.
      assert (A1 : KF t s s1).
      { unfold s1. destruct (negb _); [|apply KF_refl].
        destruct (nth_z (pfds s) _) as [pl|]; [|apply KF_refl].
        destruct (nth_z (pkeys s) _) as [kl|]; [|apply KF_refl].
        eapply KF_trans; [|apply KF_putfd; reflexivity]. kf_plain. }
      eapply KF_trans; [exact A1|kf_plain]. }
    eapply KF_trans; [exact A2|apply KF_putfd; reflexivity]. }
  destruct (negb (pidx (getfd s k) =? -1)); [|apply KF_refl].
  destruct (nth_z (pfds s) _); cbn [ARes halt]; [kf_plain|exact I].
Qed.

Lemma poll_notify_sync_KF : forall t s k, ARes (KF t s) (fst (poll_notify_fd_sync s k)).
Proof. intros t s k. unfold poll_notify_fd_sync. dm; cbn [fst]; [apply KF_refl|apply poll_notify_KF]. Qed.

Lemma m_notify_KF : forall t s k, ARes (KF t s) (m_notify_fd s k).
Proof. intros t s k. unfold m_notify_fd. dm; [apply epoll_notify_KF|apply poll_notify_KF]. Qed.

Lemma notify_fd_KF : forall t s k, ARes (KF t s) (notify_fd s k).
Proof.
  intros t s k. unfold notify_fd.
  eapply ARes_imp; [apply m_notify_KF|]. cbn beta. intros s1 A1.
  apply (KF_trans t _ (putfd s k (recompute_wanted (getfd s k)))); [apply KF_putfd; reflexivity|exact A1].
Qed.

(* ---------- register / unregister ---------- *)
Lemma prologue_KF : forall t s k, KF t s (register_prologue s k).
Proof. intros t s k. unfold register_prologue. apply KF_putfd. dm; reflexivity. Qed.

Lemma epilogue_KF : forall t s, KF t s (register_epilogue s).
Proof. intros. kf_plain. Qed.

Lemma fd_register_KF : forall t s k, ARes (KF t s) (fd_register s k).
Proof.
  intros t s k. unfold fd_register. eapply ARes_bind; [apply notify_fd_KF|]. cbn beta.
  intros s1 A1. cbn [ARes]. eapply KF_trans; [apply prologue_KF|]. eapply KF_trans; [exact A1|apply epilogue_KF].
Qed.

Lemma fd_unregister_KF : forall t s k, fdnum (fdt s k) <> t -> ARes (KF t s) (fd_unregister s k).
Proof.
  intros t s k N. unfold fd_unregister. cbv zeta.
  set (s0 := set_active _ _).
  assert (A0 : KF t s s0).
  { unfold s0. apply (KF_trans t _ (putfd s k (fd_with_registered (getfd s k) false))); [apply KF_putfd; reflexivity|kf_plain]. }
  eapply ARes_bind; [apply notify_fd_KF|]. cbn beta. intros s1 A1.
  eapply ARes_bind with (P := KF t s1).
  { destruct (is_epoll s1); [|apply KF_refl]. apply epoll_unregister_KF.
    rewrite (kf_fdnum _ _ _ A1), (kf_fdnum _ _ _ A0). exact N. }
  cbn beta. intros s2 A2. cbn [ARes].
  eapply KF_trans; [exact A0|]. eapply KF_trans; [exact A1|]. eapply KF_trans; [exact A2|].
  destruct (handled _) as [h|]; [destruct (h =? k)|]; kf_plain.
Qed.

Lemma fd_set_handler_KF : forall t s k band h, ARes (KF t s) (fd_set_handler s k band h).
Proof.
  intros t s k band h. unfold fd_set_handler. cbv zeta.
  match goal with |- ARes _ (if _ then notify_fd ?S k else _) => assert (A0 : KF t s S) end.
  { apply KF_putfd. repeat dm; reflexivity. }
  destruct (registered (getfd s k)); [|exact A0].
  eapply ARes_imp; [apply notify_fd_KF|]. cbn beta. intros s1 A1. eapply KF_trans; eassumption.
Qed.

Lemma fd_register_try_KF : forall t s k, fdnum (fdt s k) <> t -> ARes (KF t s) (fst (fd_register_try s k)).
Proof.
  intros t s k N. unfold fd_register_try.
  set (s1 := register_prologue s k).
  set (s2 := putfd s1 k (recompute_wanted (getfd s1 k))).
  set (orig := wanted (getfd s2 k)).
  set (s3 := if orig =? 0 then putfd s2 k (fd_with_wanted (getfd s2 k) (M_IN + M_OUT)) else s2).
  assert (A3 : KF t s s3).
  { eapply KF_trans; [apply prologue_KF|]. fold s1.
    apply (KF_trans t _ s2); [apply KF_putfd; reflexivity|].
    unfold s3. destruct (orig =? 0); [apply KF_putfd; reflexivity|apply KF_refl]. }
  assert (N3 : fdnum (fdt s3 k) <> t) by (rewrite (kf_fdnum _ _ _ A3); exact N).
  assert (FAIL : forall s4, KF t s3 s4 ->
     ARes (KF t s)
       ((fun s => let s := putfd s k (fd_with_registered (getfd s k) false) in
                  if is_epoll s then epoll_unregister_fd s k else R s) s4)).
  { intros s4 A4. cbv beta zeta. set (s5 := putfd s4 k _).
    assert (A5 : KF t s s5).
    { eapply KF_trans; [exact A3|]. eapply KF_trans; [exact A4|]. apply KF_putfd. reflexivity. }
    destruct (is_epoll s5); [|exact A5].
    eapply ARes_imp; [apply epoll_unregister_KF; rewrite (kf_fdnum _ _ _ A5); exact N|].
    cbn beta. intros s6 A6. eapply KF_trans; eassumption. }
  assert (OKC : forall s4, KF t s3 s4 ->
     ARes (KF t s)
       ((fun s => bind (if orig =? 0 then m_notify_fd (putfd s k (fd_with_wanted (getfd s k) 0)) k else R s)
            (fun s => R (register_epilogue s))) s4)).
  { intros s4 A4. cbv beta. eapply ARes_bind with (P := KF t s4).
    - destruct (orig =? 0); [|apply KF_refl].
      eapply ARes_imp; [apply m_notify_KF|]. cbn beta. intros s5 A5.
      apply (KF_trans t _ (putfd s4 k (fd_with_wanted (getfd s4 k) 0))); [apply KF_putfd; reflexivity|exact A5].
    - cbn beta. intros s5 A5. cbn [ARes].
      eapply KF_trans; [exact A3|]. eapply KF_trans; [exact A4|]. eapply KF_trans; [exact A5|apply epilogue_KF]. }
  destruct (is_epoll s3).
  - destruct (epoll_flush_one_ s3 k) as [s4 fl] eqn:F. apply (flush_one__KF t) in F; [|exact N3].
    destruct fl; cbn [fst bind]; [apply FAIL|apply OKC]; exact F.
  - pose proof (poll_notify_sync_KF t s3 k) as Q.
    destruct (poll_notify_fd_sync s3 k) as [r fl]. cbn [fst] in Q.
    destruct fl; cbn [fst]; (eapply ARes_bind; [exact Q|]); [exact FAIL|exact OKC].
Qed.

Lemma make_ready_KF : forall t s k b, KF t s (make_ready s k b).
Proof.
  intros t s k b. unfold make_ready.
  match goal with |- KF t s (putfd ?S k _) => assert (A : KF t s S) end.
  { dm; [apply KF_refl|]. eapply KF_trans; [apply KF_putfd|kf_plain]. reflexivity. }
  eapply KF_trans; [exact A|apply KF_putfd; reflexivity].
Qed.

Lemma activate_KF : forall t s k bits, KF t s (activate s k bits).
Proof.
  intros t s k bits. unfold activate. cbv zeta.
  repeat match goal with |- context [if ?c then _ else _] => destruct c end;
    repeat (eapply KF_trans; [|apply make_ready_KF]); apply KF_refl.
Qed.

Lemma do_close_KF : forall t s fd, fd <> t -> KF t s (do_close s fd).
Proof.
  intros t s fd N. unfold do_close. pose proof (KT_close t (kern s) fd N) as K.
  destruct (k_close (kern s) fd) as [k1 ok]. cbn [fst] in K.
  destruct ok; constructor; try reflexivity; auto.
Qed.
