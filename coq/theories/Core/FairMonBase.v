(* FairMonBase.v -- the monitor FairMon along a run of the model: its state after the trace prefix of a model
   state (fst), which events leave f_fail / f_due alone, agreement of f_reg / f_exp with the tracker's a_tm / a_exp. *)
From Coq Require Import List ZArith Bool Lia.
From Ivv Require Import Core.Kernel Core.CoreTypes Core.CoreFd Core.CoreModel Core.Monitors Core.FairMon Core.CoreSpec
  Core.CoreRelBase Core.CoreRelMon Core.CorePhase2AcctTr Core.CorePhase2AcctTr2.
Import ListNotations.
Local Open Scope Z_scope.

Definition frun (tr : list tev) : fmon := fold_left f_step tr f_init.
Definition fst (s : core) : fmon := frun (rev (trace s)).

Lemma fst_emit : forall s e, fst (emit s e) = f_step (fst s) e.
Proof. intros s e. unfold fst, frun, emit. cbn [trace set_trace rev]. rewrite fold_left_app. reflexivity. Qed.

Lemma fst_app : forall s s' l, trace s' = l ++ trace s -> fst s' = fold_left f_step (rev l) (fst s).
Proof. intros s s' l E. unfold fst, frun. rewrite E, rev_app_distr, fold_left_app. reflexivity. Qed.

Lemma fst_same : forall s s', trace s' = trace s -> fst s' = fst s.
Proof. intros s s' E. unfold fst. rewrite E. reflexivity. Qed.

(* events that neither open nor close a wait *)
Definition qf (e : tev) : Prop := match e with TRet _ _ _ | TWait _ _ _ _ _ _ | TEnd _ _ => False | _ => True end.

Lemma ch_qf : forall e, ch e -> qf e.
Proof. intros e. destruct e; cbn; tauto. Qed.
Lemma ca_qf : forall e, ca e -> qf e.
Proof. intros e H. apply ch_qf, ca_ch, H. Qed.

Lemma f_drop_incl : forall j l, incl (f_drop j l) l.
Proof. intros j l x H. unfold f_drop in H. apply filter_In in H. apply H. Qed.

Lemma In_f_drop : forall j l x, In x (f_drop j l) <-> In x l /\ x <> j.
Proof.
  intros j l x. unfold f_drop. rewrite filter_In. split; intros [A B]; split; try exact A.
  - apply negb_true_iff in B. apply Z.eqb_neq in B. exact B.
  - apply negb_true_iff. apply Z.eqb_neq. exact B.
Qed.

Lemma qf_step : forall m e, qf e -> f_fail (f_step m e) = f_fail m /\ incl (f_due (f_step m e)) (f_due m).
Proof.
  intros m e Q. destruct e; cbn [qf] in Q; try contradiction; cbn [f_step];
    try (split; [reflexivity|apply incl_refl]).
  - split; [reflexivity|apply f_drop_incl].
  - destruct a; cbn [f_fail f_due]; try (split; [reflexivity|apply incl_refl]); split; try reflexivity; apply f_drop_incl.
Qed.

Lemma qf_fold : forall l m, Forall qf l ->
  f_fail (fold_left f_step l m) = f_fail m /\ incl (f_due (fold_left f_step l m)) (f_due m).
Proof.
  induction l as [|e l IH]; intros m F; cbn [fold_left]; [split; [reflexivity|apply incl_refl]|].
  inversion F as [|? ? F1 F2]; subst. destruct (IH (f_step m e) F2) as [A B]. destruct (qf_step m e F1) as [C D].
  split; [congruence|eapply incl_tran; eassumption].
Qed.

Lemma TrExt_qf : forall s s', TrExt qf s s' ->
  f_fail (fst s') = f_fail (fst s) /\ incl (f_due (fst s')) (f_due (fst s)).
Proof.
  intros s s' (l & E & F). rewrite (fst_app s s' l E). apply qf_fold. apply Forall_rev. exact F.
Qed.

Lemma incl_nil : forall (A : Type) (l : list A), incl l [] -> l = [].
Proof. intros A l H. destruct l as [|x l]; [reflexivity|]. destruct (H x (or_introl eq_refl)). Qed.

Lemma TrExt_qf_nil : forall s s', TrExt qf s s' -> f_due (fst s) = [] -> f_due (fst s') = [].
Proof. intros s s' T E. destruct (TrExt_qf s s' T) as [_ I]. rewrite E in I. apply incl_nil. exact I. Qed.

(* ---------- the due list only holds registered timers whose expiry is not after the last return ---------- *)
Definition due_ok (clk : Z) (m : fmon) : Prop :=
  forall j, In j (f_due m) -> 0 <= j < 16 /\ f_reg m j = true /\ f_exp m j <= clk.

Lemma upd_same : forall (A : Type) (f : Z -> A) x v, upd f x v x = v.
Proof. intros. unfold upd. rewrite Z.eqb_refl. reflexivity. Qed.
Lemma upd_other : forall (A : Type) (f : Z -> A) x v y, y <> x -> upd f x v y = f y.
Proof. intros A f x v y N. unfold upd. apply Z.eqb_neq in N. rewrite N. reflexivity. Qed.

Lemma due_ok_step : forall clk m e, qf e -> due_ok clk m -> due_ok clk (f_step m e).
Proof.
  intros clk m e Q D. destruct e; cbn [qf] in Q; try contradiction; cbn [f_step]; try exact D.
  - intros x H. cbn [f_due f_reg f_exp] in *. apply In_f_drop in H. destruct H as [H N]. destruct (D x H) as (A & B & C).
    rewrite upd_other by exact N. auto.
  - destruct a; try exact D; intros x H; cbn [f_due f_reg f_exp] in *; apply In_f_drop in H; destruct H as [H N];
      destruct (D x H) as (A & B & C); rewrite ?upd_other by exact N; auto.
Qed.

Lemma due_ok_fold : forall clk l m, Forall qf l -> due_ok clk m -> due_ok clk (fold_left f_step l m).
Proof.
  intros clk. induction l as [|e l IH]; intros m F D; cbn [fold_left]; [exact D|].
  inversion F as [|? ? F1 F2]; subst. apply IH; [exact F2|apply due_ok_step; assumption].
Qed.

Lemma TrExt_due_ok : forall clk s s', TrExt qf s s' -> due_ok clk (fst s) -> due_ok clk (fst s').
Proof. intros clk s s' (l & E & F) D. rewrite (fst_app s s' l E). apply due_ok_fold; [apply Forall_rev; exact F|exact D]. Qed.

Lemma due_ok_nil : forall clk m, f_due m = [] -> due_ok clk m.
Proof. intros clk m E j H. rewrite E in H. destruct H. Qed.

Lemma In_all_timers : forall j, In j all_timers -> 0 <= j < 16.
Proof. intros j H. unfold all_timers in H. cbn [In] in H. lia. Qed.

Lemma due_ok_ret : forall m n fds clk, due_ok clk (f_step m (TRet (Some n) fds clk)).
Proof.
  intros m n fds clk j H. cbn [f_step f_due f_reg f_exp] in *. apply filter_In in H. destruct H as [A B].
  apply andb_true_iff in B. destruct B as [B C]. apply Z.leb_le in C. split; [apply In_all_timers; exact A|auto].
Qed.

(* ---------- f_reg / f_exp are the tracker's a_tm / a_exp ---------- *)
Lemma mv_tm : forall m' m0, mview m' = mview m0 -> a_tm m' = a_tm m0 /\ a_exp m' = a_exp m0.
Proof. intros m' m0 V. destruct (mview_fields m' m0 V) as (_ & _ & _ & A & B & _). split; assumption. Qed.

Definition tm_of (m : mon) (e : tev) : (Z -> bool) * (Z -> Z) :=
  match e with
  | TAct (ATmRegAbs j x) => (upd (a_tm m) j true, upd (a_exp m) j x)
  | TAct (ATmUnreg j) => (upd (a_tm m) j false, a_exp m)
  | TCallTimer j _ => (upd (a_tm m) j false, a_exp m)
  | _ => (a_tm m, a_exp m)
  end.

Lemma tm_step : forall m e, a_tm (mon_step m e) = Datatypes.fst (tm_of m e) /\ a_exp (mon_step m e) = Datatypes.snd (tm_of m e).
Proof.
  intros m e. destruct e; cbn [tm_of Datatypes.fst Datatypes.snd]; try (split; reflexivity).
  - apply mv_tm. apply mview_TCallFd.
  - apply (mv_tm _ (m_tms m (upd (a_tm m) j false) (a_exp m))). apply mview_TCallTimer.
  - apply (mv_tm _ _ (mview_TCallTask m j)).
  - apply (mv_tm _ _ (mview_TCallEvent m j)).
  - apply mv_tm. apply mview_TCallRaw.
  - apply mv_tm. apply mview_TWait.
  - destruct n as [n|].
    + apply (mv_tm _ _ (mview_TRet_some m n fds clk)).
    + apply (mv_tm _ _ (mview_TRet_none m fds clk)).
  - destruct a; split; reflexivity.
  - unfold mon_step. destruct (rc =? 0); [|split; reflexivity]. destruct (kind =? 0); [split; reflexivity|]. destruct (kind =? 1); split; reflexivity.
  - apply (mv_tm _ _ (mview_TEnd m quit numobjs)).
  - apply mv_tm. apply mview_TTear.
  - apply mv_tm. apply mview_TDone.
  - apply mv_tm. unfold mon_step. rewrite !mview_chk. reflexivity.
Qed.

Definition regag (fm : fmon) (m : mon) : Prop := (forall j, f_reg fm j = a_tm m j) /\ (forall j, f_exp fm j = a_exp m j).

Lemma regag_step : forall fm m e, regag fm m -> regag (f_step fm e) (mon_step m e).
Proof.
  intros fm m e [R X]. destruct (tm_step m e) as [A B]. unfold regag. rewrite A, B. clear A B.
  destruct e; cbn [f_step tm_of Datatypes.fst Datatypes.snd f_reg f_exp]; try (split; assumption).
  - split; intros j0; unfold upd; rewrite ?R, ?X; reflexivity.
  - destruct n; cbn [f_reg f_exp]; split; assumption.
  - destruct a; cbn [f_reg f_exp]; try (split; assumption); split; intros j0; unfold upd; rewrite ?R, ?X; reflexivity.
Qed.

Lemma regag_fold : forall l fm m, regag fm m -> regag (fold_left f_step l fm) (fold_left mon_step l m).
Proof. induction l as [|e l IH]; intros fm m H; cbn [fold_left]; [exact H|]. apply IH. apply regag_step. exact H. Qed.

Lemma regag_st : forall s, regag (fst s) (mst s).
Proof. intros s. unfold fst, frun, mst, mon_run. apply regag_fold. split; intros j; reflexivity. Qed.
