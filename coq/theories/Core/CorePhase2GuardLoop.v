(* CorePhase2GuardLoop.v -- the guard-monitor invariant through handler scripts and the callback
   dispatchers (events, raw events, descriptors, timers, tasks). *)
From Coq Require Import List ZArith Bool Lia.
From Ivv Require Import Core.Kernel Core.CoreTypes Core.CoreFd Core.CoreModel Core.Monitors Core.GuardMon Core.CoreSpec
  Core.CoreRel Core.CoreInvBase Core.CoreInvDefs Core.CoreInvFd Core.CoreInvPoll Core.CoreInvReg Core.CoreInvObj
  Core.CoreInvTm Core.CoreInvLoop Core.CoreInv
  Core.CorePhase2K1Base Core.CorePhase2K1Fd Core.CorePhase2K1Act Core.CorePhase2K1Inv Core.CorePhase2K1Loop
  Core.CorePhase2TimeMon Core.CorePhase2TimeFr Core.CorePhase2FdBase Core.CorePhase2FdMon Core.CorePhase2GuardMon
  Core.CorePhase2GuardAct Core.CorePhase2GuardInv.
From Ivv Require Timer.HeapModel Timer.HeapSpec Timer.HeapProofs Timer.HeapBase Timer.HeapFacts Timer.HeapUnreg.
Import ListNotations.
Local Open Scope Z_scope.

Section Loop.
Variable sc : scenario.
Hypothesis WF : wf_scenario sc.
Let dok := CoreInv.do_action_ok.

Definition Idle := RunS [].

Definition JR (b : bool) (r : res) : Prop := match r with R s1 => J b s1 | Halt _ => True end.

Lemma Post_JR : forall b s r, Post b s r -> JR b r.
Proof. intros b s r P. destruct r; cbn [Post JR] in *; [apply P|exact I]. Qed.
Lemma Post0_JR : forall b s r, Post0 b s r -> JR b r.
Proof. intros b s r P. destruct r; cbn [Post0 JR] in *; [apply P|exact I]. Qed.
Lemma PostT_JR : forall s r, PostT s r -> JR true r.
Proof. intros s r P. destruct r; cbn [PostT JR] in *; [apply P|exact I]. Qed.

(* all three invariants on a result *)
Definition QA (b : bool) (P : core -> gmon -> Prop) (r : res) : Prop :=
  match r with R s' => J b s' /\ InvW s' /\ GI sc P s' | Halt s' => GOK (gst sc s') end.

Lemma QA_mk : forall b P s r, JR b r -> PK s r -> QG sc P r -> QA b P r.
Proof.
  intros b P s r A B C. destruct r as [s'|s']; cbn [JR PK ARes QG QA] in *; [|exact C].
  unfold PK in B. cbn [ARes] in B. split; [exact A|split; [apply B|exact C]].
Qed.

Lemma QA_QG : forall b P r, QA b P r -> QG sc P r.
Proof. intros b P r H. destruct r; cbn [QA QG] in *; [apply H|exact H]. Qed.

Lemma QG_bind : forall b P Q r f, QA b P r -> (forall s1, J b s1 -> InvW s1 -> GI sc P s1 -> QG sc Q (f s1)) ->
  QG sc Q (bind r f).
Proof.
  intros b P Q r f H K. destruct r as [s1|s1]; cbn [bind QA QG] in *; [|exact H].
  destruct H as (A & B & C). apply K; assumption.
Qed.

Lemma QG_same : forall P s, GI sc P s -> QG sc P (R s). Proof. intros P s H. exact H. Qed.

Lemma QG_halt : forall P Q s e, GI sc P s -> halt_ev e -> QG sc Q (halt s e).
Proof. intros P Q s e G H. cbn [QG halt]. apply (GOK_halt sc P); assumption. Qed.

(* ---------- scripts ---------- *)
Lemma run_acts_GS : forall l b s rest, J b s -> InvW s -> Forall wf_action l -> GI sc (RunS (l ++ rest)) s ->
  QG sc (RunS rest) (run_acts s l).
Proof.
  induction l as [|a l IH]; intros b s rest Jh IW W G; cbn [run_acts]; [exact G|].
  inversion W as [|? ? W1 W2]; subst.
  apply (QG_bind b (RunS (l ++ rest))).
  - apply (QA_mk b _ s); [apply (Post_JR b s); apply do_action_post; assumption|apply (do_action_K dok); assumption|].
    apply (do_action_GS sc b); assumption.
  - intros s1 J1 I1 G1. apply (IH b); assumption.
Qed.

Lemma wait_wf' : forall a, wf_wait_action a -> wf_action a.
Proof. intros a H. destruct a; cbn [wf_wait_action wf_action] in *; try contradiction; exact H. Qed.

Lemma run_acts_GW : forall l s rest, J true s -> InvW s -> Forall wf_wait_action l -> GI sc (RunW sc (l ++ rest)) s ->
  QG sc (RunW sc rest) (run_acts s l).
Proof.
  induction l as [|a l IH]; intros s rest Jh IW W G; cbn [run_acts]; [exact G|].
  inversion W as [|? ? W1 W2]; subst. pose proof (wait_wf' a W1) as W1'.
  apply (QG_bind true (RunW sc (l ++ rest))).
  - apply (QA_mk true _ s); [apply (Post_JR true s); apply do_action_post; assumption|apply (do_action_K dok); assumption|].
    apply (do_action_GW sc); assumption.
  - intros s1 J1 I1 G1. apply IH; assumption.
Qed.

(* a state change without trace that keeps the scripted descriptors and the wait counter *)
Lemma GI_idle_step : forall s s', GI sc Idle s -> trace s' = trace s -> invoc s' = invoc s ->
  UC (kern s) (kern s') -> nwait (kern s') = nwait (kern s) -> GI sc Idle s'.
Proof.
  intros s s' G T I U N. apply (GI_step sc Idle Idle s s' G T I U). intros g. apply RunS_nw. exact N.
Qed.

Lemma GI_idle_same : forall s s', GI sc Idle s -> trace s' = trace s -> invoc s' = invoc s -> kern s' = kern s ->
  GI sc Idle s'.
Proof. intros s s' G T I K. apply (GI_idle_step s s' G T I); rewrite K; [apply UC_refl|reflexivity]. Qed.

(* a callback is announced and its script runs *)
Lemma call_script_G : forall b e key s, call_key e = Some key -> J b (emit s e) -> InvW (emit s e) -> GI sc Idle s ->
  QG sc Idle (run_script sc (emit s e) key).
Proof.
  intros b e key s CK J1 IW1 [OK B]. set (s1 := emit s e) in *. set (g := gst sc s) in *.
  assert (G1 : gst sc s1 = gstep sc g e) by apply gst_emit.
  assert (ST : GOK (gst sc s1) /\
               (g_done (gst sc s1) = false ->
                g_done g = false /\ GB s g /\ g_nwait g = nwait (kern s) /\
                g_todo (gst sc s1) = snd (script_at sc (g_inv g) key) /\ g_inv (gst sc s1) = fst (script_at sc (g_inv g) key) /\
                g_closed (gst sc s1) = g_closed g /\ g_nwait (gst sc s1) = g_nwait g /\ g_wloaded (gst sc s1) = false)).
  { rewrite G1. destruct (g_done g) eqn:D.
    - rewrite gstep_done_id by exact D. split; [exact OK|]. intros X. rewrite D in X. discriminate X.
    - destruct (B eq_refl) as [GBs (N & WL & p & T & F)].
      assert (L : leftovers g = false) by (apply leftovers_na; rewrite T, app_nil_r; exact F).
      destruct (gstep_call sc g e key D CK L) as (H1 & H2 & H3 & H4 & H5 & H6 & H7). cbv zeta in H1, H2, H3, H4, H5, H6, H7.
      split; [apply (GOK_eq g); assumption|]. intros _.
      split; [reflexivity|]. split; [exact GBs|]. split; [exact N|]. split; [exact H1|]. split; [exact H2|].
      split; [exact H3|]. split; [exact H4|]. rewrite H5. exact WL. }
  destruct ST as [OK1 ST].
  unfold run_script. pose proof (wf_handlers sc WF key) as WH.
  destruct (sc_handlers sc key) as [|l0 ls] eqn:EH.
  - cbn [QG]. split; [exact OK1|]. intros D1. destruct (ST D1) as (D & [B1 B2] & N & H1 & H2 & H3 & H4 & H5).
    unfold script_at in H1, H2. rewrite EH in H1, H2. cbn [fst snd] in H1, H2.
    split; [constructor; [rewrite H2; exact B1|rewrite H3; exact B2]|].
    split; [rewrite H4; exact N|]. split; [exact H5|]. exists []. split; [rewrite H1; reflexivity|constructor].
  - set (lists := l0 :: ls) in *.
    set (k := if invoc s1 key <? Z.of_nat (length lists) then invoc s1 key else Z.of_nat (length lists) - 1).
    set (s2 := set_invoc s1 _).
    assert (J2 : J b s2) by (apply (J_irr b s1 s2 J1); reflexivity).
    assert (IW2 : InvW s2) by (apply InvW_set_invoc; exact IW1).
    assert (WS : Forall wf_action (nth (Z.to_nat k) lists [])).
    { destruct (nth_in_or_default (Z.to_nat k) lists []) as [H|H].
      - rewrite Forall_forall in WH. apply WH. assumption.
      - rewrite H. constructor. }
    apply (run_acts_GS _ b s2 []); [exact J2|exact IW2|exact WS|].
    unfold GI. rewrite (gst_trace sc s1 s2 eq_refl). split; [exact OK1|]. intros D1.
    destruct (ST D1) as (D & [B1 B2] & N & H1 & H2 & H3 & H4 & H5).
    unfold script_at in H1, H2. rewrite EH in H1, H2. fold lists in H1, H2. cbv zeta in H1, H2. cbn [fst snd] in H1, H2.
    rewrite B1 in H1, H2. change (invoc s) with (invoc s1) in H1, H2. fold k in H1.
    split; [constructor; [rewrite H2; reflexivity|rewrite H3; exact B2]|].
    split; [rewrite H4; exact N|]. split; [exact H5|]. exists []. split; [rewrite H1, app_nil_r; reflexivity|constructor].
Qed.

Lemma call_script_A : forall e key s, call_key e = Some key -> J true (emit s e) -> InvW (emit s e) -> GI sc Idle s ->
  QA true Idle (run_script sc (emit s e) key).
Proof.
  intros e key s CK J1 IW1 G. apply (QA_mk true Idle (emit s e)).
  - apply (Post_JR true (emit s e)). apply run_script_post; assumption.
  - apply (run_script_K sc WF dok); exact IW1.
  - apply (call_script_G true); assumption.
Qed.

(* ---------- events ---------- *)
Lemma events_loop_G : forall fuel s, J true s -> InvW s -> GI sc Idle s -> QG sc Idle (events_loop sc fuel s).
Proof.
  induction fuel as [|fuel IH]; intros s Jh IW G; cbn [events_loop].
  - destruct (ev_batch s) as [|ie rest]; [exact G|]. apply (QG_halt Idle); [exact G|exact I].
  - destruct (ev_batch s) as [|ie rest] eqn:B; [exact G|].
    pose proof (J_call_event s ie rest Jh B) as J1. cbv zeta.
    set (s0 := set_evlists s (ev_pending s) rest) in *.
    assert (I0 : InvW s0).
    { apply InvW_evlists; [assumption| |].
      - intros j Hj. rewrite B. apply in_app_or in Hj. apply in_or_app. destruct Hj; [left; assumption|right; right; assumption].
      - pose proof (ev_nodup _ (iw_ev _ IW)) as ND. rewrite B in ND. apply NoDup_remove_1 in ND. assumption. }
    assert (I1 : InvW (emit s0 (TCallEvent ie))) by (apply InvW_emit; [assumption|discriminate..]).
    assert (G0 : GI sc Idle s0) by (apply (GI_idle_same s s0 G); reflexivity).
    apply (QG_bind true Idle); [apply (call_script_A (TCallEvent ie) (HK_E + ie) s0); [reflexivity|exact J1|exact I1|exact G0]|].
    intros s2 J2 I2 G2. destruct rest; [exact G2|apply IH; assumption].
Qed.

Lemma run_pending_events_G : forall s, J true s -> InvW s -> GI sc Idle s -> QG sc Idle (run_pending_events sc s).
Proof.
  intros s Jh IW G. unfold run_pending_events.
  destruct (ev_pending s) as [|p0 pl] eqn:P; [exact G|].
  set (p := p0 :: pl) in *. set (s1 := set_evlists s [] p).
  destruct (J_SiEv _ _ Jh) as [S1 S2]. pose proof (J_AgEv _ _ Jh) as GE.
  assert (SUB : forall y, In y ([] ++ p) -> In y (ev_pending s ++ ev_batch s)).
  { intros y H. cbn [app] in H. rewrite P. apply in_or_app. left. exact H. }
  assert (J1 : J true s1).
  { apply (J_upd true s s1 Jh); try reflexivity; try (apply (j_good _ _ Jh));
      try (solve [left; repeat split; first [reflexivity | intros; apply fkeep_refl]]).
    - right. intros y Y. destruct (GE y Y) as [G1' G2]. split; [exact G1'|].
      intros H. apply G2. apply ev_on_list_In. apply SUB. apply ev_on_list_In in H. exact H.
    - right. split; cbn [s1 ev_pending ev_batch set_evlists ev_reg].
      + intros y H. apply S1. apply SUB. exact H.
      + cbn [app]. rewrite P in S2. apply NoDup_app_iff in S2. apply S2.
    - apply (FdI_keep s s1 (-1) (j_fd _ _ Jh)); reflexivity.
    - apply (FdX_keep s s1 (j_fx _ _ Jh)); try reflexivity; intros; repeat split. }
  assert (I1 : InvW s1).
  { apply InvW_evlists; [assumption| |].
    - intros j Hj. rewrite P. apply in_or_app. left. exact Hj.
    - pose proof (ev_nodup _ (iw_ev _ IW)) as ND. rewrite P in ND. apply NoDup_app_l in ND. exact ND. }
  apply events_loop_G; [exact J1|exact I1|apply (GI_idle_same s s1 G); reflexivity].
Qed.

Lemma run_pending_events_A : forall s, J true s -> InvW s -> GI sc Idle s -> QA true Idle (run_pending_events sc s).
Proof.
  intros s Jh IW G. apply (QA_mk true Idle s).
  - apply (Post_JR true s). apply run_pending_events_post; assumption.
  - apply (run_pending_events_K sc WF dok); exact IW.
  - apply run_pending_events_G; assumption.
Qed.
(* ---------- raw events ---------- *)
Lemma raw_got_event_G : forall s j, J true s -> InvW s -> GI sc Idle s -> rw_reg s j = true -> (j = KICK_RAW \/ inr16 j) ->
  QG sc Idle (raw_got_event sc s j).
Proof.
  intros s j Jh IW G RJ JR'. unfold raw_got_event.
  set (toread := if raw_is_pipe s j then 1024 else 8).
  pose proof (ksame_read (kern s) (rw_rfd s j) toread) as KS.
  pose proof (kstable_read (kern s) (rw_rfd s j) toread) as KSt.
  destruct (au_raw _ (InvW_AU s IW) j RJ) as (_ & X2 & _).
  assert (UCr : UC (kern s) (fst (k_read (kern s) (rw_rfd s j) toread))).
  { apply KT_UC. intros t T. apply KT_read. unfold ufd in T. lia. }
  destruct (k_read (kern s) (rw_rfd s j) toread) as [k1 [n|e]]; cbn [fst] in KS, KSt, UCr.
  - set (s1 := set_kern s k1).
    assert (G1 : GI sc Idle s1) by (apply (GI_idle_step s s1 G); [reflexivity|reflexivity|exact UCr|apply (kt_nwait _ _ KSt)]).
    destruct (n =? 0); [apply (QG_halt Idle); [exact G1|exact I]|].
    pose proof (J_set_kern_plain true s k1 Jh KS) as J1. fold s1 in J1.
    assert (I1 : InvW s1) by (apply InvW_kstable; assumption).
    destruct (Z.eqb_spec j KICK_RAW) as [EK|NK]; [apply run_pending_events_G; assumption|].
    destruct JR' as [JR'|JR1]; [contradiction|].
    assert (J2 : J true (emit s1 (TCallRaw j))).
    { apply J_event_same; [exact J1|apply mview_TCallRaw|].
      apply good_TCallRaw; [apply (j_good _ _ J1)|apply (j_main _ _ J1)|].
      rewrite (J_AgRw _ _ J1 j JR1). exact RJ. }
    apply (call_script_G true (TCallRaw j) (HK_R + j) s1); [reflexivity|exact J2|apply InvW_emit; [exact I1|discriminate..]|exact G1].
  - set (s1 := set_kern s k1).
    assert (G1 : GI sc Idle s1) by (apply (GI_idle_step s s1 G); [reflexivity|reflexivity|exact UCr|apply (kt_nwait _ _ KSt)]).
    destruct e; try (apply (QG_halt Idle); [exact G1|exact I]). exact G1.
Qed.

(* ---------- descriptor callbacks ---------- *)
Lemma call_fd_G : forall s k band h, J true s -> InvW s -> GI sc Idle s -> 0 <= k <= 32 -> registered (fdt s k) = true ->
  ((band = 0 /\ h = h_in (fdt s k)) \/ (band = 1 /\ h = h_out (fdt s k)) \/ (band = 2 /\ h = h_err (fdt s k))) ->
  QG sc Idle (call_fd sc s k band h).
Proof.
  intros s k band h Jh IW G K RG HB. unfold call_fd.
  destruct h as [hid|]; [|exact G].
  assert (HS : hsel (fdt s k) (Some hid)).
  { unfold hsel. destruct HB as [[_ E]|[[_ E]|[_ E]]]; auto. }
  destruct (Z_lt_ge_dec k 16) as [KU|KD].
  - assert (I16 : inr16 k) by (unfold inr16; lia).
    destruct (dy_userh _ (iw_dyn _ IW) k ltac:(lia)) as (A & B & C).
    assert (HR : 0 <= hid < 16) by (destruct HS as [Q|[Q|Q]]; symmetry in Q; [apply A|apply B|apply C]; assumption).
    destruct (Z.leb_spec 1000 hid) as [L|L]; [lia|].
    destruct (J_AgFd _ _ Jh k I16) as (A1 & A2 & A3 & A4 & A5).
    set (ev := TCallFd k band hid (cookie (getfd s k))).
    assert (J2 : J true (emit s ev)).
    { apply J_event_same; [exact Jh|apply mview_TCallFd|].
      apply good_TCallFd; [apply (j_good _ _ Jh)|apply (j_main _ _ Jh)|congruence| |exact A5].
      destruct HB as [[-> E]|[[-> E]|[-> E]]]; congruence. }
    apply (call_script_G true ev hid s); [reflexivity|exact J2|apply InvW_emit; [exact IW|discriminate..]|exact G].
  - set (j := k - 16). assert (JJ : 0 <= j <= 16) by (subst j; lia).
    assert (KJ : k = 16 + j) by (subst j; lia).
    pose proof (dy_reg _ (iw_dyn _ IW) j JJ) as RR. rewrite <- KJ, RG in RR. symmetry in RR.
    destruct (dy_obj _ (iw_dyn _ IW) j RR) as (_ & A & B & C). rewrite <- KJ in A, B, C.
    assert (hid = 1000 + j).
    { destruct HS as [Q|[Q|Q]]; rewrite ?A, ?B, ?C in Q; try discriminate. unfold H_RAW in Q. congruence. }
    subst hid. destruct (Z.leb_spec 1000 (1000 + j)); [|lia].
    replace (1000 + j - 1000) with j by lia. apply raw_got_event_G; try assumption.
    destruct (Z.eq_dec j KICK_RAW) as [E|N]; [left; exact E|right]. unfold KICK_RAW in N. unfold inr16. lia.
Qed.

Lemma guarded_call_G : forall s k band (c : bool), J true s -> InvW s -> GI sc Idle s -> 0 <= k <= 32 ->
  (handled s = Some k \/ handled s = None) -> (band = 0 \/ band = 1 \/ band = 2) ->
  let h := if band =? 0 then h_in (fdt s k) else if band =? 1 then h_out (fdt s k) else h_err (fdt s k) in
  QG sc Idle (match handled s with
              | Some _ => if c then call_fd sc s k band h else R s
              | None => R s
              end).
Proof.
  intros s k band c Jh IW G K H B h.
  destruct (handled s) as [k'|] eqn:HD; [|exact G].
  destruct c; [|exact G].
  destruct H as [H|H]; [|discriminate]. inversion H; subst k'.
  apply call_fd_G; try assumption; [apply (handled_reg _ _ IW HD)|].
  unfold h. destruct B as [->|[->| ->]]; cbn; auto.
Qed.

Lemma dispatch_active_G : forall fuel s, J true s -> InvW s -> GI sc Idle s -> QG sc Idle (dispatch_active sc fuel s).
Proof.
  induction fuel as [|fuel IH]; intros s Jh IW G; cbn [dispatch_active].
  - destruct (active s) as [|k rest]; [exact G|]. apply (QG_halt Idle); [exact G|exact I].
  - destruct (active s) as [|k rest] eqn:A; [exact G|].
    destruct (J_pop_active s k rest Jh A) as [J1 K].
    set (s1 := set_handled (set_active s rest) (Some k)) in *.
    pose proof (iw_fd _ IW) as FI.
    assert (LV : live s (-1) k) by (apply (fv_active _ _ FI); rewrite A; left; reflexivity).
    assert (I1 : InvW s1).
    { apply InvW_act_handled; [assumption| |].
      - intros k0 H. apply (fv_active _ _ FI). rewrite A. right. assumption.
      - intros k0 H. injection H as <-. assumption. }
    assert (G1 : GI sc Idle s1) by (apply (GI_idle_same s s1 G); reflexivity).
    (* error band *)
    assert (PA : Post true s1 (if has (ready (getfd s1 k)) M_ERR then call_fd sc s1 k 2 (h_err (getfd s1 k)) else R s1)).
    { pose proof (CoreRelLoop.guarded_call sc WF s1 k 2 (has (ready (getfd s1 k)) M_ERR) J1 K (or_introl eq_refl) ltac:(auto)) as Q.
      cbv zeta in Q. change (handled s1) with (Some k) in Q. cbn in Q. exact Q. }
    assert (KA : PK s1 (if has (ready (getfd s1 k)) M_ERR then call_fd sc s1 k 2 (h_err (getfd s1 k)) else R s1)).
    { pose proof (guarded_call_K sc WF dok s1 k (has (ready (getfd s1 k)) M_ERR) 2 h_err I1 (or_introl eq_refl)
                    ltac:(intros; right; right; reflexivity)) as Q.
      change (handled s1) with (Some k) in Q. cbv iota in Q. exact Q. }
    assert (QA' : QG sc Idle (if has (ready (getfd s1 k)) M_ERR then call_fd sc s1 k 2 (h_err (getfd s1 k)) else R s1)).
    { pose proof (guarded_call_G s1 k 2 (has (ready (getfd s1 k)) M_ERR) J1 I1 G1 K (or_introl eq_refl) ltac:(auto)) as Q.
      cbv zeta in Q. change (handled s1) with (Some k) in Q. cbn in Q. exact Q. }
    destruct (if has (ready (getfd s1 k)) M_ERR then call_fd sc s1 k 2 (h_err (getfd s1 k)) else R s1) as [s2|s2];
      unfold PK in KA; cbn [bind Post QG ARes] in *; [|exact QA'].
    destruct PA as [J2 F2]. destruct KA as [I2 _].
    (* input band *)
    pose proof (CoreRelLoop.guarded_call sc WF s2 k 0 (has (ready (getfd s2 k)) M_IN) J2 K (proj1 F2) ltac:(auto)) as PB.
    pose proof (guarded_call_K sc WF dok s2 k (has (ready (getfd s2 k)) M_IN) 0 h_in I2 (proj1 F2)
                  ltac:(intros; left; reflexivity)) as KB.
    pose proof (guarded_call_G s2 k 0 (has (ready (getfd s2 k)) M_IN) J2 I2 QA' K (proj1 F2) ltac:(auto)) as QB.
    cbv zeta in PB, QB. cbn [Z.eqb] in PB, QB.
    match type of PB with Post true s2 ?X => change X with
      (match handled s2 with
       | Some _ => if has (ready (getfd s2 k)) M_IN then call_fd sc s2 k 0 (h_in (getfd s2 k)) else R s2
       | None => R s2 end) in PB, QB end.
    destruct (match handled s2 with
       | Some _ => if has (ready (getfd s2 k)) M_IN then call_fd sc s2 k 0 (h_in (getfd s2 k)) else R s2
       | None => R s2 end) as [s3|s3]; unfold PK in KB; cbn [bind Post QG ARes] in *; [|exact QB].
    destruct PB as [J3 F3]. destruct KB as [I3 _].
    pose proof (CoreRelDefs.Fr_trans _ _ _ F2 F3) as F13.
    (* output band *)
    pose proof (CoreRelLoop.guarded_call sc WF s3 k 1 (has (ready (getfd s3 k)) M_OUT) J3 K (proj1 F13) ltac:(auto)) as PC.
    pose proof (guarded_call_K sc WF dok s3 k (has (ready (getfd s3 k)) M_OUT) 1 h_out I3 (proj1 F13)
                  ltac:(intros; right; left; reflexivity)) as KC.
    pose proof (guarded_call_G s3 k 1 (has (ready (getfd s3 k)) M_OUT) J3 I3 QB K (proj1 F13) ltac:(auto)) as QC.
    cbv zeta in PC, QC. cbn [Z.eqb Pos.eqb] in PC, QC.
    match type of PC with Post true s3 ?X => change X with
      (match handled s3 with
       | Some _ => if has (ready (getfd s3 k)) M_OUT then call_fd sc s3 k 1 (h_out (getfd s3 k)) else R s3
       | None => R s3 end) in PC, QC end.
    destruct (match handled s3 with
       | Some _ => if has (ready (getfd s3 k)) M_OUT then call_fd sc s3 k 1 (h_out (getfd s3 k)) else R s3
       | None => R s3 end) as [s4|s4]; unfold PK in KC; cbn [bind Post QG ARes] in *; [|exact QC].
    destruct PC as [J4 F4]. destruct KC as [I4 _].
    apply IH; assumption.
Qed.
(* ---------- timers ---------- *)
Lemma timers_dispatch_G : forall fuel s, J true s -> InvW s -> GI sc Idle s -> QG sc Idle (timers_dispatch sc fuel s).
Proof.
  induction fuel as [|fuel IH]; intros s Jh IW G; cbn [timers_dispatch].
  - destruct (HeapModel.batch (heap s)) as [|t rest]; [exact G|]. apply (QG_halt Idle); [exact G|exact I].
  - destruct (HeapModel.batch (heap s)) as [|t rest] eqn:E; [exact G|].
    pose proof (J_call_timer s t rest Jh E) as J1. cbv zeta in J1. cbv zeta.
    pose proof (HeapFacts.HeapInv_Inv _ (iw_heap _ IW)) as HI.
    assert (T0 : HeapModel.tidx (heap s) t = 0).
    { apply (proj1 (HeapFacts.i_batch _ HI)). rewrite E. left. reflexivity. }
    destruct (HeapUnreg.pop_inv (heap s) t HI T0) as (HI1 & _ & _ & _ & B1 & N1 & _).
    rewrite E in HI1, B1, N1. cbn [HeapModel.remove_first] in HI1, B1, N1. rewrite Pos.eqb_refl in HI1, B1, N1.
    set (h1 := HeapModel.set_idx (HeapModel.set_batch (heap s) rest) t (-1)) in *.
    set (s1 := set_heap s h1) in *.
    assert (I1 : InvW s1) by (apply InvW_set_heap; [assumption|apply HeapFacts.Inv_HeapInv; assumption|assumption]).
    pose proof (InvW_validate s1 I1) as I2. set (s2 := validate_now s1) in *.
    assert (I3 : InvW (emit s2 (TCallTimer (Z.pos t - 1) (time s2)))) by (apply InvW_emit; [exact I2|discriminate..]).
    assert (G2 : GI sc Idle s2).
    { destruct (validate_plain s1) as [P Q]. apply (GI_idle_same s s2 G); unfold s2; [rewrite trace_validate_now|rewrite P|rewrite Q]; reflexivity. }
    apply (QG_bind true Idle).
    + apply (call_script_A (TCallTimer (Z.pos t - 1) (time s2)) (HK_T + (Z.pos t - 1)) s2); [reflexivity|exact J1|exact I3|exact G2].
    + intros s4 J4 I4 G4. apply IH; assumption.
Qed.

Lemma run_timers_G : forall s, J true s -> InvW s -> GI sc Idle s -> QG sc Idle (run_timers sc s).
Proof.
  intros s Jh IW G. unfold run_timers.
  destruct (HeapModel.num (heap s) =? 0); [exact G|].
  destruct (J_validate true s Jh) as (J1 & F1 & M1 & _). cbv zeta.
  pose proof (InvW_validate s IW) as I1.
  assert (G1 : GI sc Idle (validate_now s)).
  { destruct (validate_plain s) as [P Q]. apply (GI_idle_same s _ G); [apply trace_validate_now|exact P|exact Q]. }
  set (s1 := validate_now s) in *.
  destruct (J_SiTm _ _ J1) as [HI HR]. pose proof (J_AgTm _ _ J1) as GT.
  destruct (heap_collect_spec (heap s1) (time s1) HI) as (h' & C & I' & TT).
  rewrite C. unfold lift_heap. cbn [bind].
  destruct (heap_step s1 h' I1 (HeapFacts.Inv_HeapInv _ I')) as (I2 & N2). cbv zeta in I2, N2.
  set (s2 := set_numobjs (set_heap s1 h') _) in *.
  assert (J2 : J true s2).
  { apply (J_upd true s1 s2 J1); try reflexivity; try (apply (j_good _ _ J1));
      try (solve [left; repeat split; first [reflexivity | intros; apply fkeep_refl]]).
    - right. intros y Y. destruct (GT y Y) as [G1' G2]. unfold timer_registered in *.
      cbn [s2 heap set_numobjs set_heap]. destruct (TT (tmid y)) as [T1' T2].
      rewrite (treg_iff _ _ _ _ T1'), T2. split; assumption.
    - right. split; cbn [s2 heap set_numobjs set_heap]; [exact I'|].
      intros t H. apply HR. intros E. apply H. apply (proj1 (TT t)). exact E.
    - apply (FdI_keep s1 s2 (-1) (j_fd _ _ J1)); reflexivity.
    - apply (FdX_keep s1 s2 (j_fx _ _ J1)); try reflexivity; intros; repeat split. }
  apply timers_dispatch_G; [exact J2|exact I2|apply (GI_idle_same s1 s2 G1); reflexivity].
Qed.

(* ---------- tasks ---------- *)
Lemma tasks_loop_G : forall fuel s, J true s -> InvW s -> GI sc Idle s -> QG sc Idle (tasks_loop sc fuel s).
Proof.
  induction fuel as [|fuel IH]; intros s Jh IW G; cbn [tasks_loop].
  - destruct (cur s) as [[|k rest]|] eqn:C.
    + cbn [QG]. apply (GI_idle_same s _ G); reflexivity.
    + apply (QG_halt Idle); [exact G|exact I].
    + exact G.
  - destruct (cur s) as [[|k rest]|] eqn:C.
    + cbn [QG]. apply (GI_idle_same s _ G); reflexivity.
    + destruct (J_pop_task s k rest Jh C) as [JL JN]. cbv zeta in JL, JN. cbv zeta.
      set (s1 := set_epoch (set_numobjs (set_tasks s (tasks s) (Some rest)) (numobjs s - 1)) (epoch s) (upd (tepoch s) k (epoch s))) in *.
      assert (C0 : curl s = k :: rest) by (unfold curl; rewrite C; reflexivity).
      assert (C1 : curl s1 = rest) by reflexivity.
      pose proof (tk_nodup _ (iw_task _ IW)) as ND. rewrite C0 in ND.
      assert (I1 : InvW s1).
      { apply (InvW_tasks_set dok s); try reflexivity; [assumption|constructor; reflexivity| | |].
        - rewrite C0, C1. change (tasks s1) with (tasks s). intros x X. apply in_app_or in X. apply in_or_app.
          destruct X; [left; assumption|right; right; assumption].
        - rewrite C1. change (tasks s1) with (tasks s). apply NoDup_remove_1 in ND. exact ND.
        - rewrite C0, C1. change (tasks s1) with (tasks s). change (numobjs s1) with (numobjs s - 1).
          rewrite !app_length. cbn [length]. lia. }
      assert (G1 : GI sc Idle s1) by (apply (GI_idle_same s s1 G); reflexivity).
      apply (QG_bind true Idle); [|intros s2 J2 I2 G2; apply IH; assumption].
      destruct (Z.eqb_spec k LOCAL_TASK) as [EK|NK].
      * apply run_pending_events_A; [apply JL; exact EK|exact I1|exact G1].
      * apply (call_script_A (TCallTask k) (HK_K + k) s1); [reflexivity|apply JN; exact NK|apply InvW_emit; [exact I1|discriminate..]|exact G1].
    + exact G.
Qed.

Lemma run_tasks_G : forall s, J true s -> InvW s -> Q3 s -> GI sc Idle s -> QG sc Idle (run_tasks sc s).
Proof.
  intros s Jh IW Q G. unfold run_tasks. cbv zeta.
  set (s1 := set_epoch (set_tasks s [] (Some (tasks s))) ((epoch s + 1) mod 4294967296) (tepoch s)).
  destruct Q as (Qb & Qc & Qe).
  assert (C0 : curl s = []) by (unfold curl; rewrite Qc; reflexivity).
  assert (C1 : curl s1 = tasks s) by reflexivity.
  assert (I1 : InvW s1).
  { apply (InvW_tasks_set dok s); try reflexivity; [assumption|constructor; reflexivity| | |].
    - rewrite C0, C1, app_nil_r. intros k0 K0. exact K0.
    - rewrite C1. pose proof (tk_nodup _ (iw_task _ IW)) as ND. rewrite C0, app_nil_r in ND. exact ND.
    - rewrite C0, C1, app_nil_r. reflexivity. }
  assert (J1 : J true s1).
  { apply (J_upd true s s1 Jh); try reflexivity; try (apply (j_good _ _ Jh));
      try (solve [left; repeat split; first [reflexivity | intros; apply fkeep_refl]]).
    - right. intros y Y. change (a_tk (mst s) y = task_registered s1 y).
      rewrite (J_AgTk _ _ Jh y Y). unfold task_registered. cbn [s1 tasks cur set_tasks set_epoch].
      rewrite Qc. cbn [mem_z existsb orb]. rewrite orb_false_r. reflexivity.
    - right. destruct (J_SiTk _ _ Jh) as [S1 S2]. unfold SiTk, curl in *. cbn [s1 tasks cur set_tasks set_epoch].
      unfold CoreRelDefs.curl in *. cbn [s1 tasks cur set_tasks set_epoch]. rewrite Qc in S1, S2. rewrite app_nil_r in S1, S2. split; assumption.
    - apply (FdI_keep s s1 (-1) (j_fd _ _ Jh)); reflexivity.
    - apply (FdX_keep s s1 (j_fx _ _ Jh)); try reflexivity; intros; repeat split. }
  apply tasks_loop_G; [exact J1|exact I1|apply (GI_idle_same s s1 G); reflexivity].
Qed.
End Loop.
