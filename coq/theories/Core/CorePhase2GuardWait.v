(* CorePhase2GuardWait.v -- the guard-monitor invariant through the kernel waits (external actions,
   the W event, the return) and iv_fd_poll_and_run. *)
From Coq Require Import List ZArith Bool Lia.
From Ivv Require Import Core.Kernel Core.CoreTypes Core.CoreFd Core.CoreModel Core.Monitors Core.GuardMon Core.CoreSpec
  Core.CoreRel Core.CoreInvBase Core.CoreInvDefs Core.CoreInvFd Core.CoreInvPoll Core.CoreInvReg Core.CoreInvObj
  Core.CoreInvTm Core.CoreInvLoop Core.CoreInvWait Core.CoreInv
  Core.CorePhase2K1Base Core.CorePhase2K1Fd Core.CorePhase2K1Act Core.CorePhase2K1Inv Core.CorePhase2K1Loop
  Core.CorePhase2K1Wait
  Core.CorePhase2TimeMon Core.CorePhase2TimeFr Core.CorePhase2FdBase Core.CorePhase2FdMon Core.CorePhase2GuardMon
  Core.CorePhase2GuardAct Core.CorePhase2GuardInv Core.CorePhase2GuardLoop.
From Ivv Require Core.CorePhase2TimeT1W.
From Ivv Require Timer.HeapModel.
Import ListNotations.
Local Open Scope Z_scope.

(* ---------- the kernel sleeps ---------- *)
Lemma sleep_fields2 : forall k maxev timeout rot,
  match k_epoll_sleep k maxev timeout rot with
  | WReady k1 _ => vfds k1 = vfds k /\ nwait k1 = nwait k
  | _ => True
  end.
Proof.
  intros k maxev timeout rot. unfold k_epoll_sleep.
  destruct (ep_scan k _ (Z.to_nat maxev)); [|split; reflexivity].
  destruct (timeout =? 0); [split; reflexivity|].
  match goal with |- context [if ?w <? 0 then _ else _] => destruct (w <? 0); [exact I|] end.
  match goal with |- context [if clock k <? ?w then _ else _] => destruct (clock k <? w) end; split; reflexivity.
Qed.

Lemma poll_sleep_fields2 : forall k pf timeout,
  match k_poll_sleep k pf timeout with
  | PReady k1 _ => vfds k1 = vfds k /\ nwait k1 = nwait k
  | PHang => True
  end.
Proof.
  intros k pf timeout. unfold k_poll_sleep.
  destruct ((0 <? count_nonzero (poll_eval k pf)) || (timeout =? 0)); [split; reflexivity|].
  destruct (timeout <? 0); [exact I|split; reflexivity].
Qed.

Lemma lk_nwait : forall s s', lk s' = lk s -> nwait (kern s') = nwait (kern s).
Proof. intros s s' H. unfold lk in H. inversion H. first [assumption|reflexivity]. Qed.

Section Wait.
Variable sc : scenario.
Hypothesis WF : wf_scenario sc.
Let dok := CoreInv.do_action_ok.

(* ---------- tracked events while idle ---------- *)
Lemma GI_idle_ext : forall l s s', GI sc Idle s -> trace s' = l ++ trace s -> Forall qs l ->
  (forall e, In e l -> forall k i c, e <> TRes k i c) -> invoc s' = invoc s -> UC (kern s) (kern s') ->
  nwait (kern s') = nwait (kern s) -> GI sc Idle s'.
Proof.
  intros l s s' [OK B] E F NR IV U NW. destruct (ext_qs sc l s s' E F) as [X1 X2]. split; [apply (GOK_eq (gst sc s)); assumption|].
  intros D'. destruct (X2 D') as (GS1 & D & AE). specialize (AE NR). destruct (B D) as [[B1 B2] (N & WL & p & T & FP)].
  split; [constructor; [rewrite (gs_inv _ _ GS1), IV; exact B1|rewrite (gs_closed _ _ GS1); eapply UCf_UC; eassumption]|].
  split; [rewrite (gs_nwait _ _ GS1), NW; exact N|]. split; [rewrite (gs_wl _ _ GS1); exact WL|].
  exists p. split; [rewrite (gs_todo _ _ GS1); exact T|]. eapply Forall_na_aeq; eassumption.
Qed.

Lemma cs_noRes : forall l, Forall cs l -> forall e, In e l -> forall k i c, e <> TRes k i c.
Proof. intros l F e H k i c ->. rewrite Forall_forall in F. apply (F _ H). Qed.

Lemma GI_idle_TrX : forall s s', GI sc Idle s -> TrX s s' -> invoc s' = invoc s -> UC (kern s) (kern s') ->
  nwait (kern s') = nwait (kern s) -> GI sc Idle s'.
Proof.
  intros s s' G (l & E & F) IV U NW. apply (GI_idle_ext l s s' G E); try assumption.
  - eapply Forall_impl; [|exact F]. apply cs_qs.
  - apply cs_noRes. exact F.
Qed.

Lemma GI_idle_FF : forall s s', GI sc Idle s -> FF s s' -> GI sc Idle s'.
Proof.
  intros s s' G (_ & L & T). destruct (lk_inv _ _ L) as [A B].
  apply (GI_idle_TrX s s' G T A); [apply UC_vfds; exact B|apply lk_nwait; exact L].
Qed.

Lemma GOK_TrX : forall s s', GOK (gst sc s) -> TrX s s' -> GOK (gst sc s').
Proof.
  intros s s' OK (l & E & F). apply (GOK_ext sc l s s' E); [|exact OK]. eapply Forall_impl; [|exact F]. apply cs_qs.
Qed.

Lemma GI_idle_ev : forall s e, GI sc Idle s -> plain_ev e -> (forall k i c, e <> TRes k i c) -> GI sc Idle (emit s e).
Proof.
  intros s e G P NR. apply (GI_idle_ext [e] s (emit s e) G); try reflexivity.
  - constructor; [left; exact P|constructor].
  - intros x [<-|[]]. exact NR.
  - apply UC_refl.
Qed.

(* ---------- entering a wait: the external actions, then the W event ---------- *)
Lemma wait_enter_G : forall s, J true s -> InvW s -> GI sc Idle s -> QG sc (RunW sc []) (wait_enter sc s).
Proof.
  intros s Jh IW G. unfold wait_enter. cbv zeta.
  destruct (sc_limit sc <? nwait (kern s) + 1); [apply (QG_halt sc Idle); [exact G|exact I]|].
  set (s1 := set_kern s (k_set_nwait (kern s) (nwait (kern s) + 1))).
  assert (J1 : J true s1) by (apply J_set_kern_plain; [assumption|apply ksame_set_nwait]).
  assert (I1 : InvW s1) by (apply InvW_nwait; exact IW).
  apply (run_acts_GW sc _ s1 []); [exact J1|exact I1|apply (wf_waits sc WF)|].
  rewrite app_nil_r.
  apply (GI_step sc Idle (RunW sc (sc_wait sc (nwait (kern s) + 1))) s s1 G); try reflexivity.
  - apply KT_UC. intros t _. apply KT_nwait.
  - intros g (N & WL & p & T & FP). rewrite app_nil_r in T. split; [rewrite N; reflexivity|]. right.
    split; [exact WL|]. split; [rewrite T; exact FP|]. exists []. split; [rewrite N; reflexivity|constructor].
Qed.

Lemma GI_wait_ev : forall s call mx t i gd, GI sc (RunW sc []) s ->
  GI sc Idle (emit s (TWait (nwait (kern s)) call mx t i gd)).
Proof.
  intros s call mx t i gd [OK B]. unfold GI. rewrite gst_emit. set (g := gst sc s) in *.
  destruct (g_done g) eqn:D.
  - rewrite gstep_done_id by exact D. split; [exact OK|]. intros X. rewrite D in X. discriminate X.
  - destruct (B eq_refl) as [[B1 B2] (N & POS)].
    assert (F : Forall (na g) (g_todo g) /\ (g_wloaded g = false -> Forall (na g) (sc_wait sc (g_nwait g + 1)))).
    { destruct POS as [(WL & p & T & FP)|(WL & F0 & q & T & FQ)].
      - rewrite app_nil_r in T. split; [rewrite T; exact FP|]. intros X. rewrite WL in X. discriminate X.
      - rewrite app_nil_r in T. split; [exact F0|]. intros _. rewrite T. exact FQ. }
    destruct (gstep_wait sc g (nwait (kern s)) call mx t i gd D OK (proj1 F) (proj2 F)) as (H1 & H2 & H3 & H4 & H5 & H6 & H7).
    cbv zeta in H1, H2, H3, H4, H5, H6, H7.
    split; [exact H6|]. intros _. split; [constructor; [rewrite H2; exact B1|rewrite H3; exact B2]|].
    split; [rewrite H4; reflexivity|]. split; [exact H5|]. exists []. split; [rewrite H1; reflexivity|constructor].
Qed.

Lemma GI_ret : forall s k1 n fds clk, GI sc Idle s -> UC (kern s) k1 -> nwait k1 = nwait (kern s) ->
  GI sc Idle (emit (set_kern s k1) (TRet n fds clk)).
Proof.
  intros s k1 n fds clk G U N. apply GI_idle_ev; [|exact I|intros; discriminate].
  apply (GI_idle_step sc s (set_kern s k1) G); [reflexivity|reflexivity|exact U|exact N].
Qed.

Definition WG (w : wres) : Prop :=
  match w with
  | WR s' _ => GI sc Idle s'
  | WE s' => GI sc Idle s'
  | WH r => match r with Halt s' => GOK (gst sc s') | R _ => True end
  end.

Lemma do_epoll_wait_G : forall s call maxev timeout, J true s -> InvW s -> GI sc Idle s ->
  WG (do_epoll_wait sc s call maxev timeout).
Proof.
  intros s call maxev timeout Jh IW G. unfold do_epoll_wait.
  pose proof (wait_enter_G s Jh IW G) as Q.
  destruct (wait_enter sc s) as [s1|s1]; [|exact Q]. cbn [QG] in Q. cbv zeta.
  pose proof (GI_wait_ev s1 call maxev timeout (interest_of (kern s1)) (ground (kern s1)) Q) as G2.
  set (s2 := emit s1 (TWait _ _ _ _ _ _)) in *. change (kern s2) with (kern s1).
  destruct (mem_z _ _); cbn [WG].
  - destruct (0 <? timeout).
    + match goal with |- GI sc Idle (emit ?X _) => change X with (set_kern s2 (k_set_clock (kern s1) (clock (kern s1) + timeout / 2))) end.
      apply GI_ret; [exact G2|apply KT_UC; intros t0 _; apply KT_clock|reflexivity].
    + apply GI_idle_ev; [exact G2|exact I|intros; discriminate].
  - pose proof (sleep_fields2 (kern s1) maxev timeout (sc_rot sc (nwait (kern s1)))) as SF.
    pose proof (epoll_sleep_spec (kern s1) maxev timeout (sc_rot sc (nwait (kern s1)))) as KS.
    destruct (k_epoll_sleep (kern s1) maxev timeout (sc_rot sc (nwait (kern s1)))) as [k1 evs|k1| |]; cbn [WG].
    + apply GI_ret; [exact G2|apply UC_vfds; apply SF|apply SF].
    + destruct KS.
    + apply (GOK_halt sc Idle); [exact G2|exact I].
    + apply (GOK_halt sc Idle); [exact G2|exact I].
Qed.

Lemma to_relative_G : forall s abs, InvW s -> GI sc Idle s ->
  InvW (fst (to_relative s abs)) /\ GI sc Idle (fst (to_relative s abs)).
Proof.
  intros s abs IW G. unfold to_relative. destruct abs; cbn [fst]; [|split; assumption].
  split; [apply InvW_validate; exact IW|]. destruct (validate_plain s) as [P Q].
  apply (GI_idle_same sc s _ G); [apply trace_validate_now|exact P|exact Q].
Qed.

Lemma epoll_wait_m_G : forall s abs maxev, J true s -> InvW s -> GI sc Idle s -> WG (epoll_wait_m sc s abs maxev).
Proof.
  intros s abs maxev Jh IW G. unfold epoll_wait_m.
  assert (V : forall s0, J true s0 -> InvW s0 -> GI sc Idle s0 ->
    WG (let '(s1, ms) := to_msec s0 abs in do_epoll_wait sc s1 0 maxev (if ms <? 0 then -1 else ms * 1000000))).
  { intros s0 J0 I0 G0. pose proof (to_msec_post true s0 abs J0) as (JM & _). unfold to_msec in *.
    destruct (to_relative_G s0 abs I0 G0) as [A B].
    destruct (to_relative s0 abs) as [s1 [r|]]; cbn [fst] in A, B, JM; apply do_epoll_wait_G; assumption. }
  destruct (pwait2 s); [|apply V; assumption].
  destruct (to_relative_G s abs IW G) as [A B]. pose proof (to_relative_post true s abs Jh) as (JR' & _).
  destruct (to_relative s abs) as [s1 rel]. cbn [fst] in A, B, JR'.
  destruct (no_pwait2 (flt (kern s1)) || perm_pwait2 (flt (kern s1))).
  - apply V.
    + apply (J_irr true s1 _ JR'); reflexivity.
    + apply (InvW_coresame s1); [constructor; reflexivity|apply (ms_nobad _ (iw_misc _ A))|exact A].
    + apply (GI_idle_same sc s1 _ B); reflexivity.
  - apply do_epoll_wait_G; assumption.
Qed.
(* ---------- iv_fd_epoll_poll ---------- *)
Lemma read_tfd_A : forall s, J true s -> InvW s -> GI sc Idle s ->
  QA sc true Idle (match k_read (kern s) (tfd s) 8 with
                   | (k1, inl _) => R (set_kern s k1)
                   | (k1, inr _) => halt (set_kern s k1) TFatal
                   end).
Proof.
  intros s Jh IW G.
  pose proof (ksame_read (kern s) (tfd s) 8) as KS. pose proof (kstable_read (kern s) (tfd s) 8) as KSt.
  assert (UCr : UC (kern s) (fst (k_read (kern s) (tfd s) 8))).
  { apply KT_UC. intros t T. apply KT_read. unfold ufd in T. intros E.
    apply (al_unum _ _ (InvW_AL s IW) (t - 100)); lia. }
  destruct (k_read (kern s) (tfd s) 8) as [k1 [x|e]]; cbn [fst] in KS, KSt, UCr.
  - cbn [QA]. split; [apply J_set_kern_plain; assumption|]. split; [apply InvW_kstable; assumption|].
    apply (GI_idle_step sc s _ G); [reflexivity|reflexivity|exact UCr|apply (kt_nwait _ _ KSt)].
  - cbn [QA halt]. apply (GOK_halt sc Idle); [|exact I].
    apply (GI_idle_step sc s _ G); [reflexivity|reflexivity|exact UCr|apply (kt_nwait _ _ KSt)].
Qed.

Lemma epoll_poll_G : forall s abs, J true s -> InvW s -> Q3 s -> TfdM s -> quit s = false -> is_epoll s = true ->
  GI sc Idle s -> QG sc Idle (fst (epoll_poll sc s abs)).
Proof.
  intros s abs Jh IW Q TM QT IE G. unfold epoll_poll. cbv zeta.
  pose proof (J_inner_res s _ _ Jh (flush_pending_res (S (length (notify s))) s (j_fd _ _ Jh) IE)) as P.
  pose proof (flush_pending_FF (S (length (notify s))) s) as FP.
  destruct (flush_pending_ok (S (length (notify s))) s IW IE ltac:(lia)) as (s1 & EF & I1 & N1 & W1 & R1 & A1 & NF1 & KC1 & RB1).
  rewrite EF in *.
  destruct P as (J1 & F1 & E1); [intros s1' (X & Y & _); split; [apply Inner_W; exact X|exact Y]|].
  unfold FFr in FP. cbn [res_state] in FP.
  assert (G1 : GI sc Idle s1) by (apply (GI_idle_FF s s1 G FP)).
  assert (Q1' : quit s1 = false).
  { destruct E1 as (X & _). rewrite (sm_quit _ _ (in_same _ _ X)). exact QT. }
  assert (C1 : Ch s s1) by (apply Ch_restsame; [assumption|assumption|apply (rs_epfd _ _ R1)]).
  pose proof (TfdM_tm _ _ TM (proj1 (proj2 C1))) as T1.
  match goal with |- context [epoll_wait_m sc s1 abs ?m] =>
    pose proof (epoll_wait_m_post sc WF s1 abs m J1 Q1') as W;
    pose proof (epoll_wait_m_ok sc WF dok s1 abs m I1 T1) as WP;
    pose proof (epoll_wait_m_G s1 abs m J1 I1 G1) as WQ;
    destruct (epoll_wait_m sc s1 abs m) as [s2 evs|s2|r] end; cbn [CoreRelWait.WPost CoreInvWait.WPost WG] in W, WP, WQ.
  - destruct W as (J2 & F2 & OK2). destruct WP as (I2 & K2 & N2 & L2 & EV & RD).
    destruct (J_invalidate true s2 J2) as (J3 & F3 & _).
    pose proof (StepT_invalidate s2 I2) as S3.
    assert (G3 : GI sc Idle (invalidate_now s2)) by (apply (GI_idle_same sc s2 _ WQ); reflexivity).
    set (s3 := invalidate_now s2) in *.
    assert (OK3 : forall ev, In ev evs -> EvOk s3 ev) by (intros ev H; exact (OK2 ev H)).
    destruct (epoll_process_post evs s3 false false J3 OK3) as [J4 F4].
    pose proof (epoll_process_ok evs s3 false false (proj1 S3) EV) as (I4 & A4 & TMR).
    pose proof (CorePhase2TimeT1W.epoll_process_FF evs s3 false false) as FF4.
    destruct (epoll_process s3 evs false false) as [[s4 run_events] tmr]. cbn [fst snd] in J4, F4, FF4, I4, A4, TMR. cbn [fst].
    assert (G4 : GI sc Idle s4) by (apply (GI_idle_FF s3 s4 G3 FF4)).
    apply (QG_bind sc true Idle).
    + destruct tmr; [apply read_tfd_A; assumption|cbn [QA]; auto].
    + intros s5 J5 I5 G5. destruct run_events; [apply run_pending_events_G; assumption|exact G5].
  - cbn [fst QG]. apply (GI_idle_same sc s2 _ WQ); reflexivity.
  - cbn [fst]. destruct r; [destruct W|exact WQ].
Qed.

(* ---------- iv_fd_poll_poll ---------- *)
Lemma poll_activate_kern : forall keys revs s, FF s (poll_activate s keys revs).
Proof. exact CorePhase2TimeT1W.poll_activate_FF. Qed.

Lemma do_poll_wait_G : forall s call timeout, J true s -> InvW s -> GI sc Idle s ->
  QG sc Idle (fst (do_poll_wait sc s call timeout)).
Proof.
  intros s call timeout Jh IW G. unfold do_poll_wait.
  pose proof (wait_enter_G s Jh IW G) as Q.
  destruct (wait_enter sc s) as [s1|s1]; [|exact Q]. cbn [QG] in Q. cbv zeta.
  pose proof (GI_wait_ev s1 call (Z.of_nat (length (pfds s1))) timeout (interest_of_pfds (pfds s1)) (ground (kern s1)) Q) as G2.
  set (s2 := emit s1 (TWait _ _ _ _ _ _)) in *. change (kern s2) with (kern s1). change (pfds s2) with (pfds s1).
  destruct (mem_z _ _); cbn [fst QG].
  - match goal with |- GI sc Idle (invalidate_now ?X) => apply (GI_idle_same sc X); [|reflexivity..] end.
    destruct (0 <? timeout).
    + match goal with |- GI sc Idle (emit ?X _) => change X with (set_kern s2 (k_set_clock (kern s1) (clock (kern s1) + timeout / 2))) end.
      apply GI_ret; [exact G2|apply KT_UC; intros t0 _; apply KT_clock|reflexivity].
    + apply GI_idle_ev; [exact G2|exact I|intros; discriminate].
  - pose proof (poll_sleep_fields2 (kern s1) (pfds s1) timeout) as SF.
    destruct (k_poll_sleep (kern s1) (pfds s1) timeout) as [k1 revs|]; cbn [fst QG].
    + match goal with |- GI sc Idle (poll_activate ?X ?K ?R) => apply (GI_idle_FF X); [|apply poll_activate_kern] end.
      match goal with |- GI sc Idle (invalidate_now ?X) => apply (GI_idle_same sc X); [|reflexivity..] end.
      apply GI_ret; [exact G2|apply UC_vfds; apply SF|apply SF].
    + apply (GOK_halt sc Idle); [exact G2|exact I].
Qed.

Lemma poll_poll_G : forall s abs, J true s -> InvW s -> is_epoll s = false -> GI sc Idle s ->
  QG sc Idle (fst (poll_poll sc s abs)).
Proof.
  intros s abs Jh IW IE G. unfold poll_poll.
  assert (V : forall s0, J true s0 -> InvW s0 -> GI sc Idle s0 ->
    QG sc Idle (fst (let '(s1, ms) := to_msec s0 abs in do_poll_wait sc s1 2 (if ms <? 0 then -1 else ms * 1000000)))).
  { intros s0 J0 I0 G0. pose proof (to_msec_post true s0 abs J0) as (JM & _). unfold to_msec in *.
    destruct (to_relative_G s0 abs I0 G0) as [A B].
    destruct (to_relative s0 abs) as [s1 [r|]]; cbn [fst] in A, B, JM; apply do_poll_wait_G; assumption. }
  destruct (method s =? M_PP) eqn:MP; [|apply V; assumption].
  destruct (to_relative_G s abs IW G) as [A B]. pose proof (to_relative_post true s abs Jh) as (JR' & _).
  pose proof (CoreRelWait.method_to_relative s abs) as MR.
  destruct (to_relative s abs) as [s1 rel]. cbn [fst] in A, B, JR', MR.
  assert (IE1 : is_epoll s1 = false) by (unfold is_epoll in *; rewrite MR; exact IE).
  destruct (no_ppoll (flt (kern s1))).
  - destruct (J_invalidate true s1 JR') as (J3 & _).
    apply V.
    + apply J_set_method_poll; [exact J3| |reflexivity].
      unfold is_epoll in *. cbn [method invalidate_now set_time]. exact IE1.
    + apply InvW_set_method; [apply InvW_invalidate; exact A| |unfold M_PO; lia].
      unfold is_epoll. cbn [method set_method invalidate_now set_time]. apply Z.eqb_eq in MP. rewrite MR, MP. reflexivity.
    + apply (GI_idle_same sc s1 _ B); reflexivity.
  - apply do_poll_wait_G; assumption.
Qed.

Lemma m_poll_G : forall s abs, J true s -> InvW s -> Q3 s -> TfdM s -> quit s = false -> GI sc Idle s ->
  QG sc Idle (fst (m_poll sc s abs)).
Proof.
  intros s abs Jh IW Q TM QT G. unfold m_poll.
  destruct (is_epoll s) eqn:IE; [apply epoll_poll_G|apply poll_poll_G]; assumption.
Qed.
(* ---------- the kernel-timer optimisation ---------- *)
Lemma UC_put : forall k fd v v', k_get k fd = Some v -> vclosed v' = vclosed v -> UC k (k_put k fd v').
Proof.
  intros k fd v v' G C t T w GW. rewrite k_get_put'. destruct (Z.eqb_spec t fd) as [->|N].
  - exists v'. split; [reflexivity|congruence].
  - exists w. auto.
Qed.

Definition GFrr (s : core) (r : res) : Prop := ARes (GFr s) r.

Lemma tfd_settime_GFr : forall s d, GFr s (tfd_settime s d).
Proof.
  intros s d. unfold tfd_settime. split; [reflexivity|]. cbn [kern emit set_trace set_kern]. unfold k_timerfd_settime.
  destruct (k_open (kern s) (tfd s)) as [v|] eqn:O; [|apply UC_refl].
  apply k_open_get in O. destruct O as [O _]. eapply UC_put; [exact O|reflexivity].
Qed.

Lemma timerfd_create_UC : forall k, 1000 <= next_fd k -> UC k (fst (k_timerfd_create k)).
Proof.
  intros k N. unfold k_timerfd_create. destruct (no_timerfd (flt k)); [apply UC_refl|].
  pose proof (fun t => KT_alloc t k K_TIMERFD) as KA. destruct (k_alloc k K_TIMERFD) as [fd k1]. cbn [fst snd] in *.
  apply KT_UC. intros t T. apply KA. unfold ufd in T. lia.
Qed.

Lemma set_poll_timeout_GFr : forall s a, 1000 <= next_fd (kern s) -> GFrr s (fst (set_poll_timeout s a)).
Proof.
  intros s a NX. unfold set_poll_timeout.
  destruct (tfd s =? -1); [|cbn [fst GFrr ARes]; apply tfd_settime_GFr].
  pose proof (timerfd_create_UC (kern s) NX) as KC.
  destruct (k_timerfd_create (kern s)) as [k1 [fd|e]]; cbn [fst] in KC.
  - set (s1 := set_epoll (set_kern s k1) (epfd s) fd (pwait2 s)).
    assert (A1 : GFr s s1) by (split; [reflexivity|exact KC]).
    destruct (ctl_retry s1 CTL_ADD fd B_IN (-2)) as [s2 r] eqn:CT.
    pose proof (FF_GFr _ _ (ctl_retry_FF _ _ _ _ _ _ _ CT)) as A2.
    destruct r; cbn [fst GFrr ARes halt]; [exact I|].
    eapply GFr_trans; [exact A1|]. eapply GFr_trans; [exact A2|]. apply tfd_settime_GFr.
  - cbn [fst GFrr ARes]. split; [reflexivity|exact KC].
Qed.

Lemma timeout_check_GFr : forall s abs, 1000 <= next_fd (kern s) -> GFrr s (fst (timeout_check s abs)).
Proof.
  intros s abs NX. unfold timeout_check.
  destruct ((last_abs_count s =? 5) && (0 <=? abs_cmp abs (last_abs s))); [apply GFr_refl|].
  set (s1 := if last_abs_count s =? 5 then tfd_settime s 0 else s).
  assert (A1 : GFr s s1) by (unfold s1; destruct (last_abs_count s =? 5); [apply tfd_settime_GFr|apply GFr_refl]).
  assert (N1 : 1000 <= next_fd (kern s1)).
  { unfold s1. destruct (last_abs_count s =? 5); [|exact NX]. unfold tfd_settime. cbn [kern emit set_trace set_kern].
    unfold k_timerfd_settime. destruct (k_open (kern s) (tfd s)); exact NX. }
  destruct (abs_cmp abs (last_abs s) =? 0).
  - set (s2 := if last_abs_count s1 <? 5 then set_last_abs s1 (last_abs s1) (last_abs_count s1 + 1) else s1).
    assert (A2 : GFr s1 s2) by (unfold s2; destruct (last_abs_count s1 <? 5); [apply GFr_plain; reflexivity|apply GFr_refl]).
    assert (N2 : 1000 <= next_fd (kern s2)) by (unfold s2; destruct (last_abs_count s1 <? 5); exact N1).
    destruct (last_abs_count s2 =? 5); [|cbn [fst GFrr ARes]; eapply GFr_trans; eassumption].
    destruct abs as [a|]; [|cbn [fst GFrr ARes]; eapply GFr_trans; eassumption].
    pose proof (set_poll_timeout_GFr s2 a N2) as A3.
    destruct (fst (set_poll_timeout s2 a)); cbn [GFrr ARes] in *; [|exact I].
    eapply GFr_trans; [exact A1|]. eapply GFr_trans; [exact A2|exact A3].
  - destruct abs as [a|]; cbn [fst GFrr ARes]; (eapply GFr_trans; [exact A1|apply GFr_plain; reflexivity]).
Qed.

(* ---------- iv_fd_poll_and_run ---------- *)
Lemma QA_of : forall b P r, JR b r -> (forall s1, r = R s1 -> InvW s1) -> QG sc P r -> QA sc b P r.
Proof.
  intros b P r A B C. destruct r as [s1|s1]; cbn [JR QG QA] in *; [|exact C].
  split; [exact A|split; [apply B; reflexivity|exact C]].
Qed.

Lemma okr_InvW : forall (P : core -> Prop) r, okr P r -> (forall s1, P s1 -> InvW s1) -> forall s1, r = R s1 -> InvW s1.
Proof. intros P r H K s1 ->. cbn [okr] in H. apply K. exact H. Qed.

Lemma poll_and_run_G : forall s abs, J true s -> LoopInv s -> quit s = false -> GI sc Idle s ->
  QG sc Idle (fst (poll_and_run sc s abs)).
Proof.
  intros s abs Jh (IW & Q & TM & AC) QT G. unfold poll_and_run.
  assert (PI : forall s1, PollPost sc s s1 -> InvW s1) by (intros s1 H; apply H).
  assert (GX : QA sc true Idle (fst (if method s =? M_ET
      then match timeout_check s abs with
           | (Halt s0, _) => (Halt s0, true)
           | (R s0, true) => let '(r, rt) := m_poll sc s0 None in
                             (bind r (fun s1 => R (if rt then set_last_abs s1 (last_abs s1) 0 else s1)), rt)
           | (R s0, false) => m_poll sc s0 abs
           end
      else m_poll sc s abs))).
  { destruct (Z.eqb_spec (method s) M_ET) as [ME|NE].
    2:{ apply QA_of; [apply (Post0_JR true s); apply m_poll_post; assumption|
                      apply (okr_InvW _ _ (m_poll_ok sc WF dok s abs IW Q TM) PI)|apply m_poll_G; assumption]. }
    pose proof (timeout_check_post s abs Jh ME) as P. pose proof (CorePhase2TimeT1W.timeout_check_F0 s abs) as FT.
    pose proof (timeout_check_ok sc WF dok s abs IW ME) as TC.
    pose proof (timeout_check_GFr s abs (ki_next _ (ms_kinv _ (iw_misc _ IW)))) as TG.
    destruct (timeout_check s abs) as [[s0|s0] fl]; cbn [fst PostQ okr GFrr ARes] in P, FT, TC, TG; unfold F0r in FT; cbn [res_state] in FT.
    2:{ cbn [fst QA]. apply (GOK_TrX s s0); [apply G|apply FT]. }
    destruct P as (J0 & F0' & Q0). destruct TC as (I0 & F0 & TM0 & IE0). pose proof (TcFr_Q3 _ _ F0 Q) as Q30.
    assert (G0 : GI sc Idle s0) by (apply (GI_idle_TrX s s0 G (proj2 FT) (proj1 TG) (proj2 TG)); apply (tc_nwait _ _ F0)).
    assert (QT0 : quit s0 = false) by congruence.
    assert (PI0 : forall s1, PollPost sc s0 s1 -> InvW s1) by (intros s1 H; apply H).
    destruct fl.
    - pose proof (m_poll_post sc WF s0 None J0 QT0) as MP. pose proof (m_poll_ok sc WF dok s0 None I0 Q30 TM0) as MO.
      pose proof (m_poll_G s0 None J0 I0 Q30 TM0 QT0 G0) as MG.
      destruct (m_poll sc s0 None) as [r rt]. cbn [fst] in *.
      destruct r as [s1|s1]; cbn [bind Post0 okr QG QA] in *; [|exact MG].
      destruct MP as [J1 _]. destruct MO as (I1 & _).
      destruct rt; [|auto].
      split; [apply J_set_last_abs; exact J1|].
      split; [apply (InvW_coresame s1); [constructor; reflexivity|apply (ms_nobad _ (iw_misc _ I1))|exact I1]|].
      apply (GI_idle_same sc s1 _ MG); reflexivity.
    - apply QA_of; [apply (Post0_JR true s0); apply m_poll_post; assumption|
                    apply (okr_InvW _ _ (m_poll_ok sc WF dok s0 abs I0 Q30 TM0) PI0)|apply m_poll_G; assumption]. }
  destruct (if method s =? M_ET
      then match timeout_check s abs with
           | (Halt s0, _) => (Halt s0, true)
           | (R s0, true) => let '(r, rt) := m_poll sc s0 None in
                             (bind r (fun s1 => R (if rt then set_last_abs s1 (last_abs s1) 0 else s1)), rt)
           | (R s0, false) => m_poll sc s0 abs
           end
      else m_poll sc s abs) as [r rt]. cbn [fst] in *.
  apply (QG_bind sc true Idle); [exact GX|]. intros s1 J1 I1 G1. apply dispatch_active_G; assumption.
Qed.
End Wait.
