(* CoreInvTop.v -- the initial state satisfies the invariant; set-up, iv_main,
   tear-down and iv_deinit of a whole scenario; no run of a well-formed scenario
   reaches TCrash / TFatal.  Section over the single-action lemma (CoreInvAct.v). *)
From Coq Require Import List ZArith Bool Lia.
From Ivv Require Import Core.Kernel Core.CoreTypes Core.CoreFd Core.CoreModel Core.CoreSpec
  Core.CoreInvBase Core.CoreInvDefs Core.CoreInvFd Core.CoreInvPoll Core.CoreInvReg Core.CoreInvObj
  Core.CoreInvTm Core.CoreInvLoop Core.CoreInvWait.
From Ivv Require Timer.HeapModel Timer.HeapSpec Timer.HeapProofs Timer.HeapFacts.
Import ListNotations.
Local Open Scope Z_scope.

(* ---------- the kernel at iv_init ---------- *)
Lemma fold_user_get : forall l k fd,
  k_get (fold_left k_user_fd l k) fd =
  if existsb (fun i => fd =? 100 + i) l then Some (vfd0 K_SCRIPTED) else k_get k fd.
Proof.
  induction l as [|a l IH]; intros k fd; cbn [fold_left existsb]; [reflexivity|].
  rewrite IH. unfold k_user_fd. rewrite k_get_put.
  destruct (existsb (fun i => fd =? 100 + i) l); [rewrite orb_true_r; reflexivity|].
  rewrite orb_false_r. reflexivity.
Qed.

Lemma fold_user_rest : forall l k,
  next_fd (fold_left k_user_fd l k) = next_fd k /\ ep (fold_left k_user_fd l k) = ep k /\
  nwait (fold_left k_user_fd l k) = nwait k /\ flt (fold_left k_user_fd l k) = flt k.
Proof.
  induction l as [|a l IH]; intros k; cbn [fold_left]; [repeat split|]. apply (IH (k_user_fd k a)).
Qed.

Definition kern0 (f : faults) : kernel := fold_left k_user_fd (zseq 0 16) (kernel0 f).

Lemma kern0_spec : forall f, KInv (kern0 f) /\ ep (kern0 f) = [] /\ nwait (kern0 f) = 0 /\ flt (kern0 f) = f /\
  next_fd (kern0 f) = 1000.
Proof.
  intros f. unfold kern0. destruct (fold_user_rest (zseq 0 16) (kernel0 f)) as (A & B & C & D).
  split; [|tauto]. constructor; [rewrite A; cbn; lia|].
  intros fd H. rewrite A. cbn [next_fd kernel0]. rewrite fold_user_get in H.
  destruct (existsb (fun i => fd =? 100 + i) (zseq 0 16)) eqn:X; [|cbn in H; congruence].
  apply existsb_exists in X. destruct X as (i & I1 & I2). apply In_zseq' in I1. apply Z.eqb_eq in I2. lia.
Qed.

(* the initial state with the kernel and the epoll descriptor made explicit *)
Definition rec0 (sc : scenario) (efd : Z) (k : kernel) : core :=
  {| fdt := fun i => fd_fresh (100 + i) i; active := []; handled := None; numfds := 0;
     last_abs := 0; last_abs_count := 0; method := sc_backend sc; notify := []; epfd := efd; tfd := -1;
     pwait2 := true; efd_epoll := 2; efd_raw := 2; active_fd := 0; active_ref := 0; active_wr := -1;
     pfds := []; pkeys := []; quit := false; numobjs := 0; heap := HeapModel.init; time := 0;
     time_valid := false; tasks := []; cur := None; epoch := 0; tepoch := fun _ => 0;
     ev_pending := []; ev_batch := []; ev_count := 0; ev_reg := fun _ => false; use_raw := false;
     rw_reg := fun _ => false; rw_rfd := fun _ => 0; rw_wfd := fun _ => 0;
     kern := k; trace := [TInit (sc_backend sc)]; invoc := fun _ => 0 |}.

Lemma core0_shape : forall sc, exists efd k, core0 sc = rec0 sc efd k /\ KInv k /\ ep k = [] /\ nwait k = 0 /\
  flt k = sc_faults sc.
Proof.
  intros sc. unfold core0. cbv zeta. fold (kern0 (sc_faults sc)).
  destruct (kern0_spec (sc_faults sc)) as (K & E & N & F & NX).
  destruct ((sc_backend sc =? M_ET) || (sc_backend sc =? M_EP)).
  - destruct (alloc_spec (kern0 (sc_faults sc)) K_EPOLL (ki_alloc _ K)) as (A1 & A2 & A3 & A4 & A5 & A6).
    unfold k_epoll_create. destruct (k_alloc (kern0 (sc_faults sc)) K_EPOLL) as [efd k]. cbn [fst snd] in *.
    exists efd, k. split; [reflexivity|]. split; [eapply KInv_kstable; eassumption|].
    split; [rewrite (kt_ep _ _ A2); assumption|]. split; [rewrite (kt_nwait _ _ A2); assumption|].
    rewrite (kt_flt _ _ A2). assumption.
  - exists (-1), (kern0 (sc_faults sc)). split; [reflexivity|]. tauto.
Qed.

Lemma cntf_false : forall l, cntf (fun _ => false) l = 0.
Proof. induction l; [reflexivity|assumption]. Qed.

Lemma rec0_Inv : forall sc efd k, wf_scenario sc -> KInv k -> ep k = [] -> flt k = sc_faults sc ->
  Inv (rec0 sc efd k).
Proof.
  intros sc efd k WF KI EP FL.
  assert (NL : forall x, ~ live (rec0 sc efd k) (-1) x).
  { intros x (A & [B|B]); [discriminate B|lia]. }
  split; [|constructor; reflexivity]. constructor.
  - constructor; cbn [rec0 fdt active handled notify pfds pkeys kern active_ref active_fd registered fd_fresh fdnum regb pidx].
    + intros x H. discriminate H.
    + intros x H. reflexivity.
    + intros x _ L. exfalso. eapply NL; eassumption.
    + intros x L. exfalso. eapply NL; eassumption.
    + intros x y L. exfalso. eapply NL; eassumption.
    + intros x [].
    + intros x H. discriminate H.
    + intros x [].
    + intros _. split; [reflexivity|assumption].
    + intros _. split; reflexivity.
    + rewrite EP. intros e [].
    + intros _ x L. exfalso. eapply NL; eassumption.
    + intros _ x L. exfalso. eapply NL; eassumption.
    + rewrite EP. constructor.
    + rewrite EP. intros e [].
    + left. reflexivity.
    + intros H. discriminate H.
    + reflexivity.
    + intros n x H. destruct n; discriminate H.
    + intros _ x L. exfalso. eapply NL; eassumption.
  - intros x H. discriminate H.
  - constructor; cbn [rec0 rw_reg fdt registered fd_fresh efd_raw active_ref active_wr tfd kern h_in h_out h_err];
      try (intros; discriminate).
    + intros j _. reflexivity.
    + right; right; reflexivity.
    + intros x _. unfold hids_ok. cbn [h_in h_out h_err fd_fresh]. split; [|split]; intros h0 H0; discriminate H0.
    + intros _. reflexivity.
    + left. reflexivity.
    + rewrite EP. intros e [].
  - apply HeapFacts.Inv_HeapInv. apply HeapProofs.Inv_init.
  - constructor; cbn; [intros x []|constructor].
  - constructor; cbn [rec0 ev_reg ev_pending ev_batch ev_count rw_reg use_raw active_ref app]; try (intros; discriminate).
    + intros j [].
    + constructor.
    + rewrite cntf_false. reflexivity.
    + split; [intros H; discriminate H|intros (H & _); discriminate H].
    + split; [intros H; discriminate H|intros (_ & H); lia].
    + intros _. reflexivity.
  - constructor; cbn [rec0 numfds numobjs fdt registered fd_fresh heap tasks cur curl ev_count active_ref app length].
    + rewrite cntf_false. reflexivity.
    + reflexivity.
  - constructor; cbn [rec0 trace method kern].
    + split; intros [H|[]]; discriminate H.
    + apply (wf_backend sc WF).
    + intros E. rewrite FL. destruct (emfile (sc_faults sc)) eqn:EM; [|reflexivity].
      pose proof (wf_emfile sc WF EM) as B. unfold is_epoll in E. cbn [method rec0] in E.
      unfold M_ET, M_EP in E. destruct (Z.eqb_spec (sc_backend sc) 0); [lia|]. destruct (Z.eqb_spec (sc_backend sc) 1); [lia|discriminate].
    + assumption.
Qed.

Lemma core0_Inv : forall sc, wf_scenario sc ->
  Inv (core0 sc) /\ TfdM (core0 sc) /\ nwait (kern (core0 sc)) = 0.
Proof.
  intros sc WF. destruct (core0_shape sc) as (efd & k & -> & K & E & N & F).
  split; [apply rec0_Inv; assumption|]. split; [intros H; contradiction|exact N].
Qed.

(* ---------- close() keeps the trace clean ---------- *)
Lemma do_close_nobad : forall s fd, nobad (trace s) -> nobad (trace (do_close s fd)).
Proof.
  intros s fd H. unfold do_close. destruct (k_close (kern s) fd) as [k1 ok]. destruct ok; [|exact H].
  sp. apply nobad_cons; [assumption|discriminate..].
Qed.

Lemma deinit_nobad : forall sc s, nobad (trace s) -> nobad (trace (deinit sc s)).
Proof.
  intros sc s H. unfold deinit. destruct ((sc_backend sc =? M_ET) || (sc_backend sc =? M_EP)); [|exact H].
  cbv zeta. apply do_close_nobad. destruct (tfd s =? -1); [exact H|apply do_close_nobad; exact H].
Qed.

(* ---------- iv_deinit once nothing is registered any more ---------- *)
Definition AllGone (s : core) : Prop := (forall k, registered (fdt s k) = false) /\ active_ref s = 0.

Lemma do_close_gone : forall s fd, InvW s -> AllGone s -> InvW (do_close s fd) /\ AllGone (do_close s fd) /\
  coresame (set_kern s (kern (do_close s fd))) (do_close s fd).
Proof.
  intros s fd [A B C D E F G H] (NR & AR).
  assert (NL : forall x k, ~ live s x k \/ k = x).
  { intros x k. destruct (Z.eq_dec k x); [right; assumption|left]. intros (_ & [Q|Q]); [rewrite NR in Q; discriminate|contradiction]. }
  assert (NLIVE : forall k, ~ live s (-1) k).
  { intros k L. apply live_none in L. destruct L as [_ L]. rewrite NR in L. discriminate. }
  assert (NRW : forall j, rw_reg s j = false).
  { intros j. destruct (rw_reg s j) eqn:R; [|reflexivity]. pose proof (dy_range _ C j R) as RG.
    pose proof (dy_reg _ C j RG) as Q. rewrite NR, R in Q. discriminate. }
  destruct (k_close_spec (kern s) fd) as (S1 & S2 & S3 & S4 & S5 & S6 & S7 & S8 & S9). cbv zeta in *.
  assert (GET : forall x, k_get (kern s) x <> None -> k_get (fst (k_close (kern s) fd)) x <> None).
  { intros x O. destruct (k_get (kern s) x) as [v|] eqn:Q; [|congruence]. destruct (S7 x v Q) as (v' & Q1 & _). congruence. }
  assert (IK : InvW (set_kern s (fst (k_close (kern s) fd)))).
  { constructor.
    - constructor.
      + exact (fv_range _ _ A).
      + exact (fv_user _ _ A).
      + intros k _ L. exfalso. eapply NLIVE; exact L.
      + intros k L. exfalso. eapply NLIVE; exact L.
      + intros k1 k2 L. exfalso. eapply NLIVE; exact L.
      + exact (fv_active _ _ A).
      + exact (fv_handled _ _ A).
      + exact (fv_notify _ _ A).
      + intros EE. destruct (fv_poll_excl _ _ A EE) as [P Q]. split; [assumption|]. sp.
        destruct (ep (fst (k_close (kern s) fd))) as [|e l] eqn:EP; [reflexivity|]. exfalso.
        assert (X : In e (ep (kern s))) by (apply (proj1 (S4 e)); try rewrite EP; left; reflexivity). rewrite Q in X. contradiction.
      + exact (fv_epoll_excl _ _ A).
      + intros e He. sp. apply S4 in He. apply (fv_ent _ _ A). tauto.
      + intros _ k L. exfalso. eapply NLIVE; exact L.
      + intros _ k L. exfalso. eapply NLIVE; exact L.
      + sp. apply S5. apply (fv_nodup _ _ A).
      + intros e He. sp. apply S4 in He. apply GET. apply (fv_ealloc _ _ A). tauto.
      + exact (fv_ref _ _ A).
      + intros Q. sp. rewrite AR in Q. discriminate.
      + exact (fv_plen _ _ A).
      + exact (fv_pkey _ _ A).
      + intros _ k L. exfalso. eapply NLIVE; exact L.
    - intros k. apply sync_at_same with (s := s); try reflexivity. apply B.
    - destruct C. constructor; sp; try assumption.
      + intros j J. rewrite NRW in J. discriminate.
      + intros Q. rewrite AR in Q. discriminate.
      + destruct dy_tfd as [T|(T & v & V1 & V2)]; [left; assumption|right]. split; [assumption|].
        destruct (S7 _ v V1) as (v' & Q1 & Q2 & _). exists v'. split; congruence.
      + intros e He Q. apply S4 in He. destruct He as [He NF]. destruct (dy_tfdent e He Q) as (v & V1 & V2).
        assert (TF : en_fd e = tfd s).
        { destruct (fv_ent _ _ A e He) as [((L&_)&_)|[(L&_)|(_&L1&_)]]; [lia|lia|assumption]. }
        assert (N : tfd s <> fd).
        { intros EQ. subst fd. assert (OP : k_open (kern s) (tfd s) <> None) by congruence. apply (NF OP). exact TF. }
        apply k_open_get in V1. destruct V1 as [G1 C1]. destruct (S7 _ v G1) as (v' & Q1 & Q2 & _ & Q4).
        exists v'. split; [apply k_get_open; [assumption|rewrite (Q4 N); assumption]|congruence].
    - exact D.
    - apply (TaskInv_same s); [reflexivity..|exact E].
    - apply (EvInv_same s); [constructor; reflexivity|exact F].
    - destruct G. constructor; assumption.
    - destruct H as [H1 H2 H3 [K1 K2]]. constructor; sp; try assumption.
      + rewrite S2. assumption.
      + constructor; [rewrite S1; assumption|]. intros x Q. rewrite S1. apply K2.
        destruct (k_get (kern s) x) eqn:Z; [congruence|]. rewrite (S8 x Z) in Q. congruence. }
  unfold do_close. destruct (k_close (kern s) fd) as [k1 ok]. cbn [fst] in *. destruct ok.
  - split; [apply InvW_emit; [exact IK|discriminate..]|]. split; [split; assumption|cs_refl].
  - split; [exact IK|]. split; [split; assumption|cs_refl].
Qed.

Lemma do_close_quiet : forall s fd, heap (do_close s fd) = heap s /\ cur (do_close s fd) = cur s /\
  ev_batch (do_close s fd) = ev_batch s /\ active (do_close s fd) = active s /\ tfd (do_close s fd) = tfd s /\
  method (do_close s fd) = method s.
Proof. intros. unfold do_close. destruct (k_close (kern s) fd) as [k1 ok]. destruct ok; repeat split. Qed.

Lemma deinit_inv : forall sc s, Inv s -> TfdM s -> AllGone s -> Inv (deinit sc s) /\ TfdM (deinit sc s).
Proof.
  intros sc s (I & Q) T G. unfold deinit. destruct ((sc_backend sc =? M_ET) || (sc_backend sc =? M_EP)); [|split; [split|]; assumption].
  cbv zeta.
  assert (ST : forall s0 fd, InvW s0 /\ Quiet s0 /\ TfdM s0 /\ AllGone s0 ->
                 InvW (do_close s0 fd) /\ Quiet (do_close s0 fd) /\ TfdM (do_close s0 fd) /\ AllGone (do_close s0 fd)).
  { intros s0 fd (I0 & Q0 & T0 & G0). destruct (do_close_gone s0 fd I0 G0) as (I1 & G1 & CS).
    split; [assumption|]. split; [|split; [|assumption]].
    - destruct (do_close_quiet s0 fd) as (E1 & E2 & E3 & E4 & _). destruct Q0. constructor; rewrite ?E1, ?E2, ?E3, ?E4; assumption.
    - destruct (do_close_quiet s0 fd) as (_ & _ & _ & _ & E5 & E6). unfold TfdM. rewrite E5, E6. exact T0. }
  assert (S1 : let s1 := if tfd s =? -1 then s else do_close s (tfd s) in InvW s1 /\ Quiet s1 /\ TfdM s1 /\ AllGone s1).
  { cbv zeta. destruct (tfd s =? -1); [tauto|apply ST; tauto]. }
  cbv zeta in S1. destruct (ST _ (epfd (if tfd s =? -1 then s else do_close s (tfd s))) S1) as (A & B & C & _).
  split; [split; assumption|assumption].
Qed.

Section Top.
Variable sc : scenario.
Hypothesis WF : wf_scenario sc.
Hypothesis do_action_ok : forall s a, InvW s -> wf_action a -> okr (StepW s) (do_action s a).

Let Hh := wf_handlers sc WF.

(* ---------- tear-down ---------- *)
Lemma teardown_obj_ok : forall s i, InvW s -> ok_idx i -> okr (StepT s) (teardown_obj s i).
Proof.
  intros s i I OK. unfold teardown_obj.
  eapply okr_bind; [apply (do_action_okT do_action_ok s (AFdUnreg i) I OK)|]. intros s1 S1.
  eapply okr_bind; [apply (do_action_okT do_action_ok s1 (ATmUnreg i) (proj1 S1) OK)|]. intros s2 S2.
  eapply okr_bind; [apply (do_action_okT do_action_ok s2 (ATkUnreg i) (proj1 S2) OK)|]. intros s3 S3.
  eapply okr_bind; [apply (do_action_okT do_action_ok s3 (AEvUnreg i) (proj1 S3) OK)|]. intros s4 S4.
  eapply okr_weaken; [apply (do_action_okT do_action_ok s4 (ARwUnreg i) (proj1 S4) OK)|]. intros s5 S5.
  eapply StepT_trans; [exact S1|]. eapply StepT_trans; [exact S2|]. eapply StepT_trans; [exact S3|].
  eapply StepT_trans; eassumption.
Qed.

Lemma teardown_ok : forall l s, InvW s -> (forall i, In i l -> ok_idx i) -> okr (StepT s) (teardown s l).
Proof.
  induction l as [|i l IH]; intros s I OK; cbn [teardown].
  - cbn [okr]. apply StepT_refl; assumption.
  - eapply okr_bind; [apply (teardown_obj_ok s i I); apply OK; left; reflexivity|]. intros s1 S1.
    eapply okr_weaken; [apply (IH s1 (proj1 S1)); intros j J; apply OK; right; assumption|].
    intros s2 S2. eapply StepT_trans; eassumption.
Qed.

(* ---------- entering iv_main ---------- *)
Lemma LoopInv_Inv : forall s, LoopInv s <-> Inv s /\ TfdM s.
Proof.
  intros s. unfold LoopInv, Inv. rewrite Quiet_Q3. tauto.
Qed.

Lemma LoopInv_StepT : forall s s', LoopInv s -> StepT s s' -> LoopInv s'.
Proof.
  intros s s' L (I & F & T). apply LoopInv_Inv in L. destruct L as ((_ & Q) & TM). apply LoopInv_Inv.
  split; [split; [assumption|eapply Quiet_Fr; eassumption]|eapply TfdM_tm; eassumption].
Qed.

Lemma main_enter : forall s, LoopInv s -> LoopInv (set_quit (emit s TMain) false) /\
  nwait (kern (set_quit (emit s TMain) false)) = nwait (kern s).
Proof.
  intros s (I & Q & T & A). split; [|reflexivity]. split; [|split; [exact Q|split; [exact T|exact A]]].
  apply (InvW_coresame (emit s TMain)); [cs_refl| |apply InvW_emit; [assumption|discriminate..]].
  apply nobad_cons; [apply (ms_nobad _ (iw_misc _ I))|discriminate..].
Qed.

(* ---------- a whole scenario ---------- *)
Lemma okr_nobad : forall (P : core -> Prop) r, okr P r -> (forall s, P s -> nobad (trace s)) -> nobad (trace (res_state r)).
Proof. intros P [s|s] H K; cbn [okr res_state] in *; [apply K; assumption|assumption]. Qed.

Lemma scenario_ok :
  okr (fun s => nobad (trace s))
    (bind (run_acts (core0 sc) (sc_setup sc)) (fun s =>
     bind (main_loop sc (Z.to_nat (sc_limit sc) + 2) (set_quit (emit s TMain) false) true) (fun s =>
     let s := emit s (TEnd (if quit s then 1 else 0) (numobjs s)) in
     bind (teardown s (zseq 0 16)) (fun s =>
     let s := emit s (TTear (numobjs s)) in
     let s := deinit sc s in
     R (emit s (TDone (open_dyn (kern s)))))))).
Proof.
  destruct (core0_Inv sc WF) as (I0 & T0 & N0).
  assert (L0 : LoopInv (core0 sc)) by (apply LoopInv_Inv; split; assumption).
  eapply okr_bind; [apply (run_acts_ok do_action_ok (sc_setup sc) (core0 sc) (proj1 I0) (wf_setup sc WF))|].
  intros s1 S1. pose proof (LoopInv_StepT _ _ L0 S1) as L1.
  assert (N1 : nwait (kern s1) = 0) by (rewrite (fr_nwait _ _ (proj1 (proj2 S1))); exact N0).
  destruct (main_enter s1 L1) as (L1' & N1'). pose proof (wf_limit sc WF) as LIM.
  eapply okr_bind; [apply (main_loop_ok sc WF do_action_ok _ _ true L1'); rewrite N1', N1; lia|].
  intros s2 (I2 & _). cbv zeta.
  set (s2' := emit s2 _).
  assert (I2' : InvW s2') by (apply InvW_emit; [assumption|discriminate..]).
  eapply okr_bind; [apply (teardown_ok (zseq 0 16) s2' I2')|].
  { intros i Hi. apply In_zseq' in Hi. unfold ok_idx. cbn in Hi. lia. }
  intros s3 (I3 & _). cbn [okr].
  apply nobad_cons; [|discriminate..]. apply deinit_nobad.
  apply nobad_cons; [apply (ms_nobad _ (iw_misc _ I3))|discriminate..].
Qed.

Lemma core_no_crash_gen : ~ In TCrash (run_scenario sc) /\ ~ In TFatal (run_scenario sc).
Proof.
  unfold run_scenario. cbv zeta.
  pose proof (okr_nobad _ _ scenario_ok (fun s H => H)) as (A & B).
  split; intros H; apply in_rev in H; [apply A|apply B]; exact H.
Qed.

End Top.
