(* CorePhase2AcctOwnLoop.v -- code 1802, part 3: CoreInv's InvW together with "every open
   library-created descriptor has an owner" through handler scripts and the callback dispatchers
   (same structure as CorePhase2K1Loop.v). *)
From Coq Require Import List ZArith Bool Lia.
From Ivv Require Import Core.Kernel Core.CoreTypes Core.CoreFd Core.CoreModel Core.CoreSpec
  Core.CoreInvBase Core.CoreInvDefs Core.CoreInvFd Core.CoreInvPoll Core.CoreInvReg Core.CoreInvObj
  Core.CoreInvTm Core.CoreInvLoop
  Core.CorePhase2K1Base Core.CorePhase2AcctOwn Core.CorePhase2AcctOwnAct.
From Ivv Require Timer.HeapModel Timer.HeapSpec Timer.HeapProofs Timer.HeapBase Timer.HeapFacts Timer.HeapUnreg.
Import ListNotations.
Local Open Scope Z_scope.

(* what do_action_O needs from the state invariant *)
Lemma InvW_OH : forall s, InvW s -> OH s.
Proof.
  intros s [FI SY DI HP TI EI AC MI]. constructor.
  - destruct (fv_ref _ _ FI) as [E|E]; rewrite E; lia.
  - intros Z0. destruct (rw_reg s KICK_RAW) eqn:R; [|reflexivity].
    destruct (proj1 (ev_kick _ EI) R) as [_ P]. lia.
  - intros U P. apply (proj2 (ev_kick _ EI)). split; assumption.
Qed.

Record ODI (s s' : core) : Prop := {
  oi_od : OD s -> OD s'; oi_epfd : epfd s' = epfd s; oi_isep : is_epoll s' = is_epoll s }.

Lemma ODI_refl : forall s, ODI s s. Proof. intros s. constructor; auto. Qed.
Lemma ODI_trans : forall a b c, ODI a b -> ODI b c -> ODI a c.
Proof. intros a b c [] []. constructor; [auto|congruence|congruence]. Qed.
Lemma ODI_OF : forall s s', OF s s' -> ODI s s'.
Proof.
  intros s s' F. constructor; [intros D; eapply OD_OF; eassumption| |]; destruct F as [_ E]; unfold owners in E.
  - congruence.
  - unfold is_epoll. replace (method s') with (method s) by congruence. reflexivity.
Qed.
Lemma ODI_plain : forall s s', kern s' = kern s -> owners s' = owners s -> ODI s s'.
Proof. intros. apply ODI_OF. apply OF_plain; assumption. Qed.
Lemma ODI_kern : forall s k', KO (kern s) k' -> ODI s (set_kern s k').
Proof. intros. apply ODI_OF. apply OF_kern. assumption. Qed.

Definition PO (s : core) (r : res) : Prop := ARes (fun s' => InvW s' /\ ODI s s') r.

Lemma PO_bind : forall s r f, PO s r -> (forall s1, InvW s1 -> ODI s s1 -> PO s1 (f s1)) -> PO s (bind r f).
Proof.
  intros s r f P K. destruct r as [s1|s1]; unfold PO in *; cbn [bind ARes] in *; [|exact I].
  destruct P as [I1 T1]. specialize (K s1 I1 T1). destruct (f s1) as [s2|s2]; cbn [ARes] in *; [|exact I].
  destruct K as [I2 T2]. split; [exact I2|eapply ODI_trans; eassumption].
Qed.

Lemma PO_pre : forall s s0 r, ODI s s0 -> PO s0 r -> PO s r.
Proof.
  intros s s0 r T P. destruct r; unfold PO in *; cbn [ARes] in *; [|exact I]. destruct P as [A B]. split; [exact A|eapply ODI_trans; eassumption].
Qed.

Lemma PO_same : forall s, InvW s -> PO s (R s).
Proof. intros s I. split; [exact I|apply ODI_refl]. Qed.

Lemma okr_R : forall (P : core -> Prop) r s', okr P r -> r = R s' -> P s'.
Proof. intros P r s' H ->. exact H. Qed.

Section Loop.
Variable sc : scenario.
Hypothesis WF : wf_scenario sc.
Hypothesis do_action_ok : forall s a, InvW s -> wf_action a -> okr (StepW s) (do_action s a).
Let Hh := wf_handlers sc WF.

Lemma do_action_O' : forall s a, InvW s -> wf_action a -> PO s (do_action s a).
Proof.
  intros s a I W. pose proof (do_action_ok s a I W) as P.
  pose proof (fun D => do_action_O s a D (InvW_OH s I) W) as Q.
  pose proof (do_action_tm s a) as T. unfold tmr in T.
  destruct (do_action s a) as [s1|s1]; unfold PO; cbn [okr ARes res_state] in *; [|exact Logic.I]. split; [apply P|].
  destruct T as (T1 & T2 & T3). constructor; [exact Q|exact T3|unfold is_epoll; rewrite T2; reflexivity].
Qed.

Lemma run_acts_O : forall l s, InvW s -> Forall wf_action l -> PO s (run_acts s l).
Proof.
  induction l as [|a l IH]; intros s I W; cbn [run_acts]; [apply PO_same; exact I|].
  inversion W as [|? ? W1 W2]; subst. eapply PO_bind; [apply do_action_O'; assumption|]. intros s1 I1 _. apply IH; assumption.
Qed.

Lemma InvW_set_invoc : forall s v, InvW s -> InvW (set_invoc s v).
Proof. intros s v I. apply (InvW_coresame s); [constructor; reflexivity|apply (ms_nobad _ (iw_misc _ I))|exact I]. Qed.

Lemma run_script_O : forall s key, InvW s -> PO s (run_script sc s key).
Proof.
  intros s key I. unfold run_script. pose proof (Hh key) as F.
  destruct (sc_handlers sc key) as [|l0 ls] eqn:E; [apply PO_same; exact I|].
  apply (PO_pre s (set_invoc s (upd (invoc s) key (invoc s key + 1)))); [apply ODI_plain; reflexivity|].
  apply run_acts_O; [apply InvW_set_invoc; exact I|].
  apply Forall_nth_d; [exact F|constructor].
Qed.

(* ---------- events ---------- *)
Lemma events_loop_O : forall fuel s, InvW s -> PO s (events_loop sc fuel s).
Proof.
  induction fuel as [|f IH]; intros s I; cbn [events_loop]; destruct (ev_batch s) as [|ie rest] eqn:E;
    try (apply PO_same; exact I); try exact Logic.I.
  cbv zeta. set (s1 := set_evlists s (ev_pending s) rest).
  assert (I1 : InvW s1).
  { apply InvW_evlists; [assumption| |].
    - intros j J. rewrite E. apply in_app_or in J. apply in_or_app. destruct J; [left; assumption|right; right; assumption].
    - pose proof (ev_nodup _ (iw_ev _ I)) as ND. rewrite E in ND. apply NoDup_remove_1 in ND. assumption. }
  assert (I2 : InvW (emit s1 (TCallEvent ie))) by (apply InvW_emit; [assumption|discriminate..]).
  apply (PO_pre s (emit s1 (TCallEvent ie))); [apply ODI_plain; reflexivity|].
  eapply PO_bind; [apply run_script_O; exact I2|]. intros s2 I2' _.
  destruct rest; [apply PO_same; exact I2'|apply IH; exact I2'].
Qed.

Lemma run_pending_events_O : forall s, InvW s -> PO s (run_pending_events sc s).
Proof.
  intros s I. unfold run_pending_events. destruct (ev_pending s) as [|p0 p] eqn:E; [apply PO_same; exact I|].
  set (s1 := set_evlists s [] (p0 :: p)).
  assert (I1 : InvW s1).
  { apply InvW_evlists; [assumption| |].
    - intros j J. rewrite E. apply in_or_app. left. exact J.
    - pose proof (ev_nodup _ (iw_ev _ I)) as ND. rewrite E in ND. apply NoDup_app_l in ND. exact ND. }
  apply (PO_pre s s1); [apply ODI_plain; reflexivity|]. apply events_loop_O. exact I1.
Qed.

(* ---------- raw events, descriptor handlers ---------- *)
Lemma raw_got_event_O : forall s j, InvW s -> rw_reg s j = true -> PO s (raw_got_event sc s j).
Proof.
  intros s j I RJ. unfold raw_got_event. cbv zeta.
  set (toread := if raw_is_pipe s j then 1024 else 8).
  pose proof (kstable_read (kern s) (rw_rfd s j) toread) as KS.
  pose proof (KO_read (kern s) (rw_rfd s j) toread) as KT1.
  destruct (k_read (kern s) (rw_rfd s j) toread) as [k1 [n|e]]; cbn [fst] in KS, KT1.
  - destruct (n =? 0); [exact Logic.I|].
    set (s1 := set_kern s k1).
    assert (I1 : InvW s1) by (apply InvW_kstable; assumption).
    assert (T1 : ODI s s1) by (apply ODI_kern; exact KT1).
    apply (PO_pre s s1 _ T1).
    destruct (j =? KICK_RAW); [apply run_pending_events_O; exact I1|].
    apply (PO_pre s1 (emit s1 (TCallRaw j))); [apply ODI_plain; reflexivity|].
    apply run_script_O. apply InvW_emit; [exact I1|discriminate..].
  - destruct e; try exact Logic.I. unfold PO. cbn [ARes].
    split; [apply InvW_kstable; assumption|apply ODI_kern; exact KT1].
Qed.

Lemma call_fd_O : forall s k band h, InvW s -> registered (fdt s k) = true -> hsel (fdt s k) h -> PO s (call_fd sc s k band h).
Proof.
  intros s k band h I R HS. unfold call_fd. destruct h as [hid|]; [|apply PO_same; exact I].
  pose proof (fv_range _ _ (iw_fd _ I) k R) as RG.
  assert (RUN : PO s (run_script sc (emit s (TCallFd k band hid (cookie (getfd s k)))) hid)).
  { apply (PO_pre s (emit s (TCallFd k band hid (cookie (getfd s k))))); [apply ODI_plain; reflexivity|].
    apply run_script_O. apply InvW_emit; [exact I|discriminate..]. }
  destruct (Z_lt_ge_dec k 16) as [U|D].
  - destruct (dy_userh _ (iw_dyn _ I) k ltac:(lia)) as (A & B & C).
    assert (0 <= hid < 16) by (destruct HS as [Q|[Q|Q]]; symmetry in Q; [apply A|apply B|apply C]; assumption).
    destruct (Z.leb_spec 1000 hid); [lia|]. exact RUN.
  - set (j := k - 16). assert (J : 0 <= j <= 16) by (subst j; lia).
    assert (KJ : k = 16 + j) by (subst j; lia).
    pose proof (dy_reg _ (iw_dyn _ I) j J) as RR. rewrite <- KJ, R in RR. symmetry in RR.
    destruct (dy_obj _ (iw_dyn _ I) j RR) as (_ & A & B & C). rewrite <- KJ in A, B, C.
    assert (hid = 1000 + j).
    { destruct HS as [Q|[Q|Q]]; rewrite ?A, ?B, ?C in Q; try discriminate. unfold H_RAW in Q. congruence. }
    subst hid. destruct (Z.leb_spec 1000 (1000 + j)); [|lia].
    replace (1000 + j - 1000) with j by lia. apply raw_got_event_O; assumption.
Qed.

Lemma guarded_call_O : forall s k (b : bool) band (sel : fdo -> option Z), InvW s ->
  (handled s = Some k \/ handled s = None) -> (forall f, hsel f (sel f)) ->
  PO s (match handled s with
        | Some _ => if b then call_fd sc s k band (sel (getfd s k)) else R s
        | None => R s
        end).
Proof.
  intros s k b band sel I H SEL.
  destruct (handled s) as [k'|] eqn:E; [|apply PO_same; exact I].
  destruct H as [H|H]; [|discriminate]. injection H as ->. destruct b; [|apply PO_same; exact I].
  apply call_fd_O; [exact I|apply (handled_reg _ _ I E)|apply SEL].
Qed.

Lemma dispatch_active_O : forall fuel s, InvW s -> PO s (dispatch_active sc fuel s).
Proof.
  induction fuel as [|f IH]; intros s I; cbn [dispatch_active]; destruct (active s) as [|k rest] eqn:E;
    try (apply PO_same; exact I); try exact Logic.I.
  cbv zeta. set (s1 := set_handled (set_active s rest) (Some k)).
  pose proof (iw_fd _ I) as FI.
  assert (LK : live s (-1) k) by (apply (fv_active _ _ FI); rewrite E; left; reflexivity).
  assert (I1 : InvW s1).
  { apply InvW_act_handled; [assumption| |].
    - intros k0 H. apply (fv_active _ _ FI). rewrite E. right. assumption.
    - intros k0 H. injection H as <-. assumption. }
  assert (H1 : handled s1 = Some k) by reflexivity.
  assert (R1 : registered (fdt s1 k) = true) by (apply live_none in LK; apply LK).
  apply (PO_pre s s1); [apply ODI_plain; reflexivity|].
  (* error band *)
  assert (P1 : okr (fun s' => StepT s1 s' /\ (handled s' = Some k \/ handled s' = None))
                   (if has (ready (getfd s1 k)) M_ERR then call_fd sc s1 k 2 (h_err (getfd s1 k)) else R s1)).
  { destruct (has (ready (getfd s1 k)) M_ERR).
    - eapply okr_weaken; [apply (call_fd_ok sc Hh do_action_ok s1 k 2 _ I1 R1); right; right; reflexivity|].
      intros s' S. split; [assumption|]. destruct (fr_handled _ _ (proj1 (proj2 S))) as [Q|Q]; [left; congruence|right; assumption].
    - cbn [okr]. split; [apply StepT_refl; assumption|left; assumption]. }
  assert (K1 : PO s1 (if has (ready (getfd s1 k)) M_ERR then call_fd sc s1 k 2 (h_err (getfd s1 k)) else R s1)).
  { destruct (has (ready (getfd s1 k)) M_ERR); [|apply PO_same; exact I1].
    apply call_fd_O; [exact I1|exact R1|right; right; reflexivity]. }
  destruct (if has (ready (getfd s1 k)) M_ERR then call_fd sc s1 k 2 (h_err (getfd s1 k)) else R s1) as [s2|s2];
    unfold PO in *; cbn [bind okr ARes] in *; [|exact Logic.I].
  destruct P1 as [_ H2], K1 as [I2 T2].
  (* input band *)
  pose proof (guarded_call sc Hh do_action_ok s2 k (has (ready (getfd s2 k)) M_IN) 0 h_in I2 H2 ltac:(intros; left; reflexivity)) as P2.
  pose proof (guarded_call_O s2 k (has (ready (getfd s2 k)) M_IN) 0 h_in I2 H2 ltac:(intros; left; reflexivity)) as K2.
  destruct (match handled s2 with
            | Some _ => if has (ready (getfd s2 k)) M_IN then call_fd sc s2 k 0 (h_in (getfd s2 k)) else R s2
            | None => R s2 end) as [s3|s3]; unfold PO in *; cbn [bind okr ARes] in *; [|exact Logic.I].
  destruct P2 as [_ H3], K2 as [I3 T3].
  (* output band *)
  pose proof (guarded_call sc Hh do_action_ok s3 k (has (ready (getfd s3 k)) M_OUT) 1 h_out I3 H3 ltac:(intros; right; left; reflexivity)) as P3.
  pose proof (guarded_call_O s3 k (has (ready (getfd s3 k)) M_OUT) 1 h_out I3 H3 ltac:(intros; right; left; reflexivity)) as K3.
  destruct (match handled s3 with
            | Some _ => if has (ready (getfd s3 k)) M_OUT then call_fd sc s3 k 1 (h_out (getfd s3 k)) else R s3
            | None => R s3 end) as [s4|s4]; unfold PO in *; cbn [bind okr ARes] in *; [|exact Logic.I].
  destruct P3 as [_ H4], K3 as [I4 T4].
  pose proof (IH s4 I4) as Q. destruct (dispatch_active sc f s4) as [s5|s5]; cbn [ARes] in *; [|exact Logic.I].
  destruct Q as [I5 T5]. split; [exact I5|].
  eapply ODI_trans; [exact T2|]. eapply ODI_trans; [exact T3|]. eapply ODI_trans; [exact T4|exact T5].
Qed.

(* ---------- timers ---------- *)
Lemma timers_dispatch_O : forall fuel s, InvW s -> PO s (timers_dispatch sc fuel s).
Proof.
  induction fuel as [|f IH]; intros s I; cbn [timers_dispatch]; destruct (HeapModel.batch (heap s)) as [|t rest] eqn:E;
    try (apply PO_same; exact I); try exact Logic.I.
  cbv zeta.
  pose proof (HeapFacts.HeapInv_Inv _ (iw_heap _ I)) as HI.
  assert (T0 : HeapModel.tidx (heap s) t = 0).
  { apply (proj1 (HeapFacts.i_batch _ HI)). rewrite E. left. reflexivity. }
  destruct (HeapUnreg.pop_inv (heap s) t HI T0) as (HI1 & _ & _ & _ & B1 & N1 & _).
  rewrite E in HI1, B1, N1. cbn [HeapModel.remove_first] in HI1, B1, N1. rewrite Pos.eqb_refl in HI1, B1, N1.
  set (h1 := HeapModel.set_idx (HeapModel.set_batch (heap s) rest) t (-1)) in *.
  set (s1 := set_heap s h1).
  assert (I1 : InvW s1) by (apply InvW_set_heap; [assumption|apply HeapFacts.Inv_HeapInv; assumption|assumption]).
  pose proof (InvW_validate s1 I1) as I2. set (s2 := validate_now s1) in *.
  assert (I3 : InvW (emit s2 (TCallTimer (Z.pos t - 1) (time s2)))) by (apply InvW_emit; [exact I2|discriminate..]).
  assert (T3 : ODI s (emit s2 (TCallTimer (Z.pos t - 1) (time s2)))).
  { unfold s2, validate_now. destruct (time_valid s1); apply ODI_plain; reflexivity. }
  apply (PO_pre s _ _ T3).
  eapply PO_bind; [apply run_script_O; exact I3|]. intros s4 I4 _. apply IH. exact I4.
Qed.

Lemma run_timers_O : forall s, InvW s -> Q3 s -> PO s (run_timers sc s).
Proof.
  intros s I Q. unfold run_timers. destruct (HeapModel.num (heap s) =? 0); [apply PO_same; exact I|].
  cbv zeta. pose proof (InvW_validate s I) as I1. set (s1 := validate_now s) in *.
  assert (T1 : ODI s s1) by (unfold s1, validate_now; destruct (time_valid s); apply ODI_plain; reflexivity).
  assert (H1 : heap s1 = heap s) by apply heap_validate.
  destruct (HeapProofs.heap_collect_ok (heap s1) (time s1)) as (h' & C & HI' & _).
  { rewrite H1. apply (iw_heap _ I). }
  { rewrite H1. apply Q. }
  rewrite C. unfold lift_heap. cbn [bind].
  destruct (heap_step s1 h' I1 HI') as (I2 & N2). cbv zeta in I2, N2.
  set (s2 := set_numobjs (set_heap s1 h') _) in *.
  apply (PO_pre s s1 _ T1). apply (PO_pre s1 s2); [apply ODI_plain; reflexivity|].
  apply timers_dispatch_O. exact I2.
Qed.

(* ---------- tasks ---------- *)
Lemma tasks_loop_O : forall fuel s, InvW s -> PO s (tasks_loop sc fuel s).
Proof.
  induction fuel as [|f IH]; intros s I; cbn [tasks_loop]; destruct (cur s) as [[|k rest]|] eqn:E;
    try (apply PO_same; exact I); try exact Logic.I.
  - unfold PO. cbn [ARes]. split; [|apply ODI_plain; reflexivity].
    apply (InvW_tasks_set do_action_ok s); try reflexivity; try assumption; try (constructor; reflexivity).
    + unfold curl. cbn [tasks cur set_tasks]. rewrite E. tauto.
    + pose proof (tk_nodup _ (iw_task _ I)) as ND. unfold curl in *. cbn [tasks cur set_tasks]. rewrite E in ND. exact ND.
    + unfold curl. cbn [tasks cur set_tasks numobjs]. rewrite E. reflexivity.
  - unfold PO. cbn [ARes]. split; [|apply ODI_plain; reflexivity].
    apply (InvW_tasks_set do_action_ok s); try reflexivity; try assumption; try (constructor; reflexivity).
    + unfold curl. cbn [tasks cur set_tasks]. rewrite E. tauto.
    + pose proof (tk_nodup _ (iw_task _ I)) as ND. unfold curl in *. cbn [tasks cur set_tasks]. rewrite E in ND. exact ND.
    + unfold curl. cbn [tasks cur set_tasks numobjs]. rewrite E. reflexivity.
  - cbv zeta.
    set (s1 := set_epoch (set_numobjs (set_tasks s (tasks s) (Some rest)) (numobjs s - 1)) (epoch s) (upd (tepoch s) k (epoch s))).
    assert (C0 : curl s = k :: rest) by (unfold curl; rewrite E; reflexivity).
    assert (C1 : curl s1 = rest) by reflexivity.
    pose proof (tk_nodup _ (iw_task _ I)) as ND. rewrite C0 in ND.
    assert (I1 : InvW s1).
    { apply (InvW_tasks_set do_action_ok s); try reflexivity; [assumption|constructor; reflexivity| | |].
      - rewrite C0, C1. change (tasks s1) with (tasks s). intros x X. apply in_app_or in X. apply in_or_app.
        destruct X; [left; assumption|right; right; assumption].
      - rewrite C1. change (tasks s1) with (tasks s). apply NoDup_remove_1 in ND. exact ND.
      - rewrite C0, C1. change (tasks s1) with (tasks s). change (numobjs s1) with (numobjs s - 1).
        rewrite !app_length. cbn [length]. lia. }
    apply (PO_pre s s1); [apply ODI_plain; reflexivity|].
    eapply PO_bind; [|intros s2 I2 _; apply IH; exact I2].
    destruct (k =? LOCAL_TASK); [apply run_pending_events_O; exact I1|].
    apply (PO_pre s1 (emit s1 (TCallTask k))); [apply ODI_plain; reflexivity|].
    apply run_script_O. apply InvW_emit; [exact I1|discriminate..].
Qed.

Lemma run_tasks_O : forall s, InvW s -> Q3 s -> PO s (run_tasks sc s).
Proof.
  intros s I Q. unfold run_tasks. cbv zeta.
  set (s1 := set_epoch (set_tasks s [] (Some (tasks s))) ((epoch s + 1) mod 4294967296) (tepoch s)).
  destruct Q as (Qb & Qc & Qe).
  assert (C0 : curl s = []) by (unfold curl; rewrite Qc; reflexivity).
  assert (C1 : curl s1 = tasks s) by reflexivity.
  assert (I1 : InvW s1).
  { apply (InvW_tasks_set do_action_ok s); try reflexivity; [assumption|constructor; reflexivity| | |].
    - rewrite C0, C1, app_nil_r. intros k K. exact K.
    - rewrite C1. pose proof (tk_nodup _ (iw_task _ I)) as ND. rewrite C0, app_nil_r in ND. exact ND.
    - rewrite C0, C1, app_nil_r. reflexivity. }
  apply (PO_pre s s1); [apply ODI_plain; reflexivity|]. apply tasks_loop_O. exact I1.
Qed.

End Loop.
