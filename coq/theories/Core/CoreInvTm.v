(* CoreInvTm.v -- a frame property of every API call: the poll method and the
   timer descriptor of the loop (st->u.epoll.timer_fd) are changed by nothing a
   handler script can do.  Pure computation, no invariant needed. *)
From Coq Require Import List ZArith Bool Lia.
From Ivv Require Import Core.Kernel Core.CoreTypes Core.CoreFd Core.CoreModel Core.CoreInvBase.
From Ivv Require Timer.HeapModel.
Import ListNotations.
Local Open Scope Z_scope.

Definition tm (s s' : core) : Prop := tfd s' = tfd s /\ method s' = method s /\ epfd s' = epfd s.
Definition tmr (s : core) (r : res) : Prop := tm s (res_state r).

Lemma tm_refl : forall s, tm s s. Proof. intros; repeat split. Qed.
Lemma tm_trans : forall a b c, tm a b -> tm b c -> tm a c.
Proof. unfold tm. intros a b c (A1&A2&A3) (B1&B2&B3). repeat split; congruence. Qed.

Lemma tmr_bind : forall s r f, tmr s r -> (forall s1, tmr s1 (f s1)) -> tmr s (bind r f).
Proof.
  intros s [s1|s1] f H K; cbn [bind]; [|exact H].
  unfold tmr in *. cbn [res_state] in H. eapply tm_trans; [exact H|apply K].
Qed.
Lemma tmr_bind' : forall s s0 r f, tm s s0 -> tmr s0 r -> (forall s1, tmr s1 (f s1)) -> tmr s (bind r f).
Proof.
  intros s s0 r f A H K. assert (Q : tmr s0 (bind r f)) by (apply tmr_bind; assumption).
  unfold tmr in *. eapply tm_trans; eassumption.
Qed.
Lemma tmr_pre : forall s s0 r, tm s s0 -> tmr s0 r -> tmr s r.
Proof. unfold tmr. intros. eapply tm_trans; eassumption. Qed.

Ltac tmfin := unfold tmr, tm in *; cbn [res_state fst snd halt bind] in *; sp; intuition congruence.

Lemma ctl_retry_tm : forall s op fd ev d, tm s (fst (ctl_retry s op fd ev d)).
Proof.
  intros. unfold ctl_retry. destruct (k_epoll_ctl (kern s) op fd ev d) as [k1 [e|]]; [|tmfin].
  destruct e; try tmfin. destruct (k_epoll_ctl k1 op fd ev d) as [k2 r2]. tmfin.
Qed.

Lemma flush_one__tm : forall s k, tm s (fst (epoll_flush_one_ s k)).
Proof.
  intros. unfold epoll_flush_one_. cbv zeta.
  match goal with |- context [if ?c then (_, false) else _] => destruct c end; [tmfin|].
  match goal with |- context [ctl_retry ?a ?b ?c ?d ?e] =>
    pose proof (ctl_retry_tm a b c d e) as H; destruct (ctl_retry a b c d e) as [s1 r] end.
  destruct r; tmfin.
Qed.

Lemma flush_one_tm : forall s k, tmr s (epoll_flush_one s k).
Proof.
  intros. unfold epoll_flush_one. pose proof (flush_one__tm s k) as H.
  destruct (epoll_flush_one_ s k) as [s1 f]. destruct f; tmfin.
Qed.

Lemma epoll_notify_tm : forall s k, tm s (epoll_notify_fd s k).
Proof. intros. unfold epoll_notify_fd. cbv zeta. match goal with |- context [if ?c then _ else _] => destruct c end; tmfin. Qed.

Lemma epoll_unreg_tm : forall s k, tmr s (epoll_unregister_fd s k).
Proof. intros. unfold epoll_unregister_fd. destruct (mem_z k (notify s)); [apply flush_one_tm|tmfin]. Qed.

Lemma poll_notify_tm : forall s k, tmr s (poll_notify_fd s k).
Proof.
  intros. unfold poll_notify_fd. cbv zeta.
  repeat match goal with
         | |- context [if ?c then _ else _] => destruct c
         | |- context [match nth_z ?a ?b with _ => _ end] => destruct (nth_z a b)
         end; tmfin.
Qed.

Lemma poll_sync_tm : forall s k, tmr s (fst (poll_notify_fd_sync s k)).
Proof.
  intros. unfold poll_notify_fd_sync. cbv zeta.
  match goal with |- context [if ?c then _ else _] => destruct c end; cbn [fst]; [tmfin|apply poll_notify_tm].
Qed.

Lemma m_notify_tm : forall s k, tmr s (m_notify_fd s k).
Proof.
  intros. unfold m_notify_fd. destruct (is_epoll s); [|apply poll_notify_tm].
  pose proof (epoll_notify_tm s k). tmfin.
Qed.

Lemma notify_fd_tm : forall s k, tmr s (notify_fd s k).
Proof. intros. unfold notify_fd. eapply tmr_pre; [|apply m_notify_tm]. tmfin. Qed.

Lemma prologue_tm : forall s k, tm s (register_prologue s k).
Proof. intros. unfold register_prologue. cbv zeta. tmfin. Qed.

Lemma fd_register_tm : forall s k, tmr s (fd_register s k).
Proof.
  intros. unfold fd_register. eapply tmr_bind'; [apply prologue_tm|apply notify_fd_tm|].
  intros. unfold register_epilogue. tmfin.
Qed.

Lemma fd_register_try_tm : forall s k, tmr s (fst (fd_register_try s k)).
Proof.
  intros. unfold fd_register_try. cbv zeta.
  set (s1 := putfd (register_prologue s k) k (recompute_wanted (getfd (register_prologue s k) k))).
  assert (T1 : tm s s1) by (pose proof (prologue_tm s k); subst s1; tmfin).
  set (orig := wanted (getfd s1 k)).
  set (s2 := if orig =? 0 then putfd s1 k (fd_with_wanted (getfd s1 k) (M_IN + M_OUT)) else s1).
  assert (T2 : tm s s2) by (subst s2; destruct (orig =? 0); tmfin).
  match goal with |- context [let '(r, failed) := ?X in _] =>
    assert (E : tmr s (fst X)); [|destruct X as [r fl]] end.
  { destruct (is_epoll s2).
    - pose proof (flush_one__tm s2 k) as H. destruct (epoll_flush_one_ s2 k) as [s3 f3]. tmfin.
    - pose proof (poll_sync_tm s2 k) as H. eapply tmr_pre; eassumption. }
  cbn [fst] in E. destruct fl; cbn [fst].
  - apply tmr_bind; [exact E|]. intros s4.
    match goal with |- context [if ?c then _ else _] => destruct c end.
    + eapply tmr_pre; [|apply epoll_unreg_tm]. tmfin.
    + tmfin.
  - apply tmr_bind; [exact E|]. intros s4. apply tmr_bind.
    + destruct (orig =? 0); [|tmfin]. eapply tmr_pre; [|apply m_notify_tm]. tmfin.
    + intros. unfold register_epilogue. tmfin.
Qed.

Lemma fd_unregister_tm : forall s k, tmr s (fd_unregister s k).
Proof.
  intros. unfold fd_unregister. cbv zeta. eapply tmr_bind'; [|apply notify_fd_tm|]; [tmfin|].
  intros s1. apply tmr_bind.
  - destruct (is_epoll s1); [apply epoll_unreg_tm|tmfin].
  - intros s2. destruct (handled _) as [h|]; [destruct (h =? k)|]; tmfin.
Qed.

Lemma fd_set_handler_tm : forall s k b h, tmr s (fd_set_handler s k b h).
Proof.
  intros. unfold fd_set_handler. cbv zeta. destruct (registered (getfd s k)); [|tmfin].
  eapply tmr_pre; [|apply notify_fd_tm]. tmfin.
Qed.

Lemma validate_tm : forall s, tm s (validate_now s).
Proof. intros. unfold validate_now. destruct (time_valid s); tmfin. Qed.
Lemma invalidate_tm : forall s, tm s (invalidate_now s).
Proof. intros. unfold invalidate_now. tmfin. Qed.

Lemma lift_heap_tm : forall s o, tmr s (lift_heap s o).
Proof. intros. unfold lift_heap. destruct o; tmfin. Qed.

Lemma task_register_tm : forall s k, tm s (task_register s k).
Proof.
  intros. unfold task_register. cbv zeta. sp. destruct (cur s); [|tmfin].
  match goal with |- context [if ?c then _ else _] => destruct c end; tmfin.
Qed.
Lemma task_unregister_tm : forall s k, tm s (task_unregister s k).
Proof. intros. unfold task_unregister. tmfin. Qed.

Lemma do_close_tm : forall s fd, tm s (do_close s fd).
Proof. intros. unfold do_close. destruct (k_close (kern s) fd) as [k1 ok]. destruct ok; tmfin. Qed.

Lemma raw_fin_tm : forall s j rfd wfd f,
  tmr s (bind (fd_register (putfd s (RAW_KEY j) f) (RAW_KEY j)) (fun s =>
         R (set_rw s (upd (rw_reg s) j true) (upd (rw_rfd s) j rfd) (upd (rw_wfd s) j wfd)))).
Proof. intros. eapply tmr_bind'; [|apply fd_register_tm|]; [tmfin|]. intros. tmfin. Qed.

Ltac rawfin := cbv beta iota; cbn [fst]; first [tmfin | eapply tmr_pre; [|apply raw_fin_tm]; tmfin].

Lemma raw_register_tm : forall s j, tmr s (fst (raw_register s j)).
Proof.
  intros. unfold raw_register. cbv zeta.
  destruct (negb (efd_raw s =? 0)).
  - destruct (eventfd_grab (kern s) (efd_raw s)) as [[k1 [fd|e]] u]; cbv beta iota.
    + rawfin.
    + destruct (negb (is_enosys e)); cbv beta iota; [rawfin|].
      match goal with |- context [if ?c then _ else _] => destruct c end; [|rawfin].
      match goal with |- context [k_pipe ?k] => destruct (k_pipe k) as [k2 [[r w]|]] end; rawfin.
  - cbv beta iota. destruct (efd_raw s =? 0); [|rawfin].
    destruct (k_pipe (kern s)) as [k2 [[r w]|]]; rawfin.
Qed.

Lemma raw_unregister_tm : forall s j, tmr s (raw_unregister s j).
Proof.
  intros. unfold raw_unregister. apply tmr_bind; [apply fd_unregister_tm|]. intros s1. cbv zeta.
  pose proof (do_close_tm s1 (rw_rfd s1 j)) as A. set (s2 := do_close s1 (rw_rfd s1 j)) in *.
  destruct (raw_is_pipe s2 j); [|tmfin].
  pose proof (do_close_tm s2 (rw_wfd s2 j)) as B. tmfin.
Qed.

Lemma raw_post_tm : forall s j, tm s (raw_post s j).
Proof.
  intros. unfold raw_post. destruct (raw_is_pipe s j).
  - destruct (k_write (kern s) (rw_wfd s j) 1 0). tmfin.
  - destruct (k_write (kern s) (rw_wfd s j) 8 1). tmfin.
Qed.

Lemma event_rx_on_tm : forall s, tmr s (fst (event_rx_on s)).
Proof.
  intros. unfold event_rx_on. cbv zeta.
  match goal with |- context [match ?X with Halt _ => _ | R _ => _ end] =>
    assert (T1 : tmr s X); [|destruct X as [s1|s1]] end.
  { destruct (active_ref s =? 0); [|tmfin].
    destruct (eventfd_grab (kern s) (efd_epoll s)) as [[k1 [fd|e]] u].
    - destruct (k_write k1 fd 8 1). tmfin.
    - sp. destruct (k_pipe k1) as [k2 [[r w]|]]; [|tmfin]. destruct (k_write k2 w 1 0) as [k3 [n|e']]; tmfin. }
  - match goal with |- context [ctl_retry ?a ?b ?c ?d ?e] =>
      pose proof (ctl_retry_tm a b c d e) as H; destruct (ctl_retry a b c d e) as [s2 r] end.
    destruct r; tmfin.
  - cbn [fst]. exact T1.
Qed.

Lemma event_rx_off_tm : forall s, tmr s (event_rx_off s).
Proof.
  intros. unfold event_rx_off.
  match goal with |- context [ctl_retry ?a ?b ?c ?d ?e] =>
    pose proof (ctl_retry_tm a b c d e) as H; destruct (ctl_retry a b c d e) as [s2 r] end.
  destruct r; [tmfin|]. cbv zeta. sp.
  destruct (active_ref s2 - 1 =? 0); [|tmfin].
  set (s3 := set_activefd s2 (active_fd s2) (active_ref s2 - 1)).
  pose proof (do_close_tm s3 (active_fd s2)) as A. set (s4 := do_close s3 (active_fd s2)) in *.
  destruct (active_wr s4 =? -1); [subst s3; tmfin|].
  pose proof (do_close_tm s4 (active_wr s4)) as B. subst s3. tmfin.
Qed.

Lemma event_register_tm : forall s j, tmr s (fst (event_register s j)).
Proof.
  intros. unfold event_register. cbv zeta.
  set (s1 := set_ev (set_numobjs s (numobjs s + 1)) _ _ _).
  assert (T1 : tm s s1) by (subst s1; tmfin).
  match goal with |- context [let '(r, failed) := ?X in if failed then _ else _] =>
    assert (T2 : tmr s (fst X)); [|destruct X as [r fl]] end.
  { match goal with |- context [if ?c then _ else (R s1, false)] => destruct c end; [|cbn [fst]; tmfin].
    match goal with |- context [let '(r, s_use) := ?X in match r with _ => _ end] =>
      assert (T3 : tmr s (fst X)); [|destruct X as [r su]] end.
    { destruct (negb (use_raw s1)); [|cbn [fst]; tmfin].
      destruct (is_epoll s1); [|cbn [fst]; tmfin].
      pose proof (event_rx_on_tm s1) as H. destruct (event_rx_on s1) as [[s2|s2] [|]]; cbn [fst] in *; tmfin. }
    cbn [fst] in T3. destruct r as [s2|s2]; [|cbn [fst]; exact T3].
    destruct (use_raw s2); [|cbn [fst]; exact T3].
    pose proof (raw_register_tm s2 KICK_RAW) as H. destruct (raw_register s2 KICK_RAW) as [[s3|s3] [|]]; cbn [fst] in *; tmfin. }
  cbn [fst] in T2. destruct fl; cbn [fst]; [exact T2|].
  destruct r; tmfin.
Qed.

Lemma event_unregister_tm : forall s j, tmr s (event_unregister s j).
Proof.
  intros. unfold event_unregister. cbv zeta.
  set (s1 := set_ev _ _ _ _). assert (T1 : tm s s1) by (subst s1; tmfin).
  eapply tmr_bind'; [exact T1| |intros; tmfin].
  destruct (ev_count s1 =? 0); [|tmfin].
  destruct (use_raw s1); [apply raw_unregister_tm|apply event_rx_off_tm].
Qed.

Lemma event_post_tm : forall s j, tm s (event_post s j).
Proof.
  intros. unfold event_post. cbv zeta. destruct (ev_on_list s j); [tmfin|].
  match goal with |- context [if ?c then _ else _] => destruct c end; [|tmfin].
  match goal with |- tm s (task_register ?a ?b) => pose proof (task_register_tm a b) end. tmfin.
Qed.

Lemma do_action_tm : forall s a, tmr s (do_action s a).
Proof.
  intros s a. destruct a; cbn [do_action]; cbv zeta.
  - destruct (registered (getfd s i)); [tmfin|]. destruct (k_open _ _); [|tmfin].
    eapply tmr_pre; [|apply fd_register_tm]. tmfin.
  - destruct (registered (getfd s i)); [tmfin|].
    pose proof (fd_register_try_tm (emit s (TAct (AFdTry i))) i) as H.
    destruct (fd_register_try (emit s (TAct (AFdTry i))) i) as [r fl]. cbn [fst] in H.
    eapply tmr_bind'; [|exact H|intros; tmfin]. tmfin.
  - destruct (registered (getfd s i)); [|tmfin]. eapply tmr_pre; [|apply fd_unregister_tm]. tmfin.
  - eapply tmr_pre; [|apply fd_set_handler_tm]. tmfin.
  - tmfin.
  - destruct (registered (getfd s i)); tmfin.
  - tmfin.
  - destruct (registered (getfd s i)); tmfin.
  - tmfin.
  - destruct (timer_registered s j); [tmfin|]. eapply tmr_pre; [|apply lift_heap_tm]. tmfin.
  - destruct (timer_registered s j); [tmfin|]. eapply tmr_pre; [|apply lift_heap_tm].
    pose proof (validate_tm s). tmfin.
  - destruct (timer_registered s j); [|tmfin]. eapply tmr_pre; [|apply lift_heap_tm]. tmfin.
  - destruct (timer_registered s j); tmfin.
  - destruct (task_registered s j); [tmfin|].
    pose proof (task_register_tm (emit s (TAct (ATkReg j))) j). tmfin.
  - destruct (task_registered s j); [|tmfin]. tmfin.
  - destruct (task_registered s j); tmfin.
  - destruct (ev_reg s j); [tmfin|].
    pose proof (event_register_tm (emit s (TAct (AEvReg j))) j) as H.
    destruct (event_register (emit s (TAct (AEvReg j))) j) as [r fl]. cbn [fst] in H.
    eapply tmr_bind'; [|exact H|intros; tmfin]. tmfin.
  - destruct (ev_reg s j); [|tmfin]. eapply tmr_pre; [|apply event_unregister_tm]. tmfin.
  - destruct (ev_reg s j); [|tmfin]. pose proof (event_post_tm (emit s (TAct (AEvPost j))) j). tmfin.
  - destruct (ev_reg s j); tmfin.
  - destruct (rw_reg s j); [tmfin|].
    pose proof (raw_register_tm (emit s (TAct (ARwReg j))) j) as H.
    destruct (raw_register (emit s (TAct (ARwReg j))) j) as [r fl]. cbn [fst] in H.
    eapply tmr_bind'; [|exact H|intros; tmfin]. tmfin.
  - destruct (rw_reg s j); [|tmfin]. eapply tmr_pre; [|apply raw_unregister_tm]. tmfin.
  - destruct (rw_reg s j); [|tmfin]. pose proof (raw_post_tm (emit s (TAct (ARwPost j))) j). tmfin.
  - destruct (rw_reg s j); tmfin.
  - tmfin.
  - tmfin.
  - pose proof (invalidate_tm (emit s (TAct AInvalidate))). tmfin.
  - pose proof (validate_tm (emit s (TAct AValidate))). tmfin.
Qed.

Lemma run_acts_tm : forall l s, tmr s (run_acts s l).
Proof.
  induction l as [|a l IH]; intros s; cbn [run_acts]; [tmfin|].
  apply tmr_bind; [apply do_action_tm|]. intros. apply IH.
Qed.

Lemma run_script_tm : forall sc s key, tmr s (run_script sc s key).
Proof.
  intros. unfold run_script. destruct (sc_handlers sc key); [tmfin|].
  cbv zeta. eapply tmr_pre; [|apply run_acts_tm]. tmfin.
Qed.
