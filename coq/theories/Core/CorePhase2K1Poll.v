(* CorePhase2K1Poll.v -- the kernel-timer invariant through iv_fd_poll_and_run. *)
From Coq Require Import List ZArith Bool Lia.
From Ivv Require Import Core.Kernel Core.CoreTypes Core.CoreFd Core.CoreModel Core.CoreSpec
  Core.CoreInvBase Core.CoreInvDefs Core.CoreInvFd Core.CoreInvPoll Core.CoreInvReg Core.CoreInvObj
  Core.CoreInvTm Core.CoreInvLoop Core.CoreInvWait
  Core.CoreRelBase Core.CorePhase2K1Base Core.CorePhase2K1Fd
  Core.CorePhase2K1Act Core.CorePhase2K1Inv Core.CorePhase2K1Loop Core.CorePhase2K1Wait.
Import ListNotations.
Local Open Scope Z_scope.

(* the fields the timer invariant reads, without the kernel part *)
Record TM4 (s s' : core) : Prop := {
  t4_tfd : tfd s' = tfd s; t4_method : method s' = method s;
  t4_la : last_abs s' = last_abs s; t4_lac : last_abs_count s' = last_abs_count s }.

Lemma TM4_refl : forall s, TM4 s s. Proof. intros; constructor; reflexivity. Qed.
Lemma TM4_trans : forall a b c, TM4 a b -> TM4 b c -> TM4 a c.
Proof. intros a b c [] []. constructor; congruence. Qed.
Lemma TFs_TM4 : forall s s', TFs s s' -> TM4 s s'.
Proof. intros s s' []. constructor; assumption. Qed.

Lemma epoll_process_KF : forall t evs s re tm, KF t s (fst (fst (epoll_process s evs re tm))).
Proof.
  intros t. induction evs as [|[[fd bits] data] evs IH]; intros s re tm; cbn [epoll_process]; [apply KF_refl|].
  destruct (data =? -1); [apply IH|]. destruct (_ && _); [apply IH|].
  eapply KF_trans; [apply activate_KF|apply IH].
Qed.

Lemma TEnt_read : forall s k1 x, TEnt s -> k_read (kern s) (tfd s) 8 = (k1, inl x) -> TEnt (set_kern s k1).
Proof.
  intros s k1 x T. unfold k_read. intros E NT. cbn [tfd set_kern] in *.
  destruct (T NT) as (v & e & O & KD & IE & EF & EV & EN). rewrite O in E.
  rewrite KD in E. cbn [Z.eqb Pos.eqb] in E.
  change (K_TIMERFD =? K_EVENTFD) with false in E. change (K_TIMERFD =? K_PIPE_R) with false in E.
  change (K_TIMERFD =? K_TIMERFD) with true in E. cbv iota in E.
  destruct (has (k_cond (kern s) (tfd s)) B_IN); inversion E; subst.
  exists (with_timer v 0 false), e. cbn [kern set_kern].
  split; [rewrite k_open_put, Z.eqb_refl; cbn [vclosed with_timer]; apply k_open_get in O; destruct O as [_ C]; rewrite C; reflexivity|].
  split; [exact KD|]. auto.
Qed.

Section Poll.
Variable sc : scenario.
Hypothesis WF : wf_scenario sc.
Hypothesis do_action_ok : forall s a, InvW s -> wf_action a -> okr (StepW s) (do_action s a).
Let Hh := wf_handlers sc WF.

(* iv_fd_epoll_poll: the timer descriptor keeps its entry; it is untouched unless it was read (rt) *)
Lemma epoll_poll_T : forall s abs s', InvW s -> Q3 s -> TfdM s -> is_epoll s = true -> TEnt s ->
  fst (epoll_poll sc s abs) = R s' ->
  InvW s' /\ TEnt s' /\ TM4 s s' /\ (abs = None -> method s = M_ET -> snd (epoll_poll sc s abs) = false -> TFs s s').
Proof.
  intros s abs s' I Q TM IE TE. unfold epoll_poll. cbv zeta.
  destruct (flush_pending_K s I IE) as (s1 & FL & I1 & T1 & NF1 & _). rewrite FL.
  assert (TM1 : TfdM s1) by (unfold TfdM in *; rewrite (tf_tfd _ _ _ T1), (tf_method _ _ _ T1); exact TM).
  set (maxev := if method s =? M_ET then numfds s + 1 else if numfds s =? 0 then 1 else numfds s).
  pose proof (epoll_wait_m_ok sc WF do_action_ok s1 abs maxev I1 TM1) as W.
  pose proof (epoll_wait_m_K sc WF do_action_ok s1 abs maxev I1 TM1) as KW.
  destruct (epoll_wait_m sc s1 abs maxev) as [s2 evs|s2|r]; cbn [WPost PKw fst snd] in *.
  - destruct W as (I2 & _ & _ & _ & EV2 & RD2). destruct KW as [_ T2].
    assert (T02 : TFs s s2) by (eapply TFs_trans; eassumption).
    set (s3 := invalidate_now s2).
    assert (I3 : InvW s3) by (apply InvW_invalidate; exact I2).
    assert (T03 : TFs s s3) by (eapply TFs_trans; [exact T02|apply TFs_plain; reflexivity]).
    destruct (epoll_process_ok evs s3 false false I3 EV2) as (I4 & _ & TMR).
    pose proof (epoll_process_KF (tfd s3) evs s3 false false) as K4.
    destruct (epoll_process s3 evs false false) as [[s4 re] tmr]. cbn [fst snd] in *.
    assert (T04 : TFs s s4) by (eapply TFs_trans; [exact T03|apply KF_TF; exact K4]).
    pose proof (TEnt_TFs _ _ TE T04) as TE4.
    destruct tmr.
    + (* the timer descriptor is read *)
      pose proof (kstable_read (kern s4) (tfd s4) 8) as KS.
      destruct (k_read (kern s4) (tfd s4) 8) as [k1 [x|e]] eqn:RD; cbn [fst] in KS; [|cbn [bind halt]; discriminate].
      cbn [bind]. set (s5 := set_kern s4 k1).
      assert (I5 : InvW s5) by (apply InvW_kstable; assumption).
      assert (TE5 : TEnt s5) by (eapply TEnt_read; eassumption).
      assert (M5 : TM4 s s5) by (apply (TM4_trans _ s4); [apply TFs_TM4; exact T04|constructor; reflexivity]).
      destruct re.
      * pose proof (run_pending_events_K sc WF do_action_ok s5 I5) as P.
        destruct (run_pending_events sc s5) as [s6|s6]; unfold PK in P; cbn [ARes] in P; [|discriminate].
        intros E. inversion E; subst. destruct P as [I6 T6].
        split; [exact I6|]. split; [eapply TEnt_TFs; eassumption|]. split; [eapply TM4_trans; [exact M5|apply TFs_TM4; exact T6]|].
        intros A ME. rewrite ME. cbn [Z.eqb]. rewrite A. cbn. discriminate.
      * intros E. inversion E; subst. split; [exact I5|]. split; [exact TE5|]. split; [exact M5|].
        intros A ME. rewrite ME. cbn [Z.eqb]. rewrite A. cbn. discriminate.
    + cbn [bind].
      destruct re.
      * pose proof (run_pending_events_K sc WF do_action_ok s4 I4) as P.
        destruct (run_pending_events sc s4) as [s6|s6]; unfold PK in P; cbn [ARes] in P; [|discriminate].
        intros E. inversion E; subst. destruct P as [I6 T6].
        assert (T06 : TFs s s') by (eapply TFs_trans; eassumption).
        split; [exact I6|]. split; [eapply TEnt_TFs; eassumption|]. split; [apply TFs_TM4; exact T06|]. intros _ _ _. exact T06.
      * intros E. inversion E; subst. split; [exact I4|]. split; [exact TE4|]. split; [apply TFs_TM4; exact T04|]. intros _ _ _. exact T04.
  - destruct W as (I2 & _). destruct KW as [_ T2]. intros E. inversion E; subst.
    assert (T03 : TFs s (invalidate_now s2)).
    { eapply TFs_trans; [exact T1|]. eapply TFs_trans; [exact T2|apply TFs_plain; reflexivity]. }
    split; [apply InvW_invalidate; exact I2|]. split; [eapply TEnt_TFs; eassumption|]. split; [apply TFs_TM4; exact T03|].
    intros _ _ _. exact T03.
  - destruct r; [destruct W|discriminate].
Qed.

End Poll.
