(* CorePhase2Acct.v -- accounting / termination / progress clauses of the core-loop
   monitor: exported statements (last file of the family CorePhase2Acct*.v).
   Build order: CorePhase2AcctTr, CorePhase2AcctTr2, CorePhase2AcctMon, CorePhase2AcctMon2,
   CorePhase2AcctFd, CorePhase2AcctAct, CorePhase2AcctLoop, CorePhase2AcctTear,
   CorePhase2AcctEnd, CorePhase2AcctEv, CorePhase2AcctEvLoop, CorePhase2AcctWait,
   [the family CorePhase2K1Base, K1Fd, K1Act, K1Inv, K1Loop, K1Wait, K1Poll, CorePhase2K1],
   CorePhase2AcctK, CorePhase2AcctCrash, CorePhase2AcctOwn, CorePhase2AcctOwnAct, CorePhase2AcctOwnLoop,
   CorePhase2AcctOwnWait, CorePhase2AcctOwnTop, [CorePhase2Fd family of p2-fd], CorePhase2AcctNc, CorePhase2AcctNcLoop,
   CorePhase2AcctNcWait, CorePhase2AcctNcTop, CorePhase2AcctIdle, CorePhase2AcctIdleLoop, CorePhase2AcctIdleWait,
   CorePhase2AcctIdleTv, CorePhase2AcctIdleTop, CorePhase2AcctSpin, CorePhase2AcctSpinLoop, CorePhase2AcctQuiet,
   CorePhase2AcctCq, CorePhase2AcctCqAct, CorePhase2AcctCqLoop, CorePhase2AcctCqWait, CorePhase2AcctK0,
   CorePhase2AcctSpinEnt, CorePhase2AcctSpinWait, CorePhase2AcctSpinPoll, CorePhase2AcctSpinTop, CorePhase2AcctC07,
   CorePhase2Acct. *)
From Coq Require Import List ZArith Bool Lia.
From Ivv Require Import Core.Kernel Core.CoreTypes Core.CoreFd Core.CoreModel Core.Monitors Core.GuardMon Core.CoreSpec
  Core.CoreRel.
From Ivv Require Export Core.CorePhase2AcctTr Core.CorePhase2AcctTr2 Core.CorePhase2AcctMon Core.CorePhase2AcctMon2
  Core.CorePhase2AcctFd Core.CorePhase2AcctAct Core.CorePhase2AcctLoop Core.CorePhase2AcctTear Core.CorePhase2AcctEnd
  Core.CorePhase2AcctEv Core.CorePhase2AcctEvLoop Core.CorePhase2AcctWait Core.CorePhase2AcctK Core.CorePhase2AcctCrash Core.CorePhase2AcctOwnTop Core.CorePhase2AcctNcTop Core.CorePhase2AcctIdleTop Core.CorePhase2AcctSpinTop
  Core.CorePhase2AcctC07.
Import ListNotations.
Local Open Scope Z_scope.

(* ---------- C18: 1801, 1802, 1804 and 706 ---------- *)
Lemma ev_codes_18 : forall e c, In c (ev_codes e) -> in_range 1800 1900 c = true -> c = 1801 \/ c = 1802 \/ c = 1804.
Proof.
  intros e c H R. destruct e; try (destruct n); cbn [ev_codes In] in H;
    repeat (destruct H as [<-|H]; [try (vm_compute in R; discriminate R); tauto|]); contradiction.
Qed.

Theorem core_mon_C18 : forall sc, wf_scenario sc ->
  mon_C18 (run_scenario sc) = true /\ (forall c, In c (mon_fails (run_scenario sc)) -> ~ In c [706]).
Proof.
  intros sc WF. split.
  - unfold mon_C18, none_in. apply negb_true_iff.
    destruct (existsb (in_range 1800 1900) (mon_fails (run_scenario sc))) eqn:E; [|reflexivity].
    apply existsb_exists in E. destruct E as (c & H & R). exfalso.
    destruct (fails_origin _ c H) as (e & _ & C).
    destruct (ev_codes_18 e c C R) as [ -> | [ -> | -> ] ];
      [exact (core_code_1801 sc WF H)|exact (core_code_1802 sc WF H)|exact (core_code_1804 sc WF H)].
  - intros c H [<-|[]]. exact (core_code_706 sc WF H).
Qed.

(* codes proved so far, one lemma per code *)
Check core_code_701.  Check core_code_702.  Check core_code_706.   (* CorePhase2AcctEnd.v *)
Check core_code_705.  Check core_code_708.  Check core_code_710.   (* CorePhase2AcctK.v *)
Check core_code_1801. Check core_code_1804.                        (* CorePhase2AcctCrash.v *)
Check core_code_1802.                                              (* CorePhase2AcctOwnTop.v *)
Check core_code_707.                                               (* CorePhase2AcctNcTop.v *)
Check core_gmon_1103.                                              (* CorePhase2AcctIdleTop.v *)
Check core_code_711.                                               (* CorePhase2AcctSpinTop.v *)
Check core_mon_C07.                                                (* CorePhase2AcctC07.v *)
Check core_mon_C18.
Print Assumptions core_code_701.
Print Assumptions core_code_702.
Print Assumptions core_code_706.
Print Assumptions core_code_705.
Print Assumptions core_code_708.
Print Assumptions core_code_710.
Print Assumptions core_code_1801.
Print Assumptions core_code_1804.
Print Assumptions core_code_1802.
Print Assumptions core_code_707.
Print Assumptions core_gmon_1103.
Print Assumptions core_code_711.
Print Assumptions core_mon_C07.
Print Assumptions core_mon_C18.
