(* CorePhase2Acct.v -- accounting / termination / progress clauses of the core-loop
   monitor: exported statements (last file of the family CorePhase2Acct*.v).
   Build order: CorePhase2AcctTr, CorePhase2AcctTr2, CorePhase2AcctMon, CorePhase2AcctMon2,
   CorePhase2AcctFd, CorePhase2AcctAct, CorePhase2AcctLoop, CorePhase2AcctTear,
   CorePhase2AcctEnd, CorePhase2AcctEv, CorePhase2AcctEvLoop, CorePhase2AcctWait,
   [the family CorePhase2K1Base, K1Fd, K1Act, K1Inv, K1Loop, K1Wait, K1Poll, CorePhase2K1],
   CorePhase2AcctK, CorePhase2AcctCrash, CorePhase2Acct. *)
From Coq Require Import List ZArith Bool Lia.
From Ivv Require Import Core.Kernel Core.CoreTypes Core.CoreFd Core.CoreModel Core.Monitors Core.GuardMon Core.CoreSpec
  Core.CoreRel.
From Ivv Require Export Core.CorePhase2AcctTr Core.CorePhase2AcctTr2 Core.CorePhase2AcctMon Core.CorePhase2AcctMon2
  Core.CorePhase2AcctFd Core.CorePhase2AcctAct Core.CorePhase2AcctLoop Core.CorePhase2AcctTear Core.CorePhase2AcctEnd
  Core.CorePhase2AcctEv Core.CorePhase2AcctEvLoop Core.CorePhase2AcctWait Core.CorePhase2AcctK Core.CorePhase2AcctCrash.
Import ListNotations.
Local Open Scope Z_scope.

(* codes proved so far, one lemma per code *)
Check core_code_701.  Check core_code_702.  Check core_code_706.   (* CorePhase2AcctEnd.v *)
Check core_code_705.  Check core_code_708.  Check core_code_710.   (* CorePhase2AcctK.v *)
Check core_code_1801. Check core_code_1804.                        (* CorePhase2AcctCrash.v *)
Print Assumptions core_code_701.
Print Assumptions core_code_702.
Print Assumptions core_code_706.
Print Assumptions core_code_705.
Print Assumptions core_code_708.
Print Assumptions core_code_710.
Print Assumptions core_code_1801.
Print Assumptions core_code_1804.
