(* CorePhase2AcctEv.v -- a second tracker/model invariant XI on top of CoreRel's J:
   the converse of ag_evp (a posted, undelivered event is on the model's lists), "a
   pending self-post keeps the internal events_local task registered", and the lower
   bounds 1 <= clock, 1 <= time; preserved by every action. *)
From Coq Require Import List ZArith Bool Lia.
From Ivv Require Import Core.Kernel Core.CoreTypes Core.CoreFd Core.CoreModel Core.Monitors Core.CoreSpec
  Core.CoreRel Core.CorePhase2AcctTr Core.CorePhase2AcctMon Core.CorePhase2AcctFd Core.CorePhase2AcctAct.
From Ivv Require Timer.HeapModel.
Import ListNotations.
Local Open Scope Z_scope.

Record XI (s : core) : Prop := {
  xi_conv : forall j, inr16 j -> a_evp (mst s) j = true -> ev_on_list s j = true;
  xi_task : ev_pending s <> [] -> task_registered s LOCAL_TASK = true;
  xi_clock : 1 <= clock (kern s);
  xi_time : time_valid s = true -> 1 <= time s }.

Definition Eb (s s' : core) : Prop := ev_batch s = [] -> ev_batch s' = [].
Lemma Eb_refl : forall s, Eb s s. Proof. intros s H. exact H. Qed.
Lemma Eb_trans : forall a b c, Eb a b -> Eb b c -> Eb a c. Proof. unfold Eb. auto. Qed.
Lemma Eb_same : forall s s', ev_batch s' = ev_batch s -> Eb s s'. Proof. intros s s' E H. rewrite E. exact H. Qed.

(* a step that leaves the event machinery and the tracker's posted flags alone *)
Record XF (s s' : core) : Prop := {
  xf_evp : ev_pending s' = ev_pending s;
  xf_evb : ev_batch s' = ev_batch s;
  xf_t16 : task_registered s LOCAL_TASK = true -> task_registered s' LOCAL_TASK = true;
  xf_clock : clock (kern s) <= clock (kern s');
  xf_time : time_valid s' = true -> (time_valid s = true /\ time s' = time s) \/ clock (kern s) <= time s';
  xf_mevp : a_evp (mst s') = a_evp (mst s) }.

Lemma XF_refl : forall s, XF s s.
Proof. intros. constructor; auto; try reflexivity; try lia. Qed.

Lemma XI_XF : forall s s', XI s -> XF s s' -> XI s'.
Proof.
  intros s s' [X1 X2 X3 X4] [F1 F2 F3 F4 F5 F6]. constructor.
  - intros j I H. rewrite F6 in H. unfold ev_on_list. rewrite F1, F2. apply X1; assumption.
  - rewrite F1. auto.
  - lia.
  - intros H. destruct (F5 H) as [[H1 H2]|H2]; [rewrite H2; auto|lia].
Qed.

Lemma XF_Same : forall s s', Same s s' -> XF s s'.
Proof.
  intros s s' []. constructor; try assumption.
  - unfold task_registered. rewrite sm_tasks, sm_cur. auto.
  - lia.
  - intros H. left. split; congruence.
  - rewrite sm_mst. reflexivity.
Qed.

Lemma XF_Raw : forall s s', RawStep s s' -> ev_pending s' = ev_pending s -> ev_batch s' = ev_batch s -> XF s s'.
Proof.
  intros s s' [] E1 E2. constructor; try assumption.
  - unfold task_registered. rewrite rs_tasks, rs_cur. auto.
  - lia.
  - intros H. left. split; congruence.
  - rewrite rs_mst. reflexivity.
Qed.

Lemma XF_trans : forall a b c, XF a b -> XF b c -> XF a c.
Proof.
  intros a b c [A1 A2 A3 A4 A5 A6] [B1 B2 B3 B4 B5 B6]. constructor; try congruence; auto; try lia.
  intros H. destruct (B5 H) as [[H1 H2]|H2].
  - destruct (A5 H1) as [[H3 H4]|H4]; [left; split; congruence|right; lia].
  - right. lia.
Qed.

(* fields the invariant reads are untouched *)
Lemma XI_plain : forall s s', XI s -> ev_pending s' = ev_pending s -> ev_batch s' = ev_batch s -> tasks s' = tasks s ->
  cur s' = cur s -> clock (kern s') = clock (kern s) -> time s' = time s -> time_valid s' = time_valid s ->
  a_evp (mst s') = a_evp (mst s) -> XI s'.
Proof.
  intros s s' X E1 E2 E3 E4 E5 E6 E7 E8. apply (XI_XF s s' X). constructor; try assumption.
  - unfold task_registered. rewrite E3, E4. auto.
  - lia.
  - intros H. left. split; congruence.
Qed.

(* events that leave a_evp alone *)
Definition evq (e : tev) : Prop :=
  match e with
  | TAct (AEvPost _) | TAct (AEvUnreg _) | TCallEvent _ => False
  | _ => True
  end.

Lemma a_evp_action : forall m a, (forall j, a <> AEvPost j) -> (forall j, a <> AEvUnreg j) -> a_evp (mon_action m a) = a_evp m.
Proof. intros m a N1 N2. destruct a; try reflexivity; [exfalso; eapply N2; reflexivity|exfalso; eapply N1; reflexivity]. Qed.

Lemma a_evp_step : forall m e, evq e -> a_evp (mon_step m e) = a_evp m.
Proof.
  intros m e Q. destruct e; try reflexivity; cbn [evq] in Q.
  - unfold mon_step. cbv zeta. cbn [a_evp m_iter]. autorewrite with monp. reflexivity.
  - unfold mon_step. cbv zeta. cbn [a_evp m_tms]. autorewrite with monp. reflexivity.
  - unfold mon_step. cbv zeta. cbn [a_evp m_tks]. autorewrite with monp. reflexivity.
  - contradiction.
  - unfold mon_step. cbv zeta. cbn [a_evp m_rws]. autorewrite with monp. reflexivity.
  - destruct (mview_fields _ _ (mview_TWait m n call maxev timeout interest gnd)) as (_ & _ & _ & _ & _ & _ & _ & Q8 & _). exact Q8.
  - destruct n as [n|].
    + destruct (mview_fields _ _ (mview_TRet_some m n fds clk)) as (_ & _ & _ & _ & _ & _ & _ & Q8 & _). exact Q8.
    + destruct (mview_fields _ _ (mview_TRet_none m fds clk)) as (_ & _ & _ & _ & _ & _ & _ & Q8 & _). exact Q8.
  - cbn [mon_step]. destruct a; try reflexivity; contradiction.
  - unfold mon_step. repeat dm; reflexivity.
  - destruct (mview_fields _ _ (mview_TEnd m quit numobjs)) as (_ & _ & _ & _ & _ & _ & _ & Q8 & _). exact Q8.
  - unfold mon_step. autorewrite with monp. reflexivity.
  - unfold mon_step. autorewrite with monp. reflexivity.
  - unfold mon_step. cbv zeta. autorewrite with monp. reflexivity.
Qed.

Lemma XI_emit : forall s e, XI s -> evq e -> XI (emit s e).
Proof.
  intros s e X Q. apply (XI_plain s _ X); try reflexivity. rewrite mst_emit. apply a_evp_step. exact Q.
Qed.

Lemma XF_emit : forall s e, evq e -> XF s (emit s e).
Proof.
  intros s e Q. constructor.
  - reflexivity.
  - reflexivity.
  - auto.
  - cbn [kern emit set_trace]. lia.
  - intros H. left. split; [exact H|reflexivity].
  - rewrite mst_emit. apply a_evp_step. exact Q.
Qed.

(* ---------- every action ---------- *)
Definition PXI (s : core) (r : res) : Prop := ARes (fun s' => XI s' /\ Eb s s') r.

Lemma PXI_same : forall s, XI s -> PXI s (R s).
Proof. intros s X. split; [exact X|apply Eb_refl]. Qed.

Lemma XIF : forall s s', XI s -> XF s s' -> XI s' /\ Eb s s'.
Proof. intros s s' X F. split; [eapply XI_XF; eassumption|apply Eb_same; apply (xf_evb _ _ F)]. Qed.

Lemma XF_comp : forall a b c, XF a b -> XF b c -> XI a -> XI c /\ Eb a c.
Proof.
  intros a b c F1 F2 X. pose proof (XI_XF _ _ X F1) as Xb. split; [eapply XI_XF; eassumption|].
  apply Eb_same. rewrite (xf_evb _ _ F2). apply (xf_evb _ _ F1).
Qed.

Ltac evq_act := cbn [evq]; exact Logic.I.

(* an action that logs itself and then runs a descriptor-layer function (results with Same) *)
Lemma act_same : forall s a r, XI s -> evq (TAct a) -> FdRes (emit s (TAct a)) r (fun s' => Same (emit s (TAct a)) s') -> PXI s r.
Proof.
  intros s a r X Q H. destruct r as [s'|s']; unfold PXI; cbn [ARes FdRes] in *; [|exact Logic.I].
  apply (XF_comp s (emit s (TAct a)) s'); [apply XF_emit; exact Q|apply XF_Same; exact H|exact X].
Qed.

Lemma xi_AFdReg : forall b s i, J b s -> XI s -> inr16 i -> PXI s (do_action s (AFdReg i)).
Proof.
  intros b s i Jh X I. cbn [do_action]. destruct (registered (getfd s i)) eqn:RG; [apply PXI_same; exact X|].
  destruct (k_open _ _); [|apply PXI_same; exact X].
  apply (act_same s (AFdReg i)); [exact X|evq_act|].
  eapply FdRes_imp; [apply fd_register_res; [apply FdI_emit; apply (j_fd _ _ Jh)|unfold inr16 in I; lia|exact RG]|].
  cbn beta. intros s1 (T & _). apply (ft_same _ _ _ T).
Qed.

Lemma xi_AFdUnreg : forall b s i, J b s -> XI s -> inr16 i -> PXI s (do_action s (AFdUnreg i)).
Proof.
  intros b s i Jh X I. cbn [do_action]. destruct (registered (getfd s i)) eqn:RG; [|apply PXI_same; exact X].
  apply (act_same s (AFdUnreg i)); [exact X|evq_act|].
  eapply FdRes_imp; [apply fd_unregister_res; [apply FdI_emit; apply (j_fd _ _ Jh)|unfold inr16 in I; lia]|].
  cbn beta. intros s1 (T & _). apply (ft_same _ _ _ T).
Qed.

Lemma xi_AFdTry : forall b s i, J b s -> XI s -> inr16 i -> PXI s (do_action s (AFdTry i)).
Proof.
  intros b s i Jh X I. cbn [do_action]. destruct (registered (getfd s i)) eqn:RG; [apply PXI_same; exact X|].
  set (ex := emit s (TAct (AFdTry i))).
  pose proof (fd_register_try_res ex i (FdI_emit _ _ _ (j_fd _ _ Jh)) ltac:(unfold inr16 in I; lia) RG) as Q.
  destruct (fd_register_try ex i) as [r failed]. cbn [fst snd] in Q.
  destruct r as [s1|s1]; unfold PXI; cbn [bind ARes FdRes] in *; [|exact Logic.I].
  destruct Q as (T & _).
  assert (X1 : XI s1 /\ Eb s s1).
  { apply (XF_comp s ex s1); [apply XF_emit; evq_act|apply XF_Same; apply (ft_same _ _ _ T)|exact X]. }
  destruct X1 as [X1 E1]. split; [apply XI_emit; [exact X1|evq_act]|exact E1].
Qed.

Lemma xi_AFdSetH : forall b s i band h, J b s -> XI s -> inr16 i -> PXI s (do_action s (AFdSetH i band h)).
Proof.
  intros b s i band h Jh X I. cbn [do_action].
  set (ex := emit s (TAct (AFdSetH i band h))).
  pose proof (fd_set_handler_res ex i band h (FdI_emit _ _ _ (j_fd _ _ Jh)) ltac:(unfold inr16 in I; lia)) as Q.
  cbv zeta in Q.
  destruct (fd_set_handler ex i band h) as [s1|s1]; unfold PXI; cbn [ARes FdRes] in *; [|exact Logic.I].
  destruct Q as (W & _).
  match type of W with InnerW ?S0 _ => set (s0 := S0) in * end.
  assert (X0 : XI s0).
  { apply (XI_plain ex s0); try reflexivity. apply XI_emit; [exact X|evq_act]. }
  destruct (XIF s0 s1 X0 (XF_Same _ _ (iw_same _ _ W))) as [X1 E1]. split; [exact X1|exact E1].
Qed.

Lemma xi_plain_act : forall s a s', XI s -> evq (TAct a) ->
  ev_pending s' = ev_pending s -> ev_batch s' = ev_batch s -> tasks s' = tasks s -> cur s' = cur s ->
  clock (kern s') = clock (kern s) -> time s' = time s -> time_valid s' = time_valid s ->
  trace s' = TAct a :: trace s -> XI s' /\ Eb s s'.
Proof.
  intros s a s' X Q E1 E2 E3 E4 E5 E6 E7 T. split; [|apply Eb_same; exact E2].
  apply (XI_plain (emit s (TAct a)) s'); try assumption.
  - apply XI_emit; assumption.
  - apply f_equal. apply mst_trace. exact T.
Qed.

Ltac plain_act X a := apply (xi_plain_act _ a _ X); first [evq_act|reflexivity].

Lemma xi_AFdCookie : forall s i c, XI s -> PXI s (do_action s (AFdCookie i c)).
Proof. intros s i c X. cbn [do_action]. unfold PXI. cbn [ARes]. plain_act X (AFdCookie i c). Qed.
Lemma xi_AFdFresh : forall s i, XI s -> PXI s (do_action s (AFdFresh i)).
Proof. intros s i X. cbn [do_action]. dm; [apply PXI_same; exact X|]. unfold PXI. cbn [ARes]. plain_act X (AFdFresh i). Qed.
Lemma xi_AKSet : forall s i c, XI s -> PXI s (do_action s (AKSet i c)).
Proof.
  intros s i c X. cbn [do_action]. unfold PXI. cbn [ARes]. apply (xi_plain_act _ (AKSet i c) _ X); try reflexivity.
  apply (ksame_set_cond (kern s) i c).
Qed.
Lemma xi_AKOpen : forall s i, XI s -> PXI s (do_action s (AKOpen i)).
Proof. intros s i X. cbn [do_action]. unfold PXI. cbn [ARes]. plain_act X (AKOpen i). Qed.
Lemma xi_AKClose : forall s i, XI s -> PXI s (do_action s (AKClose i)).
Proof.
  intros s i X. cbn [do_action]. dm; [apply PXI_same; exact X|]. unfold PXI. cbn [ARes].
  apply (xi_plain_act _ (AKClose i) _ X); try reflexivity. apply (ksame_user_close (kern s) i).
Qed.
Lemma xi_ARwPost : forall s j, XI s -> PXI s (do_action s (ARwPost j)).
Proof.
  intros s j X. cbn [do_action]. dm; [|apply PXI_same; exact X]. unfold PXI. cbn [ARes]. unfold raw_post.
  match goal with |- context [let '(k1, _) := ?W in _] => assert (KS : clock (fst W) = clock (kern s)); [|destruct W as [k1 x]] end.
  { destruct (raw_is_pipe _ _); apply ksame_write. }
  cbn [fst] in KS. apply (xi_plain_act _ (ARwPost j) _ X); try reflexivity. exact KS.
Qed.
Lemma xi_log : forall s a, XI s -> evq (TAct a) -> PXI s (R (emit s (TAct a))).
Proof. intros s a X Q. unfold PXI. cbn [ARes]. split; [apply XI_emit; assumption|apply Eb_same; reflexivity]. Qed.
Lemma xi_ATmFresh : forall s j, XI s -> PXI s (do_action s (ATmFresh j)).
Proof. intros s j X. cbn [do_action]. dm; [apply PXI_same; exact X|apply xi_log; [exact X|evq_act]]. Qed.
Lemma xi_AEvFresh : forall s j, XI s -> PXI s (do_action s (AEvFresh j)).
Proof. intros s j X. cbn [do_action]. dm; [apply PXI_same; exact X|apply xi_log; [exact X|evq_act]]. Qed.
Lemma xi_ARwFresh : forall s j, XI s -> PXI s (do_action s (ARwFresh j)).
Proof. intros s j X. cbn [do_action]. dm; [apply PXI_same; exact X|apply xi_log; [exact X|evq_act]]. Qed.
Lemma xi_AQuit : forall s, XI s -> PXI s (do_action s AQuit).
Proof. intros s X. cbn [do_action]. unfold PXI. cbn [ARes]. plain_act X AQuit. Qed.
Lemma xi_ATkFresh : forall s j, XI s -> PXI s (do_action s (ATkFresh j)).
Proof. intros s j X. cbn [do_action]. dm; [apply PXI_same; exact X|]. unfold PXI. cbn [ARes]. plain_act X (ATkFresh j). Qed.

Lemma xi_AClockAdv : forall s d, XI s -> 0 <= d -> PXI s (do_action s (AClockAdv d)).
Proof.
  intros s d X D. cbn [do_action]. unfold PXI. cbn [ARes].
  apply (XF_comp s (emit s (TAct (AClockAdv d)))); [apply XF_emit; evq_act| |exact X].
  constructor; try reflexivity; auto.
  cbn [kern set_kern clock k_set_clock emit set_trace]. lia.
Qed.

Lemma xi_AInvalidate : forall s, XI s -> PXI s (do_action s AInvalidate).
Proof.
  intros s X. cbn [do_action]. unfold PXI. cbn [ARes].
  apply (XF_comp s (emit s (TAct AInvalidate))); [apply XF_emit; evq_act| |exact X].
  constructor; try reflexivity; auto; try lia; try (intros H; discriminate H).
Qed.

Lemma XF_validate : forall s, XF s (validate_now s).
Proof.
  intros s. unfold validate_now. destruct (time_valid s) eqn:TV; [apply XF_refl|].
  constructor; try reflexivity; auto; try lia; try (intros _; right; cbn [time kern set_time]; lia).
Qed.

Lemma xi_AValidate : forall s, XI s -> PXI s (do_action s AValidate).
Proof.
  intros s X. cbn [do_action]. unfold PXI. cbn [ARes].
  apply (XF_comp s (emit s (TAct AValidate))); [apply XF_emit; evq_act|apply XF_validate|exact X].
Qed.

(* timers *)
Lemma xi_lift_heap : forall s0 s o, XI s0 -> XF s0 s -> PXI s0 (lift_heap s o).
Proof.
  intros s0 s o X F. destruct o as [h|h|]; cbn [lift_heap]; unfold PXI; cbn [ARes halt]; try exact Logic.I.
  apply (XF_comp s0 s); [exact F| |exact X].
  constructor; try reflexivity; auto; try lia; try (intros H; left; split; [exact H|reflexivity]).
Qed.

Lemma xi_ATmRegAbs : forall s j e, XI s -> PXI s (do_action s (ATmRegAbs j e)).
Proof.
  intros s j e X. cbn [do_action]. dm; [apply PXI_same; exact X|].
  apply xi_lift_heap; [exact X|apply XF_emit; evq_act].
Qed.

Lemma xi_ATmUnreg : forall s j, XI s -> PXI s (do_action s (ATmUnreg j)).
Proof.
  intros s j X. cbn [do_action]. dm; [|apply PXI_same; exact X].
  apply xi_lift_heap; [exact X|apply XF_emit; evq_act].
Qed.

Lemma xi_ATmRegRel : forall s j d, XI s -> PXI s (do_action s (ATmRegRel j d)).
Proof.
  intros s j d X. cbn [do_action]. dm; [apply PXI_same; exact X|]. cbv zeta.
  set (s1 := validate_now s).
  destruct (XIF s s1 X (XF_validate s)) as [X1 E1].
  pose proof (xi_lift_heap s1 (emit s1 (TAct (ATmRegAbs j (time s1 + d)))) (HeapModel.register (HeapModel.set_exp (heap s1) (tmid j) (time s1 + d)) (tmid j)) X1 (XF_emit s1 (TAct (ATmRegAbs j (time s1 + d))) Logic.I)) as Q.
  destruct (lift_heap _ _) as [s2|s2]; unfold PXI in *; cbn [ARes] in *; [|exact Logic.I].
  destruct Q as [Q1 Q2]. split; [exact Q1|eapply Eb_trans; eassumption].
Qed.

(* tasks *)
Lemma xi_ATkReg : forall s j, XI s -> inr16 j -> PXI s (do_action s (ATkReg j)).
Proof.
  intros s j X I. cbn [do_action]. dm; [apply PXI_same; exact X|]. unfold PXI. cbn [ARes].
  set (ex := emit s (TAct (ATkReg j))).
  destruct (task_register_acc ex j) as (_ & _ & _ & _ & _ & _ & _ & _ & TR).
  apply (XF_comp s ex); [apply XF_emit; evq_act| |exact X].
  assert (TS : trace (task_register ex j) = trace ex) by apply task_register_trace.
  constructor.
  - unfold task_register. cbv zeta. repeat dm; reflexivity.
  - unfold task_register. cbv zeta. repeat dm; reflexivity.
  - intros H. rewrite TR, H. reflexivity.
  - unfold task_register. cbv zeta. repeat dm; cbn [kern set_tasks set_numobjs]; lia.
  - intros H. left. unfold task_register in *. cbv zeta in *. revert H. repeat dm; cbn [time_valid time set_tasks set_numobjs]; auto.
  - rewrite (mst_trace ex _ TS). reflexivity.
Qed.

Lemma xi_ATkUnreg : forall s j, XI s -> inr16 j -> PXI s (do_action s (ATkUnreg j)).
Proof.
  intros s j X I. cbn [do_action]. dm; [|apply PXI_same; exact X]. unfold PXI. cbn [ARes].
  set (ex := emit s (TAct (ATkUnreg j))).
  apply (XF_comp s ex); [apply XF_emit; evq_act| |exact X].
  constructor; try reflexivity; auto; try lia.
  - intros H. apply task_registered_In in H. apply task_registered_In.
    assert (TL : tasks (task_unregister ex j) ++ curl (task_unregister ex j) = remove_z j (tasks ex ++ curl ex)).
    { unfold task_unregister, curl. cbn [tasks cur set_tasks set_numobjs]. rewrite remove_z_app. destruct (cur ex); reflexivity. }
    rewrite TL. apply In_remove_z. split; [exact H|]. unfold inr16, LOCAL_TASK in *. lia.
Qed.

(* raw events *)
Lemma xi_ARwReg : forall b s j, J b s -> XI s -> inr16 j -> PXI s (do_action s (ARwReg j)).
Proof.
  intros b s j Jh X I. cbn [do_action]. destruct (rw_reg s j) eqn:RG; [apply PXI_same; exact X|].
  set (ex := emit s (TAct (ARwReg j))).
  pose proof (j_fx _ _ Jh) as FX. apply (FdX_emit s (TAct (ARwReg j))) in FX.
  destruct (proj1 (FdX_split _) FX) as (XA & _ & _).
  pose proof (raw_register_spec ex j (FdI_emit _ _ _ (j_fd _ _ Jh)) XA ltac:(unfold inr16 in I; lia) RG) as Q.
  unfold RawRegPost in Q. destruct (raw_register ex j) as [r failed]. cbn [fst snd] in Q.
  destruct r as [s1|s1]; unfold PXI; cbn [bind ARes FdRes] in *; [|exact Logic.I].
  destruct Q as (RS & ES & _).
  assert (X1 : XI s1 /\ Eb s s1).
  { apply (XF_comp s ex s1); [apply XF_emit; evq_act|apply XF_Raw; [exact RS|apply (es_evp _ _ ES)|apply (es_evb _ _ ES)]|exact X]. }
  destruct X1 as [X1 E1]. split; [apply XI_emit; [exact X1|evq_act]|exact E1].
Qed.

Lemma xi_ARwUnreg : forall b s j, J b s -> XI s -> inr16 j -> PXI s (do_action s (ARwUnreg j)).
Proof.
  intros b s j Jh X I. cbn [do_action]. destruct (rw_reg s j) eqn:RG; [|apply PXI_same; exact X].
  set (ex := emit s (TAct (ARwUnreg j))).
  pose proof (j_fx _ _ Jh) as FX. apply (FdX_emit s (TAct (ARwUnreg j))) in FX.
  destruct (proj1 (FdX_split _) FX) as (XA & _ & _).
  pose proof (raw_unregister_spec ex j (FdI_emit _ _ _ (j_fd _ _ Jh)) XA ltac:(unfold inr16 in I; lia)) as Q.
  destruct (raw_unregister ex j) as [s1|s1]; unfold PXI; cbn [ARes FdRes] in *; [|exact Logic.I].
  destruct Q as (RS & ES & _).
  apply (XF_comp s ex s1); [apply XF_emit; evq_act|apply XF_Raw; [exact RS|apply (es_evp _ _ ES)|apply (es_evb _ _ ES)]|exact X].
Qed.

(* events *)
Lemma xi_AEvReg : forall b s j, J b s -> XI s -> inr16 j -> PXI s (do_action s (AEvReg j)).
Proof.
  intros b s j Jh X I. cbn [do_action]. destruct (ev_reg s j) eqn:RG; [apply PXI_same; exact X|].
  set (ex := emit s (TAct (AEvReg j))).
  pose proof (event_register_spec ex j (FdI_emit _ _ _ (j_fd _ _ Jh)) (FdX_emit _ _ (j_fx _ _ Jh)) I RG) as Q.
  destruct (event_register ex j) as [r failed]. cbn [fst snd] in Q.
  destruct r as [s1|s1]; unfold PXI; cbn [bind ARes FdRes] in *; [|exact Logic.I].
  destruct Q as (RS & _ & _ & EP & EB & _).
  assert (X1 : XI s1 /\ Eb s s1).
  { apply (XF_comp s ex s1); [apply XF_emit; evq_act|apply XF_Raw; assumption|exact X]. }
  destruct X1 as [X1 E1]. split; [apply XI_emit; [exact X1|evq_act]|exact E1].
Qed.

Lemma ev_on_list_remove : forall s s' j y, ev_pending s' = remove_z j (ev_pending s) -> ev_batch s' = remove_z j (ev_batch s) ->
  y <> j -> ev_on_list s y = true -> ev_on_list s' y = true.
Proof.
  intros s s' j y E1 E2 N H. apply ev_on_list_In in H. apply ev_on_list_In. rewrite E1, E2, <- remove_z_app.
  apply In_remove_z. split; assumption.
Qed.

Lemma xi_AEvUnreg : forall b s j, J b s -> XI s -> inr16 j -> PXI s (do_action s (AEvUnreg j)).
Proof.
  intros b s j Jh X I. cbn [do_action]. destruct (ev_reg s j) eqn:RG; [|apply PXI_same; exact X].
  set (ex := emit s (TAct (AEvUnreg j))).
  pose proof (event_unregister_spec ex j (FdI_emit _ _ _ (j_fd _ _ Jh)) (FdX_emit _ _ (j_fx _ _ Jh)) I RG) as Q.
  destruct (event_unregister ex j) as [s1|s1]; unfold PXI; cbn [ARes FdRes] in *; [|exact Logic.I].
  destruct Q as (RS & _ & _ & EP & EB & _). destruct RS. destruct X as [X1 X2 X3 X4].
  assert (M1 : mst s1 = mon_action (mst s) (AEvUnreg j)) by (rewrite rs_mst; apply mst_act).
  split.
  - constructor.
    + intros y Y H. rewrite M1 in H. cbn [mon_action a_evp m_evs] in H. unfold upd in H.
      destruct (Z.eqb_spec y j) as [->|N]; [discriminate H|].
      apply (ev_on_list_remove ex s1 j y EP EB N). apply X1; assumption.
    + rewrite EP. intros H. unfold task_registered. rewrite rs_tasks, rs_cur. apply X2.
      intros E. apply H. change (ev_pending ex) with (ev_pending s). rewrite E. reflexivity.
    + rewrite rs_clock. exact X3.
    + rewrite rs_tv, rs_time. exact X4.
  - intros H. rewrite EB. change (ev_batch ex) with (ev_batch s). rewrite H. reflexivity.
Qed.

Lemma xi_AEvPost : forall s j, XI s -> inr16 j -> PXI s (do_action s (AEvPost j)).
Proof.
  intros s j X I. cbn [do_action]. destruct (ev_reg s j) eqn:RG; [|apply PXI_same; exact X].
  set (ex := emit s (TAct (AEvPost j))). destruct X as [X1 X2 X3 X4].
  assert (MX : mst ex = mon_action (mst s) (AEvPost j)) by apply mst_act.
  assert (CV : forall s', mst s' = mst ex ->
            (forall y, ev_on_list s y = true -> ev_on_list s' y = true) -> ev_on_list s' j = true ->
            forall y, inr16 y -> a_evp (mst s') y = true -> ev_on_list s' y = true).
  { intros s' M MONO OJ y Y H. rewrite M, MX in H. cbn [mon_action a_evp m_evs m_spin] in H. unfold upd in H.
    destruct (Z.eqb_spec y j) as [->|N]; [exact OJ|]. apply MONO. apply X1; assumption. }
  unfold event_post. destruct (ev_on_list ex j) eqn:OL.
  - unfold PXI. cbn [ARes]. split; [|apply Eb_same; reflexivity]. constructor; try assumption.
    apply (CV ex eq_refl); [auto|exact OL].
  - cbv zeta. set (s1 := set_evlists ex (ev_pending ex ++ [j]) (ev_batch ex)).
    assert (MONO1 : forall y, ev_on_list s y = true -> ev_on_list s1 y = true).
    { intros y H. unfold ev_on_list in *. cbn [s1 ev_pending ev_batch set_evlists ex emit set_trace]. rewrite mem_z_app.
      apply orb_true_iff in H. destruct H as [H|H]; rewrite H; [reflexivity|]. apply orb_true_r. }
    assert (OJ1 : ev_on_list s1 j = true).
    { unfold ev_on_list. cbn [s1 ev_pending ev_batch set_evlists]. rewrite mem_z_app. cbn [mem_z existsb]. rewrite Z.eqb_refl.
      cbn. rewrite orb_true_r. reflexivity. }
    destruct (_ && _) eqn:PT.
    + apply andb_true_iff in PT. destruct PT as [_ PT]. apply negb_true_iff in PT.
      destruct (task_register_acc s1 LOCAL_TASK) as (_ & _ & _ & _ & _ & _ & _ & _ & TR).
      assert (TS : trace (task_register s1 LOCAL_TASK) = trace s1) by apply task_register_trace.
      assert (FL : ev_pending (task_register s1 LOCAL_TASK) = ev_pending s1 /\ ev_batch (task_register s1 LOCAL_TASK) = ev_batch s1 /\
                   kern (task_register s1 LOCAL_TASK) = kern s1 /\ time (task_register s1 LOCAL_TASK) = time s1 /\
                   time_valid (task_register s1 LOCAL_TASK) = time_valid s1).
      { unfold task_register. cbv zeta. repeat dm; repeat split. }
      destruct FL as (F1 & F2 & F3 & F4 & F5).
      unfold PXI. cbn [ARes]. split; [|apply Eb_same; rewrite F2; reflexivity]. constructor.
      * apply CV; [apply mst_trace; rewrite TS; reflexivity| |].
        -- intros y H. unfold ev_on_list. rewrite F1, F2. apply MONO1. exact H.
        -- unfold ev_on_list. rewrite F1, F2. exact OJ1.
      * intros _. rewrite TR. rewrite Z.eqb_refl. apply orb_true_r.
      * rewrite F3. exact X3.
      * rewrite F5, F4. exact X4.
    + unfold PXI. cbn [ARes]. split; [|apply Eb_same; reflexivity]. constructor; try assumption.
      * apply (CV s1 eq_refl MONO1 OJ1).
      * intros _. apply andb_false_iff in PT. destruct PT as [PT|PT].
        -- change (task_registered s1 LOCAL_TASK) with (task_registered s LOCAL_TASK). apply X2.
           change (ev_pending ex) with (ev_pending s) in PT. destruct (ev_pending s); [discriminate PT|discriminate].
        -- apply negb_false_iff in PT. exact PT.
Qed.

Theorem do_action_XI : forall b s a, J b s -> XI s -> wf_action a -> PXI s (do_action s a).
Proof.
  intros b s a Jh X W. destruct a; cbn [wf_action] in W.
  - eapply xi_AFdReg; eassumption.
  - eapply xi_AFdTry; eassumption.
  - eapply xi_AFdUnreg; eassumption.
  - eapply xi_AFdSetH; try eassumption. apply W.
  - apply xi_AFdCookie; assumption.
  - apply xi_AFdFresh; assumption.
  - apply xi_AKSet; assumption.
  - apply xi_AKClose; assumption.
  - apply xi_AKOpen; assumption.
  - apply xi_ATmRegAbs; assumption.
  - apply xi_ATmRegRel; assumption.
  - apply xi_ATmUnreg; assumption.
  - apply xi_ATmFresh; assumption.
  - apply xi_ATkReg; assumption.
  - apply xi_ATkUnreg; assumption.
  - apply xi_ATkFresh; assumption.
  - eapply xi_AEvReg; eassumption.
  - eapply xi_AEvUnreg; eassumption.
  - apply xi_AEvPost; assumption.
  - apply xi_AEvFresh; assumption.
  - eapply xi_ARwReg; eassumption.
  - eapply xi_ARwUnreg; eassumption.
  - apply xi_ARwPost; assumption.
  - apply xi_ARwFresh; assumption.
  - apply xi_AQuit; assumption.
  - apply xi_AClockAdv; assumption.
  - apply xi_AInvalidate; assumption.
  - apply xi_AValidate; assumption.
Qed.
