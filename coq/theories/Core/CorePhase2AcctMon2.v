(* CorePhase2AcctMon2.v -- the tracker steps TRet / THang and the codes 705 708 710. *)
From Coq Require Import List ZArith Bool Lia.
From Ivv Require Import Core.Kernel Core.CoreTypes Core.CoreFd Core.CoreModel Core.Monitors Core.CoreSpec
  Core.CoreRelBase Core.CoreRelMon Core.CorePhase2AcctTr Core.CorePhase2AcctMon.
Import ListNotations.
Local Open Scope Z_scope.

Definition S5 : list Z := [705; 708; 710].

Definition posted (m : mon) : bool := any_obj (fun j => a_ev m j && a_evp m j).

Lemma sr_chk : forall m b c, something_registered (chk m b c) = something_registered m.
Proof. intros m b c. destruct b; reflexivity. Qed.
Lemma posted_chk : forall m b c, posted (chk m b c) = posted m.
Proof. intros m b c. destruct b; reflexivity. Qed.
Lemma a_clk_chk' : forall m b c, a_clk (chk m b c) = a_clk m.
Proof. intros m b c. destruct b; reflexivity. Qed.

Lemma chk_true' : forall m b c, b = true -> chk m b c = m.
Proof. intros m b c ->. reflexivity. Qed.

Lemma Clean_Sub : forall S m' m l, Clean S m -> Sub m' m l -> (forall c, In c l -> ~ In c S) -> Clean S m'.
Proof. intros S m' m l C SB Q c H. destruct (SB c H) as [H1|H1]; [apply C; exact H1|apply Q; exact H1]. Qed.

(* a wait that did not sleep, or slept with something registered and nothing posted *)
Lemma clean_TRet_some : forall m n fds clk, Clean S5 m ->
  ((a_clk m <? clk) = true -> something_registered m = true /\ posted m = false) ->
  Clean S5 (mon_step m (TRet (Some n) fds clk)).
Proof.
  intros m n fds clk C H.
  apply (Clean_Sub S5 _ m [202; 203; 602; 902; 403; 404; 407] C);
    [|intros c Hc Hs; cbn [In S5] in *; intuition (subst; discriminate)].
  change (SubL [202; 203; 602; 902; 403; 404; 407] m (mon_step m (TRet (Some n) fds clk))).
  lazy beta iota delta [mon_step]. repeat lift_let. unfold SubL.
  set (l := [202; 203; 602; 902; 403; 404; 407]).
  assert (IL : forall x, In x l -> In x l) by auto.
  (* the two checks hold *)
  assert (SR1 : something_registered m1 = something_registered m) by (unfold m1, m0; rewrite !sr_chk; reflexivity).
  assert (E2 : m2 = m1).
  { unfold m2. apply chk_true'. rewrite SR1. destruct slept eqn:SL; [|reflexivity]. destruct (H SL) as [H1 _]. rewrite H1. reflexivity. }
  assert (PO3 : posted m3 = posted m) by (unfold m3; rewrite E2; unfold m1, m0; rewrite !posted_chk; reflexivity).
  assert (E4 : m4 = m3).
  { unfold m4. apply chk_true'. change (any_obj (fun j => a_ev m3 j && a_evp m3 j)) with (posted m3). rewrite PO3.
    destruct slept eqn:SL; [|reflexivity]. destruct (H SL) as [_ H2]. rewrite H2. reflexivity. }
  assert (S00 : Sub m m l) by apply Sub_refl.
  assert (S0 : Sub m0 m l) by (unfold m0; apply Sub_chk_t; [unfold l; cbn; tauto|exact S00]).
  assert (S1 : Sub m1 m l) by (unfold m1; apply Sub_chk_t; [unfold l; cbn; tauto|exact S0]).
  assert (S3 : Sub m3 m l) by (unfold m3; rewrite E2; apply Sub_chk_t; [unfold l; cbn; tauto|exact S1]).
  assert (S5' : Sub m5 m l) by (unfold m5; rewrite E4; apply Sub_chk_t; [unfold l; cbn; tauto|exact S3]).
  clearbody m5.
  assert (S6 : Sub m6 m l).
  { unfold m6. match goal with |- Sub (if ?c then _ else _) _ _ => destruct c end; [|exact S5'].
    match goal with |- Sub (match ?c with _ => _ end) _ _ => destruct c end; [|exact S5']. cbv zeta.
    apply Sub_chk_t; [unfold l; cbn; tauto|]. apply Sub_chk_t; [unfold l; cbn; tauto|]. exact S5'. }
  clearbody m6.
  assert (S7 : Sub m7 m l) by (unfold m7; apply Sub_chk_t; [unfold l; cbn; tauto|exact S6]).
  clearbody m7. unfold m10, m9, m8. repeat strip. exact S7.
Qed.

Lemma clean_TRet_none : forall m fds clk, Clean S5 m -> Clean S5 (mon_step m (TRet None fds clk)).
Proof.
  intros m fds clk C. apply Clean_step; [|exact C]. intros c Hc Hs. cbn [ev_codes In S5] in *. intuition (subst; discriminate).
Qed.

Lemma clean_THang : forall m, Clean S5 m -> something_registered m = true -> posted m = false -> Clean S5 (mon_step m THang).
Proof.
  intros m C H1 H2. unfold mon_step. cbv zeta.
  rewrite (chk_true' m _ 705) by exact H1.
  apply (Clean_Sub S5 _ m [405; 604; 901] C); [|intros c Hc Hs; cbn [In S5] in *; intuition (subst; discriminate)].
  apply Sub_chk_t; [cbn; tauto|].
  match goal with |- Sub (chk ?M ?b 710) _ _ => replace (chk M b 710) with M end.
  - apply Sub_chk_t; [cbn; tauto|]. apply Sub_chk; cbn; tauto.
  - symmetry. apply chk_true'.
    match goal with |- negb (any_obj (fun j => a_ev ?M j && a_evp ?M j)) = true => change (negb (posted M) = true) end.
    rewrite !posted_chk. rewrite H2. reflexivity.
Qed.

(* events that cannot add 705 708 710 *)
Definition q5 (e : tev) : Prop :=
  match e with TRet (Some _) _ _ | THang => False | _ => True end.

Lemma q5_quiet : forall e, q5 e -> quiet_for S5 e.
Proof.
  intros e Q c Hc Hs. destruct e; cbn [q5] in Q; try contradiction; try destruct n; try contradiction;
    cbn [ev_codes In S5] in *; intuition (subst; discriminate).
Qed.
