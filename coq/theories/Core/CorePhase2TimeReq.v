(* CorePhase2TimeReq.v -- what the loop owes when it enters a kernel wait: with a
   task registered the wait is due at once; with a timer registered it is bounded
   by the timer's expiry (rounded up to a millisecond on the ms calls).  These
   requirements imply the tracker clauses 602 403 404 (wait returns) and
   604 405 (wait hangs). *)
From Coq Require Import List ZArith Bool Lia.
From Ivv Require Import Core.Kernel Core.CoreTypes Core.CoreFd Core.CoreModel Core.Monitors Core.CoreSpec
  Core.CoreRel Core.CorePhase2TimeMon Core.CorePhase2TimeFr Core.CorePhase2TimeT1 Core.CorePhase2TimeMon2
  Core.CorePhase2TimeSl.
From Ivv Require Timer.HeapModel.
Import ListNotations.
Local Open Scope Z_scope.

Ltac Zify.zify_post_hook ::= Z.div_mod_to_equations.

Section RA.
Context `{RAi : RawAssume}.

(* latest return allowed for a timer expiring at e, on a wait entered at clock c *)
Definition bnd (call c e : Z) : Z := if (call =? 0) || (call =? 2) then c + ceil_ms (e - c) else e.

Lemma bnd_ge : forall call c e, e <= bnd call c e.
Proof. intros call c e. unfold bnd, ceil_ms. destruct ((call =? 0) || (call =? 2)); lia. Qed.

Lemma bnd_future : forall call c e, c < bnd call c e -> c < e.
Proof. intros call c e. unfold bnd, ceil_ms. destruct ((call =? 0) || (call =? 2)); lia. Qed.

Lemma bnd_mono : forall call c e e', e <= e' -> bnd call c e <= bnd call c e'.
Proof. intros call c e e' L. unfold bnd, ceil_ms. destruct ((call =? 0) || (call =? 2)); lia. Qed.

(* the wait is bounded by D: by its timeout, or by an armed timer descriptor (A) *)
Definition KSBa (k : kernel) (timeout : Z) (A : Z -> Prop) (D : Z) : Prop :=
  (0 <= timeout /\ D = clock k + timeout) \/ A D.

Lemma KSBa_KSB : forall k timeout (A : Z -> Prop) D, (forall D, A D -> KArmed k D) -> KSBa k timeout A D -> KSB k timeout D.
Proof. intros k timeout A D H [X|X]; [left; exact X|right; apply H; exact X]. Qed.

Record SReq (s : core) (call timeout : Z) (A : Z -> Prop) : Prop := {
  sr_task : forall k, inr16 k -> task_registered s k = true ->
    exists D, KSBa (kern s) timeout A D /\ D <= clock (kern s);
  sr_timer : forall j, inr16 j -> timer_registered s j = true ->
    exists D, KSBa (kern s) timeout A D /\
      (a_stale (mst s) = false -> D <= clock (kern s) \/ D <= bnd call (clock (kern s)) (HeapModel.texp (heap s) (tmid j))) }.

(* the wait returned at clk, within every bound *)
Lemma SReq_ret : forall s call timeout A clk, J true s -> SReq s call timeout A -> w_call (mst s) = call ->
  (forall D, KSBa (kern s) timeout A D -> clk <= Z.max (clock (kern s)) D) ->
  (a_clk (mst s) < clk -> any_obj (a_tk (mst s)) = false) /\
  (a_clk (mst s) < clk -> a_stale (mst s) = false -> forall e, min_expiry (mst s) = Some e ->
     a_clk (mst s) < e /\
     clk <= Z.max (a_clk (mst s)) (if (w_call (mst s) =? 0) || (w_call (mst s) =? 2)
                                   then a_clk (mst s) + ceil_ms (e - a_clk (mst s)) else e)).
Proof.
  intros s call timeout A clk Jh [RT RM] WC BD.
  pose proof (ag_clk _ _ (j_ag _ _ Jh)) as AC. rewrite AC, WC.
  split.
  - intros SL. apply any_obj_false. intros k K.
    destruct (a_tk (mst s) k) eqn:TK; [|reflexivity]. exfalso.
    rewrite (J_AgTk _ _ Jh k K) in TK. destruct (RT k K TK) as (D & SB & DL).
    specialize (BD D SB). lia.
  - intros SL ST e ME. destruct (min_expiry_In _ _ ME) as (j & JR & TM & EX).
    destruct (J_AgTm _ _ Jh j JR) as [G1' G2]. rewrite G1' in TM. rewrite (G2 TM) in EX.
    destruct (RM j JR TM) as (D & SB & DB). specialize (BD D SB). specialize (DB ST). rewrite EX in DB.
    destruct DB as [DB|DB]; [lia|].
    change (if (call =? 0) || (call =? 2) then clock (kern s) + ceil_ms (e - clock (kern s)) else e) with (bnd call (clock (kern s)) e).
    split; [apply (bnd_future call); lia|lia].
Qed.

Lemma SReq_hang : forall s call timeout A, J true s -> SReq s call timeout A ->
  (forall D, KSBa (kern s) timeout A D -> False) ->
  any_obj (a_tm (mst s)) = false /\ any_obj (a_tk (mst s)) = false.
Proof.
  intros s call timeout A Jh [RT RM] NB. split; apply any_obj_false; intros j JR.
  - destruct (a_tm (mst s) j) eqn:TM; [|reflexivity]. exfalso.
    rewrite (proj1 (J_AgTm _ _ Jh j JR)) in TM. destruct (RM j JR TM) as (D & SB & _). exact (NB D SB).
  - destruct (a_tk (mst s) j) eqn:TK; [|reflexivity]. exfalso.
    rewrite (J_AgTk _ _ Jh j JR) in TK. destruct (RT j JR TK) as (D & SB & _). exact (NB D SB).
Qed.

(* ---------- the timeout computed from the loop state ---------- *)
Definition AbsOf (s : core) : option Z :=
  match tasks s with _ :: _ => Some 0 | [] => soonest_timeout s end.

Lemma task_reg_tasks : forall s k, cur s = None -> task_registered s k = true -> tasks s <> [].
Proof.
  intros s k C H. unfold task_registered in H. rewrite C, orb_false_r in H. apply mem_z_In in H.
  intros E. rewrite E in H. destruct H.
Qed.

Lemma soonest_min : forall s j, HeapFacts.Inv (heap s) -> HeapModel.batch (heap s) = [] ->
  timer_registered s j = true ->
  exists a, soonest_timeout s = Some a /\ a <= HeapModel.texp (heap s) (tmid j).
Proof.
  intros s j HI B TR. unfold soonest_timeout, HeapModel.soonest.
  pose proof (treg_true _ _ TR) as NI.
  destruct (HeapFacts.i_batch _ HI) as (B1 & _ & B3). specialize (B3 (tmid j)).
  assert (GE : 1 <= HeapModel.tidx (heap s) (tmid j)).
  { destruct (Z.eq_dec (HeapModel.tidx (heap s) (tmid j)) 0) as [Z0|NZ]; [|lia].
    apply B1 in Z0. rewrite B in Z0. destruct Z0. }
  destruct (HeapFacts.i_back _ HI _ GE) as [RG _].
  destruct (Z.eqb_spec (HeapModel.num (heap s)) 0) as [N0|NN]; [lia|].
  pose proof (HeapFacts.i_num _ HI) as NP.
  destruct (HeapFacts.i_filled _ HI 1 ltac:(lia)) as (t & E1 & _). rewrite E1.
  exists (HeapModel.texp (heap s) t). split; [reflexivity|].
  apply (HeapCollect.root_min (heap s) t (tmid j) HI E1 GE).
Qed.

Lemma msec_le_ceil : forall r, 0 <= r -> msec_of_rel r * 1000000 <= ceil_ms r.
Proof.
  intros r R. unfold msec_of_rel, ceil_ms, NS. destruct (Z.ltb_spec (r / 1000000000) 86400); lia.
Qed.

Lemma msec_nonneg : forall r, 0 <= r -> 0 <= msec_of_rel r.
Proof. intros r R. unfold msec_of_rel, NS. destruct (Z.ltb_spec (r / 1000000000) 86400); lia. Qed.

Lemma msec_zero : msec_of_rel 0 = 0.
Proof. reflexivity. Qed.

Lemma ceil_mono : forall a b, a <= b -> ceil_ms a <= ceil_ms b.
Proof. intros a b L. unfold ceil_ms. lia. Qed.

(* the relative timeout, in ns, handed to the kernel for abs = Some a *)
Definition rel_of (s : core) (a : Z) : Z := if time s <? a then a - time s else 0.
Definition ns_of (call r : Z) : Z := if (call =? 0) || (call =? 2) then msec_of_rel r * 1000000 else r.

Lemma SReq_of_abs : forall s call, J true s -> T1 s -> cur s = None -> HeapModel.batch (heap s) = [] ->
  (AbsOf s <> None -> time_valid s = true) ->
  match AbsOf s with
  | Some a => SReq s call (ns_of call (rel_of s a)) (fun _ => False)
  | None => SReq s call (-1) (fun _ => False)
  end.
Proof.
  intros s call Jh T C B TV0. destruct (J_SiTm _ _ Jh) as [HI _].
  destruct (t1_stale _ T) as (ST1 & ST2 & ST3).
  unfold AbsOf in *. destruct (tasks s) as [|k0 tl] eqn:TK.
  - (* no task *)
    assert (NT : forall k, task_registered s k = true -> False).
    { intros k H. apply (task_reg_tasks s k C H). exact TK. }
    destruct (soonest_timeout s) as [a|] eqn:SO.
    + assert (TV : time_valid s = true) by (apply TV0; discriminate). specialize (ST3 TV).
      constructor; [intros k _ H; destruct (NT k H)|].
      intros j JR TR. destruct (soonest_min s j HI B TR) as (a' & SO' & LE). rewrite SO in SO'. inversion SO'; subst a'.
      set (r := rel_of s a). assert (R0 : 0 <= r) by (unfold r, rel_of; destruct (Z.ltb_spec (time s) a); lia).
      assert (N0 : 0 <= ns_of call r) by (unfold ns_of; destruct ((call =? 0) || (call =? 2)); [pose proof (msec_nonneg r R0); lia|lia]).
      exists (clock (kern s) + ns_of call r). split; [left; split; [exact N0|reflexivity]|].
      intros ST. specialize (ST1 ST TV). unfold r, rel_of, ns_of, bnd in *. rewrite ST1 in *.
      destruct (Z.ltb_spec (clock (kern s)) a) as [L|L].
      * right. destruct ((call =? 0) || (call =? 2)); [|lia].
        pose proof (msec_le_ceil (a - clock (kern s)) ltac:(lia)). pose proof (ceil_mono (a - clock (kern s)) (HeapModel.texp (heap s) (tmid j) - clock (kern s)) ltac:(lia)). lia.
      * left. destruct ((call =? 0) || (call =? 2)); [rewrite msec_zero|]; lia.
    + constructor; [intros k _ H; destruct (NT k H)|].
      intros j JR TR. destruct (soonest_min s j HI B TR) as (a' & SO' & _). congruence.
  - (* a task is registered: zero timeout *)
    assert (TV : time_valid s = true) by (apply TV0; discriminate). specialize (ST3 TV).
    assert (RZ : rel_of s 0 = 0) by (unfold rel_of; destruct (Z.ltb_spec (time s) 0); [lia|reflexivity]).
    assert (NZ : ns_of call (rel_of s 0) = 0) by (rewrite RZ; unfold ns_of; destruct ((call =? 0) || (call =? 2)); reflexivity).
    rewrite NZ. constructor.
    + intros k _ _. exists (clock (kern s) + 0). split; [left; split; [lia|reflexivity]|lia].
    + intros j _ _. exists (clock (kern s) + 0). split; [left; split; [lia|reflexivity]|]. intros _. left. lia.
Qed.

(* transport across steps that keep the registrations and only let time pass *)
Lemma SReq_keep : forall s s' call timeout A, SReq s call timeout A ->
  (forall k, task_registered s' k = task_registered s k) -> heap s' = heap s ->
  clock (kern s) <= clock (kern s') ->
  (a_stale (mst s') = false -> a_stale (mst s) = false /\ clock (kern s') = clock (kern s)) ->
  SReq s' call timeout A.
Proof.
  intros s s' call timeout A [RT RM] TK H CL ST. constructor.
  - intros k K R. rewrite TK in R. destruct (RT k K R) as (D & SB & DL).
    destruct SB as [[TP ->]|A0].
    + exists (clock (kern s') + timeout). split; [left; split; [exact TP|reflexivity]|lia].
    + exists D. split; [right; exact A0|lia].
  - intros j JR R. unfold timer_registered in *. rewrite H in *. destruct (RM j JR R) as (D & SB & DB).
    destruct SB as [[TP ->]|A0].
    + exists (clock (kern s') + timeout). split; [left; split; [exact TP|reflexivity]|].
      intros S'. destruct (ST S') as [S0 CE]. rewrite CE. apply DB. exact S0.
    + exists D. split; [right; exact A0|].
      intros S'. destruct (ST S') as [S0 CE]. rewrite CE. apply DB. exact S0.
Qed.

(* ---------- the external actions at a wait only let time pass ---------- *)
Record WFr (s s' : core) : Prop := {
  wf_heap : heap s' = heap s;
  wf_time : time s' = time s;
  wf_tv : time_valid s' = time_valid s;
  wf_tasks : tasks s' = tasks s;
  wf_cur : cur s' = cur s;
  wf_clock : clock (kern s) <= clock (kern s');
  wf_stale : a_stale (mst s') = false -> a_stale (mst s) = false /\ clock (kern s') = clock (kern s);
  wf_pfds : pfds s' = pfds s;
  wf_method : method s' = method s }.

Lemma WFr_refl : forall s, WFr s s.
Proof. intros s. constructor; try reflexivity; auto. Qed.

Lemma WFr_trans : forall a b c, WFr a b -> WFr b c -> WFr a c.
Proof.
  intros a b c [] []. constructor; try congruence; [lia|].
  intros H. destruct (wf_stale1 H) as [H1 E1]. destruct (wf_stale0 H1) as [H0 E0]. split; [exact H0|congruence].
Qed.

Lemma WFr_kern : forall s a k1, (forall d, a <> AClockAdv d) -> a <> AInvalidate -> clock k1 = clock (kern s) ->
  WFr s (set_kern (emit s (TAct a)) k1).
Proof.
  intros s a k1 N1 N2 C. constructor; try reflexivity; cbn [kern set_kern]; [lia|].
  change (mst (set_kern (emit s (TAct a)) k1)) with (mst (emit s (TAct a))). rewrite mst_emit, a_stale_step.
  intros H. split; [|exact C]. destruct a; try exact H; [exfalso; eapply N1; reflexivity|contradiction].
Qed.

Lemma wait_action_WFr : forall s a s', wf_wait_action a -> do_action s a = R s' -> WFr s s'.
Proof.
  intros s a s' W. destruct a; cbn [wf_wait_action] in W; try contradiction; unfold do_action; cbv zeta.
  - intros E. inversion E. apply WFr_kern; [intros ?; discriminate|discriminate|].
    apply (proj1 (ksame_set_cond (kern s) i c)).
  - intros E. inversion E. apply WFr_kern; [intros ?; discriminate|discriminate|].
    apply (proj1 (ksame_user_fd (kern s) i)).
  - destruct (rw_reg s j); intros E; inversion E; [|apply WFr_refl]. unfold raw_post.
    cbn [efd_raw emit set_trace kern rw_wfd].
    destruct (raw_is_pipe _ j).
    + pose proof (ksame_write (kern s) (rw_wfd s j) 1 0) as K. destruct (k_write (kern s) (rw_wfd s j) 1 0) as [k1 x].
      apply WFr_kern; [intros ?; discriminate|discriminate|apply K].
    + pose proof (ksame_write (kern s) (rw_wfd s j) 8 1) as K. destruct (k_write (kern s) (rw_wfd s j) 8 1) as [k1 x].
      apply WFr_kern; [intros ?; discriminate|discriminate|apply K].
  - intros E. inversion E. constructor; try reflexivity; cbn [kern set_kern clock k_set_clock]; [lia|].
    change (mst (set_kern (emit s (TAct (AClockAdv d))) (k_set_clock (kern s) (clock (kern s) + d))))
      with (mst (emit s (TAct (AClockAdv d)))). rewrite mst_emit, a_stale_step. discriminate.
Qed.

Lemma wait_acts_WFr : forall l s s', Forall wf_wait_action l -> run_acts s l = R s' -> WFr s s'.
Proof.
  induction l as [|a l IH]; intros s s' W; cbn [run_acts].
  - intros E. inversion E. apply WFr_refl.
  - inversion W as [|? ? W1 W2]; subst. destruct (do_action s a) as [s1|s1] eqn:D; cbn [bind]; [|discriminate].
    intros E. eapply WFr_trans; [apply (wait_action_WFr _ _ _ W1 D)|apply (IH _ _ W2 E)].
Qed.

Lemma wait_enter_WFr : forall sc s s', wf_scenario sc -> wait_enter sc s = R s' -> WFr s s'.
Proof.
  intros sc s s' WF. unfold wait_enter. destruct (sc_limit sc <? nwait (kern s) + 1); [discriminate|].
  intros E. eapply WFr_trans; [|apply (wait_acts_WFr _ _ _ (wf_waits sc WF _) E)].
  constructor; try reflexivity; auto.
Qed.

Lemma SReq_WFr : forall s s' call timeout A, SReq s call timeout A -> WFr s s' -> SReq s' call timeout A.
Proof.
  intros s s' call timeout A R [] . apply (SReq_keep s s' call timeout A R); try assumption.
  intros k. unfold task_registered. rewrite wf_tasks0, wf_cur0. reflexivity.
Qed.

Lemma SReq_weaken : forall s call timeout (A A' : Z -> Prop), (forall D, A D -> A' D) ->
  SReq s call timeout A -> SReq s call timeout A'.
Proof.
  intros s call timeout A A' H [RT RM]. constructor.
  - intros k K R. destruct (RT k K R) as (D & [X|X] & L); exists D; (split; [|exact L]); [left; exact X|right; apply H; exact X].
  - intros j JR R. destruct (RM j JR R) as (D & [X|X] & L); exists D; (split; [|exact L]); [left; exact X|right; apply H; exact X].
Qed.

Lemma SReq_F0 : forall s s' call timeout A, SReq s call timeout A -> F0 s s' -> SReq s' call timeout A.
Proof.
  intros s s' call timeout A R [L X]. destruct (lf_fields _ _ L) as (E1 & E2 & E3 & E4 & E5 & E6 & E7 & E8).
  destruct (silent_ghost _ _ (TrX_silent _ _ X)) as (G1' & _).
  apply (SReq_keep s s' call timeout A R); try assumption; try lia.
  - intros k. unfold task_registered. rewrite E4, E5. reflexivity.
  - intros H. rewrite G1' in H. split; [exact H|exact E8].
Qed.
End RA.
