(* CorePhase2TimeReq.v -- what the loop owes when it enters a kernel wait: with a
   task registered the wait is due at once; with a timer registered it is bounded
   by the timer's expiry (rounded up to a millisecond on the ms calls).  These
   requirements imply the tracker clauses 602 403 404 (wait returns) and
   604 405 (wait hangs). *)
From Coq Require Import List ZArith Bool Lia.
From Ivv Require Import Core.Kernel Core.CoreTypes Core.CoreFd Core.CoreModel Core.Monitors Core.CoreSpec
  Core.CoreRel Core.CorePhase2TimeMon Core.CorePhase2TimeFr Core.CorePhase2TimeT1 Core.CorePhase2TimeMon2
  Core.CorePhase2TimeSl.
From Ivv Require Timer.HeapModel.
Import ListNotations.
Local Open Scope Z_scope.

Ltac Zify.zify_post_hook ::= Z.div_mod_to_equations.

(* latest return allowed for a timer expiring at e, on a wait entered at clock c *)
Definition bnd (call c e : Z) : Z := if (call =? 0) || (call =? 2) then c + ceil_ms (e - c) else e.

Lemma bnd_ge : forall call c e, e <= bnd call c e.
Proof. intros call c e. unfold bnd, ceil_ms. destruct ((call =? 0) || (call =? 2)); lia. Qed.

Lemma bnd_future : forall call c e, c < bnd call c e -> c < e.
Proof. intros call c e. unfold bnd, ceil_ms. destruct ((call =? 0) || (call =? 2)); lia. Qed.

Lemma bnd_mono : forall call c e e', e <= e' -> bnd call c e <= bnd call c e'.
Proof. intros call c e e' L. unfold bnd, ceil_ms. destruct ((call =? 0) || (call =? 2)); lia. Qed.

Record SReq (s : core) (call timeout : Z) : Prop := {
  sr_task : forall k, inr16 k -> task_registered s k = true ->
    exists D, KSB (kern s) timeout D /\ D <= clock (kern s);
  sr_timer : forall j, inr16 j -> timer_registered s j = true ->
    exists D, KSB (kern s) timeout D /\
      (a_stale (mst s) = false -> D <= clock (kern s) \/ D <= bnd call (clock (kern s)) (HeapModel.texp (heap s) (tmid j))) }.

(* the wait returned at clk, within every bound *)
Lemma SReq_ret : forall s call timeout clk, J true s -> SReq s call timeout -> w_call (mst s) = call ->
  (forall D, KSB (kern s) timeout D -> clk <= Z.max (clock (kern s)) D) ->
  (a_clk (mst s) < clk -> any_obj (a_tk (mst s)) = false) /\
  (a_clk (mst s) < clk -> a_stale (mst s) = false -> forall e, min_expiry (mst s) = Some e ->
     a_clk (mst s) < e /\
     clk <= Z.max (a_clk (mst s)) (if (w_call (mst s) =? 0) || (w_call (mst s) =? 2)
                                   then a_clk (mst s) + ceil_ms (e - a_clk (mst s)) else e)).
Proof.
  intros s call timeout clk Jh [RT RM] WC BD.
  pose proof (ag_clk _ _ (j_ag _ _ Jh)) as AC. rewrite AC, WC.
  split.
  - intros SL. apply any_obj_false. intros k K.
    destruct (a_tk (mst s) k) eqn:TK; [|reflexivity]. exfalso.
    rewrite (J_AgTk _ _ Jh k K) in TK. destruct (RT k K TK) as (D & SB & DL).
    specialize (BD D SB). lia.
  - intros SL ST e ME. destruct (min_expiry_In _ _ ME) as (j & JR & TM & EX).
    destruct (J_AgTm _ _ Jh j JR) as [G1' G2]. rewrite G1' in TM. rewrite (G2 TM) in EX.
    destruct (RM j JR TM) as (D & SB & DB). specialize (BD D SB). specialize (DB ST). rewrite EX in DB.
    destruct DB as [DB|DB]; [lia|].
    change (if (call =? 0) || (call =? 2) then clock (kern s) + ceil_ms (e - clock (kern s)) else e) with (bnd call (clock (kern s)) e).
    split; [apply (bnd_future call); lia|lia].
Qed.

Lemma SReq_hang : forall s call timeout, J true s -> SReq s call timeout ->
  (forall D, KSB (kern s) timeout D -> False) ->
  any_obj (a_tm (mst s)) = false /\ any_obj (a_tk (mst s)) = false.
Proof.
  intros s call timeout Jh [RT RM] NB. split; apply any_obj_false; intros j JR.
  - destruct (a_tm (mst s) j) eqn:TM; [|reflexivity]. exfalso.
    rewrite (proj1 (J_AgTm _ _ Jh j JR)) in TM. destruct (RM j JR TM) as (D & SB & _). exact (NB D SB).
  - destruct (a_tk (mst s) j) eqn:TK; [|reflexivity]. exfalso.
    rewrite (J_AgTk _ _ Jh j JR) in TK. destruct (RT j JR TK) as (D & SB & _). exact (NB D SB).
Qed.
