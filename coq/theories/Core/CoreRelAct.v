(* CoreRelAct.v -- the invariant J (tracker agreement + state invariants + no
   proved failure code so far) and its preservation by the scenario actions. *)
From Coq Require Import List ZArith Bool Lia.
From Ivv Require Import Core.Kernel Core.CoreTypes Core.CoreFd Core.CoreModel Core.Monitors Core.CoreSpec
  Core.CoreRelBase Core.CoreRelMon Core.CoreRelDefs Core.CoreRelFd Core.CoreRelTm.
From Ivv Require Timer.HeapModel Timer.HeapFacts.
Import ListNotations.
Local Open Scope Z_scope.

Record J (b : bool) (s : core) : Prop := {
  j_ag : Agree s (mst s);
  j_si : SI s;
  j_fd : FdI s (-1);
  j_fx : FdX s;
  j_main : a_main (mst s) = b;
  j_good : Goodm (mst s) }.

Definition Post (b : bool) (s : core) (r : res) : Prop :=
  match r with R s' => J b s' /\ Fr s s' | Halt s' => Goodm (mst s') end.

Lemma Post_bind : forall b s r f, Post b s r ->
  (forall s1, J b s1 -> Fr s s1 -> Post b s1 (f s1)) -> Post b s (bind r f).
Proof.
  intros b s r f P K. destruct r as [s1|s1]; cbn [bind Post] in *; [|assumption].
  destruct P as [J1 F1]. specialize (K s1 J1 F1).
  destruct (f s1) as [s2|s2]; cbn [Post] in *; [|assumption].
  destruct K as [J2 F2]. split; [assumption|eapply Fr_trans; eassumption].
Qed.

Lemma Post_fr : forall b s0 s r, Fr s0 s -> Post b s r -> Post b s0 r.
Proof.
  intros b s0 s r F P. destruct r; cbn [Post] in *; [|assumption].
  destruct P as [A B]. split; [assumption|eapply Fr_trans; eassumption].
Qed.

(* ---------- the relation in groups ---------- *)
Definition AgFd (s : core) (m : mon) : Prop := forall i, inr16 i ->
  a_fd m i = registered (fdt s i) /\ a_fh m i 0 = h_in (fdt s i) /\ a_fh m i 1 = h_out (fdt s i) /\
  a_fh m i 2 = h_err (fdt s i) /\ a_ck m i = cookie (fdt s i).
Definition AgTm (s : core) (m : mon) : Prop := forall j, inr16 j ->
  a_tm m j = timer_registered s j /\
  (timer_registered s j = true -> a_exp m j = HeapModel.texp (heap s) (tmid j)).
Definition AgTk (s : core) (m : mon) : Prop := forall k, inr16 k -> a_tk m k = task_registered s k.
Definition AgEv (s : core) (m : mon) : Prop := forall j, inr16 j ->
  a_ev m j = ev_reg s j /\ (ev_on_list s j = true -> a_evp m j = true).
Definition AgRw (s : core) (m : mon) : Prop := forall j, inr16 j -> a_rw m j = rw_reg s j.

Lemma Agree_groups : forall s m, Agree s m <->
  AgFd s m /\ AgTm s m /\ AgTk s m /\ AgEv s m /\ AgRw s m /\ a_quit m = quit s /\ a_clk m = clock (kern s).
Proof.
  intros s m. split.
  - intros [A1 A2 A3 A4 A5 A6 A7 A8 A9 A10 A11 A12 A13].
    split; [intros i I; repeat split; auto|].
    split; [intros j I; split; auto|].
    split; [assumption|]. split; [intros j I; split; auto|]. auto.
  - intros (G1 & G2 & G3 & G4 & G5 & G6 & G7).
    constructor; try assumption; try (intros i I; apply (G1 i I)); try (intros j I; apply (G2 j I));
      try (intros j I; apply (G4 j I)).
Qed.

Definition SiTm (s : core) : Prop :=
  HeapFacts.Inv (heap s) /\ (forall t, HeapModel.tidx (heap s) t <> -1 -> Zpos t <= 16).
Definition SiTime (s : core) : Prop := time_valid s = true -> time s <= clock (kern s).
Definition SiTk (s : core) : Prop :=
  (forall k, In k (tasks s ++ curl s) -> 0 <= k <= 16) /\ NoDup (tasks s ++ curl s).
Definition SiEv (s : core) : Prop :=
  (forall j, In j (ev_pending s ++ ev_batch s) -> inr16 j /\ ev_reg s j = true) /\
  NoDup (ev_pending s ++ ev_batch s).

Lemma SI_groups : forall s, SI s <-> SiTm s /\ SiTime s /\ SiTk s /\ SiEv s.
Proof.
  intros s. split.
  - intros [A1 A2 A3 A4 A5 A6 A7]. split; [split; assumption|]. split; [assumption|]. split; split; assumption.
  - intros ((A1 & A2) & A3 & (A4 & A5) & (A6 & A7)). constructor; assumption.
Qed.

Definition hnd_same (f' f : fdo) : Prop := h_in f' = h_in f /\ h_out f' = h_out f /\ h_err f' = h_err f.
Lemma hsame_hnd : forall f' f, hsame f' f -> hnd_same f' f.
Proof. intros f' f (_ & A & B & C & _). repeat split; assumption. Qed.

Lemma FdX_keep : forall s s', FdX s ->
  (forall i, hnd_same (fdt s' i) (fdt s i)) ->
  (forall i, 16 <= i -> registered (fdt s' i) = registered (fdt s i)) ->
  rw_reg s' = rw_reg s -> use_raw s' = use_raw s -> ev_count s' = ev_count s -> ev_reg s' = ev_reg s ->
  FdX s'.
Proof.
  intros s s' [X1 X2 X3 X4 X5] H R RW UR EC ER.
  assert (HO : forall k P, hand_ok (fdt s k) P -> hand_ok (fdt s' k) P).
  { intros k P (P1 & P2 & P3). destruct (H k) as (H1 & H2 & H3). unfold hand_ok.
    rewrite H1, H2, H3. auto. }
  constructor.
  - intros j Jr. rewrite R by lia. rewrite RW. auto.
  - intros k K. apply HO. auto.
  - intros k K. apply HO. auto.
  - rewrite RW, UR, EC. assumption.
  - rewrite EC, ER. assumption.
Qed.

Lemma FdI_keep : forall s s' x, FdI s x ->
  active s' = active s -> handled s' = handled s -> notify s' = notify s -> method s' = method s ->
  ep (kern s') = ep (kern s) -> flt (kern s') = flt (kern s) -> pfds s' = pfds s -> pkeys s' = pkeys s ->
  fdt s' = fdt s -> FdI s' x.
Proof.
  intros s s' x I A H N M E F PF PK FD.
  eapply FdI_ext; try eassumption; try congruence; auto.
  - rewrite E. intros e He. exists e. auto.
  - intros i. rewrite FD. apply gsame_refl.
Qed.

Definition JM (b : bool) (s : core) (m : mon) : Prop :=
  Agree s m /\ SI s /\ FdI s (-1) /\ FdX s /\ a_main m = b /\ Goodm m.

Lemma J_JM : forall b s, J b s <-> JM b s (mst s).
Proof.
  intros b s. split.
  - intros [A B C D E F]. unfold JM. split; [exact A|split; [exact B|split; [exact C|split; [exact D|split; [exact E|exact F]]]]].
  - intros (A & B & C & D & E & F). constructor; assumption.
Qed.

(* the general update lemma: every group is either kept or re-proved *)
Lemma JM_upd2 : forall b b' s s' m', J b s ->
  a_main m' = b' -> Goodm m' ->
  (((forall i, inr16 i -> fkeep (fdt s' i) (fdt s i)) /\ a_fd m' = a_fd (mst s) /\
    a_fh m' = a_fh (mst s) /\ a_ck m' = a_ck (mst s)) \/ AgFd s' m') ->
  ((heap s' = heap s /\ a_tm m' = a_tm (mst s) /\ a_exp m' = a_exp (mst s)) \/ AgTm s' m') ->
  ((tasks s' = tasks s /\ cur s' = cur s /\ a_tk m' = a_tk (mst s)) \/ AgTk s' m') ->
  ((ev_reg s' = ev_reg s /\ ev_pending s' = ev_pending s /\ ev_batch s' = ev_batch s /\
    a_ev m' = a_ev (mst s) /\ a_evp m' = a_evp (mst s)) \/ AgEv s' m') ->
  ((rw_reg s' = rw_reg s /\ a_rw m' = a_rw (mst s)) \/ AgRw s' m') ->
  ((quit s' = quit s /\ a_quit m' = a_quit (mst s)) \/ a_quit m' = quit s') ->
  ((clock (kern s') = clock (kern s) /\ a_clk m' = a_clk (mst s)) \/ a_clk m' = clock (kern s')) ->
  (heap s' = heap s \/ SiTm s') ->
  ((time s' = time s /\ time_valid s' = time_valid s /\ clock (kern s') = clock (kern s)) \/ SiTime s') ->
  ((tasks s' = tasks s /\ cur s' = cur s) \/ SiTk s') ->
  ((ev_reg s' = ev_reg s /\ ev_pending s' = ev_pending s /\ ev_batch s' = ev_batch s) \/ SiEv s') ->
  FdI s' (-1) -> FdX s' -> JM b' s' m'.
Proof.
  intros b b' s s' m' [AG SIv FD FX MN GD] M G H1 H2 H3 H4 H5 H6 H7 K1 K2 K3 K4 FD' FX'.
  apply Agree_groups in AG. destruct AG as (G1 & G2 & G3 & G4 & G5 & G6 & G7).
  apply SI_groups in SIv. destruct SIv as (S1 & S2 & S3 & S4).
  unfold JM. split; [|split; [|split; [assumption|split; [assumption|split; [congruence|assumption]]]]].
  - apply Agree_groups. split; [|split; [|split; [|split; [|split; [|split]]]]].
    + destruct H1 as [(F & E1 & E2 & E3)|H1]; [|assumption].
      intros i I. rewrite E1, E2, E3. destruct (F i I) as [(_ & Q1 & Q2 & Q3 & Q4) Q5].
      rewrite Q1, Q2, Q3, Q4, Q5. apply G1; assumption.
    + destruct H2 as [(E1 & E2 & E3)|H2]; [|assumption].
      intros j I. unfold timer_registered. rewrite E1, E2, E3. apply G2; assumption.
    + destruct H3 as [(E1 & E2 & E3)|H3]; [|assumption].
      intros k I. unfold task_registered. rewrite E1, E2, E3. apply G3; assumption.
    + destruct H4 as [(E1 & E2 & E3 & E4 & E5)|H4]; [|assumption].
      intros j I. unfold ev_on_list. rewrite E1, E2, E3, E4, E5. apply G4; assumption.
    + destruct H5 as [(E1 & E2)|H5]; [|assumption].
      intros j I. rewrite E1, E2. apply G5; assumption.
    + destruct H6 as [(E1 & E2)|H6]; [|assumption]. congruence.
    + destruct H7 as [(E1 & E2)|H7]; [|assumption]. congruence.
  - apply SI_groups. split; [|split; [|split]].
    + destruct K1 as [E|K1]; [unfold SiTm; rewrite E; apply S1|apply K1].
    + destruct K2 as [(E1 & E2 & E3)|K2]; [|assumption]. unfold SiTime. rewrite E1, E2, E3. assumption.
    + destruct K3 as [(E1 & E2)|K3]; [|apply K3]. unfold SiTk, curl. rewrite E1, E2. apply S3.
    + destruct K4 as [(E1 & E2 & E3)|K4]; [|apply K4]. unfold SiEv. rewrite E1, E2, E3. apply S4.
Qed.


Lemma JM_upd : forall b s s' m', J b s ->
  a_main m' = a_main (mst s) -> Goodm m' ->
  (((forall i, inr16 i -> fkeep (fdt s' i) (fdt s i)) /\ a_fd m' = a_fd (mst s) /\
    a_fh m' = a_fh (mst s) /\ a_ck m' = a_ck (mst s)) \/ AgFd s' m') ->
  ((heap s' = heap s /\ a_tm m' = a_tm (mst s) /\ a_exp m' = a_exp (mst s)) \/ AgTm s' m') ->
  ((tasks s' = tasks s /\ cur s' = cur s /\ a_tk m' = a_tk (mst s)) \/ AgTk s' m') ->
  ((ev_reg s' = ev_reg s /\ ev_pending s' = ev_pending s /\ ev_batch s' = ev_batch s /\
    a_ev m' = a_ev (mst s) /\ a_evp m' = a_evp (mst s)) \/ AgEv s' m') ->
  ((rw_reg s' = rw_reg s /\ a_rw m' = a_rw (mst s)) \/ AgRw s' m') ->
  ((quit s' = quit s /\ a_quit m' = a_quit (mst s)) \/ a_quit m' = quit s') ->
  ((clock (kern s') = clock (kern s) /\ a_clk m' = a_clk (mst s)) \/ a_clk m' = clock (kern s')) ->
  (heap s' = heap s \/ SiTm s') ->
  ((time s' = time s /\ time_valid s' = time_valid s /\ clock (kern s') = clock (kern s)) \/ SiTime s') ->
  ((tasks s' = tasks s /\ cur s' = cur s) \/ SiTk s') ->
  ((ev_reg s' = ev_reg s /\ ev_pending s' = ev_pending s /\ ev_batch s' = ev_batch s) \/ SiEv s') ->
  FdI s' (-1) -> FdX s' -> JM b s' m'.
Proof.
  intros b s s' m' Jh M. intros. apply (JM_upd2 b b s s' m' Jh); try assumption.
  rewrite M. apply (j_main _ _ Jh).
Qed.

Lemma J_upd : forall b s s', J b s ->
  a_main (mst s') = a_main (mst s) -> Goodm (mst s') ->
  (((forall i, inr16 i -> fkeep (fdt s' i) (fdt s i)) /\ a_fd (mst s') = a_fd (mst s) /\
    a_fh (mst s') = a_fh (mst s) /\ a_ck (mst s') = a_ck (mst s)) \/ AgFd s' (mst s')) ->
  ((heap s' = heap s /\ a_tm (mst s') = a_tm (mst s) /\ a_exp (mst s') = a_exp (mst s)) \/ AgTm s' (mst s')) ->
  ((tasks s' = tasks s /\ cur s' = cur s /\ a_tk (mst s') = a_tk (mst s)) \/ AgTk s' (mst s')) ->
  ((ev_reg s' = ev_reg s /\ ev_pending s' = ev_pending s /\ ev_batch s' = ev_batch s /\
    a_ev (mst s') = a_ev (mst s) /\ a_evp (mst s') = a_evp (mst s)) \/ AgEv s' (mst s')) ->
  ((rw_reg s' = rw_reg s /\ a_rw (mst s') = a_rw (mst s)) \/ AgRw s' (mst s')) ->
  ((quit s' = quit s /\ a_quit (mst s') = a_quit (mst s)) \/ a_quit (mst s') = quit s') ->
  ((clock (kern s') = clock (kern s) /\ a_clk (mst s') = a_clk (mst s)) \/ a_clk (mst s') = clock (kern s')) ->
  (heap s' = heap s \/ SiTm s') ->
  ((time s' = time s /\ time_valid s' = time_valid s /\ clock (kern s') = clock (kern s)) \/ SiTime s') ->
  ((tasks s' = tasks s /\ cur s' = cur s) \/ SiTk s') ->
  ((ev_reg s' = ev_reg s /\ ev_pending s' = ev_pending s /\ ev_batch s' = ev_batch s) \/ SiEv s') ->
  FdI s' (-1) -> FdX s' -> J b s'.
Proof.
  intros. apply J_JM. apply (JM_upd b s s' (mst s')); assumption.
Qed.

(* ---------- generalities about actions ---------- *)
Lemma a_main_action : forall m a, a_main (mon_action m a) = a_main m.
Proof. intros m a. destruct a; reflexivity. Qed.

Lemma mst_act : forall s a, mst (emit s (TAct a)) = mon_action (mst s) a.
Proof. intros. rewrite mst_emit. reflexivity. Qed.

Lemma FdI_emit : forall s x e, FdI s x -> FdI (emit s e) x.
Proof. intros s x e I. apply (FdI_keep s _ x I); reflexivity. Qed.

Lemma FdX_emit : forall s e, FdX s -> FdX (emit s e).
Proof. intros s e X. apply (FdX_keep s _ X); try reflexivity; intros; repeat split. Qed.

Lemma Post_same : forall b s, J b s -> Post b s (R s).
Proof. intros b s Jh. split; [assumption|apply Fr_refl]. Qed.

Lemma J_AgFd : forall b s, J b s -> AgFd s (mst s).
Proof. intros b s Jh. apply (proj1 (Agree_groups _ _) (j_ag _ _ Jh)). Qed.
Lemma J_AgTm : forall b s, J b s -> AgTm s (mst s).
Proof. intros b s Jh. apply (proj1 (Agree_groups _ _) (j_ag _ _ Jh)). Qed.
Lemma J_AgTk : forall b s, J b s -> AgTk s (mst s).
Proof. intros b s Jh. apply (proj1 (Agree_groups _ _) (j_ag _ _ Jh)). Qed.
Lemma J_AgEv : forall b s, J b s -> AgEv s (mst s).
Proof. intros b s Jh. apply (proj1 (Agree_groups _ _) (j_ag _ _ Jh)). Qed.
Lemma J_AgRw : forall b s, J b s -> AgRw s (mst s).
Proof. intros b s Jh. apply (proj1 (Agree_groups _ _) (j_ag _ _ Jh)). Qed.
Lemma J_SiTm : forall b s, J b s -> SiTm s.
Proof. intros b s Jh. apply (proj1 (SI_groups _) (j_si _ _ Jh)). Qed.
Lemma J_SiTk : forall b s, J b s -> SiTk s.
Proof. intros b s Jh. apply (proj1 (SI_groups _) (j_si _ _ Jh)). Qed.
Lemma J_SiEv : forall b s, J b s -> SiEv s.
Proof. intros b s Jh. apply (proj1 (SI_groups _) (j_si _ _ Jh)). Qed.

Lemma good_action : forall m a, Goodm m -> Goodm (mon_action m a).
Proof. intros m a G c H. rewrite fails_action in H. apply G; assumption. Qed.

(* apply J_upd for a state whose tracker state is  mon_action (mst s) a ; groups that are
   definitionally unchanged are discharged *)
Ltac jupd Jh M :=
  apply (J_upd _ _ _ Jh); rewrite ?M;
  [ try (rewrite a_main_action; reflexivity)
  | try (apply good_action; apply (j_good _ _ Jh))
  | try (solve [left; repeat split; first [reflexivity | intros; apply fkeep_refl]])
  | try (solve [left; repeat split; reflexivity])
  | try (solve [left; repeat split; reflexivity])
  | try (solve [left; repeat split; reflexivity])
  | try (solve [left; repeat split; reflexivity])
  | try (solve [left; repeat split; reflexivity])
  | try (solve [left; repeat split; reflexivity])
  | try (solve [left; reflexivity])
  | try (solve [left; repeat split; reflexivity])
  | try (solve [left; repeat split; reflexivity])
  | try (solve [left; repeat split; reflexivity])
  | | ].

Lemma act_AFdCookie : forall b s i c, J b s -> inr16 i -> Post b s (do_action s (AFdCookie i c)).
Proof.
  intros b s i c Jh I. unfold do_action. cbv zeta. cbn [Post].
  set (ex := emit s (TAct (AFdCookie i c))).
  set (s' := putfd ex i _).
  assert (M : mst s' = mon_action (mst s) (AFdCookie i c)) by apply mst_act.
  split; [|split; [left; reflexivity|intros H; exact H]].
  jupd Jh M.
  - right. pose proof (J_AgFd _ _ Jh) as G. intros y Y. specialize (G y Y).
    cbn [mon_action a_fd a_fh a_ck m_fds]. unfold s'. rewrite fdt_putfd. unfold upd.
    destruct (Z.eqb_spec y i) as [->|N]; exact G || (unfold getfd; cbn [registered h_in h_out h_err cookie fd_with_cookie]; tauto).
  - apply FdI_putfd_gsame; [apply FdI_emit; apply (j_fd _ _ Jh)|repeat split].
  - apply (FdX_keep s _ (j_fx _ _ Jh)); try reflexivity.
    + intros y. unfold s'. rewrite fdt_putfd. destruct (Z.eqb_spec y i) as [->|N]; repeat split.
    + intros y Y. unfold s'. rewrite fdt_putfd. destruct (Z.eqb_spec y i) as [->|N]; reflexivity.
Qed.

Lemma FdX_user : forall s s', FdX s ->
  (forall y, ~ inr16 y -> hnd_same (fdt s' y) (fdt s y) /\ registered (fdt s' y) = registered (fdt s y)) ->
  (forall y, inr16 y -> hand_ok (fdt s' y) (fun h => 0 <= h < 16)) ->
  rw_reg s' = rw_reg s -> use_raw s' = use_raw s -> ev_count s' = ev_count s -> ev_reg s' = ev_reg s ->
  FdX s'.
Proof.
  intros s s' [X1 X2 X3 X4 X5] O U RW UR EC ER. constructor.
  - intros j Jr. destruct (O (16 + j)) as [_ E]; [unfold inr16; lia|]. rewrite E, RW. auto.
  - intros k K. destruct (O k) as [(H1 & H2 & H3) _]; [unfold inr16; lia|].
    destruct (X2 k K) as (P1 & P2 & P3). unfold hand_ok. rewrite H1, H2, H3. auto.
  - intros k K. apply U. exact K.
  - rewrite RW, UR, EC. assumption.
  - rewrite EC, ER. assumption.
Qed.

Lemma bool_eq_iff : forall a b : bool, (a = true <-> b = true) -> a = b.
Proof. intros [|] [|] H; try reflexivity; [symmetry|]; apply H; reflexivity. Qed.

Lemma task_registered_In : forall s y, task_registered s y = true <-> In y (tasks s ++ curl s).
Proof.
  intros s y. unfold task_registered, curl. rewrite orb_true_iff, in_app_iff, mem_z_In.
  destruct (cur s); [rewrite mem_z_In; tauto|]. cbn [In]. split; [intros [H|H]; [auto|discriminate]|tauto].
Qed.

Lemma ev_on_list_In : forall s y, ev_on_list s y = true <-> In y (ev_pending s ++ ev_batch s).
Proof. intros s y. unfold ev_on_list. rewrite orb_true_iff, in_app_iff, !mem_z_In. tauto. Qed.

Lemma remove_z_app : forall x a b, remove_z x (a ++ b) = remove_z x a ++ remove_z x b.
Proof.
  intros x a b. induction a as [|y a IH]; cbn [remove_z app]; [reflexivity|].
  destruct (y =? x); [assumption|cbn [app]; rewrite IH; reflexivity].
Qed.

Lemma task_register_spec : forall s k,
  exists T C, task_register s k = set_tasks (set_numobjs s (numobjs s + 1)) T C /\
    (forall y, In y (T ++ match C with Some c => c | None => [] end) <-> In y (tasks s ++ curl s) \/ y = k) /\
    (NoDup (tasks s ++ curl s) -> ~ In k (tasks s ++ curl s) -> NoDup (T ++ match C with Some c => c | None => [] end)) /\
    (cur s = None -> C = None).
Proof.
  intros s k. unfold task_register, curl. cbv zeta. cbn [cur tasks set_numobjs tepoch epoch].
  destruct (cur s) as [c|] eqn:CU.
  - destruct (tepoch s k =? epoch s).
    + exists (tasks s ++ [k]), (Some c). split; [reflexivity|]. split; [|split; [|discriminate]].
      * intros y. rewrite !in_app_iff. cbn [In]. intuition.
      * intros ND NI. rewrite <- app_assoc. apply NoDup_app_iff. apply NoDup_app_iff in ND.
        destruct ND as (N1 & N2 & N3). split; [assumption|]. split.
        -- cbn [app]. constructor; [intro H; apply NI; apply in_or_app; auto|assumption].
        -- intros x H1 [H2|H2]; [subst; apply NI; apply in_or_app; auto|eauto].
    + exists (tasks s), (Some (c ++ [k])). split; [reflexivity|]. split; [|split; [|discriminate]].
      * intros y. rewrite !in_app_iff. cbn [In]. intuition.
      * intros ND NI. rewrite app_assoc. apply NoDup_app_iff. split; [assumption|].
        split; [constructor; [intros []|constructor]|]. intros x H [H1|[]]. subst. auto.
  - exists (tasks s ++ [k]), None. split; [reflexivity|]. split; [|split; [|reflexivity]].
    + intros y. rewrite !in_app_iff. cbn [In]. intuition.
    + rewrite !app_nil_r. intros ND NI. apply NoDup_app_iff. split; [assumption|].
      split; [constructor; [intros []|constructor]|]. intros x H [H1|[]]. subst. auto.
Qed.

(* ---------- simple actions ---------- *)
Lemma Fr_plain : forall s s', handled s' = handled s -> cur s' = cur s -> Fr s s'.
Proof. intros s s' H C. split; [left; assumption|intros E; congruence]. Qed.

Lemma act_AFdFresh : forall b s i, J b s -> inr16 i -> Post b s (do_action s (AFdFresh i)).
Proof.
  intros b s i Jh I. unfold do_action. cbv zeta. unfold getfd.
  destruct (registered (fdt s i)) eqn:RG; [apply Post_same; assumption|]. cbn [Post].
  set (ex := emit s (TAct (AFdFresh i))).
  set (s' := putfd ex i _).
  assert (M : mst s' = mon_action (mst s) (AFdFresh i)) by apply mst_act.
  split; [|apply Fr_plain; reflexivity].
  jupd Jh M.
  - right. pose proof (J_AgFd _ _ Jh) as G. intros y Y. specialize (G y Y).
    cbn [mon_action a_fd a_fh a_ck m_fds]. unfold s'. rewrite fdt_putfd. unfold upd.
    destruct (Z.eqb_spec y i) as [->|N]; [|exact G].
    cbn [registered h_in h_out h_err cookie fd_fresh]. destruct G as (G1 & _). rewrite G1, RG. repeat split.
  - apply FdI_putfd_noref; [apply FdI_emit; apply (j_fd _ _ Jh)|].
    apply (FdI_noref ex i); [apply FdI_emit; apply (j_fd _ _ Jh)|unfold inr16 in I; lia|exact RG].
  - apply (FdX_user s _ (j_fx _ _ Jh)); try reflexivity.
    + intros y Y. unfold s'. rewrite fdt_putfd. destruct (Z.eqb_spec y i) as [->|N]; [contradiction|repeat split].
    + intros y Y. unfold s'. rewrite fdt_putfd. destruct (Z.eqb_spec y i) as [->|N].
      * repeat split; discriminate.
      * apply (fx_userh _ (j_fx _ _ Jh)). exact Y.
Qed.

(* kernel-only actions *)
Lemma J_set_kern : forall b s a k', J b s -> ksame (kern s) k' ->
  (forall m, mview (mon_action m a) = mview m) ->
  J b (set_kern (emit s (TAct a)) k') /\ Fr s (set_kern (emit s (TAct a)) k').
Proof.
  intros b s a k' Jh (KC & KF & KE) V.
  set (s' := set_kern (emit s (TAct a)) k').
  assert (M : mst s' = mon_action (mst s) a) by apply mst_act.
  specialize (V (mst s)).
  assert (P1 : a_fd (mon_action (mst s) a) = a_fd (mst s)) by (change (a_fd (mview (mon_action (mst s) a)) = a_fd (mst s)); rewrite V; reflexivity).
  assert (P2 : a_fh (mon_action (mst s) a) = a_fh (mst s)) by (change (a_fh (mview (mon_action (mst s) a)) = a_fh (mst s)); rewrite V; reflexivity).
  assert (P3 : a_ck (mon_action (mst s) a) = a_ck (mst s)) by (change (a_ck (mview (mon_action (mst s) a)) = a_ck (mst s)); rewrite V; reflexivity).
  assert (P4 : a_tm (mon_action (mst s) a) = a_tm (mst s)) by (change (a_tm (mview (mon_action (mst s) a)) = a_tm (mst s)); rewrite V; reflexivity).
  assert (P5 : a_exp (mon_action (mst s) a) = a_exp (mst s)) by (change (a_exp (mview (mon_action (mst s) a)) = a_exp (mst s)); rewrite V; reflexivity).
  assert (P6 : a_tk (mon_action (mst s) a) = a_tk (mst s)) by (change (a_tk (mview (mon_action (mst s) a)) = a_tk (mst s)); rewrite V; reflexivity).
  assert (P7 : a_ev (mon_action (mst s) a) = a_ev (mst s)) by (change (a_ev (mview (mon_action (mst s) a)) = a_ev (mst s)); rewrite V; reflexivity).
  assert (P8 : a_evp (mon_action (mst s) a) = a_evp (mst s)) by (change (a_evp (mview (mon_action (mst s) a)) = a_evp (mst s)); rewrite V; reflexivity).
  assert (P9 : a_rw (mon_action (mst s) a) = a_rw (mst s)) by (change (a_rw (mview (mon_action (mst s) a)) = a_rw (mst s)); rewrite V; reflexivity).
  assert (P10 : a_quit (mon_action (mst s) a) = a_quit (mst s)) by (change (a_quit (mview (mon_action (mst s) a)) = a_quit (mst s)); rewrite V; reflexivity).
  assert (P11 : a_clk (mon_action (mst s) a) = a_clk (mst s)) by (change (a_clk (mview (mon_action (mst s) a)) = a_clk (mst s)); rewrite V; reflexivity).
  split; [|apply Fr_plain; reflexivity].
  jupd Jh M.
  - left. repeat split; try assumption.
  - left. repeat split; assumption.
  - left. repeat split; assumption.
  - left. repeat split; assumption.
  - left. repeat split; assumption.
  - left. repeat split; assumption.
  - left. split; assumption.
  - left. repeat split; assumption.
  - apply (FdI_keep s _ _ (j_fd _ _ Jh)); try reflexivity; assumption.
  - apply (FdX_keep s _ (j_fx _ _ Jh)); try reflexivity; intros; repeat split.
Qed.

Lemma act_AKSet : forall b s i c, J b s -> Post b s (do_action s (AKSet i c)).
Proof.
  intros b s i c Jh. unfold do_action. cbv zeta. cbn [Post].
  apply J_set_kern; [assumption|apply ksame_set_cond|reflexivity].
Qed.

Lemma act_AKOpen : forall b s i, J b s -> Post b s (do_action s (AKOpen i)).
Proof.
  intros b s i Jh. unfold do_action. cbv zeta. cbn [Post].
  apply J_set_kern; [assumption|apply ksame_user_fd|reflexivity].
Qed.

Lemma act_AKClose : forall b s i, J b s -> Post b s (do_action s (AKClose i)).
Proof.
  intros b s i Jh. unfold do_action. cbv zeta.
  destruct (registered (getfd s i)); [apply Post_same; assumption|]. cbn [Post].
  apply J_set_kern; [assumption|apply ksame_user_close|reflexivity].
Qed.

Lemma act_ARwPost : forall b s j, J b s -> Post b s (do_action s (ARwPost j)).
Proof.
  intros b s j Jh. unfold do_action. cbv zeta.
  destruct (rw_reg s j); [|apply Post_same; assumption]. cbn [Post].
  unfold raw_post.
  set (ex := emit s (TAct (ARwPost j))).
  assert (KS : forall c v, ksame (kern s) (fst (k_write (kern ex) (rw_wfd ex j) c v))) by (intros; apply ksame_write).
  destruct (raw_is_pipe ex j).
  - specialize (KS 1 0). destruct (k_write (kern ex) (rw_wfd ex j) 1 0) as [k1 r]. cbn [fst] in KS.
    apply J_set_kern; [assumption|assumption|reflexivity].
  - specialize (KS 8 1). destruct (k_write (kern ex) (rw_wfd ex j) 8 1) as [k1 r]. cbn [fst] in KS.
    apply J_set_kern; [assumption|assumption|reflexivity].
Qed.

(* actions that only log *)
Lemma J_log : forall b s a, J b s -> (forall m, mon_action m a = m) ->
  J b (emit s (TAct a)) /\ Fr s (emit s (TAct a)).
Proof.
  intros b s a Jh V.
  assert (Q := J_set_kern b s a (kern s) Jh (ksame_refl _)).
  assert (V' : forall m, mview (mon_action m a) = mview m) by (intros m; rewrite V; reflexivity).
  specialize (Q V'). exact Q.
Qed.

Lemma act_ATmFresh : forall b s j, J b s -> Post b s (do_action s (ATmFresh j)).
Proof.
  intros b s j Jh. unfold do_action. cbv zeta.
  destruct (timer_registered s j); [apply Post_same; assumption|]. cbn [Post]. apply J_log; [assumption|reflexivity].
Qed.
Lemma act_AEvFresh : forall b s j, J b s -> Post b s (do_action s (AEvFresh j)).
Proof.
  intros b s j Jh. unfold do_action. cbv zeta.
  destruct (ev_reg s j); [apply Post_same; assumption|]. cbn [Post]. apply J_log; [assumption|reflexivity].
Qed.
Lemma act_ARwFresh : forall b s j, J b s -> Post b s (do_action s (ARwFresh j)).
Proof.
  intros b s j Jh. unfold do_action. cbv zeta.
  destruct (rw_reg s j); [apply Post_same; assumption|]. cbn [Post]. apply J_log; [assumption|reflexivity].
Qed.

Lemma act_AQuit : forall b s, J b s -> Post b s (do_action s AQuit).
Proof.
  intros b s Jh. unfold do_action. cbv zeta. cbn [Post].
  set (s' := set_quit _ true).
  assert (M : mst s' = mon_action (mst s) AQuit) by apply mst_act.
  split; [|apply Fr_plain; reflexivity].
  jupd Jh M.
  - right. reflexivity.
  - apply (FdI_keep s _ _ (j_fd _ _ Jh)); reflexivity.
  - apply (FdX_keep s _ (j_fx _ _ Jh)); try reflexivity; intros; repeat split.
Qed.

Lemma act_AClockAdv : forall b s d, J b s -> 0 <= d -> Post b s (do_action s (AClockAdv d)).
Proof.
  intros b s d Jh D. unfold do_action. cbv zeta. cbn [Post].
  set (s' := set_kern _ _).
  assert (M : mst s' = mon_action (mst s) (AClockAdv d)) by apply mst_act.
  split; [|apply Fr_plain; reflexivity].
  jupd Jh M.
  - right. cbn [mon_action a_clk m_loop]. rewrite (ag_clk _ _ (j_ag _ _ Jh)). reflexivity.
  - right. pose proof (si_time _ (j_si _ _ Jh)) as T. unfold SiTime. intros V.
    change (time s <= clock (kern s) + d). specialize (T V). lia.
  - apply (FdI_keep s _ _ (j_fd _ _ Jh)); reflexivity.
  - apply (FdX_keep s _ (j_fx _ _ Jh)); try reflexivity; intros; repeat split.
Qed.

Lemma act_AInvalidate : forall b s, J b s -> Post b s (do_action s AInvalidate).
Proof.
  intros b s Jh. unfold do_action. cbv zeta. cbn [Post]. unfold invalidate_now.
  set (s' := set_time _ _ false).
  assert (M : mst s' = mon_action (mst s) AInvalidate) by apply mst_act.
  split; [|apply Fr_plain; reflexivity].
  jupd Jh M.
  - right. intros V. discriminate V.
  - apply (FdI_keep s _ _ (j_fd _ _ Jh)); reflexivity.
  - apply (FdX_keep s _ (j_fx _ _ Jh)); try reflexivity; intros; repeat split.
Qed.

(* validate_now / invalidate_now anywhere *)
Lemma J_validate : forall b s, J b s -> J b (validate_now s) /\ Fr s (validate_now s) /\ mst (validate_now s) = mst s /\
  time_valid (validate_now s) = true /\ quit (validate_now s) = quit s.
Proof.
  intros b s Jh. unfold validate_now. destruct (time_valid s) eqn:V.
  - split; [assumption|split; [apply Fr_refl|auto]].
  - set (s' := set_time s (clock (kern s)) true).
    split; [|split; [apply Fr_plain; reflexivity|repeat split]].
    apply (J_upd _ _ _ Jh); try (solve [left; repeat split; first [reflexivity | intros; apply fkeep_refl]]);
      try reflexivity; try (apply (j_good _ _ Jh)).
    + right. intros _. change (clock (kern s) <= clock (kern s)). lia.
    + apply (FdI_keep s _ _ (j_fd _ _ Jh)); reflexivity.
    + apply (FdX_keep s _ (j_fx _ _ Jh)); try reflexivity; intros; repeat split.
Qed.

Lemma J_invalidate : forall b s, J b s -> J b (invalidate_now s) /\ Fr s (invalidate_now s) /\
  mst (invalidate_now s) = mst s /\ quit (invalidate_now s) = quit s.
Proof.
  intros b s Jh. unfold invalidate_now. set (s' := set_time s (time s) false).
  split; [|split; [apply Fr_plain; reflexivity|repeat split]].
  apply (J_upd _ _ _ Jh); try (solve [left; repeat split; first [reflexivity | intros; apply fkeep_refl]]);
    try reflexivity; try (apply (j_good _ _ Jh)).
  - right. intros V. discriminate V.
  - apply (FdI_keep s _ _ (j_fd _ _ Jh)); reflexivity.
  - apply (FdX_keep s _ (j_fx _ _ Jh)); try reflexivity; intros; repeat split.
Qed.

Lemma act_AValidate : forall b s, J b s -> Post b s (do_action s AValidate).
Proof.
  intros b s Jh. unfold do_action. cbv zeta. cbn [Post].
  destruct (J_log b s AValidate Jh (fun _ => eq_refl)) as [J1 F1].
  destruct (J_validate b _ J1) as (J2 & F2 & _).
  split; [exact J2|exact (Fr_trans _ _ _ F1 F2)].
Qed.

Lemma act_ATkFresh : forall b s j, J b s -> Post b s (do_action s (ATkFresh j)).
Proof.
  intros b s j Jh. unfold do_action. cbv zeta.
  destruct (task_registered s j); [apply Post_same; assumption|]. cbn [Post].
  set (s' := set_epoch _ _ _).
  assert (M : mst s' = mon_action (mst s) (ATkFresh j)) by apply mst_act.
  split; [|apply Fr_plain; reflexivity].
  jupd Jh M.
  - apply (FdI_keep s _ _ (j_fd _ _ Jh)); reflexivity.
  - apply (FdX_keep s _ (j_fx _ _ Jh)); try reflexivity; intros; repeat split.
Qed.

(* registering a task in any state *)
Lemma task_register_J : forall s k, 0 <= k <= 16 -> task_registered s k = false -> SiTk s ->
  let s' := task_register s k in
  SiTk s' /\ (forall y, task_registered s' y = if y =? k then true else task_registered s y) /\
  (cur s = None -> cur s' = None) /\
  exists T C, s' = set_tasks (set_numobjs s (numobjs s + 1)) T C.
Proof.
  intros s k K U [S1 S2] s'.
  assert (NI : ~ In k (tasks s ++ curl s)).
  { intros H. apply task_registered_In in H. congruence. }
  destruct (task_register_spec s k) as (T & C & E & IN & ND & CN).
  unfold s'. rewrite E.
  assert (CL : forall y, In y (tasks (set_tasks (set_numobjs s (numobjs s + 1)) T C) ++
                               curl (set_tasks (set_numobjs s (numobjs s + 1)) T C)) <->
                         In y (tasks s ++ curl s) \/ y = k) by exact IN.
  split; [split|split; [|split; [exact CN|exists T, C; reflexivity]]].
  - intros y H. apply CL in H. destruct H as [H| ->]; auto.
  - apply ND; assumption.
  - intros y. apply bool_eq_iff. rewrite task_registered_In, CL.
    destruct (Z.eqb_spec y k) as [->|N]; [tauto|]. rewrite task_registered_In. tauto.
Qed.

Lemma act_ATkReg : forall b s j, J b s -> inr16 j -> Post b s (do_action s (ATkReg j)).
Proof.
  intros b s j Jh I. unfold do_action. cbv zeta.
  destruct (task_registered s j) eqn:RG; [apply Post_same; assumption|]. cbn [Post].
  set (ex := emit s (TAct (ATkReg j))).
  destruct (task_register_J ex j ltac:(unfold inr16 in I; lia) RG (J_SiTk _ _ Jh)) as (S' & TR & CN & T & C & E).
  set (s' := task_register ex j) in *.
  assert (M : mst s' = mon_action (mst s) (ATkReg j)) by (rewrite E; apply mst_act).
  split; [|split; [left; rewrite E; reflexivity|exact CN]].
  jupd Jh M; try (solve [left; rewrite E; repeat split; first [reflexivity | intros; apply fkeep_refl]]).
  - right. intros y Y. cbn [mon_action a_tk m_tks]. unfold upd. rewrite TR.
    destruct (Z.eqb_spec y j); [reflexivity|]. apply (J_AgTk _ _ Jh). exact Y.
  - right. exact S'.
  - apply (FdI_keep s _ _ (j_fd _ _ Jh)); rewrite E; reflexivity.
  - apply (FdX_keep s _ (j_fx _ _ Jh)); rewrite E; try reflexivity; intros; repeat split.
Qed.

Lemma act_ATkUnreg : forall b s j, J b s -> inr16 j -> Post b s (do_action s (ATkUnreg j)).
Proof.
  intros b s j Jh I. unfold do_action. cbv zeta.
  destruct (task_registered s j) eqn:RG; [|apply Post_same; assumption]. cbn [Post].
  unfold task_unregister. cbv zeta.
  set (s' := set_tasks _ _ _).
  assert (M : mst s' = mon_action (mst s) (ATkUnreg j)) by apply mst_act.
  assert (CL : tasks s' ++ curl s' = remove_z j (tasks s ++ curl s)).
  { unfold s', curl. cbn [tasks cur set_tasks set_numobjs emit set_trace]. rewrite remove_z_app.
    destruct (cur s); reflexivity. }
  destruct (J_SiTk _ _ Jh) as [S1 S2].
  split; [|split; [left; reflexivity|]].
  - jupd Jh M.
    + right. intros y Y. cbn [mon_action a_tk m_tks]. unfold upd.
      destruct (Z.eqb_spec y j) as [->|N].
      * symmetry. apply not_true_is_false. rewrite task_registered_In, CL, In_remove_z. tauto.
      * rewrite (J_AgTk _ _ Jh y Y). apply bool_eq_iff. rewrite !task_registered_In, CL, In_remove_z. tauto.
    + right. split; rewrite CL.
      * intros y H. apply In_remove_z in H. apply S1. tauto.
      * apply NoDup_remove_z. assumption.
    + apply (FdI_keep s _ _ (j_fd _ _ Jh)); reflexivity.
    + apply (FdX_keep s _ (j_fx _ _ Jh)); try reflexivity; intros; repeat split.
  - unfold s'. cbn [cur set_tasks set_numobjs emit set_trace]. intros H. rewrite H. reflexivity.
Qed.

Lemma act_AEvPost : forall b s j, J b s -> inr16 j -> Post b s (do_action s (AEvPost j)).
Proof.
  intros b s j Jh I. unfold do_action. cbv zeta.
  destruct (ev_reg s j) eqn:RG; [|apply Post_same; assumption]. cbn [Post].
  set (ex := emit s (TAct (AEvPost j))).
  pose proof (J_AgEv _ _ Jh) as GE. destruct (J_SiEv _ _ Jh) as [E1 E2].
  unfold event_post. destruct (ev_on_list ex j) eqn:OL.
  - assert (M : mst ex = mon_action (mst s) (AEvPost j)) by apply mst_act.
    split; [|apply Fr_plain; reflexivity].
    jupd Jh M.
    + right. intros y Y. cbn [mon_action a_ev a_evp m_evs m_spin]. destruct (GE y Y) as [G1 G2].
      split; [exact G1|]. unfold upd. destruct (Z.eqb_spec y j); [reflexivity|]. exact G2.
    + apply (FdI_keep s _ _ (j_fd _ _ Jh)); reflexivity.
    + apply (FdX_keep s _ (j_fx _ _ Jh)); try reflexivity; intros; repeat split.
  - set (s1 := set_evlists ex (ev_pending ex ++ [j]) (ev_batch ex)).
    assert (NL : ~ In j (ev_pending s ++ ev_batch s)).
    { intros H. apply (ev_on_list_In s j) in H. change (ev_on_list s j) with (ev_on_list ex j) in H. congruence. }
    assert (EV1 : forall y, In y (ev_pending s1 ++ ev_batch s1) <-> In y (ev_pending s ++ ev_batch s) \/ y = j).
    { intros y. unfold s1. cbn [ev_pending ev_batch set_evlists ex emit set_trace]. rewrite !in_app_iff. cbn [In]. intuition. }
    assert (AGE : forall s', ev_reg s' = ev_reg s -> ev_pending s' = ev_pending s1 -> ev_batch s' = ev_batch s1 ->
              AgEv s' (mon_action (mst s) (AEvPost j)) /\ SiEv s').
    { intros s' R1 R2 R3. split.
      - intros y Y. cbn [mon_action a_ev a_evp m_evs m_spin]. destruct (GE y Y) as [G1 G2]. rewrite R1.
        split; [exact G1|]. unfold upd. destruct (Z.eqb_spec y j); [reflexivity|].
        intros H. apply G2. apply ev_on_list_In. apply ev_on_list_In in H. rewrite R2, R3 in H.
        apply EV1 in H. destruct H; [assumption|contradiction].
      - unfold SiEv. rewrite R1, R2, R3. split.
        + intros y H. apply EV1 in H. destruct H as [H| ->]; [auto|split; assumption].
        + unfold s1. cbn [ev_pending ev_batch set_evlists ex emit set_trace].
          apply NoDup_app_iff in E2. destruct E2 as (N1 & N2 & N3).
          apply NoDup_app_iff. split; [|split; [assumption|]].
          * apply NoDup_app_iff. split; [assumption|]. split; [constructor; [intros []|constructor]|].
            intros x H [H1|[]]. subst. apply NL. apply in_or_app. auto.
          * intros x H H2. apply in_app_or in H. destruct H as [H|[H|[]]]; [eauto|].
            subst. apply NL. apply in_or_app. auto. }
    destruct (match ev_pending ex with [] => true | _ :: _ => false end && negb (task_registered s1 LOCAL_TASK)) eqn:PT.
    + apply andb_true_iff in PT. destruct PT as [_ PT]. apply negb_true_iff in PT.
      destruct (task_register_J s1 LOCAL_TASK ltac:(unfold LOCAL_TASK; lia) PT (J_SiTk _ _ Jh)) as (S' & TR & CN & T & C & E).
      set (s' := task_register s1 LOCAL_TASK) in *.
      assert (M : mst s' = mon_action (mst s) (AEvPost j)) by (rewrite E; apply mst_act).
      destruct (AGE s') as [A1 A2]; try (rewrite E; reflexivity).
      split; [|split; [left; rewrite E; reflexivity|exact CN]].
      jupd Jh M; try (solve [left; rewrite E; repeat split; first [reflexivity | intros; apply fkeep_refl]]).
      * right. intros y Y. cbn [mon_action a_tk m_evs m_spin]. rewrite TR.
        destruct (Z.eqb_spec y LOCAL_TASK) as [->|N]; [unfold inr16, LOCAL_TASK in Y; lia|].
        apply (J_AgTk _ _ Jh). exact Y.
      * right. exact A1.
      * right. exact S'.
      * right. exact A2.
      * apply (FdI_keep s _ _ (j_fd _ _ Jh)); rewrite E; reflexivity.
      * apply (FdX_keep s _ (j_fx _ _ Jh)); rewrite E; try reflexivity; intros; repeat split.
    + assert (M : mst s1 = mon_action (mst s) (AEvPost j)) by apply mst_act.
      destruct (AGE s1) as [A1 A2]; try reflexivity.
      split; [|apply Fr_plain; reflexivity].
      jupd Jh M.
      * right. exact A1.
      * right. exact A2.
      * apply (FdI_keep s _ _ (j_fd _ _ Jh)); reflexivity.
      * apply (FdX_keep s _ (j_fx _ _ Jh)); try reflexivity; intros; repeat split.
Qed.

(* ---------- timers ---------- *)
Lemma tmid_pos : forall j, 0 <= j -> Zpos (tmid j) = j + 1.
Proof. intros j H. unfold tmid. apply Z2Pos.id. lia. Qed.

Lemma tmid_inj : forall i j, 0 <= i -> 0 <= j -> tmid i = tmid j -> i = j.
Proof. intros i j A B E. unfold tmid in E. apply Z2Pos.inj in E; lia. Qed.

Lemma treg_false : forall s j, timer_registered s j = false -> HeapModel.tidx (heap s) (tmid j) = -1.
Proof. intros s j H. unfold timer_registered in H. apply negb_false_iff in H. apply Z.eqb_eq in H. exact H. Qed.

Lemma treg_true : forall s j, timer_registered s j = true -> HeapModel.tidx (heap s) (tmid j) <> -1.
Proof. intros s j H. unfold timer_registered in H. apply negb_true_iff in H. apply Z.eqb_neq in H. exact H. Qed.

Lemma treg_iff : forall h h' t t', (HeapModel.tidx h' t' = -1 <-> HeapModel.tidx h t = -1) ->
  negb (HeapModel.tidx h' t' =? -1) = negb (HeapModel.tidx h t =? -1).
Proof.
  intros h h' t t' H. f_equal. destruct (Z.eqb_spec (HeapModel.tidx h' t') (-1)), (Z.eqb_spec (HeapModel.tidx h t) (-1)); tauto.
Qed.

Lemma J_heap_upd : forall b s a h' n, J b s ->
  (forall m, a_fd (mon_action m a) = a_fd m /\ a_fh (mon_action m a) = a_fh m /\ a_ck (mon_action m a) = a_ck m /\
             a_tk (mon_action m a) = a_tk m /\ a_ev (mon_action m a) = a_ev m /\ a_evp (mon_action m a) = a_evp m /\
             a_rw (mon_action m a) = a_rw m /\ a_quit (mon_action m a) = a_quit m /\ a_clk (mon_action m a) = a_clk m) ->
  let s' := set_numobjs (set_heap (emit s (TAct a)) h') n in
  AgTm s' (mon_action (mst s) a) -> SiTm s' -> J b s' /\ Fr s s'.
Proof.
  intros b s a h' n Jh V s' A S.
  assert (M : mst s' = mon_action (mst s) a) by apply mst_act.
  destruct (V (mst s)) as (V1 & V2 & V3 & V4 & V5 & V6 & V7 & V8 & V9).
  split; [|apply Fr_plain; reflexivity].
  jupd Jh M.
  - left. repeat split; try assumption.
  - right. exact A.
  - left. repeat split; assumption.
  - left. repeat split; assumption.
  - left. repeat split; assumption.
  - left. repeat split; assumption.
  - left. repeat split; assumption.
  - right. exact S.
  - apply (FdI_keep s _ _ (j_fd _ _ Jh)); reflexivity.
  - apply (FdX_keep s _ (j_fx _ _ Jh)); try reflexivity; intros; repeat split.
Qed.

Lemma tm_reg_post : forall b s j e, J b s -> inr16 j -> timer_registered s j = false ->
  Post b s (lift_heap (emit s (TAct (ATmRegAbs j e)))
                      (HeapModel.register (HeapModel.set_exp (heap s) (tmid j) e) (tmid j))).
Proof.
  intros b s j e Jh I U.
  destruct (J_SiTm _ _ Jh) as [HI HR]. pose proof (J_AgTm _ _ Jh) as GT.
  destruct (heap_reg_spec (heap s) (tmid j) e HI (treg_false _ _ U)) as (h' & R & I' & T1 & T2 & T3).
  rewrite R. unfold lift_heap. cbn [Post].
  apply J_heap_upd; [assumption|intros; repeat split| |].
  - intros y Y. cbn [mon_action a_tm a_exp m_tms]. unfold upd, timer_registered.
    cbn [heap set_numobjs set_heap].
    destruct (Z.eqb_spec y j) as [->|N].
    + split; [symmetry; apply negb_true_iff; apply Z.eqb_neq; exact T1|]. intros _. symmetry. exact T2.
    + assert (NT : tmid y <> tmid j).
      { intros E. apply N. apply tmid_inj; [apply Y|apply I|exact E]. }
      destruct (T3 _ NT) as [T4 T5]. destruct (GT y Y) as [G1 G2]. unfold timer_registered in G1, G2.
      rewrite (treg_iff _ _ _ _ T4), T5. split; assumption.
  - split; cbn [heap set_numobjs set_heap]; [assumption|].
    intros t H. destruct (Pos.eq_dec t (tmid j)) as [->|N].
    + rewrite tmid_pos by apply I. unfold inr16 in I. lia.
    + apply HR. intros E. apply H. apply (proj1 (T3 t N)). exact E.
Qed.

Lemma act_ATmRegAbs : forall b s j e, J b s -> inr16 j -> Post b s (do_action s (ATmRegAbs j e)).
Proof.
  intros b s j e Jh I. unfold do_action. cbv zeta.
  destruct (timer_registered s j) eqn:RG; [apply Post_same; assumption|].
  apply tm_reg_post; assumption.
Qed.

Lemma act_ATmRegRel : forall b s j d, J b s -> inr16 j -> Post b s (do_action s (ATmRegRel j d)).
Proof.
  intros b s j d Jh I. unfold do_action. cbv zeta.
  destruct (timer_registered s j) eqn:RG; [apply Post_same; assumption|].
  destruct (J_validate b s Jh) as (J1 & F1 & M1 & _).
  assert (RG1 : timer_registered (validate_now s) j = false).
  { unfold timer_registered, validate_now in *. destruct (time_valid s); exact RG. }
  eapply Post_fr; [exact F1|]. apply tm_reg_post; assumption.
Qed.

Lemma act_ATmUnreg : forall b s j, J b s -> inr16 j -> Post b s (do_action s (ATmUnreg j)).
Proof.
  intros b s j Jh I. unfold do_action. cbv zeta.
  destruct (timer_registered s j) eqn:RG; [|apply Post_same; assumption].
  destruct (J_SiTm _ _ Jh) as [HI HR]. pose proof (J_AgTm _ _ Jh) as GT.
  destruct (heap_unreg_spec (heap s) (tmid j) HI (treg_true _ _ RG)) as (h' & R & I' & T1 & T2 & T3).
  rewrite R. unfold lift_heap. cbn [Post].
  apply J_heap_upd; [assumption|intros; repeat split| |].
  - intros y Y. cbn [mon_action a_tm a_exp m_tms]. unfold upd, timer_registered.
    cbn [heap set_numobjs set_heap].
    destruct (Z.eqb_spec y j) as [->|N].
    + rewrite T1. cbn. split; [reflexivity|discriminate].
    + assert (NT : tmid y <> tmid j).
      { intros E. apply N. apply tmid_inj; [apply Y|apply I|exact E]. }
      destruct (GT y Y) as [G1 G2]. unfold timer_registered in G1, G2.
      rewrite (treg_iff _ _ _ _ (T2 _ NT)), T3. split; assumption.
  - split; cbn [heap set_numobjs set_heap]; [assumption|].
    intros t H. destruct (Pos.eq_dec t (tmid j)) as [->|N]; [contradiction|].
    apply HR. intros E. apply H. apply (proj2 (T2 t N)). exact E.
Qed.

(* ---------- user descriptors ---------- *)
Record SameSt (s s' : core) : Prop := {
  st_heap : heap s' = heap s;
  st_time : time s' = time s;
  st_tv : time_valid s' = time_valid s;
  st_tasks : tasks s' = tasks s;
  st_cur : cur s' = cur s;
  st_evp : ev_pending s' = ev_pending s;
  st_evb : ev_batch s' = ev_batch s;
  st_evc : ev_count s' = ev_count s;
  st_evr : ev_reg s' = ev_reg s;
  st_ur : use_raw s' = use_raw s;
  st_rw : rw_reg s' = rw_reg s;
  st_quit : quit s' = quit s;
  st_clock : clock (kern s') = clock (kern s) }.

Lemma Same_St : forall s s', Same s s' -> SameSt s s'.
Proof. intros s s' []. constructor; assumption. Qed.

Lemma SameSt_emit_l : forall s e s', SameSt (emit s e) s' -> SameSt s s'.
Proof. intros s e s' []. constructor; assumption. Qed.

Lemma SameSt_emit_r : forall s e s', SameSt s s' -> SameSt s (emit s' e).
Proof. intros s e s' []. constructor; assumption. Qed.

Definition mrest (m' m : mon) : Prop :=
  a_tm m' = a_tm m /\ a_exp m' = a_exp m /\ a_tk m' = a_tk m /\ a_ev m' = a_ev m /\ a_evp m' = a_evp m /\
  a_rw m' = a_rw m /\ a_quit m' = a_quit m /\ a_clk m' = a_clk m /\ a_main m' = a_main m.

Lemma J_fd_upd : forall b s s', J b s -> SameSt s s' ->
  (handled s' = handled s \/ handled s' = None) -> mrest (mst s') (mst s) -> Goodm (mst s') ->
  AgFd s' (mst s') -> FdI s' (-1) -> FdX s' -> J b s' /\ Fr s s'.
Proof.
  intros b s s' Jh [] H (R1 & R2 & R3 & R4 & R5 & R6 & R7 & R8 & R9) G A FI FX.
  split; [|split; [assumption|intros E; congruence]].
  apply (J_upd _ _ _ Jh); try assumption.
  - right. assumption.
  - left. auto.
  - left. auto.
  - left. repeat split; assumption.
  - left. auto.
  - left. auto.
  - left. auto.
  - left. assumption.
  - left. auto.
  - left. auto.
  - left. auto.
Qed.

Lemma AgFd_top : forall s e s' k m m', AgFd s m -> FdTop (emit s e) s' k ->
  (forall y, y <> k -> a_fd m' y = a_fd m y) -> a_fd m' k = registered (fdt s' k) ->
  a_fh m' = a_fh m -> a_ck m' = a_ck m -> AgFd s' m'.
Proof.
  intros s e s' k m m' A [T1 T2 T3 T4 T5] F1 F2 F3 F4 y Y.
  destruct (A y Y) as (A1 & A2 & A3 & A4 & A5).
  destruct (T2 y) as (_ & H1 & H2 & H3 & H4). change (fdt (emit s e) y) with (fdt s y) in *.
  rewrite F3, F4, H1, H2, H3, H4. split; [|auto].
  destruct (Z.eq_dec y k) as [->|N]; [assumption|]. rewrite F1 by assumption. rewrite T3 by assumption. exact A1.
Qed.

Lemma FdX_top : forall s e s' k, FdX s -> FdTop (emit s e) s' k -> inr16 k -> FdX s'.
Proof.
  intros s e s' k X [T1 T2 T3 T4 T5] K.
  apply (FdX_keep s s' X).
  - intros y. apply hsame_hnd. apply T2.
  - intros y Y. apply T3. unfold inr16 in K. lia.
  - apply (sm_rw _ _ T1).
  - apply (sm_ur _ _ T1).
  - apply (sm_evc _ _ T1).
  - apply (sm_evr _ _ T1).
Qed.

Lemma act_AFdReg : forall b s i, J b s -> inr16 i -> Post b s (do_action s (AFdReg i)).
Proof.
  intros b s i Jh I. unfold do_action. cbv zeta. unfold getfd.
  destruct (registered (fdt s i)) eqn:RG; [apply Post_same; assumption|].
  destruct (k_open (kern s) (fdnum (fdt s i))); [|apply Post_same; assumption].
  set (ex := emit s (TAct (AFdReg i))).
  assert (K : 0 <= i <= 32) by (unfold inr16 in I; lia).
  pose proof (fd_register_res ex i (FdI_emit _ _ _ (j_fd _ _ Jh)) K RG) as Q.
  assert (GX : Goodm (mst ex)) by (unfold ex; rewrite mst_emit; apply good_TAct; apply (j_good _ _ Jh)).
  destruct (fd_register ex i) as [s'|s']; cbn [FdRes Post] in *; [|eapply HaltOf_good; eassumption].
  destruct Q as (T & R & FI).
  assert (M : mst s' = mon_action (mst s) (AFdReg i)).
  { rewrite (sm_mst _ _ (ft_same _ _ _ T)). apply mst_act. }
  apply (J_fd_upd b s s' Jh).
  - apply (SameSt_emit_l s (TAct (AFdReg i))). apply Same_St. apply (ft_same _ _ _ T).
  - apply (ft_handled _ _ _ T).
  - rewrite M. repeat split.
  - rewrite M. apply good_action. apply (j_good _ _ Jh).
  - rewrite M. apply (AgFd_top s _ s' i (mst s) _ (J_AgFd _ _ Jh) T); try reflexivity.
    + intros y N. cbn [mon_action a_fd m_fds]. unfold upd. destruct (Z.eqb_spec y i); [contradiction|reflexivity].
    + cbn [mon_action a_fd m_fds]. unfold upd. rewrite Z.eqb_refl, R. reflexivity.
  - assumption.
  - apply (FdX_top s _ s' i (j_fx _ _ Jh) T I).
Qed.

Lemma act_AFdUnreg : forall b s i, J b s -> inr16 i -> Post b s (do_action s (AFdUnreg i)).
Proof.
  intros b s i Jh I. unfold do_action. cbv zeta. unfold getfd.
  destruct (registered (fdt s i)) eqn:RG; [|apply Post_same; assumption].
  set (ex := emit s (TAct (AFdUnreg i))).
  assert (K : 0 <= i <= 32) by (unfold inr16 in I; lia).
  pose proof (fd_unregister_res ex i (FdI_emit _ _ _ (j_fd _ _ Jh)) K) as Q.
  assert (GX : Goodm (mst ex)) by (unfold ex; rewrite mst_emit; apply good_TAct; apply (j_good _ _ Jh)).
  destruct (fd_unregister ex i) as [s'|s']; cbn [FdRes Post] in *; [|eapply HaltOf_good; eassumption].
  destruct Q as (T & R & FI & _).
  assert (M : mst s' = mon_action (mst s) (AFdUnreg i)).
  { rewrite (sm_mst _ _ (ft_same _ _ _ T)). apply mst_act. }
  apply (J_fd_upd b s s' Jh).
  - apply (SameSt_emit_l s (TAct (AFdUnreg i))). apply Same_St. apply (ft_same _ _ _ T).
  - apply (ft_handled _ _ _ T).
  - rewrite M. repeat split.
  - rewrite M. apply good_action. apply (j_good _ _ Jh).
  - rewrite M. apply (AgFd_top s _ s' i (mst s) _ (J_AgFd _ _ Jh) T); try reflexivity.
    + intros y N. cbn [mon_action a_fd m_fds m_iter]. unfold upd. destruct (Z.eqb_spec y i); [contradiction|reflexivity].
    + cbn [mon_action a_fd m_fds m_iter]. unfold upd. rewrite Z.eqb_refl, R. reflexivity.
  - assumption.
  - apply (FdX_top s _ s' i (j_fx _ _ Jh) T I).
Qed.

Lemma act_AFdTry : forall b s i, J b s -> inr16 i -> Post b s (do_action s (AFdTry i)).
Proof.
  intros b s i Jh I. unfold do_action. cbv zeta. unfold getfd.
  destruct (registered (fdt s i)) eqn:RG; [apply Post_same; assumption|].
  set (ex := emit s (TAct (AFdTry i))).
  assert (K : 0 <= i <= 32) by (unfold inr16 in I; lia).
  pose proof (fd_register_try_res ex i (FdI_emit _ _ _ (j_fd _ _ Jh)) K RG) as Q.
  assert (GX : Goodm (mst ex)) by (unfold ex; rewrite mst_emit; apply good_TAct; apply (j_good _ _ Jh)).
  destruct (fd_register_try ex i) as [r failed]. cbn [fst snd] in Q.
  destruct r as [s1|s1]; cbn [FdRes Post bind] in *; [|eapply HaltOf_good; eassumption].
  destruct Q as (T & R & FI).
  set (rc := if failed then -1 else 0).
  set (s' := emit s1 (TRes 0 i rc)).
  assert (M1 : mst s1 = mst s).
  { rewrite (sm_mst _ _ (ft_same _ _ _ T)). apply mst_act. }
  assert (M : mst s' = mon_step (mst s) (TRes 0 i rc)) by (unfold s'; rewrite mst_emit, M1; reflexivity).
  assert (MV : mst s' = if failed then mst s else m_fds (mst s) (upd (a_fd (mst s)) i true) (a_fh (mst s)) (a_ck (mst s))).
  { rewrite M. unfold rc. destruct failed; reflexivity. }
  apply (J_fd_upd b s s' Jh).
  - apply SameSt_emit_r. apply (SameSt_emit_l s (TAct (AFdTry i))). apply Same_St. apply (ft_same _ _ _ T).
  - apply (ft_handled _ _ _ T).
  - rewrite MV. destruct failed; repeat split.
  - rewrite M. apply good_TRes. apply (j_good _ _ Jh).
  - change (AgFd s1 (mst s')). rewrite MV.
    apply (AgFd_top s _ s1 i (mst s) _ (J_AgFd _ _ Jh) T).
    + intros y N. destruct failed; [reflexivity|]. cbn [a_fd m_fds]. unfold upd.
      destruct (Z.eqb_spec y i); [contradiction|reflexivity].
    + rewrite R. destruct failed; cbn [negb].
      * rewrite (proj1 (J_AgFd _ _ Jh i I)). exact RG.
      * cbn [a_fd m_fds]. unfold upd. rewrite Z.eqb_refl. reflexivity.
    + destruct failed; reflexivity.
    + destruct failed; reflexivity.
  - apply FdI_emit. assumption.
  - apply FdX_emit. apply (FdX_top s _ s1 i (j_fx _ _ Jh) T I).
Qed.

Lemma act_AFdSetH : forall b s i band h, J b s -> inr16 i -> 0 <= band <= 2 ->
  match h with Some x => 0 <= x < 16 | None => True end -> Post b s (do_action s (AFdSetH i band h)).
Proof.
  intros b s i band h Jh I B HW. unfold do_action. cbv zeta.
  set (ex := emit s (TAct (AFdSetH i band h))).
  assert (K : 0 <= i <= 32) by (unfold inr16 in I; lia).
  pose proof (fd_set_handler_res ex i band h (FdI_emit _ _ _ (j_fd _ _ Jh)) K) as Q. cbv zeta in Q.
  assert (GX : Goodm (mst ex)) by (unfold ex; rewrite mst_emit; apply good_TAct; apply (j_good _ _ Jh)).
  destruct (fd_set_handler ex i band h) as [s'|s']; cbn [FdRes Post] in *; [|eapply HaltOf_good; eassumption].
  destruct Q as (W & FI).
  change (fdt ex i) with (fdt s i) in W.
  set (f := fdt s i) in *.
  set (f' := if band =? 0 then fd_with_handlers f h (h_out f) (h_err f)
             else if band =? 1 then fd_with_handlers f (h_in f) h (h_err f)
             else fd_with_handlers f (h_in f) (h_out f) h) in *.
  assert (M : mst s' = mon_action (mst s) (AFdSetH i band h)).
  { rewrite (sm_mst _ _ (iw_same _ _ W)). apply mst_act. }
  assert (FD : forall y, fkeep (fdt s' y) (if y =? i then f' else fdt s y)).
  { intros y. pose proof (iw_fd _ _ W y) as Q. rewrite fdt_putfd in Q. exact Q. }
  apply (J_fd_upd b s s' Jh).
  - apply (SameSt_emit_l s (TAct (AFdSetH i band h))). apply Same_St.
    eapply Same_trans; [|apply (iw_same _ _ W)]. constructor; reflexivity.
  - left. apply (iw_handled _ _ W).
  - rewrite M. repeat split.
  - rewrite M. apply good_action. apply (j_good _ _ Jh).
  - rewrite M. intros y Y. destruct (J_AgFd _ _ Jh y Y) as (A1 & A2 & A3 & A4 & A5).
    destruct (FD y) as [(_ & H1 & H2 & H3 & H4) H5]. rewrite H1, H2, H3, H4, H5.
    cbn [mon_action a_fd a_fh a_ck m_fds m_iter]. unfold upd2.
    destruct (Z.eqb_spec y i) as [->|N]; cbn [andb].
    + fold f in A1, A2, A3, A4, A5. unfold f'.
      destruct (Z.eqb_spec band 0) as [->|B0]; [cbn; auto|].
      destruct (Z.eqb_spec band 1) as [->|B1]; [cbn; auto|].
      assert (band = 2) by lia. subst band. cbn. auto.
    + auto.
  - assumption.
  - apply (FdX_user s s' (j_fx _ _ Jh)).
    + intros y Y. destruct (FD y) as [HS RS]. destruct (Z.eqb_spec y i) as [->|N]; [contradiction|].
      split; [apply hsame_hnd; assumption|assumption].
    + intros y Y. destruct (FD y) as [(_ & H1 & H2 & H3 & _) _].
      destruct (fx_userh _ (j_fx _ _ Jh) y Y) as (P1 & P2 & P3). fold f in P1, P2, P3.
      unfold hand_ok. rewrite H1, H2, H3.
      destruct (Z.eqb_spec y i) as [->|N]; [|auto]. fold f in P1, P2, P3. unfold f'.
      destruct (band =? 0); [|destruct (band =? 1)]; cbn [h_in h_out h_err fd_with_handlers];
        repeat split; auto; try (subst h; cbn in HW; lia);
        try (match goal with E : h_in f = Some ?x |- _ => pose proof (P1 x E); lia end);
        try (match goal with E : h_out f = Some ?x |- _ => pose proof (P2 x E); lia end);
        try (match goal with E : h_err f = Some ?x |- _ => pose proof (P3 x E); lia end).
    + apply (sm_rw _ _ (iw_same _ _ W)).
    + apply (sm_ur _ _ (iw_same _ _ W)).
    + apply (sm_evc _ _ (iw_same _ _ W)).
    + apply (sm_evr _ _ (iw_same _ _ W)).
Qed.

(* ---------- raw events and events: the internal machinery ---------- *)
Lemma cnt_gen_upd : forall (f : Z -> bool) j v n lo, lo <= j < lo + Z.of_nat n ->
  Z.of_nat (length (filter (upd f j v) (zseq lo n))) =
  Z.of_nat (length (filter f (zseq lo n))) + (if v then 1 else 0) - (if f j then 1 else 0).
Proof.
  intros f j v n. induction n as [|n IH]; intros lo R; [lia|].
  cbn [zseq filter]. unfold upd at 1. destruct (Z.eqb_spec lo j) as [E|N].
  - subst lo.
    assert (Q : filter (upd f j v) (zseq (j + 1) n) = filter f (zseq (j + 1) n)).
    { apply filter_ext_in. intros a H. apply In_zseq in H. unfold upd. destruct (Z.eqb_spec a j); [lia|reflexivity]. }
    rewrite Q. destruct v, (f j); cbn [length]; lia.
  - specialize (IH (lo + 1) ltac:(lia)). destruct (f lo); cbn [length]; lia.
Qed.

Lemma cnt_upd_true : forall f j, inr16 j -> f j = false -> cnt (upd f j true) = cnt f + 1.
Proof. intros f j I E. unfold cnt. rewrite (cnt_gen_upd f j true 16 0) by (unfold inr16 in I; lia). rewrite E. lia. Qed.

Lemma cnt_upd_false : forall f j, inr16 j -> f j = true -> cnt (upd f j false) = cnt f - 1.
Proof. intros f j I E. unfold cnt. rewrite (cnt_gen_upd f j false 16 0) by (unfold inr16 in I; lia). rewrite E. lia. Qed.

Lemma cnt_nonneg : forall f, 0 <= cnt f.
Proof. intros. unfold cnt. lia. Qed.

Lemma cnt_pos : forall f j, inr16 j -> f j = true -> 1 <= cnt f.
Proof.
  intros f j I E. pose proof (cnt_upd_false f j I E). pose proof (cnt_nonneg (upd f j false)). lia.
Qed.

Definition FdXa (s : core) : Prop :=
  (forall j, 0 <= j <= 16 -> registered (fdt s (16 + j)) = true -> rw_reg s j = true) /\
  (forall k, 16 <= k <= 32 -> hand_ok (fdt s k) (fun h => h = 1000 + (k - 16))) /\
  (forall k, 0 <= k < 16 -> hand_ok (fdt s k) (fun h => 0 <= h < 16)).

Lemma FdX_split : forall s, FdX s <->
  FdXa s /\ (rw_reg s 16 = true -> use_raw s = true /\ ev_count s <> 0) /\ ev_count s = cnt (ev_reg s).
Proof.
  intros s. split.
  - intros [X1 X2 X3 X4 X5]. split; [split; [exact X1|split; [exact X2|exact X3]]|]. split; [exact X4|exact X5].
  - intros ((X1 & X2 & X3) & X4 & X5). constructor; assumption.
Qed.

(* a step of the internal machinery: nothing the user objects or the tracker can see changes *)
Record RawStep (s s' : core) : Prop := {
  rs_heap : heap s' = heap s;
  rs_time : time s' = time s;
  rs_tv : time_valid s' = time_valid s;
  rs_tasks : tasks s' = tasks s;
  rs_cur : cur s' = cur s;
  rs_quit : quit s' = quit s;
  rs_method : method s' = method s;
  rs_clock : clock (kern s') = clock (kern s);
  rs_flt : flt (kern s') = flt (kern s);
  rs_mst : mst s' = mst s;
  rs_user : forall i, inr16 i -> fkeep (fdt s' i) (fdt s i);
  rs_handled : handled s' = handled s \/ handled s' = None }.

Lemma RawStep_refl : forall s, RawStep s s.
Proof. intros. constructor; auto. intros; apply fkeep_refl. Qed.

Lemma RawStep_trans : forall a b c, RawStep a b -> RawStep b c -> RawStep a c.
Proof.
  intros a b c [A1 A2 A3 A4 A5 A6 A7 A8 A9 A10 A11 A12] [B1 B2 B3 B4 B5 B6 B7 B8 B9 B10 B11 B12].
  constructor; try congruence.
  - intros i I. eapply fkeep_trans; [apply B11|apply A11]; assumption.
  - destruct B12 as [B12|B12]; [rewrite B12; assumption|auto].
Qed.

Lemma RawStep_is_epoll : forall s s', RawStep s s' -> is_epoll s' = is_epoll s.
Proof. intros s s' R. unfold is_epoll. rewrite (rs_method _ _ R). reflexivity. Qed.

(* the untracked rest *)
Record EvSame (s s' : core) : Prop := {
  es_evp : ev_pending s' = ev_pending s;
  es_evb : ev_batch s' = ev_batch s;
  es_evc : ev_count s' = ev_count s;
  es_evr : ev_reg s' = ev_reg s;
  es_ur : use_raw s' = use_raw s }.

Lemma EvSame_refl : forall s, EvSame s s. Proof. intros; constructor; reflexivity. Qed.
Lemma EvSame_trans : forall a b c, EvSame a b -> EvSame b c -> EvSame a c.
Proof. intros a b c [] []. constructor; congruence. Qed.

Lemma ent_ok_ext : forall s s' x e, ent_ok s x e -> method s' = method s -> flt (kern s') = flt (kern s) ->
  (forall i, gsame (fdt s' i) (fdt s i)) -> ent_ok s' x e.
Proof.
  intros s s' x e [D|[(D & D1 & D2)|(D & D1 & D2)]] M F G.
  - left; assumption.
  - right; left. rewrite M, F. auto.
  - right; right. destruct (G (en_data e)) as (G1 & G2 & G3 & G4). rewrite G2, G3.
    split; [eapply okk_ext; eassumption|auto].
Qed.

(* kernel-side step: descriptors untouched, the epoll set only loses entries or gains loop-internal ones *)
Lemma FdI_kstep : forall s s' x, FdI s x ->
  active s' = active s -> handled s' = handled s -> notify s' = notify s -> method s' = method s ->
  pfds s' = pfds s -> pkeys s' = pkeys s -> fdt s' = fdt s -> flt (kern s') = flt (kern s) ->
  (forall e, In e (ep (kern s')) -> In e (ep (kern s)) \/ (is_epoll s = true /\ en_data e = -1)) ->
  FdI s' x.
Proof.
  intros s s' x I A H N M PF PK FD F E.
  apply (FdI_ext_ep s s' x I); try congruence.
  - left. assumption.
  - intros i. rewrite FD. auto.
  - intros e He. destruct (E e He) as [He0|[_ D]]; [|left; assumption].
    apply (ent_ok_ext s s' x e (fi_ep s x I e He0)); try assumption. intros i. rewrite FD. apply gsame_refl.
  - intros IE. destruct (fi_nopoll s x I IE) as [_ E0].
    destruct (ep (kern s')) as [|e l] eqn:Q; [reflexivity|].
    destruct (E e (or_introl eq_refl)) as [He0|[IE1 _]]; [rewrite E0 in He0; destruct He0|congruence].
Qed.

Lemma do_close_step : forall s x fd, FdI s x ->
  let s' := do_close s fd in
  RawStep s s' /\ EvSame s s' /\ FdI s' x /\ fdt s' = fdt s /\ rw_reg s' = rw_reg s /\ handled s' = handled s /\
  efd_raw s' = efd_raw s /\ rw_rfd s' = rw_rfd s /\ rw_wfd s' = rw_wfd s /\ active_fd s' = active_fd s /\
  active_ref s' = active_ref s /\ active_wr s' = active_wr s.
Proof.
  intros s x fd I s'. unfold s', do_close.
  destruct (k_close_spec (kern s) fd) as (C & F & E).
  destruct (k_close (kern s) fd) as [k1 ok]. cbn [fst] in C, F, E.
  assert (G : forall s1, s1 = set_kern s k1 \/ s1 = emit (set_kern s k1) (TKClose fd) ->
    RawStep s s1 /\ EvSame s s1 /\ FdI s1 x /\ fdt s1 = fdt s /\ rw_reg s1 = rw_reg s /\ handled s1 = handled s /\
    efd_raw s1 = efd_raw s /\ rw_rfd s1 = rw_rfd s /\ rw_wfd s1 = rw_wfd s /\ active_fd s1 = active_fd s /\
    active_ref s1 = active_ref s /\ active_wr s1 = active_wr s).
  { intros s1 [-> | ->].
    - split; [constructor; try reflexivity; auto; intros; apply fkeep_refl|].
      split; [constructor; reflexivity|]. split; [|repeat split].
      apply (FdI_kstep s _ x I); try reflexivity; auto.
    - split; [constructor; try reflexivity; auto; [rewrite mst_emit; reflexivity|intros; apply fkeep_refl]|].
      split; [constructor; reflexivity|]. split; [|repeat split].
      apply (FdI_kstep s _ x I); try reflexivity; auto. }
  destruct ok; apply G; auto.
Qed.

(* only the kernel (not its epoll set) and library-internal scalars change *)
Record KStep (s s' : core) : Prop := {
  ks_raw : RawStep s s';
  ks_ev : EvSame s s';
  ks_fdt : fdt s' = fdt s;
  ks_rw : rw_reg s' = rw_reg s;
  ks_handled : handled s' = handled s;
  ks_active : active s' = active s;
  ks_notify : notify s' = notify s;
  ks_pfds : pfds s' = pfds s;
  ks_pkeys : pkeys s' = pkeys s;
  ks_ep : ep (kern s') = ep (kern s) }.

Lemma KStep_refl : forall s, KStep s s.
Proof. intros. constructor; try reflexivity; [apply RawStep_refl|apply EvSame_refl]. Qed.

Lemma KStep_trans : forall a b c, KStep a b -> KStep b c -> KStep a c.
Proof.
  intros a b c [A1 A2 A3 A4 A5 A6 A7 A8 A9 A10] [B1 B2 B3 B4 B5 B6 B7 B8 B9 B10].
  constructor; try congruence; [eapply RawStep_trans; eassumption|eapply EvSame_trans; eassumption].
Qed.

Lemma KStep_FdI : forall s s' x, KStep s s' -> FdI s x -> FdI s' x.
Proof.
  intros s s' x [A1 A2 A3 A4 A5 A6 A7 A8 A9 A10] I.
  apply (FdI_keep s s' x I); try assumption; [apply (rs_method _ _ A1)|apply (rs_flt _ _ A1)].
Qed.

Lemma KStep_FdXa : forall s s', KStep s s' -> FdXa s -> FdXa s'.
Proof.
  intros s s' [A1 A2 A3 A4 A5 A6 A7 A8 A9 A10] (X1 & X2 & X3). unfold FdXa. rewrite A3, A4. auto.
Qed.

Lemma KStep_kern_efd : forall s k1 a b, ksame (kern s) k1 -> KStep s (set_efd (set_kern s k1) a b).
Proof.
  intros s k1 a b (C & F & E).
  constructor; try reflexivity; try assumption.
  - constructor; try reflexivity; auto. intros; apply fkeep_refl.
  - constructor; reflexivity.
Qed.

Lemma KStep_kern : forall s k1, ksame (kern s) k1 -> KStep s (set_kern s k1).
Proof.
  intros s k1 (C & F & E).
  constructor; try reflexivity; try assumption.
  - constructor; try reflexivity; auto. intros; apply fkeep_refl.
  - constructor; reflexivity.
Qed.

Definition RawRegPost (s : core) (j : Z) (rf : res * bool) : Prop :=
  FdRes s (fst rf) (fun s' => RawStep s s' /\ EvSame s s' /\ FdI s' (-1) /\ FdXa s' /\
                             rw_reg s' = (if snd rf then rw_reg s else upd (rw_reg s) j true)).

Lemma raw_fail_post : forall s s3 j, KStep s s3 -> FdI s (-1) -> FdXa s -> RawRegPost s j (R s3, true).
Proof.
  intros s s3 j K I X. unfold RawRegPost. cbn [fst snd FdRes].
  split; [apply (ks_raw _ _ K)|]. split; [apply (ks_ev _ _ K)|].
  split; [eapply KStep_FdI; eassumption|]. split; [eapply KStep_FdXa; eassumption|apply (ks_rw _ _ K)].
Qed.

Lemma raw_tail_post : forall s s3 j rfd wfd, KStep s s3 -> FdI s (-1) -> FdXa s -> 0 <= j <= 16 ->
  rw_reg s j = false ->
  let key := RAW_KEY j in
  let f := fd_with_handlers (fd_fresh rfd (1000 + j)) (Some (H_RAW j)) None None in
  RawRegPost s j (bind (fd_register (putfd s3 key f) key)
                       (fun s => R (set_rw s (upd (rw_reg s) j true) (upd (rw_rfd s) j rfd) (upd (rw_wfd s) j wfd))),
                  false).
Proof.
  intros s s3 j rfd wfd K I X Jr U key f. unfold RawRegPost. cbn [fst snd].
  pose proof (KStep_FdI _ _ _ K I) as I3. pose proof (KStep_FdXa _ _ K X) as X3.
  destruct X3 as (X1 & X2 & X3).
  assert (KR : 0 <= key <= 32) by (unfold key, RAW_KEY; lia).
  assert (U3 : registered (fdt s3 key) = false).
  { destruct (registered (fdt s3 key)) eqn:E; [|reflexivity]. unfold key, RAW_KEY in E.
    apply X1 in E; [|assumption]. rewrite (ks_rw _ _ K) in E. congruence. }
  pose proof (FdI_noref s3 key I3 ltac:(lia) U3) as NR.
  set (s4 := putfd s3 key f).
  assert (I4 : FdI s4 (-1)) by (apply FdI_putfd_noref; assumption).
  assert (U4 : registered (fdt s4 key) = false) by (unfold s4; rewrite fdt_putfd, Z.eqb_refl; reflexivity).
  pose proof (fd_register_res s4 key I4 KR U4) as Q.
  assert (M4 : mst s4 = mst s) by (apply (rs_mst _ _ (ks_raw _ _ K))).
  destruct (fd_register s4 key) as [s5|s5]; cbn [bind FdRes] in *; [|eapply HaltOf_same; eassumption].
  destruct Q as (T & R5 & I5).
  destruct T as [T1 T2 T3 T4 T5].
  set (s6 := set_rw s5 _ _ _).
  assert (FD6 : forall y, fdt s6 y = fdt s5 y) by reflexivity.
  assert (FD4 : forall y, y <> key -> fdt s4 y = fdt s y).
  { intros y N. unfold s4. rewrite fdt_putfd. destruct (Z.eqb_spec y key); [contradiction|].
    rewrite (ks_fdt _ _ K). reflexivity. }
  destruct (ks_raw _ _ K) as [A1 A2 A3 A4 A5 A6 A7 A8 A9 A10 A11 A12].
  assert (T1' : Same s3 s5) by (eapply Same_trans; [|exact T1]; constructor; reflexivity).
  clear T1. rename T1' into T1.
  destruct T1 as [B1 B2 B3 B4 B5 B6 B7 B8 B9 B10 B11 B12 B13 B14 B15 B16].
  split; [|split; [|split; [|split]]].
  - constructor; cbn [s6 set_rw heap time time_valid tasks cur quit method kern handled];
      try congruence.
    + change (mst s5 = mst s). congruence.
    + intros y Y. rewrite FD6.
      assert (N : y <> key) by (unfold key, RAW_KEY, inr16 in *; lia).
      split; [rewrite <- (FD4 y N); apply T2|]. rewrite T3 by assumption. rewrite FD4 by assumption. reflexivity.
    + destruct T5 as [T5|T5]; [left; rewrite T5; apply (ks_handled _ _ K)|right; assumption].
  - destruct (ks_ev _ _ K) as [E1 E2 E3 E4 E5].
    constructor; cbn [s6 set_rw ev_pending ev_batch ev_count ev_reg use_raw]; congruence.
  - apply (FdI_keep s5 s6 (-1) I5); reflexivity.
  - unfold FdXa. cbn [s6 set_rw rw_reg]. split; [|split].
    + intros j' J' RG. rewrite FD6 in RG. unfold upd. destruct (Z.eqb_spec j' j) as [->|N]; [reflexivity|].
      assert (NK : 16 + j' <> key) by (unfold key, RAW_KEY; lia).
      rewrite T3 in RG by assumption. rewrite FD4 in RG by assumption.
      rewrite B11. rewrite (ks_rw _ _ K). destruct X as (X1' & _). apply X1'; assumption.
    + intros k Kr. rewrite FD6. destruct (T2 k) as (_ & H1 & H2 & H3 & _). unfold hand_ok. rewrite H1, H2, H3.
      destruct (Z.eq_dec k key) as [->|N].
      * unfold s4. rewrite fdt_putfd, Z.eqb_refl. unfold f, key, RAW_KEY, H_RAW.
        cbn [h_in h_out h_err fd_with_handlers]. repeat split; try discriminate. intros h0 E0. assert (E1 : h0 = 1000 + j) by congruence. lia.
      * rewrite FD4 by assumption. destruct X as (_ & X2' & _). apply X2'. assumption.
    + intros k Kr. rewrite FD6. destruct (T2 k) as (_ & H1 & H2 & H3 & _). unfold hand_ok. rewrite H1, H2, H3.
      assert (N : k <> key) by (unfold key, RAW_KEY; lia).
      rewrite FD4 by assumption. destruct X as (_ & _ & X3'). apply X3'. assumption.
  - cbn [s6 set_rw rw_reg]. rewrite B11. rewrite (ks_rw _ _ K). reflexivity.
Qed.

Lemma raw_register_spec : forall s j, FdI s (-1) -> FdXa s -> 0 <= j <= 16 -> rw_reg s j = false ->
  RawRegPost s j (raw_register s j).
Proof.
  intros s j I X Jr U. unfold raw_register.
  (* first attempt: eventfd *)
  assert (A : exists s2 got fl,
     (if negb (efd_raw s =? 0)
      then match eventfd_grab (kern s) (efd_raw s) with
           | (k1, inl fd, u) => (set_efd (set_kern s k1) (efd_epoll s) u, Some (fd, fd), false)
           | (k1, inr e, u) => (set_efd (set_kern s k1) (efd_epoll s) u, None, negb (is_enosys e))
           end
      else (s, None, false)) = (s2, got, fl) /\ KStep s s2).
  { destruct (negb (efd_raw s =? 0)); [|exists s, None, false; split; [reflexivity|apply KStep_refl]].
    pose proof (ksame_grab (kern s) (efd_raw s)) as KS.
    destruct (eventfd_grab (kern s) (efd_raw s)) as [[k1 [fd|e]] u]; cbn [fst] in KS.
    - eexists _, _, _. split; [reflexivity|apply KStep_kern_efd; assumption].
    - eexists _, _, _. split; [reflexivity|apply KStep_kern_efd; assumption]. }
  destruct A as (s2 & got & fl & -> & K2).
  destruct fl; [apply raw_fail_post; assumption|].
  (* second attempt: a pipe *)
  assert (B : exists s3 got3 fl3,
     match got with
     | Some p => (s2, Some p, false)
     | None => if efd_raw s2 =? 0
               then match k_pipe (kern s2) with
                    | (k1, Some (r, w)) => (set_kern s2 k1, Some (r, w), false)
                    | (k1, None) => (set_kern s2 k1, None, true)
                    end
               else (s2, None, true)
     end = (s3, got3, fl3) /\ KStep s s3).
  { destruct got as [p|]; [exists s2, (Some p), false; split; [reflexivity|assumption]|].
    destruct (efd_raw s2 =? 0); [|exists s2, None, true; split; [reflexivity|assumption]].
    pose proof (ksame_pipe (kern s2)) as KS.
    destruct (k_pipe (kern s2)) as [k1 [[r w]|]]; cbn [fst] in KS.
    - eexists _, _, _. split; [reflexivity|]. eapply KStep_trans; [eassumption|apply KStep_kern; assumption].
    - eexists _, _, _. split; [reflexivity|]. eapply KStep_trans; [eassumption|apply KStep_kern; assumption]. }
  destruct B as (s3 & got3 & fl3 & -> & K3).
  destruct got3 as [[rfd wfd]|]; [|apply raw_fail_post; assumption].
  apply raw_tail_post; assumption.
Qed.

Lemma raw_unregister_spec : forall s j, FdI s (-1) -> FdXa s -> 0 <= j <= 16 ->
  FdRes s (raw_unregister s j) (fun s' => RawStep s s' /\ EvSame s s' /\ FdI s' (-1) /\ FdXa s' /\
                                          rw_reg s' = upd (rw_reg s) j false).
Proof.
  intros s j I X Jr. unfold raw_unregister.
  set (key := RAW_KEY j). assert (KR : 0 <= key <= 32) by (unfold key, RAW_KEY; lia).
  pose proof (fd_unregister_res s key I KR) as Q.
  destruct (fd_unregister s key) as [s1|s1]; cbn [bind FdRes] in *; [|assumption].
  destruct Q as (T & U1 & I1 & C1). destruct T as [T1 T2 T3 T4 T5].
  destruct (do_close_step s1 (-1) (rw_rfd s1 j) I1) as (R2 & E2 & I2 & F2 & W2 & H2 & EF2 & RF2 & WF2 & _).
  set (s2 := do_close s1 (rw_rfd s1 j)) in *.
  assert (G3 : exists s3, (if raw_is_pipe s2 j then do_close s2 (rw_wfd s2 j) else s2) = s3 /\
               RawStep s2 s3 /\ EvSame s2 s3 /\ FdI s3 (-1) /\ fdt s3 = fdt s2 /\ rw_reg s3 = rw_reg s2 /\
               handled s3 = handled s2).
  { destruct (raw_is_pipe s2 j).
    - destruct (do_close_step s2 (-1) (rw_wfd s2 j) I2) as (R3 & E3 & I3 & F3 & W3 & H3 & _).
      eexists. split; [reflexivity|].
      split; [exact R3|split; [exact E3|split; [exact I3|split; [exact F3|split; [exact W3|exact H3]]]]].
    - exists s2. split; [reflexivity|]. split; [apply RawStep_refl|]. split; [apply EvSame_refl|]. auto. }
  destruct G3 as (s3 & -> & R3 & E3 & I3 & F3 & W3 & H3).
  set (s4 := set_rw s3 _ _ _).
  assert (FD4 : forall y, fdt s4 y = fdt s1 y) by (intros y; change (fdt s3 y = fdt s1 y); rewrite F3, F2; reflexivity).
  assert (R01 : RawStep s s1).
  { destruct T1 as [B1 B2 B3 B4 B5 B6 B7 B8 B9 B10 B11 B12 B13 B14 B15 B16].
    constructor; try assumption. intros y Y. split; [apply T2|]. apply T3. unfold key, RAW_KEY, inr16 in *. lia. }
  assert (R34 : RawStep s3 s4) by (constructor; try reflexivity; auto; intros; apply fkeep_refl).
  split; [eapply RawStep_trans; [eapply RawStep_trans; [eapply RawStep_trans; [exact R01|exact R2]|exact R3]|exact R34]|].
  split.
  { destruct T1 as [B1 B2 B3 B4 B5 B6 B7 B8 B9 B10 B11 B12 B13 B14 B15 B16].
    destruct E2 as [E21 E22 E23 E24 E25]. destruct E3 as [E31 E32 E33 E34 E35].
    constructor; cbn [s4 set_rw ev_pending ev_batch ev_count ev_reg use_raw]; congruence. }
  split; [apply (FdI_keep s3 s4 (-1) I3); reflexivity|].
  destruct X as (X1 & X2 & X3).
  assert (RW4 : rw_reg s4 = upd (rw_reg s) j false).
  { cbn [s4 set_rw rw_reg]. rewrite W3, W2. rewrite (sm_rw _ _ T1). reflexivity. }
  split; [|exact RW4].
  unfold FdXa. rewrite RW4. split; [|split].
  - intros j' J' RG. rewrite FD4 in RG. unfold upd. destruct (Z.eqb_spec j' j) as [->|N].
    + fold (RAW_KEY j) in RG. fold key in RG. congruence.
    + rewrite T3 in RG by (unfold key, RAW_KEY; lia). apply X1; assumption.
  - intros k Kr. rewrite FD4. destruct (T2 k) as (_ & H1' & H2' & H3' & _). unfold hand_ok. rewrite H1', H2', H3'. apply X2. assumption.
  - intros k Kr. rewrite FD4. destruct (T2 k) as (_ & H1' & H2' & H3' & _). unfold hand_ok. rewrite H1', H2', H3'. apply X3. assumption.
Qed.

Lemma JM_emit : forall b s m e, JM b s m -> JM b (emit s e) m.
Proof.
  intros b s m e (A & B & C & D & E & F). unfold JM.
  split; [destruct A; constructor; assumption|]. split; [destruct B; constructor; assumption|].
  split; [apply FdI_emit; assumption|]. split; [apply FdX_emit; assumption|]. auto.
Qed.

Lemma J_emit_step : forall b s1 e, JM b s1 (mon_step (mst s1) e) -> J b (emit s1 e).
Proof. intros b s1 e H. apply J_JM. rewrite mst_emit. apply JM_emit. assumption. Qed.

Lemma JM_raw : forall b s e s1 m', J b s -> RawStep (emit s e) s1 -> FdI s1 (-1) -> FdX s1 ->
  a_main m' = a_main (mst s) -> Goodm m' ->
  (a_fd m' = a_fd (mst s) /\ a_fh m' = a_fh (mst s) /\ a_ck m' = a_ck (mst s) /\ a_tm m' = a_tm (mst s) /\
   a_exp m' = a_exp (mst s) /\ a_tk m' = a_tk (mst s) /\ a_quit m' = a_quit (mst s) /\ a_clk m' = a_clk (mst s)) ->
  ((ev_reg s1 = ev_reg s /\ ev_pending s1 = ev_pending s /\ ev_batch s1 = ev_batch s /\
    a_ev m' = a_ev (mst s) /\ a_evp m' = a_evp (mst s)) \/ AgEv s1 m') ->
  ((rw_reg s1 = rw_reg s /\ a_rw m' = a_rw (mst s)) \/ AgRw s1 m') ->
  ((ev_reg s1 = ev_reg s /\ ev_pending s1 = ev_pending s /\ ev_batch s1 = ev_batch s) \/ SiEv s1) ->
  JM b s1 m' /\ Fr s s1.
Proof.
  intros b s e s1 m' Jh [A1 A2 A3 A4 A5 A6 A7 A8 A9 A10 A11 A12] FI FX MN G (V1 & V2 & V3 & V4 & V5 & V6 & V7 & V8) EV RW SE.
  split; [|split; [exact A12|intros E; rewrite A5; exact E]].
  apply (JM_upd b s s1 m' Jh); try assumption.
  - left. auto.
  - left. auto.
  - left. auto.
  - left. auto.
  - left. auto.
  - left. exact A1.
  - left. auto.
  - left. auto.
Qed.

Lemma FdX_join : forall s, FdXa s -> (rw_reg s 16 = true -> use_raw s = true /\ ev_count s <> 0) ->
  ev_count s = cnt (ev_reg s) -> FdX s.
Proof. intros s A B C. apply FdX_split. auto. Qed.

Lemma act_ARwReg : forall b s j, J b s -> inr16 j -> Post b s (do_action s (ARwReg j)).
Proof.
  intros b s j Jh I. unfold do_action. cbv zeta.
  destruct (rw_reg s j) eqn:RG; [apply Post_same; assumption|].
  set (ex := emit s (TAct (ARwReg j))).
  destruct (proj1 (FdX_split _) (j_fx _ _ Jh)) as (XA & XK & XC).
  assert (XAe : FdXa ex) by exact XA.
  pose proof (raw_register_spec ex j (FdI_emit _ _ _ (j_fd _ _ Jh)) XAe ltac:(unfold inr16 in I; lia) RG) as Q.
  assert (GX : Goodm (mst ex)) by (unfold ex; rewrite mst_emit; apply good_TAct; apply (j_good _ _ Jh)).
  unfold RawRegPost in Q.
  destruct (raw_register ex j) as [r failed]. cbn [fst snd] in Q.
  destruct r as [s1|s1]; cbn [FdRes Post bind] in *; [|eapply HaltOf_good; eassumption].
  destruct Q as (RS & ES & FI & XA1 & RW1).
  set (rc := if failed then -1 else 0).
  assert (M1 : mst s1 = mst s) by (rewrite (rs_mst _ _ RS); apply mst_act).
  set (m' := mon_step (mst s1) (TRes 2 j rc)).
  assert (MV : m' = if failed then mst s else m_rws (mst s) (upd (a_rw (mst s)) j true) (a_rwp (mst s))).
  { unfold m', rc. rewrite M1. destruct failed; reflexivity. }
  destruct ES as [E1 E2 E3 E4 E5].
  assert (G : JM b s1 m' /\ Fr s s1).
  { apply (JM_raw b s (TAct (ARwReg j)) s1 m' Jh RS FI).
    - apply FdX_join; [assumption| |].
      + rewrite RW1, E5, E3. intros H. apply XK.
        destruct failed; [exact H|]. unfold upd in H. destruct (Z.eqb_spec 16 j); [unfold inr16 in I; lia|exact H].
      + rewrite E3, E4. exact XC.
    - rewrite MV. destruct failed; reflexivity.
    - unfold m'. rewrite M1. apply good_TRes. apply (j_good _ _ Jh).
    - rewrite MV. destruct failed; repeat split.
    - left. rewrite MV. split; [exact E4|split; [exact E1|split; [exact E2|destruct failed; split; reflexivity]]].
    - right. rewrite MV. intros y Y. rewrite RW1. pose proof (J_AgRw _ _ Jh y Y) as A.
      destruct failed; [exact A|]. cbn [a_rw m_rws]. unfold upd. destruct (Z.eqb_spec y j); [reflexivity|exact A].
    - left. auto. }
  destruct G as [G1 G2]. split; [apply J_emit_step; exact G1|].
  eapply Fr_trans; [exact G2|apply Fr_plain; reflexivity].
Qed.

Lemma act_ARwUnreg : forall b s j, J b s -> inr16 j -> Post b s (do_action s (ARwUnreg j)).
Proof.
  intros b s j Jh I. unfold do_action. cbv zeta.
  destruct (rw_reg s j) eqn:RG; [|apply Post_same; assumption].
  set (ex := emit s (TAct (ARwUnreg j))).
  destruct (proj1 (FdX_split _) (j_fx _ _ Jh)) as (XA & XK & XC).
  assert (XAe : FdXa ex) by exact XA.
  pose proof (raw_unregister_spec ex j (FdI_emit _ _ _ (j_fd _ _ Jh)) XAe ltac:(unfold inr16 in I; lia)) as Q.
  assert (GX : Goodm (mst ex)) by (unfold ex; rewrite mst_emit; apply good_TAct; apply (j_good _ _ Jh)).
  destruct (raw_unregister ex j) as [s1|s1]; cbn [FdRes Post] in *; [|eapply HaltOf_good; eassumption].
  destruct Q as (RS & ES & FI & XA1 & RW1).
  assert (M1 : mst s1 = mon_action (mst s) (ARwUnreg j)) by (rewrite (rs_mst _ _ RS); apply mst_act).
  destruct ES as [E1 E2 E3 E4 E5].
  assert (G : JM b s1 (mst s1) /\ Fr s s1).
  { apply (JM_raw b s (TAct (ARwUnreg j)) s1 (mst s1) Jh RS FI).
    - apply FdX_join; [assumption| |].
      + rewrite RW1, E5, E3. intros H. apply XK.
        unfold upd in H. destruct (Z.eqb_spec 16 j); [discriminate|exact H].
      + rewrite E3, E4. exact XC.
    - rewrite M1. reflexivity.
    - rewrite M1. apply good_action. apply (j_good _ _ Jh).
    - rewrite M1. repeat split.
    - left. rewrite M1. split; [exact E4|split; [exact E1|split; [exact E2|split; reflexivity]]].
    - right. rewrite M1. intros y Y. rewrite RW1. pose proof (J_AgRw _ _ Jh y Y) as A.
      cbn [mon_action a_rw m_rws]. unfold upd. destruct (Z.eqb_spec y j); [reflexivity|exact A].
    - left. auto. }
  destruct G as [G1 G2]. split; [apply J_JM; exact G1|exact G2].
Qed.

(* ---------- iv_event: rx on/off, register, unregister ---------- *)
Definition EStep (s s' : core) : Prop :=
  RawStep s s' /\ EvSame s s' /\ FdI s' (-1) /\ fdt s' = fdt s /\ rw_reg s' = rw_reg s.

Lemma EStep_kern : forall s s', FdI s (-1) ->
  heap s' = heap s -> time s' = time s -> time_valid s' = time_valid s -> tasks s' = tasks s -> cur s' = cur s ->
  quit s' = quit s -> method s' = method s -> trace s' = trace s -> fdt s' = fdt s -> handled s' = handled s ->
  ev_pending s' = ev_pending s -> ev_batch s' = ev_batch s -> ev_count s' = ev_count s -> ev_reg s' = ev_reg s ->
  use_raw s' = use_raw s -> rw_reg s' = rw_reg s -> active s' = active s -> notify s' = notify s ->
  pfds s' = pfds s -> pkeys s' = pkeys s ->
  clock (kern s') = clock (kern s) -> flt (kern s') = flt (kern s) ->
  (forall e, In e (ep (kern s')) -> In e (ep (kern s)) \/ (is_epoll s = true /\ en_data e = -1)) ->
  EStep s s'.
Proof.
  intros s s' I H1 H2 H3 H4 H5 H6 H7 H8 H9 H10 H11 H12 H13 H14 H15 H16 H17 H18 H19 H20 C F E.
  split; [|split; [|split; [|split]]]; try assumption.
  - constructor; try assumption; [apply mst_trace; assumption| |left; assumption].
    intros i _. rewrite H9. apply fkeep_refl.
  - constructor; assumption.
  - apply (FdI_kstep s s' (-1) I); assumption.
Qed.

Lemma EStep_trans : forall a b c, EStep a b -> EStep b c -> EStep a c.
Proof.
  intros a b c (A1 & A2 & A3 & A4 & A5) (B1 & B2 & B3 & B4 & B5).
  split; [eapply RawStep_trans; eassumption|]. split; [eapply EvSame_trans; eassumption|].
  split; [assumption|]. split; congruence.
Qed.

Lemma EStep_refl : forall s, FdI s (-1) -> EStep s s.
Proof. intros s I. split; [apply RawStep_refl|]. split; [apply EvSame_refl|]. auto. Qed.

Lemma event_rx_on_spec : forall s, FdI s (-1) -> is_epoll s = true ->
  FdRes s (fst (event_rx_on s)) (fun s' => EStep s s').
Proof.
  intros s I IE. unfold event_rx_on.
  (* creation of the kick descriptor *)
  assert (A : FdRes s (if active_ref s =? 0
      then match eventfd_grab (kern s) (efd_epoll s) with
           | (k1, inl fd, u) =>
               let '(k2, _) := k_write k1 fd 8 1 in
               R (set_activefd (set_efd (set_kern s k2) u (efd_raw s)) fd (active_ref s))
           | (k1, inr _, u) =>
               let s0 := set_efd (set_kern s k1) u (efd_raw s) in
               match k_pipe (kern s0) with
               | (k2, Some (r, w)) =>
                   let '(k3, wr) := k_write k2 w 1 0 in
                   match wr with
                   | inl _ => R (set_activewr (set_activefd (set_kern s0 k3) r (active_ref s0)) w)
                   | inr _ => halt (set_kern s0 k3) TFatal
                   end
               | (k2, None) => halt (set_kern s0 k2) TFatal
               end
           end
      else R s) (fun s' => EStep s s')).
  { destruct (active_ref s =? 0); [|apply EStep_refl; assumption].
    pose proof (ksame_grab (kern s) (efd_epoll s)) as KS.
    destruct (eventfd_grab (kern s) (efd_epoll s)) as [[k1 [fd|e]] u]; cbn [fst] in KS.
    - pose proof (ksame_write k1 fd 8 1) as KW. destruct (k_write k1 fd 8 1) as [k2 w]. cbn [fst] in KW.
      destruct (ksame_trans _ _ _ KS KW) as (C & F & E).
      cbn [FdRes]. apply EStep_kern; try reflexivity; try assumption.
      cbn [kern set_activefd set_efd set_kern]. rewrite E. auto.
    - cbv zeta. set (s0 := set_efd (set_kern s k1) u (efd_raw s)).
      pose proof (ksame_pipe (kern s0)) as KP. change (kern s0) with k1 in KP.
      change (kern s0) with k1.
      destruct (k_pipe k1) as [k2 [[r w]|]]; cbn [fst] in KP.
      + pose proof (ksame_write k2 w 1 0) as KW. destruct (k_write k2 w 1 0) as [k3 wr]. cbn [fst] in KW.
        destruct (ksame_trans _ _ _ KS (ksame_trans _ _ _ KP KW)) as (C & F & E).
        destruct wr; cbn [FdRes].
        * apply EStep_kern; try reflexivity; try assumption.
          cbn [kern set_activewr set_activefd set_efd set_kern s0]. rewrite E. auto.
        * apply HaltOf_halt; [reflexivity|left; reflexivity].
      + apply HaltOf_halt; [reflexivity|left; reflexivity]. }
  match goal with |- FdRes s (fst (match ?r with R s0 => _ | Halt s0 => _ end)) _ => destruct r as [s1|s1] end;
    cbn [FdRes fst] in *; [|assumption].
  destruct A as (A1 & A2 & A3 & A4 & A5).
  set (s2 := set_activefd s1 (active_fd s1) (active_ref s1 + 1)).
  destruct (ctl_retry s2 CTL_ADD (active_fd s2) 0 (-1)) as [s3 e] eqn:CT.
  apply ctl_retry_spec in CT. destruct CT as (k' & -> & CK & FL & EP).
  assert (IE1 : is_epoll s1 = true) by (rewrite (RawStep_is_epoll _ _ A1); assumption).
  destruct e as [err|]; cbn [fst FdRes].
  - eapply EStep_trans; [split; [exact A1|split; [exact A2|split; [exact A3|split; [exact A4|exact A5]]]]|].
    apply EStep_kern; try reflexivity; try assumption.
    cbn [kern set_kern]. rewrite EP. auto.
  - eapply EStep_trans; [split; [exact A1|split; [exact A2|split; [exact A3|split; [exact A4|exact A5]]]]|].
    apply EStep_kern; try reflexivity; try assumption.
    cbn [kern set_kern set_numobjs]. unfold CTL_ADD in EP. cbn [Z.eqb Pos.eqb] in EP. rewrite EP.
    intros e0 H. apply in_app_or in H. destruct H as [H|[H|[]]]; [auto|]. right. subst e0. auto.
Qed.

Lemma event_rx_on_failed : forall s s', fst (event_rx_on s) = Halt s' -> snd (event_rx_on s) = true.
Proof.
  intros s s'. unfold event_rx_on.
  match goal with |- fst (match ?r with R s0 => _ | Halt s0 => _ end) = _ -> _ => destruct r as [s1|s1] end;
    [|reflexivity].
  destruct (ctl_retry _ _ _ _ _) as [s3 e]. destruct e; discriminate.
Qed.

Lemma event_rx_off_spec : forall s, FdI s (-1) ->
  FdRes s (event_rx_off s) (fun s' => EStep s s').
Proof.
  intros s I. unfold event_rx_off.
  destruct (ctl_retry s CTL_DEL (active_fd s) 0 (-1)) as [s1 e] eqn:CT.
  apply ctl_retry_spec in CT. destruct CT as (k' & -> & CK & FL & EP).
  destruct e as [err|].
  - apply HaltOf_halt; [reflexivity|left; reflexivity].
  - cbn [FdRes]. unfold CTL_DEL, CTL_ADD, CTL_MOD in EP. cbn [Z.eqb Pos.eqb] in EP.
    set (s2 := set_activefd (set_kern s k') (active_fd (set_kern s k')) (active_ref (set_kern s k') - 1)).
    assert (E2 : EStep s s2).
    { apply EStep_kern; try reflexivity; try assumption.
      cbn [s2 kern set_activefd set_kern]. rewrite EP. intros e0 H. apply In_ep_remove in H. tauto. }
    assert (G : forall s3, EStep s s3 -> EStep s (set_numobjs s3 (numobjs s3 - 1))).
    { intros s3 E3. eapply EStep_trans; [exact E3|]. destruct E3 as (_ & _ & I3 & _).
      apply EStep_kern; try reflexivity; auto. }
    apply G.
    destruct (active_ref s2 =? 0); [|exact E2].
    destruct E2 as (B1 & B2 & B3 & B4 & B5).
    destruct (do_close_step s2 (-1) (active_fd s2) B3) as (R3 & E3 & I3 & F3 & W3 & H3 & _).
    set (s3 := do_close s2 (active_fd s2)) in *.
    assert (E03 : EStep s s3).
    { split; [eapply RawStep_trans; eassumption|]. split; [eapply EvSame_trans; eassumption|].
      split; [assumption|]. split; congruence. }
    destruct (active_wr s3 =? -1); [exact E03|].
    destruct (do_close_step s3 (-1) (active_wr s3) I3) as (R4 & E4 & I4 & F4 & W4 & H4 & _).
    set (s4 := do_close s3 (active_wr s3)) in *.
    eapply EStep_trans; [exact E03|].
    eapply EStep_trans; [split; [exact R4|split; [exact E4|split; [exact I4|split; [exact F4|exact W4]]]]|].
    apply EStep_kern; try reflexivity; auto.
Qed.

Definition EvMid (s s1 : core) : Prop :=
  RawStep s s1 /\ FdI s1 (-1) /\ FdXa s1 /\ ev_pending s1 = ev_pending s /\ ev_batch s1 = ev_batch s /\
  ev_reg s1 = ev_reg s /\ ev_count s1 = ev_count s + 1 /\ (forall y, inr16 y -> rw_reg s1 y = rw_reg s y).

Definition EvRegGood (s : core) (j : Z) (failed : bool) (s' : core) : Prop :=
  RawStep s s' /\ FdI s' (-1) /\ FdX s' /\ ev_pending s' = ev_pending s /\ ev_batch s' = ev_batch s /\
  ev_reg s' = (if failed then ev_reg s else upd (ev_reg s) j true) /\
  (forall y, inr16 y -> rw_reg s' y = rw_reg s y).

Lemma ev_reg_finish : forall s s1 j, EvMid s s1 -> (rw_reg s1 16 = true -> use_raw s1 = true) ->
  inr16 j -> ev_reg s j = false -> ev_count s = cnt (ev_reg s) ->
  EvRegGood s j false (set_ev s1 (ev_count s1) (upd (ev_reg s1) j true) (use_raw s1)).
Proof.
  intros s s1 j (M1 & M2 & M3 & M4 & M5 & M6 & M7 & M8) KU I U C.
  set (s' := set_ev s1 _ _ _). unfold EvRegGood.
  split; [eapply RawStep_trans; [exact M1|]; constructor; try reflexivity; auto; intros; apply fkeep_refl|].
  split; [apply (FdI_keep s1 s' (-1) M2); reflexivity|].
  split; [|split; [exact M4|split; [exact M5|split; [cbn [s' set_ev ev_reg]; rewrite M6; reflexivity|exact M8]]]].
  apply FdX_join.
  - exact M3.
  - cbn [s' set_ev rw_reg use_raw ev_count]. intros H. split; [auto|]. rewrite M7, C. pose proof (cnt_nonneg (ev_reg s)). lia.
  - cbn [s' set_ev ev_count ev_reg]. rewrite M7, M6, C. symmetry. apply cnt_upd_true; assumption.
Qed.

Lemma event_register_spec : forall s j, FdI s (-1) -> FdX s -> inr16 j -> ev_reg s j = false ->
  FdRes s (fst (event_register s j)) (EvRegGood s j (snd (event_register s j))).
Proof.
  intros s j I X Ir U.
  destruct (proj1 (FdX_split _) X) as (XA & XK & XC).
  unfold event_register. cbv zeta.
  set (s1 := set_ev (set_numobjs s (numobjs s + 1)) (ev_count (set_numobjs s (numobjs s + 1)) + 1)
                    (ev_reg (set_numobjs s (numobjs s + 1))) (use_raw (set_numobjs s (numobjs s + 1)))).
  change (ev_count (set_numobjs s (numobjs s + 1)) =? 0) with (ev_count s =? 0).
  assert (I1 : FdI s1 (-1)) by (apply (FdI_keep s s1 (-1) I); reflexivity).
  assert (R1 : RawStep s s1) by (constructor; try reflexivity; auto; intros; apply fkeep_refl).
  assert (M1 : EvMid s s1).
  { split; [exact R1|]. split; [exact I1|]. split; [exact XA|]. repeat split; reflexivity. }
  destruct (Z.eqb_spec (ev_count s) 0) as [C0|CN].
  2:{ cbn [fst snd bind FdRes]. apply ev_reg_finish; try assumption.
      intros H. apply XK in H. apply H. }
  assert (RW16 : rw_reg s 16 = false).
  { destruct (rw_reg s 16) eqn:E; [|reflexivity]. destruct (XK eq_refl) as [_ H]. contradiction. }
  (* the state after choosing the wake-up mechanism *)
  set (rx := if negb (use_raw s1)
      then if is_epoll s1
           then match event_rx_on s1 with
                | (R s1', true) => (R (set_ev s1' (ev_count s1') (ev_reg s1') true), true)
                | (R s1', false) => (R s1', false)
                | (Halt s1', _) => (Halt s1', false)
                end
           else (R (set_ev s1 (ev_count s1) (ev_reg s1) true), true)
      else (R s1, true)).
  assert (Q : FdRes s (fst rx) (fun s2 => EvMid s s2 /\ rw_reg s2 16 = false)).
  { unfold rx.
    destruct (negb (use_raw s1)); [|cbn [fst FdRes]; split; [exact M1|exact RW16]].
    destruct (is_epoll s1) eqn:IE.
    - pose proof (event_rx_on_spec s1 I1 IE) as Q.
      assert (MID : forall s2, EStep s1 s2 -> forall u, EvMid s (set_ev s2 (ev_count s2) (ev_reg s2) u) /\
                     rw_reg (set_ev s2 (ev_count s2) (ev_reg s2) u) 16 = false).
      { intros s2 (B1 & B2 & B3 & B4 & B5) u. destruct B2 as [E1 E2 E3 E4 E5].
        set (s3 := set_ev s2 _ _ u).
        split; [|cbn [s3 set_ev rw_reg]; rewrite B5; exact RW16].
        split; [eapply RawStep_trans; [exact R1|]; eapply RawStep_trans; [exact B1|];
                constructor; try reflexivity; auto; intros; apply fkeep_refl|].
        split; [apply (FdI_keep s2 s3 (-1) B3); reflexivity|].
        split; [unfold FdXa; cbn [s3 set_ev fdt rw_reg]; rewrite B4, B5; exact XA|].
        cbn [s3 set_ev ev_pending ev_batch ev_reg ev_count rw_reg].
        rewrite E1, E2, E3, E4, B5. repeat split; reflexivity. }
      assert (MID0 : forall s2, EStep s1 s2 -> EvMid s s2 /\ rw_reg s2 16 = false).
      { intros s2 (B1 & B2 & B3 & B4 & B5). destruct B2 as [E1 E2 E3 E4 E5].
        split; [|rewrite B5; exact RW16].
        split; [eapply RawStep_trans; eassumption|]. split; [exact B3|].
        split; [unfold FdXa; rewrite B4, B5; exact XA|].
        rewrite E1, E2, E3, E4, B5. repeat split; reflexivity. }
      destruct (event_rx_on s1) as [[s1'|s1'] fl]; cbn [fst FdRes] in *.
      + destruct fl; cbn [fst FdRes]; [apply MID; exact Q|apply MID0; exact Q].
      + eapply HaltOf_same; [|exact Q]. reflexivity.
    - cbn [fst FdRes]. apply (proj1 (and_comm _ _)). split.
      + exact RW16.
      + destruct M1 as (A1 & A2 & A3 & A4 & A5 & A6 & A7 & A8).
        split; [eapply RawStep_trans; [exact A1|]; constructor; try reflexivity; auto; intros; apply fkeep_refl|].
        split; [apply (FdI_keep s1 _ (-1) I1); reflexivity|].
        split; [exact A3|]. repeat split; assumption. }
  clearbody rx. destruct rx as [r0 su]. cbn [fst] in Q.
  destruct r0 as [s2|s2]; cbn [FdRes] in Q.
  2:{ cbn [fst snd bind FdRes]. exact Q. }
  destruct Q as [M2 RW2].
  destruct (use_raw s2) eqn:UR.
  - destruct M2 as (A1 & A2 & A3 & A4 & A5 & A6 & A7 & A8).
    pose proof (raw_register_spec s2 KICK_RAW A2 A3 ltac:(unfold KICK_RAW; lia) RW2) as Q. unfold RawRegPost in Q.
    assert (M2s : mst s2 = mst s) by apply (rs_mst _ _ A1).
    destruct (raw_register s2 KICK_RAW) as [[s3|s3] fl]; cbn [fst snd FdRes] in Q.
    + destruct Q as (B1 & B2 & B3 & B4 & B5). destruct B2 as [E1 E2 E3 E4 E5].
      assert (R3 : RawStep s s3) by (eapply RawStep_trans; eassumption).
      assert (RWU : forall y, inr16 y -> rw_reg s3 y = rw_reg s y).
      { intros y Y. rewrite B5. rewrite <- (A8 y Y). destruct fl; [reflexivity|].
        unfold upd. destruct (Z.eqb_spec y KICK_RAW); [unfold inr16, KICK_RAW in *; lia|reflexivity]. }
      destruct fl; cbn [fst snd bind FdRes].
      * set (s4 := set_numobjs _ _). unfold EvRegGood.
        split; [eapply RawStep_trans; [exact R3|]; constructor; try reflexivity; auto; intros; apply fkeep_refl|].
        split; [apply (FdI_keep s3 s4 (-1) B3); reflexivity|].
        split; [|cbn [s4 set_numobjs set_ev ev_pending ev_batch ev_reg rw_reg]; rewrite E1, E2, E4; repeat split; assumption].
        apply FdX_join; [exact B4| |].
        -- cbn [s4 set_numobjs set_ev rw_reg]. rewrite B5, RW2. discriminate.
        -- cbn [s4 set_numobjs set_ev ev_count ev_reg]. rewrite E3, E4, A7, A6, <- XC. lia.
      * apply ev_reg_finish; try assumption.
        -- split; [exact R3|]. split; [exact B3|]. split; [exact B4|].
           rewrite E1, E2, E3, E4. repeat split; assumption.
        -- intros _. rewrite E5. exact UR.
    + destruct fl; cbn [fst snd bind FdRes]; eapply HaltOf_same; eassumption.
  - cbn [fst snd bind FdRes]. apply ev_reg_finish; try assumption.
    intros H. congruence.
Qed.

Definition EvUnregGood (s : core) (j : Z) (s' : core) : Prop :=
  RawStep s s' /\ FdI s' (-1) /\ FdX s' /\ ev_pending s' = remove_z j (ev_pending s) /\
  ev_batch s' = remove_z j (ev_batch s) /\ ev_reg s' = upd (ev_reg s) j false /\
  (forall y, inr16 y -> rw_reg s' y = rw_reg s y).

Lemma event_unregister_spec : forall s j, FdI s (-1) -> FdX s -> inr16 j -> ev_reg s j = true ->
  FdRes s (event_unregister s j) (EvUnregGood s j).
Proof.
  intros s j I X Ir U.
  destruct (proj1 (FdX_split _) X) as (XA & XK & XC).
  unfold event_unregister. cbv zeta.
  set (s0 := set_evlists s (remove_z j (ev_pending s)) (remove_z j (ev_batch s))).
  set (s1 := set_ev s0 (ev_count s0 - 1) (upd (ev_reg s0) j false) (use_raw s0)).
  assert (I1 : FdI s1 (-1)) by (apply (FdI_keep s s1 (-1) I); reflexivity).
  assert (R1 : RawStep s s1) by (constructor; try reflexivity; auto; intros; apply fkeep_refl).
  assert (C1 : ev_count s1 = cnt (ev_reg s1)).
  { cbn [s1 s0 set_ev set_evlists ev_count ev_reg]. rewrite XC. symmetry. apply cnt_upd_false; assumption. }
  assert (FIN : forall s2, RawStep s1 s2 -> EvSame s1 s2 -> FdI s2 (-1) -> FdXa s2 ->
            (rw_reg s2 16 = true -> use_raw s2 = true /\ ev_count s2 <> 0) ->
            (forall y, inr16 y -> rw_reg s2 y = rw_reg s y) ->
            EvUnregGood s j (set_numobjs s2 (numobjs s2 - 1))).
  { intros s2 R2 E2 I2 XA2 K2 RWU. destruct E2 as [E1 E2 E3 E4 E5].
    set (s3 := set_numobjs s2 _). unfold EvUnregGood.
    split; [eapply RawStep_trans; [exact R1|]; eapply RawStep_trans; [exact R2|];
            constructor; try reflexivity; auto; intros; apply fkeep_refl|].
    split; [apply (FdI_keep s2 s3 (-1) I2); reflexivity|].
    split; [|cbn [s3 set_numobjs ev_pending ev_batch ev_reg rw_reg]; rewrite E1, E2, E4; repeat split; try reflexivity; exact RWU].
    apply FdX_join; [exact XA2|exact K2|].
    cbn [s3 set_numobjs ev_count ev_reg]. rewrite E3, E4. exact C1. }
  destruct (Z.eqb_spec (ev_count s1) 0) as [C0|CN].
  - destruct (use_raw s1) eqn:UR.
    + pose proof (raw_unregister_spec s1 KICK_RAW I1 XA ltac:(unfold KICK_RAW; lia)) as Q.
      destruct (raw_unregister s1 KICK_RAW) as [s2|s2]; cbn [bind FdRes] in *.
      * destruct Q as (B1 & B2 & B3 & B4 & B5). apply FIN; try assumption.
        -- rewrite B5. unfold upd, KICK_RAW. cbn. discriminate.
        -- intros y Y. rewrite B5. unfold upd. destruct (Z.eqb_spec y KICK_RAW); [unfold inr16, KICK_RAW in *; lia|reflexivity].
      * eapply HaltOf_same; [|exact Q]. reflexivity.
    + pose proof (event_rx_off_spec s1 I1) as Q.
      destruct (event_rx_off s1) as [s2|s2]; cbn [bind FdRes] in *.
      * destruct Q as (B1 & B2 & B3 & B4 & B5). apply FIN; try assumption.
        -- unfold FdXa. rewrite B4, B5. exact XA.
        -- rewrite B5. intros H. apply XK in H. destruct H as [H _]. change (use_raw s1) with (use_raw s) in UR. congruence.
        -- intros y Y. rewrite B5. reflexivity.
      * eapply HaltOf_same; [|exact Q]. reflexivity.
  - cbn [bind FdRes]. apply FIN; try assumption.
    + apply RawStep_refl.
    + apply EvSame_refl.
    + intros H. split; [apply XK; exact H|exact CN].
    + intros; reflexivity.
Qed.

Lemma act_AEvReg : forall b s j, J b s -> inr16 j -> Post b s (do_action s (AEvReg j)).
Proof.
  intros b s j Jh I. unfold do_action. cbv zeta.
  destruct (ev_reg s j) eqn:RG; [apply Post_same; assumption|].
  set (ex := emit s (TAct (AEvReg j))).
  pose proof (event_register_spec ex j (FdI_emit _ _ _ (j_fd _ _ Jh)) (FdX_emit _ _ (j_fx _ _ Jh)) I RG) as Q.
  assert (GX : Goodm (mst ex)) by (unfold ex; rewrite mst_emit; apply good_TAct; apply (j_good _ _ Jh)).
  destruct (event_register ex j) as [r failed]. cbn [fst snd] in Q.
  destruct r as [s1|s1]; cbn [FdRes Post bind] in *; [|eapply HaltOf_good; eassumption].
  destruct Q as (RS & FI & FX & E1 & E2 & E3 & RWU).
  set (rc := if failed then -1 else 0).
  assert (M1 : mst s1 = mst s) by (rewrite (rs_mst _ _ RS); apply mst_act).
  set (m' := mon_step (mst s1) (TRes 1 j rc)).
  assert (MV : m' = if failed then mst s else m_evs (mst s) (upd (a_ev (mst s)) j true) (a_evp (mst s))).
  { unfold m', rc. rewrite M1. destruct failed; reflexivity. }
  assert (G : JM b s1 m' /\ Fr s s1).
  { apply (JM_raw b s (TAct (AEvReg j)) s1 m' Jh RS FI FX).
    - rewrite MV. destruct failed; reflexivity.
    - unfold m'. rewrite M1. apply good_TRes. apply (j_good _ _ Jh).
    - rewrite MV. destruct failed; repeat split.
    - right. rewrite MV. intros y Y. destruct (J_AgEv _ _ Jh y Y) as [A1 A2]. rewrite E3.
      unfold ev_on_list. rewrite E1, E2. fold (ev_on_list ex y).
      destruct failed; [split; assumption|]. cbn [a_ev a_evp m_evs]. split; [|exact A2].
      unfold upd. destruct (Z.eqb_spec y j); [reflexivity|exact A1].
    - right. rewrite MV. intros y Y. rewrite (RWU y Y). pose proof (J_AgRw _ _ Jh y Y) as A.
      destruct failed; exact A.
    - right. destruct (J_SiEv _ _ Jh) as [S1 S2]. unfold SiEv. rewrite E1, E2, E3. split; [|exact S2].
      intros y H. destruct (S1 y H) as [Y1 Y2]. split; [exact Y1|].
      destruct failed; [exact Y2|]. unfold upd. destruct (Z.eqb_spec y j); [reflexivity|exact Y2]. }
  destruct G as [G1 G2]. split; [apply J_emit_step; exact G1|].
  eapply Fr_trans; [exact G2|apply Fr_plain; reflexivity].
Qed.

Lemma act_AEvUnreg : forall b s j, J b s -> inr16 j -> Post b s (do_action s (AEvUnreg j)).
Proof.
  intros b s j Jh I. unfold do_action. cbv zeta.
  destruct (ev_reg s j) eqn:RG; [|apply Post_same; assumption].
  set (ex := emit s (TAct (AEvUnreg j))).
  pose proof (event_unregister_spec ex j (FdI_emit _ _ _ (j_fd _ _ Jh)) (FdX_emit _ _ (j_fx _ _ Jh)) I RG) as Q.
  assert (GX : Goodm (mst ex)) by (unfold ex; rewrite mst_emit; apply good_TAct; apply (j_good _ _ Jh)).
  destruct (event_unregister ex j) as [s1|s1]; cbn [FdRes Post] in *; [|eapply HaltOf_good; eassumption].
  destruct Q as (RS & FI & FX & E1 & E2 & E3 & RWU).
  assert (M1 : mst s1 = mon_action (mst s) (AEvUnreg j)) by (rewrite (rs_mst _ _ RS); apply mst_act).
  assert (LI : forall y, In y (ev_pending s1 ++ ev_batch s1) <-> In y (ev_pending s ++ ev_batch s) /\ y <> j).
  { intros y. rewrite E1, E2. change (ev_pending ex) with (ev_pending s). change (ev_batch ex) with (ev_batch s).
    rewrite <- remove_z_app. apply In_remove_z. }
  assert (G : JM b s1 (mst s1) /\ Fr s s1).
  { apply (JM_raw b s (TAct (AEvUnreg j)) s1 (mst s1) Jh RS FI FX).
    - rewrite M1. reflexivity.
    - rewrite M1. apply good_action. apply (j_good _ _ Jh).
    - rewrite M1. repeat split.
    - right. rewrite M1. intros y Y. destruct (J_AgEv _ _ Jh y Y) as [A1 A2]. rewrite E3.
      cbn [mon_action a_ev a_evp m_evs]. change (ev_reg ex) with (ev_reg s). unfold upd.
      destruct (Z.eqb_spec y j) as [->|N].
      + split; [reflexivity|]. intros H. apply ev_on_list_In in H. apply LI in H. tauto.
      + split; [exact A1|]. intros H. apply A2. apply ev_on_list_In. apply ev_on_list_In in H. apply LI in H. tauto.
    - right. rewrite M1. intros y Y. rewrite (RWU y Y). apply (J_AgRw _ _ Jh y Y).
    - right. destruct (J_SiEv _ _ Jh) as [S1 S2]. split.
      + intros y H. apply LI in H. destruct H as [H N]. destruct (S1 y H) as [Y1 Y2]. split; [exact Y1|].
        rewrite E3. change (ev_reg ex) with (ev_reg s). unfold upd. destruct (Z.eqb_spec y j); [contradiction|exact Y2].
      + rewrite E1, E2. change (ev_pending ex) with (ev_pending s). change (ev_batch ex) with (ev_batch s).
        rewrite <- remove_z_app. apply NoDup_remove_z. exact S2. }
  destruct G as [G1 G2]. split; [apply J_JM; exact G1|exact G2].
Qed.

(* ---------- all actions ---------- *)
Theorem do_action_post : forall b s a, J b s -> wf_action a -> Post b s (do_action s a).
Proof.
  intros b s a Jh WF. destruct a; cbn [wf_action] in WF.
  - apply act_AFdReg; assumption.
  - apply act_AFdTry; assumption.
  - apply act_AFdUnreg; assumption.
  - destruct WF as (W1 & W2 & W3). apply act_AFdSetH; assumption.
  - apply act_AFdCookie; assumption.
  - apply act_AFdFresh; assumption.
  - apply act_AKSet; assumption.
  - apply act_AKClose; assumption.
  - apply act_AKOpen; assumption.
  - apply act_ATmRegAbs; assumption.
  - apply act_ATmRegRel; assumption.
  - apply act_ATmUnreg; assumption.
  - apply act_ATmFresh; assumption.
  - apply act_ATkReg; assumption.
  - apply act_ATkUnreg; assumption.
  - apply act_ATkFresh; assumption.
  - apply act_AEvReg; assumption.
  - apply act_AEvUnreg; assumption.
  - apply act_AEvPost; assumption.
  - apply act_AEvFresh; assumption.
  - apply act_ARwReg; assumption.
  - apply act_ARwUnreg; assumption.
  - apply act_ARwPost; assumption.
  - apply act_ARwFresh; assumption.
  - apply act_AQuit; assumption.
  - apply act_AClockAdv; assumption.
  - apply act_AInvalidate; assumption.
  - apply act_AValidate; assumption.
Qed.

Lemma run_acts_post : forall b l s, J b s -> Forall wf_action l -> Post b s (run_acts s l).
Proof.
  intros b l. induction l as [|a l IH]; intros s Jh WF; cbn [run_acts].
  - apply Post_same. assumption.
  - inversion WF as [|? ? W1 W2]; subst.
    eapply Post_bind; [apply do_action_post; assumption|].
    intros s1 J1 _. apply IH; assumption.
Qed.
