(* CorePhase2GuardAct.v -- one scripted action against the guard monitor: the model's guard is the
   monitor's "allowed", a guarded-out action leaves no trace, an executed one logs itself first. *)
From Coq Require Import List ZArith Bool Lia.
From Ivv Require Import Core.Kernel Core.CoreTypes Core.CoreFd Core.CoreModel Core.Monitors Core.GuardMon Core.CoreSpec
  Core.CoreRel Core.CoreInvBase Core.CoreInvDefs Core.CoreInv
  Core.CorePhase2K1Base Core.CorePhase2K1Fd Core.CorePhase2K1Act
  Core.CorePhase2TimeMon Core.CorePhase2TimeFr Core.CorePhase2FdBase Core.CorePhase2FdMon Core.CorePhase2GuardMon.
From Ivv Require Timer.HeapModel.
Import ListNotations.
Local Open Scope Z_scope.

(* ---------- the scripted descriptors 100..115 keep their open/closed status ---------- *)
Definition ufd (t : Z) : Prop := 100 <= t < 116.

Definition UC (k k' : kernel) : Prop :=
  forall t, ufd t -> forall v, k_get k t = Some v -> exists v', k_get k' t = Some v' /\ vclosed v' = vclosed v.

Lemma UC_refl : forall k, UC k k.
Proof. intros k t _ v G. exists v. auto. Qed.

Lemma UC_trans : forall a b c, UC a b -> UC b c -> UC a c.
Proof.
  intros a b c A B t T v G. destruct (A t T v G) as (v1 & G1 & E1). destruct (B t T v1 G1) as (v2 & G2 & E2).
  exists v2. split; [exact G2|congruence].
Qed.

Lemma KT_UC : forall k k', (forall t, ufd t -> KT t k k') -> UC k k'.
Proof.
  intros k k' H t T v G. destruct (kt_vfd _ _ _ (H t T) v G) as (v' & G' & (_ & _ & _ & C)). exists v'. auto.
Qed.

Lemma UC_vfds : forall k k', vfds k' = vfds k -> UC k k'.
Proof. intros k k' E t _ v G. exists v. unfold k_get in *. rewrite E. auto. Qed.

(* frame: the invocation counters, the wait counter and the status of the scripted descriptors *)
Definition GFr (s s' : core) : Prop :=
  invoc s' = invoc s /\ UC (kern s) (kern s').

Lemma GFr_refl : forall s, GFr s s. Proof. intros s. split; [reflexivity|apply UC_refl]. Qed.
Lemma GFr_trans : forall a b c, GFr a b -> GFr b c -> GFr a c.
Proof. intros a b c [A1 A2] [B1 B2]. split; [congruence|eapply UC_trans; eassumption]. Qed.

Lemma lk_inv : forall s s', lk s' = lk s -> invoc s' = invoc s /\ vfds (kern s') = vfds (kern s).
Proof. intros s s' H. unfold lk in H. inversion H. split; first [assumption|reflexivity]. Qed.

Lemma FF_GFr : forall s s', FF s s' -> GFr s s'.
Proof. intros s s' (_ & L & _). destruct (lk_inv _ _ L) as [A B]. split; [exact A|apply UC_vfds; exact B]. Qed.

(* ---------- the invocation counters through the event / raw-event code ---------- *)
Definition IV (s s' : core) : Prop := invoc s' = invoc s.
Definition IVr (s : core) (r : res) : Prop := IV s (res_state r).

Lemma IV_trans : forall a b c, IV a b -> IV b c -> IV a c.
Proof. unfold IV. intros; congruence. Qed.

Lemma IVr_bind : forall s r f, IVr s r -> (forall s1, IV s s1 -> IVr s1 (f s1)) -> IVr s (bind r f).
Proof.
  intros s r f H K. destruct r as [s1|s1]; cbn [bind]; [|exact H].
  eapply IV_trans; [exact H|apply K; exact H].
Qed.

Lemma FF_IV : forall s s', FF s s' -> IV s s'.
Proof. intros s s' F. apply (proj1 (FF_GFr s s' F)). Qed.

Lemma do_close_IV : forall s fd, IV s (do_close s fd).
Proof. intros s fd. unfold do_close. destruct (k_close (kern s) fd) as [k1 ok]. destruct ok; reflexivity. Qed.

Lemma raw_register_IV : forall s j, IVr s (fst (raw_register s j)).
Proof.
  intros s j. unfold raw_register.
  assert (TL : forall s2 rfd wfd, IV s s2 ->
    IVr s (bind (fd_register (putfd s2 (RAW_KEY j) (fd_with_handlers (fd_fresh rfd (1000 + j)) (Some (H_RAW j)) None None)) (RAW_KEY j))
                (fun s0 => R (set_rw s0 (upd (rw_reg s0) j true) (upd (rw_rfd s0) j rfd) (upd (rw_wfd s0) j wfd))))).
  { intros s2 rfd wfd A. apply IVr_bind.
    - eapply IV_trans; [exact A|]. eapply IV_trans; [|apply FF_IV; apply fd_register_FF]. reflexivity.
    - intros s3 _. reflexivity. }
  destruct (negb (efd_raw s =? 0)).
  - destruct (eventfd_grab (kern s) (efd_raw s)) as [[k1 [fd|e]] u].
    + cbv beta iota zeta. cbn [fst]. apply TL. reflexivity.
    + cbv beta iota zeta. destruct (negb (is_enosys e)); cbn [fst]; [reflexivity|].
      match goal with |- context [efd_raw ?S =? 0] => destruct (efd_raw S =? 0) end; cbn [fst]; [|reflexivity].
      match goal with |- context [k_pipe ?K] => destruct (k_pipe K) as [k2 [[r w]|]] end; cbn [fst]; [|reflexivity].
      apply TL. reflexivity.
  - cbv beta iota zeta. destruct (efd_raw s =? 0); cbn [fst]; [|reflexivity].
    destruct (k_pipe (kern s)) as [k2 [[r w]|]]; cbn [fst]; [|reflexivity]. apply TL. reflexivity.
Qed.

Lemma raw_unregister_IV : forall s j, IVr s (raw_unregister s j).
Proof.
  intros s j. unfold raw_unregister. apply IVr_bind; [apply FF_IV; apply fd_unregister_FF|].
  intros s1 _. unfold IVr. cbn [res_state]. cbv zeta.
  set (s2 := do_close s1 (rw_rfd s1 j)).
  assert (A2 : IV s1 s2) by apply do_close_IV.
  set (s3 := if raw_is_pipe s2 j then do_close s2 (rw_wfd s2 j) else s2).
  assert (A3 : IV s2 s3) by (unfold s3; destruct (raw_is_pipe s2 j); [apply do_close_IV|reflexivity]).
  unfold IV in *. cbn [invoc set_rw]. congruence.
Qed.

Lemma raw_post_IV : forall s j, IV s (raw_post s j).
Proof.
  intros s j. unfold raw_post.
  destruct (raw_is_pipe s j); [destruct (k_write (kern s) (rw_wfd s j) 1 0)|destruct (k_write (kern s) (rw_wfd s j) 8 1)]; reflexivity.
Qed.

Lemma ctl_retry_IV : forall s op fd ev d s1 r, ctl_retry s op fd ev d = (s1, r) -> IV s s1.
Proof. intros. apply FF_IV. eapply ctl_retry_FF. eassumption. Qed.

Lemma event_rx_on_IV : forall s, IVr s (fst (event_rx_on s)).
Proof.
  intros s. unfold event_rx_on.
  match goal with |- IVr s (fst (match ?X with R _ => _ | Halt _ => _ end)) => assert (P : IVr s X); [|destruct X as [s1|s1]] end.
  { destruct (active_ref s =? 0); [|reflexivity].
    destruct (eventfd_grab (kern s) (efd_epoll s)) as [[k1 [fd|e]] u].
    - destruct (k_write k1 fd 8 1) as [k2 x]. reflexivity.
    - cbv zeta. cbn [kern set_efd set_kern]. destruct (k_pipe k1) as [k2 [[r w]|]]; [|reflexivity].
      destruct (k_write k2 w 1 0) as [k3 wr]. destruct wr; reflexivity. }
  - cbn [fst]. unfold IVr in P. cbn [res_state] in P.
    set (s2 := set_activefd s1 (active_fd s1) (active_ref s1 + 1)).
    destruct (ctl_retry s2 CTL_ADD (active_fd s2) 0 (-1)) as [s3 e] eqn:C.
    pose proof (ctl_retry_IV _ _ _ _ _ _ _ C) as A3.
    destruct e; cbn [fst]; unfold IVr, IV in *; cbn [res_state invoc set_numobjs]; rewrite A3; exact P.
  - exact P.
Qed.

Lemma event_rx_off_IV : forall s, IVr s (event_rx_off s).
Proof.
  intros s. unfold event_rx_off.
  destruct (ctl_retry s CTL_DEL (active_fd s) 0 (-1)) as [s1 e] eqn:C.
  pose proof (ctl_retry_IV _ _ _ _ _ _ _ C) as A1.
  destruct e; [exact A1|].
  cbv zeta. set (s2 := set_activefd s1 (active_fd s1) (active_ref s1 - 1)).
  unfold IVr. cbn [res_state]. unfold IV. cbn [invoc set_numobjs].
  destruct (active_ref s2 =? 0); [|exact A1].
  pose proof (do_close_IV s2 (active_fd s2)) as A2.
  destruct (active_wr (do_close s2 (active_fd s2)) =? -1).
  - unfold IV in *. rewrite A2. exact A1.
  - cbn [invoc set_activewr]. rewrite do_close_IV. unfold IV in *. rewrite A2. exact A1.
Qed.

Lemma event_register_IV : forall s j, IVr s (fst (event_register s j)).
Proof.
  intros s j. unfold event_register.
  set (s1 := set_ev (set_numobjs s (numobjs s + 1)) _ _ _).
  assert (A1 : IV s s1) by (reflexivity).
  assert (P : exists r failed,
    (if ev_count (set_numobjs s (numobjs s + 1)) =? 0 then
      let '(r, s_use) :=
        if negb (use_raw s1) then
          if is_epoll s1 then
            match event_rx_on s1 with
            | (R s2, true) => (R (set_ev s2 (ev_count s2) (ev_reg s2) true), true)
            | (R s2, false) => (R s2, false)
            | (Halt s2, _) => (Halt s2, false)
            end
          else (R (set_ev s1 (ev_count s1) (ev_reg s1) true), true)
        else (R s1, true) in
      match r with
      | Halt s2 => (Halt s2, false)
      | R s2 =>
          if use_raw s2 then
            match raw_register s2 KICK_RAW with
            | (R s3, true) =>
                (R (set_numobjs (set_ev s3 (ev_count s3 - 1) (ev_reg s3) (use_raw s3)) (numobjs s3 - 1)), true)
            | (r2, fl) => (r2, fl)
            end
          else (R s2, false)
      end
    else (R s1, false)) = (r, failed) /\ IVr s1 r).
  { destruct (ev_count (set_numobjs s (numobjs s + 1)) =? 0); [|exists (R s1), false; split; [reflexivity|reflexivity]].
    assert (Q : exists r0 u0,
      (if negb (use_raw s1) then
          if is_epoll s1 then
            match event_rx_on s1 with
            | (R s2, true) => (R (set_ev s2 (ev_count s2) (ev_reg s2) true), true)
            | (R s2, false) => (R s2, false)
            | (Halt s2, _) => (Halt s2, false)
            end
          else (R (set_ev s1 (ev_count s1) (ev_reg s1) true), true)
        else (R s1, true)) = (r0, u0) /\ IVr s1 r0).
    { destruct (negb (use_raw s1)); [|exists (R s1), true; split; [reflexivity|reflexivity]].
      destruct (is_epoll s1); [|eexists _, _; split; [reflexivity|reflexivity]].
      pose proof (event_rx_on_IV s1) as X. destruct (event_rx_on s1) as [[s2|s2] fl]; cbn [fst] in X.
      - destruct fl; eexists _, _; (split; [reflexivity|]); [|exact X].
        eapply IV_trans; [exact X|reflexivity].
      - eexists _, _; split; [reflexivity|exact X]. }
    destruct Q as (r0 & u0 & -> & A2).
    destruct r0 as [s2|s2]; [|eexists _, _; split; [reflexivity|exact A2]].
    destruct (use_raw s2); [|eexists _, _; split; [reflexivity|exact A2]].
    pose proof (raw_register_IV s2 KICK_RAW) as X.
    destruct (raw_register s2 KICK_RAW) as [[s3|s3] fl]; cbn [fst] in X.
    - destruct fl; eexists _, _; (split; [reflexivity|]).
      + eapply IV_trans; [exact A2|]. eapply IV_trans; [exact X|reflexivity].
      + eapply IV_trans; [exact A2|exact X].
    - eexists _, _; split; [reflexivity|]. eapply IV_trans; [exact A2|exact X]. }
  destruct P as (r & failed & -> & A2).
  destruct failed; cbn [fst].
  - eapply IV_trans; [exact A1|exact A2].
  - eapply IV_trans; [exact A1|]. apply IVr_bind; [exact A2|]. intros s4 _. reflexivity.
Qed.

Lemma event_unregister_IV : forall s j, IVr s (event_unregister s j).
Proof.
  intros s j. unfold event_unregister.
  match goal with |- IVr s (bind (if ev_count ?S =? 0 then _ else _) _) => set (s1 := S) end.
  assert (A1 : IV s s1) by (reflexivity).
  eapply IV_trans; [exact A1|]. apply IVr_bind.
  - destruct (ev_count s1 =? 0); [|reflexivity].
    destruct (use_raw s1); [apply raw_unregister_IV|apply event_rx_off_IV].
  - intros s2 _. reflexivity.
Qed.


(* ---------- what CoreInv's invariant says about the dynamic descriptors: none is a scripted one ---------- *)
Record AU (s : core) : Prop := {
  au_next : 1000 <= next_fd (kern s);
  au_raw : forall j, rw_reg s j = true -> 1000 <= fdnum (fdt s (RAW_KEY j)) /\ 1000 <= rw_rfd s j /\ 1000 <= rw_wfd s j;
  au_kick : active_ref s <> 0 -> 1000 <= active_fd s /\ (active_wr s <> -1 -> 1000 <= active_wr s);
  au_evpos : forall j, ev_reg s j = true -> 1 <= ev_count s;
  au_kraw : use_raw s = true -> 1 <= ev_count s -> rw_reg s KICK_RAW = true;
  au_kact : use_raw s = false -> 1 <= ev_count s -> active_ref s <> 0;
  au_user : forall i, 0 <= i < 16 -> fdnum (fdt s i) = 100 + i }.

Lemma InvW_AU : forall s, InvW s -> AU s.
Proof.
  intros s [FI SY DI HP TI EI AC MI].
  pose proof (ms_kinv _ MI) as KI. destruct KI as [KN KA].
  constructor.
  - exact KN.
  - intros j RJ. destruct (dy_obj _ DI j RJ) as (FN & _). pose proof (dy_kern _ DI j RJ) as DK.
    unfold RAW_KEY. rewrite FN.
    destruct (raw_is_pipe s j).
    + destruct DK as (R1 & W1 & _). auto.
    + destruct DK as (R1 & W1 & _). rewrite W1. auto.
  - intros AR. destruct (fv_ref _ _ FI) as [Z0|O1]; [contradiction|].
    destruct (dy_act _ DI O1) as (A1 & _ & PW). split; [exact A1|].
    intros NW. destruct PW as [E|PO]; [contradiction|]. destruct PO as (_ & W1 & _). exact W1.
  - intros j ER. rewrite (ev_cnt _ EI). apply (cntf_pos _ _ j); [|exact ER].
    apply In_zseq'. pose proof (ev_range _ EI j ER). lia.
  - intros U P. apply (proj2 (ev_kick _ EI)). auto.
  - intros U P. rewrite (proj2 (ev_ref _ EI)); [discriminate|auto].
  - apply (fv_user _ _ FI).
Qed.

Lemma TF_UC : forall s r, (forall t, ufd t -> ARes (TF t s) r) -> ARes (fun s' => UC (kern s) (kern s')) r.
Proof.
  intros s r H. destruct r as [s'|s']; cbn [ARes] in *; [|exact I].
  apply KT_UC. intros t T. apply (tf_k _ _ _ (H t T)).
Qed.

(* ---------- the model's guards ---------- *)
Definition fires (s : core) (a : action) : bool :=
  match a with
  | AFdReg i => negb (registered (getfd s i)) &&
                match k_open (kern s) (fdnum (getfd s i)) with Some _ => true | None => false end
  | AFdTry i | AFdFresh i | AKClose i => negb (registered (getfd s i))
  | AFdUnreg i => registered (getfd s i)
  | AFdSetH _ _ _ | AFdCookie _ _ | AKSet _ _ | AKOpen _ => true
  | ATmRegAbs j _ | ATmRegRel j _ | ATmFresh j => negb (timer_registered s j)
  | ATmUnreg j => timer_registered s j
  | ATkReg j | ATkFresh j => negb (task_registered s j)
  | ATkUnreg j => task_registered s j
  | AEvReg j | AEvFresh j => negb (ev_reg s j)
  | AEvUnreg j | AEvPost j => ev_reg s j
  | ARwReg j | ARwFresh j => negb (rw_reg s j)
  | ARwUnreg j | ARwPost j => rw_reg s j
  | AQuit | AClockAdv _ | AInvalidate | AValidate => true
  end.

Lemma do_action_skip : forall s a, fires s a = false -> do_action s a = R s.
Proof.
  intros s a H. destruct a; cbn [fires do_action] in *; try discriminate H;
    try (destruct (registered (getfd s i)); try discriminate H; try reflexivity);
    try (destruct (timer_registered s j); try discriminate H; reflexivity);
    try (destruct (task_registered s j); try discriminate H; reflexivity);
    try (destruct (ev_reg s j); try discriminate H; reflexivity);
    try (destruct (rw_reg s j); try discriminate H; reflexivity).
  cbn [negb andb] in H. destruct (k_open (kern s) (fdnum (getfd s i))); [discriminate H|reflexivity].
Qed.

(* an executed action: the logged action, then only tracked events *)
Definition Sh (s : core) (a' : action) (s' : core) : Prop :=
  exists l, trace s' = l ++ TAct a' :: trace s /\ Forall qs l.

Lemma cs_qs : forall e, cs e -> qs e.
Proof. intros e H. destruct e; try contradiction; first [left; exact I|right; exact I]. Qed.

Lemma Sh_TrX : forall s s0 a' s', trace s0 = TAct a' :: trace s -> TrX s0 s' -> Sh s a' s'.
Proof.
  intros s s0 a' s' E (l & E1 & F). exists l. split; [rewrite E1, E; reflexivity|].
  eapply Forall_impl; [|exact F]. apply cs_qs.
Qed.

Lemma Sh_res : forall s a' r k i c, Sh s a' (res_state r) ->
  Sh s a' (res_state (bind r (fun s1 => R (emit s1 (TRes k i c))))).
Proof.
  intros s a' r k i c H. destruct r as [s1|s1]; cbn [bind res_state] in *; [|exact H].
  destruct H as (l & E & F). exists (TRes k i c :: l). split; [cbn [trace emit set_trace]; rewrite E; reflexivity|].
  constructor; [left; exact I|exact F].
Qed.

Lemma lift_heap_TrX : forall s o, TrX s (res_state (lift_heap s o)).
Proof. intros s [h|h|]; cbn [lift_heap halt res_state]; [apply TrX_same; reflexivity|apply TrX_emit; exact I|apply TrX_emit; exact I]. Qed.

Lemma trace_validate_now : forall s, trace (validate_now s) = trace s.
Proof. intros s. unfold validate_now. destruct (time_valid s); reflexivity. Qed.

Lemma Sh_now : forall s a s', trace s' = TAct a :: trace s -> Sh s a s'.
Proof. intros s a s' E. exists []. split; [exact E|constructor]. Qed.

Ltac sh_same := apply same_action_refl; intros; discriminate.
Lemma FF_TrX : forall s s', FF s s' -> TrX s s'. Proof. intros s s' (_ & _ & T). exact T. Qed.
Lemma F0_TrX : forall s s', F0 s s' -> TrX s s'. Proof. intros s s' (_ & T). exact T. Qed.
Ltac shtr X := match goal with |- Sh ?s ?a _ => apply (Sh_TrX s (emit s (TAct a))); [reflexivity|X] end.

Lemma do_action_shape : forall s a, fires s a = true ->
  exists a', same_action a a' = true /\ Sh s a' (res_state (do_action s a)).
Proof.
  intros s a H. destruct a; cbn [fires do_action] in *.
  - (* AFdReg *) apply andb_true_iff in H. destruct H as [H1 H2]. apply negb_true_iff in H1. rewrite H1.
    destruct (k_open (kern s) (fdnum (getfd s i))); [|discriminate H2].
    eexists; split; [sh_same|]. shtr ltac:(apply FF_TrX; apply fd_register_FF).
  - (* AFdTry *) apply negb_true_iff in H. rewrite H.
    pose proof (fd_register_try_FF (emit s (TAct (AFdTry i))) i) as F.
    destruct (fd_register_try (emit s (TAct (AFdTry i))) i) as [r failed]. cbn [fst] in F.
    eexists; split; [sh_same|]. apply Sh_res. shtr ltac:(first [apply FF_TrX; exact F|apply F0_TrX; exact F]).
  - (* AFdUnreg *) rewrite H. eexists; split; [sh_same|]. shtr ltac:(apply FF_TrX; apply fd_unregister_FF).
  - eexists; split; [sh_same|]. shtr ltac:(apply FF_TrX; apply fd_set_handler_FF).
  - eexists; split; [sh_same|]. apply Sh_now. reflexivity.
  - apply negb_true_iff in H. rewrite H. eexists; split; [sh_same|]. apply Sh_now. reflexivity.
  - eexists; split; [sh_same|]. apply Sh_now. reflexivity.
  - apply negb_true_iff in H. rewrite H. eexists; split; [sh_same|]. apply Sh_now. reflexivity.
  - eexists; split; [sh_same|]. apply Sh_now. reflexivity.
  - (* ATmRegAbs *) apply negb_true_iff in H. rewrite H. eexists; split; [sh_same|].
    shtr ltac:(apply lift_heap_TrX).
  - (* ATmRegRel *) apply negb_true_iff in H. rewrite H. cbv zeta.
    exists (ATmRegAbs j (time (validate_now s) + d)). split; [apply same_action_rel|].
    eapply Sh_TrX; [|apply lift_heap_TrX]. cbn [trace emit set_trace]. rewrite trace_validate_now. reflexivity.
  - rewrite H. eexists; split; [sh_same|]. shtr ltac:(apply lift_heap_TrX).
  - apply negb_true_iff in H. rewrite H. eexists; split; [sh_same|]. apply Sh_now. reflexivity.
  - (* ATkReg *) apply negb_true_iff in H. rewrite H. eexists; split; [sh_same|]. apply Sh_now.
    unfold task_register. cbv zeta. repeat dmatch; reflexivity.
  - rewrite H. eexists; split; [sh_same|]. apply Sh_now. reflexivity.
  - apply negb_true_iff in H. rewrite H. eexists; split; [sh_same|]. apply Sh_now. reflexivity.
  - (* AEvReg *) apply negb_true_iff in H. rewrite H.
    pose proof (event_register_F0 (emit s (TAct (AEvReg j))) j) as F.
    destruct (event_register (emit s (TAct (AEvReg j))) j) as [r failed]. cbn [fst] in F.
    eexists; split; [sh_same|]. apply Sh_res. shtr ltac:(first [apply FF_TrX; exact F|apply F0_TrX; exact F]).
  - rewrite H. eexists; split; [sh_same|]. shtr ltac:(apply F0_TrX; apply event_unregister_F0).
  - (* AEvPost *) rewrite H. eexists; split; [sh_same|]. apply Sh_now.
    unfold event_post. repeat dmatch; try reflexivity; unfold task_register; cbv zeta; repeat dmatch; reflexivity.
  - apply negb_true_iff in H. rewrite H. eexists; split; [sh_same|]. apply Sh_now. reflexivity.
  - (* ARwReg *) apply negb_true_iff in H. rewrite H.
    pose proof (raw_register_F0 (emit s (TAct (ARwReg j))) j) as F.
    destruct (raw_register (emit s (TAct (ARwReg j))) j) as [r failed]. cbn [fst] in F.
    eexists; split; [sh_same|]. apply Sh_res. shtr ltac:(first [apply FF_TrX; exact F|apply F0_TrX; exact F]).
  - rewrite H. eexists; split; [sh_same|]. shtr ltac:(apply F0_TrX; apply raw_unregister_F0).
  - rewrite H. eexists; split; [sh_same|]. shtr ltac:(apply F0_TrX; apply raw_post_F0).
  - apply negb_true_iff in H. rewrite H. eexists; split; [sh_same|]. apply Sh_now. reflexivity.
  - eexists; split; [sh_same|]. apply Sh_now. reflexivity.
  - eexists; split; [sh_same|]. apply Sh_now. reflexivity.
  - eexists; split; [sh_same|]. apply Sh_now. reflexivity.
  - eexists; split; [sh_same|]. apply Sh_now. cbn [trace]. apply trace_validate_now.
Qed.

(* ---------- the frame of an action ---------- *)
Lemma GFr_plain : forall s s', invoc s' = invoc s -> kern s' = kern s -> GFr s s'.
Proof. intros s s' A B. split; [exact A|rewrite B; apply UC_refl]. Qed.

Lemma GFr_kern : forall s s', invoc s' = invoc s -> (forall t, KT t (kern s) (kern s')) -> GFr s s'.
Proof. intros s s' A B. split; [exact A|apply KT_UC; intros t _; apply B]. Qed.

Lemma FFr_GFr : forall s s0 r, GFr s s0 -> FFr s0 r -> ARes (GFr s) r.
Proof.
  intros s s0 r G F. destruct r as [s1|s1]; cbn [ARes]; [|exact I].
  eapply GFr_trans; [exact G|apply FF_GFr; exact F].
Qed.

Lemma GFr_res : forall s r (e : tev), ARes (GFr s) r -> ARes (GFr s) (bind r (fun s1 => R (emit s1 e))).
Proof.
  intros s r e H. destruct r as [s1|s1]; cbn [bind ARes] in *; [|exact I].
  eapply GFr_trans; [exact H|apply GFr_plain; reflexivity].
Qed.

Lemma IVTF_GFr : forall s s0 r, GFr s s0 -> IVr s0 r -> (forall t, ufd t -> ARes (TF t s0) r) -> ARes (GFr s) r.
Proof.
  intros s s0 r G A B. pose proof (TF_UC s0 r B) as U. destruct r as [s1|s1]; cbn [ARes] in *; [|exact I].
  eapply GFr_trans; [exact G|]. split; [exact A|exact U].
Qed.

Lemma lift_heap_GFr : forall s s0 o, GFr s s0 -> ARes (GFr s) (lift_heap s0 o).
Proof.
  intros s s0 [h|h|] G; cbn [lift_heap ARes halt]; try exact I.
  eapply GFr_trans; [exact G|apply GFr_plain; reflexivity].
Qed.

Lemma task_register_plain : forall s k, invoc (task_register s k) = invoc s /\ kern (task_register s k) = kern s.
Proof. intros s k. unfold task_register. cbv zeta. repeat dmatch; split; reflexivity. Qed.

Lemma event_post_plain : forall s j, invoc (event_post s j) = invoc s /\ kern (event_post s j) = kern s.
Proof.
  intros s j. unfold event_post. repeat dmatch; try (split; reflexivity);
    match goal with |- context [task_register ?S ?K] => destruct (task_register_plain S K) as [A B]; rewrite A, B; split; reflexivity end.
Qed.

Lemma validate_plain : forall s, invoc (validate_now s) = invoc s /\ kern (validate_now s) = kern s.
Proof. intros s. unfold validate_now. destruct (time_valid s); split; reflexivity. Qed.

Lemma AU_emit : forall s e, AU s -> AU (emit s e).
Proof. intros s e []. constructor; assumption. Qed.

Lemma do_action_GFr : forall s a, InvW s -> wf_action a -> (forall i, a <> AKClose i) -> (forall i, a <> AKOpen i) ->
  ARes (GFr s) (do_action s a).
Proof.
  intros s a IW W NC NO. pose proof (InvW_AU s IW) as A0.
  assert (G0 : forall e, GFr s (emit s e)) by (intros; apply GFr_plain; reflexivity).
  destruct a; cbn [do_action wf_action] in *.
  - (* AFdReg *) repeat dmatch; cbn [ARes]; try apply GFr_refl. eapply FFr_GFr; [apply G0|apply fd_register_FF].
  - (* AFdTry *) dmatch; [apply GFr_refl|].
    pose proof (fd_register_try_FF (emit s (TAct (AFdTry i))) i) as F.
    destruct (fd_register_try _ i) as [r failed]. cbn [fst] in F. apply GFr_res. eapply FFr_GFr; [apply G0|exact F].
  - dmatch; [|apply GFr_refl]. eapply FFr_GFr; [apply G0|apply fd_unregister_FF].
  - eapply FFr_GFr; [apply G0|apply fd_set_handler_FF].
  - cbn [ARes]. apply GFr_plain; reflexivity.
  - dmatch; cbn [ARes]; [apply GFr_refl|apply GFr_plain; reflexivity].
  - (* AKSet *) cbn [ARes]. apply GFr_kern; [reflexivity|]. intros t. cbn [kern set_kern]. unfold k_set_cond.
    destruct (k_get (kern s) (100 + i)) eqn:G; [|apply KT_refl]. eapply KT_put_any; [exact G|repeat split].
  - exfalso. eapply NC; reflexivity.
  - exfalso. eapply NO; reflexivity.
  - (* ATmRegAbs *) dmatch; [apply GFr_refl|]. apply lift_heap_GFr. apply G0.
  - (* ATmRegRel *) dmatch; [apply GFr_refl|]. cbv zeta. apply lift_heap_GFr. destruct (validate_plain s) as [P Q].
    apply GFr_plain; cbn [invoc kern emit set_trace]; assumption.
  - dmatch; [|apply GFr_refl]. apply lift_heap_GFr. apply G0.
  - dmatch; cbn [ARes]; [apply GFr_refl|apply G0].
  - (* ATkReg *) dmatch; cbn [ARes]; [apply GFr_refl|].
    destruct (task_register_plain (emit s (TAct (ATkReg j))) j) as [P Q]. apply GFr_plain; [rewrite P|rewrite Q]; reflexivity.
  - dmatch; cbn [ARes]; [|apply GFr_refl]. apply GFr_plain; reflexivity.
  - dmatch; cbn [ARes]; [apply GFr_refl|]. apply GFr_plain; reflexivity.
  - (* AEvReg *) dmatch; [apply GFr_refl|].
    set (ex := emit s (TAct (AEvReg j))). pose proof (AU_emit s (TAct (AEvReg j)) A0) as A. fold ex in A.
    assert (Q : ARes (GFr s) (fst (event_register ex j))).
    { eapply IVTF_GFr; [apply G0|apply event_register_IV|]. intros t T. unfold ufd in T. apply event_register_TF.
      - pose proof (au_next _ A). lia.
      - intros H. destruct (au_kick _ A H) as [X _]. lia. }
    destruct (event_register ex j) as [r failed]. cbn [fst] in Q. apply GFr_res. exact Q.
  - (* AEvUnreg *) destruct (ev_reg s j) eqn:ER; [|apply GFr_refl].
    set (ex := emit s (TAct (AEvUnreg j))). pose proof (AU_emit s (TAct (AEvUnreg j)) A0) as A. fold ex in A.
    assert (EP : 1 <= ev_count ex) by (apply (au_evpos _ A j); exact ER).
    eapply IVTF_GFr; [apply G0|apply event_unregister_IV|]. intros t T. unfold ufd in T. apply event_unregister_TF.
    + intros U. destruct (au_raw _ A KICK_RAW (au_kraw _ A U EP)) as (X1 & X2 & X3). repeat split; lia.
    + intros U. destruct (au_kick _ A (au_kact _ A U EP)) as (X1 & X2). split; [lia|]. intros NW. specialize (X2 NW). lia.
  - (* AEvPost *) dmatch; cbn [ARes]; [|apply GFr_refl].
    destruct (event_post_plain (emit s (TAct (AEvPost j))) j) as [P Q]. apply GFr_plain; [rewrite P|rewrite Q]; reflexivity.
  - dmatch; cbn [ARes]; [apply GFr_refl|apply G0].
  - (* ARwReg *) dmatch; [apply GFr_refl|].
    set (ex := emit s (TAct (ARwReg j))). pose proof (AU_emit s (TAct (ARwReg j)) A0) as A. fold ex in A.
    assert (Q : ARes (GFr s) (fst (raw_register ex j))).
    { eapply IVTF_GFr; [apply G0|apply raw_register_IV|]. intros t T. unfold ufd in T. apply raw_register_TF.
      pose proof (au_next _ A). lia. }
    destruct (raw_register ex j) as [r failed]. cbn [fst] in Q. apply GFr_res. exact Q.
  - (* ARwUnreg *) destruct (rw_reg s j) eqn:RG; [|apply GFr_refl].
    set (ex := emit s (TAct (ARwUnreg j))). pose proof (AU_emit s (TAct (ARwUnreg j)) A0) as A. fold ex in A.
    destruct (au_raw _ A j RG) as (X1 & X2 & X3).
    eapply IVTF_GFr; [apply G0|apply raw_unregister_IV|]. intros t T. unfold ufd in T. apply raw_unregister_TF; lia.
  - (* ARwPost *) dmatch; cbn [ARes]; [|apply GFr_refl].
    eapply GFr_trans; [apply (G0 (TAct (ARwPost j)))|]. split; [apply raw_post_IV|].
    apply KT_UC. intros t _. apply (tf_k _ _ _ (raw_post_TF t _ j)).
  - dmatch; cbn [ARes]; [apply GFr_refl|apply G0].
  - cbn [ARes]. apply GFr_plain; reflexivity.
  - cbn [ARes]. apply GFr_kern; [reflexivity|]. intros t. apply KT_clock.
  - cbn [ARes]. apply GFr_plain; reflexivity.
  - cbn [ARes]. destruct (validate_plain (emit s (TAct AValidate))) as [P Q]. apply GFr_plain; [rewrite P|rewrite Q]; reflexivity.
Qed.

(* ---------- the monitor's view of the scripted descriptors ---------- *)
Definition UCf (k : kernel) (f : Z -> bool) : Prop :=
  forall i, inr16 i -> exists v, k_get k (100 + i) = Some v /\ vclosed v = f i.

Lemma UCf_UC : forall k k' f, UCf k f -> UC k k' -> UCf k' f.
Proof.
  intros k k' f H U i I16. destruct (H i I16) as (v & G & E).
  assert (T : ufd (100 + i)) by (unfold ufd, inr16 in *; lia).
  destruct (U _ T v G) as (v' & G' & E'). exists v'. split; [exact G'|congruence].
Qed.

Lemma allowed_fires : forall b s g a, J b s -> InvW s -> g_m g = mst s -> UCf (kern s) (g_closed g) -> wf_action a ->
  allowed g a = fires s a.
Proof.
  intros b s g a Jh IW M U W. pose proof (j_ag _ _ Jh) as AG.
  destruct a; cbn [allowed fires wf_action] in *; rewrite ?M; unfold getfd;
    try (rewrite (ag_fd _ _ AG i W)); try (rewrite (ag_tm _ _ AG j W)); try (rewrite (ag_tk _ _ AG j W));
    try (rewrite (ag_ev _ _ AG j W)); try (rewrite (ag_rw _ _ AG j W)); try reflexivity.
  (* AFdReg *)
  f_equal. rewrite (fv_user _ _ (iw_fd _ IW) i W). destruct (U i W) as (v & G & E).
  unfold k_open. rewrite G, <- E. destruct (vclosed v); reflexivity.
Qed.

Lemma closed_after_same : forall f a a', same_action a a' = true -> closed_after f a' = closed_after f a.
Proof.
  intros f a a' H. destruct a, a'; cbn [same_action] in H; try discriminate H; try reflexivity;
    apply Z.eqb_eq in H; subst; reflexivity.
Qed.

Lemma do_action_closed : forall s a s' f, InvW s -> wf_action a -> do_action s a = R s' -> fires s a = true ->
  UCf (kern s) f -> invoc s' = invoc s /\ UCf (kern s') (closed_after f a).
Proof.
  intros s a s' f IW W E FI U.
  assert (GEN : (forall i, a <> AKClose i) -> (forall i, a <> AKOpen i) -> closed_after f a = f ->
                invoc s' = invoc s /\ UCf (kern s') (closed_after f a)).
  { intros NC NO CA. pose proof (do_action_GFr s a IW W NC NO) as G. rewrite E in G. cbn [ARes] in G. destruct G as [G1 G2].
    split; [exact G1|]. rewrite CA. eapply UCf_UC; eassumption. }
  destruct a; try (apply GEN; [intros; discriminate|intros; discriminate|reflexivity]).
  - (* AKClose *) cbn [do_action fires] in *. apply negb_true_iff in FI. rewrite FI in E. inversion E; subst s'. clear E GEN.
    split; [reflexivity|]. cbn [kern set_kern closed_after]. intros i0 I0. destruct (U i0 I0) as (v & G & EV).
    unfold k_user_close. destruct (U i W) as (vi & Gi & _). rewrite Gi. rewrite k_get_put'. unfold upd.
    destruct (Z.eqb_spec i0 i) as [->|N].
    + replace (100 + i =? 100 + i) with true by (symmetry; apply Z.eqb_refl). eexists. split; reflexivity.
    + replace (100 + i0 =? 100 + i) with false by (symmetry; apply Z.eqb_neq; lia). exists v. auto.
  - (* AKOpen *) cbn [do_action] in E. inversion E; subst s'. clear E GEN.
    split; [reflexivity|]. cbn [kern set_kern closed_after]. intros i0 I0. destruct (U i0 I0) as (v & G & EV).
    unfold k_user_fd. rewrite k_get_put'. unfold upd.
    destruct (Z.eqb_spec i0 i) as [->|N].
    + replace (100 + i =? 100 + i) with true by (symmetry; apply Z.eqb_refl). eexists. split; reflexivity.
    + replace (100 + i0 =? 100 + i) with false by (symmetry; apply Z.eqb_neq; lia). exists v. auto.
Qed.
