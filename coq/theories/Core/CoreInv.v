(* CoreInv.v -- the state invariant of the core-loop model: top-level statements.
   Build order: CoreInvBase, CoreInvDefs, CoreInvFd, CoreInvPoll, CoreInvReg,
   CoreInvObj, CoreInvAct, CoreInvActR, CoreInvActB, CoreInvActC, CoreInvTm,
   CoreInvLoop, CoreInvActA, CoreInvWait, CoreInvTop, CoreInv.

   Inv s  = InvW s /\ Quiet s (CoreInvDefs.v): InvW holds wherever a handler
   script can run, Quiet adds the clauses that are suspended inside the loop
   phases (expired batch, task round, event batch, dispatch list all empty).
   InvT s = Inv s /\ TfdM s adds "the timer descriptor exists only under the
   epoll-timerfd method", which iv_fd_poll_and_run needs. *)
From Coq Require Import List ZArith Bool Lia.
From Ivv Require Export Core.CoreInvBase Core.CoreInvDefs.
From Ivv Require Import Core.Kernel Core.CoreTypes Core.CoreFd Core.CoreModel Core.CoreSpec
  Core.CoreInvFd Core.CoreInvPoll Core.CoreInvReg Core.CoreInvObj Core.CoreInvAct Core.CoreInvActR
  Core.CoreInvActB Core.CoreInvActC Core.CoreInvTm Core.CoreInvLoop Core.CoreInvActA Core.CoreInvWait Core.CoreInvTop.
From Ivv Require Timer.HeapModel Timer.HeapSpec.
Import ListNotations.
Local Open Scope Z_scope.

(* ---------- every action of a handler script ---------- *)
Lemma do_action_ok : forall s a, InvW s -> wf_action a -> okr (StepW s) (do_action s a).
Proof.
  intros s a I W.
  destruct a; first [apply do_action_ok_A; [assumption|assumption|exact Logic.I]
                    |apply do_action_ok_B; [assumption|assumption|exact Logic.I]].
Qed.

Definition InvT (s : core) : Prop := Inv s /\ TfdM s.

Lemma InvT_LoopInv : forall s, InvT s <-> LoopInv s.
Proof. intros s. unfold InvT. symmetry. apply LoopInv_Inv. Qed.

Lemma StepT_Inv : forall s s', Inv s -> StepT s s' -> Inv s'.
Proof. intros s s' (I & Q) (I' & F & _). split; [assumption|eapply Quiet_Fr; eassumption]. Qed.
Lemma StepT_InvT : forall s s', InvT s -> StepT s s' -> InvT s'.
Proof. intros s s' (I & T) S. split; [eapply StepT_Inv; eassumption|eapply TfdM_tm; [exact T|apply S]]. Qed.

(* uniform shapes: X_ok (okr), X_inv (R result), X_no_bad (Halt result) *)
Lemma okr_inv : forall (P : core -> Prop) r s', okr P r -> r = R s' -> P s'.
Proof. intros P r s' H ->. exact H. Qed.
Lemma okr_no_bad : forall (P : core -> Prop) r s', okr P r -> r = Halt s' -> ~ In TCrash (trace s') /\ ~ In TFatal (trace s').
Proof. intros P r s' H ->. exact H. Qed.

Section Phases.
Variable sc : scenario.
Hypothesis WF : wf_scenario sc.
Let Hh := wf_handlers sc WF.

Lemma do_action_okT' : forall s a, InvW s -> wf_action a -> okr (StepT s) (do_action s a).
Proof. intros. apply (do_action_okT do_action_ok); assumption. Qed.
Lemma run_acts_ok' : forall s l, InvW s -> Forall wf_action l -> okr (StepT s) (run_acts s l).
Proof. intros. apply (run_acts_ok do_action_ok); assumption. Qed.
Lemma run_script_ok' : forall s key, InvW s -> okr (StepT s) (run_script sc s key).
Proof. intros. apply (run_script_ok sc Hh do_action_ok); assumption. Qed.
Lemma run_pending_events_ok' : forall s, InvW s -> okr (StepT s) (run_pending_events sc s).
Proof. intros. apply (run_pending_events_ok sc Hh do_action_ok); assumption. Qed.
Lemma raw_got_event_ok' : forall s j, InvW s -> rw_reg s j = true -> okr (StepT s) (raw_got_event sc s j).
Proof. intros. apply (raw_got_event_ok sc Hh do_action_ok); assumption. Qed.
Lemma call_fd_ok' : forall s k band h, InvW s -> registered (fdt s k) = true -> hsel (fdt s k) h ->
  okr (StepT s) (call_fd sc s k band h).
Proof. intros. apply (call_fd_ok sc Hh do_action_ok); assumption. Qed.
Lemma dispatch_active_ok' : forall fuel s, InvW s -> (length (active s) < fuel)%nat ->
  okr (DispPost s) (dispatch_active sc fuel s).
Proof. intros. apply (dispatch_active_ok sc Hh do_action_ok); assumption. Qed.
Lemma run_timers_ok' : forall s, InvW s -> Q3 s -> okr (PhPost s) (run_timers sc s).
Proof. intros. apply (run_timers_ok sc Hh do_action_ok); assumption. Qed.
Lemma run_tasks_ok' : forall s, InvW s -> Q3 s -> okr (PhPost s) (run_tasks sc s).
Proof. intros. apply (run_tasks_ok sc Hh do_action_ok); assumption. Qed.
Lemma wait_enter_ok' : forall s, InvW s -> okr (EnterPost sc s) (wait_enter sc s).
Proof. intros. apply (wait_enter_ok sc WF); assumption. Qed.
Lemma epoll_poll_ok' : forall s abs, InvW s -> Q3 s -> TfdM s -> is_epoll s = true ->
  okr (PollPost sc s) (fst (epoll_poll sc s abs)).
Proof. intros. apply (epoll_poll_ok sc WF do_action_ok); assumption. Qed.
Lemma poll_poll_ok' : forall s abs, InvW s -> Q3 s -> TfdM s -> is_epoll s = false ->
  okr (PollPost sc s) (fst (poll_poll sc s abs)).
Proof. intros. apply (poll_poll_ok sc WF do_action_ok); assumption. Qed.
Lemma timeout_check_ok' : forall s abs, InvW s -> method s = M_ET -> okr (TCPost s) (fst (timeout_check s abs)).
Proof. intros. apply (timeout_check_ok sc WF do_action_ok); assumption. Qed.
Lemma poll_and_run_ok' : forall s abs, LoopInv s -> okr (PRPost sc s) (fst (poll_and_run sc s abs)).
Proof. intros. apply (poll_and_run_ok sc WF do_action_ok); assumption. Qed.
Lemma main_loop_ok' : forall fuel s rt, LoopInv s -> nwait (kern s) <= sc_limit sc ->
  (Z.to_nat (sc_limit sc - nwait (kern s)) < fuel)%nat -> okr LoopInv (main_loop sc fuel s rt).
Proof. intros. apply (main_loop_ok sc WF do_action_ok); assumption. Qed.
Lemma teardown_ok' : forall l s, InvW s -> (forall i, In i l -> ok_idx i) -> okr (StepT s) (teardown s l).
Proof. intros. apply (teardown_ok do_action_ok); assumption. Qed.

(* ---- Inv is preserved by every operation that returns R ---- *)
Lemma do_action_inv : forall s a s', Inv s -> wf_action a -> do_action s a = R s' -> Inv s'.
Proof. intros s a s' I W E. eapply StepT_Inv; [exact I|]. exact (okr_inv _ _ _ (do_action_okT' s a (proj1 I) W) E). Qed.
Lemma run_acts_inv : forall s l s', Inv s -> Forall wf_action l -> run_acts s l = R s' -> Inv s'.
Proof. intros s l s' I W E. eapply StepT_Inv; [exact I|]. exact (okr_inv _ _ _ (run_acts_ok' s l (proj1 I) W) E). Qed.
Lemma run_script_inv : forall s key s', Inv s -> run_script sc s key = R s' -> Inv s'.
Proof. intros s key s' I E. eapply StepT_Inv; [exact I|]. exact (okr_inv _ _ _ (run_script_ok' s key (proj1 I)) E). Qed.
Lemma run_pending_events_inv : forall s s', Inv s -> run_pending_events sc s = R s' -> Inv s'.
Proof. intros s s' I E. eapply StepT_Inv; [exact I|]. exact (okr_inv _ _ _ (run_pending_events_ok' s (proj1 I)) E). Qed.
Lemma raw_got_event_inv : forall s j s', Inv s -> rw_reg s j = true -> raw_got_event sc s j = R s' -> Inv s'.
Proof. intros s j s' I R E. eapply StepT_Inv; [exact I|]. exact (okr_inv _ _ _ (raw_got_event_ok' s j (proj1 I) R) E). Qed.
Lemma call_fd_inv : forall s k band h s', Inv s -> registered (fdt s k) = true -> hsel (fdt s k) h ->
  call_fd sc s k band h = R s' -> Inv s'.
Proof. intros s k band h s' I R H E. eapply StepT_Inv; [exact I|]. exact (okr_inv _ _ _ (call_fd_ok' s k band h (proj1 I) R H) E). Qed.

Lemma Ph_Inv : forall s s', Inv s -> PhPost s s' -> Inv s' /\ nwait (kern s') = nwait (kern s) /\ tm s s'.
Proof.
  intros s s' (I & Q) (I' & Q' & T' & N' & A'). split; [|tauto]. split; [assumption|]. apply Quiet_Q3. split; [assumption|].
  rewrite (q_active _ Q) in A'. destruct (active s'); [reflexivity|cbn in A'; lia].
Qed.
Lemma run_timers_inv : forall s s', Inv s -> run_timers sc s = R s' -> Inv s'.
Proof.
  intros s s' I E. pose proof I as (IW & Q). apply Quiet_Q3 in Q.
  exact (proj1 (Ph_Inv _ _ I (okr_inv _ _ _ (run_timers_ok' s IW (proj1 Q)) E))).
Qed.
Lemma run_tasks_inv : forall s s', Inv s -> run_tasks sc s = R s' -> Inv s'.
Proof.
  intros s s' I E. pose proof I as (IW & Q). apply Quiet_Q3 in Q.
  exact (proj1 (Ph_Inv _ _ I (okr_inv _ _ _ (run_tasks_ok' s IW (proj1 Q)) E))).
Qed.
Lemma dispatch_active_inv : forall fuel s s', InvW s -> Q3 s -> (length (active s) < fuel)%nat ->
  dispatch_active sc fuel s = R s' -> Inv s'.
Proof.
  intros fuel s s' I Q L E. destruct (okr_inv _ _ _ (dispatch_active_ok' fuel s I L) E) as (I' & Q' & _ & A').
  split; [assumption|]. apply Quiet_Q3. split; [eapply Q3_Fq; eassumption|assumption].
Qed.
Lemma wait_enter_inv : forall s s', Inv s -> wait_enter sc s = R s' -> Inv s' /\ notify s' = notify s /\ fdt s' = fdt s.
Proof.
  intros s s' (I & Q) E. destruct (okr_inv _ _ _ (wait_enter_ok' s I) E) as (I' & K & _).
  split; [|split; [apply (ko_notify _ _ K)|apply (ko_fdt _ _ K)]]. split; [assumption|]. apply Quiet_Q3. apply Quiet_Q3 in Q.
  split; [apply (KO_Q3 _ _ K); apply Q|rewrite (ko_active _ _ K); apply Q].
Qed.
Lemma timeout_check_inv : forall s abs s', InvT s -> method s = M_ET -> fst (timeout_check s abs) = R s' -> InvT s'.
Proof.
  intros s abs s' ((I & Q) & T) M E. destruct (okr_inv _ _ _ (timeout_check_ok sc WF do_action_ok s abs I M) E) as (I' & F & T' & _).
  split; [|assumption]. split; [assumption|]. apply Quiet_Q3. apply Quiet_Q3 in Q.
  split; [apply (TcFr_Q3 _ _ F); apply Q|rewrite (tc_active _ _ F); apply Q].
Qed.
Lemma poll_and_run_inv : forall s abs s', InvT s -> fst (poll_and_run sc s abs) = R s' ->
  InvT s' /\ nwait (kern s') = nwait (kern s) + 1 /\ nwait (kern s') <= sc_limit sc.
Proof.
  intros s abs s' I E. apply InvT_LoopInv in I. destruct (okr_inv _ _ _ (poll_and_run_ok' s abs I) E) as (L & N).
  split; [apply InvT_LoopInv; assumption|assumption].
Qed.
Lemma main_loop_inv : forall fuel s rt s', InvT s -> nwait (kern s) <= sc_limit sc ->
  (Z.to_nat (sc_limit sc - nwait (kern s)) < fuel)%nat -> main_loop sc fuel s rt = R s' -> InvT s'.
Proof.
  intros fuel s rt s' I N F E. apply InvT_LoopInv in I. apply InvT_LoopInv.
  exact (okr_inv _ _ _ (main_loop_ok' fuel s rt I N F) E).
Qed.
Lemma teardown_inv : forall l s s', Inv s -> (forall i, In i l -> ok_idx i) -> teardown s l = R s' -> Inv s'.
Proof. intros l s s' I OK E. eapply StepT_Inv; [exact I|]. exact (okr_inv _ _ _ (teardown_ok' l s (proj1 I) OK) E). Qed.

Lemma core0_inv : InvT (core0 sc) /\ nwait (kern (core0 sc)) = 0.
Proof. destruct (core0_Inv sc WF) as (A & B & C). split; [split; assumption|assumption]. Qed.

End Phases.

(* ---------- (2) no run of a well-formed scenario crashes or aborts ---------- *)
Theorem core_no_crash : forall sc, wf_scenario sc -> ~ In TCrash (run_scenario sc) /\ ~ In TFatal (run_scenario sc).
Proof. intros sc WF. exact (core_no_crash_gen sc WF do_action_ok). Qed.

(* ---------- (3) iv_fd_unregister unlinks the descriptor object ---------- *)
(* k < 16: a descriptor of the application.  (The keys 16.. are the descriptors
   inside raw events; they are unregistered only through raw_unregister, which
   also clears rw_reg -- a bare fd_unregister on them breaks DynInv.) *)
Theorem fd_unregister_unlinks : forall s k s', Inv s -> k < 16 -> registered (getfd s k) = true ->
  fd_unregister s k = R s' ->
  Inv s' /\ ~ In k (active s') /\ ~ In k (notify s') /\ ~ In k (pkeys s') /\ handled s' <> Some k /\
  ep_find (ep (kern s')) (fdnum (getfd s' k)) = false.
Proof.
  intros s k s' (I & Q) K R E. unfold getfd in *.
  pose proof (fd_unregister_InvW s k I R K) as H. rewrite E in H. cbn [okr] in H.
  destruct H as ((I' & F) & (_ & _ & _ & _ & A & B & C & D & G & _)).
  split; [split; [assumption|eapply Quiet_Fr; eassumption]|]. tauto.
Qed.

(* ---------- (4) the invariant's components under stable names ---------- *)
Lemma inv_live : forall s k, InvW s -> registered (fdt s k) = true -> 0 <= k <= 32 /\
  k_open (kern s) (fdnum (fdt s k)) <> None.
Proof.
  intros s k I R. pose proof (fv_range _ _ (iw_fd _ I) k R) as G. split; [assumption|].
  apply (fv_open _ _ (iw_fd _ I)). apply live_none. tauto.
Qed.
Lemma inv_active_registered : forall s k, InvW s -> In k (active s) -> registered (fdt s k) = true.
Proof. intros s k I H. apply (fv_active _ _ (iw_fd _ I)) in H. apply live_none in H. tauto. Qed.
Lemma inv_handled_registered : forall s k, InvW s -> handled s = Some k -> registered (fdt s k) = true.
Proof. intros s k I H. apply (fv_handled _ _ (iw_fd _ I)) in H. apply live_none in H. tauto. Qed.
Lemma inv_notify_registered : forall s k, InvW s -> In k (notify s) -> registered (fdt s k) = true.
Proof. intros s k I H. apply (fv_notify _ _ (iw_fd _ I)) in H. apply live_none in H. tauto. Qed.
Lemma inv_pkeys_registered : forall s k, InvW s -> In k (pkeys s) -> registered (fdt s k) = true.
Proof.
  intros s k I H. apply In_nth_error in H. destruct H as (n & H).
  destruct (fv_pkey _ _ (iw_fd _ I) n k H) as (L & _). apply live_none in L. tauto.
Qed.
Lemma inv_wanted : forall s k, InvW s -> registered (fdt s k) = true -> wanted (fdt s k) = bands_of (fdt s k).
Proof. intros s k I R. apply (iw_sync _ I k R). Qed.
Lemma inv_notify_iff : forall s k, InvW s -> is_epoll s = true -> registered (fdt s k) = true ->
  (In k (notify s) <-> regb (fdt s k) <> wanted (fdt s k)).
Proof. intros s k I E R. destruct (iw_sync _ I k R) as (_ & A & _). auto. Qed.
(* epoll: the kernel's interest entry of a registered descriptor *)
Lemma inv_kernel_interest : forall s k, InvW s -> is_epoll s = true -> registered (fdt s k) = true ->
  (regb (fdt s k) <> 0 ->
     exists e, In e (ep (kern s)) /\ en_fd e = fdnum (fdt s k) /\ en_data e = k /\
               en_events e = epoll_mask (regb (fdt s k))) /\
  (regb (fdt s k) = 0 -> ep_find (ep (kern s)) (fdnum (fdt s k)) = false) /\
  (~ In k (notify s) -> regb (fdt s k) = bands_of (fdt s k)).
Proof.
  intros s k I E R. pose proof (iw_fd _ I) as FI. destruct (inv_live s k I R) as (G & _).
  assert (L : live s (-1) k) by (apply live_none; tauto).
  split; [|split].
  - intros NZ. destruct (fv_has _ _ FI E k L NZ) as (e & A & B & C). exists e. split; [assumption|]. split; [assumption|].
    split; [assumption|]. destruct (fv_ent _ _ FI e A) as [(_ & _ & _ & D)|[(D & _)|(D & _)]]; [rewrite C in D; exact D|lia|lia].
  - apply (fv_none _ _ FI E k L).
  - intros NN. rewrite <- (inv_wanted s k I R). destruct (Z.eq_dec (regb (fdt s k)) (wanted (fdt s k))); [assumption|].
    exfalso. apply NN. apply (inv_notify_iff s k I E R). assumption.
Qed.
(* poll: the slot of a registered descriptor *)
Lemma inv_poll_slot : forall s k, InvW s -> is_epoll s = false -> registered (fdt s k) = true ->
  (wanted (fdt s k) = 0 -> pidx (fdt s k) = -1 /\ ~ In k (pkeys s)) /\
  (wanted (fdt s k) <> 0 -> 0 <= pidx (fdt s k) /\
     nth_error (pkeys s) (Z.to_nat (pidx (fdt s k))) = Some k /\
     nth_error (pfds s) (Z.to_nat (pidx (fdt s k))) = Some (fdnum (fdt s k), poll_mask (wanted (fdt s k)))).
Proof.
  intros s k I E R. pose proof (iw_fd _ I) as FI. destruct (inv_live s k I R) as (G & _).
  assert (L : live s (-1) k) by (apply live_none; tauto).
  destruct (iw_sync _ I k R) as (_ & _ & S). destruct (S E) as (S1 & S2). split.
  - intros W. assert (P : pidx (fdt s k) = -1) by (destruct (Z.eq_dec (pidx (fdt s k)) (-1)); [assumption|exfalso; apply (proj1 S1); assumption]).
    split; [assumption|]. eapply pidx_none_notin; eassumption.
  - intros W. assert (P : pidx (fdt s k) <> -1) by (apply S1; assumption).
    destruct (fv_pidx _ _ FI E k L) as [Q|(Q1 & Q2)]; [contradiction|]. split; [assumption|]. split; [assumption|].
    destruct (fv_pkey _ _ FI _ _ Q2) as (_ & _ & ev & EV). rewrite EV. f_equal. f_equal.
    exact (S2 _ EV P).
Qed.
Lemma inv_numobjs : forall s, InvW s ->
  numobjs s = numfds s + HeapModel.num (heap s) + Z.of_nat (length (tasks s ++ curl s)) + ev_count s + active_ref s /\
  numfds s = cntf (fun k => registered (fdt s k)) (zseq 0 33).
Proof. intros s I. destruct (iw_acct _ I). split; assumption. Qed.
Lemma inv_heap : forall s, Inv s -> HeapSpec.HeapInv (heap s) /\ HeapModel.batch (heap s) = [].
Proof. intros s (I & Q). split; [apply (iw_heap _ I)|apply (q_batch _ Q)]. Qed.
Lemma inv_tasks : forall s, Inv s -> cur s = None /\ NoDup (tasks s) /\ (forall k, In k (tasks s) -> 0 <= k <= 16) /\
  (forall k, task_registered s k = true <-> In k (tasks s)).
Proof.
  intros s (I & Q). pose proof (q_cur _ Q) as C. destruct (iw_task _ I) as [A B]. unfold curl in A, B. rewrite C in A, B.
  rewrite app_nil_r in A, B. split; [assumption|]. split; [assumption|]. split; [assumption|].
  intros k. unfold task_registered. rewrite C, orb_false_r. apply memz_In.
Qed.
Lemma inv_events : forall s, Inv s -> EvInv s /\ ev_batch s = [].
Proof. intros s (I & Q). split; [apply (iw_ev _ I)|apply (q_evb _ Q)]. Qed.
Lemma inv_raw : forall s j, InvW s -> rw_reg s j = true -> 0 <= j <= 16 /\ registered (fdt s (16 + j)) = true /\
  fdnum (fdt s (16 + j)) = rw_rfd s j /\ h_in (fdt s (16 + j)) = Some (H_RAW j).
Proof.
  intros s j I R. pose proof (iw_dyn _ I) as D. pose proof (dy_range _ D j R) as G. split; [assumption|].
  split; [rewrite (dy_reg _ D j G); assumption|]. destruct (dy_obj _ D j R) as (A & B & _). tauto.
Qed.
Lemma inv_trace : forall s, InvW s -> ~ In TCrash (trace s) /\ ~ In TFatal (trace s).
Proof. intros s I. apply (ms_nobad _ (iw_misc _ I)). Qed.
