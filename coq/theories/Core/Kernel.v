(* Kernel.v -- the virtual kernel, Coq twin of /verif/harness/vk.c (see
   DESIGN.md Appendix B).  Executable definitions only.

   Descriptors are numbers: scripted user descriptors 100+i whose ground-truth
   conditions the scenario sets, and descriptors created by the library
   (epoll, eventfd, pipe ends, timerfd) numbered 1000, 1001, ... in creation
   order and never reused.  Conditions and interest masks are bit sets:
   IN=1 OUT=2 HUP=4 ERR=8; epoll interest uses IN=1 OUT=2 ONESHOT=4. *)

From Coq Require Import List ZArith Bool.
Import ListNotations.
Local Open Scope Z_scope.

Definition B_IN : Z := 1.
Definition B_OUT : Z := 2.
Definition B_HUP : Z := 4.
Definition B_ERR : Z := 8.
Definition E_ONESHOT : Z := 4.

Definition has (x b : Z) : bool := negb (Z.land x b =? 0).

Definition K_SCRIPTED : Z := 1.
Definition K_EVENTFD : Z := 2.
Definition K_PIPE_R : Z := 3.
Definition K_PIPE_W : Z := 4.
Definition K_TIMERFD : Z := 5.
Definition K_EPOLL : Z := 6.

Record vfd := {
  vkind : Z;
  vclosed : bool;
  vcond : Z;            (* scripted: ground truth *)
  vcnt : Z;             (* eventfd counter / pipe fill (kept on the read end) *)
  vpeer : Z;
  vpeer_open : bool;
  vdeadline : Z;        (* timerfd: absolute ns, 0 = disarmed *)
  vfired : bool;
}.

Definition vfd0 (kind : Z) : vfd :=
  {| vkind := kind; vclosed := false; vcond := 0; vcnt := 0; vpeer := 0; vpeer_open := false;
     vdeadline := 0; vfired := false |}.

(* epoll interest entry; the data word is a tag: >= 0 an fd-object key,
   -1 the loop state (kick), -2 &st->time (timer descriptor) *)
Record epent := { en_fd : Z; en_events : Z; en_data : Z; en_enabled : bool }.

Record faults := {
  no_pwait2 : bool; perm_pwait2 : bool; no_timerfd : bool; no_ppoll : bool;
  no_eventfd2 : bool; no_eventfd : bool; no_create1 : bool; emfile : bool;
  eintr_waits : list Z; eintr_ctl : Z;
  efd_ok : Z;           (* eventfd creations that succeed before no_eventfd2 / no_eventfd take effect (0 = from the first call) *)
}.

Definition no_faults : faults :=
  {| no_pwait2 := false; perm_pwait2 := false; no_timerfd := false; no_ppoll := false;
     no_eventfd2 := false; no_eventfd := false; no_create1 := false; emfile := false;
     eintr_waits := []; eintr_ctl := 0; efd_ok := 0 |}.

Record kernel := {
  vfds : list (Z * vfd);     (* association list, most recent binding first *)
  next_fd : Z;
  clock : Z;
  ep : list epent;           (* the (single) epoll instance, in insertion order *)
  nwait : Z;
  nctl : Z;
  nefd : Z;                  (* eventfd descriptors created so far *)
  flt : faults;
}.

Definition kernel0 (f : faults) : kernel :=
  {| vfds := []; next_fd := 1000; clock := 1000000000; ep := []; nwait := 0; nctl := 0; nefd := 0; flt := f |}.

Definition k_set_vfds (k : kernel) (v : list (Z * vfd)) : kernel :=
  {| vfds := v; next_fd := next_fd k; clock := clock k; ep := ep k; nwait := nwait k; nctl := nctl k; nefd := nefd k; flt := flt k |}.
Definition k_set_next (k : kernel) (n : Z) : kernel :=
  {| vfds := vfds k; next_fd := n; clock := clock k; ep := ep k; nwait := nwait k; nctl := nctl k; nefd := nefd k; flt := flt k |}.
Definition k_set_clock (k : kernel) (c : Z) : kernel :=
  {| vfds := vfds k; next_fd := next_fd k; clock := c; ep := ep k; nwait := nwait k; nctl := nctl k; nefd := nefd k; flt := flt k |}.
Definition k_set_ep (k : kernel) (e : list epent) : kernel :=
  {| vfds := vfds k; next_fd := next_fd k; clock := clock k; ep := e; nwait := nwait k; nctl := nctl k; nefd := nefd k; flt := flt k |}.
Definition k_set_nwait (k : kernel) (n : Z) : kernel :=
  {| vfds := vfds k; next_fd := next_fd k; clock := clock k; ep := ep k; nwait := n; nctl := nctl k; nefd := nefd k; flt := flt k |}.
Definition k_set_nefd (k : kernel) (n : Z) : kernel :=
  {| vfds := vfds k; next_fd := next_fd k; clock := clock k; ep := ep k; nwait := nwait k; nctl := nctl k; nefd := n; flt := flt k |}.
Definition k_set_nctl (k : kernel) (n : Z) : kernel :=
  {| vfds := vfds k; next_fd := next_fd k; clock := clock k; ep := ep k; nwait := nwait k; nctl := n; nefd := nefd k; flt := flt k |}.

Fixpoint assoc {A} (l : list (Z * A)) (x : Z) : option A :=
  match l with
  | [] => None
  | (y, a) :: l' => if x =? y then Some a else assoc l' x
  end.

Definition k_get (k : kernel) (fd : Z) : option vfd := assoc (vfds k) fd.

(* vk_open: exists and not closed *)
Definition k_open (k : kernel) (fd : Z) : option vfd :=
  match k_get k fd with
  | Some v => if vclosed v then None else Some v
  | None => None
  end.

Definition k_put (k : kernel) (fd : Z) (v : vfd) : kernel := k_set_vfds k ((fd, v) :: vfds k).

Definition k_alloc (k : kernel) (kind : Z) : Z * kernel :=
  let fd := next_fd k in
  (fd, k_put (k_set_next k (fd + 1)) fd (vfd0 kind)).

Definition with_cond (v : vfd) (c : Z) : vfd :=
  {| vkind := vkind v; vclosed := vclosed v; vcond := c; vcnt := vcnt v; vpeer := vpeer v;
     vpeer_open := vpeer_open v; vdeadline := vdeadline v; vfired := vfired v |}.
Definition with_closed (v : vfd) (b : bool) : vfd :=
  {| vkind := vkind v; vclosed := b; vcond := vcond v; vcnt := vcnt v; vpeer := vpeer v;
     vpeer_open := vpeer_open v; vdeadline := vdeadline v; vfired := vfired v |}.
Definition with_cnt (v : vfd) (c : Z) : vfd :=
  {| vkind := vkind v; vclosed := vclosed v; vcond := vcond v; vcnt := c; vpeer := vpeer v;
     vpeer_open := vpeer_open v; vdeadline := vdeadline v; vfired := vfired v |}.
Definition with_peer (v : vfd) (p : Z) (o : bool) : vfd :=
  {| vkind := vkind v; vclosed := vclosed v; vcond := vcond v; vcnt := vcnt v; vpeer := p;
     vpeer_open := o; vdeadline := vdeadline v; vfired := vfired v |}.
Definition with_timer (v : vfd) (d : Z) (f : bool) : vfd :=
  {| vkind := vkind v; vclosed := vclosed v; vcond := vcond v; vcnt := vcnt v; vpeer := vpeer v;
     vpeer_open := vpeer_open v; vdeadline := d; vfired := f |}.

(* vk_cond: current condition bits of a descriptor *)
Definition k_cond (k : kernel) (fd : Z) : Z :=
  match k_get k fd with
  | None => 0
  | Some v =>
      if vkind v =? K_SCRIPTED then vcond v
      else if vkind v =? K_EVENTFD then (if 0 <? vcnt v then B_IN else 0) + B_OUT
      else if vkind v =? K_PIPE_R then (if 0 <? vcnt v then B_IN else 0) + (if vpeer_open v then 0 else B_HUP)
      else if vkind v =? K_PIPE_W then
        (match k_get k (vpeer v) with
         | Some r => if vcnt r <? 65536 then B_OUT else 0
         | None => 0
         end) + (if vpeer_open v then 0 else B_ERR)
      else if vkind v =? K_TIMERFD then
        (if vfired v || (negb (vdeadline v =? 0) && (vdeadline v <=? clock k)) then B_IN else 0)
      else 0
  end.

(* ---- epoll ---- *)
Inductive errno : Type := EINTR | EBADF | EEXIST | ENOENT | EAGAIN | ENOSYS | EPERM | EMFILE | EINVAL | EPIPE.

Definition CTL_ADD : Z := 1.
Definition CTL_DEL : Z := 2.
Definition CTL_MOD : Z := 3.

Fixpoint ep_find (l : list epent) (fd : Z) : bool :=
  match l with
  | [] => false
  | e :: l' => (en_fd e =? fd) || ep_find l' fd
  end.

Fixpoint ep_remove (l : list epent) (fd : Z) : list epent :=
  match l with
  | [] => []
  | e :: l' => if en_fd e =? fd then ep_remove l' fd else e :: ep_remove l' fd
  end.

Fixpoint ep_replace (l : list epent) (n : epent) : list epent :=
  match l with
  | [] => []
  | e :: l' => if en_fd e =? en_fd n then n :: l' else e :: ep_replace l' n
  end.

(* epoll_ctl on the loop's epoll descriptor; the k-th call can be made to fail with EINTR *)
Definition k_epoll_ctl (k : kernel) (op fd events data : Z) : kernel * option errno :=
  let k := k_set_nctl k (nctl k + 1) in
  if negb (eintr_ctl (flt k) =? 0) && (nctl k =? eintr_ctl (flt k)) then (k, Some EINTR) else
  match k_open k fd with
  | None => (k, Some EBADF)
  | Some _ =>
      let present := ep_find (ep k) fd in
      let ent := {| en_fd := fd; en_events := events; en_data := data; en_enabled := true |} in
      if op =? CTL_ADD then
        if present then (k, Some EEXIST) else (k_set_ep k (ep k ++ [ent]), None)
      else if op =? CTL_MOD then
        if present then (k_set_ep k (ep_replace (ep k) ent), None) else (k, Some ENOENT)
      else
        if present then (k_set_ep k (ep_remove (ep k) fd), None) else (k, Some ENOENT)
  end.

(* insertion sort by descriptor number (the canonical order of the interest log and
   the base order in which ready descriptors are reported) *)
Fixpoint ins_ent (e : epent) (l : list epent) : list epent :=
  match l with
  | [] => [e]
  | x :: l' => if en_fd e <? en_fd x then e :: l else x :: ins_ent e l'
  end.
Definition sort_ents (l : list epent) : list epent := fold_right ins_ent [] l.

Definition ep_ready_bits (k : kernel) (e : epent) : Z :=
  if negb (en_enabled e) then 0 else
  let c := k_cond k (en_fd e) in
  (if has c B_IN && has (en_events e) B_IN then B_IN else 0) +
  (if has c B_OUT && has (en_events e) B_OUT then B_OUT else 0) +
  (if has c B_HUP then B_HUP else 0) + (if has c B_ERR then B_ERR else 0).

Definition rotate {A} (n : nat) (l : list A) : list A := skipn n l ++ firstn n l.

(* scan the (rotated, sorted) entries, report at most maxev ready ones: (ready bits, data) *)
Fixpoint ep_scan (k : kernel) (l : list epent) (maxev : nat) : list (Z * Z * Z) :=
  match l, maxev with
  | [], _ => []
  | _, O => []
  | e :: l', S m =>
      let r := ep_ready_bits k e in
      if r =? 0 then ep_scan k l' maxev
      else (en_fd e, r, en_data e) :: ep_scan k l' m
  end.

Definition disable_oneshot (l : list epent) (reported : list (Z * Z * Z)) : list epent :=
  map (fun e =>
         if existsb (fun r => fst (fst r) =? en_fd e) reported && has (en_events e) E_ONESHOT
         then {| en_fd := en_fd e; en_events := en_events e; en_data := en_data e; en_enabled := false |}
         else e) l.

(* earliest armed timer descriptor in the interest set (for sleeping) *)
Definition ep_wake (k : kernel) (sorted : list epent) (wake : Z) : Z :=
  fold_left (fun w e =>
               match k_get k (en_fd e) with
               | Some v =>
                   if (vkind v =? K_TIMERFD) && negb (vdeadline v =? 0) && has (en_events e) B_IN
                      && en_enabled e && ((w <? 0) || (vdeadline v <? w))
                   then vdeadline v else w
               | None => w
               end) sorted wake.

Inductive wait_result : Type :=
| WReady (k : kernel) (evs : list (Z * Z * Z))      (* (fd, ready bits, data) *)
| WEintr (k : kernel)
| WHang
| WLimit.

(* the sleeping part shared by both epoll waits; timeout in ns, -1 = infinite.
   Precondition: the wait counter and trace entry have been handled by the caller. *)
Definition k_epoll_sleep (k : kernel) (maxev : Z) (timeout : Z) (rot : Z) : wait_result :=
  let sorted := sort_ents (ep k) in
  let n := Z.of_nat (length sorted) in
  let r := if n =? 0 then O else Z.to_nat (rot mod n) in
  let order := rotate r sorted in
  let evs := ep_scan k order (Z.to_nat maxev) in
  match evs with
  | _ :: _ => WReady (k_set_ep k (disable_oneshot (ep k) evs)) evs
  | [] =>
      if timeout =? 0 then WReady k []
      else
        let wake0 := if timeout <? 0 then -1 else clock k + timeout in
        let wake := ep_wake k sorted wake0 in
        if wake <? 0 then WHang
        else
          let k1 := if clock k <? wake then k_set_clock k wake else k in
          let evs1 := ep_scan k1 order (Z.to_nat maxev) in
          WReady (k_set_ep k1 (disable_oneshot (ep k1) evs1)) evs1
  end.

(* ---- poll ---- *)
Definition P_NVAL : Z := 16.

Definition poll_revents (k : kernel) (fd events : Z) : Z :=
  match k_open k fd with
  | None => P_NVAL
  | Some _ =>
      let c := k_cond k fd in
      (if has c B_IN && has events B_IN then B_IN else 0) +
      (if has c B_OUT && has events B_OUT then B_OUT else 0) +
      (if has c B_HUP then B_HUP else 0) + (if has c B_ERR then B_ERR else 0)
  end.

(* pfds: list of (fd, events); result: revents per entry *)
Definition poll_eval (k : kernel) (pfds : list (Z * Z)) : list Z :=
  map (fun p => poll_revents k (fst p) (snd p)) pfds.

Definition count_nonzero (l : list Z) : Z :=
  Z.of_nat (length (filter (fun x => negb (x =? 0)) l)).

Inductive poll_result : Type :=
| PReady (k : kernel) (revents : list Z)
| PHang.

Definition k_poll_sleep (k : kernel) (pfds : list (Z * Z)) (timeout : Z) : poll_result :=
  let r := poll_eval k pfds in
  if (0 <? count_nonzero r) || (timeout =? 0) then PReady k r
  else if timeout <? 0 then PHang
  else let k1 := k_set_clock k (clock k + timeout) in PReady k1 (poll_eval k1 pfds).

(* ---- read / write / close ---- *)
Definition k_read (k : kernel) (fd : Z) (count : Z) : kernel * (Z + errno) :=
  match k_open k fd with
  | None => (k, inr EBADF)
  | Some v =>
      if vkind v =? K_EVENTFD then
        if count <? 8 then (k, inr EINVAL)
        else if vcnt v =? 0 then (k, inr EAGAIN)
        else (k_put k fd (with_cnt v 0), inl 8)
      else if vkind v =? K_PIPE_R then
        if vcnt v =? 0 then (if vpeer_open v then (k, inr EAGAIN) else (k, inl 0))
        else let n := Z.min (vcnt v) count in (k_put k fd (with_cnt v (vcnt v - n)), inl n)
      else if vkind v =? K_TIMERFD then
        if has (k_cond k fd) B_IN then (k_put k fd (with_timer v 0 false), inl 8)
        else (k, inr EAGAIN)
      else (k, inr EAGAIN)
  end.

(* value: the 64-bit number written to an eventfd; count bytes to a pipe *)
Definition k_write (k : kernel) (fd : Z) (count : Z) (value : Z) : kernel * (Z + errno) :=
  match k_open k fd with
  | None => (k, inr EBADF)
  | Some v =>
      if vkind v =? K_EVENTFD then
        if count <? 8 then (k, inr EINVAL)
        else (k_put k fd (with_cnt v (vcnt v + value)), inl 8)
      else if vkind v =? K_PIPE_W then
        if negb (vpeer_open v) then (k, inr EPIPE)
        else match k_get k (vpeer v) with
             | None => (k, inr EPIPE)
             | Some r =>
                 let room := 65536 - vcnt r in
                 let n := Z.min count room in
                 if n <=? 0 then (k, inr EAGAIN)
                 else (k_put k (vpeer v) (with_cnt r (vcnt r + n)), inl n)
             end
      else (k, inr EAGAIN)
  end.

Definition k_close (k : kernel) (fd : Z) : kernel * bool :=
  match k_open k fd with
  | None => (k, false)
  | Some v =>
      let k1 := k_put k fd (with_closed v true) in
      let k2 := if (vkind v =? K_PIPE_R) || (vkind v =? K_PIPE_W)
                then match k_get k1 (vpeer v) with
                     | Some p => k_put k1 (vpeer v) (with_peer p (vpeer p) false)
                     | None => k1
                     end
                else k1 in
      (k_set_ep k2 (ep_remove (ep k2) fd), true)
  end.

(* pipe(): read end first *)
Definition k_pipe (k : kernel) : kernel * option (Z * Z) :=
  if emfile (flt k) then (k, None) else
  let '(r, k1) := k_alloc k K_PIPE_R in
  let '(w, k2) := k_alloc k1 K_PIPE_W in
  let k3 := k_put k2 r (with_peer (vfd0 K_PIPE_R) w true) in
  let k4 := k_put k3 w (with_peer (vfd0 K_PIPE_W) r true) in
  (k4, Some (r, w)).

(* eventfd2 (flags2 = true) / eventfd.  The faults no_eventfd2 / no_eventfd take effect once
   efd_ok descriptors have been created (efd_ok = 0: from the first call). *)
Definition efd_cut (k : kernel) : bool := efd_ok (flt k) <=? nefd k.

Definition k_eventfd (k : kernel) (flags2 : bool) : kernel * (Z + errno) :=
  if emfile (flt k) then (k, inr EMFILE)
  else if efd_cut k && (no_eventfd (flt k) || (flags2 && no_eventfd2 (flt k))) then (k, inr ENOSYS)
  else let '(fd, k1) := k_alloc k K_EVENTFD in (k_set_nefd k1 (nefd k1 + 1), inl fd).

Definition k_timerfd_create (k : kernel) : kernel * (Z + errno) :=
  if no_timerfd (flt k) then (k, inr ENOSYS)
  else let '(fd, k1) := k_alloc k K_TIMERFD in (k1, inl fd).

Definition k_timerfd_settime (k : kernel) (fd : Z) (deadline : Z) : kernel :=
  match k_open k fd with
  | Some v => k_put k fd (with_timer v deadline false)
  | None => k
  end.

Definition k_epoll_create (k : kernel) : Z * kernel := k_alloc k K_EPOLL.

(* the scripted user descriptors 100+i *)
Definition k_user_fd (k : kernel) (i : Z) : kernel := k_put k (100 + i) (vfd0 K_SCRIPTED).

Definition k_set_cond (k : kernel) (i : Z) (c : Z) : kernel :=
  match k_get k (100 + i) with
  | Some v => k_put k (100 + i) (with_cond v c)
  | None => k
  end.

Definition k_user_close (k : kernel) (i : Z) : kernel :=
  match k_get k (100 + i) with
  | Some v => k_put k (100 + i) (with_closed v true)
  | None => k
  end.

(* ground truth of the scripted descriptors for the trace: those open with a condition set *)
Fixpoint zseq (lo : Z) (n : nat) : list Z :=
  match n with O => [] | S m => lo :: zseq (lo + 1) m end.

Definition ground (k : kernel) : list (Z * Z) :=
  flat_map (fun fd =>
              match k_open k fd with
              | Some v => if (vkind v =? K_SCRIPTED) && negb (vcond v =? 0) then [(fd, vcond v)] else []
              | None => []
              end) (zseq 100 16).

Definition open_dyn (k : kernel) : Z :=
  Z.of_nat (length (filter (fun fd => match k_open k fd with Some _ => true | None => false end)
                           (zseq 1000 (Z.to_nat (next_fd k - 1000))))).
