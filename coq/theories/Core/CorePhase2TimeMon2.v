(* CorePhase2TimeMon2.v -- the tracker clauses checked when a kernel wait returns
   or hangs (codes 602 604 403 404 405 901 902), as conditions on the tracker state. *)
From Coq Require Import List ZArith Bool Lia.
From Ivv Require Import Core.Kernel Core.CoreTypes Core.CoreFd Core.CoreModel Core.Monitors
  Core.CoreRelBase Core.CoreRelMon Core.CorePhase2TimeMon Core.CorePhase2TimeFr Core.CorePhase2TimeT1.
Import ListNotations.
Local Open Scope Z_scope.

Lemma any_obj_false : forall f, any_obj f = false <-> (forall j, 0 <= j < 16 -> f j = false).
Proof.
  intros f. unfold any_obj, objs. split.
  - intros H j J. destruct (f j) eqn:E; [|reflexivity].
    assert (X : existsb f (zseq 0 16) = true) by (apply existsb_exists; exists j; split; [apply In_zseq; lia|exact E]).
    congruence.
  - intros H. destruct (existsb f (zseq 0 16)) eqn:E; [|reflexivity].
    apply existsb_exists in E. destruct E as (j & I & E). apply In_zseq in I. rewrite H in E by lia. discriminate.
Qed.

Lemma min_expiry_ext : forall m m', a_tm m' = a_tm m -> a_exp m' = a_exp m -> min_expiry m' = min_expiry m.
Proof. intros m m' A B. unfold min_expiry. rewrite A, B. reflexivity. Qed.

Lemma min_expiry_In : forall m e, min_expiry m = Some e ->
  exists j, 0 <= j < 16 /\ a_tm m j = true /\ a_exp m j = e.
Proof.
  intros m e. unfold min_expiry, objs.
  assert (G : forall l acc, fold_left (fun acc j => if a_tm m j then
                            match acc with Some e => Some (Z.min e (a_exp m j)) | None => Some (a_exp m j) end
                          else acc) l acc = Some e ->
              acc = Some e \/ exists j, In j l /\ a_tm m j = true /\ a_exp m j = e).
  { induction l as [|j l IH]; intros acc H; cbn [fold_left] in H; [left; exact H|].
    apply IH in H. destruct H as [H|(j' & I & A & B)]; [|right; exists j'; split; [right; exact I|auto]].
    destruct (a_tm m j) eqn:TJ; [|left; exact H].
    destruct acc as [e0|]; inversion H as [E].
    - destruct (Z.min_spec e0 (a_exp m j)) as [[_ Q]|[_ Q]]; rewrite Q.
      + left. reflexivity.
      + right. exists j. split; [left; reflexivity|auto].
    - right. exists j. split; [left; reflexivity|auto]. }
  intros H. destruct (G _ _ H) as [D|(j & I & A & B)]; [discriminate D|].
  exists j. apply In_zseq in I. split; [lia|auto].
Qed.

Section RA.
Context `{RAi : RawAssume}.

Ltac nfc := first [ apply NF_chk_ne; [|discriminate] | apply NF_chk_true ].

Lemma G1_TRet_some : forall m n fds clk, G1 m ->
  (a_clk m < clk -> any_obj (a_tk m) = false) ->
  (raw_assume -> a_clk m < clk -> any_obj (fun j => a_rw m j && a_rwp m j) = false) ->
  (a_clk m < clk -> a_stale m = false -> forall e, min_expiry m = Some e ->
     a_clk m < e /\ clk <= Z.max (a_clk m) (if (w_call m =? 0) || (w_call m =? 2) then a_clk m + ceil_ms (e - a_clk m) else e)) ->
  G1 (mon_step m (TRet (Some n) fds clk)).
Proof.
  intros m n fds clk G C602 C902 C04. lazy beta iota delta [mon_step]. repeat lift_let.
  intros c Hc. pose proof (G c Hc) as N. pose proof (Act_all c Hc) as Ha.
  assert (SL : slept = true -> a_clk m < clk) by (unfold slept; intros H; apply Z.ltb_lt; exact H).
  assert (N2 : NF c m2).
  { unfold m2, m1, m0. cbn in Ha. repeat (apply NF_chk_ne; [|intros ->; intuition discriminate]). exact N. }
  assert (E2 : a_tk m2 = a_tk m /\ a_rw m2 = a_rw m /\ a_rwp m2 = a_rwp m /\ a_stale m2 = a_stale m /\ a_tm m2 = a_tm m /\
               a_exp m2 = a_exp m /\ a_clk m2 = a_clk m /\ w_call m2 = w_call m).
  { unfold m2, m1, m0. autorewrite with monp monq. repeat split. }
  clearbody m2. destruct E2 as (E2a & E2b & E2c & E2d & E2e & E2f & E2g & E2h).
  assert (N3 : NF c m3).
  { unfold m3. destruct (Z.eq_dec c 602) as [->|NE]; [|apply NF_chk_ne; assumption].
    apply NF_chk_true; [exact N2|]. rewrite E2a. destruct slept; [|reflexivity]. rewrite (C602 (SL eq_refl)). reflexivity. }
  assert (E3 : a_rw m3 = a_rw m /\ a_rwp m3 = a_rwp m /\ a_stale m3 = a_stale m /\ a_tm m3 = a_tm m /\
               a_exp m3 = a_exp m /\ a_clk m3 = a_clk m /\ w_call m3 = w_call m).
  { unfold m3. autorewrite with monp monq. repeat split; assumption. }
  clearbody m3. destruct E3 as (E3b & E3c & E3d & E3e & E3f & E3g & E3h).
  assert (N4 : NF c m4).
  { unfold m4. cbn in Ha. apply NF_chk_ne; [exact N3|intros ->; intuition discriminate]. }
  assert (E4 : a_rw m4 = a_rw m /\ a_rwp m4 = a_rwp m /\ a_stale m4 = a_stale m /\ a_tm m4 = a_tm m /\
               a_exp m4 = a_exp m /\ a_clk m4 = a_clk m /\ w_call m4 = w_call m).
  { unfold m4. autorewrite with monp monq. repeat split; assumption. }
  clearbody m4. destruct E4 as (E4b & E4c & E4d & E4e & E4f & E4g & E4h).
  assert (N5 : NF c m5).
  { unfold m5. destruct (Z.eq_dec c 902) as [->|NE]; [|apply NF_chk_ne; assumption].
    apply NF_chk_true; [exact N4|]. rewrite E4b, E4c. destruct slept; [|reflexivity].
    rewrite (C902 (Act_raw 902 Hc ltac:(cbn; tauto)) (SL eq_refl)). reflexivity. }
  assert (E5 : a_stale m5 = a_stale m /\ a_tm m5 = a_tm m /\ a_exp m5 = a_exp m /\ a_clk m5 = a_clk m /\ w_call m5 = w_call m).
  { unfold m5. autorewrite with monp monq. repeat split; assumption. }
  clearbody m5. destruct E5 as (E5d & E5e & E5f & E5g & E5h).
  assert (N6 : NF c m6).
  { unfold m6. destruct (slept && negb (a_stale m5)) eqn:SS; [|exact N5].
    apply andb_true_iff in SS. destruct SS as [S1 S2]. apply negb_true_iff in S2. rewrite E5d in S2.
    rewrite (min_expiry_ext m m5 E5e E5f). destruct (min_expiry m) as [e|] eqn:ME; [|exact N5]. cbv zeta.
    destruct (C04 (SL S1) S2 e eq_refl) as [Q1 Q2].
    autorewrite with monp monq. rewrite E5g, E5h.
    destruct (Z.eq_dec c 404) as [->|NE4].
    - apply NF_chk_true; [apply NF_chk_ne; [exact N5|discriminate]|]. apply Z.leb_le. exact Q2.
    - apply NF_chk_ne; [|exact NE4]. destruct (Z.eq_dec c 403) as [->|NE3]; [|apply NF_chk_ne; assumption].
      apply NF_chk_true; [exact N5|]. apply Z.ltb_lt. exact Q1. }
  clearbody m6. unfold m10, m9, m8, m7. intros H.
  cbn [fails m_fds m_tms m_tks m_evs m_rws m_loop m_wait m_iter m_spin] in H. revert H.
  cbn in Ha. apply NF_chk_ne; [exact N6|intros ->; intuition discriminate].
Qed.

Lemma G1_THang : forall m, G1 m -> any_obj (a_tm m) = false -> any_obj (a_tk m) = false ->
  (raw_assume -> any_obj (fun j => a_rw m j && a_rwp m j) = false) -> G1 (mon_step m THang).
Proof.
  intros m G C1 C2 C3 c Hc. pose proof (G c Hc) as N. pose proof (Act_all c Hc) as Ha. lazy beta iota delta [mon_step]. repeat lift_let.
  assert (N0 : NF c m0).
  { unfold m0. cbn in Ha. apply NF_chk_ne; [exact N|intros ->; intuition discriminate]. }
  assert (E0 : a_tm m0 = a_tm m /\ a_tk m0 = a_tk m /\ a_rw m0 = a_rw m /\ a_rwp m0 = a_rwp m).
  { unfold m0. autorewrite with monp monq. repeat split. }
  clearbody m0. destruct E0 as (E0a & E0b & E0c & E0d).
  assert (N1 : NF c m1).
  { unfold m1. destruct (Z.eq_dec c 405) as [->|NE]; [|apply NF_chk_ne; assumption].
    apply NF_chk_true; [exact N0|]. rewrite E0a, C1. reflexivity. }
  assert (E1 : a_tk m1 = a_tk m /\ a_rw m1 = a_rw m /\ a_rwp m1 = a_rwp m).
  { unfold m1. autorewrite with monp monq. repeat split; assumption. }
  clearbody m1. destruct E1 as (E1b & E1c & E1d).
  assert (N2 : NF c m2).
  { unfold m2. destruct (Z.eq_dec c 604) as [->|NE]; [|apply NF_chk_ne; assumption].
    apply NF_chk_true; [exact N1|]. rewrite E1b, C2. reflexivity. }
  assert (E2 : a_rw m2 = a_rw m /\ a_rwp m2 = a_rwp m).
  { unfold m2. autorewrite with monp monq. repeat split; assumption. }
  clearbody m2. destruct E2 as (E2c & E2d).
  assert (N3 : NF c m3).
  { unfold m3. cbn in Ha. apply NF_chk_ne; [exact N2|intros ->; intuition discriminate]. }
  assert (E3 : a_rw m3 = a_rw m /\ a_rwp m3 = a_rwp m).
  { unfold m3. autorewrite with monp monq. repeat split; assumption. }
  clearbody m3. destruct E3 as (E3c & E3d).
  destruct (Z.eq_dec c 901) as [->|NE]; [|apply NF_chk_ne; assumption].
  apply NF_chk_true; [exact N3|]. rewrite E3c, E3d, (C3 (Act_raw 901 Hc ltac:(cbn; tauto))). reflexivity.
Qed.
End RA.

(* the call recorded at the wait *)
Lemma w_call_TWait : forall m n call mx t i g, w_call (mon_step m (TWait n call mx t i g)) = call.
Proof. intros. unfold mon_step. cbv zeta. reflexivity. Qed.
