(* CorePhase2K1.v -- the kernel-timer invariant K1 (DESIGN A.4) of the epoll-timerfd method:
   exported statements.  Build order: CorePhase2K1Base, CorePhase2K1Fd, CorePhase2K1Act,
   CorePhase2K1Inv, CorePhase2K1Loop, CorePhase2K1Wait, CorePhase2K1Poll, CorePhase2K1.
   The family imports only Kernel/CoreTypes/CoreFd/CoreModel/CoreSpec, CoreRelBase (+ CoreRelFd
   qualified) and CoreInv*; everything is stated for an arbitrary `do_action_ok` hypothesis (the
   statement of CoreInv.do_action_ok), to be instantiated by the user.

   LK s = TEnt s /\ K1 s:
     TEnt: once created, the timer descriptor is open, of kind K_TIMERFD, and has an enabled
           epoll entry with events = B_IN;
     K1:   method = M_ET -> last_abs_count = 5 -> the descriptor's deadline is dd (last_abs)
           (dd a = if a =? 0 then 1 else a).
   TFs s s' (frame): tfd, method, last_abs, last_abs_count unchanged, the entries of tfd and its
           vfd (deadline, fired, kind, closed) preserved.   LK s -> TFs s s' -> LK s'.
   PK s r: a result R s' has InvW s' /\ TFs s s' -- proved for every action and loop phase
           (do_action_K ... run_tasks_K, wait_enter_K, do_epoll_wait_K, epoll_wait_m_K).
   timeout_check_LK, epoll_poll_T, poll_and_run_LKM: the invariant through iv_fd_poll_and_run. *)
From Coq Require Import List ZArith Bool Lia.
From Ivv Require Import Core.Kernel Core.CoreTypes Core.CoreFd Core.CoreModel Core.CoreSpec
  Core.CoreInvBase Core.CoreInvDefs Core.CoreInvFd Core.CoreInvPoll Core.CoreInvReg Core.CoreInvObj
  Core.CoreInvTm Core.CoreInvLoop Core.CoreInvWait Core.CoreRelBase.
From Ivv Require Export Core.CorePhase2K1Base Core.CorePhase2K1Fd Core.CorePhase2K1Act Core.CorePhase2K1Inv
  Core.CorePhase2K1Loop Core.CorePhase2K1Wait Core.CorePhase2K1Poll.
Import ListNotations.
Local Open Scope Z_scope.

(* the invariant as it is carried around the main loop *)
Definition LKM (s : core) : Prop := method s = M_ET -> LK s.

Lemma LKM_TFs : forall s s', LKM s -> TFs s s' -> LKM s'.
Proof. intros s s' L T M. rewrite (tf_method _ _ _ T) in M. eapply LK_TFs; [apply L; exact M|exact T]. Qed.

(* ---------- a due timer descriptor makes the wait return at once ---------- *)
Lemma timer_ready : forall s, LK s -> method s = M_ET -> last_abs_count s = 5 -> last_abs s <= 0 ->
  1 <= clock (kern s) -> exists e, In e (ep (kern s)) /\ ep_ready_bits (kern s) e <> 0.
Proof.
  intros s [TE K] M C LA CK. destruct (K M C) as (NT & v & G & D).
  destruct (TE NT) as (v' & e & O & KD & IE & EF & EV & EN).
  apply k_open_get in O. destruct O as [G' _]. rewrite G in G'. inversion G'; subst v'.
  exists e. split; [exact IE|]. unfold ep_ready_bits. rewrite EN. cbn [negb].
  assert (CD : k_cond (kern s) (en_fd e) = B_IN).
  { unfold k_cond. rewrite EF, G, KD.
    change (K_TIMERFD =? K_SCRIPTED) with false. change (K_TIMERFD =? K_EVENTFD) with false.
    change (K_TIMERFD =? K_PIPE_R) with false. change (K_TIMERFD =? K_PIPE_W) with false.
    change (K_TIMERFD =? K_TIMERFD) with true. cbv iota.
    assert (DN : vdeadline v <> 0 /\ vdeadline v <= clock (kern s)).
    { rewrite D. unfold dd. destruct (Z.eqb_spec (last_abs s) 0); lia. }
    destruct DN as [D1 D2]. apply Z.eqb_neq in D1. apply Z.leb_le in D2. rewrite D1, D2. cbn. rewrite orb_true_r. reflexivity. }
  rewrite CD, EV. cbn. discriminate.
Qed.

Section Poll.
Variable sc : scenario.
Hypothesis WF : wf_scenario sc.
Hypothesis do_action_ok : forall s a, InvW s -> wf_action a -> okr (StepW s) (do_action s a).
Let Hh := wf_handlers sc WF.

Lemma poll_activate_KF : forall t keys revs s, KF t s (poll_activate s keys revs).
Proof.
  intros t. induction keys as [|k keys IH]; intros revs s; cbn [poll_activate]; [apply KF_refl|].
  destruct revs as [|r revs]; [apply KF_refl|]. eapply KF_trans; [apply activate_KF|apply IH].
Qed.

Lemma do_poll_wait_method : forall s call timeout s', InvW s -> fst (do_poll_wait sc s call timeout) = R s' ->
  method s' = method s.
Proof.
  intros s call timeout s' I. unfold do_poll_wait.
  pose proof (wait_enter_K sc WF do_action_ok s I) as Q.
  destruct (wait_enter sc s) as [s1|s1]; [|discriminate]. unfold PK in Q. cbn [ARes] in Q. destruct Q as [_ T1]. cbv zeta.
  destruct (mem_z _ _); cbn [fst].
  - intros E. inversion E; subst. rewrite <- (tf_method _ _ _ T1). destruct (0 <? timeout); reflexivity.
  - destruct (k_poll_sleep _ _ _) as [k1 revs|]; cbn [fst halt]; [|discriminate].
    intros E. inversion E; subst. rewrite <- (tf_method _ _ _ T1).
    match goal with |- method (poll_activate ?X ?k ?r) = _ => rewrite (kf_method _ _ _ (poll_activate_KF 0 k r X)) end.
    reflexivity.
Qed.

Lemma poll_poll_noET : forall s abs s', InvW s -> is_epoll s = false -> fst (poll_poll sc s abs) = R s' -> method s' <> M_ET.
Proof.
  intros s abs s' I IE. unfold poll_poll.
  assert (NE : method s <> M_ET) by (unfold is_epoll in IE; intros E; rewrite E in IE; discriminate IE).
  assert (V : forall s0, InvW s0 -> method s0 <> M_ET ->
    fst (let '(s1, ms) := to_msec s0 abs in do_poll_wait sc s1 2 (if ms <? 0 then -1 else ms * 1000000)) = R s' -> method s' <> M_ET).
  { intros s0 I0 N0. unfold to_msec. destruct abs as [a|]; cbn [to_relative].
    - intros E. rewrite (do_poll_wait_method _ _ _ _ (InvW_validate s0 I0) E). unfold validate_now. destruct (time_valid s0); exact N0.
    - intros E. rewrite (do_poll_wait_method _ _ _ _ I0 E). exact N0. }
  destruct (Z.eqb_spec (method s) M_PP) as [MP|MP]; [|apply V; assumption].
  assert (W : forall s1, InvW s1 -> method s1 = M_PP ->
    (if no_ppoll (flt (kern s1)) then
       fst (let '(s2, ms) := to_msec (set_method (invalidate_now s1) M_PO) abs in do_poll_wait sc s2 2 (if ms <? 0 then -1 else ms * 1000000))
     else fst (do_poll_wait sc s1 3 (match snd (to_relative s abs) with Some r => r | None => -1 end))) = R s' -> method s' <> M_ET).
  { intros s1 I1 M1. destruct (no_ppoll _).
    - apply V; [|cbn [method set_method]; discriminate].
      apply InvW_set_method; [apply InvW_invalidate; exact I1| |unfold M_PO; lia].
      unfold is_epoll. cbn [method set_method invalidate_now set_time]. rewrite M1. reflexivity.
    - intros E. rewrite (do_poll_wait_method _ _ _ _ I1 E), M1. discriminate. }
  destruct abs as [a|]; cbn [to_relative].
  - specialize (W (validate_now s) (InvW_validate s I) ltac:(unfold validate_now; destruct (time_valid s); exact MP)).
    cbn [to_relative snd] in W. destruct (no_ppoll _); exact W.
  - specialize (W s I MP). cbn [to_relative snd] in W. destruct (no_ppoll _); exact W.
Qed.

(* iv_fd_poll_and_run *)
Lemma poll_and_run_LKM : forall s abs s', LoopInv s -> LKM s -> fst (poll_and_run sc s abs) = R s' -> LKM s'.
Proof.
  intros s abs s' (I & Q & TM & AC) L. unfold poll_and_run.
  pose proof (ms_kinv _ (iw_misc _ I)) as KI. destruct KI as [KN _].
  assert (DISP : forall s1, InvW s1 -> (method s1 = M_ET -> LK s1) ->
            dispatch_active sc (S (length (active s1))) s1 = R s' -> LKM s').
  { intros s1 I1 L1 E. pose proof (dispatch_active_K sc WF do_action_ok (S (length (active s1))) s1 I1) as P.
    rewrite E in P. unfold PK in P. cbn [ARes] in P. destruct P as [_ T]. eapply LKM_TFs; [exact L1|exact T]. }
  destruct (Z.eqb_spec (method s) M_ET) as [ME|NE].
  - (* epoll-timerfd *)
    pose proof (timeout_check_ok sc WF do_action_ok s abs I ME) as TC.
    destruct (timeout_check s abs) as [[s0|s0] fl] eqn:TCE; cbn [fst okr] in TC; [|cbn [fst bind]; discriminate].
    destruct TC as (I0 & F0 & TM0 & IE0).
    pose proof (timeout_check_LK s abs s0 fl (L ME) ltac:(lia) ME TCE) as L0.
    pose proof (TcFr_Q3 _ _ F0 Q) as Q0.
    destruct fl.
    + (* the kernel timer replaces the timeout *)
      destruct (m_poll sc s0 None) as [r rt] eqn:MP. cbn [fst].
      unfold m_poll in MP. rewrite IE0 in MP.
      destruct r as [s1|s1]; cbn [bind]; [|discriminate].
      assert (E1 : fst (epoll_poll sc s0 None) = R s1) by (rewrite MP; reflexivity).
      destruct (epoll_poll_T sc WF do_action_ok s0 None s1 I0 Q0 TM0 IE0 (proj1 L0) E1) as (I1 & TE1 & M41 & TF1).
      destruct rt.
      * apply DISP; [apply (InvW_coresame s1); [constructor; reflexivity|apply (ms_nobad _ (iw_misc _ I1))|exact I1]|].
        intros _. split; [apply (TEnt_plain s1); [reflexivity|reflexivity|exact TE1]|]. intros _ C. cbn in C. discriminate C.
      * apply DISP; [exact I1|]. intros M1. eapply LK_TFs; [exact L0|]. apply TF1; [reflexivity| |rewrite MP; reflexivity].
        rewrite <- (t4_method _ _ M41). exact M1.
    + (* an ordinary wait: the count is not 5 *)
      assert (C0 : method s0 = M_ET -> last_abs_count s0 <> 5).
      { intros M0 C5. revert TCE. unfold timeout_check. cbv zeta.
        destruct (_ && _); [discriminate|].
        set (s1 := if last_abs_count s =? 5 then tfd_settime s 0 else s).
        destruct abs as [a|]; [|cbn [abs_cmp Z.eqb]; intros E; inversion E; subst; cbn in C5; discriminate C5].
        destruct (abs_cmp (Some a) (last_abs s) =? 0); [|intros E; inversion E; subst; cbn in C5; discriminate C5].
        set (s2 := if last_abs_count s1 <? 5 then _ else s1).
        destruct (Z.eqb_spec (last_abs_count s2) 5) as [E5|N5]; [|intros E; inversion E; subst; contradiction].
        intros E. assert (TE2 : TEnt s2).
        { assert (TE1 : TEnt s1).
          { unfold s1. destruct (last_abs_count s =? 5); [|apply (L ME)].
            destruct (Z.eq_dec (tfd s) (-1)) as [X|X]; [intros N; exfalso; apply N; exact X|].
            apply (tfd_settime_LK s 0 (proj1 (L ME)) X). }
          unfold s2. destruct (last_abs_count s1 <? 5); [|exact TE1].
          apply (TEnt_plain s1); [reflexivity|reflexivity|exact TE1]. }
        assert (NX2 : 0 <= next_fd (kern s2)).
        { unfold s2, s1. destruct (last_abs_count _ <? 5); destruct (last_abs_count s =? 5);
            cbn [kern set_last_abs tfd_settime emit set_trace set_kern]; unfold k_timerfd_settime; try destruct (k_open _ _); cbn; lia. }
        destruct (set_poll_timeout_LK s2 a TE2 NX2 s0 false E) as (_ & _ & _ & _ & HF).
        destruct (HF eq_refl) as [_ NM]. contradiction. }
      unfold m_poll. rewrite IE0.
      destruct (epoll_poll sc s0 abs) as [r rt] eqn:MP. cbn [fst].
      destruct r as [s1|s1]; cbn [bind]; [|discriminate].
      assert (E1 : fst (epoll_poll sc s0 abs) = R s1) by (rewrite MP; reflexivity).
      destruct (epoll_poll_T sc WF do_action_ok s0 abs s1 I0 Q0 TM0 IE0 (proj1 L0) E1) as (I1 & TE1 & M41 & _).
      apply DISP; [exact I1|]. intros M1. split; [exact TE1|]. intros _ C5. exfalso.
      apply (C0 ltac:(rewrite <- (t4_method _ _ M41); exact M1)). rewrite <- (t4_lac _ _ M41). exact C5.
  - (* the other methods never become epoll-timerfd *)
    assert (NM : forall s1, InvW s1 -> method s1 <> M_ET -> dispatch_active sc (S (length (active s1))) s1 = R s' -> LKM s').
    { intros s1 I1 N1 E. apply (DISP s1 I1); [|exact E]. intros X. contradiction. }
    unfold m_poll. destruct (is_epoll s) eqn:IE.
    + destruct (epoll_poll sc s abs) as [r rt] eqn:MP. cbn [fst].
      destruct r as [s1|s1]; cbn [bind]; [|discriminate].
      assert (E1 : fst (epoll_poll sc s abs) = R s1) by (rewrite MP; reflexivity).
      assert (TE : TEnt s) by (intros X; exfalso; apply NE; apply TM; exact X).
      destruct (epoll_poll_T sc WF do_action_ok s abs s1 I Q TM IE TE E1) as (I1 & _ & M41 & _).
      apply NM; [exact I1|rewrite (t4_method _ _ M41); exact NE].
    + destruct (poll_poll sc s abs) as [r rt] eqn:MP. cbn [fst].
      destruct r as [s1|s1]; cbn [bind]; [|discriminate].
      assert (E1 : fst (poll_poll sc s abs) = R s1) by (rewrite MP; reflexivity).
      pose proof (poll_poll_ok sc WF do_action_ok s abs I Q TM IE) as PP. rewrite E1 in PP. cbn [okr] in PP.
      apply NM; [apply PP|apply (poll_poll_noET s abs s1 I IE E1)].
Qed.

End Poll.

Check poll_and_run_LKM.
Print Assumptions poll_and_run_LKM.
Print Assumptions timer_ready.
Print Assumptions epoll_poll_T.
Print Assumptions timeout_check_LK.
