(* CorePhase2AcctCqAct.v -- code 711, part: every open library-created descriptor with a non-zero
   count is the read side of a registered user raw event or the kick descriptor (CQ); preservation
   by every action. *)
From Coq Require Import List ZArith Bool Lia.
From Ivv Require Import Core.Kernel Core.CoreTypes Core.CoreFd Core.CoreModel Core.CoreSpec Core.CoreRelBase
  Core.CorePhase2K1Base Core.CorePhase2AcctOwn Core.CorePhase2AcctOwnAct Core.CorePhase2AcctCq.
Import ListNotations.
Local Open Scope Z_scope.

Definition Jst (s : core) (fd : Z) : Prop :=
  (exists j, 0 <= j < 16 /\ rw_reg s j = true /\ fd = rw_rfd s j) \/ (active_ref s <> 0 /\ fd = active_fd s).

Definition CQ (s : core) : Prop := forall fd, 1000 <= fd -> Pos (kern s) fd -> Jst s fd.

Lemma Jst_owners : forall s s' fd, owners s' = owners s -> Jst s fd -> Jst s' fd.
Proof.
  intros s s' fd E. unfold owners in E. inversion E as [[E1 E2 E3 E4 E5 E6 E7 E8 E9]]. unfold Jst.
  rewrite E4, E5, E7, E9. tauto.
Qed.

Lemma CQ_CF : forall s s', CQ s -> CF s s' -> CQ s'.
Proof.
  intros s s' D [K E] fd L O. destruct (K fd L O) as [O1|[]]. apply (Jst_owners s s' fd E). apply D; assumption.
Qed.

Lemma CQ_step : forall N s s', CQ s -> KPn N (kern s) (kern s') ->
  (forall fd, 1000 <= fd -> Jst s fd -> Jst s' fd \/ k_open (kern s') fd = None) ->
  (forall fd, In fd N -> 1000 <= fd -> Pos (kern s') fd -> Jst s' fd) -> CQ s'.
Proof.
  intros N s s' D K M NW fd L O. destruct (K fd L O) as [O1|I1]; [|apply NW; assumption].
  destruct (M fd L (D fd L O1)) as [A|A]; [exact A|]. destruct O as (v & OO & _). congruence.
Qed.

(* allocation never produces a non-zero count *)
Lemma eventfd_KP : forall k b, KP k (fst (k_eventfd k b)).
Proof.
  intros k b. unfold k_eventfd. destruct (emfile _); [apply KP_refl|]. destruct (_ && _); [apply KP_refl|].
  pose proof (KP_alloc k K_EVENTFD) as A. destruct (k_alloc k K_EVENTFD) as [fd k1]. exact A.
Qed.

Lemma grab_KP : forall k u, KP k (fst (fst (eventfd_grab k u))).
Proof.
  intros k u. unfold eventfd_grab.
  assert (OLD : forall k0 u0, KP k k0 ->
    KP k (fst (fst (if negb (u0 =? 0) then
      match k_eventfd k0 false with
      | (k1, inl fd) => (k1, inl fd, u0)
      | (k1, inr e) => if is_enosys e then (k1, @inr Z errno ENOSYS, 0) else (k1, inr e, u0)
      end
    else (k0, inr ENOSYS, 0))))).
  { intros k0 u0 K0. destruct (negb (u0 =? 0)); [|exact K0].
    pose proof (eventfd_KP k0 false) as A.
    destruct (k_eventfd k0 false) as [k1 [fd|e]]; cbn [fst] in *; [eapply KP_trans; eassumption|].
    destruct (is_enosys e); cbn [fst]; eapply KP_trans; eassumption. }
  destruct (u =? 2).
  - pose proof (eventfd_KP k true) as A.
    destruct (k_eventfd k true) as [k1 [fd|e]]; cbn [fst] in *; [exact A|].
    destruct (_ || _); [|exact A]. apply (OLD k1 1 A).
  - apply (OLD k u (KP_refl k)).
Qed.

Lemma pipe_KP : forall k, KP k (fst (k_pipe k)).
Proof.
  intros k. unfold k_pipe. destruct (emfile _); [apply KP_refl|].
  unfold k_alloc. cbn [fst snd].
  set (r := next_fd k). set (k1 := k_put (k_set_next k (r + 1)) r (vfd0 K_PIPE_R)).
  set (w := next_fd k1). set (k2 := k_put (k_set_next k1 (w + 1)) w (vfd0 K_PIPE_W)).
  assert (A1 : KP k k1) by (apply (KP_trans _ (k_set_next k (r + 1))); [apply KP_fields; reflexivity|apply KP_put_zero; reflexivity]).
  assert (A2 : KP k1 k2) by (apply (KP_trans _ (k_set_next k1 (w + 1))); [apply KP_fields; reflexivity|apply KP_put_zero; reflexivity]).
  apply (KP_trans _ k1); [exact A1|]. apply (KP_trans _ k2); [exact A2|].
  apply (KP_trans _ (k_put k2 r (with_peer (vfd0 K_PIPE_R) w true))); apply KP_put_zero; reflexivity.
Qed.

(* ---------- raw events ---------- *)
Lemma raw_tail_C : forall s0 s j rfd wfd, CQ s0 -> rw_reg s0 j = false -> CF s0 s ->
  ARes CQ
       (bind (fd_register (putfd s (RAW_KEY j) (fd_with_handlers (fd_fresh rfd (1000 + j)) (Some (H_RAW j)) None None)) (RAW_KEY j))
             (fun s => R (set_rw s (upd (rw_reg s) j true) (upd (rw_rfd s) j rfd) (upd (rw_wfd s) j wfd)))).
Proof.
  intros s0 s j rfd wfd D RJ S.
  set (f := fd_with_handlers _ _ _ _). set (s1 := putfd s (RAW_KEY j) f).
  eapply ARes_bind; [apply fd_register_CF|]. cbn beta. intros s2 Q. cbn [ARes].
  assert (S2 : CF s0 s2) by (eapply CF_trans; [eapply CF_trans; [exact S|apply (CF_putfd s (RAW_KEY j) f)]|exact Q]).
  destruct S2 as [K E]. unfold owners in E. inversion E as [[E1 E2 E3 E4 E5 E6 E7 E8 E9]].
  apply (CQ_step [] s0); [exact D|exact K| |intros fd []].
  intros fd _ [(j' & RG & RJ' & H)|H]; left; unfold Jst; cbn [rw_reg rw_rfd active_ref active_fd set_rw].
  - left. exists j'. assert (NJ : j' <> j) by (intros ->; congruence).
    rewrite !upd_other by exact NJ. rewrite E4, E5. tauto.
  - right. rewrite E7, E9. exact H.
Qed.

Lemma raw_register_C : forall s j, CQ s -> rw_reg s j = false -> ARes CQ (fst (raw_register s j)).
Proof.
  intros s j D RJ. unfold raw_register.
  assert (ST2 : forall s1, CF s s1 ->
    ARes CQ (fst (let '(s, got, failed) :=
        if efd_raw s1 =? 0 then
          match k_pipe (kern s1) with
          | (k1, Some (r, w)) => (set_kern s1 k1, Some (r, w), false)
          | (k1, None) => (set_kern s1 k1, None, true)
          end
        else (s1, None, true) in
      match got with
      | None => (R s, true)
      | Some (rfd, wfd) =>
          let key := RAW_KEY j in
          let f := fd_with_handlers (fd_fresh rfd (1000 + j)) (Some (H_RAW j)) None None in
          let s := putfd s key f in
          (bind (fd_register s key) (fun s =>
             R (set_rw s (upd (rw_reg s) j true) (upd (rw_rfd s) j rfd) (upd (rw_wfd s) j wfd))), false)
      end))).
  { intros s1 S1. destruct (efd_raw s1 =? 0); [|cbv beta iota; cbn [fst ARes]; eapply CQ_CF; eassumption].
    pose proof (pipe_KP (kern s1)) as K.
    destruct (k_pipe (kern s1)) as [k1 [[r w]|]]; cbn [fst] in K; cbv beta iota zeta; cbn [fst].
    - apply (raw_tail_C s); [exact D|exact RJ|]. eapply CF_trans; [exact S1|apply CF_kern; exact K].
    - cbn [ARes]. eapply CQ_CF; [exact D|]. eapply CF_trans; [exact S1|apply CF_kern; exact K]. }
  destruct (negb (efd_raw s =? 0)).
  - pose proof (grab_KP (kern s) (efd_raw s)) as K.
    destruct (eventfd_grab (kern s) (efd_raw s)) as [[k1 [fd|e]] u]; cbn [fst] in K; cbv beta iota.
    + cbn [fst]. apply (raw_tail_C s); [exact D|exact RJ|].
      apply (CF_trans _ (set_kern s k1)); [apply CF_kern; exact K|cf_plain].
    + assert (S1 : CF s (set_efd (set_kern s k1) (efd_epoll s) u)).
      { apply (CF_trans _ (set_kern s k1)); [apply CF_kern; exact K|cf_plain]. }
      destruct (negb (is_enosys e)).
      * cbn [fst ARes]. eapply CQ_CF; eassumption.
      * apply ST2. exact S1.
  - cbv beta iota. apply ST2. apply CF_refl.
Qed.

Lemma raw_unregister_C : forall s j, CQ s -> ARes CQ (raw_unregister s j).
Proof.
  intros s j D. unfold raw_unregister.
  pose proof (fd_unregister_CF s (RAW_KEY j)) as Q.
  destruct (fd_unregister s (RAW_KEY j)) as [s1|s1]; cbn [bind ARes] in *; [|exact I]. cbv zeta.
  destruct Q as [K1 E1]. pose proof E1 as E1'. unfold owners in E1'. inversion E1' as [[F1 F2 F3 F4 F5 F6 F7 F8 F9]].
  set (s2 := do_close s1 (rw_rfd s1 j)).
  destruct (do_close_CF s1 (rw_rfd s1 j)) as [A2 C2]. fold s2 in A2, C2.
  destruct (do_close_OF s1 (rw_rfd s1 j)) as [O2 _]. fold s2 in O2.
  set (s3 := if raw_is_pipe s2 j then do_close s2 (rw_wfd s2 j) else s2).
  assert (A3 : CF s2 s3 /\ KO (kern s2) (kern s3)).
  { unfold s3. destruct (raw_is_pipe s2 j); [|split; [apply CF_refl|apply KO_refl]].
    split; [apply (proj1 (do_close_CF s2 (rw_wfd s2 j)))|apply (of_k _ _ (proj1 (do_close_OF s2 (rw_wfd s2 j))))]. }
  destruct A3 as [A3 O3].
  assert (A : CF s s3) by (eapply CF_trans; [constructor; eassumption|]; eapply CF_trans; eassumption).
  destruct A as [K E]. unfold owners in E. inversion E as [[H1 H2 H3 H4 H5 H6 H7 H8 H9]].
  apply (CQ_step [] s); [exact D|exact K| |intros fd []].
  intros fd L [(j' & RG & RJ' & H)|H]; unfold Jst; cbn [rw_reg rw_rfd active_ref active_fd set_rw kern].
  - destruct (Z.eq_dec j' j) as [->|NJ].
    + right. rewrite H. apply (KO_none (kern s2)); [exact O3|rewrite <- H; exact L|rewrite <- F5; exact C2].
    + left. left. exists j'. rewrite upd_other by exact NJ. rewrite H4, H5. tauto.
  - left. right. rewrite H7, H9. exact H.
Qed.

Lemma raw_post_C : forall s j, CQ s -> rw_reg s j = true -> 0 <= j < 16 ->
  (forall fd, In fd (wtarget (kern s) (rw_wfd s j)) -> fd = rw_rfd s j) -> CQ (raw_post s j).
Proof.
  intros s j D RJ RG WT. unfold raw_post.
  match goal with |- context [let '(k1, _) := ?X in _] =>
    assert (K : KPn (wtarget (kern s) (rw_wfd s j)) (kern s) (fst X)); [|destruct X as [k1 x]] end.
  { destruct (raw_is_pipe _ _); apply KPn_write. }
  cbn [fst] in K. apply (CQ_step (wtarget (kern s) (rw_wfd s j)) s); [exact D|exact K| |].
  - intros fd _ H. left. exact H.
  - intros fd IN _ _. left. exists j. cbn [rw_reg rw_rfd set_kern]. split; [exact RG|]. split; [exact RJ|apply WT; exact IN].
Qed.

(* ---------- fresh descriptors ---------- *)
Lemma alloc_open : forall k kind, k_open (snd (k_alloc k kind)) (fst (k_alloc k kind)) = Some (vfd0 kind).
Proof. intros. unfold k_alloc. cbn [fst snd]. rewrite k_open_put, Z.eqb_refl. reflexivity. Qed.

Lemma eventfd_open : forall k b fd, snd (k_eventfd k b) = inl fd -> k_open (fst (k_eventfd k b)) fd = Some (vfd0 K_EVENTFD).
Proof.
  intros k b fd. unfold k_eventfd. destruct (emfile _); [discriminate|]. destruct (_ && _); [discriminate|].
  pose proof (alloc_open k K_EVENTFD) as A. destruct (k_alloc k K_EVENTFD) as [fd0 k1]. cbn [fst snd] in *.
  intros E. inversion E; subst. exact A.
Qed.

Lemma grab_open : forall k u fd, snd (fst (eventfd_grab k u)) = inl fd ->
  k_open (fst (fst (eventfd_grab k u))) fd = Some (vfd0 K_EVENTFD).
Proof.
  intros k u fd. unfold eventfd_grab.
  assert (OLD : forall k0 u0,
    let x := (if negb (u0 =? 0) then
      match k_eventfd k0 false with
      | (k1, inl fd) => (k1, inl fd, u0)
      | (k1, inr e) => if is_enosys e then (k1, @inr Z errno ENOSYS, 0) else (k1, inr e, u0)
      end
    else (k0, inr ENOSYS, 0)) in
    snd (fst x) = inl fd -> k_open (fst (fst x)) fd = Some (vfd0 K_EVENTFD)).
  { intros k0 u0. cbv zeta. destruct (negb (u0 =? 0)); [|discriminate].
    pose proof (eventfd_open k0 false fd) as A.
    destruct (k_eventfd k0 false) as [k1 [fd0|e]]; cbn [fst snd] in *; [exact A|].
    destruct (is_enosys e); discriminate. }
  destruct (u =? 2).
  - pose proof (eventfd_open k true fd) as A.
    destruct (k_eventfd k true) as [k1 [fd0|e]]; cbn [fst snd] in *; [exact A|].
    destruct (_ || _); [|discriminate]. apply (OLD k1 1).
  - apply (OLD k u).
Qed.

Lemma pipe_open : forall k r w, snd (k_pipe k) = Some (r, w) ->
  k_open (fst (k_pipe k)) w = Some (with_peer (vfd0 K_PIPE_W) r true).
Proof.
  intros k r w. unfold k_pipe. destruct (emfile _); [discriminate|].
  unfold k_alloc. cbn [fst snd]. intros E. inversion E; subst. rewrite k_open_put, Z.eqb_refl. reflexivity.
Qed.

(* ---------- the kick descriptor ---------- *)
Lemma event_rx_on_C : forall s, CQ s -> 0 <= active_ref s ->
  ARes (fun s' => CQ s' /\ rw_reg s' = rw_reg s) (fst (event_rx_on s)).
Proof.
  intros s D NN. unfold event_rx_on.
  set (P := fun s1 => exists N, KPn N (kern s) (kern s1) /\
      (rw_reg s1, rw_rfd s1) = (rw_reg s, rw_rfd s) /\ active_ref s1 = active_ref s /\
      ((active_ref s <> 0 /\ N = [] /\ active_fd s1 = active_fd s) \/
       (active_ref s = 0 /\ forall x, In x N -> x = active_fd s1))).
  match goal with |- context [match ?X with R _ => _ | Halt _ => _ end] =>
    assert (Q : ARes P X); [|destruct X as [s1|s1]] end.
  { destruct (Z.eqb_spec (active_ref s) 0) as [Z0|NZ].
    2:{ cbn [ARes]. exists []. split; [apply KP_refl|]. split; [reflexivity|]. split; [reflexivity|]. left. tauto. }
    pose proof (grab_KP (kern s) (efd_epoll s)) as K. pose proof (grab_open (kern s) (efd_epoll s)) as GO.
    destruct (eventfd_grab (kern s) (efd_epoll s)) as [[k1 [fd|e]] u]; cbn [fst snd] in K, GO.
    - pose proof (KPn_write k1 fd 8 1) as K2. unfold wtarget in K2. rewrite (GO fd eq_refl) in K2.
      change (vkind (vfd0 K_EVENTFD) =? K_EVENTFD) with true in K2. cbv iota in K2.
      destruct (k_write k1 fd 8 1) as [k2 x]. cbn [fst] in K2. cbn [ARes].
      exists [fd]. split; [eapply KPn_l; eassumption|]. split; [reflexivity|]. split; [reflexivity|]. right. split; [exact Z0|].
      intros y [<-|[]]. reflexivity.
    - cbv zeta. set (s0 := set_efd (set_kern s k1) u (efd_raw s)).
      pose proof (pipe_KP (kern s0)) as KP0. pose proof (pipe_open (kern s0)) as PO.
      destruct (k_pipe (kern s0)) as [k2 [[r w]|]]; cbn [fst snd] in KP0, PO; [|exact I].
      pose proof (KPn_write k2 w 1 0) as K3. unfold wtarget in K3. rewrite (PO r w eq_refl) in K3.
      change (vkind (with_peer (vfd0 K_PIPE_W) r true) =? K_EVENTFD) with false in K3.
      change (vkind (with_peer (vfd0 K_PIPE_W) r true) =? K_PIPE_W) with true in K3. cbv iota in K3. cbn [vpeer with_peer] in K3.
      destruct (k_write k2 w 1 0) as [k3 [n|e3]]; cbn [fst] in K3; [|exact I].
      cbn [ARes]. exists [r]. split.
      + eapply KPn_l; [exact K|]. eapply KPn_l; [exact KP0|exact K3].
      + split; [reflexivity|]. split; [reflexivity|]. right. split; [exact Z0|]. intros y [<-|[]]. reflexivity. }
  - cbn [ARes] in Q. destruct Q as (N & K & E & AR & CASE). cbv zeta.
    set (s2 := set_activefd s1 (active_fd s1) (active_ref s1 + 1)).
    destruct (ctl_retry s2 CTL_ADD (active_fd s2) 0 (-1)) as [s3 e] eqn:C. apply ctl_retry_CF in C.
    assert (D3 : CQ s3 /\ rw_reg s3 = rw_reg s).
    { destruct C as [KC EC]. unfold owners in EC. inversion EC as [[C1 C2 C3 C4 C5 C6 C7 C8 C9]].
      inversion E as [[E4 E5]]. cbn [s2 rw_reg rw_rfd active_fd active_ref set_activefd] in *. split; [|congruence].
      apply (CQ_step N s); [exact D|eapply KPn_r; [exact K|exact KC]| |].
      - intros fd _ [(j' & RG & RJ' & H)|H]; left; unfold Jst.
        + left. exists j'. rewrite C4, C5, E4, E5. tauto.
        + right. destruct CASE as [(NZ & _ & A1)|(Z0 & _)]; [|tauto].
          rewrite C7, C9, A1, AR. split; [lia|apply H].
      - intros fd IN _ _. right. rewrite C7, C9.
        destruct CASE as [(_ & -> & _)|(Z0 & NW)]; [destruct IN|]. split; [lia|apply NW; exact IN]. }
    destruct e; cbn [fst ARes]; [exact D3|]. split; [eapply CQ_CF; [apply D3|cf_plain]|apply D3].
  - cbn [fst ARes]. exact I.
Qed.

Lemma event_rx_off_C : forall s, CQ s -> ARes CQ (event_rx_off s).
Proof.
  intros s D. unfold event_rx_off.
  destruct (ctl_retry s CTL_DEL (active_fd s) 0 (-1)) as [s1 e] eqn:C. apply ctl_retry_CF in C.
  destruct e; [exact I|]. cbv zeta. cbn [ARes].
  destruct C as [K1 E1]. unfold owners in E1. inversion E1 as [[C1 C2 C3 C4 C5 C6 C7 C8 C9]].
  set (s2 := set_activefd s1 (active_fd s1) (active_ref s1 - 1)).
  match goal with |- CQ (set_numobjs ?S3 _) => set (s3 := S3) end.
  assert (A3 : KP (kern s1) (kern s3) /\ (rw_reg s3, rw_rfd s3) = (rw_reg s1, rw_rfd s1) /\
               active_ref s3 = active_ref s1 - 1 /\
               (active_ref s1 - 1 <> 0 -> active_fd s3 = active_fd s1) /\
               (active_ref s1 - 1 = 0 -> 1000 <= active_fd s1 -> k_open (kern s3) (active_fd s1) = None)).
  { unfold s3. change (active_ref s2) with (active_ref s1 - 1).
    destruct (Z.eqb_spec (active_ref s1 - 1) 0) as [Z0|NZ].
    2:{ split; [apply KP_refl|]. split; [reflexivity|]. split; [reflexivity|]. split; [intros _; reflexivity|intros X; exfalso; lia]. }
    destruct (do_close_CF s2 (active_fd s2)) as [[KA EA] CA]. destruct (do_close_OF s2 (active_fd s2)) as [[OA _] _].
    set (sa := do_close s2 (active_fd s2)) in *.
    unfold owners in EA. inversion EA as [[A1 A2 A3 A4 A5 A6 A7 A8 A9]].
    destruct (Z.eqb_spec (active_wr sa) (-1)) as [W1|NW].
    - split; [exact KA|]. split; [congruence|]. split; [rewrite A9; reflexivity|]. split; [intros X; exfalso; lia|].
      intros _ _. rewrite ?A7. exact CA.
    - destruct (do_close_CF sa (active_wr sa)) as [[KB EB] CB]. destruct (do_close_OF sa (active_wr sa)) as [[OB _] _].
      set (sb := do_close sa (active_wr sa)) in *.
      unfold owners in EB. inversion EB as [[B1 B2 B3 B4 B5 B6 B7 B8 B9]].
      cbn [kern rw_reg rw_rfd active_ref active_fd set_activewr].
      split; [eapply KP_trans; eassumption|]. split; [congruence|]. split; [rewrite B9, A9; reflexivity|]. split; [intros X; exfalso; lia|].
      intros _ LL. rewrite ?B7, ?A7 in LL |- *. apply (KO_none (kern sa)); [exact OB|exact LL|exact CA]. }
  destruct A3 as (K3 & E3 & R3 & NZ3 & Z3). inversion E3 as [[F4 F5]].
  apply (CQ_step [] s); [exact D|cbn [kern set_numobjs]; eapply KP_trans; eassumption| |intros fd []].
  intros fd L [(j' & RG & RJ' & H)|H]; unfold Jst; cbn [rw_reg rw_rfd active_ref active_fd set_numobjs kern].
  - left. left. exists j'. rewrite F4, F5, C4, C5. tauto.
  - destruct (Z.eq_dec (active_ref s1 - 1) 0) as [Z0|NZ].
    + right. destruct H as [_ H]. rewrite H in *. rewrite <- C7. apply (Z3 Z0). rewrite C7. exact L.
    + left. right. rewrite R3, (NZ3 NZ), C7. split; [exact NZ|apply H].
Qed.

(* ---------- events ---------- *)
Lemma event_register_C : forall s j, CQ s -> 0 <= active_ref s -> (ev_count s = 0 -> rw_reg s KICK_RAW = false) ->
  ARes CQ (fst (event_register s j)).
Proof.
  intros s j D NN KR. unfold event_register. cbv zeta.
  set (s0 := set_ev (set_numobjs s (numobjs s + 1)) _ _ _).
  assert (T0 : CF s s0) by (unfold s0; cf_plain).
  destruct (Z.eqb_spec (ev_count (set_numobjs s (numobjs s + 1))) 0) as [Z0|NZ].
  2:{ cbn [fst bind ARes]. eapply CQ_CF; [exact D|]. eapply CF_trans; [exact T0|cf_plain]. }
  specialize (KR Z0).
  assert (ST : forall r, ARes (fun s' => CQ s' /\ rw_reg s' = rw_reg s) r ->
    ARes CQ (fst (let '(r0, failed) :=
          match r with
          | Halt s1 => (Halt s1, false)
          | R s1 =>
              if use_raw s1 then
                match raw_register s1 KICK_RAW with
                | (R s2, true) =>
                    (R (set_numobjs (set_ev s2 (ev_count s2 - 1) (ev_reg s2) (use_raw s2)) (numobjs s2 - 1)), true)
                | (r2, fl) => (r2, fl)
                end
              else (R s1, false)
          end in
        if failed then (r0, true)
        else (bind r0 (fun s => R (set_ev s (ev_count s) (upd (ev_reg s) j true) (use_raw s))), false)))).
  { intros r Q. destruct r as [s1|s1]; [|exact I]. cbn [ARes] in Q. destruct Q as [D1 R1].
    destruct (use_raw s1).
    - pose proof (raw_register_C s1 KICK_RAW D1 ltac:(rewrite R1; exact KR)) as Q2.
      destruct (raw_register s1 KICK_RAW) as [[s2|s2] fl]; cbn [fst ARes] in Q2; destruct fl; cbn [fst bind ARes]; try exact I.
      + eapply CQ_CF; [exact Q2|cf_plain].
      + eapply CQ_CF; [exact Q2|cf_plain].
    - cbn [fst bind ARes]. eapply CQ_CF; [exact D1|cf_plain]. }
  assert (D0 : CQ s0) by (eapply CQ_CF; eassumption).
  destruct (negb (use_raw s0)).
  - destruct (is_epoll s0).
    + pose proof (event_rx_on_C s0 D0 NN) as Q.
      destruct (event_rx_on s0) as [[s1|s1] fl]; cbn [fst ARes] in Q; [destruct fl|].
      * apply (ST (R _)). cbn [ARes]. destruct Q as [Q1 Q2]. split; [eapply CQ_CF; [exact Q1|cf_plain]|exact Q2].
      * apply (ST (R s1)). exact Q.
      * apply (ST (Halt s1)). exact I.
    + apply (ST (R _)). cbn [ARes]. split; [eapply CQ_CF; [exact D0|cf_plain]|reflexivity].
  - apply (ST (R s0)). cbn [ARes]. split; [exact D0|reflexivity].
Qed.

Lemma event_unregister_C : forall s j, CQ s -> ARes CQ (event_unregister s j).
Proof.
  intros s j D. unfold event_unregister. cbv zeta.
  set (s0 := set_ev _ _ _ _). assert (D0 : CQ s0) by (eapply CQ_CF; [exact D|unfold s0; cf_plain]).
  eapply ARes_bind with (P := CQ).
  - destruct (ev_count s0 =? 0); [|exact D0].
    destruct (use_raw s0); [apply raw_unregister_C; exact D0|apply event_rx_off_C; exact D0].
  - cbn beta. intros s1 Q. cbn [ARes]. eapply CQ_CF; [exact Q|cf_plain].
Qed.

(* ---------- every action ---------- *)
Record CH (s : core) : Prop := {
  ch_ref : 0 <= active_ref s;
  ch_kick : ev_count s = 0 -> rw_reg s KICK_RAW = false;
  ch_wt : forall j, rw_reg s j = true -> forall fd, In fd (wtarget (kern s) (rw_wfd s j)) -> fd = rw_rfd s j }.

Lemma CQ_res : forall r (e : core -> tev), ARes CQ r -> ARes CQ (bind r (fun s => R (emit s (e s)))).
Proof. intros r e H. eapply ARes_bind; [exact H|]. cbn beta. intros s1 Q. cbn [ARes]. eapply CQ_CF; [exact Q|cf_plain]. Qed.

Lemma CQ_ARes : forall s r, CQ s -> ARes (CF s) r -> ARes CQ r.
Proof. intros s r D H. eapply ARes_imp; [exact H|]. cbn beta. intros s1 Q. eapply CQ_CF; eassumption. Qed.

Lemma lift_heap_CF : forall s o, ARes (CF s) (lift_heap s o).
Proof. intros s [h|h|]; cbn [lift_heap ARes halt]; [cf_plain|exact I|exact I]. Qed.

Lemma CF_validate : forall s, CF s (validate_now s).
Proof. intros. unfold validate_now. dm; [apply CF_refl|cf_plain]. Qed.

Lemma CF_emit : forall s e, CF s (emit s e). Proof. intros. cf_plain. Qed.

Lemma CF_kern_act : forall s a k', KP (kern s) k' -> CF s (set_kern (emit s (TAct a)) k').
Proof. intros. constructor; [assumption|reflexivity]. Qed.

Ltac cfa := match goal with |- ARes (CF ?s) ?r =>
  match r with context [emit s (TAct ?a)] =>
    eapply ARes_imp; [|cbn beta; intros ? ?; eapply CF_trans; [apply (CF_emit s (TAct a))|eassumption]] end end.

Theorem do_action_C : forall s a, CQ s -> CH s -> wf_action a -> ARes CQ (do_action s a).
Proof.
  intros s a D H W. destruct a; cbn [do_action wf_action] in *; unfold ok_idx in *.
  - (* AFdReg *) apply (CQ_ARes s _ D). repeat dm; cbn [ARes]; try apply CF_refl. cfa. apply fd_register_CF.
  - (* AFdTry *) dm; [exact D|].
    pose proof (fd_register_try_CF (emit s (TAct (AFdTry i))) i) as Q.
    destruct (fd_register_try _ i) as [r failed]. cbn [fst] in Q.
    apply (CQ_res r (fun _ => TRes 0 i (if failed then -1 else 0))).
    eapply CQ_ARes; [|exact Q]. eapply CQ_CF; [exact D|apply CF_emit].
  - (* AFdUnreg *) apply (CQ_ARes s _ D). dm; [|apply CF_refl]. cfa. apply fd_unregister_CF.
  - apply (CQ_ARes s _ D). cfa. apply fd_set_handler_CF.
  - cbn [ARes]. eapply CQ_CF; [exact D|cf_plain].
  - dm; cbn [ARes]; [exact D|eapply CQ_CF; [exact D|cf_plain]].
  - (* AKSet *) cbn [ARes]. eapply CQ_CF; [exact D|]. apply CF_kern_act. unfold k_set_cond.
    destruct (k_get (kern s) (100 + i)) as [v|] eqn:G; [|apply KP_refl]. apply KP_put_user. lia.
  - (* AKClose *) dm; cbn [ARes]; [exact D|]. eapply CQ_CF; [exact D|]. apply CF_kern_act. unfold k_user_close.
    destruct (k_get (kern s) (100 + i)) as [v|] eqn:G; [|apply KP_refl]. apply KP_put_user. lia.
  - (* AKOpen *) cbn [ARes]. eapply CQ_CF; [exact D|]. apply CF_kern_act. unfold k_user_fd. apply KP_put_user. lia.
  - apply (CQ_ARes s _ D). dm; [apply CF_refl|]. cfa. apply lift_heap_CF.
  - apply (CQ_ARes s _ D). dm; [apply CF_refl|]. cbv zeta. eapply ARes_imp; [apply lift_heap_CF|]. cbn beta. intros s1 Q.
    eapply CF_trans; [|exact Q]. eapply CF_trans; [apply CF_validate|apply CF_emit].
  - apply (CQ_ARes s _ D). dm; [|apply CF_refl]. cfa. apply lift_heap_CF.
  - dm; cbn [ARes]; [exact D|eapply CQ_CF; [exact D|cf_plain]].
  - dm; cbn [ARes]; [exact D|]. eapply CQ_CF; [exact D|]. apply CF_plain; unfold task_register; cbv zeta; repeat dm; reflexivity.
  - dm; cbn [ARes]; [|exact D]. eapply CQ_CF; [exact D|cf_plain].
  - dm; cbn [ARes]; [exact D|]. eapply CQ_CF; [exact D|cf_plain].
  - (* AEvReg *) dm; [exact D|].
    assert (Q : ARes CQ (fst (event_register (emit s (TAct (AEvReg j))) j))).
    { apply event_register_C; [eapply CQ_CF; [exact D|apply CF_emit]|apply (ch_ref _ H)|apply (ch_kick _ H)]. }
    destruct (event_register _ j) as [r failed]. cbn [fst] in Q.
    apply (CQ_res r (fun _ => TRes 1 j (if failed then -1 else 0))). exact Q.
  - (* AEvUnreg *) destruct (ev_reg s j) eqn:ER; [|exact D].
    apply event_unregister_C. eapply CQ_CF; [exact D|apply CF_emit].
  - dm; cbn [ARes]; [|exact D]. eapply CQ_CF; [exact D|]. apply CF_plain; unfold event_post; repeat dm; try reflexivity;
      unfold task_register; cbv zeta; repeat dm; reflexivity.
  - dm; cbn [ARes]; [exact D|eapply CQ_CF; [exact D|cf_plain]].
  - (* ARwReg *) destruct (rw_reg s j) eqn:RG; [exact D|].
    assert (Q : ARes CQ (fst (raw_register (emit s (TAct (ARwReg j))) j))).
    { apply raw_register_C; [eapply CQ_CF; [exact D|apply CF_emit]|exact RG]. }
    destruct (raw_register _ j) as [r failed]. cbn [fst] in Q.
    apply (CQ_res r (fun _ => TRes 2 j (if failed then -1 else 0))). exact Q.
  - (* ARwUnreg *) destruct (rw_reg s j) eqn:RG; [|exact D].
    apply raw_unregister_C. eapply CQ_CF; [exact D|apply CF_emit].
  - (* ARwPost *) destruct (rw_reg s j) eqn:RG; cbn [ARes]; [|exact D].
    apply raw_post_C; [eapply CQ_CF; [exact D|apply CF_emit]|exact RG|exact W|].
    cbn [kern rw_wfd rw_rfd emit set_trace]. apply (ch_wt _ H j RG).
  - dm; cbn [ARes]; [exact D|eapply CQ_CF; [exact D|cf_plain]].
  - cbn [ARes]. eapply CQ_CF; [exact D|cf_plain].
  - cbn [ARes]. eapply CQ_CF; [exact D|]. apply CF_kern_act. apply KP_fields. reflexivity.
  - cbn [ARes]. eapply CQ_CF; [exact D|cf_plain].
  - cbn [ARes]. eapply CQ_CF; [exact D|]. eapply CF_trans; [apply (CF_emit s (TAct AValidate))|apply CF_validate].
Qed.
