(* CorePhase2AcctFd.v -- what the descriptor layer (Core/CoreFd.v) does to the fields
   the accounting equation reads: numobjs, numfds, the registration flags, and the
   non-descriptor fields (all unchanged except by register / unregister). *)
From Coq Require Import List ZArith Bool Lia.
From Ivv Require Import Core.Kernel Core.CoreTypes Core.CoreFd Core.CoreModel Core.CorePhase2AcctTr.
From Ivv Require Export Core.CorePhase2K1Base.
From Ivv Require Timer.HeapModel.
Import ListNotations.
Local Open Scope Z_scope.

(* accounting-same: registered flags and all counted fields agree *)
Record AS (s s' : core) : Prop := {
  as_no : numobjs s' = numobjs s;
  as_nf : numfds s' = numfds s;
  as_reg : forall i, registered (fdt s' i) = registered (fdt s i);
  as_heap : heap s' = heap s;
  as_tasks : tasks s' = tasks s;
  as_cur : cur s' = cur s;
  as_evc : ev_count s' = ev_count s;
  as_evr : ev_reg s' = ev_reg s;
  as_evp : ev_pending s' = ev_pending s;
  as_evb : ev_batch s' = ev_batch s;
  as_ur : use_raw s' = use_raw s;
  as_rw : rw_reg s' = rw_reg s;
  as_method : method s' = method s;
  as_quit : quit s' = quit s }.

Lemma AS_refl : forall s, AS s s. Proof. intros; constructor; reflexivity. Qed.
Lemma AS_trans : forall a b c, AS a b -> AS b c -> AS a c.
Proof. intros a b c [] []. constructor; try congruence. Qed.

Lemma AS_putfd : forall s k f, registered f = registered (fdt s k) -> AS s (putfd s k f).
Proof.
  intros s k f E. constructor; try reflexivity. intros i. unfold putfd, upd. cbn [fdt set_fdt].
  destruct (Z.eqb_spec i k) as [->|N]; [exact E|reflexivity].
Qed.

Lemma AS_is_epoll : forall s s', AS s s' -> is_epoll s' = is_epoll s.
Proof. intros s s' A. unfold is_epoll. rewrite (as_method _ _ A). reflexivity. Qed.

Ltac as_plain := constructor; reflexivity.

(* register / unregister: key k gets flag v, both counters move by d *)
Record ASk (s s' : core) (k : Z) (v : bool) (d : Z) : Prop := {
  ak_no : numobjs s' = numobjs s + d;
  ak_nf : numfds s' = numfds s + d;
  ak_reg : forall i, registered (fdt s' i) = if i =? k then v else registered (fdt s i);
  ak_heap : heap s' = heap s;
  ak_tasks : tasks s' = tasks s;
  ak_cur : cur s' = cur s;
  ak_evc : ev_count s' = ev_count s;
  ak_evr : ev_reg s' = ev_reg s;
  ak_evp : ev_pending s' = ev_pending s;
  ak_evb : ev_batch s' = ev_batch s;
  ak_ur : use_raw s' = use_raw s;
  ak_rw : rw_reg s' = rw_reg s;
  ak_method : method s' = method s;
  ak_quit : quit s' = quit s }.

Lemma ASk_AS_r : forall s s1 s2 k v d, ASk s s1 k v d -> AS s1 s2 -> ASk s s2 k v d.
Proof.
  intros s s1 s2 k v d [] []. constructor; try congruence. intros i. rewrite as_reg0. apply ak_reg0.
Qed.

Lemma AS_ASk : forall s s1 s2 k v d, AS s s1 -> ASk s1 s2 k v d -> ASk s s2 k v d.
Proof.
  intros s s1 s2 k v d [] []. constructor; try congruence. intros i. rewrite ak_reg0, as_reg0. reflexivity.
Qed.

(* ---------- epoll back end ---------- *)
Lemma ctl_retry_AS : forall s op fd ev d s1 r, ctl_retry s op fd ev d = (s1, r) -> AS s s1.
Proof.
  intros s op fd ev d s1 r. unfold ctl_retry.
  destruct (k_epoll_ctl (kern s) op fd ev d) as [k1 r1].
  destruct r1 as [e|]; [destruct e|]; try (intros E; inversion E; as_plain).
  destruct (k_epoll_ctl k1 op fd ev d) as [k2 r2]. intros E; inversion E; as_plain.
Qed.

Lemma flush_one__AS : forall s k s1 b, epoll_flush_one_ s k = (s1, b) -> AS s s1.
Proof.
  intros s k s1 b. unfold epoll_flush_one_.
  set (s0 := set_notify s _). set (f := getfd s0 k).
  assert (A0 : AS s s0) by as_plain.
  destruct (regb f =? wanted f); [intros E; inversion E; subst; exact A0|].
  destruct (ctl_retry s0 _ _ _ k) as [s2 r] eqn:C. apply ctl_retry_AS in C.
  destruct r; intros E; inversion E; subst.
  - eapply AS_trans; eassumption.
  - eapply AS_trans; [exact A0|]. eapply AS_trans; [exact C|]. apply AS_putfd. reflexivity.
Qed.

Lemma flush_one_AS : forall s k, ARes (AS s) (epoll_flush_one s k).
Proof.
  intros s k. unfold epoll_flush_one. destruct (epoll_flush_one_ s k) as [s1 b] eqn:E.
  apply flush_one__AS in E. destruct b; cbn [ARes halt]; [exact I|exact E].
Qed.

Lemma flush_pending_AS : forall fuel s, ARes (AS s) (epoll_flush_pending fuel s).
Proof.
  induction fuel as [|f IH]; intros s; cbn [epoll_flush_pending]; destruct (notify s); cbn [ARes halt]; try apply AS_refl; try exact I.
  eapply ARes_bind; [apply flush_one_AS|]. cbn beta. intros s1 A1.
  eapply ARes_imp; [apply IH|]. cbn beta. intros s2 A2. eapply AS_trans; eassumption.
Qed.

Lemma epoll_notify_AS : forall s k, AS s (epoll_notify_fd s k).
Proof. intros s k. unfold epoll_notify_fd. dm; as_plain. Qed.

Lemma epoll_unregister_AS : forall s k, ARes (AS s) (epoll_unregister_fd s k).
Proof. intros s k. unfold epoll_unregister_fd. dm; [apply flush_one_AS|apply AS_refl]. Qed.

(* ---------- poll back end ---------- *)
Ltac as_leaf := constructor; try reflexivity; intro i; unfold putfd, getfd, upd;
  cbn [fdt set_fdt set_poll set_notify set_kern registered fd_with_pidx fd_with_bands];
  repeat match goal with |- context [?a =? ?b] => destruct (a =? b) eqn:? end;
  try reflexivity.

Lemma poll_notify_AS : forall s k, ARes (AS s) (poll_notify_fd s k).
Proof.
  intros s k. unfold poll_notify_fd. cbv zeta.
  destruct ((pidx (getfd s k) =? -1) && negb (wanted (getfd s k) =? 0)).
  { dm; cbn [ARes halt]; [exact I|].
    apply (AS_trans _ (putfd s k (fd_with_pidx (getfd s k) (Z.of_nat (length (pfds s)))))); [|as_plain].
    apply AS_putfd. reflexivity. }
  destruct (negb (pidx (getfd s k) =? -1) && (wanted (getfd s k) =? 0)).
  { dm; cbn [ARes halt]; [exact I|].
    match goal with |- AS s (putfd ?S2 k ?F) => set (s2 := S2) end.
    assert (A2 : AS s s2).
    { unfold s2. match goal with |- AS s (set_poll ?S1 _ _) => set (s1 := S1) end.
      assert (A1 : AS s s1).
      { unfold s1. destruct (negb _); [|apply AS_refl].
        destruct (nth_z (pfds s) _) as [pl|]; [|apply AS_refl].
        destruct (nth_z (pkeys s) _) as [kl|]; [|apply AS_refl].
        eapply AS_trans; [|apply AS_putfd; reflexivity]. as_plain. }
      eapply AS_trans; [exact A1|as_plain]. }
    eapply AS_trans; [exact A2|apply AS_putfd; reflexivity]. }
  destruct (negb (pidx (getfd s k) =? -1)); [|apply AS_refl].
  destruct (nth_z (pfds s) _); cbn [ARes halt]; [as_plain|exact I].
Qed.

Lemma poll_notify_sync_AS : forall s k, ARes (AS s) (fst (poll_notify_fd_sync s k)).
Proof. intros s k. unfold poll_notify_fd_sync. dm; cbn [fst]; [apply AS_refl|apply poll_notify_AS]. Qed.

(* ---------- method dispatch, notify ---------- *)
Lemma m_notify_AS : forall s k, ARes (AS s) (m_notify_fd s k).
Proof. intros s k. unfold m_notify_fd. dm; [apply epoll_notify_AS|apply poll_notify_AS]. Qed.

Lemma recompute_reg : forall f, registered (recompute_wanted f) = registered f.
Proof. reflexivity. Qed.

Lemma notify_fd_AS : forall s k, ARes (AS s) (notify_fd s k).
Proof.
  intros s k. unfold notify_fd.
  eapply ARes_imp; [apply m_notify_AS|]. cbn beta. intros s1 A1.
  eapply AS_trans; [apply AS_putfd; apply recompute_reg|exact A1].
Qed.

(* ---------- register / unregister ---------- *)
Lemma ASk_putfd : forall s k f v, registered f = v -> ASk s (putfd s k f) k v 0.
Proof.
  intros s k f v E. constructor; try reflexivity; try (cbn [numobjs numfds putfd set_fdt]; lia).
  intros i. unfold putfd, upd. cbn [fdt set_fdt]. destruct (i =? k); [exact E|reflexivity].
Qed.

Lemma prologue_ASk : forall s k, ASk s (register_prologue s k) k true 0.
Proof. intros s k. unfold register_prologue. apply ASk_putfd. dm; reflexivity. Qed.

Lemma ASk_epilogue : forall s s1 k v, ASk s s1 k v 0 -> ASk s (register_epilogue s1) k v 1.
Proof.
  intros s s1 k v []. constructor; try assumption; unfold register_epilogue;
    cbn [numobjs numfds set_numobjs set_numfds]; lia.
Qed.

Lemma fd_register_ASk : forall s k, ARes (fun s' => ASk s s' k true 1) (fd_register s k).
Proof.
  intros s k. unfold fd_register. eapply ARes_bind; [apply notify_fd_AS|]. cbn beta.
  intros s1 A1. cbn [ARes]. apply ASk_epilogue. eapply ASk_AS_r; [apply prologue_ASk|exact A1].
Qed.

Lemma fd_unregister_ASk : forall s k, ARes (fun s' => ASk s s' k false (-1)) (fd_unregister s k).
Proof.
  intros s k. unfold fd_unregister. cbv zeta.
  set (s0 := set_active _ _).
  assert (A0 : ASk s s0 k false 0).
  { unfold s0. apply (ASk_AS_r _ (putfd s k (fd_with_registered (getfd s k) false))); [apply ASk_putfd; reflexivity|as_plain]. }
  eapply ARes_bind; [apply notify_fd_AS|]. cbn beta. intros s1 A1.
  eapply ARes_bind with (P := AS s1).
  { destruct (is_epoll s1); [apply epoll_unregister_AS|apply AS_refl]. }
  cbn beta. intros s2 A2. cbn [ARes].
  pose proof (ASk_AS_r _ _ _ _ _ _ (ASk_AS_r _ _ _ _ _ _ A0 A1) A2) as A3. destruct A3.
  match goal with |- ASk s ?X k false (-1) => assert (E : exists h, X = set_handled (set_numfds (set_numobjs s2 (numobjs s2 - 1)) (numfds s2 - 1)) h) end.
  { destruct (handled _) as [h|]; [destruct (h =? k)|]; eexists; reflexivity. }
  destruct E as [h ->]. constructor; try assumption; cbn [numobjs numfds set_handled set_numfds set_numobjs]; lia.
Qed.

Lemma fd_set_handler_AS : forall s k band h, ARes (AS s) (fd_set_handler s k band h).
Proof.
  intros s k band h. unfold fd_set_handler. cbv zeta.
  match goal with |- ARes _ (if _ then notify_fd ?S k else _) => assert (A0 : AS s S) end.
  { apply AS_putfd. repeat dm; reflexivity. }
  destruct (registered (getfd s k)); [|exact A0].
  eapply ARes_imp; [apply notify_fd_AS|]. cbn beta. intros s1 A1. eapply AS_trans; eassumption.
Qed.

(* iv_fd_register_try: on failure nothing is counted *)
Lemma fd_register_try_ASk : forall s k,
  ARes (fun s' => if snd (fd_register_try s k) then ASk s s' k false 0 else ASk s s' k true 1)
       (fst (fd_register_try s k)).
Proof.
  intros s k. unfold fd_register_try.
  set (s1 := register_prologue s k).
  set (s2 := putfd s1 k (recompute_wanted (getfd s1 k))).
  set (orig := wanted (getfd s2 k)).
  set (s3 := if orig =? 0 then putfd s2 k (fd_with_wanted (getfd s2 k) (M_IN + M_OUT)) else s2).
  assert (A3 : ASk s s3 k true 0).
  { eapply ASk_AS_r; [apply prologue_ASk|]. fold s1.
    apply (AS_trans _ s2); [apply AS_putfd; reflexivity|].
    unfold s3. destruct (orig =? 0); [apply AS_putfd; reflexivity|apply AS_refl]. }
  assert (FAIL : forall s4, AS s3 s4 ->
     ARes (fun s' => ASk s s' k false 0)
       ((fun s => let s := putfd s k (fd_with_registered (getfd s k) false) in
                  if is_epoll s then epoll_unregister_fd s k else R s) s4)).
  { intros s4 A4. cbv beta zeta. set (s5 := putfd s4 k _).
    assert (A5 : ASk s s5 k false 0).
    { pose proof (ASk_AS_r _ _ _ _ _ _ A3 A4) as B. destruct B.
      constructor; try assumption. intros i. unfold s5, putfd, upd. cbn [fdt set_fdt].
      specialize (ak_reg0 i). destruct (i =? k); [reflexivity|exact ak_reg0]. }
    destruct (is_epoll s5); [|exact A5].
    eapply ARes_imp; [apply epoll_unregister_AS|]. cbn beta. intros s6 A6. eapply ASk_AS_r; eassumption. }
  assert (OKC : forall s4, AS s3 s4 ->
     ARes (fun s' => ASk s s' k true 1)
       ((fun s => bind (if orig =? 0 then m_notify_fd (putfd s k (fd_with_wanted (getfd s k) 0)) k else R s)
            (fun s => R (register_epilogue s))) s4)).
  { intros s4 A4. cbv beta. eapply ARes_bind with (P := AS s4).
    - destruct (orig =? 0); [|apply AS_refl].
      eapply ARes_imp; [apply m_notify_AS|]. cbn beta. intros s5 A5.
      apply (AS_trans _ (putfd s4 k (fd_with_wanted (getfd s4 k) 0))); [apply AS_putfd; reflexivity|exact A5].
    - cbn beta. intros s5 A5. cbn [ARes]. apply ASk_epilogue.
      eapply ASk_AS_r; [eapply ASk_AS_r; [exact A3|exact A4]|exact A5]. }
  destruct (is_epoll s3).
  - destruct (epoll_flush_one_ s3 k) as [s4 fl] eqn:F. apply flush_one__AS in F.
    destruct fl; cbn [fst snd bind]; [apply FAIL|apply OKC]; exact F.
  - pose proof (poll_notify_sync_AS s3 k) as Q.
    destruct (poll_notify_fd_sync s3 k) as [r fl]. cbn [fst] in Q.
    destruct fl; cbn [fst snd]; (eapply ARes_bind; [exact Q|]); [exact FAIL|exact OKC].
Qed.

(* ---------- readiness bookkeeping, close ---------- *)
Lemma make_ready_AS : forall s k b, AS s (make_ready s k b).
Proof.
  intros s k b. unfold make_ready.
  match goal with |- AS s (putfd ?S k _) => assert (A : AS s S) end.
  { dm; [apply AS_refl|]. eapply AS_trans; [apply AS_putfd|as_plain]. reflexivity. }
  eapply AS_trans; [exact A|apply AS_putfd; reflexivity].
Qed.

Lemma activate_AS : forall s k bits, AS s (activate s k bits).
Proof.
  intros s k bits. unfold activate. cbv zeta.
  repeat match goal with |- context [if ?c then _ else _] => destruct c end;
    repeat (eapply AS_trans; [|apply make_ready_AS]); apply AS_refl.
Qed.

Lemma do_close_AS : forall s fd, AS s (do_close s fd).
Proof. intros s fd. unfold do_close. destruct (k_close (kern s) fd) as [k1 ok]. destruct ok; as_plain. Qed.
