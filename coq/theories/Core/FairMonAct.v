(* FairMonAct.v -- the invariant FP of the fairness monitor through every scenario action:
     PendT clk: the kernel clock and the (valid) cached time are not before the clock value clk of the last return;
     DB:        (while iv_run_timers dispatches) every timer still owed a run is on the expired batch. *)
From Coq Require Import List ZArith Bool Lia.
From Ivv Require Import Core.Kernel Core.CoreTypes Core.CoreFd Core.CoreModel Core.Monitors Core.FairMon Core.CoreSpec
  Core.CoreRel Core.CorePhase2AcctTr Core.CorePhase2AcctTr2 Core.CorePhase2TimeMon Core.CorePhase2TimeFr Core.CorePhase2TimeT1
  Core.FairMonBase.
From Ivv Require Timer.HeapModel Timer.HeapBase Timer.HeapFacts Timer.HeapReg Timer.HeapUnreg Timer.HeapCollect
  Timer.HeapDispatch.
Import ListNotations.
Local Open Scope Z_scope.

Definition PendT (clk : Z) (s : core) : Prop :=
  clk <= clock (kern s) /\ (time_valid s = true -> clk <= time s).
Definition DB (s : core) : Prop :=
  forall j, In j (f_due (fst s)) -> 0 <= j /\ In (tmid j) (HeapModel.batch (heap s)).
Definition FP (clk : Z) (B : bool) (s : core) : Prop := PendT clk s /\ (B = true -> DB s).
Definition FQ (clk : Z) (B : bool) (r : res) : Prop := match r with R s' => FP clk B s' | Halt _ => True end.

Lemma FP_keep : forall clk B s s', FP clk B s ->
  HeapModel.batch (heap s') = HeapModel.batch (heap s) -> time s' = time s -> time_valid s' = time_valid s ->
  clock (kern s') = clock (kern s) -> TrExt qf s s' -> FP clk B s'.
Proof.
  intros clk B s s' [[P1 P2] D] EB ET EV EC X. split; [split; [lia|rewrite EV, ET; exact P2]|].
  intros HB j H. destruct (TrExt_qf s s' X) as [_ I]. rewrite EB. apply (D HB j). apply I. exact H.
Qed.

Lemma FP_keep2 : forall clk B s s', FP clk B s ->
  HeapModel.batch (heap s') = HeapModel.batch (heap s) -> PendT clk s' -> TrExt qf s s' -> FP clk B s'.
Proof.
  intros clk B s s' [_ D] EB P X. split; [exact P|].
  intros HB j H. destruct (TrExt_qf s s' X) as [_ I]. rewrite EB. apply (D HB j). apply I. exact H.
Qed.

Lemma TrExt_one : forall (P : tev -> Prop) s s' e, trace s' = e :: trace s -> P e -> TrExt P s s'.
Proof. intros P s s' e E H. exists [e]. split; [exact E|constructor; [exact H|constructor]]. Qed.

Lemma FP_same : forall clk B s s', FP clk B s -> lf s' = lf s -> trace s' = trace s -> FP clk B s'.
Proof.
  intros clk B s s' F L T. destruct (lf_fields _ _ L) as (E1 & E2 & E3 & _ & _ & _ & _ & E8).
  apply (FP_keep clk B s s' F); try assumption; [rewrite E1; reflexivity|apply TrExt_same; exact T].
Qed.

Lemma cs_qf : forall e, cs e -> qf e.
Proof. intros e. destruct e; cbn; tauto. Qed.

Lemma TrX_qf : forall s s', TrX s s' -> TrExt qf s s'.
Proof. intros s s' (l & E & F). exists l. split; [exact E|]. eapply Forall_impl; [|exact F]. exact cs_qf. Qed.

Lemma FP_F0 : forall clk B s s', FP clk B s -> F0 s s' -> FP clk B s'.
Proof.
  intros clk B s s' F [L X]. destruct (lf_fields _ _ L) as (E1 & E2 & E3 & _ & _ & _ & _ & E8).
  apply (FP_keep clk B s s' F); try assumption; [rewrite E1; reflexivity|apply TrX_qf; exact X].
Qed.

Lemma FP_emit : forall clk B s e, FP clk B s -> qf e -> FP clk B (emit s e).
Proof. intros clk B s e F Q. apply (FP_keep clk B s _ F); try reflexivity. apply TrExt_emit. exact Q. Qed.

Lemma FQ_same : forall clk B s, FP clk B s -> FQ clk B (R s).
Proof. intros. assumption. Qed.

Lemma FQ_bind : forall b clk B s r f, Post b s r -> FQ clk B r ->
  (forall s1, J b s1 -> FP clk B s1 -> FQ clk B (f s1)) -> FQ clk B (bind r f).
Proof.
  intros b clk B s r f P Q K. destruct r as [s1|s1]; cbn [bind Post FQ] in *; [|exact I].
  destruct P as [J1 _]. apply K; assumption.
Qed.

Lemma act_F0' : forall clk B s a r, FP clk B s -> F0r (emit s (TAct a)) r -> FQ clk B r.
Proof.
  intros clk B s a r F H. destruct r as [s'|s']; cbn [FQ]; [|exact I]. unfold F0r in H. cbn [res_state] in H.
  eapply FP_F0; [|exact H]. apply FP_emit; [exact F|exact I].
Qed.

Lemma act_F0_res' : forall clk B s a r k i c, FP clk B s -> F0r (emit s (TAct a)) r ->
  FQ clk B (bind r (fun s1 => R (emit s1 (TRes k i c)))).
Proof.
  intros clk B s a r k i c F H. pose proof (act_F0' clk B s a r F H) as Q.
  destruct r as [s1|s1]; cbn [bind FQ] in *; [|exact I]. apply FP_emit; [exact Q|exact I].
Qed.

(* ---------- time ---------- *)
Lemma PendT_validate : forall clk s, PendT clk s -> PendT clk (validate_now s).
Proof.
  intros clk s P. unfold validate_now. destruct (time_valid s) eqn:V; [exact P|]. destruct P as [P1 P2].
  split; cbn [kern time time_valid set_time]; [exact P1|intros _; exact P1].
Qed.

Lemma FP_validate : forall clk B s, FP clk B s -> FP clk B (validate_now s).
Proof.
  intros clk B s [P D]. split; [apply PendT_validate; exact P|].
  intros HB j H. assert (E : fst (validate_now s) = fst s) by (apply fst_same; unfold validate_now; destruct (time_valid s); reflexivity).
  rewrite E in H. assert (EH : heap (validate_now s) = heap s) by (unfold validate_now; destruct (time_valid s); reflexivity).
  rewrite EH. apply (D HB j H).
Qed.

(* ---------- timers ---------- *)
Lemma tmid_inj : forall j j', 0 <= j -> 0 <= j' -> tmid j = tmid j' -> j = j'.
Proof. intros j j' A B E. unfold tmid in E. apply (f_equal Zpos) in E. rewrite !Z2Pos.id in E by lia. lia. Qed.

Lemma In_remove_first_other : forall t x l, In x l -> x <> t -> In x (HeapModel.remove_first t l).
Proof.
  intros t x l. induction l as [|y l IH]; intros H N; [destruct H|]. cbn [HeapModel.remove_first].
  destruct (Pos.eqb_spec y t) as [E|E].
  - destruct H as [H|H]; [subst; contradiction|exact H].
  - destruct H as [H|H]; [left; exact H|right; apply IH; assumption].
Qed.

Lemma reg_FQ : forall clk B s j e, HeapFacts.Inv (heap s) -> FP clk B s -> timer_registered s j = false ->
  FQ clk B (lift_heap s (HeapModel.register (HeapModel.set_exp (heap s) (tmid j) e) (tmid j))).
Proof.
  intros clk B s j e HI F U.
  pose proof (treg_false _ _ U) as TI.
  destruct (HeapReg.register_inv (HeapModel.set_exp (heap s) (tmid j) e) (tmid j)) as (h' & R & _ & _ & _ & X & BB & _).
  - apply HeapDispatch.set_exp_inv; assumption.
  - apply HeapBase.tget_set_exp_same.
  - rewrite HeapBase.tidx_set_exp. exact TI.
  - rewrite R. unfold lift_heap. cbn [FQ]. apply (FP_keep clk B s _ F); try reflexivity; [|apply TrExt_same; reflexivity].
    cbn [heap set_numobjs set_heap]. rewrite BB.
    destruct (HeapBase.set_exp_fields (heap s) (tmid j) e) as (_ & _ & _ & BE & _). exact BE.
Qed.

Lemma unreg_FQ : forall clk B s0 s j, HeapFacts.Inv (heap s0) -> FP clk B s0 -> 0 <= j -> timer_registered s0 j = true ->
  s = emit s0 (TAct (ATmUnreg j)) ->
  FQ clk B (lift_heap s (HeapModel.unregister (heap s) (tmid j))).
Proof.
  intros clk B s0 s j HI F J0 U ->. cbn [heap emit set_trace].
  pose proof (treg_true _ _ U) as TI. destruct F as [[P1 P2] D].
  assert (G : forall h', HeapModel.batch h' = HeapModel.batch (heap s0) \/
                         HeapModel.batch h' = HeapModel.remove_first (tmid j) (HeapModel.batch (heap s0)) ->
            FP clk B (set_numobjs (set_heap (emit s0 (TAct (ATmUnreg j))) h')
                        (numobjs s0 + (HeapModel.numobjs h' - HeapModel.numobjs (heap s0))))).
  { intros h' HB. split; [split; assumption|]. intros BT x H.
    match type of H with In x (f_due (fst ?S)) => assert (E : fst S = f_step (fst s0) (TAct (ATmUnreg j))) by
      (rewrite <- fst_emit; apply fst_same; reflexivity) end.
    rewrite E in H. cbn [f_step f_due] in H. apply In_f_drop in H. destruct H as [H N].
    destruct (D BT x H) as [X0 XB]. split; [exact X0|]. cbn [heap set_numobjs set_heap].
    destruct HB as [->| ->]; [exact XB|]. apply In_remove_first_other; [exact XB|].
    intros E'. apply N. apply tmid_inj; assumption. }
  destruct (Z.eq_dec (HeapModel.tidx (heap s0) (tmid j)) 0) as [Z0|NZ].
  - rewrite (HeapUnreg.unregister_expired_eq _ _ Z0).
    destruct (HeapUnreg.pop_inv _ _ HI Z0) as (_ & _ & _ & _ & BB & _).
    unfold lift_heap. cbn [FQ]. apply G. right. exact BB.
  - pose proof (proj2 (proj2 (HeapFacts.i_batch _ HI)) (tmid j)) as LB.
    assert (GE : 1 <= HeapModel.tidx (heap s0) (tmid j)) by lia.
    destruct (HeapUnreg.unregister_inv _ _ HI GE) as (h' & R & _ & _ & _ & _ & BB & _).
    rewrite R. unfold lift_heap. cbn [FQ]. apply G. left. exact BB.
Qed.

(* ---------- small frames ---------- *)
Lemma task_register_fields : forall s k, heap (task_register s k) = heap s /\ time (task_register s k) = time s /\
  time_valid (task_register s k) = time_valid s /\ kern (task_register s k) = kern s /\ trace (task_register s k) = trace s.
Proof.
  intros s k. unfold task_register. cbv zeta. destruct (cur (set_numobjs s (numobjs s + 1))) as [c|];
    [destruct (_ =? _)|]; repeat split; reflexivity.
Qed.

Lemma FP_task_register : forall clk B s k, FP clk B s -> FP clk B (task_register s k).
Proof.
  intros clk B s k F. destruct (task_register_fields s k) as (E1 & E2 & E3 & E4 & E5).
  apply (FP_keep clk B s _ F); try assumption; [rewrite E1; reflexivity|rewrite E4; reflexivity|apply TrExt_same; exact E5].
Qed.

Lemma FP_event_post : forall clk B s j, FP clk B s -> FP clk B (event_post s j).
Proof.
  intros clk B s j F. unfold event_post. destruct (ev_on_list s j); [exact F|]. cbv zeta.
  set (s1 := set_evlists s (ev_pending s ++ [j]) (ev_batch s)).
  assert (F1 : FP clk B s1) by (apply (FP_keep clk B s _ F); try reflexivity; apply TrExt_same; reflexivity).
  destruct (_ && _); [apply FP_task_register; exact F1|exact F1].
Qed.

(* ---------- every action ---------- *)
Theorem do_action_FP : forall b clk B s a, J b s -> FP clk B s -> wf_action a -> FQ clk B (do_action s a).
Proof.
  intros b clk B s a Jh F W. destruct (J_SiTm _ _ Jh) as [HI _].
  destruct a; cbn [do_action];
    try (match goal with |- FQ clk B (if ?c then _ else _) => destruct c eqn:GD end);
    try (apply FQ_same; exact F).
  - (* AFdReg *) destruct (k_open (kern s) (fdnum (getfd s i))); [|apply FQ_same; exact F].
    eapply act_F0'; [exact F|apply FFr_F0r; apply fd_register_FF].
  - (* AFdTry *) pose proof (fd_register_try_FF (emit s (TAct (AFdTry i))) i) as FF0.
    destruct (fd_register_try (emit s (TAct (AFdTry i))) i) as [r failed]. cbn [Datatypes.fst] in FF0.
    eapply act_F0_res'; [exact F|apply FFr_F0r; exact FF0].
  - (* AFdUnreg *) eapply act_F0'; [exact F|apply FFr_F0r; apply fd_unregister_FF].
  - (* AFdSetH *) eapply act_F0'; [exact F|apply FFr_F0r; apply fd_set_handler_FF].
  - (* AFdCookie *) eapply act_F0'; [exact F|apply F0_plain; reflexivity].
  - (* AFdFresh *) eapply act_F0'; [exact F|apply F0_plain; reflexivity].
  - (* AKSet *) apply (act_F0' clk B s (AKSet i c)); [exact F|].
    apply (F0_set_kern (emit s (TAct (AKSet i c)))). apply ksame_set_cond.
  - (* AKClose *) apply (act_F0' clk B s (AKClose i)); [exact F|].
    apply (F0_set_kern (emit s (TAct (AKClose i)))). apply ksame_user_close.
  - (* AKOpen *) apply (act_F0' clk B s (AKOpen i)); [exact F|].
    apply (F0_set_kern (emit s (TAct (AKOpen i)))). apply ksame_user_fd.
  - (* ATmRegAbs *) apply (reg_FQ clk B (emit s (TAct (ATmRegAbs j e))) j e); [exact HI|apply FP_emit; [exact F|exact I]|exact GD].
  - (* ATmRegRel *) set (s1 := validate_now s).
    assert (F1 : FP clk B s1) by (apply FP_validate; exact F).
    assert (H1 : heap s1 = heap s) by (unfold s1, validate_now; destruct (time_valid s); reflexivity).
    set (e := time s1 + d). set (s2 := emit s1 (TAct (ATmRegAbs j e))).
    change (heap s1) with (heap s2).
    apply (reg_FQ clk B s2 j e); [cbn [s2 heap emit set_trace]; rewrite H1; exact HI|apply FP_emit; [exact F1|exact I]|].
    unfold timer_registered in *. cbn [s2 heap emit set_trace]. rewrite H1. exact GD.
  - (* ATmUnreg *) apply (unreg_FQ clk B s (emit s (TAct (ATmUnreg j))) j); [exact HI|exact F|unfold wf_action, ok_idx in W; lia|exact GD|reflexivity].
  - (* ATmFresh *) eapply act_F0'; [exact F|apply F0_refl].
  - (* ATkReg *) cbn [FQ]. apply FP_task_register. apply FP_emit; [exact F|exact I].
  - (* ATkUnreg *) cbn [FQ]. apply (FP_keep clk B s _ F); try reflexivity. apply (TrExt_emit qf s (TAct (ATkUnreg j))). exact I.
  - (* ATkFresh *) cbn [FQ]. apply (FP_keep clk B s _ F); try reflexivity. apply (TrExt_emit qf s (TAct (ATkFresh j))). exact I.
  - (* AEvReg *) pose proof (event_register_F0 (emit s (TAct (AEvReg j))) j) as FF0.
    destruct (event_register (emit s (TAct (AEvReg j))) j) as [r failed]. cbn [Datatypes.fst] in FF0.
    eapply act_F0_res'; [exact F|exact FF0].
  - (* AEvUnreg *) eapply act_F0'; [exact F|apply event_unregister_F0].
  - (* AEvPost *) cbn [FQ]. apply FP_event_post. apply FP_emit; [exact F|exact I].
  - (* AEvFresh *) eapply act_F0'; [exact F|apply F0_refl].
  - (* ARwReg *) pose proof (raw_register_F0 (emit s (TAct (ARwReg j))) j) as FF0.
    destruct (raw_register (emit s (TAct (ARwReg j))) j) as [r failed]. cbn [Datatypes.fst] in FF0.
    eapply act_F0_res'; [exact F|exact FF0].
  - (* ARwUnreg *) eapply act_F0'; [exact F|apply raw_unregister_F0].
  - (* ARwPost *) eapply act_F0'; [exact F|apply (raw_post_F0 (emit s (TAct (ARwPost j))) j)].
  - (* ARwFresh *) eapply act_F0'; [exact F|apply F0_refl].
  - (* AQuit *) eapply act_F0'; [exact F|apply F0_plain; reflexivity].
  - (* AClockAdv *) cbn [FQ]. cbn [wf_action] in W. apply (FP_keep2 clk B s _ F); [reflexivity| |eapply TrExt_one; [reflexivity|exact I]].
    destruct F as [[P1 P2] _]. split; [cbn [kern set_kern emit set_trace clock k_set_clock]; lia|exact P2].
  - (* AInvalidate *) cbn [FQ]. apply (FP_keep2 clk B s _ F); [reflexivity| |eapply TrExt_one; [reflexivity|exact I]].
    destruct F as [[P1 P2] _]. split; [exact P1|cbn [invalidate_now time_valid set_time]; discriminate].
  - (* AValidate *) cbn [FQ]. apply FP_validate. apply FP_emit; [exact F|exact I].
Qed.

Lemma run_acts_FP : forall b clk B l s, J b s -> FP clk B s -> Forall wf_action l -> FQ clk B (run_acts s l).
Proof.
  intros b clk B l. induction l as [|a l IH]; intros s Jh F W; cbn [run_acts]; [exact F|].
  inversion W as [|? ? W1 W2]; subst.
  eapply (FQ_bind b); [apply do_action_post; eassumption|eapply do_action_FP; eassumption|].
  intros s1 J1 F1. apply IH; assumption.
Qed.
