(* CoreRelMon.v -- the tracker (Monitors.v) seen through interface lemmas:
   which abstract fields each trace event changes, and under which conditions
   an event adds none of the failure codes proved absent in CoreRel.v. *)
From Coq Require Import List ZArith Bool Lia.
From Ivv Require Import Core.Kernel Core.CoreTypes Core.CoreFd Core.CoreModel Core.Monitors Core.CoreRelBase.
Import ListNotations.
Local Open Scope Z_scope.

(* the failure codes whose absence is proved: 1xx and the listed ones *)
Definition mycodes : list Z := [101; 102; 103; 104; 105; 301; 302; 709; 703; 704; 801; 406; 407; 1502].
Definition okcode (c : Z) : bool := negb (in_range 100 200 c) && negb (mem_z c mycodes).

Definition Goodm (m : mon) : Prop := forall c, In c (fails m) -> okcode c = true.

Lemma Goodm_fail : forall m c, Goodm m -> okcode c = true -> Goodm (m_fail m c).
Proof.
  intros m c G K x H. unfold m_fail in H. cbn [fails] in H.
  destruct (mem_z c (fails m)); [apply G; assumption|].
  apply in_app_or in H. destruct H as [H|[H|[]]]; [apply G; assumption|subst; assumption].
Qed.

Lemma Goodm_chk_ok : forall m b c, Goodm m -> okcode c = true -> Goodm (chk m b c).
Proof. intros m b c G K. unfold chk. destruct b; [assumption|apply Goodm_fail; assumption]. Qed.

Lemma Goodm_chk_true : forall m b c, Goodm m -> b = true -> Goodm (chk m b c).
Proof. intros m b c G K. subst b. exact G. Qed.

Lemma Goodm_m_fds : forall m a b c, Goodm m -> Goodm (m_fds m a b c). Proof. intros; assumption. Qed.
Lemma Goodm_m_tms : forall m a b, Goodm m -> Goodm (m_tms m a b). Proof. intros; assumption. Qed.
Lemma Goodm_m_tks : forall m a b, Goodm m -> Goodm (m_tks m a b). Proof. intros; assumption. Qed.
Lemma Goodm_m_evs : forall m a b, Goodm m -> Goodm (m_evs m a b). Proof. intros; assumption. Qed.
Lemma Goodm_m_rws : forall m a b, Goodm m -> Goodm (m_rws m a b). Proof. intros; assumption. Qed.
Lemma Goodm_m_loop : forall m a b c d, Goodm m -> Goodm (m_loop m a b c d). Proof. intros; assumption. Qed.
Lemma Goodm_m_wait : forall m a b c d e f, Goodm m -> Goodm (m_wait m a b c d e f). Proof. intros; assumption. Qed.
Lemma Goodm_m_iter : forall m a b c d, Goodm m -> Goodm (m_iter m a b c d). Proof. intros; assumption. Qed.
Lemma Goodm_m_spin : forall m a b c d, Goodm m -> Goodm (m_spin m a b c d). Proof. intros; assumption. Qed.

Ltac gstep :=
  match goal with
  | |- Goodm (chk _ _ ?c) => first [ apply Goodm_chk_ok; [ | vm_compute; reflexivity ] | apply Goodm_chk_true ]
  | |- Goodm (m_fail _ ?c) => apply Goodm_fail; [ | vm_compute; reflexivity ]
  | |- Goodm (m_fds _ _ _ _) => apply Goodm_m_fds
  | |- Goodm (m_tms _ _ _) => apply Goodm_m_tms
  | |- Goodm (m_tks _ _ _) => apply Goodm_m_tks
  | |- Goodm (m_evs _ _ _) => apply Goodm_m_evs
  | |- Goodm (m_rws _ _ _) => apply Goodm_m_rws
  | |- Goodm (m_loop _ _ _ _ _) => apply Goodm_m_loop
  | |- Goodm (m_wait _ _ _ _ _ _ _) => apply Goodm_m_wait
  | |- Goodm (m_iter _ _ _ _ _) => apply Goodm_m_iter
  | |- Goodm (m_spin _ _ _ _ _) => apply Goodm_m_spin
  end.

(* ---------- the tracked part of the tracker state ---------- *)
Definition mview (m : mon) : mon :=
  {| fails := []; a_fd := a_fd m; a_fh := a_fh m; a_ck := a_ck m; a_tm := a_tm m; a_exp := a_exp m; a_tk := a_tk m;
     a_ev := a_ev m; a_evp := a_evp m; a_rw := a_rw m; a_rwp := fun _ => false; a_main := a_main m; a_quit := a_quit m;
     a_clk := a_clk m; a_stale := false; w_open := false; w_entry := 0; w_call := 0; w_max := 0; w_to := 0; w_gnd := [];
     called := []; expect := []; ran := []; need_call := false; after_eintr := false; had_ev := false; ncall := 0;
     spin := 0; posted_ever := false |}.

Lemma mview_fail : forall m c, mview (m_fail m c) = mview m. Proof. reflexivity. Qed.
Lemma mview_chk : forall m b c, mview (chk m b c) = mview m.
Proof. intros m b c. destruct b; reflexivity. Qed.
Lemma mview_m_wait : forall m a b c d e f, mview (m_wait m a b c d e f) = mview m. Proof. reflexivity. Qed.
Lemma mview_m_iter : forall m a b c d, mview (m_iter m a b c d) = mview m. Proof. reflexivity. Qed.
Lemma mview_m_spin : forall m a b c d, mview (m_spin m a b c d) = mview m. Proof. reflexivity. Qed.

(* projections commute with chk *)
Lemma a_fd_chk : forall m b c, a_fd (chk m b c) = a_fd m. Proof. intros m b c; destruct b; reflexivity. Qed.
Lemma a_fh_chk : forall m b c, a_fh (chk m b c) = a_fh m. Proof. intros m b c; destruct b; reflexivity. Qed.
Lemma a_ck_chk : forall m b c, a_ck (chk m b c) = a_ck m. Proof. intros m b c; destruct b; reflexivity. Qed.
Lemma a_tm_chk : forall m b c, a_tm (chk m b c) = a_tm m. Proof. intros m b c; destruct b; reflexivity. Qed.
Lemma a_exp_chk : forall m b c, a_exp (chk m b c) = a_exp m. Proof. intros m b c; destruct b; reflexivity. Qed.
Lemma a_tk_chk : forall m b c, a_tk (chk m b c) = a_tk m. Proof. intros m b c; destruct b; reflexivity. Qed.
Lemma a_ev_chk : forall m b c, a_ev (chk m b c) = a_ev m. Proof. intros m b c; destruct b; reflexivity. Qed.
Lemma a_evp_chk : forall m b c, a_evp (chk m b c) = a_evp m. Proof. intros m b c; destruct b; reflexivity. Qed.
Lemma a_rw_chk : forall m b c, a_rw (chk m b c) = a_rw m. Proof. intros m b c; destruct b; reflexivity. Qed.
Lemma a_main_chk : forall m b c, a_main (chk m b c) = a_main m. Proof. intros m b c; destruct b; reflexivity. Qed.
Lemma a_quit_chk : forall m b c, a_quit (chk m b c) = a_quit m. Proof. intros m b c; destruct b; reflexivity. Qed.
Lemma a_clk_chk : forall m b c, a_clk (chk m b c) = a_clk m. Proof. intros m b c; destruct b; reflexivity. Qed.
Global Hint Rewrite a_fd_chk a_fh_chk a_ck_chk a_tm_chk a_exp_chk a_tk_chk a_ev_chk a_evp_chk a_rw_chk
  a_main_chk a_quit_chk a_clk_chk : monp.

Ltac mproj := unfold on_call, close_iteration;
  cbn [a_fd a_fh a_ck a_tm a_exp a_tk a_ev a_evp a_rw a_main a_quit a_clk
       m_fds m_tms m_tks m_evs m_rws m_loop m_wait m_iter m_spin];
  autorewrite with monp.

Lemma mview_on_call : forall m, mview (on_call m) = mview m.
Proof. intros m. unfold on_call. rewrite mview_m_iter, mview_m_spin, mview_chk. reflexivity. Qed.

Lemma a_tk_close : forall m, a_tk (close_iteration m) = a_tk m.
Proof. intros m. mproj. reflexivity. Qed.

Lemma mview_close : forall m, mview (close_iteration m) = mview m.
Proof.
  intros m. unfold close_iteration. cbv zeta.
  match goal with |- mview (m_tks ?X ?a ?b) = _ => transitivity (mview X) end.
  - unfold mview at 1. cbn [a_fd a_fh a_ck a_tm a_exp a_tk a_ev a_evp a_rw a_main a_quit a_clk m_tks].
    autorewrite with monp. reflexivity.
  - rewrite mview_m_iter, mview_m_spin, !mview_chk. reflexivity.
Qed.

(* ---------- effect of each event on the tracked fields ---------- *)
Lemma mview_TCallFd : forall m o b h ck, mview (mon_step m (TCallFd o b h ck)) = mview m.
Proof.
  intros. unfold mon_step. cbv zeta. rewrite mview_m_iter, !mview_chk. apply mview_on_call.
Qed.

Lemma mview_TCallTimer : forall m j now,
  mview (mon_step m (TCallTimer j now)) = mview (m_tms m (upd (a_tm m) j false) (a_exp m)).
Proof.
  intros. unfold mon_step. cbv zeta. unfold mview.
  cbn [a_fd a_fh a_ck a_tm a_exp a_tk a_ev a_evp a_rw a_main a_quit a_clk m_tms].
  autorewrite with monp.
  change (a_fd (on_call m)) with (a_fd (mview (on_call m))). change (a_fh (on_call m)) with (a_fh (mview (on_call m))).
  change (a_ck (on_call m)) with (a_ck (mview (on_call m))). change (a_tm (on_call m)) with (a_tm (mview (on_call m))).
  change (a_exp (on_call m)) with (a_exp (mview (on_call m))). change (a_tk (on_call m)) with (a_tk (mview (on_call m))).
  change (a_ev (on_call m)) with (a_ev (mview (on_call m))). change (a_evp (on_call m)) with (a_evp (mview (on_call m))).
  change (a_rw (on_call m)) with (a_rw (mview (on_call m))). change (a_main (on_call m)) with (a_main (mview (on_call m))).
  change (a_quit (on_call m)) with (a_quit (mview (on_call m))). change (a_clk (on_call m)) with (a_clk (mview (on_call m))).
  rewrite mview_on_call. reflexivity.
Qed.

(* generic: the fields of on_call m *)
Lemma a_fd_on_call : forall m, a_fd (on_call m) = a_fd m. Proof. intros; mproj; reflexivity. Qed.
Lemma a_fh_on_call : forall m, a_fh (on_call m) = a_fh m. Proof. intros; mproj; reflexivity. Qed.
Lemma a_ck_on_call : forall m, a_ck (on_call m) = a_ck m. Proof. intros; mproj; reflexivity. Qed.
Lemma a_tm_on_call : forall m, a_tm (on_call m) = a_tm m. Proof. intros; mproj; reflexivity. Qed.
Lemma a_exp_on_call : forall m, a_exp (on_call m) = a_exp m. Proof. intros; mproj; reflexivity. Qed.
Lemma a_tk_on_call : forall m, a_tk (on_call m) = a_tk m. Proof. intros; mproj; reflexivity. Qed.
Lemma a_ev_on_call : forall m, a_ev (on_call m) = a_ev m. Proof. intros; mproj; reflexivity. Qed.
Lemma a_evp_on_call : forall m, a_evp (on_call m) = a_evp m. Proof. intros; mproj; reflexivity. Qed.
Lemma a_rw_on_call : forall m, a_rw (on_call m) = a_rw m. Proof. intros; mproj; reflexivity. Qed.
Lemma a_main_on_call : forall m, a_main (on_call m) = a_main m. Proof. intros; mproj; reflexivity. Qed.
Lemma a_quit_on_call : forall m, a_quit (on_call m) = a_quit m. Proof. intros; mproj; reflexivity. Qed.
Lemma a_clk_on_call : forall m, a_clk (on_call m) = a_clk m. Proof. intros; mproj; reflexivity. Qed.
Global Hint Rewrite a_fd_on_call a_fh_on_call a_ck_on_call a_tm_on_call a_exp_on_call a_tk_on_call a_ev_on_call
  a_evp_on_call a_rw_on_call a_main_on_call a_quit_on_call a_clk_on_call : monp.

Lemma a_quit_close : forall m, a_quit (close_iteration m) = a_quit m. Proof. intros; mproj; reflexivity. Qed.
Lemma a_clk_close : forall m, a_clk (close_iteration m) = a_clk m. Proof. intros; mproj; reflexivity. Qed.
Lemma a_main_close : forall m, a_main (close_iteration m) = a_main m. Proof. intros; mproj; reflexivity. Qed.
Global Hint Rewrite a_quit_close a_clk_close a_main_close a_tk_close : monp.

Ltac mview_simpl := unfold mview;
  cbn [a_fd a_fh a_ck a_tm a_exp a_tk a_ev a_evp a_rw a_main a_quit a_clk
       m_fds m_tms m_tks m_evs m_rws m_loop m_wait m_iter m_spin];
  autorewrite with monp.

Lemma mview_TCallTask : forall m k,
  mview (mon_step m (TCallTask k)) = mview (m_tks m (upd (a_tk m) k false) []).
Proof. intros. unfold mon_step. cbv zeta. mview_simpl. reflexivity. Qed.

Lemma mview_TCallEvent : forall m j,
  mview (mon_step m (TCallEvent j)) = mview (m_evs m (a_ev m) (upd (a_evp m) j false)).
Proof. intros. unfold mon_step. cbv zeta. mview_simpl. reflexivity. Qed.

Lemma mview_TCallRaw : forall m j, mview (mon_step m (TCallRaw j)) = mview m.
Proof. intros. unfold mon_step. cbv zeta. mview_simpl. reflexivity. Qed.

Lemma mview_TWait : forall m n call mx t i g, mview (mon_step m (TWait n call mx t i g)) = mview m.
Proof.
  intros. unfold mon_step. cbv zeta. rewrite mview_m_wait, !mview_chk. apply mview_close.
Qed.

Lemma mview_TRet_none : forall m fds clk,
  mview (mon_step m (TRet None fds clk)) = mview (m_loop m (a_main m) (a_quit m) clk false).
Proof.
  intros. unfold mon_step. cbv zeta. rewrite mview_m_iter.
  unfold mview. cbn [a_fd a_fh a_ck a_tm a_exp a_tk a_ev a_evp a_rw a_main a_quit a_clk m_loop].
  autorewrite with monp. reflexivity.
Qed.

Lemma mview_fields : forall m' m0, mview m' = mview m0 ->
  a_fd m' = a_fd m0 /\ a_fh m' = a_fh m0 /\ a_ck m' = a_ck m0 /\ a_tm m' = a_tm m0 /\ a_exp m' = a_exp m0 /\
  a_tk m' = a_tk m0 /\ a_ev m' = a_ev m0 /\ a_evp m' = a_evp m0 /\ a_rw m' = a_rw m0 /\ a_main m' = a_main m0 /\
  a_quit m' = a_quit m0 /\ a_clk m' = a_clk m0.
Proof.
  intros m' m0 V.
  repeat split.
  - change (a_fd (mview m') = a_fd (mview m0)); rewrite V; reflexivity.
  - change (a_fh (mview m') = a_fh (mview m0)); rewrite V; reflexivity.
  - change (a_ck (mview m') = a_ck (mview m0)); rewrite V; reflexivity.
  - change (a_tm (mview m') = a_tm (mview m0)); rewrite V; reflexivity.
  - change (a_exp (mview m') = a_exp (mview m0)); rewrite V; reflexivity.
  - change (a_tk (mview m') = a_tk (mview m0)); rewrite V; reflexivity.
  - change (a_ev (mview m') = a_ev (mview m0)); rewrite V; reflexivity.
  - change (a_evp (mview m') = a_evp (mview m0)); rewrite V; reflexivity.
  - change (a_rw (mview m') = a_rw (mview m0)); rewrite V; reflexivity.
  - change (a_main (mview m') = a_main (mview m0)); rewrite V; reflexivity.
  - change (a_quit (mview m') = a_quit (mview m0)); rewrite V; reflexivity.
  - change (a_clk (mview m') = a_clk (mview m0)); rewrite V; reflexivity.
Qed.

(* turn the outermost let of the argument into a local definition (no duplication of terms) *)
Ltac lift_let := lazymatch goal with
  | |- ?F (let x := ?v in @?b x) = ?R =>
      let y := fresh x in set (y := v); change (F (b y) = R); cbv beta
  | |- ?F (let x := ?v in @?b x) =>
      let y := fresh x in set (y := v); change (F (b y)); cbv beta
  end.

Lemma mview_TRet_some : forall m n fds clk,
  mview (mon_step m (TRet (Some n) fds clk)) = mview (m_loop m (a_main m) (a_quit m) clk false).
Proof.
  intros. lazy beta iota delta [mon_step]. repeat lift_let.
  assert (V0 : mview m0 = mview m) by apply mview_chk.
  assert (V1 : mview m1 = mview m) by (unfold m1; rewrite mview_chk; exact V0).
  assert (V2 : mview m2 = mview m) by (unfold m2; rewrite mview_chk; exact V1).
  assert (V3 : mview m3 = mview m) by (unfold m3; rewrite mview_chk; exact V2).
  assert (V4 : mview m4 = mview m) by (unfold m4; rewrite mview_chk; exact V3).
  assert (V5 : mview m5 = mview m) by (unfold m5; rewrite mview_chk; exact V4).
  assert (V6 : mview m6 = mview m).
  { unfold m6. destruct (slept && negb (a_stale m5)); [|exact V5].
    destruct (min_expiry m5); [|exact V5]. cbv zeta. rewrite !mview_chk. exact V5. }
  assert (V7 : mview m7 = mview m) by (unfold m7; rewrite mview_chk; exact V6).
  assert (V8 : mview m8 = mview m) by (unfold m8; rewrite mview_m_wait; exact V7).
  rewrite mview_m_iter. unfold m10. rewrite mview_m_spin. unfold m9. clearbody m8.
  destruct (mview_fields m8 m V8) as (Q1 & Q2 & Q3 & Q4 & Q5 & Q6 & Q7 & Q8 & Q9 & Q10 & Q11 & Q12).
  unfold mview. cbn [a_fd a_fh a_ck a_tm a_exp a_tk a_ev a_evp a_rw a_main a_quit a_clk m_loop].
  rewrite Q1, Q2, Q3, Q4, Q5, Q6, Q7, Q8, Q9, Q10, Q11. reflexivity.
Qed.

Lemma mview_TMain : forall m, mview (mon_step m TMain) = mview (m_loop m true false (a_clk m) false).
Proof. reflexivity. Qed.

Lemma mview_TEnd : forall m q n,
  mview (mon_step m (TEnd q n)) = mview (m_loop m false (a_quit m) (a_clk m) false).
Proof.
  intros. unfold mon_step. cbv zeta.
  match goal with |- mview (m_loop ?X _ _ _ _) = _ => assert (V : mview X = mview m) by (rewrite !mview_chk; apply mview_close);
    set (X0 := X) in * end.
  unfold mview at 1. cbn [a_fd a_fh a_ck a_tm a_exp a_tk a_ev a_evp a_rw a_main a_quit a_clk m_loop].
  change (a_fd X0) with (a_fd (mview X0)). change (a_fh X0) with (a_fh (mview X0)).
  change (a_ck X0) with (a_ck (mview X0)). change (a_tm X0) with (a_tm (mview X0)).
  change (a_exp X0) with (a_exp (mview X0)). change (a_tk X0) with (a_tk (mview X0)).
  change (a_ev X0) with (a_ev (mview X0)). change (a_evp X0) with (a_evp (mview X0)).
  change (a_rw X0) with (a_rw (mview X0)). change (a_quit X0) with (a_quit (mview X0)).
  change (a_clk X0) with (a_clk (mview X0)).
  rewrite V. reflexivity.
Qed.

Lemma mview_TTear : forall m n, mview (mon_step m (TTear n)) = mview m.
Proof. intros. unfold mon_step. apply mview_chk. Qed.
Lemma mview_TDone : forall m n, mview (mon_step m (TDone n)) = mview m.
Proof. intros. unfold mon_step. apply mview_chk. Qed.

Lemma mview_TRes : forall m kind id rc,
  mview (mon_step m (TRes kind id rc)) =
  mview (if rc =? 0 then
           if kind =? 0 then m_fds m (upd (a_fd m) id true) (a_fh m) (a_ck m)
           else if kind =? 1 then m_evs m (upd (a_ev m) id true) (a_evp m)
           else m_rws m (upd (a_rw m) id true) (fun _ => false)
         else m).
Proof.
  intros. unfold mon_step. destruct (rc =? 0); [|reflexivity].
  destruct (kind =? 0); [reflexivity|]. destruct (kind =? 1); reflexivity.
Qed.

(* ---------- events and the proved failure codes ---------- *)
Definition quiet (e : tev) : Prop := e = TFatal \/ e = TCrash \/ e = TLimit \/ e = THang.

Lemma good_quiet : forall m e, quiet e -> Goodm m -> Goodm (mon_step m e).
Proof.
  intros m e [E|[E|[E|E]]] G; subst e; unfold mon_step; repeat gstep; assumption.
Qed.

Lemma fails_action : forall m a, fails (mon_action m a) = fails m.
Proof. intros m a. destruct a; reflexivity. Qed.

Lemma good_TAct : forall m a, Goodm m -> Goodm (mon_step m (TAct a)).
Proof. intros m a G c H. cbn [mon_step] in H. rewrite fails_action in H. apply G; assumption. Qed.

Lemma good_TRes : forall m kind id rc, Goodm m -> Goodm (mon_step m (TRes kind id rc)).
Proof.
  intros m kind id rc G. unfold mon_step. destruct (rc =? 0); [|assumption].
  destruct (kind =? 0); [assumption|]. destruct (kind =? 1); assumption.
Qed.

Lemma good_TMain : forall m, Goodm m -> Goodm (mon_step m TMain).
Proof. intros m G. exact G. Qed.

Lemma good_close : forall m, Goodm m -> Goodm (close_iteration m).
Proof. intros m G. unfold close_iteration. cbv zeta. repeat gstep. assumption. Qed.

Lemma good_TCallFd : forall m o b h ck, Goodm m -> a_main m = true -> a_fd m o = true ->
  a_fh m o b = Some h -> a_ck m o = ck -> Goodm (mon_step m (TCallFd o b h ck)).
Proof.
  intros m o b h ck G M F H C. unfold mon_step. cbv zeta.
  assert (GO : Goodm (on_call m)).
  { unfold on_call. cbv zeta. repeat gstep; assumption. }
  repeat gstep; try assumption; autorewrite with monp; try assumption.
  - rewrite H. apply Z.eqb_refl.
  - rewrite C. apply Z.eqb_refl.
Qed.

Lemma good_TCallTimer : forall m j now, Goodm m -> a_main m = true -> a_tm m j = true ->
  now <= a_clk m -> Goodm (mon_step m (TCallTimer j now)).
Proof.
  intros m j now G M T C. unfold mon_step. cbv zeta.
  assert (GO : Goodm (on_call m)).
  { unfold on_call. cbv zeta. repeat gstep; assumption. }
  repeat gstep; try assumption; autorewrite with monp; try assumption.
  apply Z.leb_le. assumption.
Qed.

Lemma good_TCallTask : forall m k, Goodm m -> a_main m = true -> a_tk m k = true ->
  Goodm (mon_step m (TCallTask k)).
Proof.
  intros m k G M T. unfold mon_step. cbv zeta.
  assert (GO : Goodm (on_call m)).
  { unfold on_call. cbv zeta. repeat gstep; assumption. }
  repeat gstep; try assumption; autorewrite with monp. assumption.
Qed.

Lemma good_TCallEvent : forall m j, Goodm m -> a_main m = true -> a_ev m j = true -> a_evp m j = true ->
  Goodm (mon_step m (TCallEvent j)).
Proof.
  intros m j G M E P. unfold mon_step. cbv zeta.
  assert (GO : Goodm (on_call m)).
  { unfold on_call. cbv zeta. repeat gstep; assumption. }
  repeat gstep; try assumption; autorewrite with monp; assumption.
Qed.

Lemma good_TCallRaw : forall m j, Goodm m -> a_main m = true -> a_rw m j = true ->
  Goodm (mon_step m (TCallRaw j)).
Proof.
  intros m j G M E. unfold mon_step. cbv zeta.
  assert (GO : Goodm (on_call m)).
  { unfold on_call. cbv zeta. repeat gstep; assumption. }
  repeat gstep; try assumption; autorewrite with monp; assumption.
Qed.

Lemma good_TWait : forall m n call mx t i g, Goodm m -> a_quit m = false ->
  Goodm (mon_step m (TWait n call mx t i g)).
Proof.
  intros m n call mx t i g G Q. unfold mon_step. cbv zeta.
  pose proof (good_close m G) as GC.
  repeat gstep; try assumption; autorewrite with monp. rewrite Q. reflexivity.
Qed.

Lemma good_TRet_none : forall m fds clk, Goodm m -> a_clk m <= clk -> Goodm (mon_step m (TRet None fds clk)).
Proof.
  intros m fds clk G C. unfold mon_step. cbv zeta.
  repeat gstep; try assumption.
  cbn [a_clk m_wait]. apply Z.leb_le. assumption.
Qed.

Lemma good_TRet_some : forall m n fds clk, Goodm m -> a_clk m <= clk ->
  Goodm (mon_step m (TRet (Some n) fds clk)).
Proof.
  intros m n fds clk G C. lazy beta iota delta [mon_step]. repeat lift_let.
  assert (G0 : Goodm m0) by (unfold m0; gstep; assumption).
  assert (G1 : Goodm m1) by (unfold m1; gstep; assumption).
  assert (G2 : Goodm m2) by (unfold m2; gstep; assumption).
  assert (G3 : Goodm m3) by (unfold m3; gstep; assumption).
  assert (G4 : Goodm m4) by (unfold m4; gstep; assumption).
  assert (G5 : Goodm m5) by (unfold m5; gstep; assumption).
  assert (V5 : a_clk m5 = a_clk m) by (unfold m5, m4, m3, m2, m1, m0; autorewrite with monp; reflexivity).
  assert (G6 : Goodm m6 /\ a_clk m6 = a_clk m).
  { unfold m6. destruct (slept && negb (a_stale m5)); [|split; assumption].
    destruct (min_expiry m5); [|split; assumption]. cbv zeta.
    split; [repeat gstep; assumption|autorewrite with monp; exact V5]. }
  destruct G6 as [G6 V6].
  assert (G7 : Goodm m7).
  { unfold m7. apply Goodm_chk_true; [assumption|]. rewrite V6. apply Z.leb_le. assumption. }
  unfold m10, m9, m8. clearbody m7.
  repeat gstep. assumption.
Qed.

Lemma good_TEnd : forall m q n, Goodm m -> Bool.eqb (q =? 1) (a_quit m) = true ->
  Goodm (mon_step m (TEnd q n)).
Proof.
  intros m q n G Q. unfold mon_step. cbv zeta.
  pose proof (good_close m G) as GC.
  repeat gstep; try assumption; autorewrite with monp. assumption.
Qed.

Lemma good_TTear : forall m n, Goodm m -> Goodm (mon_step m (TTear n)).
Proof. intros m n G. unfold mon_step. repeat gstep. assumption. Qed.
Lemma good_TDone : forall m n, Goodm m -> Goodm (mon_step m (TDone n)).
Proof. intros m n G. unfold mon_step. repeat gstep. assumption. Qed.
