(* CorePhase2AcctAct.v -- the accounting invariant Acc (equation N of DESIGN.md A.5 with
   its side conditions) and its preservation by every scenario action. *)
From Coq Require Import List ZArith Bool Lia.
From Ivv Require Import Core.Kernel Core.CoreTypes Core.CoreFd Core.CoreModel Core.Monitors Core.CoreSpec
  Core.CoreRel Core.CorePhase2AcctTr Core.CorePhase2AcctMon Core.CorePhase2AcctFd.
From Ivv Require Timer.HeapModel Timer.HeapFacts Timer.HeapReg Timer.HeapUnreg Timer.HeapDispatch Timer.HeapBase.
Import ListNotations.
Local Open Scope Z_scope.

Definition cnt33 (f : Z -> bool) : Z := Z.of_nat (length (filter f (zseq 0 33))).
Definition regf (s : core) : Z -> bool := fun k => registered (fdt s k).
Definition kick (s : core) : Z := if (0 <? ev_count s) && negb (use_raw s) then 1 else 0.
Definition ntask (s : core) : Z := Z.of_nat (length (tasks s ++ curl s)).
Definition hnum (s : core) : Z := HeapModel.num (heap s).

Record Acc (s : core) : Prop := {
  ac_nf : numfds s = cnt33 (regf s);
  ac_no : numobjs s = numfds s + hnum s + ntask s + ev_count s + kick s;
  ac_raw : forall j, 0 <= j <= 16 -> rw_reg s j = true -> registered (fdt s (16 + j)) = true;
  ac_kick : use_raw s = true -> 0 < ev_count s -> rw_reg s 16 = true;
  ac_pe : task_registered s LOCAL_TASK = true -> posted_ever (mst s) = true }.

Definition Bq (s s' : core) : Prop := HeapModel.batch (heap s) = [] -> HeapModel.batch (heap s') = [].
Lemma Bq_refl : forall s, Bq s s. Proof. intros s H. exact H. Qed.
Lemma Bq_trans : forall a b c, Bq a b -> Bq b c -> Bq a c. Proof. unfold Bq. auto. Qed.
Lemma Bq_heap : forall s s', heap s' = heap s -> Bq s s'. Proof. intros s s' E H. rewrite E. exact H. Qed.

(* ---------- counting ---------- *)
Lemma cnt33_ext : forall f g, (forall i, 0 <= i <= 32 -> f i = g i) -> cnt33 f = cnt33 g.
Proof.
  intros f g H. unfold cnt33. f_equal. f_equal. apply filter_ext_in. intros a I. apply In_zseq in I. apply H. lia.
Qed.

Lemma cnt33_set : forall f g k v, 0 <= k <= 32 -> (forall i, g i = if i =? k then v else f i) ->
  cnt33 g = cnt33 f + (if v then 1 else 0) - (if f k then 1 else 0).
Proof.
  intros f g k v K H. rewrite (cnt33_ext g (upd f k v)) by (intros i _; rewrite H; reflexivity).
  unfold cnt33. apply cnt_gen_upd. lia.
Qed.

Lemma cnt33_nonneg : forall f, 0 <= cnt33 f. Proof. intros. unfold cnt33. lia. Qed.

Lemma cnt33_zero : forall f k, cnt33 f = 0 -> 0 <= k <= 32 -> f k = false.
Proof.
  intros f k Z K. destruct (f k) eqn:E; [|reflexivity].
  pose proof (cnt33_set f (upd f k false) k false K (fun i => eq_refl)) as H. rewrite E in H.
  pose proof (cnt33_nonneg (upd f k false)). lia.
Qed.

Lemma kick_range : forall s, 0 <= kick s <= 1.
Proof. intros. unfold kick. destruct (_ && _); lia. Qed.

(* ---------- the general step ---------- *)
Lemma Acc_step : forall P s s', Acc s -> TrExt P s s' ->
  numfds s' = cnt33 (regf s') ->
  numobjs s' - numobjs s = (numfds s' - numfds s) + (hnum s' - hnum s) + (ntask s' - ntask s) +
                           (ev_count s' - ev_count s) + (kick s' - kick s) ->
  (forall j, 0 <= j <= 16 -> rw_reg s' j = true -> registered (fdt s' (16 + j)) = true) ->
  (use_raw s' = true -> 0 < ev_count s' -> rw_reg s' 16 = true) ->
  (task_registered s' LOCAL_TASK = true -> task_registered s LOCAL_TASK = true \/ posted_ever (mst s') = true) ->
  Acc s'.
Proof.
  intros P s s' [A1 A2 A3 A4 A5] T H1 H2 H3 H4 H5. constructor; try assumption.
  - lia.
  - intros H. destruct (H5 H) as [H6|H6]; [|exact H6]. eapply pe_ext; [exact T|]. apply A5. exact H6.
Qed.

Lemma ntask_same : forall s s', tasks s' = tasks s -> cur s' = cur s -> ntask s' = ntask s.
Proof. intros s s' E1 E2. unfold ntask, curl. rewrite E1, E2. reflexivity. Qed.

Lemma treg_same : forall s s' k, tasks s' = tasks s -> cur s' = cur s -> task_registered s' k = task_registered s k.
Proof. intros s s' k E1 E2. unfold task_registered. rewrite E1, E2. reflexivity. Qed.

Lemma kick_same : forall s s', ev_count s' = ev_count s -> use_raw s' = use_raw s -> kick s' = kick s.
Proof. intros s s' E1 E2. unfold kick. rewrite E1, E2. reflexivity. Qed.

Lemma Acc_AS : forall P s s', Acc s -> AS s s' -> TrExt P s s' -> Acc s'.
Proof.
  intros P s s' A [] T. apply (Acc_step P s s' A T).
  - rewrite as_nf, (ac_nf _ A). apply cnt33_ext. intros i _. unfold regf. symmetry. apply as_reg.
  - unfold hnum. rewrite as_no, as_nf, as_heap, (ntask_same s s' as_tasks as_cur), (kick_same s s' as_evc as_ur), as_evc. lia.
  - intros j Jr H. rewrite as_reg. rewrite as_rw in H. apply (ac_raw _ A); assumption.
  - rewrite as_ur, as_evc, as_rw. apply (ac_kick _ A).
  - rewrite (treg_same s s' _ as_tasks as_cur). auto.
Qed.

(* the fields Acc reads *)
Record AW (s s' : core) : Prop := {
  aw_no : numobjs s' = numobjs s;
  aw_nf : numfds s' = numfds s;
  aw_reg : forall i, registered (fdt s' i) = registered (fdt s i);
  aw_heap : heap s' = heap s;
  aw_tasks : tasks s' = tasks s;
  aw_cur : cur s' = cur s;
  aw_evc : ev_count s' = ev_count s;
  aw_ur : use_raw s' = use_raw s;
  aw_rw : rw_reg s' = rw_reg s }.

Lemma AS_AW : forall s s', AS s s' -> AW s s'.
Proof. intros s s' []. constructor; assumption. Qed.

Lemma Acc_AW : forall P s s', Acc s -> AW s s' -> TrExt P s s' -> Acc s'.
Proof.
  intros P s s' A [] T. apply (Acc_step P s s' A T).
  - rewrite aw_nf0, (ac_nf _ A). apply cnt33_ext. intros i _. unfold regf. symmetry. apply aw_reg0.
  - unfold hnum. rewrite aw_no0, aw_nf0, aw_heap0, (ntask_same s s' aw_tasks0 aw_cur0), (kick_same s s' aw_evc0 aw_ur0), aw_evc0. lia.
  - intros j Jr H. rewrite aw_reg0. rewrite aw_rw0 in H. apply (ac_raw _ A); assumption.
  - rewrite aw_ur0, aw_evc0, aw_rw0. apply (ac_kick _ A).
  - rewrite (treg_same s s' _ aw_tasks0 aw_cur0). auto.
Qed.

(* a user descriptor is registered / unregistered *)
Lemma Acc_ASk_user : forall P s s' k v d, Acc s -> ASk s s' k v d -> TrExt P s s' -> 0 <= k < 16 ->
  registered (fdt s k) = negb v -> d = (if v then 1 else -1) -> Acc s'.
Proof.
  intros P s s' k v d A [] T K R D. apply (Acc_step P s s' A T).
  - rewrite ak_nf, (ac_nf _ A). rewrite (cnt33_set (regf s) (regf s') k v ltac:(lia) ak_reg).
    unfold regf. rewrite R. destruct v; cbn [negb]; lia.
  - unfold hnum. rewrite ak_no, ak_nf, ak_heap, (ntask_same s s' ak_tasks ak_cur), (kick_same s s' ak_evc ak_ur), ak_evc. lia.
  - intros j Jr H. rewrite ak_reg. rewrite ak_rw in H. destruct (Z.eqb_spec (16 + j) k); [lia|]. apply (ac_raw _ A); assumption.
  - rewrite ak_ur, ak_evc, ak_rw. apply (ac_kick _ A).
  - rewrite (treg_same s s' _ ak_tasks ak_cur). auto.
Qed.

(* ---------- post-condition of an action ---------- *)
Definition PA (s : core) (r : res) : Prop := ARes (fun s' => Acc s' /\ Bq s s') r.

Lemma PA_same : forall s, Acc s -> PA s (R s).
Proof. intros s A. split; [exact A|apply Bq_refl]. Qed.

Lemma AS_emit : forall s e, AS s (emit s e). Proof. intros; constructor; reflexivity. Qed.

Lemma PA_AS : forall s s', Acc s -> AS s s' -> TrExt ca s s' -> Acc s' /\ Bq s s'.
Proof. intros s s' A S T. split; [eapply Acc_AS; eassumption|apply Bq_heap; apply (as_heap _ _ S)]. Qed.

(* result of an action as seen by the trace lemmas *)
Lemma act_ext_R : forall s a s', do_action s a = R s' -> TrExt ca s s'.
Proof. intros s a s' E. pose proof (do_action_ext s a) as Q. rewrite E in Q. exact Q. Qed.

Ltac act_T T := match goal with |- PA ?s (do_action ?s ?a) =>
  pose proof (do_action_ext s a) as T; unfold RExt in T end.

(* actions that only touch fields outside the equation *)
Lemma actA_plain : forall s a s', Acc s -> do_action s a = R s' -> AS s s' -> PA s (do_action s a).
Proof. intros s a s' A E S. rewrite E. apply PA_AS; [exact A|exact S|eapply act_ext_R; exact E]. Qed.

Lemma actA_AFdCookie : forall s i c, Acc s -> PA s (do_action s (AFdCookie i c)).
Proof.
  intros s i c A. eapply actA_plain; [exact A|reflexivity|].
  eapply AS_trans; [apply (AS_emit s (TAct (AFdCookie i c)))|]. apply AS_putfd. reflexivity.
Qed.

Lemma actA_AFdFresh : forall s i, Acc s -> PA s (do_action s (AFdFresh i)).
Proof.
  intros s i A. cbn [do_action]. destruct (registered (getfd s i)) eqn:RG; [apply PA_same; exact A|].
  change (PA s (R (putfd (emit s (TAct (AFdFresh i))) i (fd_fresh (100 + i) i)))).
  apply PA_AS; [exact A| |].
  - eapply AS_trans; [apply (AS_emit s (TAct (AFdFresh i)))|]. apply AS_putfd. cbn [registered fd_fresh]. symmetry. exact RG.
  - eapply TrExt_trans; [apply emit_act_ext|apply TrExt_same; reflexivity].
Qed.

Lemma AS_kern : forall s a k, AS s (set_kern (emit s (TAct a)) k).
Proof. intros; constructor; reflexivity. Qed.

Lemma TrExt_kern : forall s a k, TrExt ca s (set_kern (emit s (TAct a)) k).
Proof. intros. eapply TrExt_trans; [apply emit_act_ext|apply TrExt_same; reflexivity]. Qed.

Lemma actA_AKSet : forall s i c, Acc s -> PA s (do_action s (AKSet i c)).
Proof. intros s i c A. cbn [do_action]. apply PA_AS; [exact A|apply AS_kern|apply TrExt_kern]. Qed.
Lemma actA_AKOpen : forall s i, Acc s -> PA s (do_action s (AKOpen i)).
Proof. intros s i A. cbn [do_action]. apply PA_AS; [exact A|apply AS_kern|apply TrExt_kern]. Qed.
Lemma actA_AKClose : forall s i, Acc s -> PA s (do_action s (AKClose i)).
Proof.
  intros s i A. cbn [do_action]. destruct (registered (getfd s i)); [apply PA_same; exact A|].
  apply PA_AS; [exact A|apply AS_kern|apply TrExt_kern].
Qed.
Lemma actA_AClockAdv : forall s d, Acc s -> PA s (do_action s (AClockAdv d)).
Proof. intros s d A. cbn [do_action]. apply PA_AS; [exact A|apply AS_kern|apply TrExt_kern]. Qed.
Lemma actA_ARwPost : forall s j, Acc s -> PA s (do_action s (ARwPost j)).
Proof.
  intros s j A. cbn [do_action]. destruct (rw_reg s j); [|apply PA_same; exact A].
  unfold raw_post. destruct (if raw_is_pipe _ _ then _ else _) as [k1 x].
  apply PA_AS; [exact A|apply AS_kern|apply TrExt_kern].
Qed.

Lemma actA_log : forall s a, Acc s -> PA s (R (emit s (TAct a))).
Proof. intros s a A. apply PA_AS; [exact A|apply AS_emit|apply emit_act_ext]. Qed.

Lemma actA_ATmFresh : forall s j, Acc s -> PA s (do_action s (ATmFresh j)).
Proof. intros s j A. cbn [do_action]. dm; [apply PA_same; exact A|apply actA_log; exact A]. Qed.
Lemma actA_AEvFresh : forall s j, Acc s -> PA s (do_action s (AEvFresh j)).
Proof. intros s j A. cbn [do_action]. dm; [apply PA_same; exact A|apply actA_log; exact A]. Qed.
Lemma actA_ARwFresh : forall s j, Acc s -> PA s (do_action s (ARwFresh j)).
Proof. intros s j A. cbn [do_action]. dm; [apply PA_same; exact A|apply actA_log; exact A]. Qed.

Lemma actA_AQuit : forall s, Acc s -> PA s (do_action s AQuit).
Proof.
  intros s A. cbn [do_action]. split; [|apply Bq_heap; reflexivity].
  set (s' := set_quit (emit s (TAct AQuit)) true).
  apply (Acc_step ca s s' A).
  - eapply TrExt_trans; [apply emit_act_ext|apply TrExt_same; reflexivity].
  - exact (ac_nf _ A).
  - change (numobjs s - numobjs s = numfds s - numfds s + (hnum s - hnum s) + (ntask s - ntask s) + (ev_count s - ev_count s) + (kick s - kick s)). lia.
  - exact (ac_raw _ A).
  - exact (ac_kick _ A).
  - intros H. left. exact H.
Qed.

Lemma AS_validate : forall s, AS s (validate_now s).
Proof. intros s. unfold validate_now. dm; constructor; reflexivity. Qed.

Lemma actA_AInvalidate : forall s, Acc s -> PA s (do_action s AInvalidate).
Proof.
  intros s A. cbn [do_action]. apply PA_AS; [exact A|constructor; reflexivity|].
  eapply TrExt_trans; [apply emit_act_ext|apply TrExt_same; reflexivity].
Qed.

Lemma actA_AValidate : forall s, Acc s -> PA s (do_action s AValidate).
Proof.
  intros s A. cbn [do_action]. apply PA_AS; [exact A| |].
  - eapply AS_trans; [apply (AS_emit s (TAct AValidate))|apply AS_validate].
  - eapply TrExt_trans; [apply emit_act_ext|apply TrExt_same; apply validate_trace].
Qed.

Lemma actA_ATkFresh : forall s j, Acc s -> PA s (do_action s (ATkFresh j)).
Proof.
  intros s j A. cbn [do_action]. dm; [apply PA_same; exact A|].
  apply PA_AS; [exact A|constructor; reflexivity|].
  eapply TrExt_trans; [apply emit_act_ext|apply TrExt_same; reflexivity].
Qed.

(* ---------- tasks ---------- *)
Lemma task_register_acc : forall s k,
  let s' := task_register s k in
  numobjs s' = numobjs s + 1 /\ ntask s' = ntask s + 1 /\ numfds s' = numfds s /\ fdt s' = fdt s /\ heap s' = heap s /\
  ev_count s' = ev_count s /\ use_raw s' = use_raw s /\ rw_reg s' = rw_reg s /\
  (forall y, task_registered s' y = task_registered s y || (y =? k)).
Proof.
  intros s k s'. unfold s', task_register. cbv zeta.
  destruct (cur (set_numobjs s (numobjs s + 1))) as [c|] eqn:C; cbn [cur set_numobjs] in C.
  - destruct (tepoch _ k =? epoch _).
    + repeat split; try reflexivity.
      * unfold ntask, curl. cbn [tasks cur set_tasks set_numobjs]. rewrite C. rewrite !app_length. cbn [length]. lia.
      * intros y. unfold task_registered. cbn [tasks cur set_tasks set_numobjs]. rewrite C, mem_z_app.
        cbn [mem_z existsb]. rewrite orb_false_r. destruct (mem_z y (tasks s)), (mem_z y c), (y =? k); reflexivity.
    + repeat split; try reflexivity.
      * unfold ntask, curl. cbn [tasks cur set_tasks set_numobjs]. rewrite C. rewrite !app_length. cbn [length]. lia.
      * intros y. unfold task_registered. cbn [tasks cur set_tasks set_numobjs]. rewrite C, mem_z_app.
        cbn [mem_z existsb]. rewrite orb_false_r. destruct (mem_z y (tasks s)), (mem_z y c), (y =? k); reflexivity.
  - repeat split; try reflexivity.
    + unfold ntask, curl. cbn [tasks cur set_tasks set_numobjs]. rewrite C. rewrite !app_length. cbn [length]. lia.
    + intros y. unfold task_registered. cbn [tasks cur set_tasks set_numobjs]. rewrite C, mem_z_app.
      cbn [mem_z existsb]. rewrite !orb_false_r. reflexivity.
Qed.

Lemma Acc_task_register : forall P s0 s k, Acc s0 -> AS s0 s -> TrExt P s0 s ->
  (k = LOCAL_TASK -> posted_ever (mst s) = true) -> Acc (task_register s k).
Proof.
  intros P s0 s k A S T PE.
  destruct (task_register_acc s k) as (E1 & E2 & E3 & E4 & E5 & E6 & E7 & E8 & E9).
  set (s' := task_register s k) in *.
  assert (TS : trace s' = trace s) by apply task_register_trace.
  assert (A1 : Acc s) by (eapply Acc_AS; eassumption).
  apply (Acc_step P s s' A1).
  - apply TrExt_same. exact TS.
  - rewrite E3, (ac_nf _ A1). unfold regf. rewrite E4. reflexivity.
  - unfold hnum. rewrite E1, E2, E3, E5, E6, (kick_same s s' E6 E7). lia.
  - intros j Jr H. rewrite E4. rewrite E8 in H. apply (ac_raw _ A1); assumption.
  - rewrite E7, E6, E8. apply (ac_kick _ A1).
  - intros H. rewrite E9 in H. apply orb_true_iff in H. destruct H as [H|H]; [left; exact H|].
    right. apply Z.eqb_eq in H. rewrite (mst_trace s s' TS). apply PE. symmetry. exact H.
Qed.

Lemma actA_ATkReg : forall s j, Acc s -> inr16 j -> PA s (do_action s (ATkReg j)).
Proof.
  intros s j A I. cbn [do_action]. dm; [apply PA_same; exact A|]. split.
  - apply (Acc_task_register ca s); [exact A|apply AS_emit|apply emit_act_ext|].
    intros E. unfold inr16, LOCAL_TASK in *. lia.
  - apply Bq_heap. apply (proj1 (proj2 (proj2 (proj2 (proj2 (task_register_acc (emit s (TAct (ATkReg j))) j)))))).
Qed.

Lemma remove_z_notin : forall x l, ~ In x l -> remove_z x l = l.
Proof.
  intros x l. induction l as [|a l IH]; intros H; [reflexivity|]. cbn [remove_z].
  destruct (Z.eqb_spec a x) as [->|N]; [exfalso; apply H; left; reflexivity|].
  f_equal. apply IH. intros I. apply H. right. exact I.
Qed.

Lemma length_remove_z_one : forall x l, NoDup l -> In x l -> (length (remove_z x l) + 1 = length l)%nat.
Proof.
  intros x l ND. induction ND as [|a l NI ND IH]; intros H; [destruct H|]. cbn [remove_z].
  destruct (Z.eqb_spec a x) as [->|N].
  - cbn [length]. rewrite (remove_z_notin x l NI). lia.
  - destruct H as [H|H]; [contradiction|]. cbn [length]. specialize (IH H). lia.
Qed.

Lemma actA_ATkUnreg : forall b s j, J b s -> Acc s -> inr16 j -> PA s (do_action s (ATkUnreg j)).
Proof.
  intros b s j Jh A I. cbn [do_action]. destruct (task_registered s j) eqn:RG; [|apply PA_same; exact A].
  split; [|apply Bq_heap; reflexivity].
  set (s' := task_unregister (emit s (TAct (ATkUnreg j))) j).
  destruct (J_SiTk _ _ Jh) as [S1 S2].
  assert (IN : In j (tasks s ++ curl s)) by (apply task_registered_In; exact RG).
  assert (TL : tasks s' ++ curl s' = remove_z j (tasks s ++ curl s)).
  { unfold s', task_unregister, curl. cbn [tasks cur set_tasks set_numobjs emit set_trace].
    rewrite remove_z_app. destruct (cur s); reflexivity. }
  assert (NT : ntask s' = ntask s - 1).
  { unfold ntask. rewrite TL. pose proof (length_remove_z_one j _ S2 IN). lia. }
  apply (Acc_step ca s s' A).
  - eapply TrExt_trans; [apply emit_act_ext|apply TrExt_same; reflexivity].
  - exact (ac_nf _ A).
  - rewrite NT. change (numobjs s - 1 - numobjs s = numfds s - numfds s + (hnum s - hnum s) + (ntask s - 1 - ntask s) + (ev_count s - ev_count s) + (kick s - kick s)). lia.
  - exact (ac_raw _ A).
  - exact (ac_kick _ A).
  - intros H. left. apply task_registered_In. apply task_registered_In in H. rewrite TL in H.
    apply In_remove_z in H. apply H.
Qed.

Lemma Acc_task_register_w : forall P s0 s k, Acc s0 -> AW s0 s -> TrExt P s0 s ->
  (k = LOCAL_TASK -> posted_ever (mst s) = true) -> Acc (task_register s k).
Proof.
  intros P s0 s k A S T PE.
  destruct (task_register_acc s k) as (E1 & E2 & E3 & E4 & E5 & E6 & E7 & E8 & E9).
  set (s' := task_register s k) in *.
  assert (TS : trace s' = trace s) by apply task_register_trace.
  assert (A1 : Acc s) by (eapply Acc_AW; eassumption).
  apply (Acc_step P s s' A1).
  - apply TrExt_same. exact TS.
  - rewrite E3, (ac_nf _ A1). unfold regf. rewrite E4. reflexivity.
  - unfold hnum. rewrite E1, E2, E3, E5, E6, (kick_same s s' E6 E7). lia.
  - intros j Jr H. rewrite E4. rewrite E8 in H. apply (ac_raw _ A1); assumption.
  - rewrite E7, E6, E8. apply (ac_kick _ A1).
  - intros H. rewrite E9 in H. apply orb_true_iff in H. destruct H as [H|H]; [left; exact H|].
    right. apply Z.eqb_eq in H. rewrite (mst_trace s s' TS). apply PE. symmetry. exact H.
Qed.

Lemma actA_AEvPost : forall s j, Acc s -> PA s (do_action s (AEvPost j)).
Proof.
  intros s j A. cbn [do_action]. destruct (ev_reg s j); [|apply PA_same; exact A].
  set (ex := emit s (TAct (AEvPost j))).
  assert (PX : posted_ever (mst ex) = true).
  { unfold ex. rewrite mst_emit. reflexivity. }
  unfold event_post. destruct (ev_on_list ex j); [apply actA_log; exact A|]. cbv zeta.
  set (s1 := set_evlists ex (ev_pending ex ++ [j]) (ev_batch ex)).
  assert (S1 : AW s s1) by (constructor; reflexivity).
  assert (T1 : TrExt ca s s1) by (eapply TrExt_trans; [apply emit_act_ext|apply TrExt_same; reflexivity]).
  destruct (_ && _).
  - split.
    + apply (Acc_task_register_w ca s s1 LOCAL_TASK A S1 T1). intros _. exact PX.
    + apply Bq_heap. apply (proj1 (proj2 (proj2 (proj2 (proj2 (task_register_acc s1 LOCAL_TASK)))))).
  - split; [eapply Acc_AW; eassumption|apply Bq_heap; reflexivity].
Qed.

(* ---------- timers ---------- *)
Lemma Acc_lift_heap : forall P s s0 h', Acc s -> AW s s0 -> TrExt P s s0 ->
  HeapFacts.Inv (heap s) -> HeapFacts.Inv h' ->
  Acc (set_numobjs (set_heap s0 h') (numobjs s0 + (HeapModel.numobjs h' - HeapModel.numobjs (heap s0)))).
Proof.
  intros P s s0 h' A S T I I'.
  assert (A0 : Acc s0) by (eapply Acc_AW; eassumption).
  set (s' := set_numobjs _ _).
  apply (Acc_step P s0 s' A0).
  - apply TrExt_same. reflexivity.
  - exact (ac_nf _ A0).
  - unfold s', hnum. cbn [numobjs numfds heap set_numobjs set_heap].
    change (ntask (set_numobjs (set_heap s0 h') _)) with (ntask s0).
    change (kick (set_numobjs (set_heap s0 h') _)) with (kick s0).
    change (ev_count (set_numobjs (set_heap s0 h') _)) with (ev_count s0).
    rewrite (HeapFacts.i_objs _ I'). rewrite (aw_heap _ _ S). rewrite (HeapFacts.i_objs _ I). lia.
  - exact (ac_raw _ A0).
  - exact (ac_kick _ A0).
  - intros H. left. exact H.
Qed.

Lemma tm_reg_A : forall b s j e, J b s -> Acc s -> inr16 j -> timer_registered s j = false ->
  PA s (lift_heap (emit s (TAct (ATmRegAbs j e)))
                  (HeapModel.register (HeapModel.set_exp (heap s) (tmid j) e) (tmid j))).
Proof.
  intros b s j e Jh A I U.
  destruct (J_SiTm _ _ Jh) as [HI HR].
  pose proof (treg_false _ _ U) as TI.
  destruct (HeapReg.register_inv (HeapModel.set_exp (heap s) (tmid j) e) (tmid j)) as (h' & R & I' & _ & _ & _ & B & _).
  - apply HeapDispatch.set_exp_inv; assumption.
  - apply HeapBase.tget_set_exp_same.
  - rewrite HeapBase.tidx_set_exp. exact TI.
  - rewrite R. unfold lift_heap. split.
    + apply (Acc_lift_heap ca s); [exact A|constructor; reflexivity|apply emit_act_ext|exact HI|exact I'].
    + intros H. cbn [heap set_numobjs set_heap]. rewrite B.
      destruct (HeapBase.set_exp_fields (heap s) (tmid j) e) as (_ & _ & _ & E & _). rewrite E. exact H.
Qed.

Lemma actA_ATmRegAbs : forall b s j e, J b s -> Acc s -> inr16 j -> PA s (do_action s (ATmRegAbs j e)).
Proof.
  intros b s j e Jh A I. cbn [do_action]. destruct (timer_registered s j) eqn:RG; [apply PA_same; exact A|].
  eapply tm_reg_A; eassumption.
Qed.

Lemma actA_ATmRegRel : forall b s j d, J b s -> Acc s -> inr16 j -> PA s (do_action s (ATmRegRel j d)).
Proof.
  intros b s j d Jh A I. cbn [do_action]. destruct (timer_registered s j) eqn:RG; [apply PA_same; exact A|]. cbv zeta.
  destruct (J_validate b s Jh) as (J1 & F1 & M1 & _).
  set (s1 := validate_now s) in *.
  assert (A1 : Acc s1) by (eapply (Acc_AS ca); [exact A|apply AS_validate|apply TrExt_same; apply validate_trace]).
  assert (RG1 : timer_registered s1 j = false).
  { unfold s1, timer_registered, validate_now in *. destruct (time_valid s); exact RG. }
  assert (H1 : heap s1 = heap s) by (unfold s1, validate_now; destruct (time_valid s); reflexivity).
  pose proof (tm_reg_A b s1 j (time s1 + d) J1 A1 I RG1) as Q.
  destruct (lift_heap _ _) as [s2|s2]; unfold PA in *; cbn [ARes] in *; [|exact Logic.I].
  destruct Q as [Q1 Q2]. split; [exact Q1|]. intros H. apply Q2. rewrite H1. exact H.
Qed.

Lemma actA_ATmUnreg : forall b s j, J b s -> Acc s -> inr16 j -> PA s (do_action s (ATmUnreg j)).
Proof.
  intros b s j Jh A I. cbn [do_action]. destruct (timer_registered s j) eqn:RG; [|apply PA_same; exact A].
  destruct (J_SiTm _ _ Jh) as [HI HR].
  pose proof (treg_true _ _ RG) as TI.
  pose proof (proj2 (proj2 (HeapFacts.i_batch _ HI)) (tmid j)) as LB.
  assert (EX : exists h', HeapModel.unregister (heap s) (tmid j) = HeapModel.Ok h' /\ HeapFacts.Inv h' /\
                 (HeapModel.batch (heap s) = [] -> HeapModel.batch h' = [])).
  { destruct (Z.eq_dec (HeapModel.tidx (heap s) (tmid j)) 0) as [Z0|NZ].
    - rewrite (HeapUnreg.unregister_expired_eq _ _ Z0).
      destruct (HeapUnreg.pop_inv _ _ HI Z0) as (I' & _ & _ & _ & B & _).
      eexists. split; [reflexivity|split; [exact I'|]]. intros H. rewrite B, H. reflexivity.
    - assert (GE : 1 <= HeapModel.tidx (heap s) (tmid j)) by lia.
      destruct (HeapUnreg.unregister_inv _ _ HI GE) as (h' & U & I' & _ & _ & _ & B & _).
      exists h'. split; [exact U|split; [exact I'|]]. intros H. rewrite B. exact H. }
  destruct EX as (h' & U & I' & B). rewrite U. unfold lift_heap. split.
  - apply (Acc_lift_heap ca s); [exact A|constructor; reflexivity|apply emit_act_ext|exact HI|exact I'].
  - exact B.
Qed.

(* ---------- user descriptors ---------- *)
Lemma PA_ASk_user : forall s s' k v d, Acc s -> ASk s s' k v d -> TrExt ca s s' -> 0 <= k < 16 ->
  registered (fdt s k) = negb v -> d = (if v then 1 else -1) -> Acc s' /\ Bq s s'.
Proof.
  intros s s' k v d A S T K R D. split; [eapply Acc_ASk_user; eassumption|apply Bq_heap; apply (ak_heap _ _ _ _ _ S)].
Qed.

Lemma actA_AFdReg : forall s i, Acc s -> inr16 i -> PA s (do_action s (AFdReg i)).
Proof.
  intros s i A I. act_T T. cbn [do_action] in *.
  destruct (registered (getfd s i)) eqn:RG; [apply PA_same; exact A|].
  destruct (k_open _ _); [|apply PA_same; exact A].
  pose proof (fd_register_ASk (emit s (TAct (AFdReg i))) i) as Q.
  destruct (fd_register _ i) as [s'|s']; unfold PA; cbn [ARes res_state] in *; [|exact Logic.I].
  apply (PA_ASk_user s s' i true 1 A); try assumption; try reflexivity.
  eapply AS_ASk; [apply AS_emit|exact Q].
Qed.

Lemma actA_AFdUnreg : forall s i, Acc s -> inr16 i -> PA s (do_action s (AFdUnreg i)).
Proof.
  intros s i A I. act_T T. cbn [do_action] in *.
  destruct (registered (getfd s i)) eqn:RG; [|apply PA_same; exact A].
  pose proof (fd_unregister_ASk (emit s (TAct (AFdUnreg i))) i) as Q.
  destruct (fd_unregister _ i) as [s'|s']; unfold PA; cbn [ARes res_state] in *; [|exact Logic.I].
  apply (PA_ASk_user s s' i false (-1) A); try assumption; try reflexivity.
  eapply AS_ASk; [apply AS_emit|exact Q].
Qed.

Lemma actA_AFdSetH : forall s i band h, Acc s -> PA s (do_action s (AFdSetH i band h)).
Proof.
  intros s i band h A. act_T T. cbn [do_action] in *.
  pose proof (fd_set_handler_AS (emit s (TAct (AFdSetH i band h))) i band h) as Q.
  destruct (fd_set_handler _ i band h) as [s'|s']; unfold PA; cbn [ARes res_state] in *; [|exact Logic.I].
  apply PA_AS; [exact A| |exact T]. eapply AS_trans; [apply AS_emit|exact Q].
Qed.

Lemma actA_AFdTry : forall s i, Acc s -> inr16 i -> PA s (do_action s (AFdTry i)).
Proof.
  intros s i A I. act_T T. cbn [do_action] in *.
  destruct (registered (getfd s i)) eqn:RG; [apply PA_same; exact A|].
  pose proof (fd_register_try_ASk (emit s (TAct (AFdTry i))) i) as Q.
  destruct (fd_register_try _ i) as [r failed]. cbn [fst snd] in Q.
  destruct r as [s1|s1]; unfold PA; cbn [bind ARes res_state] in *; [|exact Logic.I].
  assert (S1 : forall k v d, ASk (emit s (TAct (AFdTry i))) s1 k v d ->
                ASk s (emit s1 (TRes 0 i (if failed then -1 else 0))) k v d).
  { intros k v d S. eapply AS_ASk; [apply AS_emit|]. eapply ASk_AS_r; [exact S|apply AS_emit]. }
  destruct failed.
  - pose proof (S1 _ _ _ Q) as S. destruct S. split; [|apply Bq_heap; assumption].
    apply (Acc_AW ca s _ A); [|exact T]. constructor; try assumption; try lia.
    intros k. rewrite ak_reg. destruct (Z.eqb_spec k i) as [->|N]; [symmetry; exact RG|reflexivity].
  - apply (PA_ASk_user s _ i true 1 A); try assumption; try reflexivity. apply S1. exact Q.
Qed.

(* ---------- raw events ---------- *)
Record ASr (s s' : core) (j : Z) (v : bool) (d : Z) : Prop := {
  ar_no : numobjs s' = numobjs s + d;
  ar_nf : numfds s' = numfds s + d;
  ar_reg : forall i, registered (fdt s' i) = if i =? 16 + j then v else registered (fdt s i);
  ar_rw : forall y, rw_reg s' y = if y =? j then v else rw_reg s y;
  ar_heap : heap s' = heap s;
  ar_tasks : tasks s' = tasks s;
  ar_cur : cur s' = cur s;
  ar_evc : ev_count s' = ev_count s;
  ar_ur : use_raw s' = use_raw s }.

Lemma AW_refl : forall s, AW s s. Proof. intros; constructor; reflexivity. Qed.
Lemma AW_trans : forall a b c, AW a b -> AW b c -> AW a c.
Proof. intros a b c [] []. constructor; try congruence. Qed.
Lemma AW_ASr : forall s s1 s2 j v d, AW s s1 -> ASr s1 s2 j v d -> ASr s s2 j v d.
Proof.
  intros s s1 s2 j v d [] []. constructor; try congruence.
  - intros i. rewrite ar_reg0, aw_reg0. reflexivity.
  - intros y. rewrite ar_rw0, aw_rw0. reflexivity.
Qed.
Lemma ASr_AW : forall s s1 s2 j v d, ASr s s1 j v d -> AW s1 s2 -> ASr s s2 j v d.
Proof.
  intros s s1 s2 j v d [] []. constructor; try congruence.
  - intros i. rewrite aw_reg0. apply ar_reg0.
  - intros y. rewrite aw_rw0. apply ar_rw0.
Qed.

Lemma raw_tail_A : forall s0 s j rfd wfd, AW s0 s ->
  ARes (fun s' => ASr s0 s' j true 1)
       (bind (fd_register (putfd s (RAW_KEY j) (fd_with_handlers (fd_fresh rfd (1000 + j)) (Some (H_RAW j)) None None)) (RAW_KEY j))
             (fun s => R (set_rw s (upd (rw_reg s) j true) (upd (rw_rfd s) j rfd) (upd (rw_wfd s) j wfd)))).
Proof.
  intros s0 s j rfd wfd S.
  set (f := fd_with_handlers _ _ _ _). set (s1 := putfd s (RAW_KEY j) f).
  eapply ARes_bind; [apply fd_register_ASk|]. cbn beta. intros s2 Q. cbn [ARes].
  apply (AW_ASr s0 s); [exact S|]. destruct Q. unfold RAW_KEY in *.
  constructor; cbn [numobjs numfds fdt heap tasks cur ev_count use_raw rw_reg set_rw]; try assumption.
  - intros i. rewrite ak_reg. destruct (Z.eqb_spec i (16 + j)) as [->|N]; [reflexivity|].
    unfold s1, putfd, upd. cbn [fdt set_fdt]. destruct (Z.eqb_spec i (16 + j)); [contradiction|reflexivity].
  - intros y. unfold upd. rewrite ak_rw. reflexivity.
Qed.

Lemma raw_stage2_A : forall s0 s j, AW s0 s ->
  let x := (let '(s, got, failed) :=
        if efd_raw s =? 0 then
          match k_pipe (kern s) with
          | (k1, Some (r, w)) => (set_kern s k1, Some (r, w), false)
          | (k1, None) => (set_kern s k1, None, true)
          end
        else (s, None, true) in
      match got with
      | None => (R s, true)
      | Some (rfd, wfd) =>
          let key := RAW_KEY j in
          let f := fd_with_handlers (fd_fresh rfd (1000 + j)) (Some (H_RAW j)) None None in
          let s := putfd s key f in
          (bind (fd_register s key) (fun s =>
             R (set_rw s (upd (rw_reg s) j true) (upd (rw_rfd s) j rfd) (upd (rw_wfd s) j wfd))), false)
      end) in
  ARes (fun s' => if snd x then AW s0 s' else ASr s0 s' j true 1) (fst x).
Proof.
  intros s0 s j S. destruct (efd_raw s =? 0).
  - destruct (k_pipe (kern s)) as [k1 [[r w]|]]; cbv beta iota zeta; cbn [fst snd].
    + apply raw_tail_A. eapply AW_trans; [exact S|constructor; reflexivity].
    + cbn [ARes]. eapply AW_trans; [exact S|constructor; reflexivity].
  - cbv beta iota zeta. cbn [fst snd ARes]. exact S.
Qed.

Lemma raw_register_A : forall s j,
  ARes (fun s' => if snd (raw_register s j) then AW s s' else ASr s s' j true 1) (fst (raw_register s j)).
Proof.
  intros s j. unfold raw_register.
  destruct (negb (efd_raw s =? 0)).
  - destruct (eventfd_grab (kern s) (efd_raw s)) as [[k1 [fd|e]] u]; cbv beta iota.
    + cbn [fst snd]. apply raw_tail_A. constructor; reflexivity.
    + destruct (negb (is_enosys e)); [cbn [fst snd ARes]; constructor; reflexivity|].
      apply raw_stage2_A. constructor; reflexivity.
  - cbv beta iota. apply raw_stage2_A. apply AW_refl.
Qed.

Lemma raw_unregister_A : forall s j, ARes (fun s' => ASr s s' j false (-1)) (raw_unregister s j).
Proof.
  intros s j. unfold raw_unregister. eapply ARes_bind; [apply fd_unregister_ASk|]. cbn beta. intros s1 Q.
  cbv zeta. cbn [ARes].
  set (s2 := do_close s1 (rw_rfd s1 j)).
  set (s3 := if raw_is_pipe s2 j then do_close s2 (rw_wfd s2 j) else s2).
  assert (A3 : AW s1 s3).
  { apply (AW_trans _ s2); [apply AS_AW; apply do_close_AS|].
    unfold s3. destruct (raw_is_pipe s2 j); [apply AS_AW; apply do_close_AS|apply AW_refl]. }
  destruct Q, A3. unfold RAW_KEY in *.
  constructor; cbn [numobjs numfds fdt heap tasks cur ev_count use_raw rw_reg set_rw]; try congruence.
  - intros i. rewrite aw_reg0. apply ak_reg.
  - intros y. unfold upd. rewrite aw_rw0, ak_rw. reflexivity.
Qed.

Lemma Acc_ASr : forall P s s' j v d, Acc s -> ASr s s' j v d -> TrExt P s s' -> 0 <= j <= 16 ->
  registered (fdt s (16 + j)) = negb v -> d = (if v then 1 else -1) ->
  (use_raw s = true -> 0 < ev_count s -> (if 16 =? j then v else rw_reg s 16) = true) -> Acc s'.
Proof.
  intros P s s' j v d A [] T Jr R D KK. apply (Acc_step P s s' A T).
  - rewrite ar_nf0, (ac_nf _ A). rewrite (cnt33_set (regf s) (regf s') (16 + j) v ltac:(lia) ar_reg0).
    unfold regf. rewrite R. destruct v; cbn [negb]; lia.
  - unfold hnum. rewrite ar_no0, ar_nf0, ar_heap0, (ntask_same s s' ar_tasks0 ar_cur0), (kick_same s s' ar_evc0 ar_ur0), ar_evc0. lia.
  - intros j' Jr' H. rewrite ar_reg0. rewrite ar_rw0 in H.
    destruct (Z.eqb_spec j' j) as [->|N].
    + rewrite Z.eqb_refl. exact H.
    + destruct (Z.eqb_spec (16 + j') (16 + j)); [lia|]. apply (ac_raw _ A); assumption.
  - rewrite ar_ur0, ar_evc0, ar_rw0. exact KK.
  - rewrite (treg_same s s' _ ar_tasks0 ar_cur0). auto.
Qed.

Lemma ASr_emit : forall s a s1 e j v d, ASr (emit s (TAct a)) s1 j v d -> ASr s (emit s1 e) j v d.
Proof. intros s a s1 e j v d []. constructor; assumption. Qed.

Lemma actA_ARwReg : forall b s j, J b s -> Acc s -> inr16 j -> PA s (do_action s (ARwReg j)).
Proof.
  intros b s j Jh A I. act_T T. cbn [do_action] in *.
  destruct (rw_reg s j) eqn:RG; [apply PA_same; exact A|].
  pose proof (raw_register_A (emit s (TAct (ARwReg j))) j) as Q.
  destruct (raw_register _ j) as [r failed]. cbn [fst snd] in Q.
  destruct r as [s1|s1]; unfold PA; cbn [bind ARes res_state] in *; [|exact Logic.I].
  assert (U : registered (fdt s (16 + j)) = false).
  { destruct (registered (fdt s (16 + j))) eqn:E; [|reflexivity].
    rewrite (fx_raw _ (j_fx _ _ Jh) j) in RG; [discriminate|unfold inr16 in I; lia|exact E]. }
  destruct failed.
  - split; [|apply Bq_heap; destruct Q; assumption].
    apply (Acc_AW ca s _ A); [|exact T]. destruct Q. constructor; assumption.
  - pose proof (ASr_emit _ _ _ (TRes 2 j 0) _ _ _ Q) as Q1.
    split; [|apply Bq_heap; destruct Q1; assumption].
    apply (Acc_ASr ca s _ j true 1 A Q1 T); [unfold inr16 in I; lia|exact U|reflexivity|].
    intros H1 H2. destruct (Z.eqb_spec 16 j); [reflexivity|]. apply (ac_kick _ A); assumption.
Qed.

Lemma actA_ARwUnreg : forall s j, Acc s -> inr16 j -> PA s (do_action s (ARwUnreg j)).
Proof.
  intros s j A I. act_T T. cbn [do_action] in *.
  destruct (rw_reg s j) eqn:RG; [|apply PA_same; exact A].
  pose proof (raw_unregister_A (emit s (TAct (ARwUnreg j))) j) as Q.
  destruct (raw_unregister _ j) as [s1|s1]; unfold PA; cbn [ARes res_state] in *; [|exact Logic.I].
  assert (Q1 : ASr s s1 j false (-1)) by (destruct Q; constructor; assumption).
  split; [|apply Bq_heap; destruct Q1; assumption].
  apply (Acc_ASr ca s _ j false (-1) A Q1 T); [unfold inr16 in I; lia| |reflexivity|].
  - apply (ac_raw _ A); [unfold inr16 in I; lia|exact RG].
  - intros H1 H2. destruct (Z.eqb_spec 16 j); [unfold inr16 in I; lia|]. apply (ac_kick _ A); assumption.
Qed.

(* ---------- events ---------- *)
Record AWd (s s' : core) (d : Z) : Prop := {
  ad_no : numobjs s' = numobjs s + d;
  ad_nf : numfds s' = numfds s;
  ad_reg : forall i, registered (fdt s' i) = registered (fdt s i);
  ad_heap : heap s' = heap s;
  ad_tasks : tasks s' = tasks s;
  ad_cur : cur s' = cur s;
  ad_evc : ev_count s' = ev_count s;
  ad_ur : use_raw s' = use_raw s;
  ad_rw : rw_reg s' = rw_reg s;
  ad_method : method s' = method s }.

Lemma AWd_plain : forall s s' d, numobjs s' = numobjs s + d -> numfds s' = numfds s -> fdt s' = fdt s -> heap s' = heap s ->
  tasks s' = tasks s -> cur s' = cur s -> ev_count s' = ev_count s -> use_raw s' = use_raw s -> rw_reg s' = rw_reg s ->
  method s' = method s -> AWd s s' d.
Proof. intros. constructor; try assumption. intros i. congruence. Qed.

Lemma AS_AWd : forall s s', AS s s' -> AWd s s' 0.
Proof. intros s s' []. constructor; try assumption. lia. Qed.

Lemma AWd_trans : forall a b c d1 d2, AWd a b d1 -> AWd b c d2 -> AWd a c (d1 + d2).
Proof. intros a b c d1 d2 [] []. constructor; try congruence. lia. Qed.

Lemma AWd_tr : forall a b c d1 d2 d, AWd a b d1 -> AWd b c d2 -> d = d1 + d2 -> AWd a c d.
Proof. intros. subst d. eapply AWd_trans; eassumption. Qed.

Lemma event_rx_on_A : forall s,
  ARes (fun s' => AWd s s' (if snd (event_rx_on s) then 0 else 1)) (fst (event_rx_on s)).
Proof.
  intros s. unfold event_rx_on.
  match goal with |- context [match ?X with R _ => _ | Halt _ => _ end] =>
    assert (Q : ARes (fun s1 => AWd s s1 0) X); [|destruct X as [s1|s1]] end.
  { destruct (active_ref s =? 0); [|cbn [ARes]; apply AS_AWd; apply AS_refl].
    destruct (eventfd_grab (kern s) (efd_epoll s)) as [[k1 [fd|e]] u].
    - destruct (k_write k1 fd 8 1) as [k2 x]. cbn [ARes]. apply AWd_plain; try reflexivity. cbn [numobjs set_activefd set_efd set_kern]. lia.
    - cbv zeta. destruct (k_pipe _) as [k2 [[r w]|]]; [|exact Logic.I].
      destruct (k_write k2 w 1 0) as [k3 [n|e3]]; [|exact Logic.I].
      cbn [ARes]. apply AWd_plain; try reflexivity. cbn [numobjs set_activewr set_activefd set_efd set_kern]. lia. }
  - cbn [ARes] in Q. cbv zeta. destruct (ctl_retry _ _ _ _ _) as [s2 e] eqn:C. apply ctl_retry_AS in C.
    assert (Q2 : AWd s s2 0).
    { eapply AWd_tr with (d1 := 0) (d2 := 0); [exact Q| |reflexivity].
      eapply AWd_tr with (d1 := 0) (d2 := 0); [|apply AS_AWd; exact C|reflexivity].
      apply AWd_plain; try reflexivity. cbn [numobjs set_activefd]. lia. }
    destruct e; cbn [fst snd ARes]; [exact Q2|].
    eapply AWd_tr with (d1 := 0) (d2 := 1); [exact Q2| |reflexivity]. apply AWd_plain; try reflexivity.
  - cbn [fst snd ARes]. exact Logic.I.
Qed.

Lemma event_rx_off_A : forall s, ARes (fun s' => AWd s s' (-1)) (event_rx_off s).
Proof.
  intros s. unfold event_rx_off.
  destruct (ctl_retry _ _ _ _ _) as [s1 e] eqn:C. apply ctl_retry_AS in C.
  destruct e; [exact Logic.I|]. cbv zeta. cbn [ARes].
  set (s2 := set_activefd s1 _ _).
  match goal with |- AWd s (set_numobjs ?S3 _) (-1) => assert (A3 : AWd s2 S3 0) end.
  { destruct (active_ref s2 =? 0); [|apply AS_AWd; apply AS_refl].
    match goal with |- AWd s2 (if _ then ?A else set_activewr ?B _) 0 => assert (AA : AWd s2 A 0) by (apply AS_AWd; apply do_close_AS) end.
    destruct (active_wr _ =? -1); [exact AA|].
    eapply AWd_tr with (d1 := 0) (d2 := 0); [exact AA| |reflexivity].
    eapply AWd_tr with (d1 := 0) (d2 := 0); [apply AS_AWd; apply do_close_AS| |reflexivity].
    apply AWd_plain; try reflexivity. cbn [numobjs set_activewr]. lia. }
  eapply AWd_tr with (d1 := 0) (d2 := -1); [apply AS_AWd; exact C| |reflexivity].
  eapply AWd_tr with (b := s2) (d1 := 0) (d2 := -1); [| |reflexivity].
  - unfold s2. apply AWd_plain; try reflexivity. cbn [numobjs set_activefd]. lia.
  - eapply AWd_tr with (d1 := 0) (d2 := -1); [exact A3| |reflexivity].
    apply AWd_plain; try reflexivity.
Qed.

(* state after the first stage of the first iv_event_register: the wake-up channel is set up or not *)
Record Stage1 (s s1 : core) : Prop := {
  s1_nf : numfds s1 = numfds s;
  s1_reg : forall i, registered (fdt s1 i) = registered (fdt s i);
  s1_heap : heap s1 = heap s;
  s1_tasks : tasks s1 = tasks s;
  s1_cur : cur s1 = cur s;
  s1_rw : rw_reg s1 = rw_reg s;
  s1_evc : ev_count s1 = 1;
  s1_no : (use_raw s1 = false /\ numobjs s1 = numobjs s + 2) \/ (use_raw s1 = true /\ numobjs s1 = numobjs s + 1) }.

Definition AccH (s : core) (r : res) : Prop := ARes (fun s' => TrExt ca s s' -> Acc s' /\ heap s' = heap s) r.

Lemma evreg_tail : forall s s1 j, Acc s -> ev_count s = 0 -> rw_reg s 16 = false -> registered (fdt s 32) = false ->
  Stage1 s s1 ->
  AccH s (fst (let '(r0, failed) :=
          (if use_raw s1 then
             match raw_register s1 KICK_RAW with
             | (R s2, true) =>
                 (R (set_numobjs (set_ev s2 (ev_count s2 - 1) (ev_reg s2) (use_raw s2)) (numobjs s2 - 1)), true)
             | (r2, fl) => (r2, fl)
             end
           else (R s1, false)) in
        if failed then (r0, true)
        else (bind r0 (fun s => R (set_ev s (ev_count s) (upd (ev_reg s) j true) (use_raw s))), false))).
Proof.
  intros s s1 j A EC RW RG [N1 N2 N3 N4 N5 N6 N7 N8].
  assert (K0 : kick s = 0) by (unfold kick; rewrite EC; reflexivity).
  assert (TR : forall s', tasks s' = tasks s -> cur s' = cur s -> task_registered s' LOCAL_TASK = true ->
                          task_registered s LOCAL_TASK = true \/ posted_ever (mst s') = true).
  { intros s' E1 E2 H. left. rewrite <- (treg_same s s' _ E1 E2). exact H. }
  destruct (use_raw s1) eqn:UR.
  - destruct N8 as [[N8 _]|[_ N8]]; [discriminate|].
    pose proof (raw_register_A s1 KICK_RAW) as Q.
    destruct (raw_register s1 KICK_RAW) as [[s2|s2] fl]; cbn [fst snd] in Q; destruct fl; cbn [fst bind AccH ARes] in *;
      try exact Logic.I.
    + (* the channel could not be created: everything is taken back *)
      intros T. destruct Q. split; [|cbn [heap set_numobjs set_ev]; congruence].
      apply (Acc_step ca s _ A T); cbn [numfds numobjs fdt heap tasks cur ev_count use_raw rw_reg set_numobjs set_ev].
      * rewrite aw_nf0, N1, (ac_nf _ A). apply cnt33_ext. intros i _. unfold regf. cbn [fdt set_numobjs set_ev]. rewrite aw_reg0, N2. reflexivity.
      * unfold hnum, kick. cbn [numfds numobjs fdt heap tasks cur ev_count use_raw rw_reg set_numobjs set_ev].
        rewrite (ntask_same s (set_numobjs _ _)) by (cbn [tasks cur set_numobjs set_ev]; congruence).
        rewrite aw_no0, aw_nf0, aw_heap0, aw_evc0, N1, N3, N7, N8, EC. cbn. lia.
      * intros y Y H. rewrite aw_reg0, N2. rewrite aw_rw0, N6 in H. apply (ac_raw _ A); assumption.
      * rewrite aw_evc0, N7. intros _ H. lia.
      * apply TR; cbn [tasks cur set_numobjs set_ev]; congruence.
    + (* registered through a raw event *)
      intros T. destruct Q. split; [|cbn [heap set_ev]; congruence].
      apply (Acc_step ca s _ A T); cbn [numfds numobjs fdt heap tasks cur ev_count use_raw rw_reg set_ev].
      * rewrite ar_nf0, N1, (ac_nf _ A).
        rewrite (cnt33_set (regf s) (regf (set_ev s2 (ev_count s2) (upd (ev_reg s2) j true) (use_raw s2))) 32 true ltac:(lia)).
        -- unfold regf. rewrite RG. lia.
        -- intros i. unfold regf. cbn [fdt set_ev]. rewrite ar_reg0, N2. unfold KICK_RAW. reflexivity.
      * unfold hnum, kick. cbn [numfds numobjs fdt heap tasks cur ev_count use_raw rw_reg set_ev].
        rewrite (ntask_same s (set_ev _ _ _ _)) by (cbn [tasks cur set_ev]; congruence).
        rewrite ar_no0, ar_nf0, ar_heap0, ar_evc0, ar_ur0, N1, N3, N7, N8, UR, EC. cbn. lia.
      * intros y Y H. rewrite ar_reg0, N2. rewrite ar_rw0, N6 in H. unfold KICK_RAW in *.
        destruct (Z.eqb_spec y 16) as [->|NE]; [reflexivity|].
        destruct (Z.eqb_spec (16 + y) (16 + 16)); [lia|]. apply (ac_raw _ A); assumption.
      * intros _ _. rewrite ar_rw0. unfold KICK_RAW. reflexivity.
      * apply TR; cbn [tasks cur set_ev]; congruence.
  - destruct N8 as [[_ N8]|[N8 _]]; [|discriminate]. cbn [fst bind AccH ARes].
    intros T. split; [|cbn [heap set_ev]; congruence].
    apply (Acc_step ca s _ A T); cbn [numfds numobjs fdt heap tasks cur ev_count use_raw rw_reg set_ev].
    + rewrite N1, (ac_nf _ A). apply cnt33_ext. intros i _. unfold regf. cbn [fdt set_ev]. rewrite N2. reflexivity.
    + unfold hnum, kick. cbn [numfds numobjs fdt heap tasks cur ev_count use_raw rw_reg set_ev].
      rewrite (ntask_same s (set_ev _ _ _ _)) by (cbn [tasks cur set_ev]; congruence).
      rewrite N1, N3, N7, N8, UR, EC. cbn. lia.
    + intros y Y H. rewrite N2. rewrite N6 in H. apply (ac_raw _ A); assumption.
    + rewrite UR. discriminate.
    + apply TR; cbn [tasks cur set_ev]; congruence.
Qed.

Lemma cnt_nonneg' : forall s, FdX s -> 0 <= ev_count s.
Proof. intros s X. rewrite (fx_cnt _ X). apply cnt_nonneg. Qed.

Lemma event_register_acc : forall s j, Acc s -> FdX s -> AccH s (fst (event_register s j)).
Proof.
  intros s j A X. unfold event_register. cbv zeta.
  set (s0 := set_ev (set_numobjs s (numobjs s + 1)) _ _ _).
  change (ev_count (set_numobjs s (numobjs s + 1))) with (ev_count s).
  pose proof (cnt_nonneg' s X) as NN.
  assert (TR : forall s', tasks s' = tasks s -> cur s' = cur s -> task_registered s' LOCAL_TASK = true ->
                          task_registered s LOCAL_TASK = true \/ posted_ever (mst s') = true).
  { intros s' E1 E2 H. left. rewrite <- (treg_same s s' _ E1 E2). exact H. }
  destruct (Z.eqb_spec (ev_count s) 0) as [EC|EC].
  2:{ (* not the first event *)
    cbn [fst bind AccH ARes]. intros T. split; [|reflexivity].
    apply (Acc_step ca s _ A T); unfold s0; cbn [numfds numobjs fdt heap tasks cur ev_count use_raw rw_reg set_ev set_numobjs].
    - exact (ac_nf _ A).
    - unfold hnum, kick, ntask, curl. cbn [numfds numobjs fdt heap tasks cur ev_count use_raw rw_reg set_ev set_numobjs].
      destruct (Z.ltb_spec 0 (ev_count s)); [|lia]. destruct (Z.ltb_spec 0 (ev_count s + 1)); [|lia]. lia.
    - exact (ac_raw _ A).
    - intros H1 _. apply (ac_kick _ A); [exact H1|lia].
    - apply TR; reflexivity. }
  (* the first event *)
  assert (RW : rw_reg s 16 = false).
  { destruct (rw_reg s 16) eqn:E; [|reflexivity]. destruct (fx_kick _ X E) as [_ H]. contradiction. }
  assert (RG : registered (fdt s 32) = false).
  { destruct (registered (fdt s 32)) eqn:E; [|reflexivity].
    rewrite (fx_raw _ X 16 ltac:(lia) E) in RW. discriminate. }
  assert (S0 : forall u, Stage1 s (set_ev s0 (ev_count s0) (ev_reg s0) u) ->
               Stage1 s (set_ev s0 (ev_count s0) (ev_reg s0) u)) by auto.
  assert (ST : forall r, ARes (Stage1 s) r ->
    AccH s (fst (let '(r0, failed) :=
          match r with
          | Halt s1 => (Halt s1, false)
          | R s1 =>
              if use_raw s1 then
                match raw_register s1 KICK_RAW with
                | (R s2, true) =>
                    (R (set_numobjs (set_ev s2 (ev_count s2 - 1) (ev_reg s2) (use_raw s2)) (numobjs s2 - 1)), true)
                | (r2, fl) => (r2, fl)
                end
              else (R s1, false)
          end in
        if failed then (r0, true)
        else (bind r0 (fun s => R (set_ev s (ev_count s) (upd (ev_reg s) j true) (use_raw s))), false)))).
  { intros r Q. destruct r as [s1|s1]; [|exact Logic.I]. cbn [ARes] in Q.
    apply (evreg_tail s s1 j A EC RW RG Q). }
  assert (STU : Stage1 s (set_ev s0 (ev_count s0) (ev_reg s0) true)).
  { constructor; try reflexivity; unfold s0; cbn [ev_count use_raw numobjs set_ev set_numobjs]; [lia|right; split; [reflexivity|lia]]. }
  destruct (negb (use_raw s0)) eqn:NU.
  - destruct (is_epoll s0).
    + pose proof (event_rx_on_A s0) as Q.
      destruct (event_rx_on s0) as [[s1|s1] fl]; cbn [fst snd ARes] in Q; [destruct fl|].
      * apply (ST (R _)). cbn [ARes]. destruct Q.
        constructor; cbn [numfds numobjs fdt heap tasks cur ev_count use_raw rw_reg set_ev]; try assumption.
        -- rewrite ad_evc0. unfold s0; cbn [ev_count set_ev set_numobjs]. lia.
        -- right. split; [reflexivity|]. rewrite ad_no0. unfold s0; cbn [numobjs set_ev set_numobjs]. lia.
      * apply (ST (R s1)). cbn [ARes]. destruct Q.
        constructor; try assumption.
        -- rewrite ad_evc0. unfold s0; cbn [ev_count set_ev set_numobjs]. lia.
        -- left. split.
           ++ rewrite ad_ur0. apply negb_true_iff in NU. exact NU.
           ++ rewrite ad_no0. unfold s0; cbn [numobjs set_ev set_numobjs]. lia.
      * apply (ST (Halt s1)). exact Logic.I.
    + apply (ST (R _)). exact STU.
  - apply (ST (R s0)). cbn [ARes]. apply negb_false_iff in NU.
    constructor; try reflexivity; unfold s0; cbn [ev_count use_raw numobjs set_ev set_numobjs]; [lia|right; split; [exact NU|lia]].
Qed.

Lemma event_unregister_acc : forall s j, Acc s -> FdX s -> inr16 j -> ev_reg s j = true ->
  AccH s (event_unregister s j).
Proof.
  intros s j A X I ER. unfold event_unregister. cbv zeta.
  set (s0 := set_ev _ _ _ _).
  assert (EC1 : 1 <= ev_count s) by (rewrite (fx_cnt _ X); apply (cnt_pos _ j I ER)).
  assert (TR : forall s', tasks s' = tasks s -> cur s' = cur s -> task_registered s' LOCAL_TASK = true ->
                          task_registered s LOCAL_TASK = true \/ posted_ever (mst s') = true).
  { intros s' E1 E2 H. left. rewrite <- (treg_same s s' _ E1 E2). exact H. }
  assert (F0 : numobjs s0 = numobjs s /\ numfds s0 = numfds s /\ fdt s0 = fdt s /\ heap s0 = heap s /\ tasks s0 = tasks s /\
               cur s0 = cur s /\ ev_count s0 = ev_count s - 1 /\ use_raw s0 = use_raw s /\ rw_reg s0 = rw_reg s) by (repeat split).
  destruct F0 as (F1 & F2 & F3 & F4 & F5 & F6 & F7 & F8 & F9).
  destruct (Z.eqb_spec (ev_count s0) 0) as [Z0|NZ].
  - (* the last event: the wake-up channel goes away *)
    assert (EC : ev_count s = 1) by lia.
    destruct (use_raw s0) eqn:UR.
    + pose proof (raw_unregister_A s0 KICK_RAW) as Q.
      destruct (raw_unregister s0 KICK_RAW) as [s1|s1]; cbn [bind AccH ARes] in *; [|exact Logic.I].
      intros T. destruct Q. unfold KICK_RAW in *. split; [|cbn [heap set_numobjs]; congruence].
      assert (RW : rw_reg s 16 = true) by (apply (ac_kick _ A); [congruence|lia]).
      assert (RG : registered (fdt s 32) = true) by (apply (ac_raw _ A 16); [lia|exact RW]).
      apply (Acc_step ca s _ A T); cbn [numfds numobjs fdt heap tasks cur ev_count use_raw rw_reg set_numobjs].
      * rewrite ar_nf0, F2, (ac_nf _ A).
        rewrite (cnt33_set (regf s) (regf (set_numobjs s1 (numobjs s1 - 1))) 32 false ltac:(lia)).
        -- unfold regf. rewrite RG. lia.
        -- intros i. unfold regf. cbn [fdt set_numobjs]. rewrite ar_reg0, F3. reflexivity.
      * unfold hnum, kick. cbn [numfds numobjs fdt heap tasks cur ev_count use_raw rw_reg set_numobjs].
        rewrite (ntask_same s (set_numobjs _ _)) by (cbn [tasks cur set_numobjs]; congruence).
        rewrite ar_no0, ar_nf0, ar_heap0, ar_evc0, ar_ur0, F1, F2, F4, F7, UR, EC. rewrite <- F8. cbn. lia.
      * intros y Y H. rewrite ar_reg0, F3. rewrite ar_rw0, F9 in H.
        destruct (Z.eqb_spec y 16) as [->|NE]; [discriminate|].
        destruct (Z.eqb_spec (16 + y) (16 + 16)); [lia|]. apply (ac_raw _ A); assumption.
      * rewrite ar_evc0, F7, EC. intros _ H. lia.
      * apply TR; cbn [tasks cur set_numobjs]; congruence.
    + pose proof (event_rx_off_A s0) as Q.
      destruct (event_rx_off s0) as [s1|s1]; cbn [bind AccH ARes] in *; [|exact Logic.I].
      intros T. destruct Q. split; [|cbn [heap set_numobjs]; congruence].
      apply (Acc_step ca s _ A T); cbn [numfds numobjs fdt heap tasks cur ev_count use_raw rw_reg set_numobjs].
      * rewrite ad_nf0, F2, (ac_nf _ A). apply cnt33_ext. intros i _. unfold regf. cbn [fdt set_numobjs]. rewrite ad_reg0, F3. reflexivity.
      * unfold hnum, kick. cbn [numfds numobjs fdt heap tasks cur ev_count use_raw rw_reg set_numobjs].
        rewrite (ntask_same s (set_numobjs _ _)) by (cbn [tasks cur set_numobjs]; congruence).
        rewrite ad_no0, ad_nf0, ad_heap0, ad_evc0, ad_ur0, F1, F2, F4, F7, UR, EC. rewrite <- F8. cbn. lia.
      * intros y Y H. rewrite ad_reg0, F3. rewrite ad_rw0, F9 in H. apply (ac_raw _ A); assumption.
      * rewrite ad_evc0, F7, EC. intros _ H. lia.
      * apply TR; cbn [tasks cur set_numobjs]; congruence.
  - cbn [bind AccH ARes]. intros T. split; [|reflexivity].
    apply (Acc_step ca s _ A T); cbn [numfds numobjs fdt heap tasks cur ev_count use_raw rw_reg set_numobjs].
    + exact (ac_nf _ A).
    + unfold hnum, kick. cbn [numfds numobjs fdt heap tasks cur ev_count use_raw rw_reg set_numobjs].
      rewrite (ntask_same s (set_numobjs _ _)) by (cbn [tasks cur set_numobjs]; congruence).
      rewrite F1, F2, F4, F7, F8.
      destruct (Z.ltb_spec 0 (ev_count s - 1)); [|lia]. destruct (Z.ltb_spec 0 (ev_count s)); [|lia]. lia.
    + intros y Y H. rewrite F3. rewrite F9 in H. apply (ac_raw _ A); assumption.
    + rewrite F8, F7, F9. intros H1 H2. apply (ac_kick _ A); [exact H1|lia].
    + apply TR; cbn [tasks cur set_numobjs]; congruence.
Qed.

Lemma actA_AEvReg : forall b s j, J b s -> Acc s -> PA s (do_action s (AEvReg j)).
Proof.
  intros b s j Jh A. act_T T. cbn [do_action] in *.
  destruct (ev_reg s j) eqn:ER; [apply PA_same; exact A|].
  set (ex := emit s (TAct (AEvReg j))) in *.
  assert (AX : Acc ex) by (apply (Acc_AS ca s ex A); [apply AS_emit|apply emit_act_ext]).
  assert (XX : FdX ex) by (apply FdX_emit; apply (j_fx _ _ Jh)).
  pose proof (event_register_acc ex j AX XX) as Q.
  pose proof (event_register_ext ex j) as TX.
  destruct (event_register ex j) as [r failed]. cbn [fst] in Q, TX.
  destruct r as [s1|s1]; unfold PA; cbn [bind ARes AccH res_state] in *; [|exact Logic.I].
  destruct (Q TX) as [Q1 Q2]. split.
  - apply (Acc_AS ca s1 _ Q1); [apply AS_emit|apply TrExt_emit; exact Logic.I].
  - apply Bq_heap. cbn [heap emit set_trace]. exact Q2.
Qed.

Lemma actA_AEvUnreg : forall b s j, J b s -> Acc s -> inr16 j -> PA s (do_action s (AEvUnreg j)).
Proof.
  intros b s j Jh A I. act_T T. cbn [do_action] in *.
  destruct (ev_reg s j) eqn:ER; [|apply PA_same; exact A].
  set (ex := emit s (TAct (AEvUnreg j))) in *.
  assert (AX : Acc ex) by (apply (Acc_AS ca s ex A); [apply AS_emit|apply emit_act_ext]).
  assert (XX : FdX ex) by (apply FdX_emit; apply (j_fx _ _ Jh)).
  pose proof (event_unregister_acc ex j AX XX I ER) as Q.
  pose proof (event_unregister_ext ex j) as TX.
  destruct (event_unregister ex j) as [s1|s1]; unfold PA; cbn [ARes AccH res_state] in *; [|exact Logic.I].
  destruct (Q TX) as [Q1 Q2]. split; [exact Q1|apply Bq_heap; exact Q2].
Qed.

(* ---------- every action ---------- *)
Theorem do_action_A : forall b s a, J b s -> Acc s -> wf_action a -> PA s (do_action s a).
Proof.
  intros b s a Jh A W. destruct a; cbn [wf_action] in W.
  - apply actA_AFdReg; assumption.
  - apply actA_AFdTry; assumption.
  - apply actA_AFdUnreg; assumption.
  - apply actA_AFdSetH; assumption.
  - apply actA_AFdCookie; assumption.
  - apply actA_AFdFresh; assumption.
  - apply actA_AKSet; assumption.
  - apply actA_AKClose; assumption.
  - apply actA_AKOpen; assumption.
  - eapply actA_ATmRegAbs; eassumption.
  - eapply actA_ATmRegRel; eassumption.
  - eapply actA_ATmUnreg; eassumption.
  - apply actA_ATmFresh; assumption.
  - apply actA_ATkReg; assumption.
  - eapply actA_ATkUnreg; eassumption.
  - apply actA_ATkFresh; assumption.
  - eapply actA_AEvReg; eassumption.
  - eapply actA_AEvUnreg; eassumption.
  - apply actA_AEvPost; assumption.
  - apply actA_AEvFresh; assumption.
  - eapply actA_ARwReg; eassumption.
  - apply actA_ARwUnreg; assumption.
  - apply actA_ARwPost; assumption.
  - apply actA_ARwFresh; assumption.
  - apply actA_AQuit; assumption.
  - apply actA_AClockAdv; assumption.
  - apply actA_AInvalidate; assumption.
  - apply actA_AValidate; assumption.
Qed.

(* J and the accounting invariant together *)
Definition PJA (b : bool) (s : core) (r : res) : Prop :=
  match r with R s' => J b s' /\ Acc s' /\ Fr s s' /\ Bq s s' | Halt _ => True end.

Lemma PJA_of : forall b s r, Post b s r -> PA s r -> PJA b s r.
Proof.
  intros b s r P Q. destruct r as [s'|s']; cbn [Post PJA] in *; [|exact Logic.I].
  unfold PA in Q. cbn [ARes] in Q. destruct P as [P1 P2], Q as [Q1 Q2]. auto.
Qed.

Lemma PJA_bind : forall b s r f, PJA b s r ->
  (forall s1, J b s1 -> Acc s1 -> Fr s s1 -> PJA b s1 (f s1)) -> PJA b s (bind r f).
Proof.
  intros b s r f P K. destruct r as [s1|s1]; cbn [bind PJA] in *; [|exact Logic.I].
  destruct P as (J1 & A1 & F1 & B1). specialize (K s1 J1 A1 F1).
  destruct (f s1) as [s2|s2]; cbn [PJA] in *; [|exact Logic.I].
  destruct K as (J2 & A2 & F2 & B2). split; [exact J2|split; [exact A2|split; [eapply Fr_trans; eassumption|eapply Bq_trans; eassumption]]].
Qed.

Lemma PJA_same : forall b s, J b s -> Acc s -> PJA b s (R s).
Proof. intros b s Jh A. split; [exact Jh|split; [exact A|split; [apply Fr_refl|apply Bq_refl]]]. Qed.

Lemma do_action_PJA : forall b s a, J b s -> Acc s -> wf_action a -> PJA b s (do_action s a).
Proof. intros b s a Jh A W. apply PJA_of; [apply do_action_post; assumption|eapply do_action_A; eassumption]. Qed.

Lemma run_acts_PJA : forall b l s, J b s -> Acc s -> Forall wf_action l -> PJA b s (run_acts s l).
Proof.
  intros b l. induction l as [|a l IH]; intros s Jh A W; cbn [run_acts]; [apply PJA_same; assumption|].
  inversion W as [|? ? W1 W2]; subst.
  eapply PJA_bind; [apply do_action_PJA; assumption|]. intros s1 J1 A1 _. apply IH; assumption.
Qed.
