(* CoreModel.v -- executable model of the ivykis core loop: iv_main_posix.c,
   iv_task.c, iv_timer.c (through Timer/HeapModel.v), iv_event.c (owner-thread
   semantics), iv_event_raw_posix.c, the wait side of iv_fd_epoll.c / iv_fd_poll.c
   and iv_fd_poll_and_run of iv_fd.c, on top of the virtual kernel (Kernel.v).
   Written after the C text.  Executable definitions only. *)

From Coq Require Import List ZArith Bool.
From Ivv Require Import Core.Kernel Core.CoreTypes Core.CoreFd.
From Ivv Require Timer.HeapModel.
Import ListNotations.
Local Open Scope Z_scope.



(* ---- time ---- *)
Definition validate_now (s : core) : core :=
  if time_valid s then s else set_time s (clock (kern s)) true.
Definition invalidate_now (s : core) : core := set_time s (time s) false.

Definition NS : Z := 1000000000.

(* to_relative / to_msec of iv_private.h (see also Gen/Leaf.v, regenerated from the source) *)
Definition to_relative (s : core) (abs : option Z) : core * option Z :=
  match abs with
  | None => (s, None)
  | Some a => let s := validate_now s in (s, Some (if time s <? a then a - time s else 0))
  end.

Definition msec_of_rel (r : Z) : Z :=
  if r / NS <? 86400 then 1000 * (r / NS) + ((r mod NS) + 999999) / 1000000 else 86400000.

Definition to_msec (s : core) (abs : option Z) : core * Z :=
  match to_relative s abs with
  | (s, None) => (s, -1)
  | (s, Some r) => (s, msec_of_rel r)
  end.

(* ---- timers ---- *)
Definition tmid (j : Z) : positive := Z.to_pos (j + 1).

Definition lift_heap (s : core) (o : HeapModel.outcome) : res :=
  match o with
  | HeapModel.Ok h => R (set_numobjs (set_heap s h) (numobjs s + (HeapModel.numobjs h - HeapModel.numobjs (heap s))))
  | HeapModel.Fatal _ => halt s TFatal
  | HeapModel.Crash => halt s TCrash
  end.

Definition timer_registered (s : core) (j : Z) : bool := negb (HeapModel.tidx (heap s) (tmid j) =? -1).

(* ---- tasks ---- *)
Definition task_registered (s : core) (k : Z) : bool :=
  mem_z k (tasks s) || match cur s with Some c => mem_z k c | None => false end.

Definition task_register (s : core) (k : Z) : core :=
  let s := set_numobjs s (numobjs s + 1) in
  match cur s with
  | Some c => if tepoch s k =? epoch s then set_tasks s (tasks s ++ [k]) (cur s)
              else set_tasks s (tasks s) (Some (c ++ [k]))
  | None => set_tasks s (tasks s ++ [k]) None
  end.

Definition task_unregister (s : core) (k : Z) : core :=
  let s := set_numobjs s (numobjs s - 1) in
  set_tasks s (remove_z k (tasks s)) (match cur s with Some c => Some (remove_z k c) | None => None end).

(* ---- eventfd_grab of eventfd-linux.h; in_use is the per-translation-unit static ---- *)
Definition is_enosys (e : errno) : bool := match e with ENOSYS => true | _ => false end.
Definition is_einval (e : errno) : bool := match e with EINVAL => true | _ => false end.

Definition eventfd_grab (k : kernel) (in_use : Z) : kernel * (Z + errno) * Z :=
  let old_path (k : kernel) (in_use : Z) :=
    if negb (in_use =? 0) then
      match k_eventfd k false with
      | (k1, inl fd) => (k1, inl fd, in_use)
      | (k1, inr e) => if is_enosys e then (k1, inr ENOSYS, 0) else (k1, inr e, in_use)
      end
    else (k, inr ENOSYS, 0) in
  if in_use =? 2 then
    match k_eventfd k true with
    | (k1, inl fd) => (k1, inl fd, 2)
    | (k1, inr e) => if is_enosys e || is_einval e then old_path k1 1 else (k1, inr e, 2)
    end
  else old_path k in_use.

(* close() as seen in the trace *)
Definition do_close (s : core) (fd : Z) : core :=
  let '(k1, ok) := k_close (kern s) fd in
  if ok then emit (set_kern s k1) (TKClose fd) else set_kern s k1.

(* ---- raw events (iv_event_raw_posix.c) ---- *)
(* iv_event_raw_is_eventfd, negated: an eventfd-backed object has one descriptor for both ends.
   Post / got_event / unregister decide per object; registration uses the eventfd_in_use flag. *)
Definition raw_is_pipe (s : core) (j : Z) : bool := negb (rw_wfd s j =? rw_rfd s j).

Definition raw_register (s : core) (j : Z) : res * bool :=      (* bool: failure (-1) *)
  let in_use := efd_raw s in
  let '(s, got, failed) :=
    if negb (in_use =? 0) then
      match eventfd_grab (kern s) in_use with
      | (k1, inl fd, u) => (set_efd (set_kern s k1) (efd_epoll s) u, Some (fd, fd), false)
      | (k1, inr e, u) => (set_efd (set_kern s k1) (efd_epoll s) u, None, negb (is_enosys e))
      end
    else (s, None, false) in
  if failed then (R s, true) else
  let '(s, got, failed) :=
    match got with
    | Some p => (s, Some p, false)
    | None =>
        if efd_raw s =? 0 then
          match k_pipe (kern s) with
          | (k1, Some (r, w)) => (set_kern s k1, Some (r, w), false)
          | (k1, None) => (set_kern s k1, None, true)
          end
        else (s, None, true)
    end in
  match got with
  | None => (R s, true)
  | Some (rfd, wfd) =>
      let key := RAW_KEY j in
      let f := fd_with_handlers (fd_fresh rfd (1000 + j)) (Some (H_RAW j)) None None in
      let s := putfd s key f in
      (bind (fd_register s key) (fun s =>
         R (set_rw s (upd (rw_reg s) j true) (upd (rw_rfd s) j rfd) (upd (rw_wfd s) j wfd))), false)
  end.

Definition raw_unregister (s : core) (j : Z) : res :=
  bind (fd_unregister s (RAW_KEY j)) (fun s =>
    let s := do_close s (rw_rfd s j) in
    let s := if raw_is_pipe s j then do_close s (rw_wfd s j) else s in
    R (set_rw s (upd (rw_reg s) j false) (rw_rfd s) (rw_wfd s))).

Definition raw_post (s : core) (j : Z) : core :=
  let '(k1, _) := if raw_is_pipe s j then k_write (kern s) (rw_wfd s j) 1 0
                  else k_write (kern s) (rw_wfd s j) 8 1 in
  set_kern s k1.

(* ---- iv_event.c, owner-thread view (is_mt_app() is true on this platform) ---- *)
Definition ev_on_list (s : core) (j : Z) : bool := mem_z j (ev_pending s) || mem_z j (ev_batch s).

(* iv_fd_epoll_event_rx_on: result true = failure *)
Definition event_rx_on (s : core) : res * bool :=
  let r :=
    if active_ref s =? 0 then
      match eventfd_grab (kern s) (efd_epoll s) with
      | (k1, inl fd, u) =>
          let '(k2, _) := k_write k1 fd 8 1 in
          R (set_activefd (set_efd (set_kern s k2) u (efd_raw s)) fd (active_ref s))
      | (k1, inr _, u) =>
          let s := set_efd (set_kern s k1) u (efd_raw s) in
          match k_pipe (kern s) with
          | (k2, Some (r, w)) =>
              (* the write end stays open and one byte makes the pipe readable *)
              let '(k3, wr) := k_write k2 w 1 0 in
              match wr with
              | inl _ => R (set_activewr (set_activefd (set_kern s k3) r (active_ref s)) w)
              | inr _ => halt (set_kern s k3) TFatal
              end
          | (k2, None) => halt (set_kern s k2) TFatal
          end
      end
    else R s in
  match r with
  | Halt s => (Halt s, true)
  | R s =>
      let s := set_activefd s (active_fd s) (active_ref s + 1) in
      let '(s, e) := ctl_retry s CTL_ADD (active_fd s) 0 (-1) in
      match e with
      | None => (R (set_numobjs s (numobjs s + 1)), false)
      | Some _ => (R s, true)
      end
  end.

Definition event_rx_off (s : core) : res :=
  let '(s, e) := ctl_retry s CTL_DEL (active_fd s) 0 (-1) in
  match e with
  | Some _ => halt s TFatal
  | None =>
      let s := set_activefd s (active_fd s) (active_ref s - 1) in
      let s := if active_ref s =? 0 then
                 let s := do_close s (active_fd s) in
                 if active_wr s =? -1 then s else set_activewr (do_close s (active_wr s)) (-1)
               else s in
      R (set_numobjs s (numobjs s - 1))
  end.

(* iv_event_register: bool = failure *)
Definition event_register (s : core) (j : Z) : res * bool :=
  let s := set_numobjs s (numobjs s + 1) in
  let first := ev_count s =? 0 in
  let s := set_ev s (ev_count s + 1) (ev_reg s) (use_raw s) in
  let '(r, failed) :=
    if first then
      let '(r, s_use) :=
        if negb (use_raw s) then
          if is_epoll s then
            match event_rx_on s with
            | (R s1, true) => (R (set_ev s1 (ev_count s1) (ev_reg s1) true), true)
            | (R s1, false) => (R s1, false)
            | (Halt s1, _) => (Halt s1, false)
            end
          else (R (set_ev s (ev_count s) (ev_reg s) true), true)
        else (R s, true) in
      match r with
      | Halt s1 => (Halt s1, false)
      | R s1 =>
          if use_raw s1 then
            match raw_register s1 KICK_RAW with
            | (R s2, true) =>
                (R (set_numobjs (set_ev s2 (ev_count s2 - 1) (ev_reg s2) (use_raw s2)) (numobjs s2 - 1)), true)
            | (r2, fl) => (r2, fl)
            end
          else (R s1, false)
      end
    else (R s, false) in
  if failed then (r, true)
  else (bind r (fun s => R (set_ev s (ev_count s) (upd (ev_reg s) j true) (use_raw s))), false).

Definition event_unregister (s : core) (j : Z) : res :=
  let s := set_evlists s (remove_z j (ev_pending s)) (remove_z j (ev_batch s)) in
  let s := set_ev s (ev_count s - 1) (upd (ev_reg s) j false) (use_raw s) in
  bind (if ev_count s =? 0 then
          (if use_raw s then raw_unregister s KICK_RAW else event_rx_off s)
        else R s)
       (fun s => R (set_numobjs s (numobjs s - 1))).

(* iv_event_post from the owner thread *)
Definition event_post (s : core) (j : Z) : core :=
  if ev_on_list s j then s else
  let post := match ev_pending s with [] => true | _ => false end in
  let s := set_evlists s (ev_pending s ++ [j]) (ev_batch s) in
  if post && negb (task_registered s LOCAL_TASK) then task_register s LOCAL_TASK else s.

(* ---- actions (every action is guarded exactly as in harness/ivsim.c) ---- *)
Definition do_action (s : core) (a : action) : res :=
  let ex := emit s (TAct a) in                 (* the action is executed: log it first *)
  match a with
  | AFdReg i =>
      if registered (getfd s i) then R s
      else match k_open (kern s) (fdnum (getfd s i)) with
           | Some _ => fd_register ex i
           | None => R s
           end
  | AFdTry i =>
      if registered (getfd s i) then R s else
      let '(r, failed) := fd_register_try ex i in
      bind r (fun s => R (emit s (TRes 0 i (if failed then -1 else 0))))
  | AFdUnreg i => if registered (getfd s i) then fd_unregister ex i else R s
  | AFdSetH i band h => fd_set_handler ex i band h
  | AFdCookie i c => R (putfd ex i (fd_with_cookie (getfd s i) c))
  | AFdFresh i => if registered (getfd s i) then R s else R (putfd ex i (fd_fresh (100 + i) i))
  | AKSet i c => R (set_kern ex (k_set_cond (kern s) i c))
  | AKClose i => if registered (getfd s i) then R s else R (set_kern ex (k_user_close (kern s) i))
  | AKOpen i => R (set_kern ex (k_user_fd (kern s) i))
  | ATmRegAbs j e =>
      if timer_registered s j then R s
      else lift_heap ex (HeapModel.register (HeapModel.set_exp (heap s) (tmid j) e) (tmid j))
  | ATmRegRel j d =>
      if timer_registered s j then R s else
      let s := validate_now s in
      let e := time s + d in
      lift_heap (emit s (TAct (ATmRegAbs j e))) (HeapModel.register (HeapModel.set_exp (heap s) (tmid j) e) (tmid j))
  | ATmUnreg j => if timer_registered s j then lift_heap ex (HeapModel.unregister (heap s) (tmid j)) else R s
  | ATmFresh j => if timer_registered s j then R s else R ex
  | ATkReg j => if task_registered s j then R s else R (task_register ex j)
  | ATkUnreg j => if task_registered s j then R (task_unregister ex j) else R s
  | ATkFresh j => if task_registered s j then R s else R (set_epoch ex (epoch s) (upd (tepoch s) j (epoch s)))
  | AEvReg j =>
      if ev_reg s j then R s else
      let '(r, failed) := event_register ex j in
      bind r (fun s => R (emit s (TRes 1 j (if failed then -1 else 0))))
  | AEvUnreg j => if ev_reg s j then event_unregister ex j else R s
  | AEvPost j => if ev_reg s j then R (event_post ex j) else R s
  | AEvFresh j => if ev_reg s j then R s else R ex
  | ARwReg j =>
      if rw_reg s j then R s else
      let '(r, failed) := raw_register ex j in
      bind r (fun s => R (emit s (TRes 2 j (if failed then -1 else 0))))
  | ARwUnreg j => if rw_reg s j then raw_unregister ex j else R s
  | ARwPost j => if rw_reg s j then R (raw_post ex j) else R s
  | ARwFresh j => if rw_reg s j then R s else R ex
  | AQuit => R (set_quit ex true)
  | AClockAdv d => R (set_kern ex (k_set_clock (kern s) (clock (kern s) + d)))
  | AInvalidate => R (invalidate_now ex)
  | AValidate => R (validate_now ex)
  end.

Fixpoint run_acts (s : core) (l : list action) : res :=
  match l with
  | [] => R s
  | a :: l' => bind (do_action s a) (fun s => run_acts s l')
  end.

Section WithScenario.
Variable sc : scenario.

Definition run_script (s : core) (key : Z) : res :=
  match sc_handlers sc key with
  | [] => R s
  | lists =>
      let n := invoc s key in
      let len := Z.of_nat (length lists) in
      let k := if n <? len then n else len - 1 in
      run_acts (set_invoc s (upd (invoc s) key (n + 1))) (nth (Z.to_nat k) lists [])
  end.

(* __iv_event_run_pending_events *)
Fixpoint events_loop (fuel : nat) (s : core) : res :=
  match ev_batch s with
  | [] => R s
  | ie :: rest =>
      match fuel with
      | O => halt s TCrash
      | S f =>
          let s := set_evlists s (ev_pending s) rest in
          let empty_now := match rest with [] => true | _ => false end in
          bind (run_script (emit s (TCallEvent ie)) (HK_E + ie)) (fun s =>
            if empty_now then R s else events_loop f s)
      end
  end.

Definition run_pending_events (s : core) : res :=
  match ev_pending s with
  | [] => R s
  | p => events_loop (S (length p)) (set_evlists s [] p)
  end.

(* iv_event_raw_got_event *)
Definition raw_got_event (s : core) (j : Z) : res :=
  let toread := if raw_is_pipe s j then 1024 else 8 in
  match k_read (kern s) (rw_rfd s j) toread with
  | (k1, inl n) =>
      if n =? 0 then halt (set_kern s k1) TFatal
      else
        let s := set_kern s k1 in
        if j =? KICK_RAW then run_pending_events s
        else run_script (emit s (TCallRaw j)) (HK_R + j)
  | (k1, inr e) => match e with
                   | EAGAIN => R (set_kern s k1)
                   | _ => halt (set_kern s k1) TFatal
                   end
  end.

(* invoke the handler of descriptor object k for a band *)
Definition call_fd (s : core) (k band : Z) (h : option Z) : res :=
  match h with
  | None => R s
  | Some hid =>
      if 1000 <=? hid then raw_got_event s (hid - 1000)
      else run_script (emit s (TCallFd k band hid (cookie (getfd s k)))) hid
  end.

(* the dispatch loop of iv_fd_poll_and_run *)
Fixpoint dispatch_active (fuel : nat) (s : core) : res :=
  match active s with
  | [] => R s
  | k :: rest =>
      match fuel with
      | O => halt s TCrash
      | S f =>
          let s := set_handled (set_active s rest) (Some k) in
          bind (if has (ready (getfd s k)) M_ERR then call_fd s k 2 (h_err (getfd s k)) else R s) (fun s =>
          bind (match handled s with
                | Some _ => if has (ready (getfd s k)) M_IN then call_fd s k 0 (h_in (getfd s k)) else R s
                | None => R s
                end) (fun s =>
          bind (match handled s with
                | Some _ => if has (ready (getfd s k)) M_OUT then call_fd s k 1 (h_out (getfd s k)) else R s
                | None => R s
                end) (fun s => dispatch_active f s)))
      end
  end.

(* ---- iv_run_timers ---- *)
Fixpoint timers_dispatch (fuel : nat) (s : core) : res :=
  match HeapModel.batch (heap s) with
  | [] => R s
  | t :: rest =>
      match fuel with
      | O => halt s TCrash
      | S f =>
          let s := set_heap s (HeapModel.set_idx (HeapModel.set_batch (heap s) rest) t (-1)) in
          let j := Zpos t - 1 in
          let s := validate_now s in
          bind (run_script (emit s (TCallTimer j (time s))) (HK_T + j)) (timers_dispatch f)
      end
  end.

Definition run_timers (s : core) : res :=
  if HeapModel.num (heap s) =? 0 then R s else
  let s := validate_now s in
  bind (lift_heap s (HeapModel.collect (S (Z.to_nat (HeapModel.num (heap s)))) (HeapModel.set_now (heap s) (time s)))) (fun s =>
    timers_dispatch (S (length (HeapModel.batch (heap s)))) s).

(* ---- iv_run_tasks ---- *)
Fixpoint tasks_loop (fuel : nat) (s : core) : res :=
  match cur s with
  | None => R s
  | Some [] => R (set_tasks s (tasks s) None)
  | Some (k :: rest) =>
      match fuel with
      | O => halt s TCrash
      | S f =>
          let s := set_tasks s (tasks s) (Some rest) in
          let s := set_numobjs s (numobjs s - 1) in
          let s := set_epoch s (epoch s) (upd (tepoch s) k (epoch s)) in
          bind (if k =? LOCAL_TASK then run_pending_events s
                else run_script (emit s (TCallTask k)) (HK_K + k)) (tasks_loop f)
      end
  end.

Definition run_tasks (s : core) : res :=
  let s := set_tasks s [] (Some (tasks s)) in
  let s := set_epoch s ((epoch s + 1) mod 4294967296) (tepoch s) in
  tasks_loop 64 s.

(* ---- the kernel waits ---- *)
Inductive wres : Type :=
| WR (s : core) (evs : list (Z * Z * Z))
| WE (s : core)
| WH (r : res).

Definition wait_enter (s : core) : res :=
  let n := nwait (kern s) + 1 in
  if sc_limit sc <? n then halt s TLimit else
  let s := set_kern s (k_set_nwait (kern s) n) in
  run_acts s (sc_wait sc n).

Definition interest_of (k : kernel) : list (Z * Z * bool) :=
  map (fun e => (en_fd e, en_events e, en_enabled e)) (sort_ents (ep k)).

Definition do_epoll_wait (s : core) (call maxev timeout : Z) : wres :=
  match wait_enter s with
  | Halt s => WH (Halt s)
  | R s =>
      let n := nwait (kern s) in
      let s := emit s (TWait n call maxev timeout (interest_of (kern s)) (ground (kern s))) in
      if mem_z n (eintr_waits (flt (kern s))) then
        (* the interruption arrives after half of a finite timeout has elapsed *)
        let s := if 0 <? timeout then set_kern s (k_set_clock (kern s) (clock (kern s) + timeout / 2)) else s in
        WE (emit s (TRet None [] (clock (kern s))))
      else match k_epoll_sleep (kern s) maxev timeout (sc_rot sc n) with
           | WReady k1 evs =>
               WR (emit (set_kern s k1) (TRet (Some (Z.of_nat (length evs))) (map (fun e => fst (fst e)) evs) (clock k1))) evs
           | WHang => WH (halt s THang)
           | WEintr k1 => WE (set_kern s k1)
           | WLimit => WH (halt s TLimit)
           end
  end.

(* iv_fd_epoll_wait *)
Definition epoll_wait_m (s : core) (abs : option Z) (maxev : Z) : wres :=
  let via_wait (s : core) :=
    let '(s, ms) := to_msec s abs in
    do_epoll_wait s 0 maxev (if ms <? 0 then -1 else ms * 1000000) in
  if pwait2 s then
    let '(s, rel) := to_relative s abs in
    if no_pwait2 (flt (kern s)) || perm_pwait2 (flt (kern s)) then
      via_wait (set_epoll s (epfd s) (tfd s) false)
    else do_epoll_wait s 1 maxev (match rel with Some r => r | None => -1 end)
  else via_wait s.

(* processing of the returned batch, shared by both epoll polls: returns (state, run_events, timer seen) *)
Fixpoint epoll_process (s : core) (evs : list (Z * Z * Z)) (run_events tmr : bool) : core * bool * bool :=
  match evs with
  | [] => (s, run_events, tmr)
  | (_, bits, data) :: evs' =>
      if data =? -1 then epoll_process s evs' true tmr
      else if (data =? -2) && (method s =? M_ET) then epoll_process s evs' run_events true
      else epoll_process (activate s data bits) evs' run_events tmr
  end.

(* iv_fd_epoll_poll / iv_fd_epoll_timerfd_poll: result = (state, run_timers) *)
Definition epoll_poll (s : core) (abs : option Z) : res * bool :=
  let et := method s =? M_ET in
  let maxev := if et then numfds s + 1 else (if numfds s =? 0 then 1 else numfds s) in
  match epoll_flush_pending (S (length (notify s))) s with
  | Halt s => (Halt s, true)
  | R s =>
      let rt0 := if et then (match abs with Some _ => true | None => false end) else true in
      match epoll_wait_m s abs maxev with
      | WH r => (r, true)
      | WE s => (R (invalidate_now s), rt0)
      | WR s evs =>
          let s := invalidate_now s in
          let '(s, run_events, tmr) := epoll_process s evs false false in
          (* the timer descriptor is read when its entry is met *)
          let r :=
            if tmr then
              match k_read (kern s) (tfd s) 8 with
              | (k1, inl _) => R (set_kern s k1)
              | (k1, inr _) => halt (set_kern s k1) TFatal
              end
            else R s in
          (bind r (fun s => if run_events then run_pending_events s else R s), rt0 || tmr)
      end
  end.

(* iv_fd_poll_activate_fds *)
Fixpoint poll_activate (s : core) (keys : list Z) (revs : list Z) : core :=
  match keys, revs with
  | k :: keys', r :: revs' => poll_activate (activate s k r) keys' revs'
  | _, _ => s
  end.

Definition interest_of_pfds (p : list (Z * Z)) : list (Z * Z * bool) :=
  map (fun e => (en_fd e, en_events e, true))
      (sort_ents (map (fun x => {| en_fd := fst x; en_events := snd x; en_data := 0; en_enabled := true |}) p)).

Fixpoint reported_pfds (p : list (Z * Z)) (revs : list Z) : list Z :=
  match p, revs with
  | x :: p', r :: revs' => if r =? 0 then reported_pfds p' revs' else fst x :: reported_pfds p' revs'
  | _, _ => []
  end.

Definition do_poll_wait (s : core) (call timeout : Z) : res * bool :=
  match wait_enter s with
  | Halt s => (Halt s, true)
  | R s =>
      let n := nwait (kern s) in
      let s := emit s (TWait n call (Z.of_nat (length (pfds s))) timeout (interest_of_pfds (pfds s)) (ground (kern s))) in
      if mem_z n (eintr_waits (flt (kern s))) then
        let s := if 0 <? timeout then set_kern s (k_set_clock (kern s) (clock (kern s) + timeout / 2)) else s in
        (R (invalidate_now (emit s (TRet None [] (clock (kern s))))), true)
      else match k_poll_sleep (kern s) (pfds s) timeout with
           | PHang => (halt s THang, true)
           | PReady k1 revs =>
               let s := emit (set_kern s k1) (TRet (Some (count_nonzero revs)) (reported_pfds (pfds s) revs) (clock k1)) in
               (R (poll_activate (invalidate_now s) (pkeys s) revs), true)
           end
  end.

(* iv_fd_poll_poll / iv_fd_poll_ppoll *)
Definition poll_poll (s : core) (abs : option Z) : res * bool :=
  let via_poll (s : core) :=
    let '(s, ms) := to_msec s abs in
    do_poll_wait s 2 (if ms <? 0 then -1 else ms * 1000000) in
  if method s =? M_PP then
    let '(s, rel) := to_relative s abs in
    if no_ppoll (flt (kern s)) then via_poll (set_method (invalidate_now s) M_PO)
    else do_poll_wait s 3 (match rel with Some r => r | None => -1 end)
  else via_poll s.

Definition m_poll (s : core) (abs : option Z) : res * bool :=
  if is_epoll s then epoll_poll s abs else poll_poll s abs.

(* ---- kernel-timer optimisation (iv_fd.c iv_fd_timeout_check + epoll-timerfd) ---- *)
Definition tfd_settime (s : core) (deadline : Z) : core :=
  emit (set_kern s (k_timerfd_settime (kern s) (tfd s) deadline)) (TKTfd deadline).

(* iv_fd_epoll_timerfd_set_poll_timeout: result = return value *)
Definition set_poll_timeout (s : core) (a : Z) : res * bool :=
  let r :=
    if tfd s =? -1 then
      match k_timerfd_create (kern s) with
      | (k1, inr _) => (R (set_method (set_kern s k1) M_EP), false)
      | (k1, inl fd) =>
          let s := set_epoll (set_kern s k1) (epfd s) fd (pwait2 s) in
          let '(s, e) := ctl_retry s CTL_ADD fd B_IN (-2) in
          match e with
          | None => (R s, true)
          | Some _ => (halt s TFatal, false)
          end
      end
    else (R s, true) in
  match r with
  | (R s, true) => (R (tfd_settime s (if a =? 0 then 1 else a)), true)
  | (r, _) => (r, false)
  end.

(* timespec_cmp(abs, &st->last_abs) *)
Definition abs_cmp (abs : option Z) (l : Z) : Z :=
  match abs with
  | None => 1
  | Some a => if a <? l then -1 else if l <? a then 1 else 0
  end.

Definition timeout_check (s : core) (abs : option Z) : res * bool :=
  let cmp := abs_cmp abs (last_abs s) in
  if (last_abs_count s =? 5) && (0 <=? cmp) then (R s, true) else
  let s := if last_abs_count s =? 5 then tfd_settime s 0 else s in
  if cmp =? 0 then
    let s := if last_abs_count s <? 5 then set_last_abs s (last_abs s) (last_abs_count s + 1) else s in
    if last_abs_count s =? 5 then
      match abs with
      | Some a => set_poll_timeout s a
      | None => (R s, false)
      end
    else (R s, false)
  else
    match abs with
    | Some a => (R (set_last_abs s a 1), false)
    | None => (R (set_last_abs s (last_abs s) 0), false)
    end.

(* iv_fd_poll_and_run *)
Definition poll_and_run (s : core) (abs : option Z) : res * bool :=
  let '(r, rt) :=
    if method s =? M_ET then
      match timeout_check s abs with
      | (Halt s, _) => (Halt s, true)
      | (R s, true) =>
          let '(r, rt) := m_poll s None in
          (bind r (fun s => R (if rt then set_last_abs s (last_abs s) 0 else s)), rt)
      | (R s, false) => m_poll s abs
      end
    else m_poll s abs in
  (bind r (fun s => dispatch_active (S (length (active s))) s), rt).

(* iv_get_soonest_timeout *)
Definition soonest_timeout (s : core) : option Z := HeapModel.soonest (heap s).

(* ---- iv_main ---- *)
Fixpoint main_loop (fuel : nat) (s : core) (rt : bool) : res :=
  match fuel with
  | O => halt s TCrash
  | S f =>
      bind (if rt then run_timers s else R s) (fun s =>
      bind (run_tasks s) (fun s =>
        if quit s || (numobjs s =? 0) then R s else
        let abs := match tasks s with _ :: _ => Some 0 | [] => soonest_timeout s end in
        let '(r, rt') := poll_and_run s abs in
        bind r (fun s => main_loop f s rt')))
  end.

(* ---- iv_init / tear-down ---- *)
Definition core0 : core :=
  let k := fold_left k_user_fd (zseq 0 16) (kernel0 (sc_faults sc)) in
  let m := sc_backend sc in
  let '(efd, k) := if (m =? M_ET) || (m =? M_EP) then k_epoll_create k else (-1, k) in
  {| fdt := fun i => fd_fresh (100 + i) i; active := []; handled := None; numfds := 0;
     last_abs := 0; last_abs_count := 0; method := m; notify := []; epfd := efd; tfd := -1;
     pwait2 := true; efd_epoll := 2; efd_raw := 2; active_fd := 0; active_ref := 0; active_wr := -1;
     pfds := []; pkeys := []; quit := false; numobjs := 0; heap := HeapModel.init; time := 0;
     time_valid := false; tasks := []; cur := None; epoch := 0; tepoch := fun _ => 0;
     ev_pending := []; ev_batch := []; ev_count := 0; ev_reg := fun _ => false; use_raw := false;
     rw_reg := fun _ => false; rw_rfd := fun _ => 0; rw_wfd := fun _ => 0;
     kern := k; trace := [TInit m]; invoc := fun _ => 0 |}.

Definition teardown_obj (s : core) (i : Z) : res :=
  bind (do_action s (AFdUnreg i)) (fun s =>
  bind (do_action s (ATmUnreg i)) (fun s =>
  bind (do_action s (ATkUnreg i)) (fun s =>
  bind (do_action s (AEvUnreg i)) (fun s => do_action s (ARwUnreg i))))).

Fixpoint teardown (s : core) (l : list Z) : res :=
  match l with
  | [] => R s
  | i :: l' => bind (teardown_obj s i) (fun s => teardown s l')
  end.

Definition deinit (s : core) : core :=
  if (sc_backend sc =? M_ET) || (sc_backend sc =? M_EP) then
    let s := if tfd s =? -1 then s else do_close s (tfd s) in
    do_close s (epfd s)
  else s.

Definition run_scenario : list tev :=
  let r :=
    bind (run_acts core0 (sc_setup sc)) (fun s =>
    bind (main_loop (Z.to_nat (sc_limit sc) + 2) (set_quit (emit s TMain) false) true) (fun s =>
    let s := emit s (TEnd (if quit s then 1 else 0) (numobjs s)) in
    bind (teardown s (zseq 0 16)) (fun s =>
    let s := emit s (TTear (numobjs s)) in
    let s := deinit s in
    R (emit s (TDone (open_dyn (kern s))))))) in
  rev (trace (res_state r)).

End WithScenario.
