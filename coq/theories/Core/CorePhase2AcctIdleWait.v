(* CorePhase2AcctIdleWait.v -- code 1103: a kernel wait with a non-zero timeout either reports
   something or advances the clock; when no callback ran since the last wait, the timeout
   iv_main computes is not zero.  GI through iv_fd_poll_and_run. *)
From Coq Require Import List ZArith Bool Lia.
From Ivv Require Import Core.Kernel Core.CoreTypes Core.CoreFd Core.CoreModel Core.CoreSpec Core.Monitors Core.GuardMon.
From Ivv Require Import Core.CoreInvBase Core.CoreInvDefs Core.CoreInvFd Core.CoreInvPoll Core.CoreInvReg Core.CoreInvObj
  Core.CoreInvLoop Core.CoreInvWait.
From Ivv Require Import Core.CoreRel Core.CorePhase2FdBase Core.CorePhase2FdMon Core.CorePhase2FdStep Core.CorePhase2FdInv
  Core.CorePhase2FdLoop Core.CorePhase2FdWait.
From Ivv Require Import Core.CorePhase2AcctTr Core.CorePhase2AcctTr2 Core.CorePhase2AcctMon Core.CorePhase2AcctWait
  Core.CorePhase2AcctNc Core.CorePhase2AcctNcWait Core.CorePhase2AcctIdle Core.CorePhase2AcctIdleLoop.
From Ivv Require Timer.HeapModel Timer.HeapSpec.
Import ListNotations.
Local Open Scope Z_scope.

(* ---------- the virtual kernel: no sleep and no event only with timeout 0 ---------- *)
Lemma ep_wake_spec : forall k l w,
  ep_wake k l w = w \/
  exists e v, In e l /\ k_get k (en_fd e) = Some v /\ vkind v = K_TIMERFD /\ vdeadline v <> 0 /\
              has (en_events e) B_IN = true /\ en_enabled e = true /\ ep_wake k l w = vdeadline v.
Proof.
  intros k l. unfold ep_wake. induction l as [|e l IH]; intros w; cbn [fold_left]; [left; reflexivity|].
  match goal with |- context [fold_left ?F l ?W] => destruct (IH W) as [E|(e' & v' & A)] end.
  - rewrite E. destruct (k_get k (en_fd e)) as [v|] eqn:G; [|left; reflexivity].
    destruct (_ && _) eqn:C; [|left; reflexivity]. right. exists e, v.
    repeat (apply andb_true_iff in C; destruct C as [C ?]).
    split; [left; reflexivity|]. split; [exact G|]. split; [apply Z.eqb_eq; assumption|].
    split; [apply Z.eqb_neq; apply negb_true_iff; assumption|]. repeat split; assumption.
  - right. exists e', v'. destruct A as (A1 & A2). split; [right; exact A1|exact A2].
Qed.

Lemma epoll_sleep_nz : forall k maxev timeout rot k1 evs, k_epoll_sleep k maxev timeout rot = WReady k1 evs ->
  timeout <> 0 -> 1 <= maxev -> evs <> [] \/ clock k < clock k1.
Proof.
  intros k maxev timeout rot k1 evs H TN MX. unfold k_epoll_sleep in H. cbv zeta in H.
  set (sorted := sort_ents (ep k)) in *.
  set (order := rotate _ sorted) in *.
  destruct (ep_scan k order (Z.to_nat maxev)) as [|ev0 evs0] eqn:SC; [|inversion H; subst; left; discriminate].
  destruct (Z.eqb_spec timeout 0) as [Z0|_]; [contradiction|].
  set (wake0 := if timeout <? 0 then -1 else clock k + timeout) in *.
  set (wake := ep_wake k sorted wake0) in *.
  destruct (Z.ltb_spec wake 0) as [WN|WP]; [discriminate H|].
  destruct (Z.ltb_spec (clock k) wake) as [LT|GE].
  - inversion H; subst. right. cbn [clock k_set_ep k_set_clock]. exact LT.
  - exfalso. destruct (ep_wake_spec k sorted wake0) as [E|(e & v & IS & G & KD & DN & EI & EN & E)]; fold wake in E.
    + clearbody wake. subst wake. unfold wake0 in *. destruct (Z.ltb_spec timeout 0); lia.
    + assert (IO : In e order) by (unfold order; apply In_rotate_iff; exact IS).
      apply (ep_scan_hit k order (Z.to_nat maxev) e IO); [|lia|exact SC].
      unfold ep_ready_bits. rewrite EN. cbn [negb]. unfold k_cond. rewrite G, KD.
      change (K_TIMERFD =? K_SCRIPTED) with false. change (K_TIMERFD =? K_EVENTFD) with false.
      change (K_TIMERFD =? K_PIPE_R) with false. change (K_TIMERFD =? K_PIPE_W) with false.
      change (K_TIMERFD =? K_TIMERFD) with true. cbv iota.
      assert (RD : (vfired v || (negb (vdeadline v =? 0) && (vdeadline v <=? clock k))) = true).
      { apply orb_true_iff. right. apply andb_true_iff. split; [apply negb_true_iff; apply Z.eqb_neq; exact DN|apply Z.leb_le; lia]. }
      rewrite RD. rewrite EI. change (has B_IN B_IN) with true. change (has B_IN B_OUT) with false.
      change (has B_IN B_HUP) with false. change (has B_IN B_ERR) with false. cbn [andb]. unfold B_IN. lia.
Qed.

Lemma poll_sleep_nz : forall k pf timeout k1 revs, k_poll_sleep k pf timeout = PReady k1 revs ->
  timeout <> 0 -> 0 < count_nonzero revs \/ clock k < clock k1.
Proof.
  intros k pf timeout k1 revs H TN. unfold k_poll_sleep in H.
  destruct (Z.ltb_spec 0 (count_nonzero (poll_eval k pf))) as [P|NP]; cbn [orb] in H.
  - inversion H; subst. left. exact P.
  - destruct (Z.eqb_spec timeout 0) as [Z0|_]; [contradiction|].
    destruct (Z.ltb_spec timeout 0); [discriminate H|]. inversion H; subst. right. cbn [clock k_set_clock]. lia.
Qed.

Section Wait1103.
Variable sc : scenario.
Hypothesis WF : wf_scenario sc.

Notation GIs := (GIs sc).
Notation idn := (idn sc).
Notation gdn := (gdn sc).

Lemma GIs_emit : forall s e, GIs s -> okg (gst sc s) e -> GIs (emit s e).
Proof. intros s e G O. unfold GIs, CorePhase2AcctIdleLoop.GIs. rewrite gst_emit. apply GI_step; assumption. Qed.

Lemma GIs_trace : forall s s', trace s' = trace s -> GIs s -> GIs s'.
Proof. intros s s' E G. unfold GIs, CorePhase2AcctIdleLoop.GIs in *. rewrite (gst_trace sc s s' E). exact G. Qed.

Lemma idn_trace : forall s s', trace s' = trace s -> idn s' = idn s /\ gdn s' = gdn s.
Proof. intros s s' E. unfold idn, gdn, CorePhase2AcctIdleLoop.idn, CorePhase2AcctIdleLoop.gdn. rewrite (gst_trace sc s s' E). split; reflexivity. Qed.

(* "still idle": no callback since a wait that returned nothing without sleeping *)
Definition Still (s : core) : Prop := gdn s = false /\ idn s = true.

Lemma Still_ext : forall (P : tev -> Prop) s s', (forall e, P e -> nrs e) -> TrExt P s s' -> Still s' -> Still s.
Proof. intros P s s' Q T [D H]. exact (idle_ext sc P s s' Q T D H). Qed.

Lemma nr_nrs : forall e, nr e -> nrs e. Proof. intros e. destruct e; cbn; tauto. Qed.

(* the wait return is not "idle" when the previous iteration was, given a non-zero timeout *)
Lemma okg_ret : forall s1 n call mx t i g k1 len fds,
  GIs s1 -> J true (emit s1 (TWait n call mx t i g)) ->
  (Still s1 -> len <> 0 \/ clock (kern s1) < clock k1) ->
  okg (gst sc (set_kern (emit s1 (TWait n call mx t i g)) k1)) (TRet (Some len) fds (clock k1)).
Proof.
  intros s1 n call mx t i g k1 len fds G J2 NZ. cbn [okg].
  set (s2 := emit s1 (TWait n call mx t i g)) in *.
  rewrite (gst_trace sc s2 (set_kern s2 k1) eq_refl). intros D ID.
  rewrite (gst_m sc s2 D). rewrite (ag_clk _ _ (j_ag _ _ J2)). change (kern s2) with (kern s1).
  unfold s2 in D, ID. rewrite gst_emit in D, ID. pose proof (gstep_done sc _ _ D) as D1.
  pose proof (idle_after_wait sc _ _ _ _ _ _ _ D1 ID G) as IN.
  destruct (NZ (conj D1 IN)) as [L|L].
  - apply andb_false_iff. left. apply Z.eqb_neq. exact L.
  - apply andb_false_iff. right. apply Z.eqb_neq. lia.
Qed.

(* after a wait with a non-zero timeout the iteration is not "idle" *)
Lemma not_idle_ret : forall s2 k1 len fds, J true s2 -> gdn (emit (set_kern s2 k1) (TRet (Some len) fds (clock k1))) = false ->
  len <> 0 \/ clock (kern s2) < clock k1 -> idn (emit (set_kern s2 k1) (TRet (Some len) fds (clock k1))) = false.
Proof.
  intros s2 k1 len fds J2 D NZ. unfold idn, gdn, CorePhase2AcctIdleLoop.idn, CorePhase2AcctIdleLoop.gdn in *.
  rewrite gst_emit in *. pose proof (gstep_done sc _ _ D) as D1.
  pose proof (gstep_idle sc _ (TRet (Some len) fds (clock k1)) D1) as S. cbn [idle_spec] in S. destruct S as [S1 _].
  unfold idle2 in S1. injection S1 as S1a _. rewrite S1a.
  rewrite (gst_trace sc s2 (set_kern s2 k1) eq_refl) in *. rewrite (gst_m sc s2 D1), (ag_clk _ _ (j_ag _ _ J2)).
  destruct NZ as [L|L]; apply andb_false_iff; [left|right]; apply Z.eqb_neq; lia.
Qed.

Lemma idn_after_wait : forall s n call mx t i g, gdn (emit s (TWait n call mx t i g)) = false ->
  idn (emit s (TWait n call mx t i g)) = false.
Proof.
  intros s n call mx t i g D. unfold idn, gdn, CorePhase2AcctIdleLoop.idn, CorePhase2AcctIdleLoop.gdn in *. rewrite gst_emit in *.
  pose proof (gstep_idle sc _ (TWait n call mx t i g) (gstep_done sc _ _ D)) as S. cbn [idle_spec] in S. cbv zeta in S.
  destruct S as [S1 _]. unfold idle2 in S1. injection S1 as S1a _. exact S1a.
Qed.

Lemma idn_keep_false : forall s e, nrs e -> gdn (emit s e) = false -> idn s = false -> idn (emit s e) = false.
Proof.
  intros s e Q D H. destruct (idn (emit s e)) eqn:X; [|reflexivity].
  unfold idn, gdn, CorePhase2AcctIdleLoop.idn, CorePhase2AcctIdleLoop.gdn in *. rewrite gst_emit in *.
  destruct (idle_now_keeps sc _ e ltac:(destruct e; try exact I; exact Q) X) as [Y _]. congruence.
Qed.

Definition NotIdle (s : core) : Prop := gdn s = false -> idn s = false.

Definition wni (w : wres) : Prop := match w with WR s' _ => NotIdle s' | WE s' => NotIdle s' | WH _ => True end.

Lemma do_epoll_wait_G : forall s call maxev timeout, WP sc s -> GIs s -> 1 <= maxev -> (Still s -> timeout <> 0) ->
  GIs (wres_state (do_epoll_wait sc s call maxev timeout)) /\
  (timeout <> 0 -> wni (do_epoll_wait sc s call maxev timeout)).
Proof.
  intros s call maxev timeout W G0 MX NZ. unfold do_epoll_wait.
  pose proof (wait_enter_W sc WF s W) as P. pose proof (wait_enter_nr sc s) as T1. unfold RExt in T1.
  pose proof (GIs_ext sc nr s _ nr_nrs T1 G0) as G1.
  destruct (wait_enter sc s) as [s1|s1] eqn:WE; cbn [wres_state res_state wni] in *; [|split; [exact G1|intros _; exact I]].
  destruct P as ([I1 Y1 A1 E1 Q1] & K1). cbv zeta.
  set (n := nwait (kern s1)).
  set (e2 := TWait n call maxev timeout (interest_of (kern s1)) (ground (kern s1))).
  set (s2 := emit s1 e2).
  assert (J2 : J true s2) by (apply J_wait_event; [apply Y1|exact Q1]).
  assert (G2 : GIs s2) by (apply GIs_emit; [exact G1|exact I]).
  assert (N2 : NotIdle s2) by (intros D; apply idn_after_wait; exact D).
  assert (NZ1 : Still s1 -> timeout <> 0) by (intros S1; apply NZ; apply (Still_ext nr s s1 nr_nrs T1 S1)).
  change (kern s2) with (kern s1).
  destruct (mem_z n (eintr_waits (flt (kern s1)))); cbn [wres_state wni].
  - set (sx := if 0 <? timeout then set_kern s2 (k_set_clock (kern s1) (clock (kern s1) + timeout / 2)) else s2).
    assert (TX : trace sx = trace s2) by (unfold sx; destruct (0 <? timeout); reflexivity).
    split; [apply GIs_emit; [apply (GIs_trace s2); assumption|exact I]|].
    intros _ D. apply idn_keep_false; [exact I|exact D|].
    destruct (idn_trace s2 sx TX) as [A B]. rewrite A. apply N2. rewrite <- B.
    unfold gdn, CorePhase2AcctIdleLoop.gdn in *. rewrite gst_emit in D. apply (gstep_done sc _ _ D).
  - destruct (k_epoll_sleep (kern s1) maxev timeout (sc_rot sc n)) as [k1 evs|k1| |] eqn:SL; cbn [wres_state res_state halt wni].
    + assert (LEN : evs <> [] -> Z.of_nat (length evs) <> 0) by (intros X; destruct evs; [contradiction|cbn [length]; lia]).
      split.
      * apply GIs_emit; [apply (GIs_trace s2); [reflexivity|exact G2]|].
        apply (okg_ret s1 n call maxev timeout _ _ k1 _ _ G1 J2). intros S1.
        destruct (epoll_sleep_nz _ _ _ _ _ _ SL (NZ1 S1) MX) as [X|X]; [left; apply LEN; exact X|right; exact X].
      * intros TN D. apply (not_idle_ret s2 k1 _ _ J2 D).
        destruct (epoll_sleep_nz _ _ _ _ _ _ SL TN MX) as [X|X]; [left; apply LEN; exact X|right; exact X].
    + split; [apply (GIs_trace s2); [reflexivity|exact G2]|]. intros _ D.
      destruct (idn_trace s2 (set_kern s2 k1) eq_refl) as [A B]. rewrite A. apply N2. rewrite <- B. exact D.
    + split; [apply GIs_emit; [exact G2|exact I]|intros _; exact I].
    + split; [apply GIs_emit; [exact G2|exact I]|intros _; exact I].
Qed.

(* ---------- the timeout iv_main asks for ---------- *)
Definition NZabs (s : core) (abs : option Z) : Prop :=
  abs = None \/ exists a, abs = Some a /\ time_valid s = true /\ time s < a /\ clock (kern s) <= time s.

(* the same for a state whose cached time may be invalid *)
Definition NZ2 (s : core) (abs : option Z) : Prop :=
  abs = None \/ exists a, abs = Some a /\ time (validate_now s) < a.

Lemma msec_of_rel_pos : forall r, 0 < r -> 0 < msec_of_rel r.
Proof.
  intros r R. unfold msec_of_rel, NS. destruct (Z.ltb_spec (r / 1000000000) 86400); [|lia].
  pose proof (Z.div_pos r 1000000000 ltac:(lia) ltac:(lia)) as Q.
  destruct (Z.eq_dec (r / 1000000000) 0) as [Z0|NZ]; [|lia].
  rewrite Z0. apply Z.div_small_iff in Z0; [|lia]. rewrite (Z.mod_small r 1000000000) by lia.
  assert (1 <= (r + 999999) / 1000000) by (apply Z.div_le_lower_bound; lia). lia.
Qed.

Lemma to_relative_nz : forall s abs, NZabs s abs ->
  fst (to_relative s abs) = s /\ (match snd (to_relative s abs) with Some r => r | None => -1 end) <> 0.
Proof.
  intros s abs [->|(a & -> & TV & LT & _)]; cbn [to_relative fst snd]; [split; [reflexivity|lia]|].
  unfold validate_now. rewrite TV. split; [reflexivity|]. destruct (Z.ltb_spec (time s) a); lia.
Qed.

Lemma to_msec_nz : forall s abs, NZabs s abs ->
  fst (to_msec s abs) = s /\ (if snd (to_msec s abs) <? 0 then -1 else snd (to_msec s abs) * 1000000) <> 0.
Proof.
  intros s abs N. unfold to_msec. destruct (to_relative_nz s abs N) as [A B].
  destruct N as [->|(a & -> & TV & LT & _)]; cbn [to_relative fst snd] in *; [split; [reflexivity|cbn; lia]|].
  unfold validate_now in *. rewrite TV in *. cbn [fst snd]. split; [reflexivity|].
  destruct (Z.ltb_spec (time s) a) as [L|L]; [|lia].
  pose proof (msec_of_rel_pos (a - time s) ltac:(lia)) as P.
  destruct (Z.ltb_spec (msec_of_rel (a - time s)) 0); lia.
Qed.

Lemma NZabs_same : forall s s' abs, time_valid s' = time_valid s -> time s' = time s -> clock (kern s') = clock (kern s) ->
  NZabs s abs -> NZabs s' abs.
Proof. intros s s' abs A B C [N|(a & E & TV & LT & CK)]; [left; exact N|right; exists a; rewrite A, B, C; auto]. Qed.

Lemma to_msec_nz2 : forall s abs, NZ2 s abs ->
  (if snd (to_msec s abs) <? 0 then -1 else snd (to_msec s abs) * 1000000) <> 0.
Proof.
  intros s abs N. unfold to_msec. destruct N as [->|(a & -> & LT)]; cbn [to_relative fst snd]; [cbn; lia|].
  destruct (Z.ltb_spec (time (validate_now s)) a) as [L|L]; [|lia].
  pose proof (msec_of_rel_pos (a - time (validate_now s)) ltac:(lia)) as P.
  destruct (Z.ltb_spec (msec_of_rel (a - time (validate_now s))) 0); lia.
Qed.

Lemma epoll_wait_m_G : forall s abs maxev, WP sc s -> GIs s -> 1 <= maxev -> (Still s -> NZabs s abs) ->
  GIs (wres_state (epoll_wait_m sc s abs maxev)) /\ (NZabs s abs -> wni (epoll_wait_m sc s abs maxev)).
Proof.
  intros s abs maxev W G0 MX NZ. unfold epoll_wait_m.
  assert (VIA : forall s0, WP sc s0 -> GIs s0 -> (Still s0 -> NZabs s0 abs) ->
     GIs (wres_state (let '(s1, ms) := to_msec s0 abs in do_epoll_wait sc s1 0 maxev (if ms <? 0 then -1 else ms * 1000000))) /\
     (NZabs s0 abs -> wni (let '(s1, ms) := to_msec s0 abs in do_epoll_wait sc s1 0 maxev (if ms <? 0 then -1 else ms * 1000000)))).
  { intros s0 W0 H0 NZ0. destruct (WP_to_msec sc s0 abs W0) as [W1 K1].
    pose proof (to_msec_trace s0 abs) as TT. pose proof (to_msec_nz s0 abs) as TN.
    destruct (to_msec s0 abs) as [s1 ms]. cbn [fst snd] in *.
    destruct (idn_trace s0 s1 TT) as [A B].
    destruct (do_epoll_wait_G s1 0 maxev (if ms <? 0 then -1 else ms * 1000000) W1 (GIs_trace s0 s1 TT H0) MX) as [R1 R2].
    { intros [D H]. apply TN. apply NZ0. split; congruence. }
    split; [exact R1|]. intros N. apply R2. apply TN. exact N. }
  destruct (pwait2 s); [|apply VIA; assumption].
  destruct (WP_to_relative sc s abs W) as [W1 K1]. pose proof (to_relative_nz s abs) as TN.
  assert (TT : trace (fst (to_relative s abs)) = trace s) by (unfold to_relative; destruct abs; cbn [fst]; [apply validate_trace|reflexivity]).
  destruct (to_relative s abs) as [s1 rel]. cbn [fst snd] in *.
  destruct (idn_trace s s1 TT) as [A B].
  assert (SAME : NZabs s abs -> s1 = s) by (intros N; apply (TN N)).
  destruct (no_pwait2 (flt (kern s1)) || perm_pwait2 (flt (kern s1))).
  - destruct (VIA (set_epoll s1 (epfd s1) (tfd s1) false)) as [R1 R2].
    + apply WP_set_epoll; exact W1.
    + apply (GIs_trace s); [exact TT|exact G0].
    + intros [D H]. assert (N : NZabs s abs) by (apply NZ; split; [rewrite <- B|rewrite <- A]; assumption).
      rewrite (SAME N). apply (NZabs_same s); [reflexivity|reflexivity|reflexivity|exact N].
    + split; [exact R1|]. intros N. apply R2. rewrite (SAME N). apply (NZabs_same s); [reflexivity|reflexivity|reflexivity|exact N].
  - destruct (do_epoll_wait_G s1 1 maxev (match rel with Some r => r | None => -1 end) W1 (GIs_trace s s1 TT G0) MX) as [R1 R2].
    { intros [D H]. apply TN. apply NZ. split; congruence. }
    split; [exact R1|]. intros N. apply R2. apply TN. exact N.
Qed.

Lemma NotIdle_ext : forall (P : tev -> Prop) s s', (forall e, P e -> nrs e) -> TrExt P s s' -> NotIdle s -> NotIdle s'.
Proof.
  intros P s s' Q T N D. destruct (idn s') eqn:X; [|reflexivity]. exfalso.
  destruct (Still_ext P s s' Q T (conj D X)) as [D0 H0]. rewrite (N D0) in H0. discriminate H0.
Qed.

Lemma NotIdle_trace : forall s s', trace s' = trace s -> NotIdle s -> NotIdle s'.
Proof. intros s s' E N. destruct (idn_trace s s' E) as [A B]. unfold NotIdle. rewrite A, B. exact N. Qed.

Lemma ctl_clock : forall k op fd ev d, clock (fst (k_epoll_ctl k op fd ev d)) = clock k.
Proof.
  intros. unfold k_epoll_ctl.
  repeat match goal with |- context [match ?x with _ => _ end] => destruct x end; reflexivity.
Qed.

Definition tsame (s s' : core) : Prop := time s' = time s /\ time_valid s' = time_valid s /\ clock (kern s') = clock (kern s).
Lemma tsame_refl : forall s, tsame s s. Proof. intros; repeat split. Qed.
Lemma tsame_trans : forall a b c, tsame a b -> tsame b c -> tsame a c.
Proof. intros a b c (A1 & A2 & A3) (B1 & B2 & B3). repeat split; congruence. Qed.

Lemma ctl_retry_time : forall s op fd ev d s1 r, ctl_retry s op fd ev d = (s1, r) -> tsame s s1.
Proof.
  intros s op fd ev d s1 r. unfold ctl_retry. pose proof (ctl_clock (kern s) op fd ev d) as C1.
  destruct (k_epoll_ctl _ _ _ _ _) as [k1 r1]. cbn [fst] in C1.
  destruct r1 as [e|]; [destruct e|]; try (intros E; inversion E; repeat split; exact C1).
  pose proof (ctl_clock k1 op fd ev d) as C2.
  destruct (k_epoll_ctl k1 _ _ _ _) as [k2 r2]. cbn [fst] in C2. intros E; inversion E; repeat split. cbn. congruence.
Qed.

Lemma flush_one__time : forall s k s1 b, epoll_flush_one_ s k = (s1, b) -> tsame s s1.
Proof.
  intros s k s1 b. unfold epoll_flush_one_. set (s0 := set_notify s _).
  destruct (regb _ =? wanted _); [intros E; inversion E; repeat split|].
  destruct (ctl_retry s0 _ _ _ k) as [s2 r] eqn:C. apply ctl_retry_time in C.
  destruct r; intros E; inversion E; subst; exact C.
Qed.

Lemma flush_pending_time : forall fuel s s', epoll_flush_pending fuel s = R s' -> tsame s s'.
Proof.
  induction fuel as [|f IH]; intros s s' E; cbn [epoll_flush_pending] in E; destruct (notify s) as [|k l];
    try (inversion E; apply tsame_refl); try (unfold halt in E; discriminate E).
  unfold epoll_flush_one in E. destruct (epoll_flush_one_ s k) as [s1 b] eqn:F. apply flush_one__time in F.
  destruct b; cbn [bind] in E; [unfold halt in E; discriminate E|]. eapply tsame_trans; [exact F|apply IH; exact E].
Qed.

Definition RNI (s : core) (abs : option Z) (r : res) : Prop :=
  match r with R s' => GIs s' /\ (NZabs s abs -> NotIdle s') | Halt s' => GIs s' end.

Lemma epoll_poll_G : forall s abs, WP sc s -> GIs s -> is_epoll s = true -> (Still s -> NZabs s abs) ->
  RNI s abs (fst (epoll_poll sc s abs)).
Proof.
  intros s abs W G0 IE NZ. pose proof W as [I0 H A E Q]. pose proof (y_j _ _ _ H) as Jh. unfold epoll_poll.
  destruct (flush_pending_ok (S (length (notify s))) s I0 IE ltac:(lia)) as (s1 & F1 & I1 & N1 & _ & RS1 & _).
  pose proof (J_inner_res s _ _ Jh (flush_pending_res (S (length (notify s))) s (j_fd _ _ Jh) IE)) as P.
  pose proof (flush_pending_st0 (S (length (notify s))) s) as S1.
  pose proof (flush_pending_ext (S (length (notify s))) s) as T1. unfold RExt in T1.
  pose proof (flush_pending_time (S (length (notify s))) s) as TM.
  rewrite F1 in *. cbn [res_state] in S1, T1. destruct (TM s1 eq_refl) as (TM1 & TM2 & TM3).
  destruct P as (J1 & _ & E1); [intros s1' (A0 & B0 & _); split; [apply Inner_W; exact A0|exact B0]|].
  assert (Q1 : quit s1 = quit s) by (destruct E1 as (A0 & _); apply (sm_quit _ _ (in_same _ _ A0))).
  assert (W1 : WP sc s1) by (apply (WP_st0 sc s s1 W S1 J1 I1 Q1)).
  pose proof (GIs_ext sc ca s s1 ca_nrs T1 G0) as G1.
  set (maxev := if method s =? M_ET then numfds s + 1 else if numfds s =? 0 then 1 else numfds s).
  assert (MX : 1 <= maxev).
  { pose proof (numfds_nonneg s I0). unfold maxev. destruct (method s =? M_ET); [lia|]. destruct (Z.eqb_spec (numfds s) 0); lia. }
  destruct (epoll_wait_m_G s1 abs maxev W1 G1 MX) as [R1 R2].
  { intros S. apply (NZabs_same s); [exact TM2|exact TM1|exact TM3|]. apply NZ. apply (Still_ext ca s s1 ca_nrs T1 S). }
  assert (IE1 : is_epoll s1 = true) by (rewrite (restsame_epoll _ _ RS1); exact IE).
  pose proof (epoll_wait_m_W sc WF s1 abs maxev W1 IE1 N1 MX) as WO.
  destruct (epoll_wait_m sc s1 abs maxev) as [s2 evs|s2|r]; cbn [wres_state wni fst RNI WOut] in *.
  - pose proof (epoll_process_trace evs (invalidate_now s2) false false) as T4.
    destruct (epoll_process (invalidate_now s2) evs false false) as [[s4 run_events] tmr]. cbn [fst] in *.
    assert (G4 : GIs s4) by (apply (GIs_trace s2); [exact T4|exact R1]).
    assert (N4 : NZabs s abs -> NotIdle s4).
    { intros N. apply (NotIdle_trace s2); [exact T4|]. apply R2. apply (NZabs_same s); [exact TM2|exact TM1|exact TM3|exact N]. }
    assert (PR : RNI s abs (if tmr then match k_read (kern s4) (tfd s4) 8 with
                                    | (k1, inl _) => R (set_kern s4 k1)
                                    | (k1, inr _) => halt (set_kern s4 k1) TFatal
                                    end else R s4)).
    { destruct tmr; [|split; assumption]. destruct (k_read (kern s4) (tfd s4) 8) as [k1 [x|e]]; cbn [RNI halt].
      - split; [apply (GIs_trace s4); [reflexivity|exact G4]|]. intros N. apply (NotIdle_trace s4); [reflexivity|apply N4; exact N].
      - apply GIs_emit; [apply (GIs_trace s4); [reflexivity|exact G4]|exact I]. }
    destruct (if tmr then _ else R s4) as [s5|s5]; cbn [bind RNI] in *; [|exact PR].
    destruct PR as [G5 N5]. destruct run_events; [|split; assumption].
    pose proof (run_pending_events_exth sc s5) as T6. unfold RExt in T6.
    destruct (run_pending_events sc s5) as [s6|s6]; cbn [RNI res_state] in *.
    + split; [apply (GIs_ext sc ch s5 s6 ch_nrs T6 G5)|]. intros N. apply (NotIdle_ext ch s5 s6 ch_nrs T6). apply N5. exact N.
    + apply (GIs_ext sc ch s5 s6 ch_nrs T6 G5).
  - split; [apply (GIs_trace s2); [reflexivity|exact R1]|]. intros N. apply (NotIdle_trace s2); [reflexivity|].
    apply R2. apply (NZabs_same s); [exact TM2|exact TM1|exact TM3|exact N].
  - destruct r; [contradiction|exact R1].
Qed.

(* ---------- poll / ppoll ---------- *)
Lemma do_poll_wait_G : forall s call timeout, WP sc s -> GIs s -> (Still s -> timeout <> 0) ->
  match fst (do_poll_wait sc s call timeout) with
  | R s' => GIs s' /\ (timeout <> 0 -> NotIdle s') | Halt s' => GIs s' end.
Proof.
  intros s call timeout W G0 NZ. unfold do_poll_wait.
  pose proof (wait_enter_W sc WF s W) as P. pose proof (wait_enter_nr sc s) as T1. unfold RExt in T1.
  pose proof (GIs_ext sc nr s _ nr_nrs T1 G0) as G1.
  destruct (wait_enter sc s) as [s1|s1] eqn:WE; cbn [fst res_state] in *; [|exact G1].
  destruct P as ([I1 Y1 A1 E1 Q1] & K1). cbv zeta.
  set (n := nwait (kern s1)).
  set (e2 := TWait n call (Z.of_nat (length (pfds s1))) timeout (interest_of_pfds (pfds s1)) (ground (kern s1))).
  set (s2 := emit s1 e2).
  assert (J2 : J true s2) by (apply J_wait_event; [apply Y1|exact Q1]).
  assert (G2 : GIs s2) by (apply GIs_emit; [exact G1|exact I]).
  assert (N2 : NotIdle s2) by (intros D; apply idn_after_wait; exact D).
  assert (NZ1 : Still s1 -> timeout <> 0) by (intros S1; apply NZ; apply (Still_ext nr s s1 nr_nrs T1 S1)).
  change (kern s2) with (kern s1). change (pfds s2) with (pfds s1).
  destruct (mem_z n (eintr_waits (flt (kern s1)))); cbn [fst].
  - set (sx := if 0 <? timeout then set_kern s2 (k_set_clock (kern s1) (clock (kern s1) + timeout / 2)) else s2).
    assert (TX : trace sx = trace s2) by (unfold sx; destruct (0 <? timeout); reflexivity).
    set (sy := emit sx (TRet None [] (clock (kern sx)))).
    assert (GY : GIs sy) by (apply GIs_emit; [apply (GIs_trace s2); assumption|exact I]).
    assert (NY : NotIdle sy).
    { intros D. apply idn_keep_false; [exact I|exact D|].
      destruct (idn_trace s2 sx TX) as [A B]. rewrite A. apply N2. rewrite <- B.
      unfold gdn, CorePhase2AcctIdleLoop.gdn in *. unfold sy in D. rewrite gst_emit in D. apply (gstep_done sc _ _ D). }
    split; [apply (GIs_trace sy); [reflexivity|exact GY]|]. intros _. apply (NotIdle_trace sy); [reflexivity|exact NY].
  - destruct (k_poll_sleep (kern s1) (pfds s1) timeout) as [k1 revs|] eqn:SL; cbn [fst halt].
    + set (s3 := emit (set_kern s2 k1) (TRet (Some (count_nonzero revs)) (reported_pfds (pfds s1) revs) (clock k1))).
      assert (T3 : trace (poll_activate (invalidate_now s3) (pkeys s3) revs) = trace s3) by (rewrite poll_activate_trace7; reflexivity).
      assert (CN : 0 < count_nonzero revs -> count_nonzero revs <> 0) by lia.
      split.
      * apply (GIs_trace s3); [exact T3|]. apply GIs_emit; [apply (GIs_trace s2); [reflexivity|exact G2]|].
        apply (okg_ret s1 n call _ timeout _ _ k1 _ _ G1 J2). intros S1.
        destruct (poll_sleep_nz _ _ _ _ _ SL (NZ1 S1)) as [X|X]; [left; apply CN; exact X|right; exact X].
      * intros TN. apply (NotIdle_trace s3); [exact T3|]. intros D. apply (not_idle_ret s2 k1 _ _ J2 D).
        destruct (poll_sleep_nz _ _ _ _ _ SL TN) as [X|X]; [left; apply CN; exact X|right; exact X].
    + apply GIs_emit; [exact G2|exact I].
Qed.

Lemma NZabs_NZ2 : forall s abs, NZabs s abs -> NZ2 s abs.
Proof.
  intros s abs [N|(a & E & TV & LT & _)]; [left; exact N|right; exists a; split; [exact E|]].
  unfold validate_now. rewrite TV. exact LT.
Qed.

Lemma poll_poll_G : forall s abs, WP sc s -> GIs s -> is_epoll s = false -> (Still s -> NZabs s abs) ->
  RNI s abs (fst (poll_poll sc s abs)).
Proof.
  intros s abs W G0 IE NZ. unfold poll_poll.
  assert (VIA : forall s0, WP sc s0 -> GIs s0 -> (Still s0 -> NZ2 s0 abs) ->
     match fst (let '(s1, ms) := to_msec s0 abs in do_poll_wait sc s1 2 (if ms <? 0 then -1 else ms * 1000000)) with
     | R s' => GIs s' /\ (NZ2 s0 abs -> NotIdle s') | Halt s' => GIs s' end).
  { intros s0 W0 H0 NZ0. destruct (WP_to_msec sc s0 abs W0) as [W1 K1].
    pose proof (to_msec_trace s0 abs) as TT. pose proof (to_msec_nz2 s0 abs) as TN.
    destruct (to_msec s0 abs) as [s1 ms]. cbn [fst snd] in *.
    destruct (idn_trace s0 s1 TT) as [A B].
    pose proof (do_poll_wait_G s1 2 (if ms <? 0 then -1 else ms * 1000000) W1 (GIs_trace s0 s1 TT H0)) as R.
    destruct (fst (do_poll_wait sc s1 2 (if ms <? 0 then -1 else ms * 1000000))) as [s2|s2].
    - destruct R as [R1 R2]; [intros [D H]; apply TN; apply NZ0; split; congruence|].
      split; [exact R1|]. intros N. apply R2. apply TN. exact N.
    - apply R. intros [D H]. apply TN. apply NZ0. split; congruence. }
  destruct (Z.eqb_spec (method s) M_PP) as [MP|NMP].
  2:{ pose proof (VIA s W G0 (fun S => NZabs_NZ2 s abs (NZ S))) as R.
      destruct (fst (let '(s1, ms) := to_msec s abs in do_poll_wait sc s1 2 (if ms <? 0 then -1 else ms * 1000000))) as [s'|s']; cbn [RNI];
        [|exact R]. destruct R as [R1 R2]. split; [exact R1|]. intros N. apply R2. apply NZabs_NZ2. exact N. }
  destruct (WP_to_relative sc s abs W) as [W1 K1]. pose proof (to_relative_nz s abs) as TN.
  assert (TT : trace (fst (to_relative s abs)) = trace s) by (unfold to_relative; destruct abs; cbn [fst]; [apply validate_trace|reflexivity]).
  destruct (to_relative s abs) as [s1 rel]. cbn [fst snd] in *.
  destruct (idn_trace s s1 TT) as [A B].
  assert (SAME : NZabs s abs -> s1 = s) by (intros N; apply (TN N)).
  assert (IE1 : is_epoll s1 = false) by (unfold is_epoll in *; rewrite (ko_method _ _ K1); exact IE).
  destruct (no_ppoll (flt (kern s1))).
  - set (s2 := set_method (invalidate_now s1) M_PO).
    assert (W2 : WP sc s2).
    { pose proof W1 as [I1 Hy1 A1 E1 Q1].
      destruct (J_invalidate true s1 (y_j _ _ _ Hy1)) as (J2 & _ & _ & Q2).
      assert (IE2 : is_epoll (invalidate_now s1) = false) by exact IE1.
      apply (WP_st0 sc s1 _ W1).
      * eapply ST0_trans; [apply invalidate_st0|apply ST0_set_method].
      * apply J_set_method_poll; [exact J2|exact IE2|reflexivity].
      * apply InvW_set_method; [apply InvW_invalidate; exact I1| |unfold M_PO; lia].
        change (is_epoll (invalidate_now s1)) with (is_epoll s1). rewrite IE1. reflexivity.
      * exact Q2. }
    (* the cached time has just been dropped; it is re-read from a clock that has not moved *)
    assert (N2 : NZabs s abs -> NZ2 s2 abs).
    { intros N. pose proof (SAME N) as ES. destruct N as [N|(a & E & TV & LT & CK)]; [left; exact N|right; exists a; split; [exact E|]].
      unfold s2, validate_now. cbn [time_valid time set_method invalidate_now set_time kern]. rewrite ES. lia. }
    pose proof (VIA s2 W2 (GIs_trace s s2 TT G0)) as R.
    destruct (fst (let '(s3, ms) := to_msec s2 abs in do_poll_wait sc s3 2 (if ms <? 0 then -1 else ms * 1000000))) as [s'|s']; cbn [RNI].
    + destruct R as [R1 R2]; [intros [D H]; apply N2; apply NZ; split; [rewrite <- B|rewrite <- A]; assumption|].
      split; [exact R1|]. intros N. apply R2. apply N2. exact N.
    + apply R. intros [D H]. apply N2. apply NZ. split; [rewrite <- B|rewrite <- A]; assumption.
  - pose proof (do_poll_wait_G s1 3 (match rel with Some r => r | None => -1 end) W1 (GIs_trace s s1 TT G0)) as R.
    destruct (fst (do_poll_wait sc s1 3 (match rel with Some r => r | None => -1 end))) as [s2|s2]; cbn [RNI].
    + destruct R as [R1 R2]; [intros [D H]; apply TN; apply NZ; split; congruence|].
      split; [exact R1|]. intros N. apply R2. apply TN. exact N.
    + apply R. intros [D H]. apply TN. apply NZ. split; congruence.
Qed.

Lemma m_poll_G : forall s abs, WP sc s -> GIs s -> (Still s -> NZabs s abs) -> RNI s abs (fst (m_poll sc s abs)).
Proof.
  intros s abs W G NZ. unfold m_poll. destruct (is_epoll s) eqn:IE; [apply epoll_poll_G|apply poll_poll_G]; assumption.
Qed.

(* the wait was bounded by a timeout (rt = true) unless it was an epoll wait without one *)
Lemma epoll_poll_rt : forall s a, snd (epoll_poll sc s (Some a)) = true.
Proof.
  intros s a. unfold epoll_poll. cbv zeta.
  destruct (epoll_flush_pending _ s) as [s1|s1]; [|reflexivity].
  assert (RT0 : (if method s =? M_ET then true else true) = true) by (destruct (method s =? M_ET); reflexivity).
  destruct (epoll_wait_m sc s1 (Some a) _) as [s2 evs|s2|r]; cbn [snd]; [|exact RT0|reflexivity].
  destruct (epoll_process _ evs false false) as [[s4 re] tmr]. cbn [snd]. rewrite RT0. reflexivity.
Qed.

Lemma do_poll_wait_rt : forall s call t, snd (do_poll_wait sc s call t) = true.
Proof.
  intros. unfold do_poll_wait. destruct (wait_enter sc s); [|reflexivity]. cbv zeta.
  destruct (mem_z _ _); [reflexivity|]. destruct (k_poll_sleep _ _ _); reflexivity.
Qed.

Lemma poll_poll_rt : forall s abs, snd (poll_poll sc s abs) = true.
Proof.
  intros. unfold poll_poll. destruct (method s =? M_PP).
  - destruct (to_relative s abs) as [s1 rel]. destruct (no_ppoll _); [|apply do_poll_wait_rt].
    destruct (to_msec _ abs) as [s2 ms]. apply do_poll_wait_rt.
  - destruct (to_msec s abs) as [s2 ms]. apply do_poll_wait_rt.
Qed.

Lemma m_poll_rt : forall s abs, snd (m_poll sc s abs) = false -> abs = None.
Proof.
  intros s abs H. unfold m_poll in H. destruct (is_epoll s); [|rewrite poll_poll_rt in H; discriminate H].
  destruct abs as [a|]; [rewrite epoll_poll_rt in H; discriminate H|reflexivity].
Qed.

Lemma timeout_check_tsame : forall s abs s0 fl, timeout_check s abs = (R s0, fl) ->
  time s0 = time s /\ time_valid s0 = time_valid s /\ clock (kern s0) = clock (kern s).
Proof.
  intros s abs s0 fl. unfold timeout_check. cbv zeta.
  assert (ST : forall s1 d, tsame s1 (tfd_settime s1 d)).
  { intros s1 d. unfold tfd_settime, tsame. cbn [time time_valid kern emit set_trace set_kern].
    unfold k_timerfd_settime. destruct (k_open _ _); repeat split; reflexivity. }
  assert (SP : forall s1 a s2 b, set_poll_timeout s1 a = (R s2, b) -> tsame s1 s2).
  { intros s1 a s2 b. unfold set_poll_timeout. destruct (tfd s1 =? -1).
    - unfold k_timerfd_create. destruct (no_timerfd _); [intros E; inversion E; repeat split|].
      destruct (k_alloc (kern s1) K_TIMERFD) as [fd k1] eqn:KA. cbv zeta.
      destruct (ctl_retry _ CTL_ADD fd B_IN (-2)) as [s3 e] eqn:C. apply ctl_retry_time in C.
      destruct e; [discriminate|]. intros E. inversion E; subst.
      eapply tsame_trans; [|apply ST]. eapply tsame_trans; [|exact C].
      unfold tsame. cbn [time time_valid kern set_epoll set_kern]. unfold k_alloc in KA. inversion KA. repeat split.
    - intros E. inversion E; subst. apply ST. }
  destruct (_ && _); [intros E; inversion E; repeat split|].
  set (s1 := if last_abs_count s =? 5 then tfd_settime s 0 else s).
  assert (T1 : tsame s s1) by (unfold s1; destruct (last_abs_count s =? 5); [apply ST|apply tsame_refl]).
  destruct (abs_cmp abs (last_abs s) =? 0).
  - set (s2 := if last_abs_count s1 <? 5 then _ else s1).
    assert (T2 : tsame s s2) by (unfold s2; destruct (last_abs_count s1 <? 5); [eapply tsame_trans; [exact T1|repeat split]|exact T1]).
    destruct (last_abs_count s2 =? 5); [|intros E; inversion E; subst; exact T2].
    destruct abs as [a|]; [|intros E; inversion E; subst; exact T2].
    intros E. eapply tsame_trans; [exact T2|apply (SP _ _ _ _ E)].
  - destruct abs as [a|]; intros E; inversion E; subst; (eapply tsame_trans; [exact T1|repeat split]).
Qed.

Hypothesis DA : forall s a, InvW s -> wf_action a -> okr (StepW s) (do_action s a).

Lemma poll_and_run_G : forall s abs, WP sc s -> GIs s -> (Still s -> NZabs s abs) ->
  match fst (poll_and_run sc s abs) with
  | R s' => GIs s' /\ (snd (poll_and_run sc s abs) = false -> NotIdle s')
  | Halt s' => GIs s'
  end.
Proof.
  intros s abs W G0 NZ. unfold poll_and_run.
  (* the dispatch loop only runs callbacks *)
  assert (FIN : forall r (rt : bool) (B : Prop), (match r with R s1 => GIs s1 /\ (B -> NotIdle s1) | Halt s1 => GIs s1 end) ->
     match bind r (fun s0 => dispatch_active sc (S (length (active s0))) s0) with
     | R s' => GIs s' /\ (B -> NotIdle s') | Halt s' => GIs s' end).
  { intros r rt B P. destruct r as [s1|s1]; cbn [bind]; [|exact P]. destruct P as [G1 N1].
    pose proof (dispatch_active_exth sc (S (length (active s1))) s1) as T. unfold RExt in T.
    destruct (dispatch_active sc (S (length (active s1))) s1) as [s2|s2]; cbn [res_state] in T.
    - split; [apply (GIs_ext sc ch s1 s2 ch_nrs T G1)|]. intros HB. apply (NotIdle_ext ch s1 s2 ch_nrs T (N1 HB)).
    - apply (GIs_ext sc ch s1 s2 ch_nrs T G1). }
  assert (MP : forall s0 abs0, WP sc s0 -> GIs s0 -> (Still s0 -> NZabs s0 abs0) ->
     match fst (m_poll sc s0 abs0) with
     | R s1 => GIs s1 /\ (snd (m_poll sc s0 abs0) = false -> NotIdle s1) | Halt s1 => GIs s1 end).
  { intros s0 abs0 W0 H0 N0. pose proof (m_poll_G s0 abs0 W0 H0 N0) as R. pose proof (m_poll_rt s0 abs0) as RT.
    destruct (fst (m_poll sc s0 abs0)) as [s1|s1]; cbn [RNI] in *; [|exact R].
    destruct R as [R1 R2]. split; [exact R1|]. intros F. apply R2. left. apply RT. exact F. }
  destruct (Z.eqb_spec (method s) M_ET) as [ME|NME].
  2:{ pose proof (MP s abs W G0 NZ) as P. destruct (m_poll sc s abs) as [r rt]. cbn [fst snd] in *.
      apply (FIN r rt (rt = false)). exact P. }
  pose proof W as [I0 Hy A E Q].
  pose proof (timeout_check_ok sc WF DA s abs I0 ME) as T1.
  pose proof (timeout_check_post s abs (y_j _ _ _ Hy) ME) as T2.
  pose proof (timeout_check_st0 s abs) as T3.
  pose proof (timeout_check_nr s abs) as T4. unfold RExt in T4.
  pose proof (timeout_check_tsame s abs) as T5.
  pose proof (GIs_ext sc nr s _ nr_nrs T4 G0) as G1.
  destruct (timeout_check s abs) as [[s1|s1] b]; cbn [fst okr PostQ res_state] in *; [|exact G1].
  destruct T1 as (I1 & _). destruct T2 as (J1 & _ & Q1). destruct (T5 s1 b eq_refl) as (TM1 & TM2 & TM3).
  assert (W1 : WP sc s1) by (apply (WP_st0 sc s s1 W T3 J1 I1 Q1)).
  assert (NZ1 : Still s1 -> NZabs s1 abs).
  { intros S1. apply (NZabs_same s); [exact TM2|exact TM1|exact TM3|]. apply NZ. apply (Still_ext nr s s1 nr_nrs T4 S1). }
  destruct b.
  - pose proof (MP s1 None W1 G1 (fun _ => or_introl eq_refl)) as P.
    destruct (m_poll sc s1 None) as [r rt]. cbn [fst snd] in *.
    apply (FIN _ rt (rt = false)).
    destruct r as [s2|s2]; cbn [bind]; [|exact P]. destruct P as [P1 P2].
    destruct rt; [split; [apply (GIs_trace s2); [reflexivity|exact P1]|discriminate]|split; assumption].
  - pose proof (MP s1 abs W1 G1 NZ1) as P. destruct (m_poll sc s1 abs) as [r rt]. cbn [fst snd] in *.
    apply (FIN r rt (rt = false)). exact P.
Qed.

End Wait1103.
