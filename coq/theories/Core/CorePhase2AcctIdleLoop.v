(* CorePhase2AcctIdleLoop.v -- code 1103: the guard-monitor invariant GI along traces, and what it
   means for the loop when no callback ran: iv_run_timers has found no timer due and
   iv_run_tasks has left no task behind. *)
From Coq Require Import List ZArith Bool Lia.
From Ivv Require Import Core.Kernel Core.CoreTypes Core.CoreFd Core.CoreModel Core.CoreSpec Core.Monitors Core.GuardMon.
From Ivv Require Import Core.CoreInvBase Core.CoreInvDefs Core.CoreInvLoop.
From Ivv Require Import Core.CoreRelBase Core.CorePhase2FdMon.
From Ivv Require Import Core.CorePhase2AcctTr Core.CorePhase2AcctTr2 Core.CorePhase2AcctMon Core.CorePhase2AcctNc
  Core.CorePhase2AcctIdle.
From Ivv Require Timer.HeapModel Timer.HeapSpec Timer.HeapProofs Timer.HeapFacts.
Import ListNotations.
Local Open Scope Z_scope.

Definition nrs (e : tev) : Prop := match e with TRet (Some _) _ _ => False | _ => True end.

Lemma ch_nrs : forall e, ch e -> nrs e. Proof. intros e. destruct e; cbn; tauto. Qed.
Lemma ca_nrs : forall e, ca e -> nrs e. Proof. intros e. destruct e; cbn; tauto. Qed.

Section Loop.
Variable sc : scenario.

Definition GIs (s : core) : Prop := GI (gst sc s).
Definition idn (s : core) : bool := g_idle_now (gst sc s).
Definition gdn (s : core) : bool := g_done (gst sc s).

Lemma gst_ext : forall s s' l, trace s' = l ++ trace s -> gst sc s' = fold_left (gstep sc) (rev l) (gst sc s).
Proof. intros s s' l E. unfold gst, gmon_run. rewrite E, rev_app_distr, fold_left_app. reflexivity. Qed.

Lemma gst_trace : forall s s', trace s' = trace s -> gst sc s' = gst sc s.
Proof. intros s s' E. unfold gst. rewrite E. reflexivity. Qed.

Lemma GIs_ext : forall (P : tev -> Prop) s s', (forall e, P e -> nrs e) -> TrExt P s s' -> GIs s -> GIs s'.
Proof.
  intros P s s' Q (l & E & F) C. unfold GIs in *. rewrite (gst_ext s s' l E).
  assert (F' : Forall P (rev l)) by (apply Forall_rev; exact F).
  clear E F. revert C. generalize (gst sc s). induction (rev l) as [|e r IH]; intros g C; cbn [fold_left]; [exact C|].
  inversion F' as [|? ? Pe Pr]; subst. apply IH; [exact Pr|]. apply GI_step; [exact C|].
  apply Q in Pe. destruct e; try exact I. destruct n; [contradiction|exact I].
Qed.

(* still idle and not cut at the end: idle before, not cut before, and no callback in between *)
Lemma idle_ext : forall (P : tev -> Prop) s s', (forall e, P e -> nrs e) -> TrExt P s s' ->
  gdn s' = false -> idn s' = true -> gdn s = false /\ idn s = true.
Proof.
  intros P s s' Q (l & E & F). unfold gdn, idn. rewrite (gst_ext s s' l E).
  assert (F' : Forall P (rev l)) by (apply Forall_rev; exact F).
  clear E F. generalize (gst sc s). induction (rev l) as [|e r IH]; intros g D H; cbn [fold_left] in *; [tauto|].
  inversion F' as [|? ? Pe Pr]; subst. destruct (IH Pr _ D H) as [D1 H1].
  split; [apply (gstep_done sc g e D1)|]. apply (idle_now_keeps sc g e); [apply Q in Pe; destruct e; try exact I; exact Pe|exact H1].
Qed.

Lemma call_not_idle : forall (P : tev -> Prop) s e s', is_call e -> (forall x, P x -> nrs x) -> TrExt P (emit s e) s' ->
  gdn s' = false -> idn s' = true -> False.
Proof.
  intros P s e s' C Q T D H. destruct (idle_ext P _ _ Q T D H) as [D1 H1].
  unfold gdn, idn in *. rewrite gst_emit in D1, H1.
  pose proof (gstep_done sc _ _ D1) as D0.
  destruct (idle_now_keeps sc (gst sc s) e ltac:(destruct e; try exact I; contradiction) H1) as [_ NC]. exact (NC D0 C).
Qed.

(* ---------- "no callback ran": the dispatchers did nothing ---------- *)
Lemma script_call_idle : forall s e key s', is_call e -> run_script sc (emit s e) key = R s' ->
  forall s'' (P : tev -> Prop), (forall x, P x -> nrs x) -> TrExt P s' s'' -> gdn s'' = false -> idn s'' = true -> False.
Proof.
  intros s e key s' C E s'' P Q T D H.
  pose proof (run_script_exth sc (emit s e) key) as T1. unfold RExt in T1. rewrite E in T1. cbn [res_state] in T1.
  apply (call_not_idle nrs s e s'' C (fun x H => H)); [|exact D|exact H].
  eapply TrExt_trans; [eapply TrExt_weaken; [exact ch_nrs|exact T1]|eapply TrExt_weaken; [exact Q|exact T]].
Qed.

Lemma events_loop_idle : forall fuel s s', events_loop sc fuel s = R s' -> gdn s' = false -> idn s' = true ->
  ev_batch s = [] /\ s' = s.
Proof.
  intros fuel s s' E D H. destruct fuel as [|f]; cbn [events_loop] in E; destruct (ev_batch s) as [|ie rest] eqn:B;
    try (inversion E; subst; split; reflexivity); try discriminate E.
  exfalso. cbv zeta in E. set (s1 := set_evlists s (ev_pending s) rest) in *.
  destruct (run_script sc (emit s1 (TCallEvent ie)) (HK_E + ie)) as [s2|s2] eqn:RS; cbn [bind] in E; [|discriminate E].
  assert (T : TrExt ch s2 s').
  { destruct rest; [inversion E; subst; apply TrExt_refl|].
    pose proof (events_loop_exth sc f s2) as T. unfold RExt in T. rewrite E in T. exact T. }
  apply (script_call_idle s1 (TCallEvent ie) _ s2 I RS s' ch ch_nrs T D H).
Qed.

Lemma run_pending_events_idle : forall s s', run_pending_events sc s = R s' -> gdn s' = false -> idn s' = true ->
  ev_pending s = [] /\ s' = s.
Proof.
  intros s s' E D H. unfold run_pending_events in E. destruct (ev_pending s) as [|p0 p] eqn:B; [inversion E; subst; split; reflexivity|].
  exfalso. destruct (events_loop_idle _ _ _ E D H) as [X _]. discriminate X.
Qed.

Lemma timers_dispatch_idle : forall fuel s s', timers_dispatch sc fuel s = R s' -> gdn s' = false -> idn s' = true ->
  HeapModel.batch (heap s) = [] /\ s' = s.
Proof.
  intros fuel s s' E D H. destruct fuel as [|f]; cbn [timers_dispatch] in E; destruct (HeapModel.batch (heap s)) as [|t rest] eqn:B;
    try (inversion E; subst; split; reflexivity); try discriminate E.
  exfalso. cbv zeta in E.
  set (s1 := validate_now (set_heap s (HeapModel.set_idx (HeapModel.set_batch (heap s) rest) t (-1)))) in *.
  destruct (run_script sc (emit s1 (TCallTimer (Z.pos t - 1) (time s1))) (HK_T + (Z.pos t - 1))) as [s2|s2] eqn:RS; cbn [bind] in E; [|discriminate E].
  pose proof (timers_dispatch_exth sc f s2) as T. unfold RExt in T. rewrite E in T. cbn [res_state] in T.
  apply (script_call_idle s1 (TCallTimer (Z.pos t - 1) (time s1)) _ s2 I RS s' ch ch_nrs T D H).
Qed.

Lemma run_timers_idle : forall s s', InvW s -> HeapModel.batch (heap s) = [] -> run_timers sc s = R s' ->
  gdn s' = false -> idn s' = true ->
  tasks s' = tasks s /\ kern s' = kern s /\
  (HeapModel.num (heap s') = 0 \/
   (time_valid s' = true /\ (forall t e, HeapSpec.abs (heap s') t = Some e -> time s' < e) /\
    (time_valid s = false -> time s' = clock (kern s)))).
Proof.
  intros s s' I B E D H. unfold run_timers in E.
  destruct (Z.eqb_spec (HeapModel.num (heap s)) 0) as [Z0|NZ]; [inversion E; subst; split; [reflexivity|split; [reflexivity|left; exact Z0]]|].
  cbv zeta in E. set (s1 := validate_now s) in *.
  assert (H1 : heap s1 = heap s) by apply heap_validate.
  assert (TV1 : time_valid s1 = true) by (unfold s1, validate_now; destruct (time_valid s) eqn:X; [exact X|reflexivity]).
  destruct (HeapProofs.heap_collect_ok (heap s1) (time s1)) as (h' & C & HI' & _ & _ & AB & _).
  { rewrite H1. apply (iw_heap _ I). }
  { rewrite H1. exact B. }
  rewrite C in E. unfold lift_heap in E. cbn [bind] in E.
  destruct (timers_dispatch_idle _ _ _ E D H) as [_ ->].
  split; [unfold s1, validate_now; destruct (time_valid s); reflexivity|].
  split; [unfold s1, validate_now; destruct (time_valid s); reflexivity|]. right.
  split; [exact TV1|]. split; [intros t e A; apply (AB t e A)|].
  intros TV0. cbn [time set_numobjs set_heap]. unfold s1, validate_now. rewrite TV0. reflexivity.
Qed.

Lemma tasks_loop_idle : forall fuel s s', tasks_loop sc fuel s = R s' -> gdn s' = false -> idn s' = true ->
  tasks s' = tasks s /\ heap s' = heap s /\ time s' = time s /\ time_valid s' = time_valid s /\ kern s' = kern s.
Proof.
  induction fuel as [|f IH]; intros s s' E D H; cbn [tasks_loop] in E.
  { destruct (cur s) as [[|k rest]|] eqn:C; [inversion E; subst; repeat split; reflexivity|unfold halt in E; inversion E|inversion E; subst; repeat split; reflexivity]. }
  destruct (cur s) as [[|k rest]|] eqn:C; [inversion E; subst; repeat split; reflexivity| |inversion E; subst; repeat split; reflexivity].
  cbv zeta in E.
  match type of E with context [run_pending_events sc ?X] => set (s1 := X) in * end.
  destruct (k =? LOCAL_TASK).
  - destruct (run_pending_events sc s1) as [s2|s2] eqn:RP; cbn [bind] in E; [|discriminate E].
    pose proof (tasks_loop_exth sc f s2) as T. unfold RExt in T. rewrite E in T. cbn [res_state] in T.
    destruct (idle_ext ch s2 s' ch_nrs T D H) as [D2 H2].
    destruct (run_pending_events_idle _ _ RP D2 H2) as [_ ->].
    destruct (IH s1 s' E D H) as (A1 & A2 & A3 & A4 & A5). repeat split; assumption.
  - exfalso. destruct (run_script sc (emit s1 (TCallTask k)) (HK_K + k)) as [s2|s2] eqn:RS; cbn [bind] in E; [|discriminate E].
    pose proof (tasks_loop_exth sc f s2) as T. unfold RExt in T. rewrite E in T. cbn [res_state] in T.
    apply (script_call_idle s1 (TCallTask k) _ s2 I RS s' ch ch_nrs T D H).
Qed.

Lemma run_tasks_idle : forall s s', run_tasks sc s = R s' -> gdn s' = false -> idn s' = true ->
  tasks s' = [] /\ heap s' = heap s /\ time s' = time s /\ time_valid s' = time_valid s /\ kern s' = kern s.
Proof.
  intros s s' E D H. unfold run_tasks in E. cbv zeta in E. apply (tasks_loop_idle _ _ _ E D H).
Qed.

End Loop.
