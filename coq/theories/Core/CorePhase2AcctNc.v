(* CorePhase2AcctNc.v -- code 707, tracker side: `need_call` is set when a kernel wait reports a
   user descriptor and cleared by any callback; while it is set, the list `expect` of callbacks
   still owed is not empty, provided the events obey `okev`. *)
From Coq Require Import List ZArith Bool Lia.
From Ivv Require Import Core.Kernel Core.CoreTypes Core.CoreFd Core.Monitors Core.CorePhase2AcctMon.
Import ListNotations.
Local Open Scope Z_scope.

Definition S7 : list Z := [707].

Lemma nc_chk : forall m b c, need_call (chk m b c) = need_call m.
Proof. intros. unfold chk, m_fail. destruct b; reflexivity. Qed.
Lemma ex_chk : forall m b c, expect (chk m b c) = expect m.
Proof. intros. unfold chk, m_fail. destruct b; reflexivity. Qed.
Lemma nc_on_call : forall m, need_call (on_call m) = false. Proof. reflexivity. Qed.
Lemma nc_close : forall m, need_call (close_iteration m) = false. Proof. reflexivity. Qed.

Definition is_call (e : tev) : Prop :=
  match e with TCallFd _ _ _ _ | TCallTimer _ _ | TCallTask _ | TCallEvent _ | TCallRaw _ => True | _ => False end.

Lemma nc_call : forall m e, is_call e -> need_call (mon_step m e) = false.
Proof.
  intros m e C. destruct e; try contradiction; unfold mon_step; cbv zeta;
    cbn [need_call m_iter m_tms m_tks m_evs m_rws]; rewrite ?nc_chk; reflexivity.
Qed.

Lemma nc_wait : forall m n c mx t i g, need_call (mon_step m (TWait n c mx t i g)) = false.
Proof. intros. unfold mon_step. cbv zeta. cbn [need_call m_wait]. rewrite !nc_chk. reflexivity. Qed.
Lemma nc_end : forall m q n, need_call (mon_step m (TEnd q n)) = false.
Proof. intros. unfold mon_step. cbv zeta. cbn [need_call m_loop]. rewrite !nc_chk. reflexivity. Qed.

Definition userfd (fd : Z) : bool := (100 <=? fd) && (fd <? 116).

Lemma nc_ret : forall m n fds clk,
  need_call (mon_step m (TRet (Some n) fds clk)) = existsb userfd fds /\
  expect (mon_step m (TRet (Some n) fds clk)) =
    filter (fun p => mem_z (100 + fst p) fds) (ready_wanted m (w_gnd m)).
Proof. intros. unfold mon_step. cbv zeta. cbn [need_call expect m_iter]. split; reflexivity. Qed.

(* events that leave both fields alone *)
Definition fdmod (a : action) : Prop := match a with AFdUnreg _ | AFdSetH _ _ _ => True | _ => False end.

Definition plain7 (e : tev) : Prop :=
  match e with
  | TCallFd _ _ _ _ | TCallTimer _ _ | TCallTask _ | TCallEvent _ | TCallRaw _ => False
  | TWait _ _ _ _ _ _ | TEnd _ _ | TRet (Some _) _ _ => False
  | TAct a => ~ fdmod a
  | _ => True
  end.

Lemma nc_action : forall m a, need_call (mon_action m a) = need_call m.
Proof. intros m a. destruct a; reflexivity. Qed.
Lemma ex_action : forall m a, ~ fdmod a -> expect (mon_action m a) = expect m.
Proof. intros m a F. destruct a; try reflexivity; exfalso; apply F; exact I. Qed.

Lemma plain7_same : forall m e, plain7 e -> need_call (mon_step m e) = need_call m /\ expect (mon_step m e) = expect m.
Proof.
  intros m e P. destruct e; try contradiction; try (split; reflexivity).
  - destruct n; [contradiction|]. unfold mon_step. cbv zeta. cbn [need_call expect m_iter m_loop]. rewrite nc_chk, ex_chk. split; reflexivity.
  - cbn [mon_step]. split; [apply nc_action|apply ex_action; exact P].
  - unfold mon_step. repeat match goal with |- context [if ?c then _ else _] => destruct c end; split; reflexivity.
  - unfold mon_step. rewrite nc_chk, ex_chk. split; reflexivity.
  - unfold mon_step. rewrite nc_chk, ex_chk. split; reflexivity.
  - unfold mon_step. cbv zeta. rewrite !nc_chk, !ex_chk. split; reflexivity.
Qed.

(* ---------- the invariant ---------- *)
Definition N7 (m : mon) : Prop := need_call m = true -> expect m <> [].

Definition okev (m : mon) (e : tev) : Prop :=
  match e with
  | TRet (Some n) fds _ =>
      existsb userfd fds = true -> filter (fun p => mem_z (100 + fst p) fds) (ready_wanted m (w_gnd m)) <> []
  | TAct a => fdmod a -> need_call m = false
  | TWait _ _ _ _ _ _ | TEnd _ _ => expect m = []
  | _ => True
  end.

Lemma N7_step : forall m e, N7 m -> okev m e -> N7 (mon_step m e).
Proof.
  intros m e N O. unfold N7.
  destruct e; try (match goal with |- context [mon_step m ?e] => destruct (plain7_same m e I) as [A B]; rewrite A, B; exact N end).
  - match goal with |- context [mon_step m ?e] => rewrite (nc_call m e I) end. discriminate.
  - match goal with |- context [mon_step m ?e] => rewrite (nc_call m e I) end. discriminate.
  - match goal with |- context [mon_step m ?e] => rewrite (nc_call m e I) end. discriminate.
  - match goal with |- context [mon_step m ?e] => rewrite (nc_call m e I) end. discriminate.
  - match goal with |- context [mon_step m ?e] => rewrite (nc_call m e I) end. discriminate.
  - rewrite nc_wait. discriminate.
  - destruct n as [n|].
    + destruct (nc_ret m n fds clk) as [A B]. rewrite A, B. exact O.
    + destruct (plain7_same m (TRet None fds clk) I) as [A B]. rewrite A, B. exact N.
  - cbn [mon_step]. rewrite nc_action. intros NC.
    assert (NF : ~ fdmod a) by (intros F; rewrite (O F) in NC; discriminate NC).
    rewrite (ex_action m a NF). apply N. exact NC.
  - rewrite nc_end. discriminate.
Qed.

(* ---------- code 707 ---------- *)
Lemma Sub_close7 : forall m l, need_call m = false -> In 204 l -> In 711 l -> Sub (close_iteration m) m l.
Proof.
  intros m l NC I1 I3. unfold close_iteration. cbv zeta.
  repeat strip.
  apply Sub_chk_t; [exact I3|].
  rewrite nc_chk, NC. cbn [negb]. unfold chk at 1. apply Sub_chk; exact I1.
Qed.

Lemma clean7_wait : forall m n c mx t i g, need_call m = false -> Clean S7 m -> Clean S7 (mon_step m (TWait n c mx t i g)).
Proof.
  intros m n c mx t i g NC C x H.
  assert (S : Sub (mon_step m (TWait n c mx t i g)) m [204; 711; 201; 704]).
  { unfold mon_step. cbv zeta. repeat strip.
    apply Sub_chk_t; [cbn; tauto|]. apply Sub_chk_t; [cbn; tauto|]. apply Sub_close7; [exact NC|cbn; tauto|cbn; tauto]. }
  destruct (S x H) as [H1|H1]; [apply C; exact H1|]. intros [<-|[]]. cbn in H1. intuition discriminate.
Qed.

Lemma clean7_end : forall m q n, need_call m = false -> Clean S7 m -> Clean S7 (mon_step m (TEnd q n)).
Proof.
  intros m q n NC C x H.
  assert (S : Sub (mon_step m (TEnd q n)) m [204; 711; 701; 702; 703]).
  { unfold mon_step. cbv zeta. repeat strip.
    apply Sub_chk_t; [cbn; tauto|]. apply Sub_chk_t; [cbn; tauto|]. apply Sub_chk_t; [cbn; tauto|].
    apply Sub_close7; [exact NC|cbn; tauto|cbn; tauto]. }
  destruct (S x H) as [H1|H1]; [apply C; exact H1|]. intros [<-|[]]. cbn in H1. intuition discriminate.
Qed.

Lemma quiet7 : forall e, match e with TWait _ _ _ _ _ _ | TEnd _ _ => False | _ => True end -> quiet_for S7 e.
Proof.
  intros e Q c Hc Hs. destruct e; try contradiction; try destruct n;
    cbn [ev_codes In S7] in *; intuition (subst; discriminate).
Qed.

Definition H7 (m : mon) : Prop := Clean S7 m /\ N7 m.

Lemma H7_step : forall m e, H7 m -> okev m e -> H7 (mon_step m e).
Proof.
  intros m e [C N] O. split; [|apply N7_step; assumption].
  assert (CL : forall (P : expect m = []), need_call m = false).
  { intros P. destruct (need_call m) eqn:X; [|reflexivity]. exfalso. apply (N X). exact P. }
  destruct e; try (apply Clean_step; [apply quiet7; exact I|exact C]).
  - apply clean7_wait; [apply CL; exact O|exact C].
  - apply clean7_end; [apply CL; exact O|exact C].
Qed.

(* with need_call clear, every event except a wait return is harmless *)
Definition HN (m : mon) : Prop := H7 m /\ need_call m = false.

Definition nr (e : tev) : Prop :=       (* no wait return, no iteration boundary *)
  match e with TRet (Some _) _ _ | TWait _ _ _ _ _ _ | TEnd _ _ => False | _ => True end.

Lemma HN_step : forall m e, HN m -> nr e -> HN (mon_step m e).
Proof.
  intros m e [H NC] Q. split.
  - apply H7_step; [exact H|]. destruct e; try exact I; try contradiction.
    + destruct n; [contradiction|exact I].
    + cbn [okev]. intros _. exact NC.
  - destruct e; try contradiction; try (match goal with |- context [mon_step m ?e] => apply (nc_call m e I) end);
      try (match goal with |- context [mon_step m ?e] => rewrite (proj1 (plain7_same m e I)); exact NC end).
    + destruct n; [contradiction|]. rewrite (proj1 (plain7_same m (TRet None fds clk) I)). exact NC.
    + cbn [mon_step]. rewrite nc_action. exact NC.
Qed.
