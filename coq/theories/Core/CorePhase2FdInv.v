(* CorePhase2FdInv.v -- the invariant of the dispatch clauses (codes 204 303 304):
   M relates the dispatch list, the ready bands and handled_fd of the model to the
   tracker's w_gnd / called / expect; MF is the frame every handler script obeys. *)
From Coq Require Import List ZArith Bool Lia.
From Ivv Require Import Core.Kernel Core.CoreTypes Core.CoreFd Core.CoreModel Core.Monitors Core.GuardMon Core.CoreSpec
  Core.CoreInvBase Core.CorePhase2FdBase Core.CorePhase2FdMon Core.CorePhase2FdStep.
From Ivv Require Import Core.CoreRel.
Import ListNotations.
Local Open Scope Z_scope.

(* ---------- silent trace extensions ---------- *)
Lemma mon_run_sil : forall evs tr, Forall sil evs ->
  tv (mon_run (rev (evs ++ tr))) = tv (mon_run (rev tr)) /\
  (Good2 (mon_run (rev tr)) -> Good2 (mon_run (rev (evs ++ tr)))).
Proof.
  induction evs as [|e evs IH]; intros tr F; [split; auto|].
  inversion F as [|? ? S F']; subst. destruct (IH tr F') as [A B].
  cbn [app rev]. rewrite mon_run_snoc. split.
  - rewrite sil_tv by assumption. exact A.
  - intros G. apply sil_good; [assumption|apply B; assumption].
Qed.

Lemma gmon_run_sil : forall sc evs tr, Forall sil evs ->
  ~ In 1104 (g_fails (gmon_run sc (rev tr))) -> ~ In 1104 (g_fails (gmon_run sc (rev (evs ++ tr)))).
Proof.
  intros sc. induction evs as [|e evs IH]; intros tr F N; [exact N|].
  inversion F as [|? ? S F']; subst. cbn [app rev]. rewrite gmon_run_snoc.
  intro H. apply (IH tr F' N). revert H. apply gstep_nf.
  intros n c mx t i gd E. subst e. destruct S.
Qed.

Lemma TrExt_tv : forall s s', TrExt s s' -> tv (mst s') = tv (mst s).
Proof. intros s s' (evs & E & F). unfold mst. rewrite E. apply mon_run_sil. exact F. Qed.

Lemma TrExt_G2 : forall sc s s', TrExt s s' -> G2 sc s -> G2 sc s'.
Proof.
  intros sc s s' (evs & E & F) [A B]. unfold G2, mst, gst in *. rewrite E. split.
  - apply mon_run_sil; assumption.
  - apply gmon_run_sil; assumption.
Qed.

Lemma tv_fields : forall m m', tv m' = tv m -> w_gnd m' = w_gnd m /\ called m' = called m /\ expect m' = expect m.
Proof. intros m m' H. unfold tv in H. inversion H. auto. Qed.

(* ---------- the dispatch invariant ---------- *)
(* kt = (key being dispatched, bands still to be dispatched for it) *)
Definition slot (kt : Z * list Z) (s : core) (i b : Z) : Prop :=
  In i (active s) \/ (i = fst kt /\ handled s = Some i /\ In b (snd kt)).

Record M (kt : Z * list Z) (s : core) : Prop := {
  m_nd : NoDup (active s);
  m_d : forall i b, slot kt s i b -> 0 <= i < 16 -> has (ready (fdt s i)) (bbit b) = true ->
        band_holds b (gnd_of (w_gnd (mst s)) i) = true;
  m_c : forall i b, In (i, b) (called (mst s)) -> ~ slot kt s i b;
  m_e : forall i b, In (i, b) (expect (mst s)) ->
        0 <= i < 16 /\ 0 <= b <= 2 /\ registered (fdt s i) = true /\ hnd (fdt s i) b <> None /\
        has (ready (fdt s i)) (bbit b) = true /\ slot kt s i b }.

Record MF (s s' : core) : Prop := {
  mf_w : w_gnd (mst s') = w_gnd (mst s);
  mf_c : called (mst s') = called (mst s);
  mf_nd : NoDup (active s) -> NoDup (active s');
  mf_act : forall i, In i (active s') -> In i (active s);
  mf_hd : handled s' = handled s \/ handled s' = None;
  mf_rd : forall i, In i (active s') \/ handled s' = Some i -> ready (fdt s' i) = ready (fdt s i);
  mf_e : forall i b, In (i, b) (expect (mst s')) ->
         In (i, b) (expect (mst s)) /\
         (0 <= i < 16 -> 0 <= b <= 2 -> registered (fdt s i) = true ->
          registered (fdt s' i) = true /\ hnd (fdt s' i) b = hnd (fdt s i) b /\
          (In i (active s) -> In i (active s')) /\ (handled s = Some i -> handled s' = Some i)) }.

Lemma MF_refl : forall s, MF s s.
Proof. intros s. constructor; auto. Qed.

Lemma MF_trans : forall a b c, MF a b -> MF b c -> MF a c.
Proof.
  intros a b c [A1 A2 A3 A4 A5 A6 A7] [B1 B2 B3 B4 B5 B6 B7]. constructor; try congruence; auto.
  - destruct B5 as [B5|B5]; [rewrite B5; exact A5|auto].
  - intros i H. rewrite B6 by assumption. apply A6.
    destruct H as [H|H]; [left; auto|]. right. destruct B5 as [B5|B5]; congruence.
  - intros i x H. destruct (B7 i x H) as [H1 H2]. destruct (A7 i x H1) as [H3 H4]. split; [assumption|].
    intros R BB G. destruct (H4 R BB G) as (P1 & P2 & P3 & P4). destruct (H2 R BB P1) as (Q1 & Q2 & Q3 & Q4).
    split; [assumption|]. split; [congruence|]. split; auto.
Qed.

Lemma M_MF : forall kt s s', M kt s -> MF s s' -> M kt s'.
Proof.
  intros kt s s' [M1 M2 M3 M4] [F1 F2 F3 F4 F5 F6 F7].
  assert (SL : forall i b, slot kt s' i b -> slot kt s i b /\ ready (fdt s' i) = ready (fdt s i)).
  { intros i b [H|(H1 & H2 & H3)].
    - split; [left; auto|apply F6; left; assumption].
    - split; [|apply F6; right; assumption]. right. split; [assumption|]. split; [|assumption].
      destruct F5 as [F5|F5]; congruence. }
  constructor.
  - auto.
  - intros i b S R H. destruct (SL i b S) as [S0 RD]. rewrite F1. rewrite RD in H. eauto.
  - intros i b H S. rewrite F2 in H. destruct (SL i b S) as [S0 _]. exact (M3 i b H S0).
  - intros i b H. destruct (F7 i b H) as [H1 H2]. destruct (M4 i b H1) as (R & BB & G & HN & RD & S).
    destruct (H2 R BB G) as (P1 & P2 & P3 & P4).
    assert (S' : slot kt s' i b).
    { destruct S as [S|(S1 & S2 & S3)]; [left; auto|right; auto]. }
    destruct (SL i b S') as [_ RD']. rewrite RD', P2. splits; try assumption; lia.
Qed.

Lemma MF_emit_sil : forall s e, sil e -> MF s (emit s e).
Proof.
  intros s e S. pose proof (tv_fields _ _ (eq_trans (f_equal tv (mst_emit s e)) (sil_tv (mst s) e S))) as (T1 & T2 & T3).
  constructor; sp; auto. intros i b H. rewrite T3 in H. split; [assumption|]. auto.
Qed.

(* a state that differs only in fields the clauses do not read *)
Lemma MF_same : forall s s', trace s' = trace s -> fdt s' = fdt s -> active s' = active s -> handled s' = handled s -> MF s s'.
Proof.
  intros s s' T F A H. assert (E : mst s' = mst s) by (apply mst_trace; assumption).
  constructor; rewrite ?E, ?F, ?A, ?H; auto.
Qed.

(* ---------- one executed action ---------- *)
Lemma mst_cons : forall s s0 e, trace s0 = e :: trace s -> mst s0 = mon_step (mst s) e.
Proof. intros s s0 e T. unfold mst. rewrite T. cbn [rev]. apply mon_run_snoc. Qed.

Lemma Log_mst : forall a s s0, Log a s s0 ->
  tv (mst s0) = (w_gnd (mst s), called (mst s), expect_after a (expect (mst s))) /\
  (forall sc, G2 sc s -> G2 sc s0).
Proof.
  intros a s s0 [(a' & T & V) _ _ _ _]. split.
  - rewrite (mst_cons s s0 _ T). cbn [mon_step]. apply V.
  - intros sc G. apply (G2_trace sc (emit s (TAct a'))); [exact T|apply G2_act; exact G].
Qed.

Lemma guard_unreg : forall a s, FdX s -> wf_action a -> aw a = true -> guardf a s -> registered (fdt s (ak a)) = false.
Proof.
  intros a s X W A G. destruct a; try discriminate A; cbn [guardf ak wf_action] in *; try exact G.
  - destruct (registered (fdt s 32)) eqn:R; [|reflexivity]. exfalso.
    pose proof (fx_raw s X 16 ltac:(lia) R) as K. destruct (fx_kick s X K) as [_ N]. contradiction.
  - unfold RAW_KEY. destruct (registered (fdt s (16 + j))) eqn:R; [|reflexivity].
    unfold ok_idx in W. rewrite (fx_raw s X j ltac:(lia) R) in G. discriminate G.
Qed.

Lemma expect_after_in : forall a l p, In p (expect_after a l) -> In p l.
Proof.
  intros a l p H. destruct a; cbn [expect_after] in H; try exact H.
  - unfold remove_obj in H. apply filter_In in H. tauto.
  - unfold remove_pair in H. apply filter_In in H. tauto.
Qed.

Lemma expect_after_key : forall a l b, wf_action a -> aw a = false -> 0 <= ak a < 16 ->
  In (ak a, b) (expect_after a l) -> exists bb h, a = AFdSetH (ak a) bb h /\ b <> bb /\ 0 <= bb <= 2.
Proof.
  intros a l b W A K H. destruct a; try discriminate A; cbn [ak expect_after wf_action] in *; try lia.
  - unfold remove_obj in H. apply filter_In in H. destruct H as [_ H]. cbn [fst] in H. rewrite Z.eqb_refl in H. discriminate H.
  - unfold remove_pair in H. apply filter_In in H. destruct H as [_ H]. unfold pair_eqb in H. cbn [fst snd] in H.
    rewrite Z.eqb_refl in H. cbn [andb] in H. exists band, h. split; [reflexivity|]. split; [|tauto].
    intros ->. rewrite Z.eqb_refl in H. discriminate H.
  - unfold RAW_KEY, ok_idx in *. lia.
Qed.

Lemma hnd_rsame : forall f' f b, rsame f' f -> hnd f' b = hnd f b.
Proof. intros f' f b (_ & _ & A & B & C & _). unfold hnd. rewrite A, B, C. reflexivity. Qed.

Lemma hnd_seth : forall f b bb h, 0 <= b <= 2 -> 0 <= bb <= 2 -> b <> bb -> hnd (seth f bb h) b = hnd f b.
Proof.
  intros f b bb h B BB N.
  assert (HB : b = 0 \/ b = 1 \/ b = 2) by lia.
  assert (HBB : bb = 0 \/ bb = 1 \/ bb = 2) by lia.
  destruct HB as [HB|[HB|HB]]; destruct HBB as [HBB|[HBB|HBB]]; subst; try contradiction; reflexivity.
Qed.

Lemma MF_step : forall a s s0 s', StepOf a s s0 s' -> wf_action a -> FdI s (-1) -> FdX s -> MF s s'.
Proof.
  intros a s s0 s' (L & D & SH) W I X.
  destruct (Log_mst a s s0 L) as [TV0 _]. destruct L as [_ LF LA LH _].
  assert (T : ST true (ak a) s0 s' /\ ((aw a = false \/ 16 <= ak a) \/ registered (fdt s (ak a)) = false) /\
              (aw a = false -> ST false (ak a) s0 s')).
  { destruct D as [[D AW]|(D & AW & G)].
    - split; [apply ST_weaken; exact D|]. split; [|intros _; exact D]. left. destruct (aw a); [right; auto|left; reflexivity].
    - split; [exact D|]. split; [right; apply guard_unreg; assumption|]. intros Q. congruence. }
  destruct T as (T & UNR & TF). destruct T as [T1 [T2 _] T3 T4 T5 _].
  pose proof (tv_fields _ _ (TrExt_tv s0 s' T5)) as (V1 & V2 & V3).
  unfold tv in TV0. injection TV0 as W0 C0 E0.
  rewrite LA in T3. rewrite LH in T4. rewrite LF in T1.
  assert (ACT : forall i, In i (active s') -> In i (active s)).
  { intros i H. destruct T3 as [Q|Q]; rewrite Q in H; [exact H|]. apply In_remz in H. tauto. }
  assert (REGA : forall i, In i (active s') \/ handled s' = Some i -> registered (fdt s i) = true /\ 0 <= i).
  { intros i [H|H].
    - destruct (fi_active s (-1) I i (ACT i H)) as [R0 R1]. split; [apply R1|]; lia.
    - assert (H0 : handled s = Some i) by (destruct T4 as [Q|[Q1 Q2]]; congruence).
      destruct (fi_handled s (-1) I i H0) as [R0 R1]. split; [apply R1|]; lia. }
  constructor.
  - congruence.
  - congruence.
  - intros ND. destruct T3 as [Q|Q]; rewrite Q; [exact ND|apply NoDup_remz; exact ND].
  - exact ACT.
  - destruct T4 as [Q|[Q1 Q2]]; auto.
  - intros i H. destruct (REGA i H) as [RG P].
    destruct (Z.eq_dec i (ak a)) as [->|N]; [|apply (T1 i N)].
    destruct (aw a) eqn:AW.
    + destruct UNR as [[Q|Q]|Q]; [discriminate Q| |congruence].
      (* raw / event key: ready of the key may be rewritten, but then it was unregistered *)
      destruct D as [[D _]|(D & _ & G)]; [rewrite <- LF; apply (proj2 (st_fdk _ _ _ _ D)); reflexivity|].
      pose proof (guard_unreg a s X W AW G). congruence.
    + rewrite <- LF. apply (proj2 (st_fdk _ _ _ _ (TF eq_refl))). reflexivity.
  - intros i b H. rewrite V3, E0 in H. split; [eapply expect_after_in; exact H|].
    intros R BB RG.
    destruct (Z.eq_dec i (ak a)) as [EK|N].
    + subst i. destruct UNR as [[Q|Q]|Q]; [|lia|congruence].
      destruct (expect_after_key a _ b W Q R H) as (bb & h & EA & NB & BBB).
      pose proof (SH _ _ _ EA) as S0. destruct S0 as [F1 F2 F3 _ _].
      pose proof (F1 (ak a)) as RS. cbn [putfd fdt set_fdt] in RS. unfold upd in RS. rewrite Z.eqb_refl in RS.
      rewrite LF in RS. split; [|split; [|split]].
      * destruct RS as (_ & RR & _). rewrite RR. unfold seth. destruct (bb =? 0); [exact RG|]. destruct (bb =? 1); exact RG.
      * rewrite (hnd_rsame _ _ b RS). apply hnd_seth; assumption.
      * intros IA. rewrite F2. cbn [putfd active set_fdt]. rewrite LA. exact IA.
      * intros HH. rewrite F3. cbn [putfd handled set_fdt]. rewrite LH. exact HH.
    + pose proof (T1 i N) as RS. split; [|split; [|split]].
      * destruct RS as (_ & RR & _). congruence.
      * apply hnd_rsame. exact RS.
      * intros IA. destruct T3 as [Q|Q]; rewrite Q; [exact IA|]. apply In_remz. tauto.
      * intros HH. destruct T4 as [Q|[Q1 Q2]]; congruence.
Qed.

Lemma StepOf_ST : forall a s s0 s', StepOf a s s0 s' -> ST true (ak a) s0 s'.
Proof. intros a s s0 s' (_ & [[D _]|(D & _)] & _); [apply ST_weaken|]; exact D. Qed.

Lemma ST_UF : forall w k s s', ST w k s s' -> UF s -> UF s'.
Proof.
  intros w k s s' [A [B _] _ _ _ _] U i R. destruct (Z.eq_dec i k) as [->|N].
  - rewrite B by assumption. apply U. assumption.
  - destruct (A i N) as (_ & _ & _ & _ & _ & F). rewrite F. apply U. assumption.
Qed.

Lemma ST0_UF : forall s s', ST0 s s' -> UF s -> UF s'.
Proof. intros s s' H. apply (ST_UF true 0). apply ST0_ST. exact H. Qed.

(* ST0 steps are frames *)
Lemma MF_ST0 : forall s s', ST0 s s' -> MF s s'.
Proof.
  intros s s' [A B C D _]. pose proof (tv_fields _ _ (TrExt_tv s s' D)) as (V1 & V2 & V3).
  constructor; rewrite ?B, ?C; auto.
  - intros i _. apply (A i).
  - intros i b H. rewrite V3 in H. split; [exact H|]. intros _ _ RG. pose proof (A i) as RS.
    split; [destruct RS as (_ & RR & _); congruence|]. split; [apply hnd_rsame; exact RS|auto].
Qed.

Section Pass.
Variable sc : scenario.
Hypothesis WF : wf_scenario sc.

Record Y (b : bool) (s : core) : Prop := {
  y_j : J b s;
  y_kx : KX (kern s);
  y_uf : UF s;
  y_g : G2 sc s }.

Definition PostY (b : bool) (s : core) (r : res) : Prop :=
  match r with R s' => Y b s' /\ MF s s' /\ Fr s s' | Halt s' => G2 sc s' end.

Lemma PostY_bind : forall b s r f, PostY b s r ->
  (forall s1, Y b s1 -> MF s s1 -> Fr s s1 -> PostY b s1 (f s1)) -> PostY b s (bind r f).
Proof.
  intros b s r f P K. destruct r as [s1|s1]; cbn [bind PostY] in *; [|exact P].
  destruct P as (Y1 & M1 & F1). pose proof (K s1 Y1 M1 F1) as P2.
  destruct (f s1) as [s2|s2]; cbn [PostY] in *; [|exact P2].
  destruct P2 as (Y2 & M2 & F2). split; [exact Y2|]. split; [eapply MF_trans; eassumption|eapply Fr_trans; eassumption].
Qed.

Lemma PostY_same : forall b s, Y b s -> PostY b s (R s).
Proof. intros b s H. split; [exact H|]. split; [apply MF_refl|apply Fr_refl]. Qed.

Lemma PostY_base : forall b s0 s r, MF s0 s -> Fr s0 s -> PostY b s r -> PostY b s0 r.
Proof.
  intros b s0 s r M0 F0 P. destruct r as [s1|s1]; cbn [PostY] in *; [|exact P].
  destruct P as (Y1 & M1 & F1). split; [exact Y1|]. split; [eapply MF_trans; eassumption|eapply Fr_trans; eassumption].
Qed.

Theorem do_action_Y : forall b s a, Y b s -> wf_action a -> PostY b s (do_action s a).
Proof.
  intros b s a [Jh KX0 U G] W.
  pose proof (do_action_post b s a Jh W) as P.
  destruct (do_action_st s a W U) as [E|(s0 & SO)].
  - destruct (do_action s a) as [s'|s']; cbn [res_state] in E; subst s'; cbn [PostY Post] in *.
    + destruct P as [J1 F1]. split; [constructor; assumption|]. split; [apply MF_refl|exact F1].
    + exact G.
  - pose proof (StepOf_ST _ _ _ _ SO) as T.
    pose proof SO as (L & _ & _). destruct (Log_mst a s s0 L) as [_ G0].
    assert (G' : G2 sc (res_state (do_action s a))) by (eapply TrExt_G2; [apply (st_tr _ _ _ _ T)|apply G0; exact G]).
    destruct (do_action s a) as [s'|s']; cbn [res_state PostY Post] in *; [|exact G'].
    destruct P as [J1 F1]. split; [|split; [|exact F1]].
    + constructor; [exact J1| | |exact G'].
      * apply (st_kx _ _ _ _ T). rewrite (lg_kern _ _ _ L). exact KX0.
      * apply (ST_UF _ _ _ _ T). intros i R. rewrite (lg_fdt _ _ _ L). apply U. exact R.
    + eapply MF_step; [exact SO|exact W|apply (j_fd _ _ Jh)|apply (j_fx _ _ Jh)].
Qed.

Lemma run_acts_Y : forall b l s, Y b s -> Forall wf_action l -> PostY b s (run_acts s l).
Proof.
  intros b l. induction l as [|a l IH]; intros s H F; cbn [run_acts]; [apply PostY_same; exact H|].
  inversion F as [|? ? W F']; subst.
  eapply PostY_bind; [apply do_action_Y; assumption|]. intros s1 Y1 _ _. apply IH; assumption.
Qed.

End Pass.
