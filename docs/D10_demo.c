/* D10 (fixed): cross-pool continuation lost when the target pool is put while it has no thread.
 * pool B (max 1): item0 submitted by the owner; its completion (owner thread) blocks 11 s, so B's only thread idles
 * out (10 s) and dies.  At t ~ 10.5 s a worker of pool A submits item1 to pool B as a continuation: no idle thread,
 * started_threads (0) < max_threads, not the owner => only iv_event_post(&pool->thread_needed).  The completion of
 * item0 then calls iv_work_pool_put(B).  iv_work_event sees shutting_down && !started_threads && work_done empty and
 * frees pool B with item1 still queued.  exit 0: item1 ran and completed; exit 1: item1 lost. */
#include <stdio.h>
#include <stdlib.h>
#include <unistd.h>
#include <iv.h>
#include <iv_work.h>

static struct iv_work_pool A, B;
static struct iv_work_item item0, item1, itemA;
static int ran1, done1;
static struct iv_timer guard;

static void work0(void *c) { }
static void compl0(void *c)
{
	sleep(11);			/* the owner is busy for longer than the idle timeout */
	iv_work_pool_put(&B);
}
static void work1(void *c) { ran1 = 1; }
static void compl1(void *c) { done1 = 1; }
static void workA(void *c)
{
	usleep(10500000);		/* B's thread has idled out by now; the owner is still in compl0 */
	iv_work_pool_submit_continuation(&B, &item1);
}
static void complA(void *c) { iv_work_pool_put(&A); }
static void guard_fn(void *c)
{
	printf("ran1=%d done1=%d\n", ran1, done1);
	exit(ran1 && done1 ? 0 : 1);
}

int main(void)
{
	iv_init();
	IV_WORK_POOL_INIT(&A); A.max_threads = 1; iv_work_pool_create(&A);
	IV_WORK_POOL_INIT(&B); B.max_threads = 1; iv_work_pool_create(&B);
	IV_WORK_ITEM_INIT(&item0); item0.work = work0; item0.completion = compl0;
	IV_WORK_ITEM_INIT(&item1); item1.work = work1; item1.completion = compl1;
	IV_WORK_ITEM_INIT(&itemA); itemA.work = workA; itemA.completion = complA;
	iv_work_pool_submit_work(&B, &item0);
	iv_work_pool_submit_work(&A, &itemA);
	IV_TIMER_INIT(&guard); guard.handler = guard_fn;
	iv_validate_now(); guard.expires = iv_now; guard.expires.tv_sec += 16;
	iv_timer_register(&guard);
	iv_main();
	printf("iv_main returned: ran1=%d done1=%d\n", ran1, done1);
	return ran1 && done1 ? 0 : 1;
}
