/* eventfd2/eventfd work for the first raw event and fail with ENOSYS afterwards (e.g. a seccomp filter installed
   mid-run): posts to the FIRST raw event must still arrive.  exit 0 = delivered. */
#define _GNU_SOURCE
#include <errno.h>
#include <stdarg.h>
#include <stdio.h>
#include <stdlib.h>
#include <sys/syscall.h>
#include <unistd.h>
#include <iv.h>
#include <iv_event_raw.h>

static int efd_calls, efd_fail_from = 1000000;
long __real_syscall(long nr, ...);
long __wrap_syscall(long nr, ...)
{
	va_list ap; long a[6]; int i;
	va_start(ap, nr); for (i = 0; i < 6; i++) a[i] = va_arg(ap, long); va_end(ap);
	if (nr == __NR_eventfd2 || nr == __NR_eventfd) {
		if (efd_calls++ >= efd_fail_from) { errno = ENOSYS; return -1; }
	}
	return __real_syscall(nr, a[0], a[1], a[2], a[3], a[4], a[5]);
}
static struct iv_event_raw A, B;
static struct iv_timer to;
static int got_a;
static void ha(void *c) { got_a++; iv_event_raw_unregister(&A); iv_event_raw_unregister(&B); iv_timer_unregister(&to); }
static void hb(void *c) { }
static void timeout(void *c) { printf("FAIL: post to the first raw event was lost\n"); exit(1); }
int main(void)
{
	iv_init();
	IV_EVENT_RAW_INIT(&A); A.handler = ha; iv_event_raw_register(&A);
	efd_fail_from = efd_calls;		/* from now on eventfd2 and eventfd are gone */
	IV_EVENT_RAW_INIT(&B); B.handler = hb;
	if (iv_event_raw_register(&B) < 0) { printf("register B failed\n"); return 2; }
	iv_event_raw_post(&A);
	IV_TIMER_INIT(&to); iv_validate_now(); to.expires = iv_now; to.expires.tv_sec += 2; to.handler = timeout;
	iv_timer_register(&to);
	iv_main();
	iv_deinit();
	printf(got_a == 1 ? "OK\n" : "FAIL got_a=%d\n", got_a);
	return got_a == 1 ? 0 : 1;
}
