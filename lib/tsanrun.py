"""Free-running ThreadSanitizer observation for C14: the multi-threaded scenario
interpreter (harness/ivmt.c) linked with harness/free_shim.c instead of the
virtual kernel and the baton scheduler: real kernel, real threads, real time.
TSan's happens-before analysis reports unsynchronised conflicting accesses
independently of the interleaving that happened to occur."""
import os
import re
import subprocess

import vlib

# the only accesses the property exempts: idempotent one-way feature-detection flags
EXEMPT = [
    r"\binited\b", r"\bmethod\b", r"epoll_support", r"epoll_pwait2_support", r"eventfd_in_use",
    r"iv_event_use_event_raw", r"splice_available", r"pipe2_support", r"clock_source", r"iv_state_key_allocated",
]


# function-entry hook (harness/tsan_cov.c): which library functions ran under TSan
COV_FLAGS = ["-finstrument-functions"]
COV_SRC = "tsan_cov.c"


def symtab(exe):
    """address -> (function name, source file) of the functions defined in the executable"""
    p = subprocess.run(["nm", "-l", "--defined-only", exe], stdout=subprocess.PIPE, stderr=subprocess.DEVNULL, text=True, errors="replace")
    tab = {}
    for line in p.stdout.splitlines():
        m = re.match(r"([0-9a-f]+) [tTwW] (\S+)(?:\t(\S+):\d+)?", line)
        if m:
            tab.setdefault(int(m.group(1), 16), (m.group(2), m.group(3) or ""))
    return tab


def read_cov(path, tab):
    """functions of the library sources (REPO/src) recorded in a coverage file, as 'file:function'"""
    hook = [a for a, (n, f) in tab.items() if n == "__cyg_profile_func_enter"]
    try:
        lines = open(path).read().split()
    except OSError:
        return set()
    got = set()
    slide = None
    for l in lines:
        if len(l) != 17:
            continue
        v = int(l[1:], 16)
        if l[0] == "B" and hook:
            slide = v - hook[0]
        elif l[0] == "F" and slide is not None:
            ent = tab.get(v - slide)
            if ent and "/src/" in ent[1] and ent[1].startswith(vlib.REPO):
                got.add(os.path.basename(ent[1]) + ":" + ent[0])
    return got


def build(outdir):
    return vlib.cc_build(outdir, "ivfree", ["ivmt.c", "free_shim.c", COV_SRC], vlib.LIB_SRCS, extra=COV_FLAGS,
                         san_flags=["-fsanitize=thread", "-fno-omit-frame-pointer"],
                         ldflags=["-Wl,--defsym=__real_fork=fork"],
                         # free_shim.c: optional stall of library-created threads before a lock call (option Zstall=)
                         wraps=["pthread_mutex_lock"])


def continuation_program(rng, be=None):
    """work functions that submit continuations (iv_work_pool_submit_continuation from a pool thread) while
    the pool has fewer threads than max_threads and none idle: the pool thread posts `thread_needed`
    to the owner, whose iv_work_thread_needed runs concurrently with the workers.  Item 0 starts a chain;
    every chain item submits leaves and the next chain item; the pool is put from the completion of the LAST
    chain item, which is causally after every submission (the harness' own pool bookkeeping must not race)."""
    be = be or rng.choice(["et", "ep"])
    mx = rng.randint(2, 4)
    items = list(range(1, 8))
    rng.shuffle(items)
    chain = [0]
    secs = ["B" + be]
    scripts = {}
    nleft = rng.randint(2, 7)
    cur = 0
    while True:
        n_here = rng.randint(1, min(3, nleft)) if nleft else 0
        mine = [items.pop() for _ in range(n_here)]
        nleft -= n_here
        acts = []
        for it in mine:
            if rng.random() < 0.5:
                acts.append("sl%d" % rng.choice([1, 1, 2]))
            acts.append("wS0.0.%d" % it)
        scripts[cur] = acts
        if nleft <= 0 or not mine:
            break
        cur = mine[-1]              # the last one submitted continues the chain
        chain.append(cur)
    secs.append("L0:wc0=%d ws0.0" % mx)
    for it in chain:
        if scripts.get(it):
            secs.append("H0w%d:%s" % (it, " ".join(scripts[it])))
    secs.append("H0c%d:wp0" % chain[-1])
    return ";".join(secs)


def idle_program(rng, stall=200):
    """the pool thread's idle timeout (10 s of real time) racing with a submission.  Item 0 makes the one
    pool thread; when its completion runs the thread has just gone idle, and the owner arms a timer for
    10 s + stall/2 later.  The thread's idle timer expires after 10 s; being a library-created thread it stalls
    `stall` ms before taking the pool lock (free_shim.c, Zstall), and the owner's submission (kicked = 1 under
    the pool lock) lands inside that stall.  The unchanged library then re-arms the idle timer and runs item 1;
    if the submission comes too early or too late (load) the thread is kicked normally resp. has exited and
    a new one is made: the program ends in every case, the verdict never depends on the timing."""
    be = rng.choice(["et", "ep"])
    jitter = rng.randint(-stall // 4, stall // 4)
    ns = 10 * 10**9 + (stall // 2 + jitter) * 10**6
    return "B%s;Zstall=%d,alarm=30;L0:wc0=1 ws0.0;H0c0:tr0+%d;H0t0:ws0.1;H0c1:wp0" % (be, stall, ns)



def programs(rng, n):
    """terminating free-running programs (every loop ends because all its objects get unregistered)"""
    out = []
    for i in range(n):
        kind = i % 7
        be = rng.choice(["et", "ep", "pp", "po"])
        if kind == 0:
            # posters -> owner events; the owner joins the posters before unregistering
            np_ = rng.randint(1, 3)
            ne = rng.randint(1, 3)
            secs = ["B" + be, "L0:" + " ".join("er%d" % e for e in range(ne)) + " tr0+%d" % rng.choice([30000000, 80000000])]
            for p in range(1, np_ + 1):
                secs.append("P%d:" % p + " ".join("ep0.%d" % rng.randrange(ne) for _ in range(rng.randint(3, 40))))
            secs.append("H0t0:jn " + " ".join("eu%d" % e for e in range(ne)))
            for e in range(ne):
                secs.append("H0e%d:%s" % (e, rng.choice(["-", "ep0.%d" % rng.randrange(ne) + "/-", "kr0/-"])))
            out.append(";".join(secs))
        elif kind == 1:
            # raw events posted from other threads
            secs = ["B" + be, "L0:rr0 rr1 tr0+%d" % rng.choice([30000000, 60000000]),
                    "P1:" + " ".join("rp0.%d" % rng.randrange(2) for _ in range(rng.randint(5, 60))),
                    "P2:" + " ".join("rp0.%d" % rng.randrange(2) for _ in range(rng.randint(5, 60))),
                    "H0t0:jn ru0 ru1", "H0r0:-", "H0r1:rp0.0/-"]
            out.append(";".join(secs))
        elif kind == 2:
            # work pool: bursts, completions submitting more, continuation, put from the last completion
            mx = rng.randint(1, 4)
            n_items = rng.randint(2, 7)
            secs = ["B" + rng.choice(["et", "ep"]), "L0:wc0=%d " % mx + " ".join("ws0.%d" % i for i in range(n_items - 1))]
            secs.append("H0c0:ws0.%d" % (n_items - 1))
            secs.append("H0c%d:wp0" % (n_items - 1))
            out.append(";".join(secs))
        elif kind == 3:
            # helper threads (iv_thread_create) posting to their creator, joined through the dead event
            secs = ["B" + be, "L0:er0 tc1 tc2", "H0h1:ep0.0 ep0.0", "H0h2:ep0.0", "H0e0:-/-/eu0"]
            secs[1] = "L0:er0 tc1 tc2 tr0+50000000"
            secs.append("H0t0:eu0")
            out.append(";".join(secs))
        elif kind == 4:
            # the owner unregisters a PENDING event while another thread posts OTHER events of the same owner
            secs = ["B" + be, "L0:er0 er1 er2 kr0 tr0+%d" % rng.choice([60000000, 90000000]),
                    "H0k0:ep0.0 sl%d eu0" % rng.choice([10, 20]),
                    "P1:sl%d " % rng.choice([3, 5]) + " ".join("ep0.%d sl1" % rng.choice([1, 2]) for _ in range(rng.randint(3, 8))),
                    "H0t0:jn eu1 eu2", "H0e1:-", "H0e2:-"]
            out.append(";".join(secs))
        elif kind == 6:
            out.append(continuation_program(rng, rng.choice(["et", "ep"])))
        else:
            # independent loops initialised, run and torn down concurrently in several threads
            nl = rng.randint(2, 4)
            secs = ["B" + be, "L0:tr0+%d kr0" % rng.choice([1000000, 20000000])]
            for k in range(1, nl):
                secs.append("L%d:tr0+%d kr0 er0 ep%d.0" % (k, rng.choice([1000000, 5000000, 20000000]), k))
                secs.append("H%de0:eu0" % k)
            out.append(";".join(secs))
    return out


def run(exe, cases, timeout=60, cov=None):
    """returns list of (case, rc, race_summaries, stderr_tail); cov = file that collects the entered functions"""
    res = []
    env = dict(os.environ, TSAN_OPTIONS="exitcode=66 halt_on_error=0 second_deadlock_stack=1")
    if cov:
        env["TSAN_COV_FILE"] = cov
    for c in cases:
        try:
            p = subprocess.run([exe], input=c + "\n", stdout=subprocess.PIPE, stderr=subprocess.PIPE, text=True,
                               errors="replace", timeout=timeout, env=env)
            out, err = p.stdout, p.stderr
        except subprocess.TimeoutExpired as e:
            out, err = "", "[timeout]"
        races = []
        for blk in err.split("=================="):
            if "WARNING: ThreadSanitizer: data race" in blk:
                loc = re.search(r"Location is (?:global|heap block|stack)[^\n]*", blk)
                summ = re.search(r"SUMMARY: ThreadSanitizer: data race ([^\n]*)", blk)
                text = (loc.group(0) if loc else "") + " " + (summ.group(1) if summ else "")
                glob = re.search(r"Location is global '([^']+)'", blk)
                name = glob.group(1) if glob else ""
                exempt = bool(name) and any(re.search(e, name) for e in EXEMPT)
                races.append({"where": text.strip(), "global": name, "exempt": exempt, "report": blk.strip()[:3000]})
        complete = "0:D" in out
        res.append({"case": c, "complete": complete, "races": races, "stderr_tail": err[-500:], "out_tail": out[-200:]})
    return res
