"""Free-running ThreadSanitizer observation for C14: the multi-threaded scenario
interpreter (harness/ivmt.c) linked with harness/free_shim.c instead of the
virtual kernel and the baton scheduler: real kernel, real threads, real time.
TSan's happens-before analysis reports unsynchronised conflicting accesses
independently of the interleaving that happened to occur."""
import os
import re
import subprocess

import vlib

# the only accesses the property exempts: idempotent one-way feature-detection flags
EXEMPT = [
    r"\binited\b", r"\bmethod\b", r"epoll_support", r"epoll_pwait2_support", r"eventfd_in_use",
    r"iv_event_use_event_raw", r"splice_available", r"pipe2_support", r"clock_source", r"iv_state_key_allocated",
]


def build(outdir):
    return vlib.cc_build(outdir, "ivfree", ["ivmt.c", "free_shim.c"], vlib.LIB_SRCS,
                         san_flags=["-fsanitize=thread", "-fno-omit-frame-pointer"],
                         ldflags=["-Wl,--defsym=__real_fork=fork"])


def programs(rng, n):
    """terminating free-running programs (every loop ends because all its objects get unregistered)"""
    out = []
    for i in range(n):
        kind = i % 6
        be = rng.choice(["et", "ep", "pp", "po"])
        if kind == 0:
            # posters -> owner events; the owner joins the posters before unregistering
            np_ = rng.randint(1, 3)
            ne = rng.randint(1, 3)
            secs = ["B" + be, "L0:" + " ".join("er%d" % e for e in range(ne)) + " tr0+%d" % rng.choice([30000000, 80000000])]
            for p in range(1, np_ + 1):
                secs.append("P%d:" % p + " ".join("ep0.%d" % rng.randrange(ne) for _ in range(rng.randint(3, 40))))
            secs.append("H0t0:jn " + " ".join("eu%d" % e for e in range(ne)))
            for e in range(ne):
                secs.append("H0e%d:%s" % (e, rng.choice(["-", "ep0.%d" % rng.randrange(ne) + "/-", "kr0/-"])))
            out.append(";".join(secs))
        elif kind == 1:
            # raw events posted from other threads
            secs = ["B" + be, "L0:rr0 rr1 tr0+%d" % rng.choice([30000000, 60000000]),
                    "P1:" + " ".join("rp0.%d" % rng.randrange(2) for _ in range(rng.randint(5, 60))),
                    "P2:" + " ".join("rp0.%d" % rng.randrange(2) for _ in range(rng.randint(5, 60))),
                    "H0t0:jn ru0 ru1", "H0r0:-", "H0r1:rp0.0/-"]
            out.append(";".join(secs))
        elif kind == 2:
            # work pool: bursts, completions submitting more, continuation, put from the last completion
            mx = rng.randint(1, 4)
            n_items = rng.randint(2, 7)
            secs = ["B" + rng.choice(["et", "ep"]), "L0:wc0=%d " % mx + " ".join("ws0.%d" % i for i in range(n_items - 1))]
            secs.append("H0c0:ws0.%d" % (n_items - 1))
            secs.append("H0c%d:wp0" % (n_items - 1))
            if rng.random() < 0.5 and n_items > 2:
                secs.append("H0w1:wS0.0.%d" % 1 if False else "H0w1:-")
            out.append(";".join(secs))
        elif kind == 3:
            # helper threads (iv_thread_create) posting to their creator, joined through the dead event
            secs = ["B" + be, "L0:er0 tc1 tc2", "H0h1:ep0.0 ep0.0", "H0h2:ep0.0", "H0e0:-/-/eu0"]
            secs[1] = "L0:er0 tc1 tc2 tr0+50000000"
            secs.append("H0t0:eu0")
            out.append(";".join(secs))
        elif kind == 4:
            # the owner unregisters a PENDING event while another thread posts OTHER events of the same owner
            secs = ["B" + be, "L0:er0 er1 er2 kr0 tr0+%d" % rng.choice([60000000, 90000000]),
                    "H0k0:ep0.0 sl%d eu0" % rng.choice([10, 20]),
                    "P1:sl%d " % rng.choice([3, 5]) + " ".join("ep0.%d sl1" % rng.choice([1, 2]) for _ in range(rng.randint(3, 8))),
                    "H0t0:jn eu1 eu2", "H0e1:-", "H0e2:-"]
            out.append(";".join(secs))
        else:
            # independent loops initialised, run and torn down concurrently in several threads
            nl = rng.randint(2, 4)
            secs = ["B" + be, "L0:tr0+%d kr0" % rng.choice([1000000, 20000000])]
            for k in range(1, nl):
                secs.append("L%d:tr0+%d kr0 er0 ep%d.0" % (k, rng.choice([1000000, 5000000, 20000000]), k))
                secs.append("H%de0:eu0" % k)
            out.append(";".join(secs))
    return out


def run(exe, cases, timeout=60):
    """returns list of (case, rc, race_summaries, stderr_tail)"""
    res = []
    env = dict(os.environ, TSAN_OPTIONS="exitcode=66 halt_on_error=0 second_deadlock_stack=1")
    for c in cases:
        try:
            p = subprocess.run([exe], input=c + "\n", stdout=subprocess.PIPE, stderr=subprocess.PIPE, text=True,
                               errors="replace", timeout=timeout, env=env)
            out, err = p.stdout, p.stderr
        except subprocess.TimeoutExpired as e:
            out, err = "", "[timeout]"
        races = []
        for blk in err.split("=================="):
            if "WARNING: ThreadSanitizer: data race" in blk:
                loc = re.search(r"Location is (?:global|heap block|stack)[^\n]*", blk)
                summ = re.search(r"SUMMARY: ThreadSanitizer: data race ([^\n]*)", blk)
                text = (loc.group(0) if loc else "") + " " + (summ.group(1) if summ else "")
                glob = re.search(r"Location is global '([^']+)'", blk)
                name = glob.group(1) if glob else ""
                exempt = bool(name) and any(re.search(e, name) for e in EXEMPT)
                races.append({"where": text.strip(), "global": name, "exempt": exempt, "report": blk.strip()[:3000]})
        complete = "0:D" in out
        res.append({"case": c, "complete": complete, "races": races, "stderr_tail": err[-500:], "out_tail": out[-200:]})
    return res
