"""C14 -- no unsynchronised conflicting accesses on the cross-thread entry points.
Proof part: Props/Properties_C14.v (lock discipline of the MT transition-system models).
Implementation-side observation: ThreadSanitizer on free-running scenario programs
(harness/ivmt.c + free_shim.c: real kernel, real threads, no baton, logging disabled so
that the harness itself adds no synchronisation)."""
import hashlib
import os
import time
from concurrent.futures import ThreadPoolExecutor

import vlib
import tsanrun
from framework import LineCheck


class C14(LineCheck):
    pid = "C14"
    coq_targets = ["theories/MT/ConflictEvent.vo", "theories/MT/ConflictSignal.vo", "theories/MT/ConflictWait.vo",
                   "theories/MT/ConflictWork.vo", "theories/Core/OneWayFlags.vo"]
    corr_name = "ThreadSanitizer observation of free-running multi-threaded scenario programs on the real library"
    trusted = [
        "the theorem is about model variables and model steps (lock discipline of the MT transition systems), not bytes: "
        "a data race is a statement about the C memory model, which no Gallina model executes",
        "ThreadSanitizer (gcc -fsanitize=thread) on the real library + real kernel; its happens-before verdict does not depend on the "
        "interleaving observed, but only code that the programs execute is observed",
        "the harness disables its own logging in this mode so that it introduces no synchronisation between the threads",
    ]
    assumptions = [
        "accesses to the idempotent one-way feature-detection flags (inited, method, *_support, eventfd_in_use, iv_event_use_event_raw, "
        "splice_available, pipe2_support, clock_source, iv_state_key_allocated) are exempt, as the property states",
        "the first iv_init happens before other threads call into the library (documented precondition)",
    ]
    rule = ("seeded free-running programs: posters vs owner (events incl. unregistration of OTHER pending events while posts arrive, raw "
            "events), work pools with bursts / completions that submit / shutdown, iv_thread helpers, concurrent init-run-deinit of "
            "independent loops, on all four poll methods; every program is run several times; non-trivial = the program ran to completion "
            "with at least two threads inside the library; distinct = distinct program text")

    def build(self, ctx):
        d = os.path.join(ctx.work, "b")
        ok, out = tsanrun.build(d)
        self.d = d
        if not ok:
            return ok, out
        # real fork / real signals stress of iv_wait + iv_signal across threads
        ok, out2 = vlib.cc_build(d, "tsan_stress", ["tsan_stress.c"], vlib.LIB_SRCS,
                                 san_flags=["-fsanitize=thread", "-fno-omit-frame-pointer"])
        return ok, out + out2

    def run_stress(self, seed):
        import subprocess, re
        exe = os.path.join(self.d, "tsan_stress")
        try:
            p = subprocess.run([exe, str(seed)], stdout=subprocess.PIPE, stderr=subprocess.PIPE, text=True, errors="replace",
                               timeout=90, env=dict(os.environ, TSAN_OPTIONS="exitcode=66 halt_on_error=0"))
            out, err, rc = p.stdout, p.stderr, p.returncode
        except subprocess.TimeoutExpired:
            out, err, rc = "", "[timeout]", 124
        races = []
        for blk in err.split("=================="):
            if "WARNING: ThreadSanitizer: data race" in blk:
                glob = re.search(r"Location is global '([^']+)'", blk)
                name = glob.group(1) if glob else ""
                if not (name and any(re.search(e, name) for e in tsanrun.EXEMPT)):
                    races.append(blk.strip()[:3000])
        return {"case": "STRESS %d" % seed, "races": races, "complete": "DONE" in out, "rc": rc, "err": err[-400:]}

    def cases(self, ctx):
        rng = vlib.rng_for(ctx.seed, "C14")
        cases = []
        p = os.path.join(vlib.VERIF, "corpus", "C14.txt")
        if os.path.exists(p):
            cases += [l.rstrip("\n") for l in open(p) if l.strip() and not l.startswith("#")]
        self.n_corpus = len(cases)
        cases += tsanrun.programs(rng, 60 if ctx.tier == "quick" else 600)
        # the interleaving matters for WHICH code runs, not for the verdict: repeat every program
        self.repeat = 3 if ctx.tier == "quick" else 10
        return cases

    def correspond(self, ctx, cases):
        exe = os.path.join(self.d, "ivfree")
        jobs = [c for c in cases for _ in range(self.repeat)]
        with ThreadPoolExecutor(max_workers=vlib.NPROC) as ex:
            res = list(ex.map(lambda c: tsanrun.run(exe, [c])[0], jobs))
        crashes, nontriv = [], set()
        self.exempt_seen = 0
        self.incomplete = 0
        seen = set()
        for r in res:
            idx = cases.index(r["case"])
            bad = [x for x in r["races"] if not x["exempt"]]
            self.exempt_seen += sum(1 for x in r["races"] if x["exempt"])
            if bad and idx not in seen:
                seen.add(idx)
                crashes.append((idx, "ThreadSanitizer: data race\n" + bad[0]["report"]))
            if not r["complete"]:
                self.incomplete += 1
                if "timeout" in r["stderr_tail"] and idx not in seen:
                    seen.add(idx)
                    crashes.append((idx, "program did not terminate (free-running): " + r["out_tail"]))
            else:
                nontriv.add(hashlib.sha1(r["case"].encode()).hexdigest())
        # the wait/signal stress
        seeds = [ctx.seed * 100 + k for k in range(8 if ctx.tier == "quick" else 80)]
        with ThreadPoolExecutor(max_workers=8) as ex:
            sres = list(ex.map(self.run_stress, seeds))
        self.stress_runs = len(sres)
        self.stress_incomplete = sum(1 for r in sres if not r["complete"])
        for r in sres:
            cases.append(r["case"])
            idx = len(cases) - 1
            if r["races"]:
                crashes.append((idx, "ThreadSanitizer: data race (wait/signal stress)\n" + r["races"][0]))
            elif not r["complete"]:
                crashes.append((idx, "wait/signal stress did not finish (rc=%s): %s" % (r["rc"], r["err"])))
            else:
                nontriv.add(hashlib.sha1(r["case"].encode()).hexdigest())
        return {"n": len(jobs) + len(sres), "div": [], "crashes": crashes, "monfail": [], "nontrivial": len(nontriv),
                "mres": [("", None)] * len(cases), "ires": [("", None)] * len(cases), "mon": None}

    def describe(self, case):
        return {"program": case}

    def signature(self, case, why):
        import re
        m = re.search(r"SUMMARY: ThreadSanitizer: data race \S*/src/(\S+) in (\S+)", why)
        return "tsan:" + (m.group(1) + ":" + m.group(2) if m else "race")

    def shrink(self, ctx, case):
        return case

    def distribution(self, cases):
        return {"corpus_programs": self.n_corpus, "programs": len(cases), "runs_per_program": self.repeat,
                "stress_runs": getattr(self, "stress_runs", 0), "stress_not_finished": getattr(self, "stress_incomplete", 0),
                "exempt_flag_races_seen": getattr(self, "exempt_seen", 0), "runs_not_completed": getattr(self, "incomplete", 0)}

    def replay(self, ctx, path):
        case = None
        for line in open(path):
            if line.startswith("case: "):
                case = line[len("case: "):].rstrip("\n")
                break
        if case is None:
            print(open(path).read())
            return 1
        ok, out = self.build(ctx)
        if not ok:
            print(out)
            return 2
        if case.startswith("STRESS "):
            r = self.run_stress(int(case.split()[1]))
            print(r["races"][0] if r["races"] else "no race reported; complete=%s" % r["complete"])
            return 1 if (r["races"] or not r["complete"]) else 0
        bad = 0
        for i in range(10):
            r = tsanrun.run(os.path.join(self.d, "ivfree"), [case])[0]
            nb = [x for x in r["races"] if not x["exempt"]]
            if nb:
                bad += 1
                if bad == 1:
                    print(nb[0]["report"])
        print("REPLAY: %d of 10 runs reported a non-exempt data race" % bad)
        return 1 if bad else 0
