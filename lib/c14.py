"""C14 -- no unsynchronised conflicting accesses on the cross-thread entry points.
Proof part: Props/Properties_C14.v (lock discipline of the MT transition-system models).
Implementation-side observation: ThreadSanitizer on free-running scenario programs
(harness/ivmt.c + free_shim.c: real kernel, real threads, no baton, logging disabled so
that the harness itself adds no synchronisation)."""
import hashlib
import os
import time
from concurrent.futures import ThreadPoolExecutor

import vlib
import tsanrun
from framework import LineCheck


class C14(LineCheck):
    pid = "C14"
    coq_targets = ["theories/MT/ConflictEvent.vo", "theories/MT/ConflictSignal.vo", "theories/MT/ConflictWait.vo",
                   "theories/MT/ConflictWork.vo", "theories/Core/OneWayFlags.vo"]
    corr_name = "ThreadSanitizer observation of free-running multi-threaded scenario programs on the real library"
    trusted = [
        "the theorem is about model variables and model steps (lock discipline of the MT transition systems), not bytes: "
        "a data race is a statement about the C memory model, which no Gallina model executes",
        "ThreadSanitizer (gcc -fsanitize=thread) on the real library + real kernel; its happens-before verdict does not depend on the "
        "interleaving observed, but only code that the programs execute is observed",
        "the harness disables its own logging in this mode so that it introduces no synchronisation between the threads",
    ]
    assumptions = [
        "accesses to the idempotent one-way feature-detection flags (inited, method, *_support, eventfd_in_use, iv_event_use_event_raw, "
        "splice_available, pipe2_support, clock_source, iv_state_key_allocated) are exempt, as the property states",
        "the first iv_init happens before other threads call into the library (documented precondition)",
    ]
    rule = ("seeded free-running programs: posters vs owner (events incl. unregistration of OTHER pending events while posts arrive, raw "
            "events), work pools with bursts / completions that submit / shutdown, work functions submitting continuations while the pool is "
            "below max_threads (iv_work_thread_needed concurrent with the workers), iv_thread helpers, concurrent init-run-deinit of "
            "independent loops, on all four poll methods; every program is run several times; one program per quick run (several in the "
            "thorough tier) keeps a pool idle for the library's 10 s idle timeout and submits inside the expiring thread's path to the "
            "pool lock (free_shim.c Zstall); wait/signal stress on the real kernel: register_spawn and fork + plain register, children "
            "stopped / continued / killed through iv_wait_interest_kill so that several statuses queue per interest, unregistration from the "
            "death callback or from a timeout racing with the reaper in another thread, SIGUSR1 interests of both scopes; non-trivial = the "
            "program ran to completion with at least two threads inside the library; distinct = distinct program text.  The binaries record "
            "every function they enter (harness/tsan_cov.c, -finstrument-functions): input_distribution.functions_under_tsan lists the "
            "library functions that actually ran under TSan in this run, cross_thread_functions_not_executed the listed ones that did not")

    # the cross-thread entry points and the internal functions behind them: what the observation is supposed to execute
    EXPECTED = [
        "iv_event.c:iv_event_post", "iv_event.c:iv_event_unregister", "iv_event.c:iv_event_register",
        "iv_event.c:__iv_event_run_pending_events", "iv_event_raw_posix.c:iv_event_raw_post",
        "iv_event_raw_posix.c:iv_event_raw_got_event", "iv_fd_epoll.c:iv_fd_epoll_event_rx_on", "iv_fd_epoll.c:iv_fd_epoll_event_rx_off",
        "iv_fd_epoll.c:iv_fd_epoll_event_send",
        "iv_work.c:iv_work_submit_pool", "iv_work.c:iv_work_pool_submit_work", "iv_work.c:iv_work_pool_submit_continuation",
        "iv_work.c:iv_work_thread_needed", "iv_work.c:iv_work_thread_idle_timeout", "iv_work.c:iv_work_thread_got_event",
        "iv_work.c:iv_work_event", "iv_work.c:iv_work_pool_put", "iv_work.c:__iv_work_thread_die", "iv_work.c:iv_work_start_thread",
        "iv_wait.c:iv_wait_got_sigchld", "iv_wait.c:iv_wait_completion", "iv_wait.c:iv_wait_interest_register",
        "iv_wait.c:iv_wait_interest_register_spawn", "iv_wait.c:iv_wait_interest_unregister", "iv_wait.c:iv_wait_interest_kill",
        "iv_signal.c:iv_signal_handler", "iv_signal.c:iv_signal_event", "iv_signal.c:iv_signal_register", "iv_signal.c:iv_signal_unregister",
        "iv_signal.c:__iv_signal_do_wake", "iv_signal.c:iv_signal_prepare", "iv_signal.c:iv_signal_child",
        "iv_thread_posix.c:iv_thread_create", "iv_thread_posix.c:iv_thread_handler", "iv_thread_posix.c:iv_thread_died",
        "iv_main_posix.c:iv_init", "iv_main_posix.c:iv_deinit", "iv_main_posix.c:iv_main",
    ]

    def sibling_stages(self):
        # the "signal spinlock (+ blocked signals)" discipline and the lock protocols of iv_event / iv_wait are also decided
        # deterministically by the acceptor models and monitors of C10 (mask and lock records of the virtual signal layer),
        # C11 and C08 on baton-scheduled runs
        import c10, c08
        return [("C10", c10.C10), ("C11", c10.C11), ("C08", c08.C08)]

    def build(self, ctx):
        d = os.path.join(ctx.work, "b")
        ok, out = tsanrun.build(d)
        self.d = d
        if not ok:
            return ok, out
        # real fork / real signals stress of iv_wait + iv_signal across threads
        ok, out2 = vlib.cc_build(d, "tsan_stress", ["tsan_stress.c", tsanrun.COV_SRC], vlib.LIB_SRCS, extra=tsanrun.COV_FLAGS,
                                 san_flags=["-fsanitize=thread", "-fno-omit-frame-pointer"])
        self.covdir = os.path.join(ctx.work, "cov")
        os.makedirs(self.covdir, exist_ok=True)
        if not ok:
            return ok, out + out2
        # independent iv_inotify instances in different loop threads on the real kernel
        ok, out3 = vlib.cc_build(d, "tsan_inotify", ["tsan_inotify.c"], vlib.LIB_SRCS,
                                 san_flags=["-fsanitize=thread", "-fno-omit-frame-pointer"])
        if not ok:
            return ok, out + out2 + out3
        # fork handlers of iv_signal.c with two threads forking at once (real kernel, functional check of the signal masks;
        # TSan serialises fork and does not see the reads made inside pthread_sigmask, so this one is not a TSan program)
        ok, out4 = vlib.cc_build(os.path.join(d, "fms"), "fork_mask_smoke", ["fork_mask_smoke.c"], vlib.LIB_SRCS)
        return ok, out + out2 + out3 + out4

    def run_fork_mask(self, k):
        import subprocess
        import runner
        exe = os.path.join(self.d, "fms", "fork_mask_smoke")
        try:
            p = subprocess.run([exe], stdout=subprocess.PIPE, stderr=subprocess.PIPE, text=True, errors="replace", timeout=120,
                               env=dict(os.environ, **runner.ASAN_ENV))
            out, err, rc = p.stdout.strip(), p.stderr, p.returncode
        except subprocess.TimeoutExpired:
            out, err, rc = "", "[timeout]", 124
        return {"case": "FORKMASK %d" % k, "ok": rc == 0 and out.startswith("OK"), "out": out, "err": err[-600:], "rc": rc}

    def run_inotify(self, seed):
        import subprocess, re
        exe = os.path.join(self.d, "tsan_inotify")
        env = dict(os.environ, TSAN_OPTIONS="exitcode=66 halt_on_error=0")
        try:
            p = subprocess.run([exe, str(seed)], stdout=subprocess.PIPE, stderr=subprocess.PIPE, text=True, errors="replace",
                               env=env, timeout=90)
            out, err, rc = p.stdout, p.stderr, p.returncode
        except subprocess.TimeoutExpired:
            out, err, rc = "", "[timeout]", 124
        races = []
        for blk in err.split("=================="):
            if "WARNING: ThreadSanitizer: data race" in blk:
                glob = re.search(r"Location is global '([^']+)'", blk)
                name = glob.group(1) if glob else ""
                if not (name and any(re.search(e, name) for e in tsanrun.EXEMPT)):
                    races.append(blk.strip()[:3000])
        m = re.search(r"DONE events=(\d+) foreign=(\d+)", out)
        return {"case": "INOTIFY %d" % seed, "races": races, "complete": m is not None, "rc": rc, "err": err[-400:],
                "events": int(m.group(1)) if m else 0, "foreign": int(m.group(2)) if m else 0, "skip": "SKIP" in out}

    def run_stress(self, seed):
        import subprocess, re
        exe = os.path.join(self.d, "tsan_stress")
        env = dict(os.environ, TSAN_OPTIONS="exitcode=66 halt_on_error=0")
        if getattr(self, "covdir", None):
            env["TSAN_COV_FILE"] = os.path.join(self.covdir, "stress_%d" % seed)
        # own session = own process group: whatever the program leaves behind when it is killed or crashes (a child it
        # had stopped, on a broken tree) is removed with the group
        import signal
        p = subprocess.Popen([exe, str(seed)], stdout=subprocess.PIPE, stderr=subprocess.PIPE, text=True, errors="replace",
                             env=env, start_new_session=True)
        try:
            out, err = p.communicate(timeout=90)
            rc = p.returncode
        except subprocess.TimeoutExpired:
            try:
                os.killpg(p.pid, signal.SIGKILL)    # the program AND its children: they hold the pipes open
            except OSError:
                pass
            out, err = p.communicate()
            out, err, rc = "", (err or "") + "[timeout]", 124
        finally:
            try:
                os.killpg(p.pid, signal.SIGKILL)
            except OSError:
                pass
        races = []
        for blk in err.split("=================="):
            if "WARNING: ThreadSanitizer: data race" in blk:
                glob = re.search(r"Location is global '([^']+)'", blk)
                name = glob.group(1) if glob else ""
                if not (name and any(re.search(e, name) for e in tsanrun.EXEMPT)):
                    races.append(blk.strip()[:3000])
        counters = {}
        for l in out.splitlines():
            if l.startswith("DONE"):
                counters = {k: int(v) for k, v in (x.split("=") for x in l.split()[1:])}
        return {"case": "STRESS %d" % seed, "races": races, "complete": "DONE" in out, "rc": rc, "err": err[-400:], "counters": counters}

    def cases(self, ctx):
        rng = vlib.rng_for(ctx.seed, "C14")
        cases = []
        p = os.path.join(vlib.VERIF, "corpus", "C14.txt")
        if os.path.exists(p):
            cases += [l.rstrip("\n") for l in open(p) if l.strip() and not l.startswith("#")]
        self.n_corpus = len(cases)
        cases += tsanrun.programs(rng, 63 if ctx.tier == "quick" else 630)
        # the interleaving matters for WHICH code runs, not for the verdict: repeat every program
        self.repeat = 3 if ctx.tier == "quick" else 10
        # the 10 s idle-timeout programs (about 11 s of wall time each, run once, in parallel with everything else)
        self.idle = [tsanrun.idle_program(rng) for _ in range(1 if ctx.tier == "quick" else 8)]
        cases += self.idle
        return cases

    def correspond(self, ctx, cases):
        exe = os.path.join(self.d, "ivfree")
        idle = set(getattr(self, "idle", []))
        # the long programs first: they overlap with all the others
        jobs = [c for c in cases if c in idle] + [c for c in cases if c not in idle for _ in range(self.repeat)]
        covdir = getattr(self, "covdir", None)

        def one(a):
            i, c = a
            return tsanrun.run(exe, [c], cov=os.path.join(covdir, "free_%d" % i) if covdir else None)[0]
        with ThreadPoolExecutor(max_workers=vlib.NPROC + len(idle)) as ex:
            symf = ex.submit(tsanrun.symtab, exe)
            syms = ex.submit(tsanrun.symtab, os.path.join(self.d, "tsan_stress"))
            res = list(ex.map(one, enumerate(jobs)))
        crashes, nontriv = [], set()
        self.exempt_seen = 0
        self.incomplete = 0
        seen = set()
        for r in res:
            idx = cases.index(r["case"])
            bad = [x for x in r["races"] if not x["exempt"]]
            self.exempt_seen += sum(1 for x in r["races"] if x["exempt"])
            if bad and idx not in seen:
                seen.add(idx)
                crashes.append((idx, "ThreadSanitizer: data race\n" + bad[0]["report"]))
            if not r["complete"]:
                self.incomplete += 1
                if "timeout" in r["stderr_tail"] and idx not in seen:
                    seen.add(idx)
                    crashes.append((idx, "program did not terminate (free-running): " + r["out_tail"]))
            else:
                nontriv.add(hashlib.sha1(r["case"].encode()).hexdigest())
        # the wait/signal stress
        seeds = [ctx.seed * 100 + k for k in range(8 if ctx.tier == "quick" else 80)]
        with ThreadPoolExecutor(max_workers=8) as ex:
            sres = list(ex.map(self.run_stress, seeds))
        self.stress_runs = len(sres)
        self.stress_incomplete = sum(1 for r in sres if not r["complete"])
        self.stress_counters = {}
        for r in sres:
            for k, v in r["counters"].items():
                self.stress_counters[k] = self.stress_counters.get(k, 0) + v
        # which library functions ran under TSan: function -> number of runs that entered it
        self.fn_runs = {}
        if covdir:
            tabf, tabs = symf.result(), syms.result()
            for f in os.listdir(covdir):
                for fn in tsanrun.read_cov(os.path.join(covdir, f), tabs if f.startswith("stress_") else tabf):
                    self.fn_runs[fn] = self.fn_runs.get(fn, 0) + 1
        # independent inotify instances in different threads
        iseeds = [ctx.seed * 100 + k for k in range(4 if ctx.tier == "quick" else 24)]
        with ThreadPoolExecutor(max_workers=4) as ex:
            ires_ = list(ex.map(self.run_inotify, iseeds))
        self.inotify_runs = len(ires_)
        self.inotify_events = sum(r["events"] for r in ires_)
        for r in ires_:
            cases.append(r["case"])
            idx = len(cases) - 1
            if r["races"]:
                crashes.append((idx, "ThreadSanitizer: data race (iv_inotify instances in different threads)\n" + r["races"][0]))
            elif r["foreign"]:
                crashes.append((idx, "a watch received %d events that another thread's instance read (rc=%s)" % (r["foreign"], r["rc"])))
            elif not r["complete"]:
                crashes.append((idx, "inotify thread program did not finish (rc=%s): %s" % (r["rc"], r["err"])))
            elif not r["skip"]:
                nontriv.add(hashlib.sha1(r["case"].encode()).hexdigest())
        # signal masks across concurrent forks
        fres = [self.run_fork_mask(k) for k in range(4 if ctx.tier == "quick" else 20)]
        self.fork_mask_runs = len(fres)
        for r in fres:
            cases.append(r["case"])
            idx = len(cases) - 1
            if not r["ok"]:
                crashes.append((idx, "fork_mask_smoke (two threads forking at once, real kernel): %s %s (rc=%s)" % (r["out"], r["err"], r["rc"])))
            else:
                nontriv.add(hashlib.sha1(r["case"].encode()).hexdigest())
        for r in sres:
            cases.append(r["case"])
            idx = len(cases) - 1
            if r["races"]:
                crashes.append((idx, "ThreadSanitizer: data race (wait/signal stress)\n" + r["races"][0]))
            elif not r["complete"]:
                crashes.append((idx, "wait/signal stress did not finish (rc=%s): %s" % (r["rc"], r["err"])))
            else:
                nontriv.add(hashlib.sha1(r["case"].encode()).hexdigest())
        return {"n": len(jobs) + len(sres) + len(ires_) + len(fres), "div": [], "crashes": crashes, "monfail": [], "nontrivial": len(nontriv),
                "mres": [("", None)] * len(cases), "ires": [("", None)] * len(cases), "mon": None}

    def describe(self, case):
        return {"program": case}

    def signature(self, case, why):
        import re
        m = re.search(r"SUMMARY: ThreadSanitizer: data race \S*/src/(\S+) in (\S+)", why)
        return "tsan:" + (m.group(1) + ":" + m.group(2) if m else "race")

    def shrink(self, ctx, case):
        return case

    def distribution(self, cases):
        fn = getattr(self, "fn_runs", {})
        return {"corpus_programs": getattr(self, "n_corpus", 0), "programs": len(cases), "runs_per_program": self.repeat,
                "idle_timeout_programs": len(getattr(self, "idle", [])),
                "stress_runs": getattr(self, "stress_runs", 0), "stress_not_finished": getattr(self, "stress_incomplete", 0),
                "stress_counters": getattr(self, "stress_counters", {}),
                "exempt_flag_races_seen": getattr(self, "exempt_seen", 0), "runs_not_completed": getattr(self, "incomplete", 0),
                "library_functions_under_tsan": len(fn),
                "cross_thread_functions_runs": {k: fn.get(k, 0) for k in self.EXPECTED},
                "cross_thread_functions_not_executed": [k for k in self.EXPECTED if not fn.get(k)],
                "functions_under_tsan": sorted(fn)}

    def replay(self, ctx, path):
        case = None
        for line in open(path):
            if line.startswith("case: "):
                case = line[len("case: "):].rstrip("\n")
                break
        if case is None:
            print(open(path).read())
            return 1
        ok, out = self.build(ctx)
        if not ok:
            print(out)
            return 2
        if case.startswith("FORKMASK "):
            r = self.run_fork_mask(int(case.split()[1]))
            print(r["out"], r["err"])
            return 0 if r["ok"] else 1
        if case.startswith("INOTIFY "):
            r = self.run_inotify(int(case.split()[1]))
            print(r["races"][0] if r["races"] else "no race reported; complete=%s foreign=%s" % (r["complete"], r["foreign"]))
            return 1 if (r["races"] or r["foreign"] or not r["complete"]) else 0
        if case.startswith("STRESS "):
            r = self.run_stress(int(case.split()[1]))
            print(r["races"][0] if r["races"] else "no race reported; complete=%s" % r["complete"])
            return 1 if (r["races"] or not r["complete"]) else 0
        bad = 0
        # an idle-timeout program takes about 11 s of real time: a few runs side by side instead of ten in a row
        n = 3 if "Zstall=" in case else 10
        with ThreadPoolExecutor(max_workers=3 if "Zstall=" in case else 1) as ex:
            runs = list(ex.map(lambda i: tsanrun.run(os.path.join(self.d, "ivfree"), [case])[0], range(n)))
        for r in runs:
            nb = [x for x in r["races"] if not x["exempt"]]
            if nb:
                bad += 1
                if bad == 1:
                    print(nb[0]["report"])
        print("REPLAY: %d of %d runs reported a non-exempt data race" % (bad, n))
        return 1 if bad else 0
