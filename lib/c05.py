"""C05 -- timer heap in the radix tree: proofs in Timer/HeapProofs.v; tie = timer_drv
(real iv_timer.c) vs extracted HeapModel, heap array + back indices after every op.
Second stage: the radix tree itself -- proofs in Timer/RadixProofs.v (RadixModel refines
HeapModel); tie = radix_drv (real iv_timer.c, calloc/free interposed) vs extracted RadixModel:
the same fields plus reachable / allocated / freed node counts after every op, and iv_timer_deinit."""
import os

import hashlib
from concurrent.futures import ThreadPoolExecutor

import vlib
import runner
from framework import LineCheck, first_diff

TREE = "T"          # first token of a case that is run through the radix-tree stage only


class C05(LineCheck):
    pid = "C05"
    coq_targets = ["theories/Timer/HeapModel.vo", "theories/Timer/HeapSpec.vo", "theories/Timer/HeapProofs.vo",
                   "theories/Timer/RadixModel.vo", "theories/Timer/RadixSpec.vo", "theories/Timer/RadixProofs.vo",
                   "theories/Gen/LeafTimer.vo", "theories/Timer/RadixLink.vo", "theories/Timer/RadixHazard.vo",
                   "theories/Base/CSem.vo", "theories/Gen/LeafHeap.vo", "theories/Timer/HeapLink.vo"]
    corr_name = ("correspondence timer_drv(iv_timer.c) = extracted HeapModel (rc, num_timers, rat_depth, numobjs, slot array walked "
                 "through the real radix tree, every back index, fire order) and radix_drv(iv_timer.c) = extracted RadixModel "
                 "(the same plus nodes reachable from timer_root, ratnode callocs, ratnode frees after every op; iv_timer_deinit)")
    trusted = [
        "HeapModel represents the radix tree by the partial map it implements plus its depth; RadixModel (nodes of 128 cells, calloc/free, "
        "slot pointers as addresses, first_leaf/timer_root union) is proved to refine it (C05_radix_*); the node counts reachable = "
        "allocated - freed + 1 are compared with the implementation and checked by the monitor, not proved",
        "radix_drv.c counts calloc(1, sizeof(struct iv_timer_ratnode)) / free of such blocks via -Wl,--wrap; calloc failure (iv_fatal) is not modelled",
        "gen/c2gallina.py (clang JSON AST -> Gen/Leaf.v and Gen/LeafTimer.v, rerun on every check): the condition of the growth test of iv_timer_get_node is "
        "translated with undefined shifts explicit (None) and proved equal to the model's grow_test (C05_radix_growth_test_is_the_code); "
        "+ - * inside that condition are not range-checked by the translator",
        "expiries are Z nanoseconds; timespec_gt on (sec, nsec) with 0 <= nsec < 1e9 is lexicographic = comparison of sec*1e9+nsec",
        "timer_drv.c sets st->time directly and calls iv_run_timers (internal entry point), handlers interpret scripts",
    ]
    assumptions = [
        "every timer id of a history is < 2^30, hence num_timers < 2^30 (POP_BOUND): C int arithmetic is part of RadixModel (undefined shift = EShift, "
        "signed overflow = EOverflow) and no error value is reachable in that range; beyond it push_down's `2 * index` overflows an int for a heap "
        "index >= 2^30 (C05_radix_int_range_refuted), and ++num_timers at INT_MAX; the growth test itself is defined for every depth and every int "
        "index (guard of commit 3da677a, tied to the source by the leaf translator); register/unregister are only called when allowed by "
        "iv_timer_registered (the library aborts otherwise)",
    ]
    rule = ("cases = seeded histories of guarded register/unregister/run-timers with handler scripts; victims biased to root/last/interior/"
            "equal expiries; ramps crossing the 128 and 16384 capacity boundaries in both directions; tree-stage cases (prefix T): unregister of the "
            "last/first/middle/random index exactly at num_timers = 128 and = 16384, oscillation around both boundaries, high-water ramps "
            "(up, down without crossing, up again, down across), iv_timer_deinit (Z) on empty / populated trees of depth 0, 1, 2; every case "
            "of the first stage is also run through the tree stage; non-trivial = the case contains an "
            "unregister of an interior slot (1 < index < num), or a run that fires >= 2 timers, or a depth change; distinct = distinct case text")

    def pre_proof(self, ctx):
        """way (a) of the tie: regenerate Gen/LeafTimer.v (and Gen/Leaf.v) from the current C source (growth test of iv_timer_get_node)"""
        import importlib.util
        spec = importlib.util.spec_from_file_location("c2gallina", os.path.join(vlib.VERIF, "gen", "c2gallina.py"))
        mod = importlib.util.module_from_spec(spec)
        spec.loader.exec_module(mod)
        with vlib.Lock(os.path.join(vlib.COQ, ".lock")):
            err = mod.main()
            if not err:
                # index arithmetic and guards of pull_up / push_down / register / unregister / run_timers (Gen/LeafHeap.v,
                # linked to Timer/HeapModel.v by Timer/HeapLink.v)
                err = mod.main(None, ["LeafHeap.v"]) or getattr(mod, "LAST_ERRORS", {}).get("LeafHeap.v")
        return ("leaf translator failed (tie broken): " + err) if err else None

    def proofs(self, ctx):
        st = LineCheck.proofs(self, ctx)
        if st["broken"] and "RadixLink" in st["broken"]:
            st["broken"] = ("theorem C05_radix_growth_test_is_the_code (Timer/RadixLink.v: growth_test_is_grow_test / growth_test_is_the_code) "
                            "no longer holds: the condition of the growth test `if (...)` of iv_timer_get_node in the current src/iv_timer.c, as "
                            "translated by gen/c2gallina.py into Gen/LeafTimer.v, is not the model's grow_test any more (e.g. the guard "
                            "`(st->rat_depth + 1) * IV_TIMER_SPLIT_BITS < 8 * (int)sizeof(index)` is missing: undefined shift by 35 at rat_depth 4, "
                            "i.e. from 2^28 timers on).  " + st["broken"])
        return st

    def build(self, ctx):
        d = os.path.join(ctx.work, "b")
        self.d = d

        def model(vfile, ml, drv, exe, mod):
            ok, out = vlib.coq_extract(vfile, d)
            if not ok:
                return False, out
            with open(os.path.join(d, drv + ".ml"), "w") as f:
                f.write("open %s\n" % mod)
                f.write(open(os.path.join(vlib.VERIF, "ocaml", "zutil.ml.in")).read())
                f.write(open(os.path.join(vlib.VERIF, "ocaml", drv + ".ml.in")).read())
            ok, out2 = vlib.ocaml_build(d, [ml, drv + ".ml"], exe)
            return ok, out + out2

        def harness():
            ok, out = vlib.cc_build(d, "timer_drv", ["timer_drv.c"], vlib.LIB_SRCS)
            if not ok:
                return False, out
            # the library objects of the first build are linked again; calloc/free are interposed to count rat-nodes
            objs = [os.path.join(d, "lib_" + s_ + ".o") for s_ in vlib.LIB_SRCS]
            ok, out2 = vlib.cc_build(d, "radix_drv", ["radix_drv.c"], [], ldflags=objs, wraps=["calloc", "free"])
            return ok, out + out2

        with ThreadPoolExecutor(max_workers=3) as ex:
            jobs = [ex.submit(model, "Extract/ExtractHeap.v", "heap_model.ml", "heap_drv", "heap_model_run", "Heap_model"),
                    ex.submit(model, "Extract/ExtractRadix.v", "radix_model.ml", "radix_drv", "radix_model_run", "Radix_model"),
                    ex.submit(harness)]
            res = [j_.result() for j_ in jobs]
        return all(r[0] for r in res), "".join(r[1] for r in res)

    # ---- two stages ----
    def correspond(self, ctx, cases):
        """Stage 1 (heap): every case without the T marker, as before.  Stage 2 (tree): every case."""
        hidx = [i for i, c in enumerate(cases) if not c.startswith(TREE + " ")]
        env = dict(runner.ASAN_ENV)

        def stage2():
            m = runner.run_cases_sharded([os.path.join(self.d, "radix_model_run"), "run"], cases, timeout=self.timeout(ctx))
            i = runner.run_cases_sharded([os.path.join(self.d, "radix_drv")], cases, timeout=self.timeout(ctx), env=env)
            mo = runner.run_monitor([os.path.join(self.d, "radix_model_run"), "mon"], cases, [r[0] for r in i],
                                    os.path.join(ctx.work, "tree"))
            return m, i, mo

        # the first stage is dominated by its longest case on one core; the tree stage runs beside it
        with ThreadPoolExecutor(max_workers=1) as ex:
            fut = ex.submit(stage2)
            st1 = LineCheck.correspond(self, ctx, [cases[i] for i in hidx]) if hidx else \
                {"n": 0, "div": [], "crashes": [], "monfail": [], "nontrivial": 0, "mres": [], "ires": [], "mon": []}
            m2, i2, mon2 = fut.result()
        n = len(cases)
        mres = [(None, None)] * n
        ires = [(None, None)] * n
        mon = ["OK"] * n
        for k, i in enumerate(hidx):
            mres[i], ires[i] = st1["mres"][k], st1["ires"][k]
            if st1["mon"] is not None:
                mon[i] = st1["mon"][k]
        div = [(hidx[k], w) for k, w in st1["div"]]
        crashes = [(hidx[k], w) for k, w in st1["crashes"]]
        monfail = [(hidx[k], w) for k, w in st1["monfail"]]
        bad1 = set(i for i, _ in div + crashes + monfail)
        # merge the tree stage
        nontriv = set()
        for idx, c in enumerate(cases):
            mo, merr = m2[idx]
            io, ierr = i2[idx]
            bad = None
            if merr is not None or mo is None:
                div.append((idx, "tree stage: model runner failed: %s" % (merr or "")[:300]))
                bad = True
            elif ierr is not None:
                crashes.append((idx, "tree stage (radix_drv):\n" + ierr))
                bad = True
            elif io != mo:
                div.append((idx, "tree stage: " + first_diff(mo, io)))
                bad = True
            if ierr is None and not mon2[idx].startswith("OK"):
                monfail.append((idx, "tree stage: " + mon2[idx]))
                bad = True
            if idx not in bad1 and (bad or idx not in hidx):
                mres[idx], ires[idx] = m2[idx], i2[idx]
                mon[idx] = mon2[idx]
            if self.nontrivial(c, mo if idx not in hidx else mres[idx][0]):
                nontriv.add(hashlib.sha1(c.encode()).hexdigest())
        self.n_tree_only = n - len(hidx)
        return {"n": n, "div": sorted(set(div)), "crashes": crashes, "monfail": monfail,
                "nontrivial": len(nontriv), "mres": mres, "ires": ires, "mon": mon}

    def model_cmd(self, ctx):
        return [os.path.join(self.d, "heap_model_run"), "run"]

    def impl_cmd(self, ctx):
        return [os.path.join(self.d, "timer_drv")]

    def monitor_cmd(self, ctx):
        return [os.path.join(self.d, "heap_model_run"), "mon"]

    # ---- generators ----
    def history(self, rng, nids, length, espan, with_scripts):
        toks = []
        if with_scripts:
            for _ in range(rng.randint(1, 4)):
                owner = rng.randint(1, nids)
                acts = []
                for _ in range(rng.randint(1, 4)):
                    t = rng.randint(1, nids + 2)
                    if rng.random() < 0.5:
                        acts.append("u%d" % t)
                    else:
                        acts.append("r%d@%d" % (t, rng.randint(0, espan)))
                toks.append("S%d=%s" % (owner, ",".join(acts)))
        clock = 0
        for _ in range(length):
            r = rng.random()
            if r < 0.55:
                # equal keys are frequent with a small span
                toks.append("r%d@%d" % (rng.randint(1, nids), rng.choice([rng.randint(0, espan), clock, clock + 1, 0])))
            elif r < 0.85:
                toks.append("u%d" % rng.randint(1, nids))
            else:
                clock = min(rng.choice([clock, clock + rng.randint(0, max(1, espan // 3)), rng.randint(0, espan)]), 4 * 10 ** 18)
                toks.append("x%d" % clock)
        return " ".join(toks)

    def far_apart(self, rng):
        """near expiries mixed with expiries 2^31 s, 2^32 s (and multiples) away: "arbitrary expiry values" -- a comparison
        that narrows a tv_sec difference goes wrong exactly here"""
        NS = 10 ** 9
        # (values stay below 2^62 ns: the model drivers read them as OCaml ints)
        far = [(2 ** 31 - 1) * NS, 2 ** 31 * NS, (2 ** 31 + 1) * NS, 2 ** 32 * NS, (2 ** 32 + 1) * NS, (2 ** 32 - 1) * NS,
               100 * 365 * 86400 * NS, 3 * 2 ** 30 * NS]
        toks = []
        n = rng.randint(4, 40)
        farid = set(rng.sample(range(1, n + 1), rng.randint(1, 3)))
        order = list(range(1, n + 1))
        rng.shuffle(order)
        for t in order:
            e = rng.choice(far) + rng.randint(0, 3) if t in farid else rng.randint(1, 200) * 1000000
            toks.append("r%d@%d" % (t, e))
        for _ in range(rng.randint(0, 6)):
            t = rng.randint(1, n)
            toks.append(rng.choice(["u%d" % t, "r%d@%d" % (t, rng.choice(far + [rng.randint(1, 200) * 1000000]))]))
        clock = 0
        for _ in range(rng.randint(2, 6)):
            clock += rng.randint(1, 120) * 1000000
            toks.append("x%d" % clock)
        toks.append("x%d" % rng.choice(far))
        return " ".join(toks)

    def ramp(self, rng, top, quiet=True):
        """0 -> top -> 0 with random victims, crossing 128 / 16384 both ways."""
        toks = ["Q"] if quiet else []
        live = []
        nxt = 1
        # up, with occasional removals
        while len(live) < top:
            if live and rng.random() < 0.15:
                i = rng.choice([0, len(live) - 1, rng.randrange(len(live))])
                toks.append("u%d" % live.pop(i))
            else:
                toks.append("r%d@%d" % (nxt, rng.randint(0, 1000)))
                live.append(nxt)
                nxt += 1
        toks.append("D")
        # oscillate around the boundaries
        for b in (16384, 128):
            if top > b:
                while len(live) > b + 3:
                    toks.append("u%d" % live.pop(rng.randrange(len(live))))
                for _ in range(30):
                    if rng.random() < 0.5 and len(live) > b - 3:
                        toks.append("u%d" % live.pop(rng.randrange(len(live))))
                    else:
                        toks.append("r%d@%d" % (nxt, rng.randint(0, 1000)))
                        live.append(nxt)
                        nxt += 1
                toks.append("D")
        # run some, then drain
        toks.append("x300")
        toks.append("D")
        toks.append("x2000")
        toks.append("D")
        return " ".join(toks)

    def tree_cases(self, rng, tier):
        """Cases for the radix-tree stage only (prefix T).  Timer ids are fresh per case."""
        out = []

        def regs(lo, hi):
            return ["r%d@%d" % (i, rng.randint(0, 1000)) for i in range(lo, hi + 1)]

        def victim(kind, live):
            if kind == "last":
                return len(live) - 1
            if kind == "first":
                return 0
            if kind == "middle":
                return len(live) // 2
            return rng.randrange(len(live))

        for b, quiet in ((128, False), (16384, True)):
            pre = [TREE] + (["Q"] if quiet else [])
            # unregister exactly at the boundary: num_timers == b -> b - 1 frees a level
            for kind in ("last", "first", "middle", "random"):
                live = list(range(1, b + 1))
                toks = pre + regs(1, b) + ["D"]
                toks.append("u%d" % live.pop(victim(kind, live)))
                toks.append("D")
                # and straight back up and down again
                toks += ["r%d@%d" % (b + 1, rng.randint(0, 1000)), "u%d" % live.pop(victim(kind, live)), "D"]
                out.append(" ".join(toks))
            # oscillation b-3 .. b+3 with random victims
            live = list(range(1, b - 2))
            toks = pre + regs(1, b - 3)
            nxt = b - 2
            for _ in range(60 if tier == "quick" else 300):
                if len(live) <= b - 3 or (len(live) < b + 3 and rng.random() < 0.5):
                    toks.append("r%d@%d" % (nxt, rng.randint(0, 1000)))
                    live.append(nxt)
                    nxt += 1
                else:
                    toks.append("u%d" % live.pop(victim(rng.choice(["last", "first", "middle", "random"]), live)))
            toks.append("D")
            out.append(" ".join(toks))
            # high-water: up past the boundary by several leaves, down without crossing, up again (no new node), down across
            extra = 300
            live = list(range(1, b + extra + 1))
            toks = pre + regs(1, b + extra) + ["D"]
            while len(live) > b + 2:
                toks.append("u%d" % live.pop(victim("random", live)))
            toks.append("D")
            nxt = b + extra + 1
            for _ in range(extra - 2):
                toks.append("r%d@%d" % (nxt, rng.randint(0, 1000)))
                live.append(nxt)
                nxt += 1
            toks.append("D")
            while len(live) > b - 2:
                toks.append("u%d" % live.pop(victim(rng.choice(["last", "first", "random"]), live)))
            toks.append("D")
            out.append(" ".join(toks))
        # iv_timer_deinit on the tree as it is
        for npop in (0, 5, 127, 128, 129, 300) + ((16383, 16384, 16700) if tier == "quick" else (16383, 16384, 16385, 16700, 33000)):
            toks = [TREE, "Q"] + regs(1, npop)
            if npop > 10:
                live = list(range(1, npop + 1))
                for _ in range(rng.randint(0, 6)):
                    toks.append("u%d" % live.pop(victim("random", live)))
            toks += ["D", "Z"]
            out.append(" ".join(toks))
        # deinit after a level was removed (high-water above the population)
        toks = [TREE, "Q"] + regs(1, 400) + ["u%d" % i for i in range(400, 120, -1)] + ["D", "Z"]
        out.append(" ".join(toks))
        return out

    def cases(self, ctx):
        rng = vlib.rng_for(ctx.seed, "C05")
        cases = []
        corpus = os.path.join(vlib.VERIF, "corpus", "C05.txt")
        if os.path.exists(corpus):
            cases += [l.rstrip("\n") for l in open(corpus) if l.strip()]
        self.n_corpus = len(cases)
        n = 600 if ctx.tier == "quick" else 8000
        for i in range(n):
            nids = rng.choice([3, 6, 12, 30, 80])
            cases.append(self.history(rng, nids, rng.choice([15, 40, 120]), rng.choice([3, 10, 100, 10 ** 12, 3 * 10 ** 18]), rng.random() < 0.5))
            if rng.random() < 0.15:
                cases.append(self.far_apart(rng))
        self.n_hist = n
        # boundary ramps (full dumps for the 128 boundary, quiet for 16384)
        ramps = [(140, False), (300, False), (16400, True)] if ctx.tier == "quick" else \
                [(140, False), (300, False), (300, False), (16400, True), (16500, True), (20000, True), (33000, True)]
        for top, q in ramps:
            cases.append(self.ramp(rng, top, q))
        self.n_ramps = len(ramps)
        tc = self.tree_cases(vlib.rng_for(ctx.seed, "C05tree"), ctx.tier)
        self.n_tree = len(tc)
        return cases + tc

    def nontrivial(self, case, mo):
        if mo is None:
            return False
        ops = [t for t in case.split() if t[0] != "S" and t != "Q" and t != TREE]
        segs = mo.split(" | ")
        depth = set()
        prev_n = 0
        for o, s in zip(ops, segs):
            f = dict(t.split("=", 1) for t in s.split() if "=" in t and t[0] in "rndo")
            depth.add(f.get("d"))
            n = int(f.get("n", "0"))
            if o[0] == "u" and f.get("rc") == "0" and prev_n >= 4:
                return True
            if o[0] == "x" and " F" in s and len(s.split(" F")[-1].split()) >= 2:
                return True
            prev_n = n
        return len(depth) > 1

    def describe(self, case):
        return {"case": case[:600] + (" ...[%d tokens]" % len(case.split()) if len(case) > 600 else "")}

    def signature(self, case, why):
        return ("tree:" if "tree stage" in why else "heap:") + ("crash" if "crash" in why or "sanitizer" in why else "monitor")

    def distribution(self, cases):
        toks = [t for c in cases for t in c.split()]
        return {"corpus_cases": self.n_corpus, "histories": self.n_hist, "ramps": self.n_ramps,
                "tree_stage_only_cases": getattr(self, "n_tree", 0), "deinit_ops": sum(1 for t in toks if t == "Z"),
                "register_ops": sum(1 for t in toks if t[0] == "r"), "unregister_ops": sum(1 for t in toks if t[0] == "u"),
                "run_ops": sum(1 for t in toks if t[0] == "x"), "scripts": sum(1 for t in toks if t[0] == "S")}

    def _fails(self, ctx, case):
        st = self.correspond(ctx, [case])
        return bool(st["crashes"] or st["monfail"])

    def shrink(self, ctx, case):
        toks = case.split()
        if len(toks) > 3000:
            return case
        if toks and toks[0] == TREE:
            keep = [TREE] + (["Q"] if "Q" in toks else [])
            body = [t for t in toks[1:] if t != "Q"]
            return " ".join(keep + self._shrink_toks(ctx, body, keep))
        return " ".join(self._shrink_toks(ctx, toks, []))

    def _shrink_toks(self, ctx, toks, keep):
        tries = 0
        chunk = max(1, len(toks) // 2)
        while chunk >= 1 and tries < 150:
            i = 0
            changed = False
            while i < len(toks) and tries < 150:
                cand = toks[:i] + toks[i + chunk:]
                tries += 1
                if cand and self._fails(ctx, " ".join(keep + cand)):
                    toks = cand
                    changed = True
                else:
                    i += chunk
            if not changed or chunk == 1:
                chunk //= 2
        return toks

    def widen(self, ctx, case):
        toks = case.split()
        if len(toks) > 400:
            return []
        if toks and toks[0] == TREE:
            return [" ".join(toks[:k]) for k in range(2, len(toks) + 1)]
        return [" ".join(toks[:k]) for k in range(1, len(toks) + 1)]
