"""C05 -- timer heap in the radix tree: proofs in Timer/HeapProofs.v; tie = timer_drv
(real iv_timer.c) vs extracted HeapModel, heap array + back indices after every op."""
import os

import vlib
from framework import LineCheck


class C05(LineCheck):
    pid = "C05"
    coq_targets = ["theories/Timer/HeapModel.vo", "theories/Timer/HeapSpec.vo", "theories/Timer/HeapProofs.vo"]
    corr_name = ("correspondence timer_drv(iv_timer.c) = extracted HeapModel (rc, num_timers, rat_depth, numobjs, slot array walked "
                 "through the real radix tree, every back index, fire order)")
    trusted = [
        "modelled, not verified: the radix tree is represented by the partial map it implements plus its depth (growth by one level, "
        "remove_level dropping every slot >= 128^depth); node allocation/calloc zero-fill/free and the timer_root/first_leaf union "
        "are not in the model (ASan/LSan + the dump through the real tree cover them)",
        "expiries are Z nanoseconds; timespec_gt on (sec, nsec) with 0 <= nsec < 1e9 is lexicographic = comparison of sec*1e9+nsec",
        "timer_drv.c sets st->time directly and calls iv_run_timers (internal entry point), handlers interpret scripts",
    ]
    assumptions = [
        "num_timers < 2^31 (C int); register/unregister are only called when allowed by iv_timer_registered (the library aborts otherwise)",
    ]
    rule = ("cases = seeded histories of guarded register/unregister/run-timers with handler scripts; victims biased to root/last/interior/"
            "equal expiries; ramps crossing the 128 and 16384 capacity boundaries in both directions; non-trivial = the case contains an "
            "unregister of an interior slot (1 < index < num), or a run that fires >= 2 timers, or a depth change; distinct = distinct case text")

    def build(self, ctx):
        d = os.path.join(ctx.work, "b")
        ok, out = vlib.coq_extract("Extract/ExtractHeap.v", d)
        if not ok:
            return False, out
        with open(os.path.join(d, "heap_drv.ml"), "w") as f:
            f.write("open Heap_model\n")
            f.write(open(os.path.join(vlib.VERIF, "ocaml", "zutil.ml.in")).read())
            f.write(open(os.path.join(vlib.VERIF, "ocaml", "heap_drv.ml.in")).read())
        ok, out2 = vlib.ocaml_build(d, ["heap_model.ml", "heap_drv.ml"], "heap_model_run")
        if not ok:
            return False, out + out2
        ok, out3 = vlib.cc_build(d, "timer_drv", ["timer_drv.c"], vlib.LIB_SRCS)
        self.d = d
        return ok, out + out2 + out3

    def model_cmd(self, ctx):
        return [os.path.join(self.d, "heap_model_run"), "run"]

    def impl_cmd(self, ctx):
        return [os.path.join(self.d, "timer_drv")]

    def monitor_cmd(self, ctx):
        return [os.path.join(self.d, "heap_model_run"), "mon"]

    # ---- generators ----
    def history(self, rng, nids, length, espan, with_scripts):
        toks = []
        if with_scripts:
            for _ in range(rng.randint(1, 4)):
                owner = rng.randint(1, nids)
                acts = []
                for _ in range(rng.randint(1, 4)):
                    t = rng.randint(1, nids + 2)
                    if rng.random() < 0.5:
                        acts.append("u%d" % t)
                    else:
                        acts.append("r%d@%d" % (t, rng.randint(0, espan)))
                toks.append("S%d=%s" % (owner, ",".join(acts)))
        clock = 0
        for _ in range(length):
            r = rng.random()
            if r < 0.55:
                # equal keys are frequent with a small span
                toks.append("r%d@%d" % (rng.randint(1, nids), rng.choice([rng.randint(0, espan), clock, clock + 1, 0])))
            elif r < 0.85:
                toks.append("u%d" % rng.randint(1, nids))
            else:
                clock = rng.choice([clock, clock + rng.randint(0, max(1, espan // 3)), rng.randint(0, espan)])
                toks.append("x%d" % clock)
        return " ".join(toks)

    def ramp(self, rng, top, quiet=True):
        """0 -> top -> 0 with random victims, crossing 128 / 16384 both ways."""
        toks = ["Q"] if quiet else []
        live = []
        nxt = 1
        # up, with occasional removals
        while len(live) < top:
            if live and rng.random() < 0.15:
                i = rng.choice([0, len(live) - 1, rng.randrange(len(live))])
                toks.append("u%d" % live.pop(i))
            else:
                toks.append("r%d@%d" % (nxt, rng.randint(0, 1000)))
                live.append(nxt)
                nxt += 1
        toks.append("D")
        # oscillate around the boundaries
        for b in (16384, 128):
            if top > b:
                while len(live) > b + 3:
                    toks.append("u%d" % live.pop(rng.randrange(len(live))))
                for _ in range(30):
                    if rng.random() < 0.5 and len(live) > b - 3:
                        toks.append("u%d" % live.pop(rng.randrange(len(live))))
                    else:
                        toks.append("r%d@%d" % (nxt, rng.randint(0, 1000)))
                        live.append(nxt)
                        nxt += 1
                toks.append("D")
        # run some, then drain
        toks.append("x300")
        toks.append("D")
        toks.append("x2000")
        toks.append("D")
        return " ".join(toks)

    def cases(self, ctx):
        rng = vlib.rng_for(ctx.seed, "C05")
        cases = []
        corpus = os.path.join(vlib.VERIF, "corpus", "C05.txt")
        if os.path.exists(corpus):
            cases += [l.rstrip("\n") for l in open(corpus) if l.strip()]
        self.n_corpus = len(cases)
        n = 600 if ctx.tier == "quick" else 8000
        for i in range(n):
            nids = rng.choice([3, 6, 12, 30, 80])
            cases.append(self.history(rng, nids, rng.choice([15, 40, 120]), rng.choice([3, 10, 100, 10 ** 12]), rng.random() < 0.5))
        self.n_hist = n
        # boundary ramps (full dumps for the 128 boundary, quiet for 16384)
        ramps = [(140, False), (300, False), (16400, True)] if ctx.tier == "quick" else \
                [(140, False), (300, False), (300, False), (16400, True), (16500, True), (20000, True), (33000, True)]
        for top, q in ramps:
            cases.append(self.ramp(rng, top, q))
        self.n_ramps = len(ramps)
        return cases

    def nontrivial(self, case, mo):
        if mo is None:
            return False
        ops = [t for t in case.split() if t[0] != "S" and t != "Q"]
        segs = mo.split(" | ")
        depth = set()
        prev_n = 0
        for o, s in zip(ops, segs):
            f = dict(t.split("=", 1) for t in s.split() if "=" in t and t[0] in "rndo")
            depth.add(f.get("d"))
            n = int(f.get("n", "0"))
            if o[0] == "u" and f.get("rc") == "0" and prev_n >= 4:
                return True
            if o[0] == "x" and " F" in s and len(s.split(" F")[-1].split()) >= 2:
                return True
            prev_n = n
        return len(depth) > 1

    def describe(self, case):
        return {"case": case[:600] + (" ...[%d tokens]" % len(case.split()) if len(case) > 600 else "")}

    def signature(self, case, why):
        return "heap:" + ("crash" if "crash" in why or "sanitizer" in why else "monitor")

    def distribution(self, cases):
        toks = [t for c in cases for t in c.split()]
        return {"corpus_cases": self.n_corpus, "histories": self.n_hist, "ramps": self.n_ramps,
                "register_ops": sum(1 for t in toks if t[0] == "r"), "unregister_ops": sum(1 for t in toks if t[0] == "u"),
                "run_ops": sum(1 for t in toks if t[0] == "x"), "scripts": sum(1 for t in toks if t[0] == "S")}

    def _fails(self, ctx, case):
        st = self.correspond(ctx, [case])
        return bool(st["crashes"] or st["monfail"])

    def shrink(self, ctx, case):
        toks = case.split()
        if len(toks) > 3000:
            return case
        tries = 0
        chunk = max(1, len(toks) // 2)
        while chunk >= 1 and tries < 150:
            i = 0
            changed = False
            while i < len(toks) and tries < 150:
                cand = toks[:i] + toks[i + chunk:]
                tries += 1
                if cand and self._fails(ctx, " ".join(cand)):
                    toks = cand
                    changed = True
                else:
                    i += chunk
            if not changed or chunk == 1:
                chunk //= 2
        return " ".join(toks)

    def widen(self, ctx, case):
        toks = case.split()
        if len(toks) > 400:
            return []
        return [" ".join(toks[:k]) for k in range(1, len(toks) + 1)]
