"""C18, stages TLS and LIST: the two small pieces of ivykis that every other model abstracts away.

TLS   src/iv_tls.c (per-thread state block with module areas at aligned offsets): model Small/TlsModel.v,
      theorems Small/TlsProofs.v, generated translation Gen/LeafTls.v linked by Small/TlsLink.v;
      tie = harness/tls_drv.c (real iv_tls_user_register / iv_init / iv_deinit, ASan) vs the extracted model.
LIST  src/include/iv_list.h + __iv_list_steal_elements: pointer-level model Small/ListPtrModel.v, theorems
      Small/ListPtr*.v; tie = harness/list_drv.c (the real header) vs the extracted model, next/prev of every
      node after every operation.

Pseudo-cases (one text line each, like the CHURN cases of C18):
  TLS S=<sizeof(struct iv_state)> L=<library users> U=<own users>     (size + flags i/d per user)
  LIST n=<pool size> <op> ...
"""
import os
import subprocess

import vlib
import runner
import framework

VO = ["theories/Gen/LeafTls.vo", "theories/Small/TlsModel.vo", "theories/Small/TlsProofs.vo", "theories/Small/TlsLink.vo",
      "theories/Small/ListPtrModel.vo", "theories/Small/ListPtrBase.vo", "theories/Small/ListPtrOps.vo",
      "theories/Small/ListPtrOps2.vo", "theories/Small/ListPtrOps3.vo", "theories/Small/ListPtrTop.vo", "theories/Small/ListPtrHist.vo"]

TRUSTED = [
    "iv_tls.c is transcribed by hand into Small/TlsModel.v (registration list as a Coq list, numbers in Z); the offset-advance "
    "expression and the static initialiser of last_offset are ALSO translated from the clang AST on every run (Gen/LeafTls.v) and proved "
    "equal to the model's (Small/TlsLink.v); the int/size_t arithmetic of the C expression is modelled separately (c_advance) and proved "
    "exact while last_offset + sizeof_state <= 2^31 - 16",
    "tls_drv.c finds the library's own iv_tls_users by walking the registration list from its first user and replaces their hook "
    "pointers by recording trampolines; sizeof(struct iv_state) and the library users' sizes are inputs of the model (reported by "
    "`tls_drv probe`, echoed and checked by every case)",
    "iv_list.h is transcribed statement by statement into Small/ListPtrModel.v (store node id -> (next, prev)); the tie is the "
    "comparison of both fields of every pool node after every operation, on valid histories and on memory-safe misuse (aliasing); "
    "the generator's own python simulation only filters out sequences that would dereference NULL in C",
]

RULE = ("TLS: k = 1..12 iv_tls_users registered before iv_init with sizes around the multiples of 16 (0, 1, 15, 16, 17, ...), page-sized "
        "and random, random init/deinit hooks, on top of the users the library registers itself; offsets, total, hook order and areas, "
        "late registration and unregistered-pointer aborts compared with the model; zero / alignment / pattern checks under ASan; "
        "non-trivial = >= 2 own users.  LIST: seeded operation sequences over a pool of 3..12 nodes with 1..3 heads (all primitives of "
        "iv_list.h, __iv_list_steal_elements, for_each, for_each_safe with deletion), 25% of them continuing into memory-safe misuse; "
        "non-trivial = >= 6 operations")


PROBE_FAILED = "S=0 L=-"


def kind(case):
    if case.startswith("TLS "):
        return "TLS"
    if case.startswith("LIST "):
        return "LIST"
    return None


# ---------------------------------------------------------------- build

def build(d):
    """extracted model + driver, tls_drv, list_drv into d.  Returns (ok, log, probe)"""
    ok, out = vlib.coq_extract("Extract/ExtractSmall.v", d)
    if not ok:
        return False, out, None
    with open(os.path.join(d, "small_drv.ml"), "w") as f:
        f.write("open Small_model\n")
        f.write(open(os.path.join(vlib.VERIF, "ocaml", "zutil.ml.in")).read())
        f.write(open(os.path.join(vlib.VERIF, "ocaml", "small_drv.ml.in")).read())
    ok, out2 = vlib.ocaml_build(d, ["small_model.ml", "small_drv.ml"], "small_model_run")
    if not ok:
        return False, out + out2, None
    ok, out3 = vlib.cc_build(d, "tls_drv", ["tls_drv.c"], vlib.LIB_SRCS)
    if not ok:
        return False, out + out2 + out3, None
    ok, out4 = vlib.cc_build(d, "list_drv", ["list_drv.c"], [])
    if not ok:
        return False, out + out2 + out3 + out4, None
    env = dict(os.environ)
    env.update(runner.ASAN_ENV)
    try:
        p = subprocess.run([os.path.join(d, "tls_drv"), "probe"], stdout=subprocess.PIPE, stderr=subprocess.PIPE, text=True,
                           errors="replace", timeout=60, env=env)
    except subprocess.TimeoutExpired:
        return False, "tls_drv probe hangs", None
    probe = p.stdout.strip()
    if p.returncode != 0 or not probe.startswith("S="):
        # not a build problem: the harness cannot even walk the registration list of this library build.  The TLS
        # cases are generated with a placeholder and fail the same way, each with itself as the failing input
        out4 += "\ntls_drv probe failed (rc=%d): %s %s" % (p.returncode, p.stdout[-300:], p.stderr[-2000:])
        probe = PROBE_FAILED
    return True, out + out2 + out3 + out4, probe


# ---------------------------------------------------------------- TLS cases

SIZES = [0, 1, 2, 7, 8, 15, 16, 17, 24, 31, 32, 33, 40, 47, 48, 49, 63, 64, 65, 100, 127, 128, 129, 255, 256, 257]


def gen_tls(rng, probe, n):
    cases = []
    for _ in range(n):
        k = rng.choice([1, 2, 2, 3, 3, 4, 5, 6, 8, 12])
        us = []
        for _ in range(k):
            r = rng.random()
            if r < 0.6:
                sz = rng.choice(SIZES)
            elif r < 0.9:
                sz = rng.randint(0, 600)
            else:
                sz = rng.choice([4095, 4096, 4097, 65536, 100000])
            us.append("%d%s%s" % (sz, "i" if rng.random() < 0.6 else "", "d" if rng.random() < 0.6 else ""))
        cases.append("TLS %s U=%s" % (probe, ",".join(us)))
    return cases


def shrink_tls(case, fails):
    head, _, us = case.rpartition(" U=")
    us = us.split(",")
    i = 0
    tries = 0
    while len(us) > 1 and i < len(us) and tries < 40:
        cand = us[:i] + us[i + 1:]
        tries += 1
        if fails("%s U=%s" % (head, ",".join(cand))):
            us = cand
        else:
            i += 1
    return "%s U=%s" % (head, ",".join(us))


# ---------------------------------------------------------------- LIST cases

class WouldCrash(Exception):
    pass


class Sim:
    """python twin of the list primitives, used ONLY to keep generated sequences memory safe (no NULL dereference)"""

    def __init__(self, n):
        self.n = n
        self.nx = [None] * n
        self.pv = [None] * n

    def copy(self):
        s = Sim(self.n)
        s.nx = list(self.nx)
        s.pv = list(self.pv)
        return s

    def N(self, p):
        if p is None:
            raise WouldCrash()
        return self.nx[p]

    def P(self, p):
        if p is None:
            raise WouldCrash()
        return self.pv[p]

    def sN(self, p, v):
        if p is None:
            raise WouldCrash()
        self.nx[p] = v

    def sP(self, p, v):
        if p is None:
            raise WouldCrash()
        self.pv[p] = v

    def init(self, a):
        self.sN(a, a)
        self.sP(a, a)

    def add(self, a, h):
        self.sN(a, self.N(h))
        self.sP(a, h)
        self.sP(self.N(h), a)
        self.sN(h, a)

    def add_tail(self, a, h):
        self.sN(a, h)
        self.sP(a, self.P(h))
        self.sN(self.P(h), a)
        self.sP(h, a)

    def unlink(self, a):
        self.sN(self.P(a), self.N(a))
        self.sP(self.N(a), self.P(a))

    def delete(self, a):
        self.unlink(a)
        self.sP(a, None)
        self.sN(a, None)

    def del_init(self, a):
        self.unlink(a)
        self.init(a)

    def empty(self, h):
        return self.N(h) == h

    def splice_(self, a, prev, nxt):
        first = self.N(a)
        last = self.P(a)
        self.sP(first, prev)
        self.sN(prev, first)
        self.sN(last, nxt)
        self.sP(nxt, last)

    def steal(self, o, n):
        first = self.N(o)
        last = self.P(o)
        self.sN(last, n)
        self.sP(first, n)
        self.sN(n, self.N(o))
        self.sP(n, self.P(o))
        self.sN(o, o)
        self.sP(o, o)

    def run(self, tok):
        """execute one op token; returns 'LOOP' when the harness would report LOOP; raises WouldCrash"""
        c = tok[0]
        body = tok[1:]
        if c in "FG":
            h, _, vs = body.partition(":")
            h = int(h)
            vs = [int(x) for x in vs.split(".") if x]
            ilh = self.N(h)
            ilh2 = self.N(ilh)
            cnt = 0
            while ilh != h:
                if cnt > self.n:
                    return "LOOP"
                cnt += 1
                if ilh in vs:
                    if c == "F":
                        self.delete(ilh)
                    else:
                        self.del_init(ilh)
                ilh = ilh2
                ilh2 = self.N(ilh)
            return None
        ops = [int(x) for x in body.split(",")]
        a = ops[0]
        b = ops[1] if len(ops) > 1 else None
        if c == "i":
            self.init(a)
        elif c == "a":
            self.add(a, b)
        elif c == "t":
            self.add_tail(a, b)
        elif c == "d":
            self.delete(a)
        elif c == "D":
            self.del_init(a)
        elif c == "e":
            self.empty(a)
        elif c in "sS":
            if not self.empty(a):
                self.splice_(a, b, self.N(b))
                if c == "S":
                    self.init(a)
        elif c in "pP":
            if not self.empty(a):
                self.splice_(a, self.P(b), b)
                if c == "P":
                    self.init(a)
        elif c == "x":
            self.steal(a, b)
        elif c == "f":
            ilh = self.N(a)
            cnt = 0
            while ilh != a:
                if cnt > self.n:
                    return "LOOP"
                cnt += 1
                ilh = self.N(ilh)
        else:
            raise ValueError(tok)
        return None


def safe_prefix(n, ops):
    """longest prefix of ops that neither dereferences NULL nor continues after a LOOP"""
    s = Sim(n)
    out = []
    for o in ops:
        t = s.copy()
        try:
            r = t.run(o)
        except WouldCrash:
            break
        out.append(o)
        if r == "LOOP":
            break
        s = t
    return out


def gen_list_case(rng):
    n = rng.randint(3, 12)
    nh = rng.randint(1, min(3, n - 1))
    sim = Sim(n)
    ops = []
    lists = {}                     # head -> elements
    free = set(range(n))           # neither a head nor on a list
    nulled = set(range(n))         # fields are NULL
    stale = set()                  # former heads whose elements were spliced away without re-initialisation

    def emit(tok):
        t = sim.copy()
        try:
            r = t.run(tok)
        except WouldCrash:
            return False
        sim.nx, sim.pv = t.nx, t.pv
        ops.append(tok)
        return r != "LOOP"

    for h in rng.sample(range(n), nh):
        emit("i%d" % h)
        lists[h] = []
        free.discard(h)
        nulled.discard(h)
    nops = rng.choice([6, 10, 16, 24, 40])
    misuse_from = rng.randint(nops // 2, nops) if rng.random() < 0.25 else None
    for step in range(nops):
        if misuse_from is not None and step >= misuse_from:
            # anything goes as long as C would not dereference NULL
            for _ in range(20):
                c = rng.choice("iatdDesSpPxfFG")
                a, b = rng.randrange(n), rng.randrange(n)
                if c in "idDef":
                    tok = "%s%d" % (c, a)
                elif c in "FG":
                    tok = "%s%d:%s" % (c, a, ".".join(str(x) for x in sorted(rng.sample(range(n), rng.randint(0, min(3, n))))))
                else:
                    tok = "%s%d,%d" % (c, a, b)
                if emit(tok):
                    break
                if ops and ops[-1] == tok:
                    return n, ops          # LOOP reported: the case ends here
            continue
        heads = sorted(lists)
        h = rng.choice(heads)
        r = rng.random()
        usable = sorted(free - stale)
        if r < 0.30 and usable:
            x = rng.choice(usable)
            if not emit("%s%d,%d" % (rng.choice("at"), x, h)):
                return n, ops
            if ops[-1][0] == "a":
                lists[h].insert(0, x)
            else:
                lists[h].append(x)
            free.discard(x)
            nulled.discard(x)
        elif r < 0.45 and lists[h]:
            x = rng.choice(lists[h])
            c = rng.choice("dD")
            if not emit("%s%d" % (c, x)):
                return n, ops
            lists[h].remove(x)
            free.add(x)
            if c == "d":
                nulled.add(x)
        elif r < 0.55:
            cands = heads + [x for l in lists.values() for x in l] + sorted(free - nulled - stale)
            if not emit("e%d" % rng.choice(cands)):
                return n, ops
        elif r < 0.65:
            if not emit("f%d" % h):
                return n, ops
        elif r < 0.75 and len(heads) >= 2:
            a = rng.choice([x for x in heads if x != h])
            c = rng.choice("sSpP")
            if not emit("%s%d,%d" % (c, a, h)):
                return n, ops
            if lists[a]:
                lists[h] = lists[a] + lists[h] if c in "sS" else lists[h] + lists[a]
                lists[a] = []
                if c in "sp":
                    # the source head is stale now: valid use re-initialises it before anything else
                    if not emit("i%d" % a):
                        return n, ops
        elif r < 0.85:
            targets = sorted(free) + [x for x in heads if x != h and not lists[x]]
            if targets:
                x = rng.choice(targets)
                if not emit("x%d,%d" % (h, x)):
                    return n, ops
                lists[x] = lists[h]
                lists[h] = []
                free.discard(x)
                nulled.discard(x)
                stale.discard(x)
        elif r < 0.95:
            c = rng.choice("FG")
            pool = lists[h] + rng.sample(range(n), min(2, n))
            vs = sorted(set(x for x in pool if rng.random() < 0.5))
            if not emit("%s%d:%s" % (c, h, ".".join(str(x) for x in vs))):
                return n, ops
            for x in [y for y in lists[h] if y in vs]:
                lists[h].remove(x)
                free.add(x)
                if c == "F":
                    nulled.add(x)
        else:
            usable = sorted(free)
            if usable:
                x = rng.choice(usable)
                if not emit("i%d" % x):
                    return n, ops
                lists[x] = []
                free.discard(x)
                nulled.discard(x)
                stale.discard(x)
    return n, ops


def gen_list(rng, count):
    cases = []
    for _ in range(count):
        n, ops = gen_list_case(rng)
        ops = safe_prefix(n, ops)
        cases.append("LIST n=%d %s" % (n, " ".join(ops)))
    return cases


def shrink_list(case, fails):
    toks = case.split()
    n = int(toks[1][2:])
    ops = toks[2:]
    i = len(ops) - 1
    tries = 0
    while i >= 0 and tries < 80:
        cand = ops[:i] + ops[i + 1:]
        if safe_prefix(n, cand) == cand and cand:
            tries += 1
            if fails("LIST n=%d %s" % (n, " ".join(cand))):
                ops = cand
        i -= 1
    return "LIST n=%d %s" % (n, " ".join(ops))


# ---------------------------------------------------------------- running

def correspond(d, cases, timeout=600):
    """cases: TLS and LIST lines (any mix).  Returns per case (model_out, impl_out, div_reason | None, crash_text | None)"""
    env = dict(runner.ASAN_ENV)
    res = [None] * len(cases)
    for k, mode, exe in (("TLS", "tls", "tls_drv"), ("LIST", "list", "list_drv")):
        idx = [i for i, c in enumerate(cases) if kind(c) == k]
        if not idx:
            continue
        sub = [cases[i] for i in idx]
        m = runner.run_cases_sharded([os.path.join(d, "small_model_run"), mode], sub, timeout=timeout)
        im = runner.run_cases_sharded([os.path.join(d, exe)], sub, timeout=timeout, env=env)
        for j, i in enumerate(idx):
            mo, merr = m[j]
            io, ierr = im[j]
            div = crash = None
            if merr is not None or mo is None:
                div = "%s stage: model runner failed: %s" % (k, (merr or "")[:300])
            elif ierr is not None:
                crash = "%s stage (harness/%s.c on the real %s, ASan/UBSan):\n%s" % (
                    k, exe, "iv_tls.c + iv_init/iv_deinit" if k == "TLS" else "iv_list.h", ierr)
            elif io != mo:
                div = "%s stage: %s" % (k, framework.first_diff(mo, io))
            res[i] = (mo, io, div, crash)
    return res


def nontrivial(case):
    if case.startswith("TLS "):
        return case.rpartition(" U=")[2].count(",") >= 1
    return len(case.split()) >= 8


def describe(case):
    if case.startswith("TLS "):
        t = dict(x.split("=", 1) for x in case.split()[1:])
        return {"tls_registration": case, "sizeof_struct_iv_state": t.get("S"),
                "library_users_size_flags": t.get("L"), "harness_users_size_flags": t.get("U"),
                "flags": "i = init_thread hook, d = deinit_thread hook"}
    return {"list_ops": case,
            "ops": "i init, a add, t add_tail, d del, D del_init, e empty, s/S splice(_init), p/P splice_tail(_init), x steal_elements, "
                   "f for_each, F/G for_each_safe deleting (del / del_init) the listed nodes"}


def distribution(cases):
    tls = [c for c in cases if c.startswith("TLS ")]
    lst = [c for c in cases if c.startswith("LIST ")]
    d = {"tls_cases": len(tls), "list_cases": len(lst)}
    if tls:
        d["tls_users_registered"] = sum(c.rpartition(" U=")[2].count(",") + 1 for c in tls)
    if lst:
        ops = [t for c in lst for t in c.split()[2:]]
        d["list_ops"] = len(ops)
        for ch, name in (("a", "add"), ("t", "add_tail"), ("d", "del"), ("D", "del_init"), ("x", "steal_elements"),
                         ("F", "for_each_safe_del"), ("G", "for_each_safe_del_init")):
            d["list_" + name] = sum(1 for t in ops if t[0] == ch)
        d["list_splice_family"] = sum(1 for t in ops if t[0] in "sSpP")
    return d
