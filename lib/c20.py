"""C20 -- iv_inotify routing, unregistering in handlers: proofs in Misc/InotifyProofs.v; tie =
inotify_drv (real iv_inotify.c, whole library linked, inotify syscalls and read interposed) vs the
extracted InotifyModel on identical cases: rc of every call, every handler invocation with the event
it was given, the instance's real AVL tree at handler entry / exit and after every operation."""
import os
import re

import vlib
from framework import LineCheck

WRAPS = ["inotify_init", "inotify_add_watch", "inotify_rm_watch", "read", "close"]

ONESHOT = 0x80000000
IGNORED = 0x8000


def kname(chars):
    """name as the kernel stores it: the characters, NUL padded to the next multiple of 16"""
    if not chars:
        return ""
    n = len(chars)
    pad = (n // 16 + 1) * 16 - n
    return "".join("%02x" % ord(c) for c in chars) + "z%d" % pad


def ev(wd, mask, cookie, name=""):
    return "%d:%x:%d:%s" % (wd, mask, cookie, name)


def ev_len(e):
    nm = e.split(":")[3]
    m = re.match(r"^((?:[0-9a-f]{2})*)(?:z(\d+))?$", nm)
    return 16 + len(m.group(1)) // 2 + int(m.group(2) or 0)


def wreg(w, i, wd, mask):
    return "W%d@%d:%d:%x" % (w, i, wd, mask)


class C20(LineCheck):
    pid = "C20"
    coq_targets = ["theories/Misc/InotifyModel.vo", "theories/Misc/InotifyMonitor.vo", "theories/Misc/InotifySpec.vo",
                   "theories/Misc/InotifyCodec.vo", "theories/Misc/InotifyInv.vo", "theories/Misc/InotifyProofs.vo",
                   "theories/Base/CSem.vo", "theories/Gen/LeafInotify.vo", "theories/Misc/InotifyLink.vo"]

    # way (a) of the tie for the record walk of iv_inotify_got_event: read size, ret tests, curr / end initialisation, loop test,
    # advance by len + sizeof(struct inotify_event), IN_IGNORED / IN_ONESHOT test, `this == NULL` are re-translated from the current
    # source on every run (gen/c2gallina.py -> Gen/LeafInotify.v); Misc/InotifyLink.v proves them equal to the model's list walk
    def sibling_stages(self):
        # the watch set is an iv_avl tree (anchor iv_avl.c): the C16 machinery
        import c16
        return [("C16", c16.C16)]

    def pre_proof(self, ctx):
        import leafgen
        return leafgen.regenerate(["LeafInotify.v"])

    def proofs(self, ctx):
        import leafgen
        return leafgen.explain(
            LineCheck.proofs(self, ctx), "InotifyLink", "C20_record_walk_is_the_code (Misc/InotifyLink.v: leaf_read_size / "
            "leaf_ret_tests / leaf_init_view / leaf_loop_test / leaf_advance_model / leaf_dropped_test / leaf_gone_test)",
            "a piece of the record walk of iv_inotify_got_event in the current src/iv_inotify.c (`read(..., sizeof(event_queue))`, "
            "`ret <= 0`, `ret == 0`, `curr = event_queue`, `end = event_queue + ret`, `while (curr < end)`, `event = curr`, "
            "`event->mask & IN_IGNORED || w->mask & IN_ONESHOT`, `curr += event->len + sizeof(struct inotify_event)`, `this == NULL`), "
            "as translated by gen/c2gallina.py into Gen/LeafInotify.v, is not the model's walk over the byte list (QUEUE_SIZE, "
            "zskip (len + 16), bits 15 / 31) any more")

    corr_name = ("correspondence inotify_drv(iv_inotify.c) = extracted InotifyModel (rc of every call, every handler call with its "
                 "event bytes, the real watch tree at handler entry/exit and after every op, iv_fatal)")
    trusted = [
        "gen/c2gallina.py (class CTr: clang JSON AST -> Gen/LeafInotify.v, rerun on every check) and the C semantics Base/CSem.v (pointer "
        "arithmetic = address arithmetic inside [0, 2^64), object bounds not tracked; sizeof evaluated by clang): the pointer walk of "
        "iv_inotify_got_event is translated and proved to simulate the model's walk over the byte list (C20_record_walk_is_the_code); "
        "not translated: read() itself, errno, the decoding of header fields from memory (parse_header), __find_watch, the handler call; "
        "the statements are selected by position (first call of read, if #0 #1 #4 #5, first while, first / second write of curr)",
        "modelled, not verified: the watch set is the sorted association list that the AVL tree of iv_avl.c represents (C16 covers the tree; "
        "the per-op and per-handler dumps walk the real tree); ->term is a three-valued state and the local `this` of the got_event frame a "
        "model variable; struct lifetime is a table (freed = absent), the C side shows stale accesses through ASan on poisoned, freed structs",
        "inotify_drv.c: inotify_init/add_watch/rm_watch/read/close are interposed (--wrap); inotify_init returns a real eventfd registered with "
        "the real epoll; the fd handler is called directly instead of through iv_main; iv_fatal is caught with longjmp; inotify_rm_watch returns "
        "EINVAL like the kernel for a wd whose IN_IGNORED record has been queued (the library ignores the result; the model does not see it)",
        "the event bytes of a read are built by the harness with the real struct inotify_event layout and by the model with its own encoder",
        "driver-level (OCaml, unproved) sanity checks around the Coq monitors (mon_feed per read, mon_act per top-level action, dumps_ok): rc/dump "
        "transitions of top-level actions other than the wd -1 clauses, w->mask seen by handlers",
        "the scenario's oracle: the wd in W<w>@<i>:<wd>:<mask> is what the interposed inotify_add_watch returns in that call; the monitors take "
        "it (not the implementation's rc or tree) as the truth about whether the registration may succeed",
    ]
    assumptions = [
        "a read returns whole records only (kernel contract): buffer = encoding of a list of events with len = number of name bytes, "
        "wd in int range, mask/cookie in uint32 range, at most 65536 bytes",
        "API contract (guards): no unregister of a watch that the library dropped (IN_IGNORED / IN_ONESHOT), whose registration failed, or "
        "whose instance was unregistered; no use of a watch after its instance was unregistered; handlers do not call the fd handler",
    ]
    rule = ("cases = (a) every unregister/register choice (self, watch later in the buffer, watch earlier, instance, instance + new instance, "
            "re-register self, re-register on a wd that comes later, new watch on a later wd, other instance, double unregister) x every position "
            "of multi-event reads x {plain, one-shot watch, IN_IGNORED event, IN_IGNORED for a later watch} x 2..4 watches, names of len 0/16/32/48/.. "
            "and odd lengths; (b) seeded random histories over up to 3 instances and 6 watches with random scripts, unknown wds, wd -1, duplicate wds, "
            "failing inotify_init/add_watch, EINTR/EAGAIN/EIO/empty reads; (b') registrations whose inotify_add_watch answers -1 (top level, first call, "
            "inside handler scripts, on another instance, of an id that was dropped, followed by unregister / re-register of the same id) followed in "
            "the same read and the next one by events with wd -1 (IN_Q_OVERFLOW and other masks) and other negative wds; (c) fresh-instance unregister shapes; (d) reads of exactly 65536 bytes and "
            "long names.  non-trivial = some read delivers >= 2 events, or a handler executes (rc 0) a register/unregister, or a watch is dropped "
            "before its handler; distinct = distinct case text")

    def build(self, ctx):
        d = os.path.join(ctx.work, "b")
        ok, out = vlib.coq_extract("Extract/ExtractInotify.v", d)
        if not ok:
            return False, out
        with open(os.path.join(d, "inotify_drv.ml"), "w") as f:
            f.write("open Inotify_model\n")
            f.write(open(os.path.join(vlib.VERIF, "ocaml", "zutil.ml.in")).read())
            f.write(open(os.path.join(vlib.VERIF, "ocaml", "inotify_drv.ml.in")).read())
        ok, out2 = vlib.ocaml_build(d, ["inotify_model.ml", "inotify_drv.ml"], "inotify_model_run")
        if not ok:
            return False, out + out2
        ok, out3 = vlib.cc_build(d, "inotify_drv", ["inotify_drv.c"], vlib.LIB_SRCS, wraps=WRAPS)
        self.d = d
        return ok, out + out2 + out3

    def model_cmd(self, ctx):
        return [os.path.join(self.d, "inotify_model_run"), "run"]

    def impl_cmd(self, ctx):
        return [os.path.join(self.d, "inotify_drv")]

    def monitor_cmd(self, ctx):
        return [os.path.join(self.d, "inotify_model_run"), "mon"]

    # ---- generators ----
    NAMES = ["", "a", "file.txt", "fifteen_chars_x", "sixteen_chars_xy", "seventeen_chars_x", "x" * 31, "y" * 32, "z" * 40, "n" * 255]

    def rname(self, rng):
        r = rng.random()
        if r < 0.3:
            return ""
        if r < 0.9:
            return kname(rng.choice(self.NAMES))
        # lengths the kernel would not produce (the parser must follow len whatever it is); multiples of 4
        # only: any other len misaligns the next record (UBSan; outcome Misaligned of the model)
        n = rng.choice([4, 8, 12, 20, 36, 60])
        return "".join("%02x" % rng.randint(0, 255) for _ in range(n))

    CHOICES = ["self", "later", "earlier", "inst", "inst_new", "rereg_self", "rereg_later_wd", "new_on_later_wd",
               "other_inst", "other_inst_watch", "double", "self_then_inst", "nothing"]

    def systematic(self, rng, nw, burst, j, choice, variant):
        """one instance (plus a bystander instance 2), nw watches, a burst of events in ONE read; the handler running at
        burst position j makes `choice`."""
        wds = rng.sample([1, 2, 3, 5, 8, 13, 21, 34, 1000, 2147483647], nw)
        masks = [rng.choice([0x100, 0x2, 0xfff, 0x3ff]) for _ in range(nw)]
        order = list(range(nw))
        rng.shuffle(order)
        seq = [rng.randrange(nw) for _ in range(burst)]          # which watch each event hits
        wj = seq[j]
        later = [k for k in seq[j + 1:] if k != wj]
        earlier = [k for k in seq[:j] if k != wj]
        emasks = [rng.choice([0x2, 0x100, 0x40000100, 0x200]) for _ in range(burst)]
        if variant == "oneshot":
            masks[wj] |= ONESHOT
        elif variant == "ignored":
            emasks[j] = IGNORED
        elif variant == "ignored_later" and later:
            k = seq.index(later[0], j + 1)
            emasks[k] = IGNORED
        elif variant == "oneshot_later" and later:
            masks[later[0]] |= ONESHOT
        toks = ["I1", "I2", wreg(nw + 2, 2, wds[0], 0x100)]
        for k in order:
            toks.append(wreg(k + 1, 1, wds[k], masks[k]))
        unknown_wd = 77
        events = []
        for p, k in enumerate(seq):
            events.append(ev(wds[k], emasks[p], p + 1, self.rname(rng)))
            if rng.random() < 0.2:
                events.append(ev(rng.choice([unknown_wd, -1, 0, 4]), rng.choice([0x4000, 0x2]), 100 + p, self.rname(rng)))
        acts = []
        other = later[0] if later else (earlier[0] if earlier else (wj + 1) % nw)
        if choice == "self":
            acts = ["U%d" % (wj + 1)]
        elif choice == "later":
            acts = ["U%d" % (other + 1)]
        elif choice == "earlier":
            acts = ["U%d" % ((earlier[0] if earlier else other) + 1)]
        elif choice == "inst":
            acts = ["J1"]
        elif choice == "inst_new":
            acts = ["J1", "I1", wreg(wj + 1, 1, wds[wj], masks[wj] & ~ONESHOT), wreg(other + 1, 1, wds[other], 0x100)]
        elif choice == "rereg_self":
            acts = ["U%d" % (wj + 1), wreg(wj + 1, 1, wds[wj], masks[wj])]
        elif choice == "rereg_later_wd":
            acts = ["U%d" % (other + 1), "U%d" % (wj + 1), wreg(wj + 1, 1, wds[other], 0x100)]
        elif choice == "new_on_later_wd":
            events.append(ev(unknown_wd, 0x2, 200, self.rname(rng)))
            acts = [wreg(nw + 1, 1, unknown_wd, rng.choice([0x100, 0x100 | ONESHOT]))]
        elif choice == "other_inst":
            acts = ["J2", "U%d" % (nw + 2)]
        elif choice == "other_inst_watch":
            acts = ["U%d" % (nw + 2), wreg(nw + 2, 1, wds[other], 0x1)]
        elif choice == "double":
            acts = ["U%d" % (other + 1), "U%d" % (other + 1), "U%d" % (wj + 1)]
        elif choice == "self_then_inst":
            acts = ["U%d" % (wj + 1), "J1", "U%d" % (other + 1)]
        if acts:
            toks.append("S%d@%d=%s" % (wj + 1, j + 1, ",".join(acts)))
        if rng.random() < 0.3:
            # a default script for some other watch
            toks.append("S%d=%s" % (other + 1, rng.choice(["U%d" % (wj + 1), "U%d" % (other + 1), "J2"])))
        pre = rng.choice(["", "", "e", "ee"])
        toks.append("F1=%s/%s" % (pre, "/".join(events)))
        # a second read afterwards: whatever is still registered keeps working
        toks.append("F1=/" + "/".join(ev(wds[k], 0x2, 50 + k, "") for k in range(nw)))
        toks.append(rng.choice(["J1", "U%d" % (wj + 1), "F1=a"]))
        return " ".join(toks)

    def random_history(self, rng):
        ni = rng.choice([1, 2, 3])
        nw = rng.choice([2, 4, 6])
        wdpool = rng.choice([[1, 2, 3], [1, 2, 3, 4, 5, 6], [-5, 0, 7, 2147483647, -2147483648]])

        def ract():
            r = rng.random()
            if r < 0.15:
                return "I%d%s" % (rng.randint(1, ni), "!" if rng.random() < 0.15 else "")
            if r < 0.30:
                return "J%d" % rng.randint(1, ni)
            if r < 0.70:
                m = rng.choice([0x100, 0x2, 0xfff])
                if rng.random() < 0.2:
                    m |= ONESHOT
                wd = rng.choice(wdpool) if rng.random() < 0.93 else -1
                return wreg(rng.randint(1, nw), rng.randint(1, ni), wd, m)
            return "U%d" % rng.randint(1, nw)

        toks = []
        for _ in range(rng.randint(0, 5)):
            w = rng.randint(1, nw)
            acts = ",".join(ract() for _ in range(rng.randint(1, 4)))
            if rng.random() < 0.5:
                toks.append("S%d=%s" % (w, acts))
            else:
                toks.append("S%d@%d=%s" % (w, rng.randint(1, 4), acts))
        toks.append("I1")
        for _ in range(rng.choice([8, 16, 30])):
            r = rng.random()
            if r < 0.6:
                toks.append(ract())
            else:
                i = rng.randint(1, ni)
                pre = "e" * rng.choice([0, 0, 0, 1, 2, 5])
                q = rng.random()
                if q < 0.06:
                    toks.append("F%d=%sa" % (i, pre))
                elif q < 0.08:
                    toks.append("F%d=%sx" % (i, pre))
                elif q < 0.09:
                    toks.append("F%d=%s" % (i, pre))
                else:
                    evs = []
                    for _ in range(rng.choice([1, 2, 3, 5, 9])):
                        m = rng.choice([0x2, 0x100, 0x200, 0x40000100])
                        if rng.random() < 0.12:
                            m = IGNORED
                        wd = rng.choice(wdpool) if rng.random() < 0.9 else rng.choice([-1, 99])
                        evs.append(ev(wd, m, rng.randint(0, 4), self.rname(rng)))
                    toks.append("F%d=%s/%s" % (i, pre, "/".join(evs)))
        return " ".join(toks)

    NEG_WDS = [-1, -1, -1, -2, -5, -2147483648]
    FAIL_SHAPES = ["top", "top_first", "script", "script_then_unreg", "script_rereg", "both", "other_inst", "after_drop"]

    def failed_registration(self, rng, shape):
        """a registration for which inotify_add_watch answers -1 (oracle -1) at top level and / or inside a handler
        script, then events with wd -1 (queue overflow, IN_Q_OVERFLOW = 0x4000, and other masks including IN_IGNORED)
        and other negative wds between events for the live watches, in the same read and in a later one; the watch id
        whose registration failed is unregistered (guard: skipped) and registered again afterwards."""
        nw = rng.choice([1, 2, 3])
        wds = rng.sample([0, 1, 2, 3, 5, 8, 1000, 2147483647], nw)
        masks = [rng.choice([0x100, 0x2, 0xfff]) for _ in range(nw)]
        f = nw + 1                                  # the watch whose registration fails
        fmask = rng.choice([0x100, 0xfff, 0x100 | ONESHOT])
        free_wd = rng.choice([4, 77, 2147483646])

        def negev(ck):
            wd = rng.choice(self.NEG_WDS)
            if wd == -1 and rng.random() < 0.6:
                return ev(-1, 0x4000, ck, "")
            return ev(wd, rng.choice([0x2, 0x100, 0x4000, IGNORED]), ck, self.rname(rng) if rng.random() < 0.3 else "")

        toks = ["I1"]
        if shape == "other_inst":
            toks += ["I2", wreg(f + 1, 2, wds[0], 0x100)]
        if shape == "top_first":
            toks.append(wreg(f, 1, -1, fmask))      # the failing call is the first one: empty set
        for k in range(nw):
            toks.append(wreg(k + 1, 1, wds[k], masks[k]))
        if shape in ("top", "both"):
            toks.append(wreg(f, 1, -1, fmask))
        if shape == "other_inst":
            toks.append(wreg(f, 2, -1, fmask))
        if shape == "after_drop":
            # watch 1 is dropped by an IN_IGNORED event; its id then fails to register again
            toks.append("F1=/" + ev(wds[0], IGNORED, 40, ""))
            toks.append(wreg(1, 1, -1, fmask))
        # the first read: events for live watches with negative-wd events in between; in the script shapes the handler
        # at position j makes the failing call, the negative wds follow it
        burst = rng.choice([1, 2, 3, 5])
        j = rng.randrange(burst)
        first_live = 1 if shape == "after_drop" else 0
        live = list(range(first_live, nw)) or [0]
        events = []
        if rng.random() < 0.5:
            events.append(negev(90))
        for pos in range(burst):
            k = rng.choice(live)
            events.append(ev(wds[k], rng.choice([0x2, 0x100, 0x200]), pos + 1, self.rname(rng) if rng.random() < 0.3 else ""))
            if pos == j:
                hw = k + 1
                events.append(ev(-1, 0x4000, 60, ""))
            elif rng.random() < 0.5:
                events.append(negev(70 + pos))
        if shape in ("script", "both", "other_inst", "after_drop"):
            acts = [wreg(f, 1, -1, fmask)]
        elif shape == "script_then_unreg":
            acts = [wreg(f, 1, -1, fmask), "U%d" % f, rng.choice(["U%d" % hw, "J1", wreg(f, 1, -1, 0x2)])]
        elif shape == "script_rereg":
            acts = [wreg(f, 1, -1, fmask), wreg(f, 1, free_wd, fmask)]
            events.append(ev(free_wd, 0x2, 61, ""))
            events.append(ev(-1, 0x4000, 62, ""))
        else:
            acts = []
        if acts:
            toks.append("S%d@%d=%s" % (hw, j + 1, ",".join(acts)))
            if rng.random() < 0.3:
                toks.append("S%d@61=%s" % (f, rng.choice(["U%d" % f, wreg(f, 1, -1, 0x2), "J1"])))
        toks.append("F%d=%s/%s" % (1, rng.choice(["", "", "e"]), "/".join(events)))
        # afterwards: the failed id has no struct (unregister is skipped), can be registered, fails again; a second read
        tail = [rng.choice(["U%d" % f, wreg(f, 1, free_wd, 0x100), wreg(f, 1, -1, 0x100)]),
                "F1=/" + "/".join([ev(-1, 0x4000, 63, "")] + [ev(wds[k], 0x2, 50 + k, "") for k in range(nw)] + [negev(64), ev(free_wd, 0x2, 65, "")]),
                rng.choice(["U%d" % f, wreg(f, 1, -1, 0x100), "F1=a"]), "J1"]
        if shape == "other_inst":
            tail.insert(1, "F2=/" + "/".join([ev(-1, 0x4000, 66, ""), ev(wds[0], 0x2, 67, "")]))
            tail.append("J2")
        return " ".join(toks + tail)

    def fresh_cases(self):
        return [
            "I1 J1", "I1 J1 I1 J1", "I1 I2 J2 J1", "I1 I2 J1 J2", "I1! I1 J1", "I1 F1=a J1", "I1 F1=ea J1", "I1 F1=eeeea J1",
            "I1 W1@1:3:100 J1", "I1 W1@1:3:100 U1 J1", "I1 W1@1:-1:100 J1", "I1 W1@1:3:100 W2@1:3:100 J1",
            "I1 F1=/7:2:0: J1", "I1 F1=/-1:4000:0: J1", "I1 W1@1:3:100 F1=/3:2:0: J1", "I1 W1@1:3:100 S1=J1 F1=/3:2:0: I1 J1",
            "I1 W1@1:3:100 S1=J1,I1,J1 F1=/3:2:0:/3:2:0:", "I1 W1@1:3:100 S1=J1,I1 F1=/3:2:0:/3:2:0: J1",
            "I1 I2 I3 W1@2:1:1 S1=J1,J3,J2 F2=/1:1:1:/1:1:1: I1 J1", "I1 F1= J1", "I1 F1=x", "I1 F1=eex J1", "J1 U1 F1=/1:1:1: I1 J1",
            # shrunk cases that killed the hand-made mutants of iv_inotify.c (handler before one-shot delete, advance by len
            # only / by 16 only, reversed tree descent, one-shot / IN_IGNORED not dropped, no NULL check after the loop,
            # unregister without tree delete, EINTR not retried, wrong wd to inotify_rm_watch, ->term left dangling)
            "I1 W1@1:5:800003ff F1=/5:2:50:", "I1 F1=/1000:2:51:", "I1 W2@1:3:2 W1@1:1000:fff F1=/1000:2:50:",
            "I1 W2@1:8:80000002 F1=/8:2:51:", "I1 W1@1:1000:fff S1@1=J1 F1=/1000:200:1:",
            "I1 W1@1:2147483647:3ff W2@1:1:2 S2@1=U1 F1=/1:2:1:", "I1 W1@1:8:100 F1=e/8:8000:2:c331ebfbbe4aa3571cce472fc0bf2cb2e41ddd99",
            "I1 W2@1:1000:100 F1=e/8:8000:2:c331ebfbbe4aa3571cce472fc0bf2cb2e41ddd99/1000:40000100:3:",
            "I1 F1=e/1000:200:3:736576656e7465656e5f63686172735f78z15", "I1 W1@1:1:fff W2@1:8:fff S2@1=U1 F1=/8:8000:1:",
            "I1 F1=/1000:2:51: J1",
            # failed registration (inotify_add_watch answers -1), then a queue-overflow event (wd -1): M12 of docs/MUTATION_SURVEY.md
            "I1 W1@1:-1:100 F1=/-1:4000:0: J1", "I1 W1@1:3:100 S1=W2@1:-1:2 F1=/3:2:0:/-1:4000:0: J1",
        ]

    def big_cases(self, rng):
        out = []
        # exactly 65536 bytes: 4096 records without names
        evs = [ev(rng.choice([1, 2, 3]), 0x2, k % 7, "") for k in range(4096)]
        out.append("I1 W1@1:1:100 W2@1:2:80000100 S1@5=U1,W1@1:3:2 F1=/" + "/".join(evs) + " J1")
        # long names, total close to the limit
        evs, total = [], 0
        while True:
            e = ev(rng.choice([1, 2, 9]), 0x100, len(evs) % 5, kname("q" * rng.choice([255, 100, 4000, 17])))
            if total + ev_len(e) > 65536:
                break
            evs.append(e)
            total += ev_len(e)
        pad = 65536 - total
        if pad >= 16:
            evs.append(ev(2, 0x2, 3, "z%d" % (pad - 16) if pad > 16 else ""))
        out.append("I1 W1@1:1:100 W2@1:2:100 S2@3=J1 F1=e/" + "/".join(evs))
        out.append("I1 W1@1:1:100 W2@1:2:100 S1@4=U2 F1=/" + "/".join(evs) + " F1=a J1")
        return out

    def cases(self, ctx):
        rng = vlib.rng_for(ctx.seed, "C20")
        cases = []
        corpus = os.path.join(vlib.VERIF, "corpus", "C20.txt")
        if os.path.exists(corpus):
            cases += [l.rstrip("\n") for l in open(corpus) if l.strip()]
        self.n_corpus = len(cases)
        fresh = self.fresh_cases()
        cases += fresh
        self.n_fresh = len(fresh)
        self.choice_count = {}
        n0 = len(cases)
        reps = 1 if ctx.tier == "quick" else 10
        for _ in range(reps):
            for nw in (2, 3, 4):
                for burst in (3, 5):
                    for j in range(burst):
                        for choice in self.CHOICES:
                            for variant in ("plain", "oneshot", "ignored", "ignored_later", "oneshot_later"):
                                if ctx.tier == "quick" and rng.random() < 0.45:
                                    continue
                                cases.append(self.systematic(rng, nw, burst, j, choice, variant))
                                self.choice_count[choice] = self.choice_count.get(choice, 0) + 1
        self.n_sys = len(cases) - n0
        # failed registrations (oracle -1) followed by events with wd -1 / other negative wds: every shape, every run
        n1 = len(cases)
        for _ in range(8 if ctx.tier == "quick" else 80):
            for shape in self.FAIL_SHAPES:
                cases.append(self.failed_registration(rng, shape))
        self.n_failreg = len(cases) - n1
        nh = 500 if ctx.tier == "quick" else 40000
        for _ in range(nh):
            cases.append(self.random_history(rng))
        self.n_hist = nh
        big = self.big_cases(rng)
        cases += big
        self.n_big = len(big)
        return cases

    def nontrivial(self, case, mo):
        if mo is None:
            return False
        for seg in mo.split(" | "):
            m = re.match(r"rc=0 n=(\d+)", seg)
            if not m:
                continue
            if int(m.group(1)) >= 2:
                return True
            if re.search(r" A\[(?:[^\]]*,)?0(?:,[^\]]*)?\]", seg):
                return True
            for h in re.finditer(r" H(\d+) (-?\d+):[0-9a-f]+:\d+:\S* m[0-9a-f]+ E\[([^\]]*)\]", seg):
                if ("%s>%s" % (h.group(2), h.group(1))) not in h.group(3).split(","):
                    return True
        return False

    def describe(self, case):
        return {"case": case[:700] + (" ...[%d chars]" % len(case) if len(case) > 700 else "")}

    def signature(self, case, why):
        return "inotify:" + ("crash" if "crash" in why or "sanitizer" in why else "monitor")

    def distribution(self, cases):
        toks = [t for c in cases for t in c.split()]
        feeds = [t for t in toks if t[0] == "F"]
        nev = [t.count("/") for t in feeds]
        acts_in_scripts = [a for t in toks if t[0] == "S" for a in t.split("=", 1)[1].split(",")]
        return {"corpus_cases": self.n_corpus, "fresh_instance_and_regression_shapes": self.n_fresh, "systematic_choice_cases": self.n_sys,
                "systematic_by_choice": self.choice_count, "failed_registration_then_negative_wd_cases": self.n_failreg,
                "registrations_with_oracle_minus1": sum(1 for t in toks + acts_in_scripts if t[0] == "W" and ":-1:" in t),
                "events_with_wd_minus1": sum(len(re.findall(r"/-1:", t)) for t in feeds),
                "events_with_other_negative_wd": sum(len(re.findall(r"/-(?!1:)\d+:", t)) for t in feeds),
                "random_histories": self.n_hist, "size_boundary_cases": self.n_big,
                "reads": len(feeds), "reads_with_ge2_events": sum(1 for n in nev if n >= 2), "events": sum(nev),
                "reads_with_EINTR": sum(1 for t in feeds if "=e" in t), "reads_EAGAIN": sum(1 for t in feeds if re.search(r"=e*a", t)),
                "reads_fatal": sum(1 for t in feeds if re.search(r"=e*(x|$)", t)),
                "events_IN_IGNORED": sum(t.count(":8000:") for t in feeds),
                "oneshot_registrations": sum(1 for t in toks + acts_in_scripts if t[0] == "W" and len(t.rsplit(":", 1)[1]) == 8 and t.rsplit(":", 1)[1][0] in "89abcdef"),
                "script_unregister_watch": sum(1 for a in acts_in_scripts if a[0] == "U"),
                "script_unregister_instance": sum(1 for a in acts_in_scripts if a[0] == "J"),
                "script_register_watch": sum(1 for a in acts_in_scripts if a[0] == "W"),
                "script_register_instance": sum(1 for a in acts_in_scripts if a[0] == "I"),
                "toplevel_register_watch": sum(1 for t in toks if t[0] == "W"), "toplevel_unregister_watch": sum(1 for t in toks if t[0] == "U"),
                "toplevel_register_instance": sum(1 for t in toks if t[0] == "I"), "toplevel_unregister_instance": sum(1 for t in toks if t[0] == "J")}

    def _fails(self, ctx, case):
        st = self.correspond(ctx, [case])
        return bool(st["crashes"] or st["monfail"])

    def shrink(self, ctx, case):
        toks = case.split()
        if len(case) > 20000:
            return case
        tries = 0
        chunk = max(1, len(toks) // 2)
        while chunk >= 1 and tries < 120:
            i = 0
            changed = False
            while i < len(toks) and tries < 120:
                cand = toks[:i] + toks[i + chunk:]
                tries += 1
                if cand and self._fails(ctx, " ".join(cand)):
                    toks = cand
                    changed = True
                else:
                    i += chunk
            if not changed or chunk == 1:
                chunk //= 2
        # then drop events from the reads
        for k, t in enumerate(toks):
            if t[0] != "F" or t.count("/") < 2 or tries >= 200:
                continue
            head, *evs = t.split("/")
            i = 0
            while i < len(evs) and len(evs) > 1 and tries < 200:
                cand = evs[:i] + evs[i + 1:]
                tries += 1
                trial = toks[:k] + ["/".join([head] + cand)] + toks[k + 1:]
                if self._fails(ctx, " ".join(trial)):
                    evs = cand
                    toks = trial
                else:
                    i += 1
        return " ".join(toks)

    def widen(self, ctx, case):
        if len(case) > 20000:
            return []
        toks = case.split()
        scr = [t for t in toks if t[0] == "S"]
        ops = [t for t in toks if t[0] != "S"]
        out = [" ".join(scr + ops[:k]) for k in range(1, min(len(ops), 40) + 1)]
        # every read on its own prefix with the scripts removed (is it the parsing or the handler actions?)
        out += [" ".join(ops[:k]) for k in range(1, min(len(ops), 40) + 1) if ops[k - 1][0] == "F"]
        return out


# ---- independent instances in different loop threads on the real kernel (TSan): "to the handler of the watch whose wd it
# carries and to no other" also when several threads read their instances at the same time ----
def _inotify_threads_stage(self, ctx):
    import c14
    helper = c14.C14()
    helper.d = os.path.join(ctx.work, "tsan_inotify")
    ok, out = vlib.cc_build(helper.d, "tsan_inotify", ["tsan_inotify.c"], vlib.LIB_SRCS,
                            san_flags=["-fsanitize=thread", "-fno-omit-frame-pointer"])
    if not ok:
        return "tsan_inotify does not build: " + out[-600:]
    for k in range(3):
        r = helper.run_inotify(ctx.seed * 100 + k)
        if r["races"]:
            return "ThreadSanitizer: data race (iv_inotify instances in different threads, INOTIFY %d)\n%s" % (ctx.seed * 100 + k, r["races"][0])
        if r["foreign"]:
            return "a watch received %d events that another thread's instance read (INOTIFY %d)" % (r["foreign"], ctx.seed * 100 + k)
        if not r["complete"]:
            return "inotify thread program did not finish (rc=%s): %s" % (r["rc"], r["err"])
    return None


_c20_correspond = C20.correspond


def _c20_correspond_with_threads(self, ctx, cases):
    st = _c20_correspond(self, ctx, cases)
    if len(cases) > 10:
        why = _inotify_threads_stage(self, ctx)
        if why:
            st["crashes"].append((0, why))
    return st


C20.correspond = _c20_correspond_with_threads
